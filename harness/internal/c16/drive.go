package c16

import (
	"bufio"
	"encoding/hex"
	"encoding/json"
	"fmt"
	"math/rand"
	"os"
	"reflect"
	"sort"
	"strings"

	"github.com/tonkeeper/tongo/boc"
	"github.com/tonkeeper/tongo/tlb"

	"verifharness/internal/cells"
	"verifharness/internal/ev"
)

type Opts struct {
	Tier          string
	Seed          int64
	Shard, Shards int
	Repo          string
}

func (o Opts) thorough() bool { return o.Tier == "thorough" }

func repo() string {
	if r := os.Getenv("VERIF_REPO"); r != "" {
		return r
	}
	return "/repo"
}

// ------------------------------------------------------------------------------------------------ events

// cls: the input class of a message event; a message decoded into a variable that held another one is a class of its own
func cls(class string, d *decoded) string {
	if d.reused {
		return class + ":var-reused"
	}
	return class
}

// normEvent: a Message value holding a (after Hash(true)) is given the info, init and body of b; what Hash(true) says then
func normEvent(class string, a, b *decoded) ev.M {
	x, y := cloneMsg(a.m), cloneMsg(b.m)
	_ = x.Hash(true)
	x.Info, x.Init, x.Body = y.Info, y.Init, y.Body
	return ev.M{"k": "Norm", "class": class, "cells": b.cells, "boc": b.boc, "hn": hx(x.Hash(true))}
}

func msgEvent(class string, d *decoded, cs *Case) ev.M {
	class = cls(class, d)
	e := ev.M{"k": "Msg", "class": class, "cells": d.cells, "h": d.h, "hc": d.hc, "hn": d.hn, "hnc": d.hnc, "boc": d.boc}
	if d.reused {
		e["prev"] = d.prev
	}
	if d.hr != "" {
		e["hr"], e["hnr"] = d.hr, d.hnr
	}
	if cs != nil {
		e["case"] = cs.shape()
	}
	return e
}

// refused: the library would not decode a message cell laid out per block.tlb — an event no specification action accepts
func refused(class string, de *decodeErr) ev.M {
	return ev.M{"k": "Decode", "class": class, "stage": de.stage, "cells": de.cells, "boc": de.boc, "err": de.err.Error()}
}

func side(d *decoded) ev.M { return ev.M{"cells": d.cells, "hn": d.hn, "hnc": d.hnc, "boc": d.boc} }

// addrBits: the address as bits (for the harness's own declaration of "same destination")
func addrBits(a tlb.MsgAddress) string {
	c := boc.NewCell()
	if err := wAddr(c, a); err != nil {
		return "err:" + err.Error()
	}
	bs := c.RawBitString()
	return bs.BinaryString()
}

func clearAny(a tlb.MsgAddress) tlb.MsgAddress {
	switch a.SumType {
	case "AddrStd":
		a.AddrStd.Anycast = tlb.Maybe[tlb.Anycast]{}
	case "AddrVar":
		v := *a.AddrVar
		v.Anycast = tlb.Maybe[tlb.Anycast]{}
		a.AddrVar = &v
	}
	return a
}

// declare: the relation the harness claims for two external-in messages, from the values it put in (never from hashes):
// same destination and body -> "equal"; same body, destinations equal once the anycast is dropped -> "free"; else "differ".
func declare(a, b *tlb.Message) string {
	ba, bb := boc.Cell(a.Body.Value), boc.Cell(b.Body.Value)
	sameBody := reflect.DeepEqual(table(&ba), table(&bb))
	da, db := a.Info.ExtInMsgInfo.Dest, b.Info.ExtInMsgInfo.Dest
	switch {
	case sameBody && addrBits(da) == addrBits(db):
		return "equal"
	case sameBody && addrBits(clearAny(da)) == addrBits(clearAny(db)):
		return "free"
	}
	return "differ"
}

func pairEvent(bl builder, why string, ca, cb Case, sa, sb Seeds, dec *tlb.Decoder, r *rand.Rand) (ev.M, error) {
	ma, err := bl.Build(ca, sa)
	if err != nil {
		return nil, err
	}
	mb, err := bl.Build(cb, sb)
	if err != nil {
		return nil, err
	}
	decl := declare(ma, mb)
	da, err := roundTrip(ma, dec, r.Intn(2) == 0, nil, nil)
	if err != nil {
		return nil, withClass(err, class(ca))
	}
	db, err := roundTrip(mb, dec, r.Intn(2) == 0, nil, nil)
	if err != nil {
		return nil, withClass(err, class(cb))
	}
	e := ev.M{"k": "Pair", "why": why, "exp": decl, "a": side(da), "b": side(db), "ca": ca.shape(), "cb": cb.shape(),
		"adest": ca.Dest, "bdest": cb.Dest}
	if r.Intn(2) == 0 {
		e["_norm"] = normEvent(class(cb), da, db)
	}
	return e, nil
}

// emitPair writes a pair event and the Norm event that may ride on it
func emitPair(w *ev.Writer, e ev.M) {
	n, ok := e["_norm"].(ev.M)
	delete(e, "_norm")
	w.Emit(e)
	if ok {
		w.Emit(n)
	}
}

type classed struct {
	class string
	de    *decodeErr
}

func (c *classed) Error() string { return c.de.Error() }

func withClass(err error, class string) error {
	if de, ok := err.(*decodeErr); ok {
		return &classed{class, de}
	}
	return err
}

// emitErr records a failure: a refusal of the library to decode is an event for the specification to reject, anything else
// (the harness could not lay a message out) is a BuildErr.
func emitErr(w *ev.Writer, class string, err error, extra ev.M) {
	var e ev.M
	switch x := err.(type) {
	case *decodeErr:
		e = refused(class, x)
	case *classed:
		e = refused(x.class, x.de)
	default:
		e = ev.M{"k": "BuildErr", "class": class, "err": err.Error()}
	}
	for k, v := range extra {
		e[k] = v
	}
	w.Emit(e)
}

// ------------------------------------------------------------------------------------------------ random cases

func pick(r *rand.Rand, xs ...string) string { return xs[r.Intn(len(xs))] }

func randCase(r *rand.Rand, kind string) Case {
	c := Case{Kind: kind, Init: pick(r, "none", "inline", "ref"), Body: pick(r, "inline", "ref"), Any: r.Intn(3) == 0,
		Fee: pick(r, "zero", "nonzero"), DestV: r.Intn(1 << 30), BodyV: r.Intn(3)}
	switch kind {
	case "ext_in":
		c.Src, c.Dest = pick(r, "none", "extern"), pick(r, "std", "std", "var")
	case "ext_out":
		c.Src, c.Dest, c.Fee = pick(r, "std", "std", "var"), pick(r, "none", "extern"), "zero"
	default:
		c.Src, c.Dest = pick(r, "std", "std", "var"), pick(r, "std", "std", "var")
	}
	return c
}

func class(c Case) string {
	s := c.Kind + ":init=" + c.Init + ":body=" + c.Body + ":src=" + c.Src + ":dest=" + c.Dest
	if c.Any {
		s += ":anycast"
	}
	return s
}

// mutate returns b = a changed in exactly one respect, and the name of that respect.
func mutate(r *rand.Rand, a Case, sa Seeds) (Case, Seeds, string) {
	b, sb := a, sa
	sb.Other = r.Int63() // the ignored parts always get fresh contents
	switch r.Intn(9) {
	case 0:
		b.Src = map[string]string{"none": "extern", "extern": "none"}[a.Src]
		return b, sb, "src"
	case 1:
		b.Fee = map[string]string{"zero": "nonzero", "nonzero": "zero"}[a.Fee]
		return b, sb, "import_fee"
	case 2:
		for b.Init == a.Init {
			b.Init = pick(r, "none", "inline", "ref")
		}
		return b, sb, "init"
	case 3:
		b.Body = map[string]string{"inline": "ref", "ref": "inline"}[a.Body]
		return b, sb, "body-placement"
	case 4:
		return b, sb, "ignored-contents" // same shape, other source / fee amount / state-init contents
	case 5:
		sb.Dest = r.Int63()
		return b, sb, "dest-value"
	case 6:
		b.Dest = map[string]string{"std": "var", "var": "std"}[a.Dest]
		return b, sb, "dest-kind"
	case 7:
		sb.Body = r.Int63()
		if r.Intn(2) == 0 {
			b.BodyV = (a.BodyV + 1 + r.Intn(2)) % 3
		}
		return b, sb, "body-contents"
	default:
		b.Any = !a.Any
		return b, sb, "anycast"
	}
}

// ------------------------------------------------------------------------------------------------ Drive (C->S)

func Drive(w *ev.Writer, o Opts) error {
	if o.Repo == "" {
		o.Repo = repo()
	}
	r := rand.New(rand.NewSource(o.Seed*7919 + int64(o.Shard)*104729 + 17))
	nmsg, npair := 70, 60
	if o.thorough() {
		nmsg, npair = 1400, 1100
	}
	bl := builder{wide: true}
	dec := tlb.NewDecoder()
	sl := &slots{}
	// (a) messages of the three kinds, random shapes and values
	for i := 0; i < nmsg; i++ {
		if i%40 == 39 {
			dec = tlb.NewDecoder()
		}
		cs := randCase(r, pick(r, "int", "ext_in", "ext_in", "ext_out"))
		cl := class(cs)
		var exotic *boc.Cell
		if cs.Body == "ref" && r.Intn(10) == 0 { // a library cell (exotic) as the referenced body
			exotic = libraryCell(r)
			cl += ":body-is-library-cell"
		}
		var d *decoded
		var err error
		var use *slots // every other message is decoded into the two variables that live across the loop
		if r.Intn(2) == 0 {
			use = sl
		}
		bl.bodyMax = 600
		for try := 0; try < 12; try++ { // an inline body that does not fit next to its header is redrawn smaller
			var m *tlb.Message
			sd := Seeds{Dest: r.Int63(), Body: r.Int63(), Other: r.Int63()}
			err = safely(func() error {
				var e error
				if m, e = bl.Build(cs, sd); e != nil {
					return e
				}
				d, e = roundTrip(m, dec, r.Intn(2) == 0, exotic, use)
				return e
			})
			if _, refusal := err.(*decodeErr); err == nil || refusal {
				break
			}
			bl.bodyMax /= 2
		}
		if err != nil {
			emitErr(w, cl, err, nil)
			continue
		}
		w.Emit(msgEvent(cl, d, nil))
		w.Emit(buildEvent(cl, d))
	}
	// (b) pairs of external-in messages that differ in one respect
	bl.bodyMax, bl.uniform = 120, true
	for i := 0; i < npair; i++ {
		if i%40 == 39 {
			dec = tlb.NewDecoder()
		}
		a := randCase(r, "ext_in")
		sa := Seeds{Dest: r.Int63(), Body: r.Int63(), Other: r.Int63()}
		b, sb, why := mutate(r, a, sa)
		var e ev.M
		err := safely(func() error {
			var er error
			e, er = pairEvent(bl, why, a, b, sa, sb, dec, r)
			return er
		})
		if err != nil {
			emitErr(w, "pair:"+why, err, nil)
			continue
		}
		emitPair(w, e)
	}
	// (c) the real blocks
	files, err := blockFiles(o.Repo)
	if err != nil {
		return err
	}
	sort.Strings(files)
	n, occ := 0, 0
	for _, f := range files {
		name, data, err := readBlock(f)
		if err != nil {
			return err
		}
		stride := 1
		if !o.thorough() {
			switch name {
			case "block-4", "block-5":
			case "block-2":
				stride = 12
			default:
				continue
			}
		}
		if err := safely(func() error { return driveBlock(w, name, data, stride, int(o.Seed), o.Shard, o.Shards, &n, &occ, nil) }); err != nil {
			w.Emit(ev.M{"k": "Panic", "src": name, "panic": err.Error()})
		}
		// (d) records derived from the block's transactions: inside Merkle proofs; rebuilt to chosen numbers of cells
		pstride, sizes := 2, []int(nil)
		switch {
		case name == "block-2" && !o.thorough():
			pstride, sizes = 24, []int{255, 256, 257}
		case name == "block-2":
			sizes = []int{255, 256, 257, 65535, 65536, 65537}
		case name == "block-4":
			continue
		}
		if err := safely(func() error { return driveRecords(w, name, data, pstride, int(o.Seed), sizes, o.Shard, o.Shards, &n) }); err != nil {
			w.Emit(ev.M{"k": "Panic", "src": name, "panic": err.Error()})
		}
	}
	w.Emit(ev.M{"k": "End", "events": w.N, "tx_positions_seen": occ, "block_events_all_shards": n})
	return nil
}

// DriveSessions (C->S for spec/MsgHashSeq.tla): random sessions over messages and over the transactions of block-5 / block-2
func DriveSessions(w *ev.Writer, o Opts) error {
	if o.Repo == "" {
		o.Repo = repo()
	}
	r := rand.New(rand.NewSource(o.Seed*15485863 + int64(o.Shard)*32452843 + 5))
	pool, err := sessionTxPool(o.Repo)
	if err != nil {
		return err
	}
	n := 6
	if o.thorough() {
		n = 60
	}
	for i := 0; i < n; i++ {
		for _, kind := range []string{"msg", "tx"} {
			s, err := randomSession(kind, r, pool)
			if err != nil {
				return err
			}
			s.run(w, ev.M{"origin": "random"})
		}
	}
	w.Emit(ev.M{"k": "End", "events": w.N})
	return nil
}

func sessionTxPool(repoDir string) (func() ([]*boc.Cell, error), error) {
	files, err := blockFiles(repoDir)
	if err != nil {
		return nil, err
	}
	for _, f := range files {
		name, data, err := readBlock(f)
		if err != nil {
			return nil, err
		}
		if name == "block-5" {
			return blockTxPool(data), nil
		}
	}
	return nil, fmt.Errorf("block-5 not found")
}

// ReplaySessions (S->C): every behaviour TLC enumerated, once on message cells and once on transaction cells
func ReplaySessions(in string, w *ev.Writer, seed int64) error {
	f, err := os.Open(in)
	if err != nil {
		return err
	}
	defer f.Close()
	pool, err := sessionTxPool(repo())
	if err != nil {
		return err
	}
	sc := bufio.NewScanner(f)
	sc.Buffer(make([]byte, 1<<20), 1<<26)
	n := 0
	for sc.Scan() {
		var v struct {
			Steps []step `json:"steps"`
			Vec   int    `json:"vec"`
		}
		if err := json.Unmarshal(sc.Bytes(), &v); err != nil {
			return fmt.Errorf("vector %d: %w", n, err)
		}
		n++
		r := rand.New(rand.NewSource(seed*2750159 + int64(v.Vec)))
		for _, kind := range []string{"msg", "tx"} {
			cs, err := sessionCells(kind, 2, r, pool)
			if err != nil {
				return err
			}
			(&session{kind: kind, cells: cs, nd: 2, steps: v.Steps}).run(w, ev.M{"origin": "gen", "vec": v.Vec})
		}
	}
	w.Emit(ev.M{"k": "End", "events": n})
	return sc.Err()
}

// ------------------------------------------------------------------------------------------------ Replay (S->C)

type vector struct {
	K     string    `json:"k"` // case | msg | pair  (from TLC);  boc | pairboc | blockrec  (re-execution of a recorded event)
	C     Case      `json:"c"`
	Cells []cells.C `json:"cells"` // the message as MsgHash!EncMsg laid it out
	MsgID int       `json:"id"`    // msg: identity; pair refers to two of them
	Emit  bool      `json:"emit"`  // msg: also record it as an event of its own
	I     int       `json:"i"`
	J     int       `json:"j"`
	Exp   string    `json:"exp"`
	Vec   int       `json:"vec"`
	// re-execution
	Class string `json:"class"`
	Boc   string `json:"boc"`
	Prev  string `json:"prev"`
	BocB  string `json:"bocb"`
	Src   string `json:"src"`
	Pos   string `json:"pos"`
	RecID string `json:"rec"`
	// xmsg | xtx: a bag written by the specification (Boc!Write) holding a message / a transaction with exotic subtrees
	Name string `json:"name"`
	Kind string `json:"kind"`
}

// specTx records the transaction in a bag the specification wrote: decoded through the one cell variable without a hasher
// and from a second parse with a caching decoder.
func specTx(name string, bag []byte) (ev.M, error) {
	parse := func() (*boc.Cell, error) {
		rs, err := boc.DeserializeBoc(bag)
		if err != nil {
			return nil, fmt.Errorf("parse: %w", err)
		}
		return rs[0], nil
	}
	c1, err := parse()
	if err != nil {
		return nil, err
	}
	c2, err := parse()
	if err != nil {
		return nil, err
	}
	src := table(c1)
	var a, b tlb.Transaction
	oneCell = *c1
	if err := safely(func() error { return tlb.Unmarshal(&oneCell, &a) }); err != nil {
		return nil, &decodeErr{"unmarshal-transaction", src, hex.EncodeToString(bag), err}
	}
	if err := safely(func() error { return tlb.NewDecoder().Unmarshal(c2, &b) }); err != nil {
		return nil, &decodeErr{"unmarshal-transaction-with-hasher", src, hex.EncodeToString(bag), err}
	}
	e := txEvent("spec", "exotic:"+name, c1, &a, &b, true)
	e["srcboc"] = hex.EncodeToString(bag)
	return e, nil
}

// fromTable turns a cell table of the generator into cells (bit by bit, reference by reference) and decodes the message.
func fromTable(t []cells.C, dec *tlb.Decoder, viaBoc bool, sl *slots) (*decoded, error) {
	for i := range t {
		if t[i].R == nil {
			t[i].R = []int{}
		}
	}
	roots, err := cells.Build(&cells.Table{Cells: t, Roots: []int{0}}, false)
	if err != nil {
		return nil, fmt.Errorf("layout: %w", err)
	}
	return decodeCell(roots[0], dec, viaBoc, sl)
}

// Replay hands the library the message cells TLC laid out for the enumerated cases: each becomes a Msg (+ Build) or Pair
// event with the real code's reports, carrying the abstract case / the required relation for the trace specification to hold
// against the cells.
func Replay(in string, w *ev.Writer, seed int64) error {
	f, err := os.Open(in)
	if err != nil {
		return err
	}
	defer f.Close()
	sc := bufio.NewScanner(f)
	sc.Buffer(make([]byte, 1<<20), 1<<26)
	dec := tlb.NewDecoder()
	sl := &slots{}
	n := 0
	type known struct {
		d    *decoded
		err  error
		cl   string
		dest string
	}
	msgs := map[int]*known{}
	for sc.Scan() {
		var v vector
		if err := json.Unmarshal(sc.Bytes(), &v); err != nil {
			return fmt.Errorf("vector %d: %w", n, err)
		}
		n++
		if n%50 == 0 {
			dec = tlb.NewDecoder()
		}
		r := rand.New(rand.NewSource(seed*1000003 + int64(v.Vec)))
		var es []ev.M
		err := safely(func() error {
			switch v.K {
			case "case":
				var use *slots
				if v.Vec%2 == 1 {
					use = sl
				}
				d, er := fromTable(v.Cells, dec, r.Intn(2) == 0, use)
				if er != nil {
					return withClass(er, class(v.C))
				}
				es = append(es, msgEvent(class(v.C), d, &v.C), buildEvent(class(v.C), d))
				return nil
			case "msg":
				d, er := fromTable(v.Cells, dec, r.Intn(2) == 0, nil)
				msgs[v.MsgID] = &known{d, er, class(v.C), v.C.Dest}
				if er != nil {
					if _, refusal := er.(*decodeErr); refusal && !v.Emit {
						return nil // recorded by the shard that emits this message (and with every pair that needs it)
					}
					return withClass(er, class(v.C))
				}
				if v.Emit {
					es = append(es, msgEvent(class(v.C), d, &v.C), buildEvent(class(v.C), d))
				}
				return nil
			case "pair":
				a, b := msgs[v.I], msgs[v.J]
				if a == nil || b == nil {
					return fmt.Errorf("pair %d-%d refers to a message this file does not define", v.I, v.J)
				}
				if a.err != nil {
					return withClass(a.err, a.cl)
				}
				if b.err != nil {
					return withClass(b.err, b.cl)
				}
				es = append(es, ev.M{"k": "Pair", "why": "gen", "exp": v.Exp, "a": side(a.d), "b": side(b.d), "i": v.I, "j": v.J,
					"adest": a.dest, "bdest": b.dest})
				if v.Vec%3 == 0 {
					es = append(es, normEvent(b.cl, a.d, b.d))
				}
				return nil
			case "xmsg":
				bag, er := hex.DecodeString(v.Boc)
				if er != nil {
					return er
				}
				cl := v.Kind + ":exotic:" + v.Name
				d, er := decodeBag(bag, nil, dec, true, nil)
				if er != nil {
					return withClass(er, cl)
				}
				es = append(es, msgEvent(cl, d, nil), buildEvent(cl, d))
				return nil
			case "xtx":
				bag, er := hex.DecodeString(v.Boc)
				if er != nil {
					return er
				}
				e, er := specTx(v.Name, bag)
				if er != nil {
					return withClass(er, v.Kind+":exotic:"+v.Name)
				}
				es = append(es, e)
				return nil
			case "boc":
				bag, er := hex.DecodeString(v.Boc)
				if er != nil {
					return er
				}
				var use *slots
				if v.Prev != "" { // the recorded message was decoded into variables that held this one
					pb, er := hex.DecodeString(v.Prev)
					if er != nil {
						return er
					}
					use = &slots{}
					if _, er = decodeBag(pb, nil, dec, true, use); er != nil {
						return er
					}
				}
				d, er := decodeBag(bag, nil, dec, true, use)
				if er != nil {
					return er
				}
				es = append(es, msgEvent(strings.TrimSuffix(v.Class, ":var-reused"), d, nil), buildEvent(v.Class, d))
				return nil
			case "pairboc":
				ba, er := hex.DecodeString(v.Boc)
				if er != nil {
					return er
				}
				bb, er := hex.DecodeString(v.BocB)
				if er != nil {
					return er
				}
				da, er := decodeBag(ba, nil, dec, true, nil)
				if er != nil {
					return er
				}
				db, er := decodeBag(bb, nil, dec, true, nil)
				if er != nil {
					return er
				}
				es = append(es, ev.M{"k": "Pair", "why": v.Class, "exp": v.Exp, "a": side(da), "b": side(db)})
				return nil
			case "blockrec":
				files, er := blockFiles(repo())
				if er != nil {
					return er
				}
				for _, f := range files {
					name, data, er := readBlock(f)
					if er != nil {
						return er
					}
					if name != v.Src {
						continue
					}
					cnt, occ := 0, 0
					return driveBlock(w, name, data, 1, 0, 0, 1, &cnt, &occ, func(pos, id string) bool { return pos == v.Pos && id == v.RecID })
				}
				return fmt.Errorf("no block %q", v.Src)
			}
			return fmt.Errorf("unknown vector kind %q", v.K)
		})
		if err != nil {
			emitErr(w, v.Class, err, ev.M{"vec": v.Vec})
		}
		for _, e := range es {
			e["vec"] = v.Vec
			w.Emit(e)
		}
	}
	w.Emit(ev.M{"k": "End", "events": n})
	return sc.Err()
}
