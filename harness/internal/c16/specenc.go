package c16

import (
	"fmt"
	"math/big"

	"github.com/tonkeeper/tongo/boc"
	"github.com/tonkeeper/tongo/tlb"
)

// The harness's own encoder of messages, written from block.tlb with the bit-level primitives only (WriteUint / WriteInt /
// WriteBit / WriteBitString / AddRef).  The source cells of the recorded messages are laid out by it (or, for the generated
// cases, by MsgHash!EncMsg inside TLC) — never by the library's MarshalTLB methods, which are part of the code under test.
// It is not trusted either: MsgHash_Trace reads every source cell with its own decoder.

func wAnycast(c *boc.Cell, a tlb.Maybe[tlb.Anycast]) error {
	// anycast:(Maybe Anycast); anycast_info$_ depth:(#<= 30) { depth >= 1 } rewrite_pfx:(bits depth)
	if !a.Exists {
		return c.WriteBit(false)
	}
	if err := c.WriteBit(true); err != nil {
		return err
	}
	if err := c.WriteUint(uint64(a.Value.Depth), 5); err != nil {
		return err
	}
	return c.WriteUint(uint64(a.Value.RewritePfx), int(a.Value.Depth))
}

func wAddr(c *boc.Cell, a tlb.MsgAddress) error {
	switch a.SumType {
	case "AddrNone": // addr_none$00
		return c.WriteUint(0, 2)
	case "AddrExtern": // addr_extern$01 len:(## 9) external_address:(bits len)
		bs := *a.AddrExtern
		bs.ResetCounter()
		if err := c.WriteUint(1, 2); err != nil {
			return err
		}
		if err := c.WriteUint(uint64(bs.BitsAvailableForRead()), 9); err != nil {
			return err
		}
		return c.WriteBitString(bs)
	case "AddrStd": // addr_std$10 anycast:(Maybe Anycast) workchain_id:int8 address:bits256
		if err := c.WriteUint(2, 2); err != nil {
			return err
		}
		if err := wAnycast(c, a.AddrStd.Anycast); err != nil {
			return err
		}
		if err := c.WriteInt(int64(a.AddrStd.WorkchainId), 8); err != nil {
			return err
		}
		return c.WriteBytes(a.AddrStd.Address[:])
	case "AddrVar": // addr_var$11 anycast:(Maybe Anycast) addr_len:(## 9) workchain_id:int32 address:(bits addr_len)
		if err := c.WriteUint(3, 2); err != nil {
			return err
		}
		if err := wAnycast(c, a.AddrVar.Anycast); err != nil {
			return err
		}
		if err := c.WriteUint(uint64(a.AddrVar.AddrLen), 9); err != nil {
			return err
		}
		if err := c.WriteInt(int64(a.AddrVar.WorkchainId), 32); err != nil {
			return err
		}
		bs := a.AddrVar.Address
		bs.ResetCounter()
		return c.WriteBitString(bs)
	}
	return fmt.Errorf("address kind %q", a.SumType)
}

// nanograms$_ amount:(VarUInteger 16); var_uint$_ {n:#} len:(#< n) value:(uint (len * 8))
func wGrams(c *boc.Cell, v *big.Int) error {
	b := v.Bytes()
	if err := c.WriteUint(uint64(len(b)), 4); err != nil {
		return err
	}
	return c.WriteBytes(b)
}

func gr(g tlb.Grams) *big.Int { return new(big.Int).SetUint64(uint64(g)) }

func wBool(c *boc.Cell, bs ...bool) error {
	for _, b := range bs {
		if err := c.WriteBit(b); err != nil {
			return err
		}
	}
	return nil
}

// _ split_depth:(Maybe (## 5)) special:(Maybe TickTock) code:(Maybe ^Cell) data:(Maybe ^Cell) library:(HashmapE 256 SimpleLib)
func wStateInit(c *boc.Cell, s tlb.StateInit) error {
	if len(s.Library.Keys()) != 0 {
		return fmt.Errorf("state-init libraries are not laid out by the harness")
	}
	if err := c.WriteBit(s.SplitDepth.Exists); err != nil {
		return err
	}
	if s.SplitDepth.Exists {
		if err := c.WriteUint(uint64(s.SplitDepth.Value), 5); err != nil {
			return err
		}
	}
	if err := c.WriteBit(s.Special.Exists); err != nil {
		return err
	}
	if s.Special.Exists {
		if err := wBool(c, s.Special.Value.Tick, s.Special.Value.Tock); err != nil {
			return err
		}
	}
	if err := wBool(c, s.Code.Exists, s.Data.Exists, false); err != nil {
		return err
	}
	if s.Code.Exists {
		x := s.Code.Value.Value
		if err := c.AddRef(&x); err != nil {
			return err
		}
	}
	if s.Data.Exists {
		x := s.Data.Value.Value
		if err := c.AddRef(&x); err != nil {
			return err
		}
	}
	return nil
}

// encodeSpec: message$_ info:CommonMsgInfo init:(Maybe (Either StateInit ^StateInit)) body:(Either X ^X).
// bodyRef, if not nil, is referenced as the body as it is (an exotic cell can only be expressed this way).
func encodeSpec(m *tlb.Message, bodyRef *boc.Cell) (*boc.Cell, error) {
	c := boc.NewCell()
	var err error
	switch m.Info.SumType {
	case "IntMsgInfo":
		// int_msg_info$0 ihr_disabled bounce bounced src dest value:CurrencyCollection ihr_fee fwd_fee created_lt:uint64 created_at:uint32
		i := m.Info.IntMsgInfo
		if len(i.Value.Other.Dict.Keys()) != 0 {
			return nil, fmt.Errorf("extra currencies are not laid out by the harness")
		}
		err = firstErr(
			func() error { return wBool(c, false, i.IhrDisabled, i.Bounce, i.Bounced) },
			func() error { return wAddr(c, i.Src) }, func() error { return wAddr(c, i.Dest) },
			func() error { return wGrams(c, gr(i.Value.Grams)) }, func() error { return c.WriteBit(false) },
			func() error { return wGrams(c, gr(i.IhrFee)) }, func() error { return wGrams(c, gr(i.FwdFee)) },
			func() error { return c.WriteUint(i.CreatedLt, 64) }, func() error { return c.WriteUint(uint64(i.CreatedAt), 32) })
	case "ExtInMsgInfo":
		// ext_in_msg_info$10 src:MsgAddressExt dest:MsgAddressInt import_fee:Grams
		i := m.Info.ExtInMsgInfo
		fee := big.Int(i.ImportFee)
		err = firstErr(
			func() error { return c.WriteUint(2, 2) },
			func() error { return wAddr(c, i.Src) }, func() error { return wAddr(c, i.Dest) },
			func() error { return wGrams(c, &fee) })
	case "ExtOutMsgInfo":
		// ext_out_msg_info$11 src:MsgAddressInt dest:MsgAddressExt created_lt:uint64 created_at:uint32
		i := m.Info.ExtOutMsgInfo
		err = firstErr(
			func() error { return c.WriteUint(3, 2) },
			func() error { return wAddr(c, i.Src) }, func() error { return wAddr(c, i.Dest) },
			func() error { return c.WriteUint(i.CreatedLt, 64) }, func() error { return c.WriteUint(uint64(i.CreatedAt), 32) })
	default:
		err = fmt.Errorf("message kind %q", m.Info.SumType)
	}
	if err != nil {
		return nil, err
	}
	if err = c.WriteBit(m.Init.Exists); err != nil {
		return nil, err
	}
	if m.Init.Exists {
		if err = c.WriteBit(m.Init.Value.IsRight); err != nil {
			return nil, err
		}
		if m.Init.Value.IsRight {
			si := boc.NewCell()
			if err = wStateInit(si, m.Init.Value.Value); err != nil {
				return nil, err
			}
			if err = c.AddRef(si); err != nil {
				return nil, err
			}
		} else if err = wStateInit(c, m.Init.Value.Value); err != nil {
			return nil, err
		}
	}
	if err = c.WriteBit(m.Body.IsRight); err != nil {
		return nil, err
	}
	body := boc.Cell(m.Body.Value)
	if m.Body.IsRight {
		if bodyRef == nil {
			bodyRef = &body
		}
		return c, c.AddRef(bodyRef)
	}
	if err = c.WriteBitString(body.RawBitString()); err != nil {
		return nil, err
	}
	for _, r := range body.Refs() {
		if err = c.AddRef(r); err != nil {
			return nil, err
		}
	}
	return c, nil
}

func firstErr(fs ...func() error) error {
	for _, f := range fs {
		if err := f(); err != nil {
			return err
		}
	}
	return nil
}
