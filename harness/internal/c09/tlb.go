package c09

// TL-B half of the C09 driver: values of the struct types tlb/parser generates are built from the JSON value
// shape of spec/TlbMini.tla (schema-guided, by reflection), marshalled with the library's reflection codec
// (tlb.Marshal) and the resulting cell tree is recorded ("0101" bit string + references) for TlbMini_Trace,
// and compared with the cell TlbMini!Enc requires where the vector carries one.

import (
	"bufio"
	"encoding/json"
	"fmt"
	"math/big"
	"math/rand"
	"os"
	"reflect"
	"sort"
	"strings"

	"github.com/tonkeeper/tongo/boc"
	"github.com/tonkeeper/tongo/tlb"

	"verifharness/internal/ev"
)

type BType struct {
	T      string   `json:"t"`
	N      int      `json:"n,omitempty"`
	Of     *BType   `json:"of,omitempty"`
	L      *BType   `json:"l,omitempty"`
	R      *BType   `json:"r,omitempty"`
	Name   string   `json:"name,omitempty"`
	Val    *BType   `json:"val,omitempty"`
	Fields []BField `json:"fields,omitempty"`
}

type BField struct {
	Name string `json:"name"`
	Ty   BType  `json:"ty"`
}

type BDecl struct {
	Ctor   string   `json:"ctor"`
	Tag    string   `json:"tag"`
	Result string   `json:"result"`
	Fields []BField `json:"fields"`
}

type BSchema struct {
	Decls []BDecl `json:"decls"`
}

func (s *BSchema) ctorsOf(res string) []*BDecl {
	var r []*BDecl
	for i := range s.Decls {
		if s.Decls[i].Result == res {
			r = append(r, &s.Decls[i])
		}
	}
	return r
}

type TlbPkg struct {
	ID    int
	Types map[string]reflect.Type // combinator (result type) name -> generated Go type
}

var tlbPkgs = map[int]TlbPkg{}

func RegisterTlb(p TlbPkg) { tlbPkgs[p.ID] = p }

func packBits(bits string) []byte {
	out := make([]byte, (len(bits)+7)/8)
	for i := 0; i < len(bits); i++ {
		if bits[i] == '1' {
			out[i/8] |= 0x80 >> uint(i%8)
		}
	}
	return out
}

func fieldsNoMagic(v reflect.Value) []reflect.Value {
	var r []reflect.Value
	for i := 0; i < v.NumField(); i++ {
		n := v.Type().Field(i).Name
		if n == "Magic" || n == "SumType" {
			continue
		}
		r = append(r, v.Field(i))
	}
	return r
}

// bFrom builds a value of generated Go type t from JSON value j of TL-B type ty.
func (s *BSchema) bFrom(ty *BType, j any, t reflect.Type) (reflect.Value, error) {
	out := reflect.New(t).Elem()
	bad := func() (reflect.Value, error) {
		return out, fmt.Errorf("TL-B type %s with value %v cannot be stored in Go type %v", ty.T, j, t)
	}
	str, _ := j.(string)
	switch ty.T {
	case "uint", "nat", "int", "varuint":
		n, ok := new(big.Int).SetString(str, 10)
		if !ok {
			return bad()
		}
		switch t.Kind() {
		case reflect.Uint8, reflect.Uint16, reflect.Uint32, reflect.Uint64:
			out.SetUint(n.Uint64())
		case reflect.Int8, reflect.Int16, reflect.Int32, reflect.Int64:
			out.SetInt(n.Int64())
		case reflect.Struct: // type UintN big.Int
			bv := reflect.ValueOf(*n)
			if !bv.Type().ConvertibleTo(t) {
				return bad()
			}
			out.Set(bv.Convert(t))
		default:
			return bad()
		}
		return out, nil
	case "bits":
		if t.Kind() != reflect.Array || t.Len()*8 != len(str) {
			return bad()
		}
		reflect.Copy(out, reflect.ValueOf(packBits(str)))
		return out, nil
	case "bool":
		b, ok := j.(bool)
		if !ok || t.Kind() != reflect.Bool {
			return bad()
		}
		out.SetBool(b)
		return out, nil
	case "maybe":
		m, _ := j.(map[string]any)
		if t.Kind() != reflect.Pointer || m == nil {
			return bad()
		}
		if m["m"] == "none" {
			return out, nil
		}
		inner := ty.Of
		if inner.T == "ref" { // Maybe ^T is a pointer to T with the tag maybe^
			inner = inner.Of
		}
		e, err := s.bFrom(inner, m["v"], t.Elem())
		if err != nil {
			return out, err
		}
		p := reflect.New(t.Elem())
		p.Elem().Set(e)
		return p, nil
	case "either":
		m, _ := j.(map[string]any)
		if t.Kind() != reflect.Struct || m == nil {
			return bad()
		}
		right := m["e"] == "r"
		out.FieldByName("IsRight").SetBool(right)
		side, fname := ty.L, "Left"
		if right {
			side, fname = ty.R, "Right"
		}
		if f := out.FieldByName("Value"); f.IsValid() { // EitherRef[T]: X on the left, ^X on the right
			fname = "Value"
		}
		if side.T == "ref" && !strings.HasPrefix(out.FieldByName(fname).Type().Name(), "Ref[") {
			side = side.Of
		}
		e, err := s.bFrom(side, m["v"], out.FieldByName(fname).Type())
		if err != nil {
			return out, err
		}
		out.FieldByName(fname).Set(e)
		return out, nil
	case "ref":
		if t.Kind() == reflect.Struct && strings.HasPrefix(t.Name(), "Ref[") {
			e, err := s.bFrom(ty.Of, j, t.Field(0).Type)
			if err != nil {
				return out, err
			}
			out.Field(0).Set(e)
			return out, nil
		}
		return s.bFrom(ty.Of, j, t) // the reference is a struct tag of the enclosing field
	case "anon":
		m, _ := j.(map[string]any)
		if t.Kind() != reflect.Struct || m == nil {
			return bad()
		}
		return out, s.bFields(ty.Fields, m, out)
	case "named":
		m, _ := j.(map[string]any)
		if t.Kind() != reflect.Struct || m == nil {
			return bad()
		}
		cs := s.ctorsOf(ty.Name)
		ctor, _ := m["_"].(string)
		if _, isSum := t.FieldByName("SumType"); !isSum {
			if len(cs) != 1 {
				return bad()
			}
			return out, s.bFields(cs[0].Fields, m, out)
		}
		k := 0
		for i := 0; i < t.NumField(); i++ {
			if t.Field(i).Name == "SumType" {
				continue
			}
			if k < len(cs) && cs[k].Ctor == ctor {
				out.FieldByName("SumType").SetString(t.Field(i).Name)
				return out, s.bFields(cs[k].Fields, m, out.Field(i))
			}
			k++
		}
		return bad()
	case "dict":
		arr, ok := j.([]any)
		if !ok || t.Kind() != reflect.Struct {
			return bad()
		}
		pv := reflect.New(t)
		put := pv.MethodByName("Put")
		if !put.IsValid() {
			return bad()
		}
		kt, vt := put.Type().In(0), put.Type().In(1)
		for _, it := range arr {
			m, _ := it.(map[string]any)
			ks, _ := m["k"].(string)
			kv := reflect.New(kt).Elem()
			switch kt.Kind() {
			case reflect.Uint8, reflect.Uint16, reflect.Uint32, reflect.Uint64:
				n, _ := new(big.Int).SetString(ks, 2)
				kv.SetUint(n.Uint64())
			case reflect.Array:
				if kt.Len()*8 != len(ks) {
					return bad()
				}
				reflect.Copy(kv, reflect.ValueOf(packBits(ks)))
			default:
				return bad()
			}
			vv, err := s.bFrom(ty.Val, m["v"], vt)
			if err != nil {
				return out, err
			}
			put.Call([]reflect.Value{kv, vv})
		}
		return pv.Elem(), nil
	}
	return bad()
}

func (s *BSchema) bFields(fs []BField, m map[string]any, out reflect.Value) error {
	gf := fieldsNoMagic(out)
	if len(gf) != len(fs) {
		return fmt.Errorf("%v has %d fields, the declaration %d", out.Type(), len(gf), len(fs))
	}
	for i, f := range fs {
		x, ok := m[f.Name]
		if !ok {
			return fmt.Errorf("value lacks field %s", f.Name)
		}
		e, err := s.bFrom(&fs[i].Ty, x, gf[i].Type())
		if err != nil {
			return fmt.Errorf("%s: %v", f.Name, err)
		}
		gf[i].Set(e)
	}
	return nil
}

func cellJSON(c *boc.Cell, depth int) map[string]any {
	bs := c.RawBitString()
	refs := []any{}
	if depth < 64 {
		for _, r := range c.Refs() {
			refs = append(refs, cellJSON(r, depth+1))
		}
	}
	return map[string]any{"b": bs.BinaryString(), "r": refs}
}

func canonCell(v any) string {
	b, _ := json.Marshal(v)
	return string(b)
}

// ---------------------------------------------------------------- random values (C->S)
type bGen struct {
	r *rand.Rand
}

func (g *bGen) bits(n int) string {
	var sb strings.Builder
	mode := g.r.Intn(5)
	for i := 0; i < n; i++ {
		switch mode {
		case 0:
			sb.WriteByte('0')
		case 1:
			sb.WriteByte('1')
		default:
			sb.WriteByte("01"[g.r.Intn(2)])
		}
	}
	return sb.String()
}

func (g *bGen) value(s *BSchema, ty *BType, depth int) any {
	switch ty.T {
	case "uint", "nat":
		n, _ := new(big.Int).SetString(g.bits(ty.N), 2)
		return n.String()
	case "int":
		b := g.bits(ty.N)
		n, _ := new(big.Int).SetString(b, 2)
		if b[0] == '1' {
			n.Sub(n, new(big.Int).Lsh(big.NewInt(1), uint(ty.N)))
		}
		return n.String()
	case "bits":
		return g.bits(ty.N)
	case "bool":
		return g.r.Intn(2) == 1
	case "maybe":
		if g.r.Intn(2) == 0 {
			return map[string]any{"m": "none"}
		}
		return map[string]any{"m": "just", "v": g.value(s, ty.Of, depth)}
	case "either":
		if g.r.Intn(2) == 0 {
			return map[string]any{"e": "l", "v": g.value(s, ty.L, depth)}
		}
		return map[string]any{"e": "r", "v": g.value(s, ty.R, depth)}
	case "ref":
		return g.value(s, ty.Of, depth)
	case "anon":
		m := map[string]any{"_": ""}
		for i := range ty.Fields {
			m[ty.Fields[i].Name] = g.value(s, &ty.Fields[i].Ty, depth+1)
		}
		return m
	case "named":
		cs := s.ctorsOf(ty.Name)
		d := cs[g.r.Intn(len(cs))]
		m := map[string]any{"_": d.Ctor}
		for i := range d.Fields {
			m[d.Fields[i].Name] = g.value(s, &d.Fields[i].Ty, depth+1)
		}
		return m
	case "dict":
		n := g.r.Intn(6)
		keys := map[string]bool{}
		for i := 0; i < n; i++ {
			keys[g.bits(ty.N)] = true
		}
		var ks []string
		for k := range keys {
			ks = append(ks, k)
		}
		sort.Strings(ks)
		out := make([]any, 0, len(ks))
		for _, k := range ks {
			out = append(out, map[string]any{"k": k, "v": g.value(s, ty.Val, depth+1)})
		}
		return out
	}
	panic("c09: unknown TL-B type " + ty.T)
}

// ---------------------------------------------------------------- driver
type bVec struct {
	Vec  int    `json:"vec"`
	Ty   string `json:"ty"`
	V    any    `json:"v"`
	Fits bool   `json:"fits"`
	Cell any    `json:"cell"`
}

type bSchemaIn struct {
	Schema int      `json:"schema"`
	AST    *BSchema `json:"ast"`
	Vecs   []bVec   `json:"vecs"`
	Raw    json.RawMessage
}

func readBSchemas(path string) ([]bSchemaIn, error) {
	f, err := os.Open(path)
	if err != nil {
		return nil, err
	}
	defer f.Close()
	sc := bufio.NewScanner(f)
	sc.Buffer(make([]byte, 1<<20), 1<<30)
	var out []bSchemaIn
	for sc.Scan() {
		var s bSchemaIn
		if err := json.Unmarshal(sc.Bytes(), &s); err != nil {
			return nil, err
		}
		var raw struct {
			AST json.RawMessage `json:"ast"`
		}
		json.Unmarshal(sc.Bytes(), &raw)
		s.Raw = raw.AST
		out = append(out, s)
	}
	return out, sc.Err()
}

func tlbMarshal(v reflect.Value) (c *boc.Cell, err error, pan string) {
	defer func() {
		if r := recover(); r != nil {
			pan = fmt.Sprint(r)
		}
	}()
	c = boc.NewCell()
	err = tlb.Marshal(c, v.Interface())
	return
}

// TlbRun marshals every vector of every schema (vectors given by TLC, or `per` random values per type when a
// schema comes without vectors), writes one result line per vector that carries an expected cell (S->C) to w and
// one TlbMarshal event per call to tw (C->S, judged by TlbMini_Trace).
func TlbRun(in string, w, tw *ev.Writer, seed int64, per int) error {
	ss, err := readBSchemas(in)
	if err != nil {
		return err
	}
	n := 0
	for _, si := range ss {
		p, ok := tlbPkgs[si.Schema]
		if !ok {
			continue
		}
		s := si.AST
		tw.Emit(ev.M{"k": "Reset", "schema": si.Raw, "note": fmt.Sprintf("schema %d", si.Schema)})
		vecs := si.Vecs
		if len(vecs) == 0 {
			rng := rand.New(rand.NewSource(seed*1000003 + int64(si.Schema)))
			g := &bGen{r: rng}
			var names []string
			for name := range p.Types {
				names = append(names, name)
			}
			sort.Strings(names)
			for _, name := range names {
				for i := 0; i < per; i++ {
					vecs = append(vecs, bVec{Vec: len(vecs), Ty: name, V: g.value(s, &BType{T: "named", Name: name}, 0)})
				}
			}
		}
		for _, v := range vecs {
			t, ok := p.Types[v.Ty]
			if !ok {
				return fmt.Errorf("schema %d: no Go type for %s", si.Schema, v.Ty)
			}
			gv, err := s.bFrom(&BType{T: "named", Name: v.Ty}, v.V, t)
			if err != nil {
				return fmt.Errorf("schema %d %s: %v", si.Schema, v.Ty, err)
			}
			c, merr, pan := tlbMarshal(gv)
			if pan != "" {
				tw.Emit(ev.M{"k": "Panic", "op": "TlbMarshal", "ty": v.Ty, "v": v.V, "panic": pan})
				if v.Cell != nil {
					n++
					w.Emit(ev.M{"schema": si.Schema, "vec": v.Vec, "ty": v.Ty, "match": false, "why": "panic " + pan})
				}
				continue
			}
			e := ev.M{"k": "TlbMarshal", "ty": v.Ty, "v": v.V, "err": ev.ErrClass(merr)}
			var cj map[string]any
			if merr == nil {
				cj = cellJSON(c, 0)
				e["cell"] = cj
			}
			tw.Emit(e)
			if v.Cell != nil {
				n++
				r := ev.M{"schema": si.Schema, "vec": v.Vec, "ty": v.Ty, "match": merr == nil && canonCell(cj) == canonCell(v.Cell)}
				if r["match"] == false {
					r["why"] = fmt.Sprintf("cell differs (err=%v)", merr)
					if cj != nil {
						r["got_cell"] = cj
					}
				}
				w.Emit(r)
			}
		}
	}
	w.Emit(ev.M{"k": "End", "events": n})
	tw.Emit(ev.M{"k": "End", "events": tw.N})
	return nil
}
