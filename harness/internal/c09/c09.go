// Package c09 is the runtime of the C09 (TL half) driver. checks/c09.py copies this package, together with
// internal/ev and internal/tlval, into a scratch module under /verif/work/C09 (module name `verifharness`, so
// the import paths stay valid), adds one Go package per schema holding the output of tongo's tl/parser plus a
// small registration file, and a main package that imports them all and calls Main. One `go build` therefore
// compiles every generated package against /repo's working tree.
//
//	replay: TLC vectors (spec/gen/TlShape_Gen.tla) -> compare MarshalTL / UnmarshalTL / request methods with the
//	        specification's bytes and values (S->C), one result line per vector
//	drive:  schema-driven random values through the generated code, one event per call for TlSem_Trace (C->S)
package c09

import (
	"bufio"
	"bytes"
	"context"
	"encoding/hex"
	"encoding/json"
	"flag"
	"fmt"
	"math/rand"
	"os"
	"reflect"
	"sort"

	"github.com/tonkeeper/tongo/tl"

	"verifharness/internal/ev"
	"verifharness/internal/tlval"
)

// Pkg is what the registration file of one generated package hands over.
type Pkg struct {
	ID        int
	Types     map[string]reflect.Type // constructor (single-constructor types) / result type (sums) / function -> Go type
	NewClient func(h func(q []byte) ([]byte, error)) any
	Decode    func(b []byte) (uint32, *string, any, error) // the package's LiteapiRequestDecoder
}

var pkgs = map[int]Pkg{}

func Register(p Pkg) { pkgs[p.ID] = p }

func ty(name string) tlval.TvType { return tlval.TvNamed(name) }

func marshal(v reflect.Value) (b []byte, err error, pan string) {
	defer func() {
		if r := recover(); r != nil {
			pan = fmt.Sprint(r)
		}
	}()
	b, err = tl.Marshal(v.Interface())
	return
}

func unmarshal(t reflect.Type, data []byte) (v reflect.Value, rest int, err error, pan string) {
	defer func() {
		if r := recover(); r != nil {
			pan = fmt.Sprint(r)
		}
	}()
	p := reflect.New(t)
	r := bytes.NewReader(data)
	err = tl.Unmarshal(r, p.Interface())
	return p.Elem(), r.Len(), err, ""
}

// sliceForms returns two copies of v: every EMPTY slice inside replaced by a nil slice, and by an empty non-nil one.
// Both are the same TL value (an empty bytes / vector); the generated MarshalTL must treat them alike. n is the
// number of empty slices found.
func sliceForms(v reflect.Value) (asNil, asEmpty reflect.Value, n int) {
	asNil = reflect.New(v.Type()).Elem()
	asNil.Set(v)
	asEmpty = reflect.New(v.Type()).Elem()
	asEmpty.Set(v)
	n = setEmpty(asNil, true)
	setEmpty(asEmpty, false)
	return
}

func setEmpty(v reflect.Value, toNil bool) int {
	n := 0
	switch v.Kind() {
	case reflect.Slice:
		if v.Len() == 0 {
			if !v.CanSet() {
				return 0
			}
			if toNil {
				v.Set(reflect.Zero(v.Type()))
			} else {
				v.Set(reflect.MakeSlice(v.Type(), 0, 0))
			}
			return 1
		}
		if v.Type().Elem().Kind() == reflect.Uint8 {
			return 0
		}
		// elements are shared with the original: copy the backing array first
		c := reflect.MakeSlice(v.Type(), v.Len(), v.Len())
		reflect.Copy(c, v)
		if v.CanSet() {
			v.Set(c)
		}
		for i := 0; i < v.Len(); i++ {
			n += setEmpty(v.Index(i), toNil)
		}
	case reflect.Struct:
		for i := 0; i < v.NumField(); i++ {
			if v.Type().Field(i).IsExported() {
				n += setEmpty(v.Field(i), toNil)
			}
		}
	case reflect.Pointer:
		if !v.IsNil() {
			c := reflect.New(v.Type().Elem())
			c.Elem().Set(v.Elem())
			if v.CanSet() {
				v.Set(c)
			}
			n += setEmpty(v.Elem(), toNil)
		}
	}
	return n
}

type callOut struct {
	payload     []byte
	calls       int
	res         any // JSON value
	errv        any // JSON value of a LiteServerErrorC error
	err         error
	pan         string
	emptySlices int // empty slices in the request value
}

// call invokes the generated request method of function fn with request value reqv; the connection stub
// records what the method hands to liteServerRequest and answers with `answer`.
func call(p Pkg, s *tlval.TvSchema, fn string, reqv any, answer []byte, nilForm bool) (o callOut, herr error) {
	d := s.Fn(fn)
	if d == nil {
		return o, fmt.Errorf("no function %s", fn)
	}
	cl := reflect.ValueOf(p.NewClient(func(q []byte) ([]byte, error) {
		o.calls++
		o.payload = append([]byte{}, q...)
		return append([]byte{}, answer...), nil
	}))
	m := cl.MethodByName(tlval.TvCamel(fn))
	if !m.IsValid() {
		return o, fmt.Errorf("generated client has no method %s", tlval.TvCamel(fn))
	}
	args := []reflect.Value{reflect.ValueOf(context.Background())}
	if m.Type().NumIn() == 2 {
		rq, err := s.TvFromJSON(ty(fn), reqv, m.Type().In(1))
		if err != nil {
			return o, err
		}
		asNil, asEmpty, n := sliceForms(rq)
		o.emptySlices = n
		if nilForm {
			rq = asNil
		} else {
			rq = asEmpty
		}
		args = append(args, rq)
	}
	var out []reflect.Value
	func() {
		defer func() {
			if r := recover(); r != nil {
				o.pan = fmt.Sprint(r)
			}
		}()
		out = m.Call(args)
	}()
	if o.pan != "" {
		return o, nil
	}
	if e, _ := out[1].Interface().(error); e != nil {
		o.err = e
		ev := reflect.ValueOf(e)
		if ev.Kind() == reflect.Struct && ev.Type().Name() == "LiteServerErrorC" {
			j, err := s.TvToJSON(ty("liteServer.error"), ev)
			if err != nil {
				return o, err
			}
			o.errv = j
		}
		return o, nil
	}
	j, err := s.TvToJSON(ty(d.Result), out[0])
	if err != nil {
		return o, err
	}
	o.res = j
	return o, nil
}

type vec struct {
	Vec   int    `json:"vec"`
	Ty    string `json:"ty"`
	Op    string `json:"op"`
	V     any    `json:"v"`
	Forms string `json:"forms"` // "": both forms of empty slices are marshalled; "nil" / "empty": only that one (canaries)
	Hex   string `json:"hex"`
	Body  string `json:"body"`
	IsErr bool   `json:"is_err"`
	ResV  any    `json:"resv"`
}

type schemaIn struct {
	Schema int             `json:"schema"`
	AST    *tlval.TvSchema `json:"ast"`
	Raw    json.RawMessage `json:"-"`
	Vecs   []vec           `json:"vecs"`
	X      map[string]any  `json:"-"`
}

func readSchemas(path string) ([]schemaIn, error) {
	f, err := os.Open(path)
	if err != nil {
		return nil, err
	}
	defer f.Close()
	sc := bufio.NewScanner(f)
	sc.Buffer(make([]byte, 1<<20), 1<<30)
	var out []schemaIn
	for sc.Scan() {
		var s schemaIn
		if err := json.Unmarshal(sc.Bytes(), &s); err != nil {
			return nil, err
		}
		var rawAst struct {
			AST json.RawMessage `json:"ast"`
		}
		json.Unmarshal(sc.Bytes(), &rawAst)
		s.Raw = rawAst.AST
		out = append(out, s)
	}
	return out, sc.Err()
}

// Replay: S->C.
func Replay(in string, w *ev.Writer) error {
	ss, err := readSchemas(in)
	if err != nil {
		return err
	}
	n := 0
	for _, si := range ss {
		p, ok := pkgs[si.Schema]
		if !ok {
			continue // the package did not compile / generate; reported by the runner
		}
		s := si.AST
		for _, v := range si.Vecs {
			n++
			res := ev.M{"schema": si.Schema, "vec": v.Vec, "ty": v.Ty, "op": v.Op, "match": false}
			data, _ := hex.DecodeString(v.Hex)
			fail := func(f string, a ...any) { res["why"] = fmt.Sprintf(f, a...) }
			switch v.Op {
			case "Enc", "EncBare":
				t, ok := p.Types[v.Ty]
				if !ok {
					return fmt.Errorf("schema %d: no Go type for %s", si.Schema, v.Ty)
				}
				gv, rest, uerr, pan := unmarshal(t, data)
				if pan != "" || uerr != nil || rest != 0 {
					fail("unmarshal err=%v panic=%q unread=%d", uerr, pan, rest)
					break
				}
				j, err := s.TvToJSON(ty(v.Ty), gv)
				if err != nil {
					return fmt.Errorf("schema %d: %v", si.Schema, err)
				}
				if tlval.TvCanon(j) != tlval.TvCanon(v.V) {
					fail("decoded value differs")
					res["got_v"] = j
					break
				}
				// marshal a value built from the vector (not the one just decoded), so both directions are independent
				bv, err := s.TvFromJSON(ty(v.Ty), v.V, t)
				if err != nil {
					return fmt.Errorf("schema %d: %v", si.Schema, err)
				}
				// an empty bytes / vector is marshalled in both Go forms: nil slice and empty non-nil slice
				asNil, asEmpty, _ := sliceForms(bv)
				allOK := true
				for _, f := range []struct {
					name string
					v    reflect.Value
				}{{"empty", asEmpty}, {"nil", asNil}} {
					if v.Forms != "" && v.Forms != f.name {
						continue
					}
					b, merr, pan := marshal(f.v)
					if pan != "" || merr != nil || hex.EncodeToString(b) != v.Hex {
						fail("marshal (empty slices as %s) err=%v panic=%q", f.name, merr, pan)
						res["got_hex"] = hex.EncodeToString(b)
						res["form"] = f.name
						allOK = false
						break
					}
				}
				res["match"] = allOK
			case "Rej":
				// bytes the schema does not define (TlSem!Dec refuses them): the generated UnmarshalTL must refuse them too
				t, ok := p.Types[v.Ty]
				if !ok {
					return fmt.Errorf("schema %d: no Go type for %s", si.Schema, v.Ty)
				}
				_, rest, uerr, pan := unmarshal(t, data)
				if pan != "" {
					fail("unmarshal panic=%q", pan)
					break
				}
				if uerr == nil {
					fail("bytes outside the schema's layout were accepted (unread=%d)", rest)
					break
				}
				res["match"] = true
			case "Fn":
				tag, name, val, derr := p.Decode(append([]byte{}, data...))
				d := s.Fn(v.Ty)
				if derr != nil || name == nil || *name != v.Ty || fmt.Sprintf("%08x", tag) != d.ID {
					fail("request decoder: tag=%08x name=%v err=%v", tag, name, derr)
					break
				}
				j, err := s.TvToJSON(ty(v.Ty), reflect.ValueOf(val))
				if err != nil {
					return fmt.Errorf("schema %d: %v", si.Schema, err)
				}
				if tlval.TvCanon(j) != tlval.TvCanon(v.V) {
					fail("request decoder: value differs")
					res["got_v"] = j
					break
				}
				res["match"] = true
			case "Call":
				body, _ := hex.DecodeString(v.Body)
				// the request with its empty slices as non-nil slices, and (when it has any) as nil slices
				for _, nilForm := range []bool{false, true} {
					o, err := call(p, s, v.Ty, v.V, body, nilForm)
					if err != nil {
						return fmt.Errorf("schema %d: %v", si.Schema, err)
					}
					res["match"] = false
					switch {
					case o.pan != "":
						fail("panic %s", o.pan)
					case o.calls != 1 || hex.EncodeToString(o.payload) != v.Hex:
						fail("request bytes differ (%d requests, empty slices as nil: %v)", o.calls, nilForm)
						res["got_hex"] = hex.EncodeToString(o.payload)
					case v.IsErr && (o.err == nil || o.errv == nil || tlval.TvCanon(o.errv) != tlval.TvCanon(v.ResV)):
						fail("error answer not returned as that error: err=%v", o.err)
						res["got_v"] = o.errv
					case !v.IsErr && (o.err != nil || tlval.TvCanon(o.res) != tlval.TvCanon(v.ResV)):
						fail("result differs: err=%v", o.err)
						res["got_v"] = o.res
					default:
						res["match"] = true
					}
					if res["match"] == false && nilForm {
						res["form"] = "nil"
					}
					if res["match"] == false || o.emptySlices == 0 {
						break
					}
				}
			default:
				return fmt.Errorf("unknown op %q", v.Op)
			}
			w.Emit(res)
		}
	}
	w.Emit(ev.M{"k": "End", "events": n})
	return nil
}

// targets of a schema for the C->S driver: (TL name, operator)
func targets(s *tlval.TvSchema) [][2]string {
	var r [][2]string
	seen := map[string]bool{}
	for _, d := range s.Types {
		if len(s.CtorsOf(d.Result)) == 1 {
			r = append(r, [2]string{d.Ctor, "Enc"})
		} else if !seen[d.Result] {
			seen[d.Result] = true
			r = append(r, [2]string{d.Result, "Enc"})
		}
	}
	for _, d := range s.Functions {
		r = append(r, [2]string{d.Ctor, "EncBare"})
	}
	return r
}

func idLE(id string) []byte {
	b, _ := hex.DecodeString(id)
	for i, j := 0, len(b)-1; i < j; i, j = i+1, j-1 {
		b[i], b[j] = b[j], b[i]
	}
	return b
}

// Drive: C->S over larger random schemas.
func Drive(in string, w *ev.Writer, seed int64, per int) error {
	ss, err := readSchemas(in)
	if err != nil {
		return err
	}
	for _, si := range ss {
		p, ok := pkgs[si.Schema]
		if !ok {
			continue
		}
		s := si.AST
		rng := rand.New(rand.NewSource(seed*1000003 + int64(si.Schema)))
		w.Emit(ev.M{"k": "Reset", "schema": si.Raw, "note": fmt.Sprintf("schema %d", si.Schema)})
		for _, tg := range targets(s) {
			t, ok := p.Types[tg[0]]
			if !ok {
				return fmt.Errorf("schema %d: no Go type for %s", si.Schema, tg[0])
			}
			for n := 0; n < per; n++ {
				g := &tlval.TvGen{R: rng, MaxVec: 4, Budget: 1500, ModeCounter: n}
				val := g.Value(s, ty(tg[0]))
				gv, err := s.TvFromJSON(ty(tg[0]), val, t)
				if err != nil {
					return fmt.Errorf("schema %d %s: %v", si.Schema, tg[0], err)
				}
				// empty bytes / vectors as nil slices in every other value (both are the same TL value), and where a value
				// has any, the other form as an event of its own
				asNil, asEmpty, nEmpty := sliceForms(gv)
				gv, other := asEmpty, asNil
				if n%2 == 1 {
					gv, other = asNil, asEmpty
				}
				if nEmpty > 0 {
					if b2, merr2, pan2 := marshal(other); pan2 != "" {
						w.Emit(ev.M{"k": "Panic", "op": "Marshal", "ty": tg[0], "v": val, "panic": pan2})
					} else {
						w.Emit(ev.M{"k": "Marshal", "ty": tg[0], "op": tg[1], "v": val, "hex": hex.EncodeToString(b2), "err": ev.ErrClass(merr2)})
					}
				}
				b, merr, pan := marshal(gv)
				if pan != "" {
					w.Emit(ev.M{"k": "Panic", "op": "Marshal", "ty": tg[0], "v": val, "panic": pan})
					continue
				}
				w.Emit(ev.M{"k": "Marshal", "ty": tg[0], "op": tg[1], "v": val, "hex": hex.EncodeToString(b), "err": ev.ErrClass(merr)})
				if merr != nil {
					continue
				}
				tail := make([]byte, 4*rng.Intn(2))
				rng.Read(tail)
				inputs := [][]byte{append(append([]byte{}, b...), tail...)}
				if n%3 == 0 && len(b) > 0 {
					inputs = append(inputs, b[:rng.Intn(len(b))])
				}
				for _, data := range inputs {
					v2, rest, uerr, pan := unmarshal(t, data)
					if pan != "" {
						w.Emit(ev.M{"k": "Panic", "op": "Unmarshal", "ty": tg[0], "hex": hex.EncodeToString(data), "panic": pan})
						continue
					}
					m := ev.M{"k": "Unmarshal", "ty": tg[0], "op": tg[1], "hex": hex.EncodeToString(data), "rest": rest, "err": ev.ErrClass(uerr)}
					if uerr == nil {
						j, err := s.TvToJSON(ty(tg[0]), v2)
						if err != nil {
							return fmt.Errorf("schema %d %s: %v", si.Schema, tg[0], err)
						}
						m["v"] = j
					}
					w.Emit(m)
				}
			}
		}
		// request methods: the answer is built by the generated code itself (constructor id + MarshalTL of a random
		// value of the result type, or a liteServer.error); TlSem judges request bytes and returned value
		fns := append([]tlval.TvDecl{}, s.Functions...)
		sort.SliceStable(fns, func(i, j int) bool { return fns[i].Ctor < fns[j].Ctor })
		for _, d := range fns {
			for n := 0; n < (per+1)/2; n++ {
				g := &tlval.TvGen{R: rng, MaxVec: 3, Budget: 600, ModeCounter: n}
				reqv := g.Value(s, ty(d.Ctor))
				var answer []byte
				cs := s.CtorsOf(d.Result)
				if n%4 == 3 {
					ed := s.Ctor("liteServer.error")
					evv, err := s.TvFromJSON(ty(ed.Ctor), g.Value(s, ty(ed.Ctor)), p.Types[ed.Ctor])
					if err != nil {
						return err
					}
					b, _, _ := marshal(evv)
					answer = append(idLE(ed.ID), b...)
				} else if len(cs) == 1 {
					rv, err := s.TvFromJSON(ty(cs[0].Ctor), g.Value(s, ty(cs[0].Ctor)), p.Types[cs[0].Ctor])
					if err != nil {
						return err
					}
					b, _, _ := marshal(rv)
					answer = append(idLE(cs[0].ID), b...)
				} else {
					rv, err := s.TvFromJSON(ty(d.Result), g.Value(s, ty(d.Result)), p.Types[d.Result])
					if err != nil {
						return err
					}
					answer, _, _ = marshal(rv)
				}
				if n%7 == 6 && len(answer) > 4 {
					answer = answer[:4+rng.Intn(len(answer)-4)] // truncated answer: must come back as an error
				}
				o, err := call(p, s, d.Ctor, reqv, answer, n%2 == 1)
				if err != nil {
					return fmt.Errorf("schema %d %s: %v", si.Schema, d.Ctor, err)
				}
				if o.pan != "" {
					w.Emit(ev.M{"k": "Panic", "op": "Call", "fn": d.Ctor, "v": reqv, "panic": o.pan})
					continue
				}
				e := ev.M{"k": "Call", "fn": d.Ctor, "v": reqv, "frame": "none", "payload": hex.EncodeToString(o.payload),
					"ans": hex.EncodeToString(answer), "err": ev.ErrClass(o.err), "writes": o.calls}
				if o.errv != nil {
					e["errv"] = o.errv
				}
				if o.err == nil {
					e["res"] = o.res
				}
				w.Emit(e)
			}
		}
	}
	w.Emit(ev.M{"k": "End", "events": w.N})
	return nil
}

// Main is the entry point of the generated driver binary.
func Main() {
	mode := flag.String("mode", "replay", "replay|drive|tlb")
	in := flag.String("in", "", "input NDJSON")
	out := flag.String("out", "", "output NDJSON")
	seed := flag.Int64("seed", 1, "seed")
	per := flag.Int("per", 10, "values per type (drive)")
	trace := flag.String("trace", "", "trace output NDJSON (tlb)")
	flag.Parse()
	w, err := ev.Create(*out)
	if err != nil {
		fmt.Fprintln(os.Stderr, err)
		os.Exit(2)
	}
	switch *mode {
	case "replay":
		err = Replay(*in, w)
	case "drive":
		err = Drive(*in, w, *seed, *per)
	case "tlb":
		var tw *ev.Writer
		if tw, err = ev.Create(*trace); err == nil {
			if err = TlbRun(*in, w, tw, *seed, *per); err == nil {
				err = tw.Close()
			}
		}
	default:
		err = fmt.Errorf("unknown mode %s", *mode)
	}
	if err != nil {
		w.Close()
		fmt.Fprintln(os.Stderr, "c09drv:", err)
		os.Exit(2)
	}
	if err := w.Close(); err != nil {
		fmt.Fprintln(os.Stderr, err)
		os.Exit(2)
	}
}
