package main

// History mode of the generator runner (C09, "generation is a function of its input"): TLC (spec/gen/GenHist_Gen.tla)
// enumerates histories of generator calls; every history is executed in a process of its own (this binary re-executes
// itself), so that whatever a call leaves behind in the process can only reach the later calls of the same history.
//
//	gen -hist IN.json TRACE.ndjson     IN = {"schemas": {"B1": text, ...}, "histories": [["tlb|B1|default", ...], ...]}
//	gen -hist1 IN1.json                one history: prints [{"out": sha256, "err": "...", "text": "..."}] to stdout
//
// A call is "<compiler>|<schema>|<options>": compiler tlb (tlb/parser) or tl (tl/parser); options name one of the ways
// a generator can be constructed (see tlbOptions / tlKnown). The output of a call is EVERY exported result of the generator:
// tlb/parser GenerateGolangTypes + GetTlbTypes (names and definitions in the order returned); tl/parser LoadTypes + LoadFunctions. The trace has one segment per history: a Reset event with
// `ref` = the output of each of its calls when it is the only call of a fresh process, then one Gen event per call.

import (
	"bytes"
	"crypto/sha256"
	"encoding/hex"
	"encoding/json"
	"fmt"
	"os"
	"os/exec"
	"sort"
	"strings"

	"github.com/tonkeeper/tongo/tl/parser"
	tlbparser "github.com/tonkeeper/tongo/tlb/parser"
)

type histIn struct {
	Schemas   map[string]string `json:"schemas"`
	Histories [][]string        `json:"histories"`
}

type callOut struct {
	Out  string `json:"out"`
	Err  string `json:"err"`
	Text string `json:"text"`
}

// the ways a tlb/parser generator is constructed
func tlbOptions(name string) ([]tlbparser.Option, error) {
	over := map[string]tlbparser.DefaultType{ // overrides default names and introduces names the schemas declare
		"Grams": {Name: "tlb.VarUInteger16"}, "Bool": {Name: "tlb.Uint1"}, "Inner": {Name: "tlb.Any"}, "MsgAddress": {Name: "tlb.InternalAddress"},
	}
	switch name {
	case "default":
		return nil, nil
	case "over": // WithDefaultTypes(m, false): the form abi/parser uses
		return []tlbparser.Option{tlbparser.WithDefaultTypes(over, false)}, nil
	case "replace":
		return []tlbparser.Option{tlbparser.WithDefaultTypes(over, true)}, nil
	}
	return nil, fmt.Errorf("unknown tlb options %q", name)
}

func tlKnown(name string) (map[string]parser.DefaultType, error) {
	switch name {
	case "default":
		return nil, nil
	case "custom":
		return map[string]parser.DefaultType{"#": {Name: "uint32"}, "int": {Name: "int32"}, "int256": {Name: "tl.Int256"}, "long": {Name: "int64"},
			"bytes": {Name: "[]byte", IsPointerType: true}, "Bool": {Name: "bool"}, "string": {Name: "string"}}, nil
	}
	return nil, fmt.Errorf("unknown tl options %q", name)
}

func runCall(schemas map[string]string, call string) (o callOut) {
	defer func() {
		if p := recover(); p != nil {
			o.Err = fmt.Sprint("panic: ", p)
		}
		sum := sha256.Sum256([]byte(o.Text + "\x00" + o.Err))
		o.Out = hex.EncodeToString(sum[:])
	}()
	parts := strings.Split(call, "|")
	if len(parts) != 3 {
		o.Err = "harness: malformed call " + call
		return
	}
	src, ok := schemas[parts[1]]
	if !ok {
		o.Err = "harness: unknown schema " + parts[1]
		return
	}
	switch parts[0] {
	case "tlb":
		opts, err := tlbOptions(parts[2])
		if err != nil {
			o.Err = "harness: " + err.Error()
			return
		}
		parsed, err := tlbparser.Parse(src)
		if err != nil {
			o.Err = "parse: " + err.Error()
			return
		}
		g := tlbparser.NewGenerator(opts...)
		o.Text, err = g.GenerateGolangTypes(parsed.Declarations, "", false)
		if err != nil {
			o.Err = "types: " + err.Error()
		}
		// the generator's other exported result: the definitions it collected, in the order it hands them out
		for _, t := range g.GetTlbTypes() {
			o.Text += "\n// GetTlbTypes: " + t.Name + "\n" + t.Definition
		}
	case "tl":
		known, err := tlKnown(parts[2])
		if err != nil {
			o.Err = "harness: " + err.Error()
			return
		}
		parsed, err := parser.Parse(src)
		if err != nil {
			o.Err = "parse: " + err.Error()
			return
		}
		g := parser.NewGenerator(known, "*Client")
		types, err := g.LoadTypes(parsed.Declarations)
		if err != nil {
			o.Err = "types: " + err.Error()
			return
		}
		fns, err := g.LoadFunctions(parsed.Functions)
		if err != nil {
			o.Err = "functions: " + err.Error()
			return
		}
		o.Text = types + fns
	default:
		o.Err = "harness: unknown compiler " + parts[0]
	}
	return
}

// hist1: one history in this process
func hist1(path string) int {
	b, err := os.ReadFile(path)
	if err != nil {
		fmt.Fprintln(os.Stderr, err)
		return 2
	}
	var in histIn
	if err := json.Unmarshal(b, &in); err != nil || len(in.Histories) != 1 {
		fmt.Fprintln(os.Stderr, "hist1: bad input", err)
		return 2
	}
	devnull, _ := os.OpenFile(os.DevNull, os.O_WRONLY, 0)
	stdout := os.Stdout
	os.Stdout = devnull // the tl generator prints a template to stdout
	outs := make([]callOut, 0, len(in.Histories[0]))
	for _, c := range in.Histories[0] {
		outs = append(outs, runCall(in.Schemas, c))
	}
	os.Stdout = stdout
	j, _ := json.Marshal(outs)
	os.Stdout.Write(j)
	return 0
}

func child(in histIn, h []string, tmp string) ([]callOut, error) {
	j, _ := json.Marshal(histIn{Schemas: in.Schemas, Histories: [][]string{h}})
	if err := os.WriteFile(tmp, j, 0o644); err != nil {
		return nil, err
	}
	cmd := exec.Command(os.Args[0], "-hist1", tmp)
	var so, se bytes.Buffer
	cmd.Stdout, cmd.Stderr = &so, &se
	if err := cmd.Run(); err != nil {
		return nil, fmt.Errorf("history %v: %v: %s", h, err, se.String())
	}
	var outs []callOut
	if err := json.Unmarshal(so.Bytes(), &outs); err != nil || len(outs) != len(h) {
		return nil, fmt.Errorf("history %v: bad child output (%v)", h, err)
	}
	for _, o := range outs {
		if strings.HasPrefix(o.Err, "harness: ") {
			return nil, fmt.Errorf("history %v: %s", h, o.Err)
		}
	}
	return outs, nil
}

func hist(inPath, outPath string) int {
	b, err := os.ReadFile(inPath)
	if err != nil {
		fmt.Fprintln(os.Stderr, err)
		return 2
	}
	var in histIn
	if err := json.Unmarshal(b, &in); err != nil {
		fmt.Fprintln(os.Stderr, err)
		return 2
	}
	f, err := os.Create(outPath)
	if err != nil {
		fmt.Fprintln(os.Stderr, err)
		return 2
	}
	defer f.Close()
	n := 0
	emit := func(m map[string]any) {
		j, _ := json.Marshal(m)
		f.Write(append(j, '\n'))
		n++
	}
	tmp := outPath + ".hist1.json"
	defer os.Remove(tmp)
	// the reference: every call as the only call of a fresh process
	ref := map[string]callOut{}
	calls := map[string]bool{}
	for _, h := range in.Histories {
		for _, c := range h {
			calls[c] = true
		}
	}
	names := make([]string, 0, len(calls))
	for c := range calls {
		names = append(names, c)
	}
	sort.Strings(names)
	for _, c := range names {
		outs, err := child(in, []string{c}, tmp)
		if err != nil {
			fmt.Fprintln(os.Stderr, err)
			return 2
		}
		ref[c] = outs[0]
	}
	for i, h := range in.Histories {
		outs, err := child(in, h, tmp)
		if err != nil {
			fmt.Fprintln(os.Stderr, err)
			return 2
		}
		r := map[string]string{}
		for _, c := range h {
			r[c] = ref[c].Out
		}
		emit(map[string]any{"k": "Reset", "ref": r, "note": fmt.Sprintf("history %d", i), "hist": h})
		for k, c := range h {
			e := map[string]any{"k": "Gen", "call": c, "out": outs[k].Out, "err": outs[k].Err}
			if outs[k].Out != ref[c].Out { // for the report only
				e["text"], e["ref_text"], e["ref_err"] = outs[k].Text, ref[c].Text, ref[c].Err
			}
			emit(e)
		}
	}
	j, _ := json.Marshal(map[string]any{"k": "End", "events": n})
	f.Write(append(j, '\n'))
	return 0
}
