// Package ev writes NDJSON event / result files shared by all drivers.
package ev

import (
	"bufio"
	"encoding/json"
	"fmt"
	"os"
)

type M = map[string]any

type Writer struct {
	f *os.File
	w *bufio.Writer
	N int
	// Sync makes every record hit the file before the call returns (crash attribution).
	Sync bool
}

func Create(path string) (*Writer, error) {
	f, err := os.Create(path)
	if err != nil {
		return nil, err
	}
	return &Writer{f: f, w: bufio.NewWriterSize(f, 1<<20)}, nil
}

func (w *Writer) Emit(m M) {
	b, err := json.Marshal(m)
	if err != nil {
		panic(fmt.Sprintf("ev: marshal: %v", err))
	}
	w.w.Write(b)
	w.w.WriteByte('\n')
	w.N++
	if w.Sync {
		w.w.Flush()
	}
}

func (w *Writer) Close() error {
	if err := w.w.Flush(); err != nil {
		return err
	}
	return w.f.Close()
}

// ErrClass maps an error to the class compared by the specifications: "" or "e".
func ErrClass(err error) string {
	if err == nil {
		return ""
	}
	return "e"
}
