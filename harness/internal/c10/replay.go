package c10

import (
	"bufio"
	"encoding/hex"
	"encoding/json"
	"fmt"
	"os"
	"strconv"

	"github.com/tonkeeper/tongo/liteclient"

	"verifharness/internal/ev"
	"verifharness/internal/tlval"
)

// A vector of TlSem_Gen: the specification's own encoding of a value it generated.
type vector struct {
	Vec int    `json:"vec"`
	Ty  string `json:"ty"`
	Op  string `json:"op"` // Enc | EncBare | Fn (a whole request: id + arguments) | Dec (reflective phase: arbitrary bytes with TlSem!Dec's verdict)
	V   any    `json:"v"`
	Hex string `json:"hex"`
	// op Dec only
	Ok   bool   `json:"ok"`
	Rest int    `json:"rest"`
	Cls  string `json:"cls"`
}

func readVectors(path string) ([]vector, error) {
	f, err := os.Open(path)
	if err != nil {
		return nil, err
	}
	defer f.Close()
	sc := bufio.NewScanner(f)
	sc.Buffer(make([]byte, 1<<20), 1<<28)
	var vs []vector
	for sc.Scan() {
		var v vector
		if err := json.Unmarshal(sc.Bytes(), &v); err != nil {
			return nil, fmt.Errorf("vector %d: %v", len(vs), err)
		}
		vs = append(vs, v)
	}
	return vs, sc.Err()
}

// Replay (S->C): the bindings must parse the specification's bytes to the specification's value and
// serialise that value back to the same bytes. One result line per vector.
func Replay(in string, w *ev.Writer, o Opts) error {
	s, err := tlval.TvLoadSchema(o.Schema)
	if err != nil {
		return err
	}
	vs, err := readVectors(in)
	if err != nil {
		return err
	}
	ts, err := targets(s)
	if o.Part == "reflective" {
		if err = assertReflective(); err == nil {
			ts, err = targetsOf(s, reflTypes, nil)
		}
	}
	if err != nil {
		return err
	}
	byKey := map[string]target{}
	for _, t := range ts {
		if _, dup := byKey[t.Ty+"/"+t.Op]; !dup { // generated types come first, hand-written ones are replayed under their own op below
			byKey[t.Ty+"/"+t.Op] = t
		}
	}
	n := 0
	for _, v := range vs {
		data, err := hex.DecodeString(v.Hex)
		if err != nil {
			return err
		}
		res := ev.M{"vec": v.Vec, "ty": v.Ty, "op": v.Op}
		if v.Op == "Call" { // replayed through (*Client) methods by the in-package driver
			continue
		}
		n++
		if v.Op == "Dec" {
			// arbitrary bytes: tl.Unmarshal must return a value exactly when TlSem!Dec does — the same value, the same
			// number of unread bytes — and an error (never a panic) otherwise
			tg, okT := byKey[v.Ty+"/Enc"]
			if !okT {
				return fmt.Errorf("vector %d: no Go target for %s", v.Vec, v.Ty)
			}
			gv, rest, uerr, pan := unmarshal(tg.T, data)
			var fails []ev.M
			switch {
			case pan != "":
				fails = append(fails, ev.M{"stage": "Dec", "sub": "panic", "detail": pan})
			case v.Ok && uerr != nil:
				fails = append(fails, ev.M{"stage": "Dec", "sub": "refused", "detail": uerr.Error()})
			case !v.Ok && uerr == nil:
				fails = append(fails, ev.M{"stage": "Dec", "sub": "accepted", "detail": "a value for bytes the specification refuses"})
			case v.Ok:
				j, err := s.TvToJSON(tyOf(v.Ty), gv)
				if err != nil {
					return err
				}
				if tlval.TvCanon(j) != tlval.TvCanon(v.V) {
					fails = append(fails, ev.M{"stage": "Dec", "sub": "differs", "detail": "decoded value differs", "got_v": j})
				} else if rest != v.Rest {
					fails = append(fails, ev.M{"stage": "Dec", "sub": "unread", "detail": fmt.Sprintf("%d bytes left unread, specification %d", rest, v.Rest)})
				}
			}
			res["match"] = len(fails) == 0
			res["cls"] = v.Cls
			if len(fails) > 0 {
				res["fails"] = fails
			}
			w.Emit(res)
			continue
		}
		if v.Op == "Fn" {
			tag, name, val, derr := liteclient.LiteapiRequestDecoder(data)
			d := s.Fn(v.Ty)
			ok := derr == nil && name != nil && *name == v.Ty && d != nil && fmt.Sprintf("%08x", tag) == d.ID
			if ok {
				j, err := s.TvToJSON(tyOf(v.Ty), reflectValue(val))
				ok = err == nil && tlval.TvCanon(j) == tlval.TvCanon(v.V)
				res["got_v"] = j
			}
			if name != nil {
				res["got_name"] = *name
			}
			res["match"] = ok
			if !ok {
				res["fails"] = []ev.M{{"stage": "Dec", "sub": "request-decoder", "go": "LiteapiRequestDecoder", "detail": fmt.Sprint("err=", derr)}}
			}
			w.Emit(res)
			continue
		}
		tg, okT := byKey[v.Ty+"/"+v.Op]
		if !okT {
			return fmt.Errorf("vector %d: no Go target for %s/%s", v.Vec, v.Ty, v.Op)
		}
		// Dec: the bindings must parse the specification's bytes to the specification's value;
		// Enc: the bindings must serialise the specification's value to the specification's bytes.
		// Both are judged on their own (a value the code cannot even marshal is a finding, not a harness error).
		var fails []ev.M
		fail := func(stage, sub, goType, detail string, extra ev.M) {
			m := ev.M{"stage": stage, "sub": sub, "go": goType, "detail": detail}
			for k, x := range extra {
				m[k] = x
			}
			fails = append(fails, m)
		}
		for _, t := range ts {
			if t.Ty != tg.Ty || t.Op != tg.Op {
				continue
			}
			gt := t.T.String()
			gv, rest, uerr, pan := unmarshal(t.T, data)
			switch {
			case pan != "":
				fail("Dec", "panic", gt, pan, nil)
			case uerr != nil:
				fail("Dec", "refused", gt, uerr.Error(), nil)
			case rest != 0:
				fail("Dec", "unread", gt, fmt.Sprintf("%d bytes left unread", rest), nil)
			default:
				j, err := s.TvToJSON(tyOf(v.Ty), gv)
				if err != nil {
					return err
				}
				if tlval.TvCanon(j) != tlval.TvCanon(v.V) {
					fail("Dec", "differs", gt, "decoded value differs", ev.M{"got_v": j})
				}
			}
			bv, err := s.TvFromJSON(tyOf(v.Ty), v.V, t.T)
			if err != nil {
				return fmt.Errorf("vector %d: the harness cannot express the value: %v", v.Vec, err)
			}
			b, merr, pan := marshal(bv)
			switch {
			case pan != "":
				fail("Enc", "panic", gt, pan, nil)
			case merr != nil:
				fail("Enc", "refused", gt, merr.Error(), nil)
			case hex.EncodeToString(b) != v.Hex:
				fail("Enc", "differs", gt, "bytes differ", ev.M{"got_hex": hex.EncodeToString(b)})
			}
		}
		match := len(fails) == 0
		if !match {
			res["fails"] = fails
		}
		res["match"] = match
		w.Emit(res)
	}
	w.Emit(ev.M{"k": "End", "events": n})
	return nil
}

// ReqDecode (C->S): LiteapiRequestDecoder on the specification's request bytes, on truncations of them and
// on unknown ids; every call is recorded for TlSem_Trace.
func ReqDecode(in string, w *ev.Writer, o Opts) error {
	raw, err := os.ReadFile(o.Schema)
	if err != nil {
		return err
	}
	s, err := tlval.TvLoadSchema(o.Schema)
	if err != nil {
		return err
	}
	vs, err := readVectors(in)
	if err != nil {
		return err
	}
	// one segment per function, so that a rejected decode of one request does not hide the others
	byFn := map[string][]ev.M{}
	var fnOrder []string
	cur := ""
	curVec := 0
	call := func(data []byte) error {
		tag, name, val, derr := liteclient.LiteapiRequestDecoder(append([]byte{}, data...))
		m := ev.M{"k": "ReqDecode", "hex": hex.EncodeToString(data), "tag": strconv.FormatUint(uint64(tag), 10), "err": ev.ErrClass(derr), "name": "", "vec": curVec}
		if name != nil {
			m["name"] = *name
		}
		if val != nil && name != nil {
			j, err := s.TvToJSON(tyOf(*name), reflectValue(val))
			if err != nil {
				return err
			}
			m["v"] = j
		}
		if _, ok := byFn[cur]; !ok {
			fnOrder = append(fnOrder, cur)
		}
		byFn[cur] = append(byFn[cur], m)
		return nil
	}
	for i, v := range vs {
		if v.Op != "Fn" {
			continue
		}
		cur = v.Ty
		curVec = v.Vec
		data, _ := hex.DecodeString(v.Hex)
		if err := call(data); err != nil {
			return err
		}
		if i%3 == 0 && len(data) > 4 {
			if err := call(data[:4+(i*7)%(len(data)-4)]); err != nil { // truncated arguments
				return err
			}
		}
		if i%5 == 0 {
			bad := append([]byte{}, data...)
			bad[i%4] ^= 0x40 // an id that is (almost surely) nobody's
			if err := call(bad); err != nil {
				return err
			}
			if err := call(data[:i%4]); err != nil { // shorter than an id
				return err
			}
		}
	}
	for _, fn := range fnOrder {
		w.Emit(ev.M{"k": "Reset", "schema": json.RawMessage(raw), "note": "LiteapiRequestDecoder on " + fn})
		for _, m := range byFn[fn] {
			w.Emit(m)
		}
	}
	w.Emit(ev.M{"k": "End", "events": w.N})
	return nil
}

// ReRecord re-executes stored Marshal / Unmarshal / ReqDecode events (from a replay file) against the
// current tree and records what happens now; TlSem_Trace judges the fresh events.
func ReRecord(in string, w *ev.Writer, o Opts) error {
	raw, err := os.ReadFile(o.Schema)
	if err != nil {
		return err
	}
	s, err := tlval.TvLoadSchema(o.Schema)
	if err != nil {
		return err
	}
	ts, err := targets(s)
	if err != nil {
		return err
	}
	f, err := os.Open(in)
	if err != nil {
		return err
	}
	defer f.Close()
	sc := bufio.NewScanner(f)
	sc.Buffer(make([]byte, 1<<20), 1<<28)
	r := &rec{w: w, s: s, raw: json.RawMessage(raw)}
	r.reset("replay")
	for sc.Scan() {
		var e struct {
			K, Ty, Op, Hex, GoType string
			V                      any
		}
		if err := json.Unmarshal(sc.Bytes(), &e); err != nil {
			return err
		}
		data, _ := hex.DecodeString(e.Hex)
		for _, tg := range ts {
			if tg.Ty != e.Ty || tg.Op != e.Op {
				continue
			}
			switch e.K {
			case "Marshal":
				gv, err := s.TvFromJSON(tyOf(tg.Ty), e.V, tg.T)
				if err != nil {
					return err
				}
				b, merr, pan := marshal(gv)
				if pan != "" {
					w.Emit(ev.M{"k": "Panic", "op": "Marshal", "ty": tg.Ty, "panic": pan})
					continue
				}
				w.Emit(ev.M{"k": "Marshal", "ty": tg.Ty, "op": tg.Op, "v": e.V, "hex": hex.EncodeToString(b), "err": ev.ErrClass(merr), "go": tg.T.String()})
			case "Unmarshal":
				v2, rest, uerr, pan := unmarshal(tg.T, data)
				if pan != "" {
					w.Emit(ev.M{"k": "Panic", "op": "Unmarshal", "ty": tg.Ty, "panic": pan})
					continue
				}
				m := ev.M{"k": "Unmarshal", "ty": tg.Ty, "op": tg.Op, "hex": e.Hex, "rest": rest, "err": ev.ErrClass(uerr), "go": tg.T.String()}
				if uerr == nil {
					j, err := s.TvToJSON(tyOf(tg.Ty), v2)
					if err != nil {
						return err
					}
					m["v"] = j
				}
				w.Emit(m)
			}
		}
		if e.K == "ReqDecode" {
			tag, name, val, derr := liteclient.LiteapiRequestDecoder(append([]byte{}, data...))
			m := ev.M{"k": "ReqDecode", "hex": e.Hex, "tag": strconv.FormatUint(uint64(tag), 10), "err": ev.ErrClass(derr), "name": ""}
			if name != nil {
				m["name"] = *name
			}
			if val != nil && name != nil {
				j, err := s.TvToJSON(tyOf(*name), reflectValue(val))
				if err != nil {
					return err
				}
				m["v"] = j
			}
			w.Emit(m)
		}
	}
	w.Emit(ev.M{"k": "End", "events": w.N})
	return sc.Err()
}
