package c10

import "reflect"

func reflectValue(v any) reflect.Value { return reflect.ValueOf(v) }
