package c10

import (
	"reflect"

	"github.com/tonkeeper/tongo/liteclient"
	"github.com/tonkeeper/tongo/tl"
	"github.com/tonkeeper/tongo/ton"
)

// goTypes maps a TL name of liteclient/lite_api.tl to the Go type the checked-in bindings use for it:
// a constructor of a single-constructor type -> <Name>C (bare: fields only), a result type with several
// constructors -> the sum struct (boxed), a function -> <Name>Request (bare arguments; the id is added
// by the (*Client) method). The driver refuses to run if a declaration of the AST has no entry here.
var goTypes = map[string]reflect.Type{
	"tonNode.blockId":                     reflect.TypeOf(liteclient.TonNodeBlockIdC{}),
	"tonNode.blockIdExt":                  reflect.TypeOf(liteclient.TonNodeBlockIdExtC{}),
	"tonNode.zeroStateIdExt":              reflect.TypeOf(liteclient.TonNodeZeroStateIdExtC{}),
	"tonNode.shardPublicOverlayId":        reflect.TypeOf(liteclient.TonNodeShardPublicOverlayIdC{}),
	"liteServer.error":                    reflect.TypeOf(liteclient.LiteServerErrorC{}),
	"liteServer.accountId":                reflect.TypeOf(liteclient.LiteServerAccountIdC{}),
	"liteServer.libraryEntry":             reflect.TypeOf(liteclient.LiteServerLibraryEntryC{}),
	"liteServer.masterchainInfo":          reflect.TypeOf(liteclient.LiteServerMasterchainInfoC{}),
	"liteServer.masterchainInfoExt":       reflect.TypeOf(liteclient.LiteServerMasterchainInfoExtC{}),
	"liteServer.currentTime":              reflect.TypeOf(liteclient.LiteServerCurrentTimeC{}),
	"liteServer.version":                  reflect.TypeOf(liteclient.LiteServerVersionC{}),
	"liteServer.blockData":                reflect.TypeOf(liteclient.LiteServerBlockDataC{}),
	"liteServer.blockState":               reflect.TypeOf(liteclient.LiteServerBlockStateC{}),
	"liteServer.blockHeader":              reflect.TypeOf(liteclient.LiteServerBlockHeaderC{}),
	"liteServer.sendMsgStatus":            reflect.TypeOf(liteclient.LiteServerSendMsgStatusC{}),
	"liteServer.accountState":             reflect.TypeOf(liteclient.LiteServerAccountStateC{}),
	"liteServer.runMethodResult":          reflect.TypeOf(liteclient.LiteServerRunMethodResultC{}),
	"liteServer.shardInfo":                reflect.TypeOf(liteclient.LiteServerShardInfoC{}),
	"liteServer.allShardsInfo":            reflect.TypeOf(liteclient.LiteServerAllShardsInfoC{}),
	"liteServer.transactionInfo":          reflect.TypeOf(liteclient.LiteServerTransactionInfoC{}),
	"liteServer.transactionList":          reflect.TypeOf(liteclient.LiteServerTransactionListC{}),
	"liteServer.transactionId":            reflect.TypeOf(liteclient.LiteServerTransactionIdC{}),
	"liteServer.transactionId3":           reflect.TypeOf(liteclient.LiteServerTransactionId3C{}),
	"liteServer.blockTransactions":        reflect.TypeOf(liteclient.LiteServerBlockTransactionsC{}),
	"liteServer.blockTransactionsExt":     reflect.TypeOf(liteclient.LiteServerBlockTransactionsExtC{}),
	"liteServer.signature":                reflect.TypeOf(liteclient.LiteServerSignatureC{}),
	"liteServer.signatureSet":             reflect.TypeOf(liteclient.LiteServerSignatureSetC{}),
	"liteServer.partialBlockProof":        reflect.TypeOf(liteclient.LiteServerPartialBlockProofC{}),
	"liteServer.configInfo":               reflect.TypeOf(liteclient.LiteServerConfigInfoC{}),
	"liteServer.validatorStats":           reflect.TypeOf(liteclient.LiteServerValidatorStatsC{}),
	"liteServer.libraryResult":            reflect.TypeOf(liteclient.LiteServerLibraryResultC{}),
	"liteServer.libraryResultWithProof":   reflect.TypeOf(liteclient.LiteServerLibraryResultWithProofC{}),
	"liteServer.shardBlockLink":           reflect.TypeOf(liteclient.LiteServerShardBlockLinkC{}),
	"liteServer.shardBlockProof":          reflect.TypeOf(liteclient.LiteServerShardBlockProofC{}),
	"liteServer.lookupBlockResult":        reflect.TypeOf(liteclient.LiteServerLookupBlockResultC{}),
	"liteServer.outMsgQueueSize":          reflect.TypeOf(liteclient.LiteServerOutMsgQueueSizeC{}),
	"liteServer.outMsgQueueSizes":         reflect.TypeOf(liteclient.LiteServerOutMsgQueueSizesC{}),
	"liteServer.accountDispatchQueueInfo": reflect.TypeOf(liteclient.LiteServerAccountDispatchQueueInfoC{}),
	"liteServer.dispatchQueueInfo":        reflect.TypeOf(liteclient.LiteServerDispatchQueueInfoC{}),
	"liteProxy.requestRateLimit":          reflect.TypeOf(liteclient.LiteProxyRequestRateLimitC{}),
	"liteServer.debug.verbosity":          reflect.TypeOf(liteclient.LiteServerDebugVerbosityC{}),
	"adnl.Message":                        reflect.TypeOf(liteclient.AdnlMessage{}),
	"liteServer.BlockLink":                reflect.TypeOf(liteclient.LiteServerBlockLink{}),
	"liteServer.getMasterchainInfo":       reflect.TypeOf(liteclient.LiteServerGetMasterchainInfoRequest{}),
	"liteServer.getMasterchainInfoExt":    reflect.TypeOf(liteclient.LiteServerGetMasterchainInfoExtRequest{}),
	"liteServer.getTime":                  reflect.TypeOf(liteclient.LiteServerGetTimeRequest{}),
	"liteServer.getVersion":               reflect.TypeOf(liteclient.LiteServerGetVersionRequest{}),
	"liteServer.getBlock":                 reflect.TypeOf(liteclient.LiteServerGetBlockRequest{}),
	"liteServer.getState":                 reflect.TypeOf(liteclient.LiteServerGetStateRequest{}),
	"liteServer.getBlockHeader":           reflect.TypeOf(liteclient.LiteServerGetBlockHeaderRequest{}),
	"liteServer.sendMessage":              reflect.TypeOf(liteclient.LiteServerSendMessageRequest{}),
	"liteServer.getAccountState":          reflect.TypeOf(liteclient.LiteServerGetAccountStateRequest{}),
	"liteServer.getAccountStatePrunned":   reflect.TypeOf(liteclient.LiteServerGetAccountStatePrunnedRequest{}),
	"liteServer.runSmcMethod":             reflect.TypeOf(liteclient.LiteServerRunSmcMethodRequest{}),
	"liteServer.getShardInfo":             reflect.TypeOf(liteclient.LiteServerGetShardInfoRequest{}),
	"liteServer.getAllShardsInfo":         reflect.TypeOf(liteclient.LiteServerGetAllShardsInfoRequest{}),
	"liteServer.getOneTransaction":        reflect.TypeOf(liteclient.LiteServerGetOneTransactionRequest{}),
	"liteServer.getTransactions":          reflect.TypeOf(liteclient.LiteServerGetTransactionsRequest{}),
	"liteServer.lookupBlock":              reflect.TypeOf(liteclient.LiteServerLookupBlockRequest{}),
	"liteServer.lookupBlockWithProof":     reflect.TypeOf(liteclient.LiteServerLookupBlockWithProofRequest{}),
	"liteServer.listBlockTransactions":    reflect.TypeOf(liteclient.LiteServerListBlockTransactionsRequest{}),
	"liteServer.listBlockTransactionsExt": reflect.TypeOf(liteclient.LiteServerListBlockTransactionsExtRequest{}),
	"liteServer.getBlockProof":            reflect.TypeOf(liteclient.LiteServerGetBlockProofRequest{}),
	"liteServer.getConfigAll":             reflect.TypeOf(liteclient.LiteServerGetConfigAllRequest{}),
	"liteServer.getConfigParams":          reflect.TypeOf(liteclient.LiteServerGetConfigParamsRequest{}),
	"liteServer.getValidatorStats":        reflect.TypeOf(liteclient.LiteServerGetValidatorStatsRequest{}),
	"liteServer.getLibraries":             reflect.TypeOf(liteclient.LiteServerGetLibrariesRequest{}),
	"liteServer.getLibrariesWithProof":    reflect.TypeOf(liteclient.LiteServerGetLibrariesWithProofRequest{}),
	"liteServer.getShardBlockProof":       reflect.TypeOf(liteclient.LiteServerGetShardBlockProofRequest{}),
	"liteServer.getOutMsgQueueSizes":      reflect.TypeOf(liteclient.LiteServerGetOutMsgQueueSizesRequest{}),
	"liteServer.getDispatchQueueInfo":     reflect.TypeOf(liteclient.LiteServerGetDispatchQueueInfoRequest{}),
	"liteProxy.getRequestRateLimit":       reflect.TypeOf(liteclient.LiteProxyGetRequestRateLimitRequest{}),
}

// hand-written TL codecs: (TL type name as understood by TlSem, operator, Go type)
type handType struct {
	Ty, Op string
	T      reflect.Type
}

var handTypes = []handType{
	{"int256", "Enc", reflect.TypeOf(tl.Int256{})},
	{"liteServer.accountId", "Enc", reflect.TypeOf(ton.AccountID{})},
	{"tonNode.blockIdExt", "Enc", reflect.TypeOf(ton.BlockIDExt{})},
	{"liteServer.SignatureSet", "Enc", reflect.TypeOf(liteclient.LiteServerSignatureSet{})},
}
