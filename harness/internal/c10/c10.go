// Package c10 drives the checked-in lite-server bindings (liteclient/generated.go, the hand-written
// TL codecs) and records what they do, for judgement by spec/trace/TlSem_Trace.tla; it also replays
// TLC-generated vectors (spec/gen/TlSem_Gen.tla) through them. Values are produced from the schema AST
// (tools/tl2json.py), never by the bindings themselves.
package c10

import (
	"bytes"
	"encoding/hex"
	"encoding/json"
	"fmt"
	"io"
	"math/rand"
	"os"
	"reflect"
	"sort"

	"github.com/tonkeeper/tongo/tl"

	"verifharness/internal/ev"
	"verifharness/internal/tlval"
)

type Opts struct {
	Tier, Schema, Part string
	Seed               int64
	Shard, Shards      int
}

// target = one Go type together with the TlSem operator that describes its bytes.
type target struct {
	Ty, Op string // Op: Enc (ty as named: bare ctor / boxed result / function with id) | EncBare (fields of a function)
	T      reflect.Type
}

func targets(s *tlval.TvSchema) ([]target, error) { return targetsOf(s, goTypes, handTypes) }

func targetsOf(s *tlval.TvSchema, goTypes map[string]reflect.Type, handTypes []handType) ([]target, error) {
	var ts []target
	seenRes := map[string]bool{}
	for _, d := range s.Types {
		if len(s.CtorsOf(d.Result)) == 1 {
			t, ok := goTypes[d.Ctor]
			if !ok {
				return nil, fmt.Errorf("no Go type registered for constructor %s", d.Ctor)
			}
			ts = append(ts, target{d.Ctor, "Enc", t})
		} else if !seenRes[d.Result] {
			seenRes[d.Result] = true
			t, ok := goTypes[d.Result]
			if !ok {
				return nil, fmt.Errorf("no Go type registered for type %s", d.Result)
			}
			ts = append(ts, target{d.Result, "Enc", t})
		}
	}
	for _, d := range s.Functions {
		t, ok := goTypes[d.Ctor]
		if !ok {
			return nil, fmt.Errorf("no Go type registered for function %s", d.Ctor)
		}
		ts = append(ts, target{d.Ctor, "EncBare", t})
	}
	for _, h := range handTypes {
		ts = append(ts, target{h.Ty, h.Op, h.T})
	}
	return ts, nil
}

func tyOf(name string) tlval.TvType { return tlval.TvNamed(name) }

// marshal calls the code under test: MarshalTL if the type has one, else tl.Marshal's reflection path
// (request types without arguments have no MarshalTL).
func marshal(v reflect.Value) (b []byte, err error, pan string) {
	defer func() {
		if r := recover(); r != nil {
			pan = fmt.Sprint(r)
		}
	}()
	b, err = tl.Marshal(v.Interface())
	return
}

// unmarshal calls UnmarshalTL(io.Reader) / UnmarshalTL([]byte) (ton.BlockIDExt) / tl.Unmarshal.
func unmarshal(t reflect.Type, data []byte) (v reflect.Value, rest int, err error, pan string) {
	defer func() {
		if r := recover(); r != nil {
			pan = fmt.Sprint(r)
		}
	}()
	p := reflect.New(t)
	if m := p.MethodByName("UnmarshalTL"); m.IsValid() && m.Type().NumIn() == 1 && m.Type().In(0) == reflect.TypeOf([]byte(nil)) {
		out := m.Call([]reflect.Value{reflect.ValueOf(data)})
		if e, _ := out[0].Interface().(error); e != nil {
			err = e
		}
		return p.Elem(), 0, err, ""
	}
	r := bytes.NewReader(data)
	err = tl.Unmarshal(r, p.Interface())
	return p.Elem(), r.Len(), err, ""
}

func takesReader(t reflect.Type) bool {
	m, ok := reflect.PointerTo(t).MethodByName("UnmarshalTL")
	return !ok || m.Type.In(1) != reflect.TypeOf([]byte(nil))
}

type rec struct {
	w   *ev.Writer
	s   *tlval.TvSchema
	raw json.RawMessage
}

func (r *rec) reset(note string) {
	r.w.Emit(ev.M{"k": "Reset", "schema": r.raw, "note": note})
}

// unmarshalEvent records one Unmarshal call on arbitrary input
func (r *rec) unmarshalEvent(tg target, data []byte, why string) error {
	v2, rest, uerr, pan := unmarshal(tg.T, data)
	if pan != "" {
		r.w.Emit(ev.M{"k": "Panic", "op": "Unmarshal", "ty": tg.Ty, "hex": hex.EncodeToString(data), "panic": pan})
		return nil
	}
	m := ev.M{"k": "Unmarshal", "ty": tg.Ty, "op": tg.Op, "hex": hex.EncodeToString(data), "rest": rest, "err": ev.ErrClass(uerr), "why": why}
	if uerr == nil {
		j, err := r.s.TvToJSON(tyOf(tg.Ty), v2)
		if err != nil {
			return fmt.Errorf("dumping %s: %v", tg.Ty, err)
		}
		m["v"] = j
	}
	r.w.Emit(m)
	return nil
}

// one value through Marshal, then Unmarshal of (its bytes + junk tail), optionally truncated inputs
func (r *rec) roundTrip(tg target, val any, rng *rand.Rand, truncs int) error {
	gv, err := r.s.TvFromJSON(tyOf(tg.Ty), val, tg.T)
	if err != nil {
		return fmt.Errorf("building %s: %v", tg.Ty, err)
	}
	b, merr, pan := marshal(gv)
	if pan != "" {
		r.w.Emit(ev.M{"k": "Panic", "op": "Marshal", "ty": tg.Ty, "v": val, "panic": pan})
		return nil
	}
	r.w.Emit(ev.M{"k": "Marshal", "ty": tg.Ty, "op": tg.Op, "v": val, "hex": hex.EncodeToString(b), "err": ev.ErrClass(merr)})
	if merr != nil {
		return nil
	}
	try := func(data []byte, why string) error {
		v2, rest, uerr, pan := unmarshal(tg.T, data)
		if pan != "" {
			r.w.Emit(ev.M{"k": "Panic", "op": "Unmarshal", "ty": tg.Ty, "hex": hex.EncodeToString(data), "panic": pan})
			return nil
		}
		m := ev.M{"k": "Unmarshal", "ty": tg.Ty, "op": tg.Op, "hex": hex.EncodeToString(data), "rest": rest, "err": ev.ErrClass(uerr), "why": why}
		if uerr == nil {
			j, err := r.s.TvToJSON(tyOf(tg.Ty), v2)
			if err != nil {
				return fmt.Errorf("dumping %s: %v", tg.Ty, err)
			}
			m["v"] = j
		}
		r.w.Emit(m)
		return nil
	}
	tail := 0
	if takesReader(tg.T) {
		tail = rng.Intn(3) * 4
	}
	junk := make([]byte, tail)
	rng.Read(junk)
	if err := try(append(append([]byte{}, b...), junk...), "own+tail"); err != nil {
		return err
	}
	for i := 0; i < truncs && len(b) > 0; i++ {
		if err := try(b[:rng.Intn(len(b))], "truncated"); err != nil {
			return err
		}
	}
	return nil
}

// Drive records Marshal/Unmarshal events for this shard's share of the types of the schema.
// DriveReflective (C->S): schema-driven random values of reflective.tl through tl.Marshal / tl.Unmarshal on the mirror
// structs, plus adversarial inputs (every truncation, trailing bytes, unknown and byte-swapped constructor ids).
func DriveReflective(w *ev.Writer, o Opts) error {
	if err := assertReflective(); err != nil {
		return err
	}
	raw, err := os.ReadFile(o.Schema)
	if err != nil {
		return err
	}
	s, err := tlval.TvLoadSchema(o.Schema)
	if err != nil {
		return err
	}
	ts, err := targetsOf(s, reflTypes, nil)
	if err != nil {
		return err
	}
	r := &rec{w: w, s: s, raw: json.RawMessage(bytes.TrimSpace(raw))}
	per := 60
	if o.Tier == "thorough" {
		per = 1500
	}
	for i, tg := range ts {
		if i%o.Shards != o.Shard {
			continue
		}
		rng := rand.New(rand.NewSource(o.Seed*1000003 + 7777 + int64(i)))
		r.reset("reflective:" + tg.Ty)
		for n := 0; n < per; n++ {
			g := &tlval.TvGen{R: rng, MaxVec: 5, Budget: 2500, ModeCounter: n}
			if n%15 == 14 {
				g.BigLens = []int{65535, 65536, 65537, 65540}
				g.Budget = 70000
			}
			val := g.Value(s, tyOf(tg.Ty))
			if err := r.roundTrip(tg, val, rng, 2); err != nil {
				return err
			}
			if n%6 != 0 {
				continue
			}
			gv, err := s.TvFromJSON(tyOf(tg.Ty), val, tg.T)
			if err != nil {
				return err
			}
			b, merr, pan := marshal(gv)
			if merr != nil || pan != "" {
				continue
			}
			if len(b) <= 96 { // every truncation of a short encoding
				for k := 0; k < len(b); k++ {
					if err := r.unmarshalEvent(tg, b[:k], "truncated-every"); err != nil {
						return err
					}
				}
			}
			// a constructor id changed in place / byte-swapped: wherever four bytes equal an id of the schema
			for _, d := range s.Types {
				id, _ := hex.DecodeString(d.ID)
				le := []byte{id[3], id[2], id[1], id[0]}
				if at := bytes.Index(b, le); at >= 0 {
					m1 := append([]byte{}, b...)
					copy(m1[at:], []byte{0xce, 0xfa, 0xed, 0xfe})
					m2 := append([]byte{}, b...)
					copy(m2[at:], id)
					if err := r.unmarshalEvent(tg, m1, "unknown-id"); err != nil {
						return err
					}
					if err := r.unmarshalEvent(tg, m2, "swapped-id"); err != nil {
						return err
					}
				}
			}
		}
	}
	w.Emit(ev.M{"k": "End", "events": w.N})
	return nil
}

func Drive(w *ev.Writer, o Opts) error {
	raw, err := os.ReadFile(o.Schema)
	if err != nil {
		return err
	}
	s, err := tlval.TvLoadSchema(o.Schema)
	if err != nil {
		return err
	}
	ts, err := targets(s)
	if err != nil {
		return err
	}
	r := &rec{w: w, s: s, raw: json.RawMessage(bytes.TrimSpace(raw))}
	thorough := o.Tier == "thorough"
	per := 40
	if thorough {
		per = 1000
	}
	for i, tg := range ts {
		if i%o.Shards != o.Shard {
			continue
		}
		rng := rand.New(rand.NewSource(o.Seed*1000003 + int64(i)))
		r.reset(tg.Ty)
		for n := 0; n < per; n++ {
			g := &tlval.TvGen{R: rng, MaxVec: 6, Budget: 3000, ModeCounter: n}
			if n%10 == 9 {
				g.BigLens = []int{65531, 65532, 65535, 65536, 65537, 65540}
				g.Budget = 70000
			}
			val := g.Value(s, tyOf(tg.Ty))
			truncs := 0
			if n%4 == 0 {
				truncs = 2
			}
			if err := r.roundTrip(tg, val, rng, truncs); err != nil {
				return err
			}
		}
	}
	// every byte-string length 0..1100 (bytes and string), and the lengths around 2^16 (2^24 - 1 in thorough)
	type sweepT struct {
		ty, op, ctor, field string
		lens                []int
	}
	sweep := []sweepT{
		{"liteServer.sendMessage", "EncBare", "liteServer.sendMessage", "body", seq(0, 1100)},
		{"liteServer.error", "Enc", "liteServer.error", "message", seq(0, 1100)},
		{"adnl.Message", "Enc", "adnl.message.query", "query", append(seq(0, 300), seq(65530, 65541)...)},
	}
	if thorough {
		sweep = append(sweep, sweepT{"liteServer.sendMessage", "EncBare", "liteServer.sendMessage", "body",
			[]int{1<<24 - 1, 1<<24 - 2, 1<<24 - 3, 1<<24 - 4, 1 << 20}})
	}
	rng := rand.New(rand.NewSource(o.Seed*7919 + int64(o.Shard)))
	for _, sw := range sweep {
		tg := target{sw.ty, sw.op, goTypes[sw.ty]}
		first := true
		for k, n := range sw.lens {
			if k%o.Shards != o.Shard {
				continue
			}
			if first {
				r.reset("lengths:" + sw.ty)
				first = false
			}
			g := &tlval.TvGen{R: rng, MaxVec: 0, Budget: 0}
			val := g.Value(s, tyOf(sw.ctor)).(map[string]any)
			b := make([]byte, n)
			rng.Read(b)
			val[sw.field] = hex.EncodeToString(b)
			if err := r.roundTrip(tg, val, rng, 0); err != nil {
				return err
			}
		}
	}
	// long vectors (C->S): for every vector field, lengths just above 65536/(Go element size + 1) and 65536/(size) — the
	// region where a decoder that trusts a capped pre-allocation instead of the wire count would cut the vector
	job := 0
	for _, vf := range vecFields(s) {
		lens := []int{65536/(vf.Size+1) + 1, 65536/vf.Size + 1}
		if thorough {
			lens = append(lens, 65536/(vf.Size+1), 65536/vf.Size)
		}
		for _, n := range lens {
			job++
			if job%o.Shards != o.Shard {
				continue
			}
			tyName, op := vf.Decl, "Enc"
			if vf.Fn {
				op = "EncBare"
			} else if len(s.CtorsOf(vf.Result)) > 1 {
				tyName = vf.Result
			}
			tg := target{tyName, op, goTypes[tyName]}
			r.reset(fmt.Sprintf("long-vector:%s", tyName))
			g := &tlval.TvGen{R: rng, MaxVec: 2, Budget: 200, VecLen: map[string]int{vf.Decl + "." + vf.Field: n}}
			val := g.Value(s, tyOf(vf.Decl))
			if err := r.roundTrip(tg, val, rng, 0); err != nil {
				return err
			}
		}
	}
	w.Emit(ev.M{"k": "End", "events": w.N})
	return nil
}

func seq(a, b int) []int {
	r := make([]int, 0, b-a+1)
	for i := a; i <= b; i++ {
		r = append(r, i)
	}
	return r
}

// VecSizes reports, for every vector-typed field of the schema, the Go size of one element of the slice the bindings
// use for it (reflect.Type.Size — what tl.decodeVector's pre-allocation cap is computed from). The runner derives the
// long-vector length classes from these numbers.
type VecField struct {
	Decl, Result, Field, Go string
	Fn                      bool
	Size                    int
}

func vecFields(s *tlval.TvSchema) []VecField {
	var out []VecField
	one := func(d *tlval.TvDecl, st reflect.Type, isFn bool) {
		k := 0
		for _, f := range d.Fields {
			if f.Ty.Vector == nil && f.Ty.Name == "true" {
				continue
			}
			if k >= st.NumField() {
				return
			}
			ft := st.Field(k).Type
			k++
			if f.Ty.Vector != nil && ft.Kind() == reflect.Slice {
				out = append(out, VecField{d.Ctor, d.Result, f.Name, ft.String(), isFn, int(ft.Elem().Size())})
			}
		}
	}
	for i := range s.Types {
		d := &s.Types[i]
		cs := s.CtorsOf(d.Result)
		if len(cs) == 1 {
			if t, ok := goTypes[d.Ctor]; ok {
				one(d, t, false)
			}
			continue
		}
		if t, ok := goTypes[d.Result]; ok {
			for j, c := range cs {
				if c.Ctor == d.Ctor && j+1 < t.NumField() {
					one(d, t.Field(j+1).Type, false)
				}
			}
		}
	}
	for i := range s.Functions {
		if t, ok := goTypes[s.Functions[i].Ctor]; ok {
			one(&s.Functions[i], t, true)
		}
	}
	return out
}

func VecSizes(schemaPath string, w *ev.Writer) error {
	s, err := tlval.TvLoadSchema(schemaPath)
	if err != nil {
		return err
	}
	for _, f := range vecFields(s) {
		w.Emit(ev.M{"k": "VecSize", "decl": f.Decl, "result": f.Result, "field": f.Field, "fn": f.Fn, "size": f.Size, "go": f.Go})
	}
	return nil
}

// Names lists what Drive covers (so that the runner can check it against the AST).
func Names(schemaPath string) ([]string, error) {
	s, err := tlval.TvLoadSchema(schemaPath)
	if err != nil {
		return nil, err
	}
	ts, err := targets(s)
	if err != nil {
		return nil, err
	}
	var n []string
	for _, t := range ts {
		n = append(n, t.Ty+" "+t.Op+" "+t.T.String())
	}
	sort.Strings(n)
	return n, nil
}

var _ = io.EOF
