package c10

import (
	"reflect"

	"verifharness/internal/tlval"
)

// Target is the exported view of one (TL name, TlSem operator, Go type) triple; added for C08, which feeds
// untrusted bytes to the same set of decoders that C10 checks for fidelity.
type Target struct {
	Ty, Op string
	T      reflect.Type
}

// Targets lists every generated and hand-written TL type the bindings ship, in the order Drive uses.
func Targets(s *tlval.TvSchema) ([]Target, error) {
	ts, err := targets(s)
	if err != nil {
		return nil, err
	}
	out := make([]Target, len(ts))
	for i, t := range ts {
		out[i] = Target{t.Ty, t.Op, t.T}
	}
	return out, nil
}
