package c10

import (
	"fmt"
	"reflect"

	"github.com/tonkeeper/tongo/tl"
)

// Hand-written Go mirrors of reflective.tl: plain structs, tlSumType tags on the alternatives of the union, and NO
// MarshalTL / UnmarshalTL methods, so tl.Marshal / tl.Unmarshal take the reflective path (encodeBasicStruct,
// encodeSumType, decodeBasicStruct, decodeSumType, compareWithTag). Integer kinds vary on purpose (int32/uint32,
// int64/uint64) to visit every primitive case of the reflective switch.

type RPrim struct {
	I int32
	L int64
	H tl.Int256
	B []byte
	S string
	F bool
	N uint32
}

type RItem struct {
	K uint32
	V []byte
}

type RList struct {
	Items []RItem
	Tail  int32
}

type RNested struct {
	Head  RPrim
	Inner RList
	After uint64
}

type RChoice struct {
	tl.SumType
	Alpha struct {
		X int32
	} `tlSumType:"c0ffee01"`
	Beta struct {
		Y []byte
		Z []int64
	} `tlSumType:"1234beef"`
	None struct{} `tlSumType:"deadbe07"`
}

type RHolder struct {
	Pre  uint32
	C    RChoice
	Post int64
}

type RBag struct {
	Cs  []RChoice
	End int32
}

var reflTypes = map[string]reflect.Type{
	"r.prim":   reflect.TypeOf(RPrim{}),
	"r.item":   reflect.TypeOf(RItem{}),
	"r.list":   reflect.TypeOf(RList{}),
	"r.nested": reflect.TypeOf(RNested{}),
	"r.Choice": reflect.TypeOf(RChoice{}),
	"r.holder": reflect.TypeOf(RHolder{}),
	"r.bag":    reflect.TypeOf(RBag{}),
}

// assertReflective is the unit assertion that the mirrors really exercise the reflective codec: none of the struct
// types (nor their pointer types) implements tl.MarshalerTL / tl.UnmarshalerTL, so tl.Marshal / tl.Unmarshal cannot
// do anything but walk them by reflection (decodeStruct -> decodeSumType / decodeBasicStruct).
func assertReflective() error {
	mt := reflect.TypeOf((*tl.MarshalerTL)(nil)).Elem()
	ut := reflect.TypeOf((*tl.UnmarshalerTL)(nil)).Elem()
	for name, t := range reflTypes {
		for _, x := range []reflect.Type{t, reflect.PointerTo(t)} {
			if x.Implements(mt) || x.Implements(ut) {
				return fmt.Errorf("mirror type %v of %s has a hand-written TL codec: the reflective path would be skipped", x, name)
			}
		}
	}
	if _, ok := reflect.TypeOf(RChoice{}).FieldByName("SumType"); !ok {
		return fmt.Errorf("RChoice lost its SumType field")
	}
	return nil
}
