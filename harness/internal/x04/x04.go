// Package x04 drives toncrypto.Encrypt (encrypted comments) for X04: it only calls the real code and records what went in
// and what came out; every judgement is made by TLC (spec/EncComment.tla, spec/trace/EncComment_Trace.tla).
package x04

import (
	"bufio"
	"bytes"
	"crypto/ed25519"
	crand "crypto/rand"
	"encoding/hex"
	"encoding/json"
	"fmt"
	"io"
	mrand "math/rand"
	"os"

	"github.com/tonkeeper/tongo/ton"
	"github.com/tonkeeper/tongo/toncrypto"

	"verifharness/internal/ev"
)

type Opts struct {
	Tier          string
	Seed          int64
	Shard, Shards int
}

// tapeReader hands out the given bytes first and a fixed filler afterwards (a deterministic stand-in for crypto/rand.Reader).
type tapeReader struct {
	tape []byte
	pos  int
}

func (t *tapeReader) Read(p []byte) (int, error) {
	for i := range p {
		if t.pos < len(t.tape) {
			p[i] = t.tape[t.pos]
		} else {
			p[i] = 0xEE
		}
		t.pos++
	}
	return len(p), nil
}

type rngReader struct{ r *mrand.Rand }

func (r rngReader) Read(p []byte) (int, error) { return r.r.Read(p) }

func hx(b []byte) string { return hex.EncodeToString(b) }

func cp(b []byte) []byte {
	if b == nil {
		return nil
	}
	return append([]byte{}, b...)
}

// call runs toncrypto.Encrypt on copies of the arguments and records the arguments before and after.
func call(w *ev.Writer, src string, sseed, spriv, rseed, rpub, msg, salt []byte, extra ev.M) {
	w.Emit(ev.M{"k": "Begin", "src": src, "n": len(msg)})
	p, q, m, s := cp(spriv), cp(rpub), cp(msg), cp(salt)
	e := ev.M{"k": "Enc", "src": src, "sseed": hx(sseed), "spriv": hx(spriv), "rseed": hx(rseed), "rpub": hx(rpub),
		"msg": hx(msg), "salt": hx(salt), "out": "", "err": "", "panic": ""}
	for k, v := range extra {
		e[k] = v
	}
	func() {
		defer func() {
			if r := recover(); r != nil {
				e["panic"] = fmt.Sprint(r)
			}
		}()
		out, err := toncrypto.Encrypt(ed25519.PublicKey(q), ed25519.PrivateKey(p), m, s)
		e["err"] = ev.ErrClass(err)
		if err == nil {
			e["out"] = hx(out)
		}
	}()
	e["spriv_after"], e["rpub_after"], e["msg_after"], e["salt_after"] = hx(p), hx(q), hx(m), hx(s)
	w.Emit(e)
}

var boundary = []int{0, 1, 2, 14, 15, 16, 17, 18, 30, 31, 32, 33, 47, 48, 49, 63, 64, 65, 127, 128, 129, 255, 256, 257}

// Drive (C->S): random and boundary messages between random key pairs through the real API.
func Drive(w *ev.Writer, o Opts) {
	w.Sync = true
	r := mrand.New(mrand.NewSource(o.Seed*1000003 + int64(o.Shard)*7919 + 17))
	crand.Reader = rngReader{mrand.New(mrand.NewSource(o.Seed*31 + int64(o.Shard) + 5))}
	n := 160
	if o.Tier == "thorough" {
		n = 1500
	}
	bytesN := func(k int) []byte { b := make([]byte, k); r.Read(b); return b }
	salts := func() []byte {
		switch r.Intn(6) {
		case 0:
			return []byte{}
		case 1:
			return bytesN(r.Intn(200))
		case 2:
			return nil
		default:
			var a ton.AccountID
			a.Workchain = int32(r.Intn(2)) - 1
			r.Read(a.Address[:])
			return []byte(a.ToHuman(true, false))
		}
	}
	for i := 0; i < n; i++ {
		sseed, rseed := bytesN(32), bytesN(32)
		spriv := ed25519.NewKeyFromSeed(sseed)
		rpub := ed25519.NewKeyFromSeed(rseed).Public().(ed25519.PublicKey)
		var ln int
		switch {
		case i%3 == 0:
			ln = boundary[(i/3+o.Shard*5)%len(boundary)]
		case i%17 == 1:
			ln = 1000 + r.Intn(4000)
		default:
			ln = r.Intn(300)
		}
		msg := bytesN(ln)
		if ln == 0 && r.Intn(2) == 0 {
			msg = nil
		}
		switch {
		case i%23 == 7: // a message to oneself
			call(w, "self", sseed, spriv, sseed, spriv.Public().(ed25519.PublicKey), msg, salts(), nil)
		case i%19 == 4: // an arbitrary 32-byte string as the receiver's key
			call(w, "rawpub", sseed, spriv, nil, bytesN(32), msg, salts(), nil)
		case i%29 == 9: // keys of the wrong size
			if r.Intn(2) == 0 {
				call(w, "keysize", sseed, spriv[:r.Intn(64)], rseed, rpub, msg, salts(), nil)
			} else {
				call(w, "keysize", sseed, spriv, nil, bytesN([]int{0, 1, 16, 31, 33, 64}[r.Intn(6)]), msg, salts(), nil)
			}
		default:
			call(w, "rand", sseed, spriv, rseed, rpub, msg, salts(), nil)
		}
	}
	w.Emit(ev.M{"k": "End", "events": w.N})
}

type vector struct {
	Vec   int    `json:"vec"`
	Cl    string `json:"cl"`
	Cls   string `json:"cls"`
	Spriv string `json:"spriv"`
	Rseed string `json:"rseed"`
	Rpub  string `json:"rpub"`
	Msg   string `json:"msg"`
	Salt  string `json:"salt"`
	Tape  string `json:"tape"`
	Out   string `json:"out"`
}

// Replay (S->C): every generated vector through the real API with crypto/rand.Reader replaced by the vector's tape.
func Replay(in string, w *ev.Writer) error {
	w.Sync = true
	f, err := os.Open(in)
	if err != nil {
		return err
	}
	defer f.Close()
	rd := bufio.NewReaderSize(f, 1<<20)
	for {
		line, err := rd.ReadBytes('\n')
		if len(bytes.TrimSpace(line)) > 0 {
			var v vector
			if e := json.Unmarshal(line, &v); e != nil {
				return fmt.Errorf("bad vector: %w", e)
			}
			dec := func(s string) []byte {
				b, e := hex.DecodeString(s)
				if e != nil {
					panic(e)
				}
				return b
			}
			spriv, rseed, rpub, msg, salt, tape := dec(v.Spriv), dec(v.Rseed), dec(v.Rpub), dec(v.Msg), dec(v.Salt), dec(v.Tape)
			crand.Reader = &tapeReader{tape: tape}
			sseed := spriv
			if len(sseed) > 32 {
				sseed = sseed[:32]
			}
			call(w, "gen:"+v.Cl, sseed, spriv, rseed, rpub, msg, salt, ev.M{"vec": v.Vec, "cls": v.Cls})
		}
		if err == io.EOF {
			break
		}
		if err != nil {
			return err
		}
	}
	w.Emit(ev.M{"k": "End", "events": w.N})
	return nil
}
