package x06

import (
	"bytes"
	"fmt"
	"os"

	"github.com/tonkeeper/tongo/config"

	"verifharness/internal/ev"
)

// Server is one abstract lite server entry: decimal texts for ip and port.
type Server struct {
	IP, Port, Type, Key string
}

func canonFile(servers []Server) []byte {
	var b bytes.Buffer
	b.WriteString(`{"liteservers":[`)
	for i, s := range servers {
		if i > 0 {
			b.WriteString(",")
		}
		fmt.Fprintf(&b, `{"ip":%s,"port":%s,"id":{"@type":"%s","key":"%s"}}`, s.IP, s.Port, s.Type, s.Key)
	}
	b.WriteString("]}")
	return b.Bytes()
}

// Cfg runs config.ParseConfig (via = "reader") or config.ParseConfigFile (via = "file") on the text and records the result.
func Cfg(w *ev.Writer, via, variant string, servers []Server, text []byte, scratch string, extra ev.M) {
	w.Emit(ev.M{"k": "Begin", "what": "cfg"})
	sv := [][]string{}
	for _, s := range servers {
		sv = append(sv, []string{s.IP, s.Port, s.Type, s.Key})
	}
	e := ev.M{"k": "Cfg", "via": via, "variant": variant, "servers": sv, "json": hx(text), "err": "", "panic": "", "out": [][]string{}}
	func() {
		defer func() {
			if r := recover(); r != nil {
				e["panic"] = fmt.Sprint(r)
				e["err"] = "p"
			}
		}()
		var res *config.GlobalConfigurationFile
		var err error
		if via == "file" {
			p := scratch + ".cfg.json" // one scratch file per output file: shards run side by side
			if err := os.WriteFile(p, text, 0o644); err != nil {
				panic(err)
			}
			res, err = config.ParseConfigFile(p)
		} else {
			res, err = config.ParseConfig(bytes.NewReader(text))
		}
		e["err"] = ev.ErrClass(err)
		if err == nil {
			out := [][]string{}
			for _, ls := range res.LiteServers {
				out = append(out, []string{ls.Host, ls.Key})
			}
			e["out"] = out
		}
	}()
	for k, v := range extra {
		e[k] = v
	}
	w.Emit(e)
}
