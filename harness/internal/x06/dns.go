// Package x06 drives contract/dns.DNS.Resolve (with a scripted executor standing for the resolver contracts) and
// config.ParseConfig for X06.  It only runs the real code and records what it did; every judgement is made by TLC
// (spec/TonDns.tla, spec/NetConfig.tla and their trace modules) or by the runner against TLC-generated expectations.
package x06

import (
	"context"
	"crypto/sha256"
	"encoding/hex"
	"errors"
	"fmt"
	"math/big"
	"sort"
	"strings"

	"github.com/tonkeeper/tongo/boc"
	"github.com/tonkeeper/tongo/contract/dns"
	"github.com/tonkeeper/tongo/tlb"
	"github.com/tonkeeper/tongo/ton"

	"verifharness/internal/ev"
)

// Answer is one scripted answer of a resolver contract (see spec/TonDns.tla).
type Answer struct {
	Fail  bool   `json:"fail"`
	Exit  int64  `json:"exit"`
	Shape string `json:"shape"`
	Bits  string `json:"bits"`
	Cell  string `json:"cell"`
}

func (a Answer) m() ev.M {
	return ev.M{"fail": a.Fail, "exit": a.Exit, "shape": a.Shape, "bits": a.Bits, "cell": a.Cell}
}

func hx(b []byte) string { return hex.EncodeToString(b) }

func h32(label string) (r [32]byte) { return sha256.Sum256([]byte(label)) }

func parseAddr(s string) ton.AccountID {
	a, err := ton.ParseAccountID(s)
	if err != nil {
		panic(fmt.Sprintf("bad address %q: %v", s, err))
	}
	return a
}

func must(err error) {
	if err != nil {
		panic(err)
	}
}

// recordCell builds the cell of one DNS record from its label "<kind>:<n>" (block.tlb: DNSRecord).
func recordCell(label string) *boc.Cell {
	c := boc.NewCell()
	h := h32(label)
	switch kind := strings.SplitN(label, ":", 2)[0]; kind {
	case "wallet": // dns_smc_address#9fd3 smc_addr:MsgAddressInt flags:(## 8)
		must(c.WriteUint(0x9fd3, 16))
		a := ton.AccountID{Workchain: 0, Address: h}
		must(tlb.Marshal(c, a.ToMsgAddress()))
		must(c.WriteUint(0, 8))
	case "site": // dns_adnl_address#ad01 adnl_addr:bits256 flags:(## 8)
		must(c.WriteUint(0xad01, 16))
		must(c.WriteBytes(h[:]))
		must(c.WriteUint(0, 8))
	case "storage": // dns_storage_address#7473 bag_id:bits256
		must(c.WriteUint(0x7473, 16))
		must(c.WriteBytes(h[:]))
	case "text": // dns_text#1eda _:Text ; text$_ chunks:(## 8) rest:(TextChunks chunks)
		must(c.WriteUint(0x1eda, 16))
		must(c.WriteUint(1, 8))
		must(c.WriteUint(uint64(len(label)), 8))
		must(c.WriteBytes([]byte(label)))
	default:
		panic("unknown record kind " + label)
	}
	return c
}

// labelOf maps a decoded record back to the label it was built from ("?..." when it is none of them).
func labelOf(r tlb.DNSRecord, labels []string) string {
	for _, l := range labels {
		h := h32(l)
		switch kind := strings.SplitN(l, ":", 2)[0]; {
		case kind == "wallet" && r.SumType == "DNSSmcAddress":
			a, err := ton.AccountIDFromTlb(r.DNSSmcAddress.Address)
			if err == nil && a != nil && a.Workchain == 0 && a.Address == h {
				return l
			}
		case kind == "site" && r.SumType == "DNSAdnlAddress" && r.DNSAdnlAddress.Address == h:
			return l
		case kind == "storage" && r.SumType == "DNSStorageAddress" && [32]byte(r.DNSStorageAddress) == h:
			return l
		case kind == "text" && r.SumType == "DNSText" && string(r.DNSText) == l:
			return l
		}
	}
	return "?" + string(r.SumType)
}

func nextCell(addr string) *boc.Cell {
	c := boc.NewCell() // dns_next_resolver#ba93 resolver:MsgAddressInt
	must(c.WriteUint(0xba93, 16))
	switch addr {
	case "none":
		must(c.WriteUint(0, 2)) // addr_none$00
	case "ext":
		must(c.WriteUint(1, 2)) // addr_extern$01 len:(## 9) external_address:(bits len)
		must(c.WriteUint(8, 9))
		must(c.WriteUint(0xab, 8))
	default:
		a := parseAddr(addr)
		must(tlb.Marshal(c, a.ToMsgAddress()))
	}
	return c
}

func labelsOf(cell string) []string {
	s := strings.TrimPrefix(cell, "recs:")
	if s == "" {
		return nil
	}
	return strings.Split(s, ",")
}

// answerCell builds the second stack entry; nil stands for null.
func answerCell(cell string) *boc.Cell {
	switch {
	case cell == "null":
		return nil
	case strings.HasPrefix(cell, "next:"):
		return nextCell(strings.TrimPrefix(cell, "next:"))
	case strings.HasPrefix(cell, "rec:"):
		return recordCell(strings.TrimPrefix(cell, "rec:"))
	case cell == "garbage":
		c := boc.NewCell()
		must(c.WriteUint(0xdeadbeefcafe, 48))
		return c
	case strings.HasPrefix(cell, "recs:"):
		labels := labelsOf(cell)
		c := boc.NewCell()
		if len(labels) == 0 {
			return c // an empty cell where the dictionary should be
		}
		var keys []tlb.Bits256
		var vals []tlb.Ref[boc.Cell]
		for _, l := range labels { // TEP-81: the key is sha256 of the category name
			keys = append(keys, tlb.Bits256(h32(strings.SplitN(l, ":", 2)[0])))
			vals = append(vals, tlb.Ref[boc.Cell]{Value: *recordCell(l)})
		}
		must(tlb.Marshal(c, tlb.NewHashmap(keys, vals)))
		return c
	}
	panic("unknown cell description " + cell)
}

type executor struct {
	w      *ev.Writer
	script []Answer
	n      int
	extra  ev.M
}

func (e *executor) RunSmcMethodByID(ctx context.Context, a ton.AccountID, method int, stack tlb.VmStack) (uint32, tlb.VmStack, error) {
	// the stack as the library hands it over: index 0 is the top (the LAST argument of dnsresolve(subdomain, category))
	kind := func(i int) string {
		if i >= len(stack) {
			return "-"
		}
		return string(stack[i].SumType)
	}
	rec := ev.M{"k": "Call", "res": a.ToRaw(), "method": method, "nargs": len(stack), "top": kind(0), "below": kind(1), "d": "", "dbits": -1, "drefs": -1, "cat": "?"}
	if len(stack) >= 2 && stack[1].IsCellSlice() {
		c := stack[1].CellSlice()
		rec["dbits"], rec["drefs"] = c.BitsAvailableForRead(), c.RefsAvailableForRead()
		if b, err := c.ReadBytes(c.BitsAvailableForRead() / 8); err == nil {
			rec["d"] = hx(b)
		}
	}
	if len(stack) >= 1 && stack[0].IsInt() {
		i := stack[0].Int257()
		rec["cat"] = (*big.Int)(&i).String()
	}
	var ans Answer
	if e.n < len(e.script) {
		ans = e.script[e.n]
	} else {
		ans = Answer{Fail: true, Shape: "exhausted", Bits: "0", Cell: "null"}
	}
	e.n++
	rec["ans"] = ans.m()
	for k, v := range e.extra {
		rec[k] = v
	}
	e.w.Emit(rec)
	if ans.Fail {
		return 0, nil, errors.New("scripted executor failure")
	}
	bits, ok := new(big.Int).SetString(ans.Bits, 10)
	if !ok {
		panic("bad bits " + ans.Bits)
	}
	var first tlb.VmStackValue
	if bits.IsInt64() {
		first = tlb.VmStackValue{SumType: "VmStkTinyInt", VmStkTinyInt: bits.Int64()}
	} else {
		first = tlb.VmStackValue{SumType: "VmStkInt", VmStkInt: tlb.Int257(*bits)}
	}
	second := tlb.VmStackValue{SumType: "VmStkNull"}
	if c := answerCell(ans.Cell); c != nil {
		second = tlb.VmStackValue{SumType: "VmStkCell", VmStkCell: tlb.Ref[boc.Cell]{Value: *c}}
	}
	var out tlb.VmStack
	switch ans.Shape {
	case "pair":
		out = tlb.VmStack{first, second}
	case "one":
		out = tlb.VmStack{first}
	case "three":
		out = tlb.VmStack{first, second, first}
	case "cellfirst":
		out = tlb.VmStack{second, first}
	default:
		out = tlb.VmStack{}
	}
	return uint32(ans.Exit), out, nil
}

// Resolve runs one scripted conversation and records it as a segment: Reset, the calls, Ret.
func Resolve(w *ev.Writer, name []byte, root string, script []Answer, extra ev.M) {
	reset := ev.M{"k": "Reset", "name": hx(name), "root": root}
	for k, v := range extra {
		reset[k] = v
	}
	w.Emit(reset)
	ex := &executor{w: w, script: script, extra: extra}
	ret := ev.M{"k": "Ret", "err": "", "panic": "", "recs": ""}
	func() {
		defer func() {
			if r := recover(); r != nil {
				ret["panic"] = fmt.Sprint(r)
				ret["err"] = "p"
			}
		}()
		recs, err := dns.NewDNS(parseAddr(root), ex).Resolve(context.Background(), string(name))
		ret["err"] = ev.ErrClass(err)
		if err == nil {
			var all []string
			for _, a := range script {
				all = append(all, labelsOf(a.Cell)...)
			}
			var ls []string
			for _, r := range recs {
				ls = append(ls, labelOf(r, all))
			}
			sort.Strings(ls)
			ret["recs"] = strings.Join(ls, ",")
		}
	}()
	for k, v := range extra {
		ret[k] = v
	}
	w.Emit(ret)
}
