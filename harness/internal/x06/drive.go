package x06

import (
	"bufio"
	"bytes"
	"encoding/base64"
	"encoding/hex"
	"encoding/json"
	"fmt"
	"io"
	mrand "math/rand"
	"os"
	"strconv"

	"verifharness/internal/ev"
)

type Opts struct {
	Tier          string
	Seed          int64
	Shard, Shards int
	Part          string
	Out           string
}

type vector struct {
	Vec     int      `json:"vec"`
	K       string   `json:"k"`
	Name    string   `json:"name"`
	Root    string   `json:"root"`
	Script  []Answer `json:"script"`
	Variant string   `json:"variant"`
	JSON    string   `json:"json"`
	Servers []struct {
		IP   string `json:"ip"`
		Port string `json:"port"`
		Type string `json:"type"`
		Key  string `json:"key"`
	} `json:"servers"`
}

// Replay (S->C): DNS vectors become one segment each, configuration vectors one record each.
func Replay(in string, w *ev.Writer, out string) error {
	w.Sync = true
	f, err := os.Open(in)
	if err != nil {
		return err
	}
	defer f.Close()
	rd := bufio.NewReaderSize(f, 1<<20)
	for {
		line, err := rd.ReadBytes('\n')
		if len(bytes.TrimSpace(line)) > 0 {
			var v vector
			if e := json.Unmarshal(line, &v); e != nil {
				return fmt.Errorf("bad vector: %w", e)
			}
			x := ev.M{"vec": v.Vec}
			switch v.K {
			case "dns":
				name, e := hex.DecodeString(v.Name)
				if e != nil {
					return e
				}
				Resolve(w, name, v.Root, v.Script, x)
			case "cfg":
				text, e := hex.DecodeString(v.JSON)
				if e != nil {
					return e
				}
				var sv []Server
				for _, s := range v.Servers {
					sv = append(sv, Server{s.IP, s.Port, s.Type, s.Key})
				}
				via := "reader"
				if v.Vec%4 == 3 {
					via = "file"
				}
				Cfg(w, via, v.Variant, sv, text, out, x)
			default:
				return fmt.Errorf("vector %d: unknown kind %q", v.Vec, v.K)
			}
		}
		if err == io.EOF {
			break
		}
		if err != nil {
			return err
		}
	}
	w.Emit(ev.M{"k": "End", "events": w.N})
	return nil
}

const (
	root = "-1:e56754f83426f69b09267bd876ac97c44821345b7e266bd956a7bfbfb98df35c"
)

func randAddr(r *mrand.Rand) string {
	b := make([]byte, 32)
	r.Read(b)
	return strconv.Itoa(r.Intn(2)-1) + ":" + hex.EncodeToString(b)
}

func randLabel(r *mrand.Rand) []byte {
	n := 1 + r.Intn(12)
	b := make([]byte, n)
	for i := range b {
		b[i] = "abcdefghijklmnopqrstuvwxyz0123456789-_"[r.Intn(38)]
	}
	return b
}

func randName(r *mrand.Rand) []byte {
	var name []byte
	for i, n := 0, 1+r.Intn(4); i < n; i++ {
		if i > 0 {
			name = append(name, '.')
		}
		name = append(name, randLabel(r)...)
	}
	switch r.Intn(14) {
	case 0: // upper case
		name = bytes.ToUpper(name)
	case 1: // an empty component
		i := r.Intn(len(name) + 1)
		name = append(name[:i:i], append([]byte{'.'}, name[i:]...)...)
		if !bytes.Contains(name, []byte("..")) && name[0] != '.' && name[len(name)-1] != '.' {
			name = append(name, '.')
		}
	case 2: // a forbidden byte 1..32
		name[r.Intn(len(name))] = byte(1 + r.Intn(32))
	case 3: // a zero byte
		name[r.Intn(len(name))] = 0
	case 4: // non-ASCII
		name = append([]byte{0xd1, 0x82, 0xd0, 0xbe, 0xd0, 0xbd, '.'}, name...)
	case 5: // long
		name = append(bytes.Repeat([]byte{'x'}, 100+r.Intn(60)), append([]byte{'.'}, name...)...)
	}
	return name
}

var recLabels = []string{"wallet:1", "site:2", "storage:3", "text:4", "wallet:5", "site:6", "text:7"}

func randRecs(r *mrand.Rand) string {
	// one record per category at most (the dictionary is keyed by the category)
	seen := map[byte]bool{}
	s := "recs:"
	for _, i := range r.Perm(len(recLabels))[:1+r.Intn(3)] {
		if l := recLabels[i]; !seen[l[0]] {
			seen[l[0]] = true
			if len(s) > 5 {
				s += ","
			}
			s += l
		}
	}
	return s
}

// randScript plays a chain of honest resolvers over a subdomain of n bytes and, sometimes, ends it with a malformed answer.
func randScript(r *mrand.Rand, n int) []Answer {
	var sc []Answer
	left := n
	good := func(bits int, cell string) Answer {
		return Answer{Exit: int64(r.Intn(2)), Shape: "pair", Bits: strconv.Itoa(bits), Cell: cell}
	}
	for hops := r.Intn(4); hops > 0 && left > 1; hops-- {
		k := 1 + r.Intn(left-1)
		sc = append(sc, good(8*k, "next:"+randAddr(r)))
		left -= k
	}
	switch r.Intn(16) {
	case 0:
		sc = append(sc, Answer{Fail: true, Shape: "pair", Bits: "0", Cell: "null"})
	case 1:
		sc = append(sc, Answer{Exit: int64(2 + r.Intn(100)), Shape: "pair", Bits: strconv.Itoa(8 * left), Cell: randRecs(r)})
	case 2:
		sc = append(sc, Answer{Shape: []string{"one", "three", "cellfirst", "empty"}[r.Intn(4)], Bits: strconv.Itoa(8 * left), Cell: randRecs(r)})
	case 3:
		sc = append(sc, good(0, "null"))
	case 4:
		sc = append(sc, good(8*left-1-r.Intn(7), "next:"+randAddr(r)))
	case 5: // more bits than the subdomain has
		sc = append(sc, good(8*(left+1+r.Intn(3)), []string{"next:" + randAddr(r), randRecs(r)}[r.Intn(2)]))
	case 6:
		sc = append(sc, good(-8*(1+r.Intn(3)), []string{"next:" + randAddr(r), randRecs(r)}[r.Intn(2)]))
	case 7:
		if left > 1 {
			sc = append(sc, good(8*(1+r.Intn(left-1)), []string{"null", "next:none", "next:ext", "garbage", "rec:wallet:1", randRecs(r)}[r.Intn(6)]))
		} else {
			sc = append(sc, good(8*left, "null"))
		}
	case 8:
		sc = append(sc, good(8*left, []string{"null", "garbage", "rec:site:2", "next:" + randAddr(r), "recs:"}[r.Intn(5)]))
	case 9:
		sc = append(sc, Answer{Shape: "pair", Bits: []string{"1099511627776", "9223372036854775807", "9223372036854775808", "-9223372036854775808", "4294967296"}[r.Intn(5)], Cell: "next:" + randAddr(r)})
	default:
		sc = append(sc, good(8*left, randRecs(r)))
	}
	return sc
}

func randServer(r *mrand.Rand) Server {
	key := make([]byte, 32)
	r.Read(key)
	s := Server{Type: "pub.ed25519", Key: base64.StdEncoding.EncodeToString(key)}
	switch r.Intn(10) {
	case 0:
		s.IP = strconv.FormatInt(int64(r.Uint32()), 10) // 0..2^32-1: the unsigned spelling
	case 1:
		s.IP = []string{"0", "-1", "1", "2147483647", "-2147483648", "2147483648", "4294967295", "4294967296", "-2147483649", "-4294967296"}[r.Intn(10)]
	default:
		s.IP = strconv.FormatInt(int64(int32(r.Uint32())), 10)
	}
	switch r.Intn(12) {
	case 0:
		s.Port = []string{"0", "65535", "65536", "-1", "100000"}[r.Intn(5)]
	default:
		s.Port = strconv.Itoa(r.Intn(65536))
	}
	if r.Intn(6) == 0 {
		s.Type = []string{"pub.aes", "pub.unenc", "pub.overlay", ""}[r.Intn(4)]
	}
	return s
}

// Drive (C->S): -part dns records conversations (segments), -part cfg records configuration readings.
func Drive(w *ev.Writer, o Opts) error {
	w.Sync = true
	r := mrand.New(mrand.NewSource(o.Seed*1000003 + int64(o.Shard)*7919 + 41))
	n := 400
	if o.Tier == "thorough" {
		n = 8000
	}
	switch o.Part {
	case "dns":
		for i := 0; i < n; i++ {
			name := randName(r)
			switch i % 50 {
			case 7:
				name = []byte{}
			case 8:
				name = []byte(".")
			}
			Resolve(w, name, root, randScript(r, len(name)+1), nil)
		}
	case "cfg":
		for i := 0; i < n; i++ {
			var sv []Server
			for k := r.Intn(5); k > 0; k-- {
				sv = append(sv, randServer(r))
			}
			via := "reader"
			if i%5 == 4 {
				via = "file"
			}
			Cfg(w, via, "canon", sv, canonFile(sv), o.Out, nil)
		}
	default:
		return fmt.Errorf("X06: -part dns|cfg")
	}
	w.Emit(ev.M{"k": "End", "events": w.N})
	return nil
}
