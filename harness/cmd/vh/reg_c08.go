package main

import (
	"fmt"
	"strconv"
	"strings"

	"verifharness/internal/c08"
	"verifharness/internal/ev"
)

func init() {
	// vh drive C08 -part tlb|bags|seeds|tl|helpers|big|replay -out F -tier T -seed N -shard i -shards n [-in FILE] [skip=N] [only=N] [ast=FILE] [schema=FILE] [abiops=FILE]
	register("drive:C08", func(a Args, w *ev.Writer) error {
		o := c08.Opts{Tier: a.Tier, Seed: a.Seed, Shard: a.Shard, Shards: a.Shards, In: a.In, Only: -1}
		for _, kv := range a.Rest {
			k, v, ok := strings.Cut(kv, "=")
			if !ok {
				return fmt.Errorf("bad argument %q", kv)
			}
			switch k {
			case "skip":
				o.Skip, _ = strconv.Atoi(v)
			case "only":
				o.Only, _ = strconv.Atoi(v)
			case "ast":
				o.AstOut = v
			case "schema":
				o.Schema = v
			case "abiops":
				o.AbiOps = v
			default:
				return fmt.Errorf("unknown argument %q", k)
			}
		}
		switch a.Part {
		case "tlb":
			return c08.DriveTLB(w, o)
		case "bags":
			return c08.DriveBags(w, o)
		case "seeds":
			return c08.Seeds(w, o)
		case "tl":
			return c08.DriveTL(w, o)
		case "helpers":
			return c08.DriveHelpers(w, o)
		case "tuples":
			return c08.DriveTuples(w, o)
		case "big":
			return c08.DriveBig(w, o)
		case "replay":
			return c08.ReplayBegins(w, o)
		}
		return fmt.Errorf("unknown part %q", a.Part)
	})
}
