package main

import (
	"fmt"

	"verifharness/internal/ev"
	"verifharness/internal/x03"
)

func init() {
	// vh replay X03 -part auth -in scripts.ndjson -out records.ndjson   (LiteAuth_Gen server scripts against liteclient.NewConnection)
	// vh replay X03 -part init -in configs.ndjson -out records.ndjson   (LiteInit_Gen configurations against liteapi.NewClient)
	run := func(a Args, w *ev.Writer) error {
		switch a.Part {
		case "auth":
			return x03.ReplayAuth(a.In, w)
		case "init":
			return x03.ReplayInit(a.In, w)
		}
		return fmt.Errorf("X03: -part auth|init")
	}
	register("replay:X03", run)
	register("drive:X03", run)
}
