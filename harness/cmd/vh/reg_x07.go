package main

import (
	"verifharness/internal/ev"
	"verifharness/internal/x07"
)

func init() {
	register("drive:X07", func(a Args, w *ev.Writer) error {
		x07.Drive(w, x07.Opts{Tier: a.Tier, Seed: a.Seed, Shard: a.Shard, Shards: a.Shards})
		return nil
	})
	register("replay:X07", func(a Args, w *ev.Writer) error { return x07.Replay(a.In, w) })
}
