package main

import (
	"verifharness/internal/c20"
	"verifharness/internal/ev"
)

func init() {
	register("drive:C20", func(a Args, w *ev.Writer) error {
		return c20.Drive(w, c20.Opts{Tier: a.Tier, Seed: a.Seed, Shard: a.Shard, Shards: a.Shards})
	})
	register("replay:C20", func(a Args, w *ev.Writer) error { return c20.Replay(a.In, w, a.Shard, a.Shards) })
	register("types:C20", func(a Args, w *ev.Writer) error { return c20.Types(w) })
}
