package main

import (
	"verifharness/internal/ev"
	"verifharness/internal/x05"
)

func init() {
	register("drive:X05", func(a Args, w *ev.Writer) error {
		x05.Drive(w, x05.Opts{Tier: a.Tier, Seed: a.Seed, Shard: a.Shard, Shards: a.Shards})
		return nil
	})
	register("replay:X05", func(a Args, w *ev.Writer) error { return x05.Replay(a.In, w) })
}
