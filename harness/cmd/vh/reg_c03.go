package main

import (
	"fmt"

	"verifharness/internal/c03"
	"verifharness/internal/ev"
)

func init() {
	register("types:C04", func(a Args, w *ev.Writer) error { return c03.WriteTypes(a.In) })
	register("replay:C04", func(a Args, w *ev.Writer) error { return c03.ReplayPrims(a.In, w) })
	register("drive:C04", func(a Args, w *ev.Writer) error {
		for _, r := range a.Rest { // schema=<schema.json>: enables the shape check of dumped values against the transcription
			if len(r) > 7 && r[:7] == "schema=" {
				if err := c03.LoadSchema(r[7:]); err != nil {
					return err
				}
			}
			if r == "summary" { // a side file <out>.sum with one short line per event
				if err := c03.OpenSummary(a.Out + ".sum"); err != nil {
					return err
				}
				defer c03.CloseSummary()
			}
		}
		c03.DriveC04(w, c03.Opts{Tier: a.Tier, Seed: a.Seed, Shard: a.Shard, Shards: a.Shards})
		return nil
	})
	// vh replay C03 -part vmstack -in <vectors of VmStackApi_Gen> -out <events for VmStackApi_Trace>
	register("replay:C03", func(a Args, w *ev.Writer) error {
		if a.Part != "vmstack" {
			return fmt.Errorf("unknown part %q", a.Part)
		}
		return c03.ReplayVmStack(a.In, w)
	})
	register("drive:C03", func(a Args, w *ev.Writer) error {
		c03.Drive(w, c03.Opts{Tier: a.Tier, Seed: a.Seed, Shard: a.Shard, Shards: a.Shards})
		return nil
	})
}
