package main

import (
	"verifharness/internal/ev"
	"verifharness/internal/x01"
)

func init() {
	register("drive:X01", func(a Args, w *ev.Writer) error {
		return x01.Drive(w, x01.Opts{Tier: a.Tier, Seed: a.Seed, Shard: a.Shard, Shards: a.Shards})
	})
	register("replay:X01", func(a Args, w *ev.Writer) error { return x01.Replay(a.In, w, a.Seed) })
}
