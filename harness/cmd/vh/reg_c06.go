package main

import (
	"verifharness/internal/c06"
	"verifharness/internal/ev"
)

func init() {
	register("drive:C06", func(a Args, w *ev.Writer) error {
		c06.Drive(w, c06.Opts{Tier: a.Tier, Seed: a.Seed, Shard: a.Shard, Shards: a.Shards})
		return nil
	})
	register("replay:C06", func(a Args, w *ev.Writer) error { return c06.Replay(a.In, w) })
}
