package main

import (
	"verifharness/internal/c05"
	"verifharness/internal/ev"
)

func init() {
	register("drive:C05", func(a Args, w *ev.Writer) error {
		c05.Drive(w, c05.Opts{Tier: a.Tier, Seed: a.Seed, Shard: a.Shard, Shards: a.Shards})
		return nil
	})
	register("replay:C05", func(a Args, w *ev.Writer) error { return c05.Replay(a.In, w) })
	register("replay:C05KEYS", func(a Args, w *ev.Writer) error { return c05.KeyOps(a.In, w, a.Shard, a.Shards) })
}
