package main

import (
	"verifharness/internal/c18"
	"verifharness/internal/ev"
)

func init() {
	register("drive:C18", func(a Args, w *ev.Writer) error {
		c18.Drive(w, c18.Opts{Tier: a.Tier, Seed: a.Seed, Shard: a.Shard, Shards: a.Shards})
		return nil
	})
	register("replay:C18", func(a Args, w *ev.Writer) error { return c18.Replay(a.In, w) })
}
