package main

import (
	"verifharness/internal/ev"
	"verifharness/internal/x02"
)

func init() {
	register("drive:X02", func(a Args, w *ev.Writer) error {
		return x02.Drive(w, x02.Opts{Tier: a.Tier, Seed: a.Seed, Shard: a.Shard, Shards: a.Shards})
	})
	register("replay:X02", func(a Args, w *ev.Writer) error { return x02.Replay(a.In, w) })
}
