package main

import (
	"fmt"

	"verifharness/internal/c10"
	"verifharness/internal/ev"
)

func init() {
	// vh drive C10 -out F -tier T -seed N -shard i -shards n [-part reqdecode -in VECTORS] -- SCHEMA.json
	register("drive:C10", func(a Args, w *ev.Writer) error {
		if len(a.Rest) < 1 {
			return fmt.Errorf("usage: vh drive C10 ... SCHEMA.json")
		}
		o := c10.Opts{Tier: a.Tier, Seed: a.Seed, Shard: a.Shard, Shards: a.Shards, Schema: a.Rest[0], Part: a.Part}
		switch a.Part {
		case "reqdecode":
			return c10.ReqDecode(a.In, w, o)
		case "rerecord":
			return c10.ReRecord(a.In, w, o)
		case "reflective":
			return c10.DriveReflective(w, o)
		case "vecsizes":
			return c10.VecSizes(o.Schema, w)
		case "names":
			ns, err := c10.Names(o.Schema)
			for _, n := range ns {
				w.Emit(ev.M{"k": "Name", "n": n})
			}
			return err
		}
		return c10.Drive(w, o)
	})
	register("replay:C10", func(a Args, w *ev.Writer) error {
		if len(a.Rest) < 1 {
			return fmt.Errorf("usage: vh replay C10 -in VECTORS -out F SCHEMA.json")
		}
		return c10.Replay(a.In, w, c10.Opts{Schema: a.Rest[0], Part: a.Part})
	})
}
