package main

import (
	"verifharness/internal/c11"
	"verifharness/internal/ev"
)

func init() {
	// vh drive C11 -out trace.ndjson -tier T -seed N -shard i -shards n     (echo sessions, C->S)
	register("drive:C11", func(a Args, w *ev.Writer) error {
		return c11.Drive(w, a.Tier, a.Seed, a.Shard, a.Shards)
	})
	// vh replay C11 -in vectors.ndjson -out results.ndjson -seed N [trace.ndjson]
	// (TLC connection scripts against the real client; the executed connections are recorded into the trace file)
	register("replay:C11", func(a Args, w *ev.Writer) error {
		op := c11.Opts{Seed: a.Seed}
		if len(a.Rest) > 0 {
			op.Trace = a.Rest[0]
		}
		return c11.Replay(a.In, w, op)
	})
}
