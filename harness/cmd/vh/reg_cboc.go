package main

import (
	"strconv"

	"verifharness/internal/cboc"
	"verifharness/internal/ev"
)

func init() {
	opts := func(a Args) cboc.Opts {
		return cboc.Opts{Tier: a.Tier, Seed: a.Seed, Shard: a.Shard, Shards: a.Shards}
	}
	register("drive:C02", func(a Args, w *ev.Writer) error { cboc.DriveC02(w, opts(a)); return nil })
	register("drive:C01", func(a Args, w *ev.Writer) error { cboc.DriveC01(w, opts(a)); return nil })
	register("drive:C07", func(a Args, w *ev.Writer) error {
		skip, _ := strconv.Atoi(a.Part)
		cboc.DriveC07(w, opts(a), skip, a.In)
		return nil
	})
	register("replay:CELLGEN", func(a Args, w *ev.Writer) error { return cboc.ReplayGen(a.In, w) })
}
