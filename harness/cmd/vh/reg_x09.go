package main

import (
	"verifharness/internal/ev"
	"verifharness/internal/x09"
)

func init() {
	register("replay:X09", func(a Args, w *ev.Writer) error { return x09.Replay(a.In, w) })
}
