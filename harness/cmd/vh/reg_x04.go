package main

import (
	"verifharness/internal/ev"
	"verifharness/internal/x04"
)

func init() {
	register("drive:X04", func(a Args, w *ev.Writer) error {
		x04.Drive(w, x04.Opts{Tier: a.Tier, Seed: a.Seed, Shard: a.Shard, Shards: a.Shards})
		return nil
	})
	register("replay:X04", func(a Args, w *ev.Writer) error { return x04.Replay(a.In, w) })
}
