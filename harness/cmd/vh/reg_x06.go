package main

import (
	"verifharness/internal/ev"
	"verifharness/internal/x06"
)

func init() {
	// vh drive X06 -part dns|cfg ; vh replay X06 -in vectors.ndjson (DNS and configuration vectors)
	register("drive:X06", func(a Args, w *ev.Writer) error {
		return x06.Drive(w, x06.Opts{Tier: a.Tier, Seed: a.Seed, Shard: a.Shard, Shards: a.Shards, Part: a.Part, Out: a.Out})
	})
	register("replay:X06", func(a Args, w *ev.Writer) error { return x06.Replay(a.In, w, a.Out) })
}
