package main

import (
	"verifharness/internal/c17"
	"verifharness/internal/ev"
)

func init() {
	register("drive:C17", func(a Args, w *ev.Writer) error {
		c17.Drive(w, c17.Opts{Tier: a.Tier, Seed: a.Seed, Shard: a.Shard, Shards: a.Shards})
		return nil
	})
	register("replay:C17", func(a Args, w *ev.Writer) error { return c17.Replay(a.In, w) })
}
