package main

import (
	"verifharness/internal/c12"
	"verifharness/internal/ev"
)

func init() {
	// vh drive C12 -in scripts.ndjson -shard i -out result.ndjson -seed N [trace.ndjson]
	// executes script number i (one execution per process: the client's goroutines never end) against the real client.
	run := func(a Args, w *ev.Writer) error {
		tp := ""
		if len(a.Rest) > 0 {
			tp = a.Rest[0]
		}
		return c12.Drive(a.In, a.Shard, w, a.Seed, tp)
	}
	register("drive:C12", run)
	register("replay:C12", run)
}
