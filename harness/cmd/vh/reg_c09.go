package main

import (
	"fmt"

	_ "verifharness/internal/c09" // keeps the runtime of the per-run driver compiling with the harness
	"verifharness/internal/ev"
)

func init() {
	// C09 compiles the output of tl/parser: its driver binary is built per run under /verif/work/C09 by
	// checks/c09.py from internal/c09 (runtime) + internal/c09/gen (generator runner) + the generated packages.
	f := func(a Args, w *ev.Writer) error {
		return fmt.Errorf("C09 has no static driver: run bin/check C09 (the driver is built from generated code under work/C09)")
	}
	register("drive:C09", f)
	register("replay:C09", f)
}
