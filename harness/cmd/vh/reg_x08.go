package main

import (
	"verifharness/internal/ev"
	"verifharness/internal/x08"
)

func init() {
	register("drive:X08", func(a Args, w *ev.Writer) error {
		x08.Drive(w, x08.Opts{Tier: a.Tier, Seed: a.Seed, Shard: a.Shard, Shards: a.Shards})
		return nil
	})
	register("replay:X08", func(a Args, w *ev.Writer) error { return x08.Replay(a.In, w) })
}
