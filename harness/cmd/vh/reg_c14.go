package main

import (
	"verifharness/internal/c14"
	"verifharness/internal/ev"
)

func init() {
	register("drive:C14", func(a Args, w *ev.Writer) error {
		c14.Drive(w, c14.Opts{Tier: a.Tier, Seed: a.Seed, Shard: a.Shard, Shards: a.Shards})
		return nil
	})
	register("replay:C14", func(a Args, w *ev.Writer) error { return c14.Replay(a.In, w, a.Seed, false) })
}
