package main

import (
	"verifharness/internal/c16"
	"verifharness/internal/ev"
)

func init() {
	register("drive:C16", func(a Args, w *ev.Writer) error {
		return c16.Drive(w, c16.Opts{Tier: a.Tier, Seed: a.Seed, Shard: a.Shard, Shards: a.Shards})
	})
	register("replay:C16", func(a Args, w *ev.Writer) error { return c16.Replay(a.In, w, a.Seed) })
}
