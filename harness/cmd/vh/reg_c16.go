package main

import (
	"verifharness/internal/c16"
	"verifharness/internal/ev"
)

func init() {
	register("drive:C16", func(a Args, w *ev.Writer) error {
		o := c16.Opts{Tier: a.Tier, Seed: a.Seed, Shard: a.Shard, Shards: a.Shards}
		if a.Part == "sessions" {
			return c16.DriveSessions(w, o)
		}
		return c16.Drive(w, o)
	})
	register("replay:C16", func(a Args, w *ev.Writer) error {
		if a.Part == "sessions" {
			return c16.ReplaySessions(a.In, w, a.Seed)
		}
		return c16.Replay(a.In, w, a.Seed)
	})
}
