package main

import (
	"strconv"

	"verifharness/internal/c15"
	"verifharness/internal/ev"
)

func init() {
	// drive C15 -part codes|addr ; replay C15 -in vectors -out runs [-part <parallel runs>]
	register("drive:C15", func(a Args, w *ev.Writer) error {
		c15.Drive(w, c15.Opts{Tier: a.Tier, Seed: a.Seed, Shard: a.Shard, Shards: a.Shards, Part: a.Part})
		return nil
	})
	register("replay:C15", func(a Args, w *ev.Writer) error {
		par, _ := strconv.Atoi(a.Part)
		return c15.Replay(a.In, w, par)
	})
}
