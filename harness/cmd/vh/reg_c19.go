package main

import (
	"verifharness/internal/c19"
	"verifharness/internal/ev"
)

func init() {
	register("drive:C19", func(a Args, w *ev.Writer) error {
		return c19.Drive(w, c19.Opts{Tier: a.Tier, Seed: a.Seed, Shard: a.Shard, Shards: a.Shards})
	})
	register("replay:C19", func(a Args, w *ev.Writer) error { return c19.Replay(a.In, w) })
	register("exec:C19", func(a Args, w *ev.Writer) error { return c19.Exec(a.In, w) })
}
