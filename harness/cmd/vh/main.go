// vh: the Go side of the verification harness. `vh drive <ID>` records traces from the real
// code (C->S); `vh replay <ID>` replays TLC-generated vectors against it (S->C).
package main

import (
	"flag"
	"fmt"
	"os"

	"verifharness/internal/c06"
	"verifharness/internal/ev"
)

func main() {
	if len(os.Args) < 3 {
		fmt.Fprintln(os.Stderr, "usage: vh drive|replay <ID> [flags]")
		os.Exit(2)
	}
	mode, id := os.Args[1], os.Args[2]
	fs := flag.NewFlagSet("vh", flag.ExitOnError)
	out := fs.String("out", "", "output NDJSON file")
	in := fs.String("in", "", "input NDJSON file (vectors)")
	tier := fs.String("tier", "quick", "quick|thorough")
	seed := fs.Int64("seed", 1, "seed")
	shard := fs.Int("shard", 0, "shard index")
	shards := fs.Int("shards", 1, "number of shards")
	part := fs.String("part", "", "sub-driver selector")
	fs.Parse(os.Args[3:])
	_ = part
	w, err := ev.Create(*out)
	if err != nil {
		fmt.Fprintln(os.Stderr, err)
		os.Exit(2)
	}
	defer w.Close()
	switch mode + ":" + id {
	case "drive:C06":
		c06.Drive(w, c06.Opts{Tier: *tier, Seed: *seed, Shard: *shard, Shards: *shards})
	case "replay:C06":
		if err := c06.Replay(*in, w); err != nil {
			fmt.Fprintln(os.Stderr, err)
			w.Close()
			os.Exit(2)
		}
	default:
		fmt.Fprintf(os.Stderr, "vh: unknown %s %s\n", mode, id)
		os.Exit(2)
	}
}
