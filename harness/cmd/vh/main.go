// vh: the Go side of the verification harness. `vh drive <ID>` records traces from the real
// code (C->S); `vh replay <ID>` replays TLC-generated vectors against it (S->C). Each property
// registers its sub-commands from its own file reg_<id>.go in this directory.
package main

import (
	"flag"
	"fmt"
	"os"

	"verifharness/internal/ev"
)

// Args are the common flags every sub-command gets.
type Args struct {
	In, Out, Tier, Part string
	Seed                int64
	Shard, Shards       int
	Rest                []string
}

var commands = map[string]func(a Args, w *ev.Writer) error{}

func register(modeID string, f func(a Args, w *ev.Writer) error) { commands[modeID] = f }

func main() {
	if len(os.Args) < 3 {
		fmt.Fprintln(os.Stderr, "usage: vh drive|replay|<mode> <ID> [flags]")
		os.Exit(2)
	}
	mode, id := os.Args[1], os.Args[2]
	fs := flag.NewFlagSet("vh", flag.ExitOnError)
	var a Args
	fs.StringVar(&a.Out, "out", "", "output NDJSON file")
	fs.StringVar(&a.In, "in", "", "input NDJSON file (vectors)")
	fs.StringVar(&a.Tier, "tier", "quick", "quick|thorough")
	fs.Int64Var(&a.Seed, "seed", 1, "seed")
	fs.IntVar(&a.Shard, "shard", 0, "shard index")
	fs.IntVar(&a.Shards, "shards", 1, "number of shards")
	fs.StringVar(&a.Part, "part", "", "sub-driver selector")
	fs.Parse(os.Args[3:])
	a.Rest = fs.Args()
	f, ok := commands[mode+":"+id]
	if !ok {
		fmt.Fprintf(os.Stderr, "vh: unknown %s %s\n", mode, id)
		os.Exit(2)
	}
	w, err := ev.Create(a.Out)
	if err != nil {
		fmt.Fprintln(os.Stderr, err)
		os.Exit(2)
	}
	if err := f(a, w); err != nil {
		w.Close()
		fmt.Fprintln(os.Stderr, "vh:", err)
		os.Exit(2)
	}
	if err := w.Close(); err != nil {
		fmt.Fprintln(os.Stderr, err)
		os.Exit(2)
	}
}
