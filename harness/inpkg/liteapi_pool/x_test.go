package pool

// C13 in-package drivers (compiled into liteapi/pool with `go test -overlay`, build tag verif).
// This file: shared plumbing (event writer, roles, mock connections) and the PoolSelect replayer.
// gate_test.go: scheduler-gate replayer for Pool scripts; stress_test.go: free-running recorder.
// The harness only drives and records; expectations come from TLC (spec/PoolSelect.tla, spec/Pool.tla).

import (
	"bufio"
	"bytes"
	"context"
	"encoding/json"
	"fmt"
	"os"
	"runtime"
	"strconv"
	"sync"
	"sync/atomic"
	"testing"
	"time"

	"github.com/tonkeeper/tongo/liteclient"
	"github.com/tonkeeper/tongo/ton"
)

type vM = map[string]any

// ---------------------------------------------------------------- NDJSON writer
type vWriter struct {
	mu sync.Mutex
	f  *os.File
	w  *bufio.Writer
	n  int
}

func vCreate(path string) *vWriter {
	f, err := os.Create(path)
	if err != nil {
		panic(err)
	}
	return &vWriter{f: f, w: bufio.NewWriterSize(f, 1<<20)}
}

func (w *vWriter) emit(m vM) {
	b, err := json.Marshal(m)
	if err != nil {
		panic(err)
	}
	w.mu.Lock()
	w.w.Write(b)
	w.w.WriteByte('\n')
	w.n++
	w.mu.Unlock()
}

func (w *vWriter) close() {
	w.mu.Lock()
	fmt.Fprintf(w.w, "{\"k\":\"End\",\"events\":%d}\n", w.n)
	w.w.Flush()
	w.f.Close()
	w.mu.Unlock()
}

func vReadLines(path string, fn func(line []byte)) {
	f, err := os.Open(path)
	if err != nil {
		panic(err)
	}
	defer f.Close()
	sc := bufio.NewScanner(f)
	sc.Buffer(make([]byte, 1<<20), 64<<20)
	for sc.Scan() {
		if len(bytes.TrimSpace(sc.Bytes())) > 0 {
			fn(sc.Bytes())
		}
	}
	if err := sc.Err(); err != nil {
		panic(err)
	}
}

func vEnv(name, def string) string {
	if v := os.Getenv(name); v != "" {
		return v
	}
	return def
}

func vEnvInt(name string, def int) int {
	if v := os.Getenv(name); v != "" {
		n, err := strconv.Atoi(v)
		if err == nil {
			return n
		}
	}
	return def
}

// ---------------------------------------------------------------- goroutine ids / roles
func vGoid() uint64 {
	var buf [64]byte
	n := runtime.Stack(buf[:], false)
	// "goroutine 123 ["
	b := buf[10:n]
	var id uint64
	for _, c := range b {
		if c < '0' || c > '9' {
			break
		}
		id = id*10 + uint64(c-'0')
	}
	return id
}

// ---------------------------------------------------------------- connections
// vconn is a real *connection (real SetMasterHead / MasterHead / lock / update channel) whose
// liveness and round-trip time are supplied by the harness instead of a liteclient.
type vconn struct {
	*connection
	ok  atomic.Bool
	rtt atomic.Int64
}

func (v *vconn) IsOK() bool                      { return v.ok.Load() }
func (v *vconn) AverageRoundTrip() time.Duration { return time.Duration(v.rtt.Load()) }

var _ conn = &vconn{}

func vHead(s uint32) ton.BlockIDExt { return ton.BlockIDExt{BlockID: ton.BlockID{Workchain: -1, Seqno: s}} }

// vNewPool builds a pool the way InitializeConnections/addConnection do, minus the network.
func vNewPool(nc int, strategy string, rttMs []int, interval time.Duration) (*ConnPool, []*vconn) {
	p := New(Strategy(strategy))
	p.updateBestInterval = interval
	var cs []*vconn
	for k := 1; k <= nc; k++ {
		c := &connection{id: k, serverHost: fmt.Sprintf("mock-%d", k), masterHeadUpdatedCh: p.masterHeadUpdatedCh}
		v := &vconn{connection: c}
		v.ok.Store(true)
		if k-1 < len(rttMs) {
			v.rtt.Store(int64(time.Duration(rttMs[k-1]) * time.Millisecond))
		}
		p.conns = append(p.conns, v)
		cs = append(cs, v)
	}
	p.bestConn = p.conns[0]
	return p, cs
}

// ---------------------------------------------------------------- PoolSelect replay (S->C a)
// selConn: a pure mock for the selection rule (arbitrary seqno incl. 2^32-1).
type selConn struct {
	id    int
	seqno uint32
	ok    bool
	rtt   time.Duration
	cli   *liteclient.Client
}

func (m *selConn) ID() int                                     { return m.id }
func (m *selConn) MasterHead() ton.BlockIDExt                  { return vHead(m.seqno) }
func (m *selConn) SetMasterHead(ton.BlockIDExt)                {}
func (m *selConn) IsOK() bool                                  { return m.ok }
func (m *selConn) Client() *liteclient.Client                  { return m.cli }
func (m *selConn) Run(ctx context.Context, detectArchive bool) {}
func (m *selConn) IsArchiveNode() bool                         { return false }
func (m *selConn) AverageRoundTrip() time.Duration             { return m.rtt }
func (m *selConn) Status() ConnStatus                          { return ConnStatus{} }

var _ conn = &selConn{}

type selVec struct {
	N int `json:"n"`
	C []struct {
		A bool   `json:"a"`
		S string `json:"s"`
		R int    `json:"r"`
	} `json:"c"`
	Keep bool  `json:"keep"`
	Bp   []int `json:"bp"`
	Fw   []int `json:"fw"`
}

// TestVerifSelect replays every PoolSelect vector: for both strategies and every previous best
// (0 = none) it runs the real updateBest and observes the choice through BestMasterchainClient.
func TestVerifSelect(t *testing.T) {
	in, out := os.Getenv("C13_IN"), os.Getenv("C13_OUT")
	if in == "" || out == "" {
		t.Skip("driver only")
	}
	w := vCreate(out)
	defer w.close()
	cancelled, cancel := context.WithCancel(context.Background())
	cancel()
	var nvec, ncalls, nbad int
	classes := map[string]int{}
	vReadLines(in, func(line []byte) {
		var v selVec
		if err := json.Unmarshal(line, &v); err != nil {
			panic(err)
		}
		idx := nvec
		nvec++
		conns := make([]conn, v.N)
		sc := make([]*selConn, v.N)
		for i := 0; i < v.N; i++ {
			s, err := strconv.ParseUint(v.C[i].S, 10, 32)
			if err != nil {
				panic(err)
			}
			sc[i] = &selConn{id: i + 1, seqno: uint32(s), ok: v.C[i].A, rtt: time.Duration(v.C[i].R) * time.Millisecond, cli: &liteclient.Client{}}
			conns[i] = sc[i]
		}
		for _, st := range []string{BestPingStrategy, FirstWorkingConnection} {
			allowed := v.Bp
			if st == FirstWorkingConnection {
				allowed = v.Fw
			}
			for prev := 0; prev <= v.N; prev++ {
				p := New(Strategy(st))
				p.conns = conns
				if prev > 0 {
					p.bestConn = conns[prev-1]
				}
				p.updateBest()
				ncalls++
				// observe through the public accessor
				got, via := 0, "BestMasterchainClient"
				cli, head, err := p.BestMasterchainClient(cancelled)
				if err == ErrNoConnections {
					got = 0
				} else if err != nil { // best has seqno 0: the call waits for a head; identify it directly
					via = "bestConnection"
					if bc := p.bestConnection(); bc != nil {
						got = bc.ID()
					}
				} else {
					for _, c := range sc {
						if c.cli == cli {
							got = c.id
							if head.Seqno != c.seqno {
								got = -c.id // wrong head returned for that client
							}
						}
					}
				}
				ok := false
				if v.Keep {
					ok = got == prev
				} else {
					for _, a := range allowed {
						ok = ok || a == got
					}
				}
				if !ok {
					nbad++
					// the key names the input class, never the outcome
					class := "choice"
					if v.Keep {
						class = "no-good-keeps-previous"
					}
					for i := range v.C {
						if v.C[i].S == "4294967295" {
							class = "seqno=2^32-1"
						}
					}
					if class != "seqno=2^32-1" {
						class = st + ":" + class
					}
					classes[class]++
					if classes[class] <= 50 {
						exp := allowed
						if v.Keep {
							exp = []int{prev}
						}
						w.emit(vM{"k": "Mismatch", "class": class, "vec": idx, "strategy": st, "prev": prev, "got": got, "exp": exp, "via": via, "v": json.RawMessage(append([]byte(nil), line...))})
					}
				}
			}
		}
	})
	w.emit(vM{"k": "Sum", "vectors": nvec, "calls": ncalls, "mismatch": nbad, "classes": classes})
}
