package pool

// C13 in-package drivers (compiled into liteapi/pool with `go test -overlay`, build tag verif).
// This file: shared plumbing (event writer, roles, mock connections) and the PoolSelect replayer.
// gate_test.go: scheduler-gate replayer for Pool scripts; stress_test.go: free-running recorder.
// The harness only drives and records; expectations come from TLC (spec/PoolSelect.tla, spec/Pool.tla).

import (
	"bufio"
	"bytes"
	"context"
	"encoding/json"
	"fmt"
	"os"
	"runtime"
	"strconv"
	"sync"
	"sync/atomic"
	"testing"
	"time"

	"github.com/tonkeeper/tongo/liteclient"
	"github.com/tonkeeper/tongo/ton"
)

type vM = map[string]any

// ---------------------------------------------------------------- NDJSON writer
type vWriter struct {
	mu sync.Mutex
	f  *os.File
	w  *bufio.Writer
	n  int
}

func vCreate(path string) *vWriter {
	f, err := os.Create(path)
	if err != nil {
		panic(err)
	}
	return &vWriter{f: f, w: bufio.NewWriterSize(f, 1<<20)}
}

func (w *vWriter) emit(m vM) {
	b, err := json.Marshal(m)
	if err != nil {
		panic(err)
	}
	w.mu.Lock()
	w.w.Write(b)
	w.w.WriteByte('\n')
	w.n++
	w.mu.Unlock()
}

func (w *vWriter) close() {
	w.mu.Lock()
	fmt.Fprintf(w.w, "{\"k\":\"End\",\"events\":%d}\n", w.n)
	w.w.Flush()
	w.f.Close()
	w.mu.Unlock()
}

func vReadLines(path string, fn func(line []byte)) {
	f, err := os.Open(path)
	if err != nil {
		panic(err)
	}
	defer f.Close()
	sc := bufio.NewScanner(f)
	sc.Buffer(make([]byte, 1<<20), 64<<20)
	for sc.Scan() {
		if len(bytes.TrimSpace(sc.Bytes())) > 0 {
			fn(sc.Bytes())
		}
	}
	if err := sc.Err(); err != nil {
		panic(err)
	}
}

func vEnv(name, def string) string {
	if v := os.Getenv(name); v != "" {
		return v
	}
	return def
}

func vEnvInt(name string, def int) int {
	if v := os.Getenv(name); v != "" {
		n, err := strconv.Atoi(v)
		if err == nil {
			return n
		}
	}
	return def
}

// ---------------------------------------------------------------- goroutine ids / roles
func vGoid() uint64 {
	var buf [64]byte
	n := runtime.Stack(buf[:], false)
	// "goroutine 123 ["
	b := buf[10:n]
	var id uint64
	for _, c := range b {
		if c < '0' || c > '9' {
			break
		}
		id = id*10 + uint64(c-'0')
	}
	return id
}

// ---------------------------------------------------------------- connections
// vconn is a real *connection (real SetMasterHead / MasterHead / lock / update channel) whose
// liveness and round-trip time are supplied by the harness instead of a liteclient.
type vconn struct {
	*connection
	ok  atomic.Bool
	rtt atomic.Int64
}

func (v *vconn) IsOK() bool                      { return v.ok.Load() }
func (v *vconn) AverageRoundTrip() time.Duration { return time.Duration(v.rtt.Load()) }

var _ conn = &vconn{}

func vHead(s uint32) ton.BlockIDExt { return ton.BlockIDExt{BlockID: ton.BlockID{Workchain: -1, Seqno: s}} }

// vNewPool builds a pool the way InitializeConnections/addConnection do, minus the network.
func vNewPool(nc int, strategy string, rttMs []int, interval time.Duration) (*ConnPool, []*vconn) {
	p := New(Strategy(strategy))
	p.updateBestInterval = interval
	var cs []*vconn
	for k := 1; k <= nc; k++ {
		c := &connection{id: k, serverHost: fmt.Sprintf("mock-%d", k), masterHeadUpdatedCh: p.masterHeadUpdatedCh}
		v := &vconn{connection: c}
		v.ok.Store(true)
		if k-1 < len(rttMs) {
			v.rtt.Store(int64(time.Duration(rttMs[k-1]) * time.Millisecond))
		}
		p.conns = append(p.conns, v)
		cs = append(cs, v)
	}
	p.bestConn = p.conns[0]
	return p, cs
}

// ---------------------------------------------------------------- PoolSelect replay (S->C a)
// selConn: a pure mock for the selection rule (arbitrary seqno incl. 2^32-1).
type selConn struct {
	id    int
	seqno uint32
	ok    bool
	rtt   time.Duration
	cli   *liteclient.Client
}

func (m *selConn) ID() int                                     { return m.id }
func (m *selConn) MasterHead() ton.BlockIDExt                  { return vHead(m.seqno) }
func (m *selConn) SetMasterHead(ton.BlockIDExt)                {}
func (m *selConn) IsOK() bool                                  { return m.ok }
func (m *selConn) Client() *liteclient.Client                  { return m.cli }
func (m *selConn) Run(ctx context.Context, detectArchive bool) {}
func (m *selConn) IsArchiveNode() bool                         { return false }
func (m *selConn) AverageRoundTrip() time.Duration             { return m.rtt }
func (m *selConn) Status() ConnStatus                          { return ConnStatus{} }

var _ conn = &selConn{}

type selVec struct {
	N int `json:"n"`
	C []struct {
		A bool   `json:"a"`
		S string `json:"s"`
		R int    `json:"r"`
	} `json:"c"`
	Keep bool  `json:"keep"`
	Bp   []int `json:"bp"`
	Fw   []int `json:"fw"`
	Arr  []int `json:"arr"` // arrival order of the connections (replay files); default: a permutation chosen by the vector's number
}

// vPerms: all arrival orders of the configuration indices 1..n
func vPerms(n int) [][]int {
	var out [][]int
	var rec func(cur []int, used int)
	rec = func(cur []int, used int) {
		if len(cur) == n {
			out = append(out, append([]int(nil), cur...))
			return
		}
		for i := 1; i <= n; i++ {
			if used&(1<<i) == 0 {
				rec(append(cur, i), used|1<<i)
			}
		}
	}
	rec(nil, 0)
	return out
}

var vPermTab = map[int][][]int{1: vPerms(1), 2: vPerms(2), 3: vPerms(3), 4: vPerms(4)}

// TestVerifSelect replays every PoolSelect vector: for both strategies and every previous best
// (0 = none) it runs the real updateBest and observes the choice through BestMasterchainClient.
func TestVerifSelect(t *testing.T) {
	in, out := os.Getenv("C13_IN"), os.Getenv("C13_OUT")
	if in == "" || out == "" {
		t.Skip("driver only")
	}
	w := vCreate(out)
	defer w.close()
	cancelled, cancel := context.WithCancel(context.Background())
	cancel()
	var nvec, ncalls, nbad int
	classes := map[string]int{}
	vReadLines(in, func(line []byte) {
		var v selVec
		if err := json.Unmarshal(line, &v); err != nil {
			panic(err)
		}
		idx := nvec
		nvec++
		conns := make([]conn, v.N)
		sc := make([]*selConn, v.N)
		for i := 0; i < v.N; i++ {
			s, err := strconv.ParseUint(v.C[i].S, 10, 32)
			if err != nil {
				panic(err)
			}
			sc[i] = &selConn{id: i + 1, seqno: uint32(s), ok: v.C[i].A, rtt: time.Duration(v.C[i].R) * time.Millisecond, cli: &liteclient.Client{}}
		}
		// The pool is built the way InitializeConnections builds it: addConnection in the order the handshakes finish
		// (every arrival order is used, chosen by the vector's number). The list it produces is kept; the mocks take
		// the places of the connections with the same configuration index (a real connection is not OK without a server).
		arr := v.Arr
		if len(arr) != v.N {
			arr = vPermTab[v.N][idx%len(vPermTab[v.N])]
		}
		built := New(FirstWorkingConnection)
		inOrder := true
		for j, id := range arr {
			built.addConnection(id, sc[id-1].cli, fmt.Sprintf("cfg-%d", id))
			inOrder = inOrder && id == j+1
		}
		for j, c := range built.conns {
			conns[j] = sc[c.ID()-1]
		}
		for _, st := range []string{BestPingStrategy, FirstWorkingConnection} {
			allowed := v.Bp
			if st == FirstWorkingConnection {
				allowed = v.Fw
			}
			for prev := 0; prev <= v.N; prev++ {
				p := New(Strategy(st))
				p.conns = conns
				if prev > 0 {
					p.bestConn = sc[prev-1]
				}
				p.updateBest()
				ncalls++
				// observe through the public accessor
				got, via := 0, "BestMasterchainClient"
				cli, head, err := p.BestMasterchainClient(cancelled)
				if err == ErrNoConnections {
					got = 0
				} else if err != nil { // best has seqno 0: the call waits for a head; identify it directly
					via = "bestConnection"
					if bc := p.bestConnection(); bc != nil {
						got = bc.ID()
					}
				} else {
					for _, c := range sc {
						if c.cli == cli {
							got = c.id
							if head.Seqno != c.seqno {
								got = -c.id // wrong head returned for that client
							}
						}
					}
				}
				ok := false
				if v.Keep {
					ok = got == prev
				} else {
					for _, a := range allowed {
						ok = ok || a == got
					}
				}
				if !ok {
					nbad++
					// the key names the input class, never the outcome
					class := "choice"
					if v.Keep {
						class = "no-good-keeps-previous"
					}
					for i := range v.C {
						if v.C[i].S == "4294967295" && inOrder { // with an out-of-order arrival that class takes precedence
							class = "seqno=2^32-1"
						}
					}
					if class != "seqno=2^32-1" {
						class = st + ":" + class
						if !inOrder {
							class += ":out-of-order-arrival"
						}
					}
					classes[class]++
					if classes[class] <= 50 {
						exp := allowed
						if v.Keep {
							exp = []int{prev}
						}
						w.emit(vM{"k": "Mismatch", "class": class, "vec": idx, "strategy": st, "prev": prev, "got": got, "exp": exp, "via": via, "arr": arr, "v": json.RawMessage(append([]byte(nil), line...))})
					}
				}
			}
		}
	})
	w.emit(vM{"k": "Sum", "vectors": nvec, "calls": ncalls, "mismatch": nbad, "classes": classes})
}

// ---------------------------------------------------------------- arrival order (PoolOrder_Gen)
type ordVec struct {
	Arrivals []struct {
		ID    int   `json:"id"`
		Order []int `json:"order"`
	} `json:"arrivals"`
	First int   `json:"first"`
	Fw    []int `json:"fw"`
	Bp    []int `json:"bp"`
}

func intsEq(a, b []int) bool {
	if len(a) != len(b) {
		return false
	}
	for i := range a {
		if a[i] != b[i] {
			return false
		}
	}
	return true
}

// TestVerifOrder replays every arrival order: the pool is filled through the real addConnection; after every arrival
// the list (p.conns and the public Status()) must be in configuration order; on the final pool a refresh of either
// strategy must choose what PoolSelect chooses on the list in configuration order.
func TestVerifOrder(t *testing.T) {
	in, out := os.Getenv("C13_IN"), os.Getenv("C13_OUT")
	if in == "" || out == "" {
		t.Skip("driver only")
	}
	w := vCreate(out)
	defer w.close()
	var nvec, nchecks, nbad int
	classes := map[string]int{}
	bad := func(class string, m vM) {
		nbad++
		classes[class]++
		if classes[class] <= 50 {
			m["k"], m["class"] = "Mismatch", class
			w.emit(m)
		}
	}
	vReadLines(in, func(line []byte) {
		var v ordVec
		if err := json.Unmarshal(line, &v); err != nil {
			panic(err)
		}
		idx := nvec
		nvec++
		raw := json.RawMessage(append([]byte(nil), line...))
		p := New(FirstWorkingConnection)
		for step, a := range v.Arrivals {
			p.addConnection(a.ID, &liteclient.Client{}, fmt.Sprintf("cfg-%d", a.ID))
			var ids, hosts []int
			for _, c := range p.conns {
				ids = append(ids, c.ID())
			}
			for _, cs := range p.Status().Connections {
				h := -1
				fmt.Sscanf(cs.ServerHost, "cfg-%d", &h)
				hosts = append(hosts, h)
			}
			nchecks++
			if !intsEq(ids, a.Order) || !intsEq(hosts, a.Order) {
				bad("addConnection:arrival-order", vM{"vec": idx, "step": step, "conns": ids, "status": hosts, "exp": a.Order, "v": raw})
			}
			if step == 0 {
				nchecks++
				if bc := p.bestConnection(); bc == nil || bc.ID() != v.First {
					bad("addConnection:first-is-best", vM{"vec": idx, "step": step, "exp": []int{v.First}, "v": raw})
				}
			}
		}
		// the refresh on the list as built (mocks in the places of the connections with the same index)
		list := make([]conn, len(p.conns))
		for j, c := range p.conns {
			list[j] = &selConn{id: c.ID(), seqno: 1, ok: true, rtt: time.Duration(10-c.ID()) * time.Millisecond, cli: c.Client()}
		}
		for _, st := range []string{FirstWorkingConnection, BestPingStrategy} {
			exp := v.Fw
			if st == BestPingStrategy {
				exp = v.Bp
			}
			q := New(Strategy(st))
			q.conns = list
			q.updateBest()
			nchecks++
			got := -1
			if bc := q.bestConnection(); bc != nil {
				got = bc.ID()
			}
			ok := false
			for _, e := range exp {
				ok = ok || e == got
			}
			if !ok {
				bad(st+":choice:out-of-order-arrival", vM{"vec": idx, "strategy": st, "got": got, "exp": exp, "v": raw})
			}
		}
	})
	w.emit(vM{"k": "Sum", "vectors": nvec, "calls": nchecks, "mismatch": nbad, "classes": classes})
}
