package pool

// Scheduler-gate replayer (S->C b): a behaviour of spec/Pool.tla, emitted by spec/gen/Pool_Gen.tla as a
// list of labelled steps with the observation required after each step, is forced step by step on the
// real subscribe / notifySubscribers / unsubscribe / SetMasterHead / WaitMasterchainSeqno / updateBest.
// Every hook (liteapi/pool/verif_on.go) parks its goroutine on a gate; the replayer opens exactly the
// gate the step names and then checks where every goroutine is and what the pool's state is.
// Model time is scaled real time: one clock unit = U ms; a caller's timeout t is passed as t*U.
// Verdicts come only from what the real code does: a goroutine that never returns (hang) or a caller
// that is still inside its select after its deadline + slack. A mismatch with the script (divergence)
// is reported as such and never counted as a violation.

import (
	"context"
	"encoding/json"
	"errors"
	"fmt"
	"os"
	"regexp"
	"runtime"
	"sort"
	"strings"
	"sync"
	"sync/atomic"
	"testing"
	"time"

	"github.com/tonkeeper/tongo/ton"
)

// ---------------------------------------------------------------- roles and gates
type vRole struct {
	name string
	idx  int // waiter / connection number (0 for run, tick, env)
	ex   *vExec
	mu   sync.Mutex
	cond *sync.Cond
	at   string // hook the goroutine is parked at ("" = running / blocked / returned)
	w    int    // for ntf.send: waiter whose channel is being sent to
	gate chan struct{}

	started  bool
	ret      bool // the call returned
	err      error
	inSel    bool // between wait.select and the branch hook
	selT     time.Time
	leftT    time.Time
	retT     time.Time
	stales   int
	staleT   time.Time // when the last stale head was received (the implementation re-arms its timer then)
	tmo      time.Duration
	want     uint32
	cancel   context.CancelFunc
	ch       chan ton.BlockIDExt
	cmd      chan uint32 // connection workers
	lateSeen bool
	early    time.Duration

	// free-running recorder: the call record is written by the first hook of the call
	pending   vM
	called    bool
	precancel bool
}

func newRole(ex *vExec, name string) *vRole {
	r := &vRole{name: name, ex: ex, gate: make(chan struct{}, 1)}
	if len(name) > 1 && (name[0] == 'w' || name[0] == 'c') && name[1] >= '0' && name[1] <= '9' {
		r.idx = roleIndex(name)
	}
	r.cond = sync.NewCond(&r.mu)
	return r
}

var vRoles sync.Map // goid -> *vRole

func vRegister(r *vRole) { vRoles.Store(vGoid(), r) }
func vUnregister()       { vRoles.Delete(vGoid()) }

var vPass = map[string]bool{"smh.sent": true, "ntf.rlocked": true, "ntf.sent": true, "sub.imm": true, "sub.reg": true,
	"unsub.done": true, "wait.select": true, "upd.done": true, "run.tick": true}

// the one hook installed for the whole test process; dispatches on the calling goroutine's role
func vHookFn(ev string, a, b uint64, x any) {
	v, ok := vRoles.Load(vGoid())
	if !ok {
		return
	}
	r := v.(*vRole)
	r.ex.onHook(r, ev, a, b, x)
}

type vExec struct {
	id      string
	p       *ConnPool
	conns   []*vconn
	run     *vRole
	cs      []*vRole
	ws      []*vRole
	gating  atomic.Bool
	seq     atomic.Int64
	t0      time.Time
	evMu    sync.Mutex
	events  []vM
	chOwner sync.Map // chan -> waiter index
	U       time.Duration
	slack   time.Duration
	runCtx  context.Context
	stopRun context.CancelFunc
	free    chan struct{} // closed when the gates are switched off
	fsh     bool
}

func (ex *vExec) ms() int64 { return time.Since(ex.t0).Milliseconds() }

// record takes the global sequence number inside the critical section the hook is called from
func (ex *vExec) record(m vM) {
	ex.evMu.Lock()
	m["seq"] = ex.seq.Add(1)
	m["t"] = ex.ms()
	ex.events = append(ex.events, m)
	ex.evMu.Unlock()
}

func poolSnap(m vM, x any) {
	if p, ok := x.(*ConnPool); ok && p != nil {
		b := 0
		if p.bestConn != nil {
			b = p.bestConn.ID()
		}
		m["best"] = b
		m["nreg"] = len(p.waitList)
	}
}

func (ex *vExec) onHook(r *vRole, ev string, a, b uint64, x any) {
	r.mu.Lock()
	if r.pending != nil && !r.called {
		r.called = true
		ex.record(r.pending)
		if r.precancel {
			ex.record(vM{"k": "cancel", "r": r.name, "i": r.idx})
		}
	}
	r.mu.Unlock()
	m := vM{"k": ev, "r": r.name, "i": r.idx, "a": a, "b": b}
	w := 0
	switch ev {
	case "sub.enter":
		if ch, ok := x.(chan ton.BlockIDExt); ok {
			r.ch = ch
			ex.chOwner.Store(ch, r)
		}
	case "ntf.send", "ntf.sent":
		if ch, ok := x.(chan ton.BlockIDExt); ok {
			if o, ok := ex.chOwner.Load(ch); ok {
				w = roleIndex(o.(*vRole).name)
			}
		}
		m["w"] = w
	}
	poolSnap(m, x)
	ex.record(m)
	r.mu.Lock()
	switch ev {
	case "wait.select":
		r.inSel = true
		if r.selT.IsZero() {
			r.selT = time.Now()
		}
	case "wait.recv":
		r.inSel = false
		if uint32(b) < r.want {
			r.stales++
			r.staleT = time.Now()
		} else {
			r.leftT = time.Now()
		}
	case "wait.timeout", "wait.cancel":
		r.inSel = false
		r.leftT = time.Now()
		if ev == "wait.timeout" && r.tmo > 0 && !r.selT.IsZero() && r.leftT.Sub(r.selT) < r.tmo-2*time.Millisecond {
			r.early = r.tmo - r.leftT.Sub(r.selT) // a timeout before the timeout has elapsed
		}
	}
	if !ex.gating.Load() || vPass[ev] || (ev == "smh.send" && ex.fsh) {
		r.cond.Broadcast()
		r.mu.Unlock()
		return
	}
	r.at, r.w = ev, w
	r.cond.Broadcast()
	r.mu.Unlock()
	<-r.gate
}

func roleIndex(name string) int {
	n := 0
	fmt.Sscanf(name[1:], "%d", &n)
	return n
}

func (r *vRole) open() {
	r.mu.Lock()
	r.at = ""
	r.mu.Unlock()
	r.gate <- struct{}{}
}

// await waits until pred holds (checked under the role's lock) or the timeout passes
func (r *vRole) await(d time.Duration, pred func() bool) bool {
	deadline := time.Now().Add(d)
	r.mu.Lock()
	defer r.mu.Unlock()
	for !pred() {
		left := time.Until(deadline)
		if left <= 0 {
			return false
		}
		t := time.AfterFunc(left, func() { r.mu.Lock(); r.cond.Broadcast(); r.mu.Unlock() })
		r.cond.Wait()
		t.Stop()
	}
	return true
}

func (r *vRole) where() string {
	r.mu.Lock()
	defer r.mu.Unlock()
	switch {
	case r.at != "":
		return "@" + r.at
	case r.ret:
		return "ret"
	case r.inSel:
		return "select"
	case !r.started:
		return "none"
	}
	return "running-or-blocked"
}

// ---------------------------------------------------------------- script format (from Pool_Gen)
type vObs struct {
	U      int      `json:"u"`
	Hd     []int    `json:"hd"`
	Al     []bool   `json:"al"`
	B      int      `json:"b"`
	Rg     []bool   `json:"rg"`
	Cl     []int    `json:"cl"`
	Wpc    []string `json:"wpc"`
	Cpc    []string `json:"cpc"`
	Rpc    string   `json:"rpc"`
	Cm     []string `json:"cm"`
	Res    []string `json:"res"`
	Now    int      `json:"now"`
	Todo   []bool   `json:"todo"`
	Ew     []bool   `json:"ew"`
	Er     bool     `json:"er"`
	Wedged bool     `json:"wedged"`
	Late   []bool   `json:"late"`
	Lis    []bool   `json:"lis"`
}

type vStep struct {
	A string `json:"a"`
	K int    `json:"k"`
	W int    `json:"w"`
	S int    `json:"s"`
	T int    `json:"t"`
	O vObs   `json:"o"`
}

type vScript struct {
	ID       string  `json:"id"`
	Src      string  `json:"src"`
	NC       int     `json:"nc"`
	NW       int     `json:"nw"`
	Strategy string  `json:"strategy"`
	Rtt      []int   `json:"rtt"`
	// Fsh: the script comes from the variant in which SetMasterHead publishes after releasing the connection lock
	// (FixSetHead). There the hook smh.send is not a gate (it sits before the unlock; parking there would hold the
	// lock the variant has already released) and the send happens by itself as soon as the channel has room.
	Fsh   bool    `json:"fsh"`
	Steps []vStep `json:"steps"`
}

const vInf = 1000000000

type divergence struct {
	step int
	kind string // "maporder", "overrun", "timerfirst", "position", "state"
	why  string
}

func (d *divergence) Error() string { return fmt.Sprintf("step %d: %s: %s", d.step, d.kind, d.why) }

var rePosRole = regexp.MustCompile(`^(run|c|w)\d* expected (?:parked at |to have |in its |still )?(\S+)`)

// code names WHAT diverged (never how): the runner builds the violation key from it
func (d *divergence) code() string {
	w := d.why
	switch {
	case d.kind != "state" && d.kind != "position":
		return d.kind
	case strings.HasPrefix(w, "wait list has"):
		var got, want int
		fmt.Sscanf(w, "wait list has %d entries, specification %d", &got, &want)
		if got < want {
			return "waitlist:entry-lost"
		}
		return "waitlist:entry-leaked"
	case strings.HasPrefix(w, "update channel"):
		return "diverged:update-channel"
	case strings.HasPrefix(w, "best connection"):
		return "diverged:best"
	case strings.HasPrefix(w, "head of connection"):
		return "diverged:head"
	case strings.HasPrefix(w, "channel of waiter"):
		return "diverged:waiter-channel"
	case strings.Contains(w, "returned err=") && strings.HasSuffix(w, "specification result ok"):
		return "wait-missed-head"
	case strings.Contains(w, "returned err=<nil>"):
		return "wait-unjustified-success"
	}
	if m := rePosRole.FindStringSubmatch(w); m != nil {
		role := map[string]string{"run": "run", "c": "conn", "w": "caller"}[m[1]]
		return "diverged:position:" + role + ":" + strings.TrimSuffix(m[2], ",")
	}
	return "diverged:" + d.kind
}

// ---------------------------------------------------------------- the replayer
func newExec(sc *vScript, U time.Duration) *vExec {
	ex := &vExec{id: sc.ID, U: U, slack: U, fsh: sc.Fsh}
	ex.p, ex.conns = vNewPool(sc.NC, sc.Strategy, sc.Rtt, time.Hour)
	ex.run = newRole(ex, "run")
	for k := 1; k <= sc.NC; k++ {
		ex.cs = append(ex.cs, newRole(ex, fmt.Sprintf("c%d", k)))
	}
	for w := 1; w <= sc.NW; w++ {
		ex.ws = append(ex.ws, newRole(ex, fmt.Sprintf("w%d", w)))
	}
	ex.gating.Store(true)
	ex.t0 = time.Now()
	ex.runCtx, ex.stopRun = context.WithCancel(context.Background())
	return ex
}

func (ex *vExec) start() {
	// The run loop. ConnPool.Run is `select { ticker -> updateBest(); update -> notifySubscribers(update) }`:
	// which case fires next is the scheduler's choice, so under the gates the same two bodies are run on one
	// goroutine on the replayer's command (1 = receive an update and notify, 2 = tick). In the finale the
	// goroutine hands over to the real ConnPool.Run.
	ready := make(chan struct{})
	ex.run.cmd = make(chan uint32)
	ex.free = make(chan struct{})
	ex.run.ret = true
	go func() {
		vRegister(ex.run)
		defer vUnregister()
		ex.run.started = true
		close(ready)
		for {
			select {
			case c := <-ex.run.cmd:
				if c == 1 {
					update := <-ex.p.masterHeadUpdatedCh
					vhook("run.recv", uint64(update.Conn.ID()), uint64(update.Head.Seqno), nil)
					ex.p.notifySubscribers(update)
				} else {
					vhook("run.tick", 0, 0, nil)
					ex.p.updateBest()
				}
				ex.run.mu.Lock()
				ex.run.ret = true
				ex.run.cond.Broadcast()
				ex.run.mu.Unlock()
			case <-ex.free:
				ex.p.Run(ex.runCtx)
				return
			}
		}
	}()
	<-ready
	for i, r := range ex.cs {
		r.cmd = make(chan uint32)
		r.started = true
		r.ret = true // idle
		go func(r *vRole, c *vconn) {
			vRegister(r)
			defer vUnregister()
			for s := range r.cmd {
				ex.record(vM{"k": "sethead", "r": r.name, "i": r.idx, "a": c.id, "b": s})
				c.SetMasterHead(vHead(s))
				ex.record(vM{"k": "smh.ret", "r": r.name, "i": r.idx, "a": c.id, "b": s})
				r.mu.Lock()
				r.ret = true
				r.cond.Broadcast()
				r.mu.Unlock()
			}
		}(r, ex.conns[i])
	}
}

func (ex *vExec) startWaiter(r *vRole, want uint32, tmoUnits int) {
	ctx, cancel := context.WithCancel(context.Background())
	r.cancel = cancel
	r.want = want
	r.started = true
	kind := "wait"
	if tmoUnits == vInf {
		r.tmo = 0
		if want == 1 {
			kind = "bmc"
		}
	} else {
		r.tmo = time.Duration(tmoUnits) * ex.U
	}
	go func() {
		vRegister(r)
		defer vUnregister()
		tm := r.tmo
		if tm == 0 {
			tm = 24 * time.Hour
		}
		ex.record(vM{"k": "call", "r": r.name, "i": r.idx, "a": want, "b": tm.Milliseconds(), "kind": kind})
		var err error
		if kind == "bmc" {
			// BestMasterchainClient waits on the same list when the best connection has no head yet;
			// the script only starts such a caller while head[best] = 0
			_, _, err = ex.p.BestMasterchainClient(ctx)
		} else {
			err = ex.p.WaitMasterchainSeqno(ctx, want, tm)
		}
		res := "ok"
		if err != nil {
			res = "err"
		}
		ex.record(vM{"k": "ret", "r": r.name, "i": r.idx, "res": res, "cancelled": errors.Is(err, context.Canceled)})
		r.mu.Lock()
		r.ret, r.err, r.retT = true, err, time.Now()
		r.cond.Broadcast()
		r.mu.Unlock()
	}()
}

const vAwait = 3 * time.Second

func (ex *vExec) awaitAt(r *vRole, hook string, d time.Duration) bool {
	return r.await(d, func() bool { return r.at == hook })
}

// where the specification's state puts each goroutine
func locWaiter(o *vObs, i int) string {
	switch o.Wpc[i] {
	case "idle":
		return "none"
	case "sub":
		return "@sub.enter"
	case "sub_acq":
		if o.Ew[i] {
			return "@sub.locked"
		}
		return "blocked"
	case "sub_in":
		return "@sub.locked"
	case "sub_rd":
		return "@sub.read"
	case "waiting":
		switch o.Cm[i] {
		case "recv":
			return "@wait.recv"
		case "timeout":
			return "@wait.timeout"
		case "cancel":
			return "@wait.cancel"
		}
		return "select"
	case "unsub":
		return "@unsub.enter"
	case "unsub_acq":
		if o.Ew[i] {
			return "@unsub.locked"
		}
		return "blocked"
	case "unsub_in":
		return "@unsub.locked"
	case "done":
		return "ret"
	}
	return "?"
}

func locRun(o *vObs) string {
	switch o.Rpc {
	case "rlock":
		return "@run.recv"
	case "send":
		return "@ntf.send"
	case "exit":
		return "@ntf.exit"
	case "upd_acq":
		if o.Er {
			return "@upd.locked"
		}
		return "blocked"
	case "upd_in":
		return "@upd.locked"
	}
	return "ret" // idle: waiting for the next command
}

func locConn(o *vObs, i int, fsh bool) string {
	switch o.Cpc[i] {
	case "locked":
		return "@smh.locked"
	case "send":
		if fsh { // lock released, waiting for room in the update channel
			return "blocked"
		}
		return "@smh.send"
	}
	return "ret"
}

func (ex *vExec) settleRole(step int, r *vRole, loc string, d time.Duration) *divergence {
	switch {
	case strings.HasPrefix(loc, "@"):
		if !ex.awaitAt(r, loc[1:], d) {
			kind := "position"
			if loc != "@wait.timeout" && r.where() == "@wait.timeout" {
				kind = "timerfirst"
			}
			return &divergence{step, kind, fmt.Sprintf("%s expected parked at %s, is %s", r.name, loc[1:], r.where())}
		}
	case loc == "ret":
		if !r.await(d, func() bool { return r.ret && r.at == "" }) {
			return &divergence{step, "position", fmt.Sprintf("%s expected to have returned, is %s", r.name, r.where())}
		}
	case loc == "select":
		if !r.await(d, func() bool { return r.inSel && r.at == "" && !r.ret }) {
			kind := "position"
			if r.where() == "@wait.timeout" {
				// the real timer fired before the script's clock allowed it: the replayer was slower than real time, or
				// the script is a lead of the old protocol whose timer was re-armed (whether the timer fired before its
				// own duration had passed is judged separately: "early")
				kind = "timerfirst"
			}
			return &divergence{step, kind, fmt.Sprintf("%s expected in its select, is %s", r.name, r.where())}
		}
	case loc == "blocked":
		time.Sleep(4 * time.Millisecond)
		if w := r.where(); w != "running-or-blocked" {
			return &divergence{step, "position", fmt.Sprintf("%s expected blocked on a lock/channel, is %s", r.name, w)}
		}
	}
	return nil
}

// settle: every goroutine is where the post-state of the step says, then the pool's state is compared
func (ex *vExec) settle(step int, o *vObs, blockedBefore map[string]bool) *divergence {
	type rl struct {
		r   *vRole
		loc string
	}
	var all []rl
	all = append(all, rl{ex.run, locRun(o)})
	for i, r := range ex.cs {
		all = append(all, rl{r, locConn(o, i, ex.fsh)})
	}
	for i, r := range ex.ws {
		all = append(all, rl{r, locWaiter(o, i)})
	}
	for _, x := range all {
		d := vAwait
		if x.loc == "@wait.timeout" {
			d = ex.U + ex.slack + time.Second
		}
		if x.loc == "blocked" {
			if blockedBefore[x.r.name] { // already verified when it entered the blocked state
				if w := x.r.where(); w != "running-or-blocked" {
					return &divergence{step, "position", fmt.Sprintf("%s expected still blocked, is %s", x.r.name, w)}
				}
				continue
			}
			blockedBefore[x.r.name] = true
		} else {
			delete(blockedBefore, x.r.name)
		}
		if dv := ex.settleRole(step, x.r, x.loc, d); dv != nil {
			return dv
		}
	}
	// ---- state comparison (all goroutines are parked, blocked or idle)
	upd := len(ex.p.masterHeadUpdatedCh)
	if upd != o.U {
		return &divergence{step, "state", fmt.Sprintf("update channel holds %d, specification %d", upd, o.U)}
	}
	nreg := 0
	for _, b := range o.Rg {
		if b {
			nreg++
		}
	}
	if len(ex.p.waitList) != nreg {
		return &divergence{step, "state", fmt.Sprintf("wait list has %d entries, specification %d", len(ex.p.waitList), nreg)}
	}
	if ex.p.bestConn.ID() != o.B {
		return &divergence{step, "state", fmt.Sprintf("best connection %d, specification %d", ex.p.bestConn.ID(), o.B)}
	}
	for i, c := range ex.conns {
		if int(c.masterHead.Seqno) != o.Hd[i] {
			return &divergence{step, "state", fmt.Sprintf("head of connection %d is %d, specification %d", i+1, c.masterHead.Seqno, o.Hd[i])}
		}
	}
	for i, r := range ex.ws {
		if r.ch == nil {
			continue
		}
		n := len(r.ch)
		if r.where() == "@wait.recv" && o.Wpc[i] == "waiting" {
			n++
		}
		if n != o.Cl[i] {
			return &divergence{step, "state", fmt.Sprintf("channel of waiter %d holds %d, specification %d", i+1, n, o.Cl[i])}
		}
		if o.Wpc[i] == "done" {
			r.mu.Lock()
			err := r.err
			r.mu.Unlock()
			if (err == nil) != (o.Res[i] == "ok") {
				return &divergence{step, "state", fmt.Sprintf("waiter %d returned err=%v, specification result %s", i+1, err, o.Res[i])}
			}
		}
	}
	return nil
}

func (ex *vExec) openAt(step int, r *vRole, hook string) *divergence {
	if !ex.awaitAt(r, hook, vAwait) {
		return &divergence{step, "position", fmt.Sprintf("%s expected parked at %s before the step, is %s", r.name, hook, r.where())}
	}
	r.open()
	return nil
}

// lateness observed on the real code: a caller still in its select after its own deadline + slack
type lateObs struct {
	W        int   `json:"w"`
	Stales   int   `json:"stale_heads_received"`
	TmoMs    int64 `json:"timeout_ms"`
	ElapsMs  int64 `json:"in_select_ms"`
	SinceSt  int64 `json:"since_last_stale_head_ms"`
	Returned bool  `json:"returned"`
}

// stall monitor: intervals in which the whole test process was not scheduled (overloaded machine) are not the
// code's time; they are subtracted before a wait is judged late
type vStall struct {
	at  time.Time
	dur time.Duration
}

var (
	vStallMu   sync.Mutex
	vStalls    []vStall
	vStallOnce sync.Once
)

func vStartStallMonitor() {
	vStallOnce.Do(func() {
		go func() {
			last := time.Now()
			for {
				time.Sleep(2 * time.Millisecond)
				now := time.Now()
				if d := now.Sub(last) - 2*time.Millisecond; d > 100*time.Millisecond { // a freeze, not ordinary scheduling latency
					vStallMu.Lock()
					vStalls = append(vStalls, vStall{last, d})
					vStallMu.Unlock()
				}
				last = now
			}
		}()
	})
}

func vStalledBetween(a, b time.Time) time.Duration {
	var sum time.Duration
	vStallMu.Lock()
	for _, s := range vStalls {
		if s.at.Before(b) && s.at.Add(s.dur).After(a) {
			sum += s.dur
		}
	}
	vStallMu.Unlock()
	return sum
}

func (ex *vExec) checkLate(out *[]lateObs) {
	for i, r := range ex.ws {
		r.mu.Lock()
		if r.started && r.tmo > 0 && !r.selT.IsZero() && !r.lateSeen {
			end := r.leftT
			if end.IsZero() {
				end = time.Now()
			}
			if el := end.Sub(r.selT) - vStalledBetween(r.selT, end); el > r.tmo+ex.slack {
				r.lateSeen = true
				since := int64(-1)
				if !r.staleT.IsZero() {
					since = (end.Sub(r.staleT) - vStalledBetween(r.staleT, end)).Milliseconds()
				}
				*out = append(*out, lateObs{W: i + 1, Stales: r.stales, TmoMs: r.tmo.Milliseconds(), ElapsMs: el.Milliseconds(), SinceSt: since, Returned: !r.leftT.IsZero()})
			}
		}
		r.mu.Unlock()
	}
}

type hangObs struct {
	Stuck    []string `json:"stuck_roles"`
	Class    string   `json:"class"`
	Stacks   []string `json:"stacks"`
	ConnsNum string   `json:"ConnectionsNumber"`
}

func (ex *vExec) exec(sc *vScript) vM {
	res := vM{"k": "Script", "id": sc.ID, "src": sc.Src, "steps": len(sc.Steps)}
	ex.start()
	var late []lateObs
	var dv *divergence
	blocked := map[string]bool{}
	done := 0
	for i := 0; i < len(sc.Steps); i++ {
		st := &sc.Steps[i]
		if st.A == "RunSend" {
			// adjacent sends of one notify round commute: Go's map iteration decides their order, so the group
			// is executed in whatever order the real loop picks and compared with the observation after the group
			j := i
			for j+1 < len(sc.Steps) && sc.Steps[j+1].A == "RunSend" {
				j++
			}
			if j > i {
				dv = ex.sendGroup(i, sc.Steps[i:j+1])
				if dv == nil {
					dv = ex.settle(j, &sc.Steps[j].O, blocked)
				}
				if dv != nil {
					break
				}
				done += j - i + 1
				i = j
				continue
			}
		}
		dv = ex.step(i, st)
		// in the publish-after-unlock variant a send that has room follows by itself: compare after it
		eagerSend := ex.fsh && ((i+1 < len(sc.Steps) && sc.Steps[i+1].A == "SmhSend") ||
			(i+1 == len(sc.Steps) && st.A == "SmhSet")) // a script cut right after SmhSet: the send is not in it
		if dv == nil && !eagerSend {
			dv = ex.settle(i, &st.O, blocked)
		}
		if dv != nil {
			break
		}
		done++
		if st.A == "Tick" {
			ex.checkLate(&late)
		}
	}
	res["followed"] = done
	if dv != nil {
		res["status"] = "diverged"
		res["divergence"] = vM{"step": dv.step, "kind": dv.kind, "code": dv.code(), "why": dv.why, "action": sc.Steps[dv.step].A}
	} else {
		res["status"] = "followed"
	}
	if len(sc.Steps) > 0 {
		last := sc.Steps[len(sc.Steps)-1].O
		res["spec_final"] = vM{"wedged": last.Wedged, "late_in_select": anyTrue(last.Lis), "late": anyTrue(last.Late)}
	}
	hang := ex.finale(&late)
	if len(late) > 0 {
		res["late"] = late
	}
	var early []vM
	for i, r := range ex.ws {
		r.mu.Lock()
		if r.early > 0 {
			early = append(early, vM{"w": i + 1, "timeout_ms": r.tmo.Milliseconds(), "early_by_ms": r.early.Milliseconds()})
		}
		r.mu.Unlock()
	}
	if len(early) > 0 {
		res["early"] = early
	}
	if hang != nil {
		res["hang"] = hang
	}
	rs := map[string]string{}
	for _, r := range ex.ws {
		r.mu.Lock()
		if r.started {
			switch {
			case !r.ret:
				rs[r.name] = "never-returned"
			case r.err == nil:
				rs[r.name] = "ok"
			default:
				rs[r.name] = "err"
			}
		}
		r.mu.Unlock()
	}
	res["results"] = rs
	ex.evMu.Lock()
	res["events"] = ex.events
	ex.evMu.Unlock()
	return res
}

// sendGroup executes consecutive RunSend steps in the order the real notify loop iterates its map
func (ex *vExec) sendGroup(i int, group []vStep) *divergence {
	want := map[int]bool{}
	for _, g := range group {
		want[g.W] = true
	}
	for n := range group {
		if !ex.awaitAt(ex.run, "ntf.send", vAwait) {
			return &divergence{i + n, "position", "run loop expected parked at ntf.send, is " + ex.run.where()}
		}
		ex.run.mu.Lock()
		w := ex.run.w
		ex.run.mu.Unlock()
		if !want[w] {
			return &divergence{i + n, "maporder", fmt.Sprintf("Go's map iteration picked waiter %d, the script sends to others first", w)}
		}
		delete(want, w)
		ex.run.open()
		// the send itself must complete (the script only sends where there is room)
		if !ex.run.await(vAwait, func() bool { return ex.run.at == "ntf.send" || ex.run.at == "ntf.exit" }) {
			return &divergence{i + n, "position", "send to waiter " + fmt.Sprint(w) + " did not complete, run loop is " + ex.run.where()}
		}
	}
	return nil
}

func anyTrue(b []bool) bool {
	for _, x := range b {
		if x {
			return true
		}
	}
	return false
}

func (ex *vExec) step(i int, st *vStep) *divergence {
	switch st.A {
	case "SmhLock":
		r := ex.cs[st.K-1]
		r.mu.Lock()
		r.ret = false
		r.mu.Unlock()
		r.cmd <- uint32(st.S)
		return ex.openAt(i, r, "smh.enter")
	case "SmhSet":
		return ex.openAt(i, ex.cs[st.K-1], "smh.locked")
	case "SmhSend":
		if ex.fsh {
			return nil // the real goroutine sends by itself once there is room; settle() checks it returned
		}
		return ex.openAt(i, ex.cs[st.K-1], "smh.send")
	case "Flip":
		c := ex.conns[st.K-1]
		// every goroutine is parked or blocked: nothing reads the flag concurrently (and the pool's lock
		// may be held by a parked goroutine, so it must not be taken here)
		c.ok.Store(!c.ok.Load())
		ex.record(vM{"k": "flip", "r": "env", "i": 0, "a": st.K, "alive": c.ok.Load()})
	case "RunRecv":
		ex.run.mu.Lock()
		ex.run.ret = false
		ex.run.mu.Unlock()
		ex.run.cmd <- 1
	case "RunUpdAcq", "WSubAcq", "WUnsubAcq":
		// the real goroutine does this by itself as soon as it can; settle() checks it did
	case "RunRLock":
		return ex.openAt(i, ex.run, "run.recv")
	case "RunSend":
		if !ex.awaitAt(ex.run, "ntf.send", vAwait) {
			return &divergence{i, "position", "run loop expected parked at ntf.send, is " + ex.run.where()}
		}
		ex.run.mu.Lock()
		w := ex.run.w
		ex.run.mu.Unlock()
		if w != st.W {
			return &divergence{i, "maporder", fmt.Sprintf("Go's map iteration picked waiter %d, the script sends to %d first", w, st.W)}
		}
		ex.run.open()
	case "RunRUnlock":
		return ex.openAt(i, ex.run, "ntf.exit")
	case "RunTick":
		ex.run.mu.Lock()
		ex.run.ret = false
		ex.run.mu.Unlock()
		ex.run.cmd <- 2
		return ex.openAt(i, ex.run, "upd.enter")
	case "RunUpdBody":
		return ex.openAt(i, ex.run, "upd.locked")
	case "WStart":
		r := ex.ws[st.W-1]
		ex.startWaiter(r, uint32(st.S), st.T)
		if !ex.awaitAt(r, "sub.enter", vAwait) {
			return &divergence{i, "position", r.name + " did not reach subscribe, is " + r.where()}
		}
	case "WSubAnn":
		return ex.openAt(i, ex.ws[st.W-1], "sub.enter")
	case "WSubRead":
		return ex.openAt(i, ex.ws[st.W-1], "sub.locked")
	case "WSubBody":
		return ex.openAt(i, ex.ws[st.W-1], "sub.read")
	case "WRecv":
		return ex.openAt(i, ex.ws[st.W-1], "wait.recv")
	case "WTimeout":
		return ex.openAt(i, ex.ws[st.W-1], "wait.timeout")
	case "Cancel":
		r := ex.ws[st.W-1]
		ex.record(vM{"k": "cancel", "r": r.name, "i": r.idx})
		r.cancel()
	case "WCancelRet":
		return ex.openAt(i, ex.ws[st.W-1], "wait.cancel")
	case "WUnsubAnn":
		return ex.openAt(i, ex.ws[st.W-1], "unsub.enter")
	case "WUnsubBody":
		return ex.openAt(i, ex.ws[st.W-1], "unsub.locked")
	case "Tick":
		target := ex.t0.Add(time.Duration(st.O.Now) * ex.U)
		if time.Now().After(target) {
			return &divergence{i, "overrun", fmt.Sprintf("the steps of clock value %d took longer than one unit (%v)", st.O.Now-1, ex.U)}
		}
		time.Sleep(time.Until(target))
	default:
		return &divergence{i, "position", "unknown action " + st.A}
	}
	return nil
}

var reGo = regexp.MustCompile(`(?m)^goroutine (\d+) \[([^\]]*)\]:`)

// finale: all gates are opened and the execution runs freely; everything must come to rest.
func (ex *vExec) finale(late *[]lateObs) *hangObs {
	ex.gating.Store(false)
	finaleStart := time.Now()
	close(ex.free)
	all := append([]*vRole{ex.run}, append(append([]*vRole{}, ex.cs...), ex.ws...)...)
	var horizon time.Time
	for _, r := range ex.ws {
		r.mu.Lock()
		if r.started && !r.ret {
			if r.tmo == 0 { // no timer: the caller gives up
				ex.record(vM{"k": "cancel", "r": r.name, "i": r.idx})
				r.cancel()
			} else {
				base := r.selT
				if base.IsZero() {
					base = time.Now()
				}
				// before the timer repair a stale head re-armed the timer; allow a few re-arms before calling it a hang
				if h := base.Add(4*r.tmo + ex.slack); h.After(horizon) {
					horizon = h
				}
			}
		}
		r.mu.Unlock()
	}
	release := func() {
		for _, r := range all {
			r.mu.Lock()
			parked := r.at != ""
			r.at = ""
			r.mu.Unlock()
			if parked {
				r.gate <- struct{}{}
			}
		}
	}
	release()
	if m := time.Now().Add(400 * time.Millisecond); m.After(horizon) {
		horizon = m
	}
	// wait for every call to return; judge lateness on the way
	for {
		pending := false
		for _, r := range append(append([]*vRole{}, ex.cs...), ex.ws...) {
			r.mu.Lock()
			if r.started && !r.ret {
				pending = true
			}
			r.mu.Unlock()
		}
		ex.checkLate(late)
		release() // a goroutine may have parked while the gates were being switched off
		if !pending || time.Now().After(horizon.Add(vStalledBetween(finaleStart, time.Now()))) {
			break
		}
		time.Sleep(5 * time.Millisecond)
	}
	ex.checkLate(late)
	var stuck []*vRole
	for _, r := range append(append([]*vRole{}, ex.cs...), ex.ws...) {
		r.mu.Lock()
		if r.started && !r.ret {
			stuck = append(stuck, r)
		}
		r.mu.Unlock()
	}
	if len(stuck) == 0 {
		ex.stopRun()
		for _, r := range ex.cs {
			close(r.cmd)
		}
		return nil
	}
	// second look after a grace period: a hang must persist
	time.Sleep(300 * time.Millisecond)
	h := &hangObs{}
	for _, r := range stuck {
		r.mu.Lock()
		if !r.ret {
			h.Stuck = append(h.Stuck, r.name)
		}
		r.mu.Unlock()
	}
	if len(h.Stuck) == 0 {
		ex.stopRun()
		return nil
	}
	// is the pool itself still usable?
	cn := make(chan int, 1)
	go func() { cn <- ex.p.ConnectionsNumber() }()
	select {
	case <-cn:
		h.ConnsNum = "returned"
	case <-time.After(300 * time.Millisecond):
		h.ConnsNum = "blocked"
	}
	h.Class, h.Stacks = ex.classifyHang()
	ex.record(vM{"k": "Hang", "r": "env", "i": 0, "class": h.Class, "stuck": strings.Join(h.Stuck, ",")})
	return h
}

// classifyHang names the call site that blocks, from the goroutine dump
func (ex *vExec) classifyHang() (string, []string) {
	buf := make([]byte, 4<<20)
	buf = buf[:runtime.Stack(buf, true)]
	mine := map[uint64]string{}
	vRoles.Range(func(k, v any) bool {
		if v.(*vRole).ex == ex {
			mine[k.(uint64)] = v.(*vRole).name
		}
		return true
	})
	var stacks []string
	notifySend, setHeadSend, nestedRLock, lockWaiters, headReaders := false, false, false, 0, 0
	for _, g := range strings.Split(string(buf), "\n\n") {
		m := reGo.FindStringSubmatch(g)
		if m == nil {
			continue
		}
		var id uint64
		fmt.Sscanf(m[1], "%d", &id)
		name, ok := mine[id]
		if !ok {
			continue
		}
		state := m[2]
		var fns []string
		for _, l := range strings.Split(g, "\n") {
			if strings.Contains(l, "liteapi/pool.") && !strings.Contains(l, "zz_verif") && !strings.HasPrefix(l, "\t") {
				f := l[strings.Index(l, "liteapi/pool.")+len("liteapi/pool."):]
				if j := strings.LastIndex(f, "("); j > 0 {
					f = f[:j]
				}
				fns = append(fns, f)
			}
		}
		sig := name + " [" + state + "] " + strings.Join(fns, " < ")
		stacks = append(stacks, sig)
		top := ""
		if len(fns) > 0 {
			top = fns[0]
		}
		switch {
		case strings.HasPrefix(state, "chan send") && strings.Contains(top, "notifySubscribers"):
			notifySend = true
		case strings.HasPrefix(state, "chan send") && strings.Contains(top, "SetMasterHead"):
			setHeadSend = true
		case strings.Contains(state, "RWMutex") && strings.Contains(top, "MasterHead"):
			headReaders++
		case strings.Contains(state, "RLock") && len(fns) > 1 && strings.Contains(strings.Join(fns[1:], " "), "notifySubscribers"):
			// a read lock requested by a callee of notifySubscribers, which holds the read lock already
			nestedRLock = true
		case strings.Contains(state, "Mutex") || strings.Contains(state, "semacquire"):
			// sync.RWMutex.Lock (the writer waiting for the readers) or sync.Mutex.Lock (writers queued behind it)
			lockWaiters++
		}
	}
	sort.Strings(stacks)
	switch {
	case notifySend && lockWaiters > 0:
		return "notify-blocks-on-full-waiter", stacks
	case nestedRLock && lockWaiters > 0:
		// the run loop holds the pool's read lock and asks for it again while a writer is queued: neither can proceed
		return "notify-recursive-rlock", stacks
	case setHeadSend && headReaders > 0:
		// a connection blocked publishing its head while holding its lock, and somebody waiting for that lock
		return "sethead-blocks-holding-conn-lock", stacks
	}
	return "hang:" + strings.Join(stacks, ";"), stacks
}

// TestVerifGate replays the scripts of C13_IN concurrently and writes one record per script.
func TestVerifGate(t *testing.T) {
	in, out := os.Getenv("C13_IN"), os.Getenv("C13_OUT")
	if in == "" || out == "" {
		t.Skip("driver only")
	}
	U := time.Duration(vEnvInt("C13_U_MS", 200)) * time.Millisecond
	par := vEnvInt("C13_PAR", 32)
	VerifHook = vHookFn
	vStartStallMonitor()
	w := vCreate(out)
	defer w.close()
	var scripts []*vScript
	vReadLines(in, func(line []byte) {
		sc := &vScript{}
		if err := json.Unmarshal(line, sc); err != nil {
			panic(err)
		}
		scripts = append(scripts, sc)
	})
	sem := make(chan struct{}, par)
	var wg sync.WaitGroup
	for _, sc := range scripts {
		wg.Add(1)
		sem <- struct{}{}
		go func(sc *vScript) {
			defer wg.Done()
			defer func() { <-sem }()
			var res vM
			for attempt := 1; attempt <= 6; attempt++ {
				ex := newExec(sc, U)
				res = ex.exec(sc)
				res["attempts"] = attempt
				d, _ := res["divergence"].(vM)
				// Go's map order and a slow machine are not the code's behaviour: try again
				retry := d != nil && (d["kind"] == "maporder" || d["kind"] == "overrun" || (d["kind"] == "timerfirst" && sc.Fsh))
				if !retry || res["hang"] != nil {
					break
				}
			}
			w.emit(res)
		}(sc)
	}
	wg.Wait()
}
