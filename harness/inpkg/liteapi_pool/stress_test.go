package pool

// Free-running recorder (C->S): real goroutines (pool.Run with its ticker, connections reporting heads,
// callers waiting / timing out / being cancelled, liveness flips) run under the Go scheduler; every hook
// is recorded with a global sequence number taken inside the critical section it sits in. One segment per
// pool instance; spec/trace/Pool_Trace.tla decides whether each segment is a behaviour of Pool.
// A watchdog ends a segment whose goroutines do not come to rest and records a Hang event (stacks classified
// by call site); no action of the specification matches it.

import (
	"context"
	"errors"
	"fmt"
	"math/rand"
	"os"
	"sync"
	"testing"
	"time"
)

type stressCfg struct {
	profile  string
	nc, nw   int
	strategy string
	rtt      []int
	dur      time.Duration
	headGap  [2]time.Duration // pause between head reports of one connection
	tmo      [2]time.Duration // caller timeouts
	ahead    int              // callers ask for best head + 0..ahead
	cancelP  float64
	flipGap  time.Duration
	interval time.Duration // updateBest ticker
}

func between(r *rand.Rand, lo, hi time.Duration) time.Duration {
	if hi <= lo {
		return lo
	}
	return lo + time.Duration(r.Int63n(int64(hi-lo)))
}

func runSegment(seed int64, cfg stressCfg) (reset vM, events []vM) {
	rng := rand.New(rand.NewSource(seed))
	ex := &vExec{id: fmt.Sprintf("seg-%d", seed), U: time.Millisecond, slack: 250 * time.Millisecond}
	ex.p, ex.conns = vNewPool(cfg.nc, cfg.strategy, cfg.rtt, cfg.interval)
	ex.run = newRole(ex, "run")
	ex.t0 = time.Now()
	alive := make([]bool, cfg.nc)
	for i := range alive {
		alive[i] = true
	}
	reset = vM{"k": "Reset", "nc": cfg.nc, "nw": cfg.nw, "strategy": cfg.strategy, "rtt": cfg.rtt, "alive": alive,
		"profile": cfg.profile, "seed": fmt.Sprint(seed)}
	ex.runCtx, ex.stopRun = context.WithCancel(context.Background())
	stop := make(chan struct{})
	var producers, callers sync.WaitGroup

	ready := make(chan struct{})
	go func() {
		vRegister(ex.run)
		defer vUnregister()
		close(ready)
		ex.p.Run(ex.runCtx)
	}()
	<-ready

	// connections report heads
	for i := 0; i < cfg.nc; i++ {
		r := newRole(ex, fmt.Sprintf("c%d", i+1))
		ex.cs = append(ex.cs, r)
		r.started, r.ret = true, true
		producers.Add(1)
		go func(r *vRole, c *vconn, rng *rand.Rand) {
			defer producers.Done()
			vRegister(r)
			defer vUnregister()
			var cur uint32
			for {
				select {
				case <-stop:
					return
				case <-time.After(between(rng, cfg.headGap[0], cfg.headGap[1])):
				}
				s := cur
				switch x := rng.Intn(20); {
				case x < 14:
					s = cur + 1
				case x < 16:
					s = cur + 2
				case x < 17:
					s = cur + 3
				case x < 19:
					// duplicate report
				default:
					if cur > 1 {
						s = cur - 1 // an older head: must be ignored
					}
				}
				if s > cur {
					cur = s
				}
				r.mu.Lock()
				r.ret = false
				r.mu.Unlock()
				ex.record(vM{"k": "sethead", "r": r.name, "i": r.idx, "a": c.id, "b": s})
				c.SetMasterHead(vHead(s))
				ex.record(vM{"k": "smh.ret", "r": r.name, "i": r.idx, "a": c.id, "b": s})
				r.mu.Lock()
				r.ret = true
				r.mu.Unlock()
			}
		}(r, ex.conns[i], rand.New(rand.NewSource(rng.Int63())))
	}

	// liveness flips, atomically with respect to updateBest
	if cfg.flipGap > 0 {
		producers.Add(1)
		go func(rng *rand.Rand) {
			defer producers.Done()
			for {
				select {
				case <-stop:
					return
				case <-time.After(between(rng, cfg.flipGap/2, cfg.flipGap*2)):
				}
				k := rng.Intn(cfg.nc)
				ex.p.mu.Lock()
				v := !ex.conns[k].ok.Load()
				ex.conns[k].ok.Store(v)
				ex.record(vM{"k": "flip", "r": "env", "i": 0, "a": k + 1, "alive": v})
				ex.p.mu.Unlock()
			}
		}(rand.New(rand.NewSource(rng.Int63())))
	}

	// callers
	for i := 0; i < cfg.nw; i++ {
		r := newRole(ex, fmt.Sprintf("w%d", i+1))
		ex.ws = append(ex.ws, r)
		callers.Add(1)
		go func(r *vRole, rng *rand.Rand, first bool) {
			defer callers.Done()
			vRegister(r)
			defer vUnregister()
			for n := 0; ; n++ {
				select {
				case <-stop:
					return
				case <-time.After(between(rng, 0, cfg.tmo[0])):
				}
				ctx, cancel := context.WithCancel(context.Background())
				bestHead := ex.p.bestConnection().MasterHead().Seqno
				want := bestHead + uint32(rng.Intn(cfg.ahead+1))
				if want == 0 {
					want = 1
				}
				tm := between(rng, cfg.tmo[0], cfg.tmo[1])
				kind := "wait"
				if bestHead == 0 && rng.Intn(2) == 0 {
					kind, want = "bmc", 1
				}
				r.mu.Lock()
				r.started, r.ret, r.err = true, false, nil
				r.want, r.tmo, r.stales, r.inSel, r.lateSeen = want, tm, 0, false, false
				r.selT, r.leftT, r.retT, r.staleT = time.Time{}, time.Time{}, time.Time{}, time.Time{}
				// the call record is written by the first hook of the call (BestMasterchainClient may not
				// touch the wait list at all)
				r.pending = vM{"k": "call", "r": r.name, "i": r.idx, "a": want, "b": tm.Milliseconds(), "kind": kind}
				r.called = false
				r.mu.Unlock()
				var stopCancel *time.Timer
				if kind == "bmc" || rng.Float64() < cfg.cancelP {
					d := between(rng, 0, tm)
					stopCancel = time.AfterFunc(d, func() {
						r.mu.Lock()
						if r.called {
							ex.record(vM{"k": "cancel", "r": r.name, "i": r.idx})
						} else { // cancelled before the call reached the wait list: written right after the call record
							r.precancel = true
						}
						r.mu.Unlock()
						cancel()
					})
				}
				var err error
				if kind == "bmc" {
					_, _, err = ex.p.BestMasterchainClient(ctx)
				} else {
					err = ex.p.WaitMasterchainSeqno(ctx, want, tm)
				}
				if stopCancel != nil {
					stopCancel.Stop()
				}
				cancel()
				res := "ok"
				if err != nil {
					res = "err"
				}
				r.mu.Lock()
				logged := r.called
				r.ret, r.err, r.retT = true, err, time.Now()
				r.precancel = false
				r.mu.Unlock()
				if logged {
					ex.record(vM{"k": "ret", "r": r.name, "i": r.idx, "res": res, "cancelled": errors.Is(err, context.Canceled)})
				}
			}
		}(r, rand.New(rand.NewSource(rng.Int63())), i == 0)
	}

	time.Sleep(cfg.dur)
	close(stop)
	// everything must come to rest: producers return from SetMasterHead, callers from their waits
	rest := make(chan struct{})
	go func() { producers.Wait(); callers.Wait(); close(rest) }()
	limit := 4*cfg.tmo[1] + 600*time.Millisecond
	select {
	case <-rest:
		ex.stopRun()
	case <-time.After(limit):
		// a hang must persist
		select {
		case <-rest:
			ex.stopRun()
		case <-time.After(300 * time.Millisecond):
			class, stacks := ex.classifyHang()
			cn := make(chan int, 1)
			go func() { cn <- ex.p.ConnectionsNumber() }()
			cnum := "returned"
			select {
			case <-cn:
			case <-time.After(300 * time.Millisecond):
				cnum = "blocked"
			}
			ex.record(vM{"k": "Hang", "r": "env", "i": 0, "class": class, "stacks": stacks, "ConnectionsNumber": cnum})
		}
	}
	ex.evMu.Lock()
	events = ex.events
	ex.events = nil
	ex.evMu.Unlock()
	return reset, events
}

func stressProfiles(rng *rand.Rand, i int) stressCfg {
	strat := []string{BestPingStrategy, FirstWorkingConnection}[rng.Intn(2)]
	nc := 1 + rng.Intn(4)
	rtt := make([]int, nc)
	for k := range rtt {
		rtt[k] = rng.Intn(3)
	}
	ms := time.Millisecond
	switch i % 3 {
	case 0, 1: // calm: heads a few ms apart, generous timeouts, callers mostly succeed
		return stressCfg{profile: "calm", nc: nc, nw: 1 + rng.Intn(4), strategy: strat, rtt: rtt, dur: 160 * ms,
			headGap: [2]time.Duration{3 * ms, 8 * ms}, tmo: [2]time.Duration{30 * ms, 90 * ms}, ahead: 2, cancelP: 0.15,
			flipGap: 25 * ms, interval: 4 * ms}
	default: // storm: bursts of heads, short timeouts, callers far ahead, frequent cancellation
		return stressCfg{profile: "storm", nc: nc, nw: 2 + rng.Intn(5), strategy: strat, rtt: rtt, dur: 120 * ms,
			headGap: [2]time.Duration{50 * time.Microsecond, 1500 * time.Microsecond}, tmo: [2]time.Duration{2 * ms, 12 * ms},
			ahead: 6, cancelP: 0.4, flipGap: 10 * ms, interval: 2 * ms}
	}
}

// TestVerifStress records C13_SEGMENTS segments (C13_PAR at a time) into C13_OUT.
func TestVerifStress(t *testing.T) {
	out := os.Getenv("C13_OUT")
	if out == "" {
		t.Skip("driver only")
	}
	seed := int64(vEnvInt("C13_SEED", 1))
	nseg := vEnvInt("C13_SEGMENTS", 12)
	par := vEnvInt("C13_PAR", 6)
	only := os.Getenv("C13_PROFILE")
	VerifHook = vHookFn
	w := vCreate(out)
	defer w.close()
	rng := rand.New(rand.NewSource(seed))
	type job struct {
		seed int64
		cfg  stressCfg
	}
	var jobs []job
	for i := 0; len(jobs) < nseg; i++ {
		c := stressProfiles(rng, i)
		s := rng.Int63()
		if only == "" || only == c.profile {
			jobs = append(jobs, job{s, c})
		}
	}
	sem := make(chan struct{}, par)
	var wg sync.WaitGroup
	var outMu sync.Mutex
	for _, j := range jobs {
		wg.Add(1)
		sem <- struct{}{}
		go func(j job) {
			defer wg.Done()
			defer func() { <-sem }()
			reset, evs := runSegment(j.seed, j.cfg)
			outMu.Lock()
			w.emit(reset)
			for _, e := range evs {
				w.emit(e)
			}
			outMu.Unlock()
		}(j)
	}
	wg.Wait()
}
