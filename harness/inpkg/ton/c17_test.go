package ton

// In-package recorder for C17: the unexported shard arithmetic (shardChild, shardParent,
// convertShardIdent) called directly on random shard ids. Compiled into /repo/ton with
// `go test -overlay` (adds this file only). Events are judged by spec/trace/Addr_Trace.tla.

import (
	"bufio"
	"fmt"
	"math/rand"
	"os"
	"strconv"
	"strings"
	"testing"

	"github.com/tonkeeper/tongo/tlb"
)

func verifC17Bits(v uint64) string {
	s := strconv.FormatUint(v, 2)
	return strings.Repeat("0", 64-len(s)) + s
}

func TestVerifC17(t *testing.T) {
	out := os.Getenv("VERIF_C17_OUT")
	if out == "" {
		t.Skip("VERIF_C17_OUT not set")
	}
	seed, _ := strconv.ParseInt(os.Getenv("VERIF_C17_SEED"), 10, 64)
	n, _ := strconv.Atoi(os.Getenv("VERIF_C17_N"))
	f, err := os.Create(out)
	if err != nil {
		t.Fatal(err)
	}
	w := bufio.NewWriter(f)
	r := rand.New(rand.NewSource(seed*31 + 5))
	events := 0
	emit := func(format string, a ...any) {
		if events%25 == 0 {
			fmt.Fprintln(w, `{"k":"Reset","p":"C17"}`)
			events++
		}
		fmt.Fprintf(w, format+"\n", a...)
		events++
	}
	for i := 0; i < n; i++ {
		// every prefix length 0..60 in turn, prefix all-zero / all-one / random
		ln := i % 61
		var pfx uint64
		switch r.Intn(4) {
		case 0:
		case 1:
			pfx = ^uint64(0)
		default:
			pfx = r.Uint64()
		}
		if ln == 0 {
			pfx = 0
		} else {
			pfx = pfx >> uint(64-ln) << uint(64-ln)
		}
		wc, id := convertShardIdent(tlb.ShardIdent{ShardPfxBits: tlb.Uint6(ln), WorkchainID: int32(r.Uint32()), ShardPrefix: pfx})
		_ = wc
		emit(`{"k":"Ident","p":"C17","n":%d,"ident":"%s","out":"%s"}`, ln, verifC17Bits(pfx), verifC17Bits(id))
		l, rt := shardChild(id, true), shardChild(id, false)
		emit(`{"k":"Family","p":"C17","id":"%s","l":"%s","r":"%s","par":"%s","pl":"%s","pr":"%s","cp0":"%s","cp1":"%s"}`,
			verifC17Bits(id), verifC17Bits(l), verifC17Bits(rt), verifC17Bits(shardParent(id)),
			verifC17Bits(shardParent(l)), verifC17Bits(shardParent(rt)),
			verifC17Bits(shardChild(shardParent(id), true)), verifC17Bits(shardChild(shardParent(id), false)))
	}
	fmt.Fprintf(w, `{"k":"End","events":%d}`+"\n", events)
	if err := w.Flush(); err != nil {
		t.Fatal(err)
	}
	f.Close()
}
