package liteclient

// In-package driver of C10 (added to the package with `go test -overlay`, together with a copy of
// harness/internal/tlval/tlval.go): every (*Client).LiteServer*/LiteProxy* method is called on a client
// whose connection is a recorder — no network. For each TLC-generated vector (request value, scripted
// answer) it records the bytes the method hands to the connection and the value / error it returns;
// spec/trace/TlSem_Trace.tla judges both.

import (
	"bufio"
	"context"
	"encoding/hex"
	"encoding/json"
	"fmt"
	"net"
	"os"
	"reflect"
	"sync"
	"testing"
	"time"
)

type verifIdentity struct{}

func (verifIdentity) XORKeyStream(dst, src []byte) { copy(dst, src) }

// verifConn records what is written and lets the test script an answer.
type verifConn struct {
	mu      sync.Mutex
	written [][]byte
	onWrite func(frame []byte)
}

func (c *verifConn) Write(b []byte) (int, error) {
	cp := append([]byte{}, b...)
	c.mu.Lock()
	c.written = append(c.written, cp)
	f := c.onWrite
	c.mu.Unlock()
	if f != nil {
		f(cp)
	}
	return len(b), nil
}
func (c *verifConn) Read(b []byte) (int, error)         { select {} }
func (c *verifConn) Close() error                       { return nil }
func (c *verifConn) LocalAddr() net.Addr                { return nil }
func (c *verifConn) RemoteAddr() net.Addr               { return nil }
func (c *verifConn) SetDeadline(t time.Time) error      { return nil }
func (c *verifConn) SetReadDeadline(t time.Time) error  { return nil }
func (c *verifConn) SetWriteDeadline(t time.Time) error { return nil }

func TestVerifC10Calls(t *testing.T) {
	schemaPath, vecPath, outPath := os.Getenv("VERIF_C10_SCHEMA"), os.Getenv("VERIF_C10_VECS"), os.Getenv("VERIF_C10_OUT")
	if schemaPath == "" {
		t.Skip("not run by the verification harness")
	}
	raw, err := os.ReadFile(schemaPath)
	if err != nil {
		t.Fatal(err)
	}
	s, err := TvLoadSchema(schemaPath)
	if err != nil {
		t.Fatal(err)
	}
	out, err := os.Create(outPath)
	if err != nil {
		t.Fatal(err)
	}
	defer out.Close()
	bw := bufio.NewWriterSize(out, 1<<20)
	events := 0
	emit := func(m map[string]any) {
		b, err := json.Marshal(m)
		if err != nil {
			t.Fatal(err)
		}
		bw.Write(b)
		bw.WriteByte('\n')
		events++
	}
	// one segment per function, so that a rejected call of one method does not hide the others
	byFn := map[string][]map[string]any{}
	var fnOrder []string
	record := func(fn string, m map[string]any) {
		if _, ok := byFn[fn]; !ok {
			fnOrder = append(fnOrder, fn)
		}
		byFn[fn] = append(byFn[fn], m)
	}

	fc := &verifConn{}
	conn := &Connection{
		resp:   make(chan Packet),
		status: Connected,
		econn:  &encryptedConn{cipher: verifIdentity{}, decipher: verifIdentity{}, conn: fc},
		pings:  map[uint64]time.Time{},
	}
	client := NewClient(conn, OptionTimeout(20*time.Second))
	cv := reflect.ValueOf(client)

	vf, err := os.Open(vecPath)
	if err != nil {
		t.Fatal(err)
	}
	defer vf.Close()
	sc := bufio.NewScanner(vf)
	sc.Buffer(make([]byte, 1<<20), 1<<28)
	methods := map[string]bool{}
	for sc.Scan() {
		var v struct {
			Vec    int    `json:"vec"`
			Ty     string `json:"ty"`
			Op     string `json:"op"`
			V      any    `json:"v"`
			ResTy  string `json:"res_ty"`
			AnsPre string `json:"ans_pre"`
			AnsSuf string `json:"ans_suf"`
		}
		if err := json.Unmarshal(sc.Bytes(), &v); err != nil {
			t.Fatal(err)
		}
		if v.Op != "Call" {
			continue
		}
		name := TvCamel(v.Ty)
		m := cv.MethodByName(name)
		if !m.IsValid() {
			t.Fatalf("no method %s for function %s", name, v.Ty)
		}
		methods[name] = true
		args := []reflect.Value{reflect.ValueOf(context.Background())}
		if m.Type().NumIn() == 2 {
			rq, err := s.TvFromJSON(TvNamed(v.Ty), v.V, m.Type().In(1))
			if err != nil {
				t.Fatalf("vector %d: %v", v.Vec, err)
			}
			args = append(args, rq)
		}
		pre, _ := hex.DecodeString(v.AnsPre)
		suf, _ := hex.DecodeString(v.AnsSuf)
		var payload, answer []byte
		fc.mu.Lock()
		fc.written = nil
		fc.onWrite = func(frame []byte) {
			// ADNL frame in the clear: size(4) nonce(32) payload hash(32)
			if len(frame) < 68+36 {
				return
			}
			payload = frame[36 : len(frame)-32]
			answer = append(append(append([]byte{}, pre...), payload[4:36]...), suf...)
			go func(a []byte) { conn.resp <- Packet{Payload: a} }(append([]byte{}, answer...))
		}
		fc.mu.Unlock()
		var res []reflect.Value
		pan := ""
		func() {
			defer func() {
				if r := recover(); r != nil {
					pan = fmt.Sprint(r)
				}
			}()
			res = m.Call(args)
		}()
		if pan != "" {
			record(v.Ty, map[string]any{"k": "Panic", "op": "Call", "fn": v.Ty, "v": v.V, "panic": pan})
			continue
		}
		fc.mu.Lock()
		nw := len(fc.written)
		fc.mu.Unlock()
		e := map[string]any{"k": "Call", "fn": v.Ty, "v": v.V, "frame": "adnl", "payload": hex.EncodeToString(payload),
			"ans": hex.EncodeToString(answer), "writes": nw, "err": "", "vec": v.Vec}
		if callErr, _ := res[1].Interface().(error); callErr != nil {
			e["err"] = "e"
			if le, ok := callErr.(LiteServerErrorC); ok {
				j, err := s.TvToJSON(TvNamed("liteServer.error"), reflect.ValueOf(le))
				if err != nil {
					t.Fatal(err)
				}
				e["errv"] = j
			}
		} else {
			j, err := s.TvToJSON(TvNamed(v.ResTy), res[0])
			if err != nil {
				t.Fatalf("vector %d: %v", v.Vec, err)
			}
			e["res"] = j
		}
		record(v.Ty, e)
	}
	for _, fn := range fnOrder {
		emit(map[string]any{"k": "Reset", "schema": json.RawMessage(raw), "note": "(*Client) method of " + fn})
		for _, m := range byFn[fn] {
			emit(m)
		}
	}
	// which request methods exist but were never driven? (reported to the runner)
	undriven := []string{}
	for i := 0; i < cv.NumMethod(); i++ {
		n := cv.Type().Method(i).Name
		if (len(n) > 10 && n[:10] == "LiteServer") || (len(n) > 9 && n[:9] == "LiteProxy") {
			if !methods[n] {
				undriven = append(undriven, n)
			}
		}
	}
	b, _ := json.Marshal(map[string]any{"k": "End", "events": events, "methods": len(methods), "undriven": undriven})
	bw.Write(b)
	bw.WriteByte('\n')
	if err := bw.Flush(); err != nil {
		t.Fatal(err)
	}
}
