package liteclient

// In-package driver of C08 (added to the package with `go test -overlay`): the unexported helpers that sit
// directly on bytes from the network - decodeLength (TL length prefix of an ADNL answer), (*Client).processQueryAnswer
// (answer framing: query id, length prefix, delivery to the waiting caller), ParsePacket (ADNL frame: length prefix,
// nonce, payload, checksum) - are called on adversarial byte strings. Every call is preceded by a Begin record and
// runs under recover; spec/trace/Decode_Trace.tla judges the recorded returns.

import (
	"bufio"
	"bytes"
	"crypto/sha256"
	"encoding/binary"
	"encoding/hex"
	"encoding/json"
	"fmt"
	"math/rand"
	"os"
	"runtime"
	"strconv"
	"syscall"
	"testing"
	"time"
)

func verif8ThreadCPU() time.Duration {
	var ru syscall.Rusage
	if err := syscall.Getrusage(1 /* RUSAGE_THREAD */, &ru); err != nil {
		return 0
	}
	return time.Duration(ru.Utime.Nano() + ru.Stime.Nano())
}

type verif8Identity struct{}

func (verif8Identity) XORKeyStream(dst, src []byte) { copy(dst, src) }

func TestVerifC08Helpers(t *testing.T) {
	outPath := os.Getenv("VERIF_C08_OUT")
	if outPath == "" {
		t.Skip("not run by the verification harness")
	}
	seed, _ := strconv.ParseInt(os.Getenv("VERIF_C08_SEED"), 10, 64)
	thorough := os.Getenv("VERIF_C08_TIER") == "thorough"
	out, err := os.Create(outPath)
	if err != nil {
		t.Fatal(err)
	}
	defer out.Close()
	bw := bufio.NewWriter(out)
	events := 0
	emit := func(m map[string]any) {
		b, err := json.Marshal(m)
		if err != nil {
			t.Fatal(err)
		}
		bw.Write(b)
		bw.WriteByte('\n')
		bw.Flush()
		events++
	}
	idx := 0
	call := func(site, class string, data []byte, f func(out map[string]any) error) {
		i := idx
		idx++
		hx := hex.EncodeToString(data)
		emit(map[string]any{"k": "Begin", "i": i, "kind": "Helper", "site": site, "class": class, "hex": hx})
		m := map[string]any{"k": "Helper", "i": i, "site": site, "class": class, "hex": hx, "size": len(data), "res": "err", "alloc_kb": 0, "ms": 0}
		var ms0, ms1 runtime.MemStats
		var pan any
		var cerr error
		res := map[string]any{}
		runtime.LockOSThread()
		runtime.ReadMemStats(&ms0)
		t0 := time.Now()
		c0 := verif8ThreadCPU()
		func() {
			defer func() { pan = recover() }()
			cerr = f(res)
		}()
		cpu := verif8ThreadCPU() - c0
		el := time.Since(t0)
		runtime.ReadMemStats(&ms1)
		runtime.UnlockOSThread()
		if pan != nil {
			emit(map[string]any{"k": "Panic", "i": i, "kind": "Helper", "site": site, "class": class, "hex": hx, "panic": fmt.Sprint(pan)})
			return
		}
		m["ms"] = int(cpu.Milliseconds())
		m["wall_ms"] = int(el.Milliseconds())
		m["alloc_kb"] = int((ms1.TotalAlloc - ms0.TotalAlloc) / 1024)
		if cerr == nil {
			m["res"] = "ok"
		}
		for k, v := range res {
			m[k] = v
		}
		emit(m)
	}
	rng := rand.New(rand.NewSource(seed*40503 + 11))
	rnd := func(n int) []byte { b := make([]byte, n); rng.Read(b); return b }

	// ---- decodeLength
	var lens [][]byte
	lens = append(lens, []byte{}, []byte{255}, []byte{255, 1, 2, 3}, []byte{254}, []byte{254, 1}, []byte{254, 1, 2}, []byte{254, 1, 2, 3},
		[]byte{254, 0xff, 0xff, 0xff}, []byte{254, 0, 0, 0}, []byte{0}, []byte{253}, []byte{253, 1, 2}, []byte{1, 7}, []byte{254, 0, 1, 0, 9, 9})
	n := 60
	if thorough {
		n = 4000
	}
	for k := 0; k < n; k++ {
		b := rnd(rng.Intn(9))
		if len(b) > 0 && k%3 == 0 {
			b[0] = []byte{254, 255, 253, 0}[rng.Intn(4)]
		}
		lens = append(lens, b)
	}
	for _, b := range lens {
		b := b
		call("liteclient.decodeLength", "len", b, func(out map[string]any) error {
			cp := append([]byte{}, b...)
			n, rest, err := decodeLength(cp)
			out["n"] = n
			out["restlen"] = len(rest)
			return err
		})
	}

	// ---- processQueryAnswer
	var id queryID
	copy(id[:], rnd(32))
	answer := func(tail []byte) []byte {
		p := make([]byte, 4)
		binary.LittleEndian.PutUint32(p, magicADNLAnswer)
		p = append(p, id[:]...)
		return append(p, tail...)
	}
	tlb := func(d []byte) []byte {
		var o []byte
		if len(d) < 254 {
			o = append(o, byte(len(d)))
		} else {
			o = append(o, 254, byte(len(d)), byte(len(d)>>8), byte(len(d)>>16))
		}
		o = append(o, d...)
		for len(o)%4 != 0 {
			o = append(o, 0)
		}
		return o
	}
	var answers [][2]any
	add := func(class string, p []byte) { answers = append(answers, [2]any{class, p}) }
	good := answer(tlb(rnd(20)))
	add("valid", good)
	add("valid_long", answer(tlb(rnd(300))))
	add("valid_empty", answer(tlb(nil)))
	for cut := 0; cut <= len(good); cut++ {
		add("trunc", good[:cut])
	}
	add("len:ff", answer([]byte{255, 0, 0, 0}))
	add("len:fe_only", answer([]byte{254}))
	add("len:fe_2", answer([]byte{254, 1}))
	add("len:fe_3", answer([]byte{254, 1, 0}))
	add("len:fe_huge", answer([]byte{254, 0xff, 0xff, 0xff, 1, 2, 3, 4}))
	add("len:longer_than_data", answer([]byte{200, 1, 2, 3}))
	add("len:fe_zero", answer([]byte{254, 0, 0, 0}))
	other := append([]byte{}, good...)
	other[10] ^= 1
	add("unknown_query", other)
	for k := 0; k < n/2; k++ {
		add("random_tail", answer(rnd(rng.Intn(12))))
		add("random", rnd(rng.Intn(80)))
	}
	for _, a := range answers {
		class, p := a[0].(string), a[1].([]byte)
		call("liteclient.processQueryAnswer", class, p, func(out map[string]any) error {
			c := &Client{queries: map[queryID]chan []byte{}}
			ch := c.registerCallback(id)
			known := len(p) >= 36 && bytes.Equal(p[4:36], id[:])
			out["known"] = known
			err := c.processQueryAnswer(Packet{Payload: append([]byte{}, p...)})
			out["delivered"] = ""
			select {
			case d := <-ch:
				out["delivered"] = hex.EncodeToString(d)
				out["got"] = true
			default:
				out["got"] = false
			}
			return err
		})
	}

	// ---- ParsePacket
	frame := func(payload []byte) []byte {
		nonce := rnd(32)
		b := make([]byte, 4)
		binary.LittleEndian.PutUint32(b, uint32(64+len(payload)))
		b = append(b, nonce...)
		b = append(b, payload...)
		h := sha256.Sum256(b[4:])
		return append(b, h[:]...)
	}
	var frames [][2]any
	addf := func(class string, p []byte) { frames = append(frames, [2]any{class, p}) }
	g := frame(rnd(24))
	addf("valid", g)
	addf("valid_empty", frame(nil))
	addf("valid_long", frame(rnd(5000)))
	for cut := 0; cut < len(g); cut++ {
		addf("trunc", g[:cut])
	}
	for _, l := range []uint32{0, 1, 63, 64, 65, 8 << 20, 8<<20 + 1, 0x7fffffff, 0x80000000, 0xffffffff, 16 << 20} {
		b := make([]byte, 4)
		binary.LittleEndian.PutUint32(b, l)
		addf("len:"+strconv.FormatUint(uint64(l), 10), append(b, rnd(70)...))
		addf("len_only:"+strconv.FormatUint(uint64(l), 10), b)
	}
	bad := append([]byte{}, g...)
	bad[len(bad)-1] ^= 1
	addf("checksum", bad)
	bad2 := append([]byte{}, g...)
	bad2[40] ^= 1
	addf("payload_changed", bad2)
	for k := 0; k < n/2; k++ {
		addf("random", rnd(rng.Intn(140)))
		x := append([]byte{}, g...)
		x[rng.Intn(len(x))] ^= 1 << uint(rng.Intn(8))
		addf("bitflip", x)
	}
	for _, a := range frames {
		class, p := a[0].(string), a[1].([]byte)
		call("liteclient.ParsePacket", class, p, func(out map[string]any) error {
			pk, err := ParsePacket(bytes.NewReader(p), verif8Identity{})
			out["payload"] = hex.EncodeToString(pk.Payload)
			return err
		})
	}
	emit(map[string]any{"k": "End", "events": events})
}
