------------------------------- MODULE TlSem -------------------------------
(* TL (Type Language) serialisation as an interpreter over a schema AST      *)
(* (DESIGN.md A.5, produced by tools/tl2json.py or by a generator spec).     *)
(* Written from the TL documentation and the comments heading TON's *.tl      *)
(* schemas, not from tongo's tl/encoder.go:                                   *)
(*   int        4 bytes, little-endian, two's complement                      *)
(*   long       8 bytes, little-endian, two's complement                      *)
(*   #          4 bytes, little-endian, unsigned                              *)
(*   int128/int256   16 / 32 raw bytes                                        *)
(*   bytes, string   L < 254: one length byte, data, zero padding to a       *)
(*              multiple of 4 (counting the length byte);                    *)
(*              L >= 254: 0xfe, L as 3 bytes little-endian, data, padding    *)
(*   Bool       boolTrue#997275b5 / boolFalse#bc799737 (ids as `int`s)        *)
(*   true       no bytes at all (only meaningful under a flag)                *)
(*   vector T   element count as 4 bytes little-endian, then the items        *)
(*   f:flags.N?T   present iff bit N of the earlier `#` field flags is set    *)
(*   bare type  (named by its lower-case constructor)  the fields in order    *)
(*   boxed type (named by its upper-case result type)  constructor id as a    *)
(*              little-endian 32-bit number, then the fields                  *)
(*   function   id, then the arguments                                        *)
(*                                                                             *)
(* Values (the JSON exchange shape):                                           *)
(*   int, long  signed decimal string      #  unsigned decimal string         *)
(*   int128, int256, bytes, string   lower-case hex of the raw content        *)
(*   Bool       TRUE / FALSE               vector   sequence                   *)
(*   constructor / function value: record with "_" = constructor name and     *)
(*   one entry per field that is present; fields of type `true` carry no      *)
(*   information beyond their flag bit and never appear in values.            *)
(*                                                                             *)
(* Enc is defined on Valid values; Dec is total: any byte sequence gives      *)
(* either [ok |-> TRUE, value, rest] or [ok |-> FALSE, ...].  Dec is lenient  *)
(* exactly where the format description leaves the reader free: padding       *)
(* bytes are skipped without looking at them and the long length form is      *)
(* accepted for short strings.                                                 *)
EXTENDS Integers, Sequences, TLC, Prim

B == INSTANCE Bits WITH s <- <<>>, r <- 0, cap <- 0, nrefs <- 0, rr <- 0

\* ------------------------------------------------------------------ helpers
Rev(b)      == [i \in 1..Len(b) |-> b[Len(b) + 1 - i]]
ZeroBytes(n) == [i \in 1..n |-> 0]
BitsToLE(bits) == Rev(BitsToBytes(bits))           \* big-endian bit string -> little-endian bytes
LEToBits(bytes) == BytesToBits(Rev(bytes))
U32LE(n)    == <<n % 256, (n \div 256) % 256, (n \div 65536) % 256, n \div 16777216>>   \* 0 <= n < 2^31
PadTo4(n)   == ZeroBytes((4 - (n % 4)) % 4)
IdBytes(id) == Rev(HexToBytes(id))                 \* "75a0e2c5" -> <<c5, e2, a0, 75>>
BoolTrue    == IdBytes("997275b5")
BoolFalse   == IdBytes("bc799737")
MaxStrLen   == 16777215                            \* 2^24 - 1: the largest length the 3-byte form can carry

\* a byte string with its length prefix and padding
TlBytes(data) ==
  LET n == Len(data) IN
  IF n < 254 THEN <<n>> \o data \o PadTo4(n + 1)
  ELSE <<254, n % 256, (n \div 256) % 256, n \div 65536>> \o data \o PadTo4(n)

\* ------------------------------------------------------------ schema access
\* a type expression is a name (string) or [vector |-> type]; TLC cannot compare a record with a
\* string, so the two are told apart by their printed form
IsVec(ty)  == SubStr(ToString(ty), 1, 1) = "["
Builtins   == {"int", "long", "int128", "int256", "bytes", "string", "Bool", "#", "true"}
TypeIdx(S) == 1..Len(S.types)
FnIdx(S)   == 1..Len(S.functions)
IsCtor(S, n)   == \E i \in TypeIdx(S) : S.types[i].ctor = n
IsResult(S, n) == \E i \in TypeIdx(S) : S.types[i].result = n
IsFn(S, n)     == \E i \in FnIdx(S) : S.functions[i].ctor = n
CtorDecl(S, n) == S.types[CHOOSE i \in TypeIdx(S) : S.types[i].ctor = n]
FnDecl(S, n)   == S.functions[CHOOSE i \in FnIdx(S) : S.functions[i].ctor = n]
CtorsOf(S, res) == {i \in TypeIdx(S) : S.types[i].result = res}
HasFlag(f)  == "flag" \in DOMAIN f
\* bit N of an unsigned decimal string
BitOf(dec, N) == B!UBits(dec, 32)[32 - N]
\* is field f of a constructor present, given the fields decoded / supplied so far (a record)?
Present(f, sofar) == HasFlag(f) => (f.flag.field \in DOMAIN sofar /\ BitOf(sofar[f.flag.field], f.flag.bit) = 1)
\* `true` never appears in a value (NB: f.ty = "true" alone would compare a record with a string for vector fields)
IsTrue(f)   == ~IsVec(f.ty) /\ f.ty = "true"

\* ------------------------------------------------------------------- domain
IsHex(h, nbytes) == StrLen(h) = 2 * nbytes /\ BytesToHex(HexToBytes(h)) = h
RECURSIVE Valid(_, _, _), ValidFields(_, _, _, _), ValidRec(_, _, _)
ValidRec(S, d, v) ==
  /\ "_" \in DOMAIN v /\ v["_"] = d.ctor
  /\ ValidFields(S, d, v, 1)
  /\ DOMAIN v = {"_"} \cup {d.fields[i].name : i \in {j \in 1..Len(d.fields) : ~IsTrue(d.fields[j]) /\ Present(d.fields[j], v)}}
ValidFields(S, d, v, i) ==
  IF i > Len(d.fields) THEN TRUE
  ELSE LET f == d.fields[i] IN
       /\ (HasFlag(f) => \E j \in 1..(i - 1) : d.fields[j].name = f.flag.field /\ ~IsVec(d.fields[j].ty) /\ d.fields[j].ty = "#"
                                               /\ ~HasFlag(d.fields[j]))
       /\ IF IsTrue(f) \/ ~Present(f, v) THEN TRUE ELSE f.name \in DOMAIN v /\ Valid(S, f.ty, v[f.name])
       /\ ValidFields(S, d, v, i + 1)
Valid(S, ty, v) ==
  IF IsVec(ty) THEN \A i \in 1..Len(v) : Valid(S, ty.vector, v[i])
  ELSE CASE ty = "int"    -> B!SFits(v, 32)
         [] ty = "long"   -> B!SFits(v, 64)
         [] ty = "#"      -> B!UFits(v, 32)
         [] ty = "int128" -> IsHex(v, 16)
         [] ty = "int256" -> IsHex(v, 32)
         [] ty \in {"bytes", "string"} -> StrLen(v) % 2 = 0 /\ StrLen(v) \div 2 <= MaxStrLen
         [] ty = "Bool"   -> v \in BOOLEAN
         [] ty = "true"   -> TRUE
         [] IsCtor(S, ty) -> ValidRec(S, CtorDecl(S, ty), v)
         [] IsResult(S, ty) -> "_" \in DOMAIN v /\ IsCtor(S, v["_"]) /\ CtorDecl(S, v["_"]).result = ty
                               /\ ValidRec(S, CtorDecl(S, v["_"]), v)
         [] IsFn(S, ty)   -> ValidRec(S, FnDecl(S, ty), v)
         [] OTHER -> FALSE

\* ----------------------------------------------------------------- encoding
RECURSIVE EncTy(_, _, _), EncFields(_, _, _, _), EncItems(_, _, _, _, _)
EncFields(S, d, v, i) ==
  IF i > Len(d.fields) THEN <<>>
  ELSE LET f == d.fields[i] IN
       (IF IsTrue(f) \/ ~Present(f, v) THEN <<>> ELSE EncTy(S, f.ty, v[f.name])) \o EncFields(S, d, v, i + 1)
\* items lo..hi of v in order (split in halves: recursion depth log n, so that long vectors stay cheap for TLC)
EncItems(S, ty, v, lo, hi) ==
  IF lo > hi THEN <<>>
  ELSE IF lo = hi THEN EncTy(S, ty, v[lo])
  ELSE LET mid == (lo + hi) \div 2 IN EncItems(S, ty, v, lo, mid) \o EncItems(S, ty, v, mid + 1, hi)
EncBoxed(S, d, v) == IdBytes(d.id) \o EncFields(S, d, v, 1)
EncTy(S, ty, v) ==
  IF IsVec(ty) THEN U32LE(Len(v)) \o EncItems(S, ty.vector, v, 1, Len(v))
  ELSE CASE ty = "int"    -> BitsToLE(B!SBits(v, 32))
         [] ty = "long"   -> BitsToLE(B!SBits(v, 64))
         [] ty = "#"      -> BitsToLE(B!UBits(v, 32))
         [] ty \in {"int128", "int256"} -> HexToBytes(v)
         [] ty \in {"bytes", "string"}  -> TlBytes(HexToBytes(v))
         [] ty = "Bool"   -> IF v THEN BoolTrue ELSE BoolFalse
         [] ty = "true"   -> <<>>
         [] IsCtor(S, ty) -> EncFields(S, CtorDecl(S, ty), v, 1)                   \* bare
         [] IsResult(S, ty) -> EncBoxed(S, CtorDecl(S, v["_"]), v)                  \* boxed
         [] IsFn(S, ty)   -> EncBoxed(S, FnDecl(S, ty), v)                          \* function = id + arguments

\* Enc(schema, typeName, value): typeName is a builtin, a constructor name (bare), a result type
\* name (boxed) or a function name (id + arguments).
Enc(S, ty, v) == EncTy(S, ty, v)
\* the fields of a constructor or function without the id (what a bare occurrence carries)
DeclOf(S, n)  == IF IsFn(S, n) THEN FnDecl(S, n) ELSE CtorDecl(S, n)
EncBare(S, n, v) == EncFields(S, DeclOf(S, n), v, 1)
\* id + fields of one named constructor (the boxed form of a single-constructor type)
EncCtorBoxed(S, n, v) == EncBoxed(S, DeclOf(S, n), v)

\* ----------------------------------------------------------------- decoding
\* position-based: b is the whole input, p the number of bytes consumed so far
DOk(v, p) == [ok |-> TRUE, v |-> v, p |-> p]
DErr(p)   == [ok |-> FALSE, v |-> "err", p |-> p]
Has(b, p, n)  == p + n <= Len(b)
Take(b, p, n) == SubSeq(b, p + 1, p + n)
LE24(b, p)    == b[p + 1] + 256 * b[p + 2] + 65536 * b[p + 3]

DecBytes(b, p) ==
  IF ~Has(b, p, 1) THEN DErr(p)
  ELSE LET b0 == b[p + 1] IN
    IF b0 < 254 THEN
      LET tot == 1 + b0 + ((4 - ((1 + b0) % 4)) % 4) IN
      IF Has(b, p, tot) THEN DOk(BytesToHex(Take(b, p + 1, b0)), p + tot) ELSE DErr(p)
    ELSE IF b0 = 254 THEN
      IF ~Has(b, p, 4) THEN DErr(p)
      ELSE LET n == LE24(b, p + 1)  tot == 4 + n + ((4 - (n % 4)) % 4) IN
           IF Has(b, p, tot) THEN DOk(BytesToHex(Take(b, p + 4, n)), p + tot) ELSE DErr(p)
    ELSE DErr(p)

\* a lower bound on the encoded size of a value of type ty (fuel bounds the descent through declared types;
\* 0 is always a sound answer)
RECURSIVE MinSize(_, _, _), MinFields(_, _, _, _)
MinFields(S, d, i, fuel) ==
  IF i > Len(d.fields) THEN 0
  ELSE (IF HasFlag(d.fields[i]) THEN 0 ELSE MinSize(S, d.fields[i].ty, fuel)) + MinFields(S, d, i + 1, fuel)
MinSize(S, ty, fuel) ==
  IF IsVec(ty) THEN 4
  ELSE CASE ty \in {"int", "#", "Bool", "bytes", "string"} -> 4
         [] ty = "long" -> 8
         [] ty = "int128" -> 16
         [] ty = "int256" -> 32
         [] ty = "true" -> 0
         [] fuel = 0 -> 0
         [] IsCtor(S, ty) -> MinFields(S, CtorDecl(S, ty), 1, fuel - 1)
         [] IsResult(S, ty) -> 4
         [] OTHER -> 0

RECURSIVE DecTy(_, _, _, _), DecFields(_, _, _, _, _, _), DecItems(_, _, _, _, _)
DecFields(S, d, b, p, i, acc) ==
  IF i > Len(d.fields) THEN DOk(acc, p)
  ELSE LET f == d.fields[i] IN
       IF IsTrue(f) \/ ~Present(f, acc) THEN DecFields(S, d, b, p, i + 1, acc)
       ELSE LET x == DecTy(S, f.ty, b, p) IN
            IF x.ok THEN DecFields(S, d, b, x.p, i + 1, acc @@ (f.name :> x.v)) ELSE DErr(p)
\* n items one after the other starting at p (the second half starts where the first ended; recursion depth log n)
DecItems(S, ty, b, p, n) ==
  IF n = 0 THEN DOk(<<>>, p)
  ELSE IF n = 1 THEN LET x == DecTy(S, ty, b, p) IN IF x.ok THEN DOk(<<x.v>>, x.p) ELSE DErr(p)
  ELSE LET h == n \div 2
           l == DecItems(S, ty, b, p, h) IN
       IF ~l.ok THEN DErr(p)
       ELSE LET r == DecItems(S, ty, b, l.p, n - h) IN
            IF r.ok THEN DOk(l.v \o r.v, r.p) ELSE DErr(p)
DecDecl(S, d, b, p) == DecFields(S, d, b, p, 1, "_" :> d.ctor)
DecBoxedOneOf(S, decls, b, p) ==         \* decls: a set of declarations; the id read selects one
  IF ~Has(b, p, 4) THEN DErr(p)
  ELSE LET id == Take(b, p, 4)
           m  == {d \in decls : IdBytes(d.id) = id} IN
       IF m = {} THEN DErr(p) ELSE DecDecl(S, CHOOSE d \in m : TRUE, b, p + 4)
DecTy(S, ty, b, p) ==
  IF IsVec(ty) THEN
    IF ~Has(b, p, 4) \/ b[p + 4] >= 128 THEN DErr(p)
    ELSE LET n == b[p + 1] + 256 * b[p + 2] + 65536 * b[p + 3] + 16777216 * b[p + 4] IN
         \* early exit: n items need at least n * MinSize bytes (items of zero size are decoded one by one)
         IF MinSize(S, ty.vector, 6) > 0 /\ n > (Len(b) - (p + 4)) \div MinSize(S, ty.vector, 6) THEN DErr(p)
         ELSE DecItems(S, ty.vector, b, p + 4, n)
  ELSE CASE ty = "int"    -> IF Has(b, p, 4) THEN DOk(B!SDec(LEToBits(Take(b, p, 4))), p + 4) ELSE DErr(p)
         [] ty = "long"   -> IF Has(b, p, 8) THEN DOk(B!SDec(LEToBits(Take(b, p, 8))), p + 8) ELSE DErr(p)
         [] ty = "#"      -> IF Has(b, p, 4) THEN DOk(BitsToDec(LEToBits(Take(b, p, 4))), p + 4) ELSE DErr(p)
         [] ty = "int128" -> IF Has(b, p, 16) THEN DOk(BytesToHex(Take(b, p, 16)), p + 16) ELSE DErr(p)
         [] ty = "int256" -> IF Has(b, p, 32) THEN DOk(BytesToHex(Take(b, p, 32)), p + 32) ELSE DErr(p)
         [] ty \in {"bytes", "string"} -> DecBytes(b, p)
         [] ty = "Bool"   -> IF ~Has(b, p, 4) THEN DErr(p)
                             ELSE IF Take(b, p, 4) = BoolTrue THEN DOk(TRUE, p + 4)
                             ELSE IF Take(b, p, 4) = BoolFalse THEN DOk(FALSE, p + 4) ELSE DErr(p)
         [] ty = "true"   -> DOk(TRUE, p)
         [] IsCtor(S, ty) -> DecDecl(S, CtorDecl(S, ty), b, p)
         [] IsResult(S, ty) -> DecBoxedOneOf(S, {S.types[i] : i \in CtorsOf(S, ty)}, b, p)
         [] IsFn(S, ty)   -> DecBoxedOneOf(S, {FnDecl(S, ty)}, b, p)
         [] OTHER -> DErr(p)

Result(b, x) == [ok |-> x.ok, value |-> x.v, rest |-> IF x.ok THEN SubSeq(b, x.p + 1, Len(b)) ELSE b]
\* Dec(schema, typeName, bytes) -> [ok, value, rest]
Dec(S, ty, b) == Result(b, DecTy(S, ty, b, 0))
\* fields only of a constructor / function
DecBare(S, n, b) == Result(b, DecDecl(S, DeclOf(S, n), b, 0))
\* id + fields of one named constructor
DecCtorBoxed(S, n, b) == Result(b, DecBoxedOneOf(S, {DeclOf(S, n)}, b, 0))
\* a request: whichever function's id comes first
DecAnyFn(S, b) == Result(b, DecBoxedOneOf(S, {S.functions[i] : i \in FnIdx(S)}, b, 0))

\* -------------------------------------------------------- constructor ids
\* CRC32 (IEEE) of the declaration text normalised to single spaces, without "#id" and ";".
\* The TL documentation computes it over the text with parentheses removed; TON's newer
\* declarations were numbered with the parentheses kept, so both are provided.
RECURSIVE CatAll(_)
CatAll(ss) == IF Len(ss) = 0 THEN "" ELSE StrCat(ss[1], CatAll(Tail(ss)))
RECURSIVE TyText(_, _)
TyText(ty, par) == IF IsVec(ty)
                     THEN CatAll(<<IF par THEN "(vector " ELSE "vector ", TyText(ty.vector, par), IF par THEN ")" ELSE "">>)
                     ELSE ty
FieldText(f, par) == CatAll(<<f.name, ":",
                              IF HasFlag(f) THEN CatAll(<<f.flag.field, ".", ToString(f.flag.bit), "?">>) ELSE "",
                              TyText(f.ty, par), " ">>)
DeclText(d, par) == CatAll(<<d.ctor, " ", CatAll([i \in 1..Len(d.fields) |-> FieldText(d.fields[i], par)]), "= ", d.result>>)
ConstructorIdOf(d, par) == BytesToHex(Crc32Ieee(StrToCodes(DeclText(d, par))))
ConstructorId(d) == ConstructorIdOf(d, FALSE)

\* schema well-formedness used by the generators and as a sanity check on parsed schemas
AllDecls(S) == [i \in 1..(Len(S.types) + Len(S.functions)) |->
                  IF i <= Len(S.types) THEN S.types[i] ELSE S.functions[i - Len(S.types)]]
IdsWellFormed(S) == \A i \in DOMAIN AllDecls(S) : IsHex(AllDecls(S)[i].id, 4)
=============================================================================
