----------------------------- MODULE ShardChain -----------------------------
(* X08: the shard chains of one TON workchain and the masterchain blocks that    *)
(* record their configuration, as a state machine; and the functions a library   *)
(* offers for computing with shard identifiers.                                  *)
(*                                                                               *)
(* Written from block.tlb and the shard arithmetic of the TON node               *)
(* (ton/ton-types.h: lower_bit64, shard_child, shard_parent, shard_sibling,      *)
(* shard_contains, shard_is_ancestor, shard_intersects), not from the Go code:   *)
(*   shard_ident$00 shard_pfx_bits:(#<= 60) workchain_id:int32                   *)
(*     shard_prefix:uint64 = ShardIdent;                                         *)
(*   ext_blk_ref$_ end_lt:uint64 seq_no:uint32 root_hash:bits256                 *)
(*     file_hash:bits256 = ExtBlkRef;                                            *)
(*   prev_blk_info$_ prev:ExtBlkRef = BlkPrevInfo 0;                             *)
(*   prev_blks_info$_ prev1:^ExtBlkRef prev2:^ExtBlkRef = BlkPrevInfo 1;         *)
(*   block_info#9bc7a987 ... after_merge:(## 1) before_split:(## 1)              *)
(*     after_split:(## 1) ... shard:ShardIdent ...                               *)
(*     prev_ref:^(BlkPrevInfo after_merge) ... = BlockInfo;                      *)
(*   bt_leaf$0 {X:Type} leaf:X = BinTree X;                                      *)
(*   bt_fork$1 {X:Type} left:^(BinTree X) right:^(BinTree X) = BinTree X;        *)
(*   shard_descr#b / shard_descr_new#a seq_no:uint32 reg_mc_seqno:uint32         *)
(*     start_lt:uint64 end_lt:uint64 root_hash:bits256 file_hash:bits256         *)
(*     before_split:Bool before_merge:Bool want_split:Bool want_merge:Bool       *)
(*     nx_cc_updated:Bool flags:(## 3) next_catchain_seqno:uint32                *)
(*     next_validator_shard:uint64 min_ref_mc_seqno:uint32 gen_utime:uint32 ...  *)
(*   _ (HashmapE 32 ^(BinTree ShardDescr)) = ShardHashes;                        *)
(*                                                                               *)
(* A shard is a binary prefix p (0..60 bits) of the account address; its 64-bit  *)
(* identifier is p, a 1 ("tag" bit), zeros.  The shard of a leaf of the BinTree  *)
(* is the path to it (left = 0, right = 1).  A block made right after a split    *)
(* (after_split = 1) names as its single previous block the last block of the    *)
(* PARENT shard; a block made by a merge (after_merge = 1) names two: prev1 the  *)
(* last block of the left child (p0), prev2 of the right child (p1), and its     *)
(* seq_no is 1 + the larger of theirs.                                           *)
(*                                                                               *)
(* Abstractions: time, logical time, validator sets, the before_split /          *)
(* before_merge announcement protocol and the contents of blocks are not         *)
(* modelled; hashes are small numbers expanded to 256 bits.  64-bit quantities   *)
(* are bit sequences, most significant bit first.                                *)
EXTENDS TextForms, FiniteSets, FiniteSetsExt, TLC

\* ------------------------------------------------ 64-bit words as bit sequences
W == 64
Zero64 == ZeroBits(W)
One64  == ZeroBits(W - 1) \o <<1>>
NotB(a)    == [i \in 1..Len(a) |-> 1 - a[i]]
AndB(a, b) == [i \in 1..Len(a) |-> a[i] * b[i]]
OrB(a, b)  == [i \in 1..Len(a) |-> IF a[i] + b[i] > 0 THEN 1 ELSE 0]
Shl1(a)    == Tail(a) \o <<0>>
Shr1(a)    == <<0>> \o SubSeq(a, 1, Len(a) - 1)
\* addition modulo 2^Len(a): ripple carry from the last (least significant) position
AddB(a, b) ==
  LET n == Len(a)
      st == FoldLeft(LAMBDA acc, k : LET i == n + 1 - k   s == a[i] + b[i] + acc[1]
                                      IN <<s \div 2, <<s % 2>> \o acc[2]>>, <<0, <<>>>>, [k \in 1..n |-> k])
  IN st[2]
NegB(a)    == AddB(NotB(a), ZeroBits(Len(a) - 1) \o <<1>>)
SubB(a, b) == AddB(a, NegB(b))
LessB(a, b) == \E i \in 1..Len(a) : a[i] < b[i] /\ \A j \in 1..(i - 1) : a[j] = b[j]

\* td::lower_bit64(x) = x & -x ; bits_negate64(x) = ~x + 1
LowerBit(x) == AndB(x, NegB(x))
\* ton-types.h
ShardChildA(s, left) == LET x == Shr1(LowerBit(s)) IN IF left THEN SubB(s, x) ELSE AddB(s, x)
ShardParentA(s)      == LET x == LowerBit(s) IN OrB(SubB(s, x), Shl1(x))
ShardSiblingA(s)     == XorBits(s, Shl1(LowerBit(s)))
ShardContainsA(parent, child) == AllZero(AndB(XorBits(parent, child), Shl1(NegB(LowerBit(parent)))))
ShardIsAncestorA(parent, child) ==
  LET x == LowerBit(parent)  y == LowerBit(child) IN ~LessB(x, y) /\ AllZero(AndB(XorBits(parent, child), Shl1(NegB(x))))
ShardIntersectsA(a, b) ==
  LET x == LowerBit(a)  y == LowerBit(b)  z == IF LessB(x, y) THEN y ELSE x IN AllZero(AndB(XorBits(a, b), Shl1(NegB(z))))

\* ------------------------------------------------------------ the prefix view
MaxPfx == 60
Id(p) == p \o <<1>> \o ZeroBits(W - 1 - Len(p))                  \* Len(p) <= 63
HasTag(s) == ~AllZero(s)
TagPos(s) == CHOOSE i \in 1..Len(s) : s[i] = 1 /\ \A j \in (i + 1)..Len(s) : s[j] = 0      \* HasTag(s)
PfxOf(s)  == SubSeq(s, 1, TagPos(s) - 1)
Comparable(p, q) == IsPrefix(p, q) \/ IsPrefix(q, p)
\* ShardIdent of the shard with prefix p
Ident(p) == [bits |-> Len(p), prefix |-> p \o ZeroBits(W - Len(p))]
\* the identifier a ShardIdent stands for (block.cpp: shard_prefix | (1 << (63 - shard_pfx_bits))); bits <= 63
IdentId(bits, prefix) == OrB(prefix, ZeroBits(bits) \o <<1>> \o ZeroBits(W - 1 - bits))
IdentProper(bits, prefix) == bits <= MaxPfx /\ AllZero(SubSeq(prefix, bits + 1, W))

ASSUME /\ LowerBit(Id(<<1, 0, 1>>)) = ZeroBits(3) \o <<1>> \o ZeroBits(60)
       /\ ShardChildA(Id(<<>>), TRUE) = Id(<<0>>) /\ ShardChildA(Id(<<>>), FALSE) = Id(<<1>>)
       /\ ShardParentA(Id(<<0, 1>>)) = Id(<<0>>) /\ ShardSiblingA(Id(<<0, 1>>)) = Id(<<0, 0>>)
       /\ Id(<<>>) = HexBits("8000000000000000") /\ Id(<<1, 1>>) = HexBits("e000000000000000")
       /\ SubB(Zero64, One64) = OneBits(W) /\ AddB(OneBits(W), One64) = Zero64
       /\ ShardContainsA(Id(<<1>>), HexBits("ffffffffffffffff")) /\ ~ShardContainsA(Id(<<1>>), HexBits("7fffffffffffffff"))

\* ------------------------------------------------------------------ hashes
Rep(b, n) == FoldLeft(LAMBDA a, k : a \o b, <<>>, [k \in 1..n |-> k])
HashHex(tag, h) == CodesToStr(BitsHexDigits(Rep(NumBits(tag, 4) \o NumBits(h, 28), 8)))       \* 64 hex digits
RootHashHex(h) == HashHex(10, h)
FileHashHex(h) == HashHex(15, h)
Tip(seqno, h) == [seqno |-> seqno, root |-> RootHashHex(h), file |-> FileHashHex(h)]

\* ----------------------------------------------------- blocks and their parents
Max2(a, b) == IF a < b THEN b ELSE a
\* a previous-block reference as the library must report it
Parent(wc, shard, tip) == [wc |-> wc, shard |-> BitsToStr(shard), seqno |-> tip.seqno, root |-> tip.root, file |-> tip.file]
NewParents(wc, p, tip)          == <<Parent(wc, Id(p), tip)>>
SplitParents(wc, q, ptip)       == <<Parent(wc, Id(Front(q)), ptip)>>                  \* q = child prefix, Len(q) >= 1
MergeParents(wc, p, ltip, rtip) == <<Parent(wc, Id(p \o <<0>>), ltip), Parent(wc, Id(p \o <<1>>), rtip)>>
MergeSeqno(ltip, rtip) == Max2(ltip.seqno, rtip.seqno) + 1
\* the same by the arithmetic on identifiers only (what a reader of a block header has): s = the block's own shard
ParentsA(wc, s, am, as, prevs) ==
  IF am = 1 THEN <<Parent(wc, ShardChildA(s, TRUE), prevs[1]), Parent(wc, ShardChildA(s, FALSE), prevs[2])>>
  ELSE IF as = 1 THEN <<Parent(wc, ShardParentA(s), prevs[1])>>
  ELSE <<Parent(wc, s, prevs[1])>>

\* --------------------------------------------------------------- the machine
\* sh : the current shards, a function prefix -> tip;  mc : the masterchain tip and the configuration it recorded
VARIABLES sh, mc, fresh, hist, cnt
vars == <<sh, mc, fresh, hist, cnt>>
CONSTANTS Depth, Wc                    \* bound on the prefix length in the model; the workchain (decimal text)

Blk(kind, p, tip, am, as, prevs, parents) ==
  [t |-> "blk", kind |-> kind, wc |-> Wc, pfx |-> BitsToStr(p), pfxbits |-> Len(p), prefix |-> BitsToStr(Ident(p).prefix),
   shard |-> BitsToStr(Id(p)), seqno |-> tip.seqno, root |-> tip.root, file |-> tip.file, am |-> am, as |-> as, ctor |-> am,
   prevs |-> prevs, parents |-> parents]
\* left to right = increasing binary prefix order = increasing identifier
Less(p, q) == LessB(Id(p), Id(q))
Leaves(s) == SortSeq(SetToSeq(DOMAIN s), Less)
LeafRec(s, p) == [pfx |-> BitsToStr(p), shard |-> BitsToStr(Id(p)), seqno |-> s[p].seqno, root |-> s[p].root, file |-> s[p].file]
Config(s) == LET ls == Leaves(s) IN [i \in 1..Len(ls) |-> LeafRec(s, ls[i])]
RestrictTo(f, S) == [x \in S |-> f[x]]
Bump(k) == [cnt EXCEPT ![k] = @ + 1]

Init == /\ sh = (<<>> :> Tip(0, 1))                     \* one shard for the whole workchain, no block yet (zero state)
        /\ mc = [tip |-> Tip(0, 2), cfg |-> <<>>]
        /\ fresh = 3 /\ hist = <<>>
        /\ cnt = [new |-> 0, split |-> 0, merge |-> 0, mcs |-> 0]
NewBlock(p) ==
  /\ p \in DOMAIN sh
  /\ LET t == Tip(sh[p].seqno + 1, fresh) IN
     /\ sh' = [sh EXCEPT ![p] = t]
     /\ hist' = Append(hist, Blk("new", p, t, 0, 0, <<sh[p]>>, NewParents(Wc, p, sh[p])))
  /\ fresh' = fresh + 1 /\ cnt' = Bump("new") /\ UNCHANGED mc
Split(p) ==
  /\ p \in DOMAIN sh /\ Len(p) < Depth
  /\ LET l == p \o <<0>>  r == p \o <<1>>
         tl == Tip(sh[p].seqno + 1, fresh)  tr == Tip(sh[p].seqno + 1, fresh + 1) IN
     /\ sh' = (l :> tl) @@ (r :> tr) @@ RestrictTo(sh, DOMAIN sh \ {p})
     /\ hist' = hist \o <<Blk("split", l, tl, 0, 1, <<sh[p]>>, SplitParents(Wc, l, sh[p])),
                          Blk("split", r, tr, 0, 1, <<sh[p]>>, SplitParents(Wc, r, sh[p]))>>
  /\ fresh' = fresh + 2 /\ cnt' = Bump("split") /\ UNCHANGED mc
Merge(p) ==
  LET l == p \o <<0>>  r == p \o <<1>> IN
  /\ l \in DOMAIN sh /\ r \in DOMAIN sh
  /\ LET t == Tip(MergeSeqno(sh[l], sh[r]), fresh) IN
     /\ sh' = (p :> t) @@ RestrictTo(sh, DOMAIN sh \ {l, r})
     /\ hist' = Append(hist, Blk("merge", p, t, 1, 0, <<sh[l], sh[r]>>, MergeParents(Wc, p, sh[l], sh[r])))
  /\ fresh' = fresh + 1 /\ cnt' = Bump("merge") /\ UNCHANGED mc
McBlock ==
  /\ LET t == Tip(mc.tip.seqno + 1, fresh) IN
     /\ mc' = [tip |-> t, cfg |-> Config(sh)]
     /\ hist' = Append(hist, [t |-> "mc", wc |-> Wc, seqno |-> t.seqno, root |-> t.root, file |-> t.file, leaves |-> Config(sh)])
  /\ fresh' = fresh + 1 /\ cnt' = Bump("mcs") /\ UNCHANGED sh

AllPfx == UNION {[1..n -> {0, 1}] : n \in 0..(Depth + 1)}
Next == \/ \E p \in DOMAIN sh : NewBlock(p) \/ Split(p)
        \/ \E p \in AllPfx : Merge(p)
        \/ McBlock
Spec == Init /\ [][Next]_vars

\* ------------------------------------------------------------- invariants
\* every address (a 64-bit account prefix) lies in exactly one shard: no overlap, no gap.  Checked on the addresses that
\* start with every word of Depth + 1 bits, continued with zeros and with ones (the two ends of each finest interval), ...
Probes == UNION {{a \o ZeroBits(W - Len(a)), a \o OneBits(W - Len(a))} : a \in [1..(Depth + 1) -> {0, 1}]}
Partition == \A a \in Probes : Cardinality({p \in DOMAIN sh : ShardContainsA(Id(p), a)}) = 1
\* ... and by measure: the shard with prefix p covers 2^(64 - Len(p)) addresses; pairwise disjoint + full measure = partition
Measure == /\ FoldSet(LAMBDA p, a : a + 2 ^ (Depth - Len(p)), 0, DOMAIN sh) = 2 ^ Depth
           /\ \A p, q \in DOMAIN sh : p # q => ~Comparable(p, q) /\ ~ShardIntersectsA(Id(p), Id(q))
\* the arithmetic of the node agrees with the prefix view
Arith == \A p \in DOMAIN sh :
  LET s == Id(p) IN
  /\ HasTag(s) /\ PfxOf(s) = p /\ IdentId(Len(p), Ident(p).prefix) = s /\ IdentProper(Len(p), Ident(p).prefix)
  /\ ShardChildA(s, TRUE) = Id(p \o <<0>>) /\ ShardChildA(s, FALSE) = Id(p \o <<1>>)
  /\ ShardParentA(ShardChildA(s, TRUE)) = s /\ ShardParentA(ShardChildA(s, FALSE)) = s
  /\ ShardSiblingA(ShardChildA(s, TRUE)) = ShardChildA(s, FALSE) /\ ShardSiblingA(ShardChildA(s, FALSE)) = ShardChildA(s, TRUE)
  /\ LessB(ShardChildA(s, TRUE), s) /\ LessB(s, ShardChildA(s, FALSE))
  /\ Len(p) > 0 => /\ ShardParentA(s) = Id(Front(p)) /\ ShardIsAncestorA(ShardParentA(s), s) /\ ~ShardIsAncestorA(s, ShardParentA(s))
                   /\ ShardSiblingA(s) = Id(Front(p) \o <<1 - p[Len(p)]>>) /\ ShardIntersectsA(s, ShardParentA(s))
                   /\ ~ShardIntersectsA(s, ShardSiblingA(s))
  /\ \A q \in DOMAIN sh : ShardIsAncestorA(s, Id(q)) = IsPrefix(p, q)
\* every block: seq_no is one more than the largest seq_no among its previous blocks; the constructor of BlkPrevInfo is
\* after_merge; the previous blocks are named with the shards the arithmetic of the header gives
Blocks == {i \in 1..Len(hist) : hist[i].t = "blk"}
BlockRules == \A i \in Blocks :
  LET b == hist[i]  s == StrToBits(b.shard) IN
  /\ Len(b.prevs) = 1 + b.am /\ b.am + b.as <= 1
  /\ b.seqno = 1 + FoldLeft(LAMBDA a, t : Max2(a, t.seqno), 0, b.prevs)
  /\ b.parents = ParentsA(Wc, s, b.am, b.as, b.prevs)
  /\ b.as = 1 => b.pfxbits >= 1
\* chains do not fork: a block is the previous block of one ordinary successor, or of one merge, or of the two halves of a split
NoFork == \A i, j \in Blocks : i < j =>
  \A a \in 1..Len(hist[i].prevs), b \in 1..Len(hist[j].prevs) :
     hist[i].prevs[a].root = hist[j].prevs[b].root =>
        /\ hist[i].as = 1 /\ hist[j].as = 1 /\ j = i + 1 /\ ShardSiblingA(StrToBits(hist[i].shard)) = StrToBits(hist[j].shard)
\* the recorded configuration is a partition too and lists the shards from left to right
McRules == \A i \in 1..Len(mc.cfg) - 1 : LessB(StrToBits(mc.cfg[i].shard), StrToBits(mc.cfg[i + 1].shard))
TypeOK == /\ DOMAIN sh \subseteq AllPfx /\ \A p \in DOMAIN sh : Len(p) <= Depth /\ sh[p].seqno \in Nat
=============================================================================
