-------------------------------- MODULE Addr --------------------------------
(* C17: account addresses and shard identifiers in all their forms.           *)
(*                                                                             *)
(* Written from the TON documentation (docs.ton.org "Addresses", block.tlb,    *)
(* lite_api.tl, the white paper's shard-prefix encoding and the ADNL address   *)
(* text form), not from the Go code:                                           *)
(*   raw            <workchain decimal> ":" <64 hex digits of the 256-bit id>  *)
(*   user-friendly  tag | workchain int8 | 32-byte id | CRC16-XMODEM of the    *)
(*                  first 34 bytes (big-endian), 36 bytes = 48 base64 digits,  *)
(*                  standard or URL alphabet; tag 0x11 bounceable / 0x51 not,  *)
(*                  +0x80 testnet-only                                         *)
(*   TL             liteServer.accountId: workchain int32 little-endian | id   *)
(*   TL-B           addr_std$10 anycast:(Maybe Anycast) workchain_id:int8      *)
(*                  address:bits256;  anycast_info$_ depth:(#<= 30)            *)
(*                  {depth >= 1} rewrite_pfx:(bits depth)                      *)
(*   shard id       uint64 = prefix bits | 1 | 0*                              *)
(*   ADNL           0x2d | 32 bytes | CRC16, base32 (lower case), first digit  *)
(*                  dropped: 55 characters                                     *)
(* A 256-bit id is a sequence of 32 bytes, a workchain is its decimal text,    *)
(* a shard id is a sequence of 64 bits; nothing here needs wide integers.      *)
(*                                                                             *)
(* Decoders return a record [cls, wc, hash] where cls is                       *)
(*   "ok"   a well-formed form of the account (wc, hash): must be accepted     *)
(*   "bad"  48 base64 digits whose checksum does not match (this is what makes *)
(*          every single-character substitution fail), or a TL byte stream     *)
(*          that ends before the 36th byte of an id: must be rejected          *)
(*   "free" a form the statement of C17 does not decide (mixed alphabets,      *)
(*          unknown tag byte with a correct checksum, "+5" / "007" as          *)
(*          workchain): may be rejected; if accepted the result is (wc, hash)  *)
(*   "lax"  not a form of any account according to the documentation (wrong    *)
(*          length, foreign characters, too many hex digits, truncated cell);  *)
(*          C17 only demands rejection of checksum failures, so acceptance is  *)
(*          not a violation - the runner lists it as an observation            *)
(*   "any"  outside the documentation altogether (white space, padding)        *)
EXTENDS Integers, Sequences, SequencesExt, Prim

\* ------------------------------------------------------------ bits, integers
ZeroBits(n)   == [i \in 1..n |-> 0]
FlipBits(b)   == [i \in 1..Len(b) |-> 1 - b[i]]
LeftPad(b, w) == ZeroBits(w - Len(b)) \o b                 \* needs Len(b) <= w
AllZero(b)    == \A i \in 1..Len(b) : b[i] = 0
Pow2(n)       == IF n = 0 THEN 1 ELSE 2 ^ n
NumBits(v, w) == [i \in 1..w |-> (v \div Pow2(w - i)) % 2]   \* small v as w bits, big-endian
BitsNum(b)    == FoldLeft(LAMBDA a, x : 2 * a + x, 0, b)      \* Len(b) <= 30
RECURSIVE MinusOne(_)                                         \* b - 1, b non-zero, fixed width
MinusOne(b) == IF b[Len(b)] = 1 THEN [b EXCEPT ![Len(b)] = 0]
               ELSE MinusOne(SubSeq(b, 1, Len(b) - 1)) \o <<1>>
RECURSIVE PlusOne(_)                                          \* b + 1, fixed width (wraps)
PlusOne(b) == IF Len(b) = 0 THEN <<>>
              ELSE IF b[Len(b)] = 0 THEN [b EXCEPT ![Len(b)] = 1]
              ELSE PlusOne(SubSeq(b, 1, Len(b) - 1)) \o <<0>>

\* decimal text of an integer: "canon" = 0 | -?[1-9][0-9]*, "loose" = sign/zero variants, "bad"
IsDigits(c) == Len(c) >= 1 /\ \A i \in 1..Len(c) : c[i] \in 48..57
DecSyntax(c) ==
  IF IsDigits(c) THEN (IF Len(c) = 1 \/ c[1] # 48 THEN "canon" ELSE "loose")
  ELSE IF Len(c) >= 2 /\ c[1] = 45 /\ IsDigits(Tail(c)) THEN (IF c[2] # 48 THEN "canon" ELSE "loose")
  ELSE IF Len(c) >= 2 /\ c[1] = 43 /\ IsDigits(Tail(c)) THEN "loose"
  ELSE "bad"
DecNeg(dec) == SubStr(dec, 1, 1) = "-"
\* two's complement, w bits:  -2^(w-1) <= v < 2^(w-1)      (dec is syntactically a decimal)
IntFits(dec, w) == LET m == DecToBits(dec) IN
                   IF DecNeg(dec) THEN Len(m) <= w - 1 \/ (Len(m) = w /\ AllZero(Tail(m)))
                   ELSE Len(m) <= w - 1
IntBits(dec, w) == LET m == DecToBits(dec) IN
                   IF DecNeg(dec) /\ Len(m) > 0 THEN FlipBits(MinusOne(LeftPad(m, w))) ELSE LeftPad(m, w)
IntDec(b)       == IF b[1] = 0 THEN BitsToDec(b) ELSE StrCat("-", BitsToDec(PlusOne(FlipBits(b))))

\* ------------------------------------------------------------ CRC-16/XMODEM
\* polynomial x^16 + x^12 + x^5 + 1 (0x1021), initial value 0, most significant bit first,
\* no reflection, no final xor.  Registers are integers 0..65535; xor goes through a nibble table.
Xor4 == [a \in 0..15 |-> [b \in 0..15 |->
           8 * (((a \div 8) + (b \div 8)) % 2) + 4 * (((a \div 4) + (b \div 4)) % 2)
         + 2 * (((a \div 2) + (b \div 2)) % 2) + ((a + b) % 2)]]
Xor8(a, b)  == 16 * Xor4[a \div 16][b \div 16] + Xor4[a % 16][b % 16]
Xor16(a, b) == 256 * Xor8(a \div 256, b \div 256) + Xor8(a % 256, b % 256)
CrcShift(r) == IF r >= 32768 THEN Xor16((r - 32768) * 2, 4129) ELSE r * 2     \* one message bit of 0
RECURSIVE CrcShifts(_, _)
CrcShifts(r, n) == IF n = 0 THEN r ELSE CrcShifts(CrcShift(r), n - 1)
CrcTable == [b \in 0..255 |-> CrcShifts(b * 256, 8)]
CrcByte(r, byte) == Xor16(CrcTable[Xor8(r \div 256, byte)], (r % 256) * 256)
Crc16(bytes) == FoldLeft(CrcByte, 0, bytes)
Crc16BE(bytes) == LET c == Crc16(bytes) IN <<c \div 256, c % 256>>
ASSUME Crc16(StrToCodes("123456789")) = 12739                \* 0x31C3, the catalogue check value

\* --------------------------------------------------- base64 / base32 digits
B64Std == StrToCodes("ABCDEFGHIJKLMNOPQRSTUVWXYZabcdefghijklmnopqrstuvwxyz0123456789+/")
B64Url == StrToCodes("ABCDEFGHIJKLMNOPQRSTUVWXYZabcdefghijklmnopqrstuvwxyz0123456789-_")
B32Low == StrToCodes("abcdefghijklmnopqrstuvwxyz234567")
IndexIn(alpha, c) == IF \E i \in 1..Len(alpha) : alpha[i] = c
                     THEN (CHOOSE i \in 1..Len(alpha) : alpha[i] = c) - 1 ELSE -1
StdVal == [c \in 0..255 |-> IndexIn(B64Std, c)]
UrlVal == [c \in 0..255 |-> IndexIn(B64Url, c)]
B32Val == [c \in 0..255 |-> IndexIn(B32Low, c)]
IsB64(c)  == StdVal[c] >= 0 \/ UrlVal[c] >= 0
B64Val(c) == IF StdVal[c] >= 0 THEN StdVal[c] ELSE UrlVal[c]   \* "+" = "-" = 62, "/" = "_" = 63
\* digits of w bits each <-> bit string
DigitsToBits(d, w) == [i \in 1..(w * Len(d)) |-> (d[((i - 1) \div w) + 1] \div Pow2(w - 1 - ((i - 1) % w))) % 2]
BitsToDigits(b, w) == [k \in 1..(Len(b) \div w) |-> BitsNum(SubSeq(b, w * (k - 1) + 1, w * k))]
\* Len(bytes)*8 must be a multiple of w (36 bytes = 48 x 6 bits, 35 bytes = 56 x 5 bits): no padding exists
Encode(bytes, w, alpha) == LET d == BitsToDigits(BytesToBits(bytes), w) IN [k \in 1..Len(d) |-> alpha[d[k] + 1]]
ASSUME CodesToStr(Encode(StrToCodes("foobar"), 6, B64Std)) = "Zm9vYmFy"       \* RFC 4648 section 10

\* ----------------------------------------------------------- account forms
BadForm == [cls |-> "bad", wc |-> "", hash |-> <<>>]
LaxForm == [cls |-> "lax", wc |-> "", hash |-> <<>>]
AnyForm  == [cls |-> "any", wc |-> "", hash |-> <<>>]
InInt8(wc)  == IntFits(wc, 8)
InInt32(wc) == IntFits(wc, 32)

\* raw
RawText(wc, hash) == StrCat(wc, StrCat(":", BytesToHex(hash)))
IsHexCode(c) == c \in 48..57 \/ c \in 97..102 \/ c \in 65..70
LowerHex(c)  == IF c \in 65..70 THEN c + 32 ELSE c
RawDecode(s) ==
  LET c == StrToCodes(s) IN
  IF ~\E i \in 1..Len(c) : c[i] = 58 THEN LaxForm ELSE
  LET k  == CHOOSE i \in 1..Len(c) : c[i] = 58 /\ \A j \in 1..(i - 1) : c[j] # 58
      w  == SubSeq(c, 1, k - 1)
      h  == SubSeq(c, k + 1, Len(c))
      ws == DecSyntax(w)
  IN IF ws = "bad" \/ Len(h) > 64 \/ \E i \in 1..Len(h) : ~IsHexCode(h[i]) THEN LaxForm
     ELSE IF ~InInt32(CodesToStr(w)) THEN LaxForm
     ELSE [cls  |-> IF ws = "canon" THEN "ok" ELSE "free",
           wc   |-> IntDec(IntBits(CodesToStr(w), 32)),
           \* fewer than 64 hex digits: zero-filled on the left
           hash |-> HexToBytes(CodesToStr([i \in 1..(64 - Len(h)) |-> 48] \o [i \in 1..Len(h) |-> LowerHex(h[i])]))]

\* user-friendly
Tag(bounce, testnet) == (IF bounce THEN 17 ELSE 81) + (IF testnet THEN 128 ELSE 0)
FriendlyBytes(wc, hash, bounce, testnet) ==
  LET body == <<Tag(bounce, testnet)>> \o BitsToBytes(IntBits(wc, 8)) \o hash IN body \o Crc16BE(body)
Friendly(wc, hash, bounce, testnet, alpha) == CodesToStr(Encode(FriendlyBytes(wc, hash, bounce, testnet), 6, alpha))
FriendlyDecode(s) ==
  LET c == StrToCodes(s) IN
  IF \E i \in 1..Len(c) : c[i] \in {9, 10, 13, 32, 61} THEN AnyForm
  ELSE IF Len(c) # 48 \/ \E i \in 1..Len(c) : ~IsB64(c[i]) THEN LaxForm
  ELSE LET by    == BitsToBytes(DigitsToBits([i \in 1..48 |-> B64Val(c[i])], 6))
           mixed == (\E i \in 1..48 : c[i] \in {43, 47}) /\ (\E i \in 1..48 : c[i] \in {45, 95})
       IN IF Crc16BE(SubSeq(by, 1, 34)) # SubSeq(by, 35, 36) THEN BadForm
          ELSE [cls  |-> IF by[1] \in {17, 81, 145, 209} /\ ~mixed THEN "ok" ELSE "free",
                wc   |-> IntDec(NumBits(by[2], 8)),
                hash |-> SubSeq(by, 3, 34)]

\* what a parser that takes either text form must do.  A checksum failure stays a failure: such a
\* text has no ":" and therefore is no raw form either.
Either(r, f) ==
  IF r.cls = "ok" THEN r ELSE IF f.cls = "ok" THEN f
  ELSE IF f.cls = "bad" THEN BadForm
  ELSE IF r.cls = "free" THEN r ELSE IF f.cls = "free" THEN f
  ELSE IF r.cls = "any" \/ f.cls = "any" THEN AnyForm ELSE LaxForm
ParseAny(s) == Either(RawDecode(s), FriendlyDecode(s))

\* JSON: a string holding the raw form; the decoder takes a string holding either text form
JsonText(wc, hash) == StrCat("\"", StrCat(RawText(wc, hash), "\""))
JsonDecode(s) ==
  LET c == StrToCodes(s) IN
  IF Len(c) >= 2 /\ c[1] = 34 /\ c[Len(c)] = 34 /\ \A i \in 2..(Len(c) - 1) : c[i] >= 32 /\ c[i] \notin {34, 92} /\ c[i] < 127
  THEN ParseAny(CodesToStr(SubSeq(c, 2, Len(c) - 1))) ELSE AnyForm

\* TL.  The bytes arrive through a stream (io.Reader): a delivery is any split of the byte sequence into
\* chunks, one per read call, the last one possibly announced together with end-of-stream.  What is
\* decoded depends on the byte sequence only, never on the delivery: the k-th id of a stream is decoded
\* from bytes 36(k-1)+1 .. 36k, and a stream that ends inside (or before) an id has no such id - a
\* decoder that returns a value for it has invented an account, so truncation must be an error.
TlBytes(wc, hash) == Reverse(BitsToBytes(IntBits(wc, 32))) \o hash
TlDecode(bytes) == IF Len(bytes) < 36 THEN BadForm
                   ELSE [cls |-> "ok", wc |-> IntDec(BytesToBits(Reverse(SubSeq(bytes, 1, 4)))), hash |-> SubSeq(bytes, 5, 36)]
TlStreamDecode(bytes, n) ==
  [k \in 1..n |-> TlDecode(IF 36 * (k - 1) >= Len(bytes) THEN <<>> ELSE SubSeq(bytes, 36 * (k - 1) + 1, Len(bytes)))]
\* the chunks of a delivery cut after the given positions (ascending, inside 1..Len-1); their concatenation is bytes
Chunks(bytes, cuts) ==
  LET b == <<0>> \o cuts \o <<Len(bytes)>> IN [i \in 1..(Len(b) - 1) |-> SubSeq(bytes, b[i] + 1, b[i + 1])]

\* TL-B addr_std; an anycast is [d |-> depth, p |-> rewrite_pfx as d bits], d = 0 for "nothing"
NoAnycast == [d |-> 0, p |-> <<>>]
TlbBits(any, wc, hash) ==
  <<1, 0>> \o (IF any.d = 0 THEN <<0>> ELSE <<1>> \o NumBits(any.d, 5) \o any.p) \o IntBits(wc, 8) \o BytesToBits(hash)
\* the account an addr_std denotes: the first depth bits of the address are replaced by rewrite_pfx
Rewrite(hash, any) == BitsToBytes(any.p \o SubSeq(BytesToBits(hash), any.d + 1, 256))
TlbNone == [cls |-> "lax", wc |-> "", hash |-> <<>>, d |-> 0, p |-> <<>>, wc8 |-> "", addr |-> <<>>]
TlbDecode(b) ==
  IF Len(b) < 3 THEN TlbNone
  ELSE IF SubSeq(b, 1, 2) # <<1, 0>> THEN [TlbNone EXCEPT !.cls = "any"]      \* not addr_std
  ELSE LET has == b[3] = 1
           d   == IF has /\ Len(b) >= 8 THEN BitsNum(SubSeq(b, 4, 8)) ELSE 0
           o   == IF has THEN 8 + d ELSE 3                                     \* bits before workchain_id
       IN IF has /\ Len(b) < 8 THEN TlbNone
          ELSE IF has /\ d \notin 1..30 THEN [TlbNone EXCEPT !.cls = "any"]   \* violates #<= 30 / depth >= 1: not quantified over
          ELSE IF Len(b) < o + 264 THEN TlbNone
          ELSE LET any  == [d |-> d, p |-> SubSeq(b, 9, 8 + d)]
                   wc   == IntDec(SubSeq(b, o + 1, o + 8))
                   addr == BitsToBytes(SubSeq(b, o + 9, o + 264))
               IN [cls |-> "ok", wc |-> wc, hash |-> Rewrite(addr, any), d |-> d, p |-> any.p, wc8 |-> wc, addr |-> addr]

\* ------------------------------------------------------------------- shards
\* a shard id is 64 bits: the shard prefix (0..63 bits), a 1, zeros
ShardBits(pfx)   == pfx \o <<1>> \o ZeroBits(63 - Len(pfx))
ShardValid(id)   == ~AllZero(id)
LastOne(id)      == CHOOSE i \in 1..64 : id[i] = 1 /\ \A j \in (i + 1)..64 : id[j] = 0
ShardPrefix(id)  == SubSeq(id, 1, LastOne(id) - 1)
Matches(id, hash)  == IsPrefix(ShardPrefix(id), BytesToBits(hash))
\* two shards of one workchain have an account in common iff one prefix is a prefix of the other
Intersects(a, b)   == IsPrefix(ShardPrefix(a), ShardPrefix(b)) \/ IsPrefix(ShardPrefix(b), ShardPrefix(a))
Child(id, left)    == ShardBits(ShardPrefix(id) \o <<IF left THEN 0 ELSE 1>>)   \* prefix shorter than 63
Parent(id)         == ShardBits(Front(ShardPrefix(id)))                          \* prefix non-empty
\* shard_ident$00 shard_pfx_bits:(#<= 60) workchain_id:int32 shard_prefix:uint64 -> shard id
IdentShard(n, prefix64) == ShardBits(SubSeq(prefix64, 1, n))

\* --------------------------------------------------------------------- ADNL
AdnlBytes(addr) == LET body == <<45>> \o addr IN body \o Crc16BE(body)
AdnlText(addr)  == CodesToStr(Tail(Encode(AdnlBytes(addr), 5, B32Low)))         \* 56 digits, the leading "f" dropped
AdnlDecode(s) ==
  LET c == StrToCodes(s) IN
  IF Len(c) # 55 \/ \E i \in 1..Len(c) : B32Val[c[i]] < 0 THEN [cls |-> "lax", addr |-> <<>>]
  ELSE LET by == BitsToBytes(DigitsToBits(<<5>> \o [i \in 1..55 |-> B32Val[c[i]]], 5)) IN
       IF by[1] # 45 \/ Crc16BE(SubSeq(by, 1, 33)) # SubSeq(by, 34, 35) THEN [cls |-> "bad", addr |-> <<>>]
       ELSE [cls |-> "ok", addr |-> SubSeq(by, 2, 33)]
=============================================================================
