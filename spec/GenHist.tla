------------------------------ MODULE GenHist ------------------------------
(* C09, "generating twice from the same schema gives identical output", read   *)
(* as the property says it: the code a schema compiler emits is a FUNCTION of   *)
(* its input -- the schema and the options the generator was constructed with.  *)
(* Nothing that happened earlier in the process (other generators, other        *)
(* options, other schemas) may show in it.                                       *)
(*                                                                               *)
(* One process is a state machine: its state is the history of calls made so    *)
(* far; the only action is Gen(c, out), a generator constructed for call c      *)
(* producing output out.  Pure is the function call -> output that generation   *)
(* denotes; the action is enabled for exactly one output whatever the history.  *)
(*   a call is the string "<compiler>|<schema>|<options>"                        *)
(*   the output of a call is EVERYTHING the generator hands back through its     *)
(*   exported results (code text, collected definitions in the order returned,   *)
(*   error) -- the runner hashes all of it into `out`                             *)
EXTENDS Integers, Sequences

HInit(hist) == hist = <<>>
\* the step from hist to hist2 by call c with output out is allowed
HGen(Pure, hist, hist2, c, out) == c \in DOMAIN Pure /\ out = Pure[c] /\ hist2 = Append(hist, c)
\* the histories of at most n calls over a set of calls (what the generator spec enumerates)
RECURSIVE Histories(_, _)
Histories(calls, n) == IF n = 0 THEN {<<>>} ELSE LET s == Histories(calls, n - 1) IN s \cup {Append(h, c) : h \in s, c \in calls}
=============================================================================
