----------------------------- MODULE PoolSelect -----------------------------
(* C13, first clause: which connection a refresh (updateBest) may choose.      *)
(* Written from the property statement, not from the Go code:                  *)
(*   "Whenever at least one pooled connection is alive and at most one         *)
(*    masterchain block behind the newest head known to the pool, the          *)
(*    connection chosen as best after a refresh is such a connection: the one  *)
(*    with the lowest round-trip time under the best-ping strategy, the first  *)
(*    one in configuration order under the first-working strategy; otherwise   *)
(*    the previous choice is kept."                                            *)
(* conns is a function 1..N -> [alive, seqno, rtt]; configuration order is the *)
(* index order.  Seqnos are natural numbers (no wrap-around: 2^32-1 is one     *)
(* ahead of 2^32-2 and not behind anything).  Round-trip ties are left free.   *)
EXTENDS Naturals, FiniteSets

\* @type: (Int -> { alive: Bool, seqno: Int, rtt: Int }) => Int;
Newest(conns)   == CHOOSE m \in {conns[i].seqno : i \in DOMAIN conns} :
                      \A i \in DOMAIN conns : conns[i].seqno <= m
\* @type: (Int -> { alive: Bool, seqno: Int, rtt: Int }, Int) => Bool;
Good(conns, i)  == conns[i].alive /\ conns[i].seqno + 1 >= Newest(conns)
\* @type: (Int -> { alive: Bool, seqno: Int, rtt: Int }) => Set(Int);
GoodSet(conns)  == {i \in DOMAIN conns : Good(conns, i)}
\* @type: (Int -> { alive: Bool, seqno: Int, rtt: Int }) => Set(Int);
BestPing(conns) == {i \in GoodSet(conns) : \A j \in GoodSet(conns) : conns[i].rtt <= conns[j].rtt}
\* @type: (Int -> { alive: Bool, seqno: Int, rtt: Int }) => Set(Int);
FirstWorking(conns) == {i \in GoodSet(conns) : \A j \in GoodSet(conns) : i <= j}

Strategies == {"best-ping", "first-working"}

\* the set of values the best connection may have after a refresh
\* @type: (Str, Int -> { alive: Bool, seqno: Int, rtt: Int }, Int) => Set(Int);
Choices(strategy, conns, prev) ==
  IF DOMAIN conns = {} \/ GoodSet(conns) = {} THEN {prev}
  ELSE IF strategy = "best-ping" THEN BestPing(conns) ELSE FirstWorking(conns)

\* the refresh as an action on (best, best')
\* @type: (Str, Int -> { alive: Bool, seqno: Int, rtt: Int }, Int, Int) => Bool;
UpdateBest(strategy, conns, best, bestNext) == bestNext \in Choices(strategy, conns, best)
=============================================================================
