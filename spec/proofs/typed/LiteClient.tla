----------------------------- MODULE LiteClient -----------------------------
(* The concurrent lite client (liteclient/client.go, connection.go,            *)
(* encrypted_conn.go; the path without authentication), one action per         *)
(* critical section / channel operation, against an adversarial but conforming *)
(* lite server.                                                                *)
(*                                                                             *)
(* Client.Request: Register (queries[id] := chan(1), under queriesMutex),      *)
(* PickConn (under connMutex), Send (one critical section of Connection.mu:    *)
(* SendNotConnected | SendOk | SendFail, the last one spawns a reconnect       *)
(* goroutine), then the select: CallerRecv | CallerTimeout, then the deferred  *)
(* Unregister.                                                                 *)
(*                                                                             *)
(* Every (re)connection of connection k is a *generation* g = 1, 2, ... with   *)
(* its own socket and its own two goroutines: the packet goroutine P           *)
(* (handleIncomingPackets: parse, forward on an unbuffered channel, exit and   *)
(* close the channel on any read error) and the connection reader R            *)
(* (Connection.reader: pong bookkeeping | hand-off on the unbuffered           *)
(* Connection.resp | exit when P's channel is closed | after 10 s of silence   *)
(* call reconnect() itself and exit).  Generations overlap: the goroutines of  *)
(* an old generation may still run when the next one is installed.             *)
(* One client reader per connection (Client.reader) takes packets from         *)
(* Connection.resp: ClientReaderLookup (lookup + delete under queriesMutex),   *)
(* ClientReaderDeliver (send on the call's buffered reply channel).            *)
(* reconnect(): under mu, return if status = Connecting, else status :=        *)
(* Connecting and close the socket; then dial until it works (DialOk /         *)
(* DialFail) and install the new generation under mu (SetupDone).              *)
(* The ping goroutine sends through the same Send every 3 s (PingTick).        *)
(*                                                                             *)
(* What the code does when the server closes a connection (modelled as it is): *)
(* P gets EOF, closes its channel and exits, R exits; status stays Connected   *)
(* and nothing is scheduled.  The next write on the socket may still succeed   *)
(* (TCP accepts it, the peer answers RST); the write after that fails, and     *)
(* only that failure spawns reconnect().  The ping is therefore what bounds    *)
(* the recovery (two ping periods).                                            *)
(*                                                                             *)
(* The server: SrvRecv, SrvAnswer, SrvDup, SrvUnknown, SrvPong, SrvOther,      *)
(* SrvDrop; a connection attempt it closes during the handshake is DialFail.   *)
EXTENDS Naturals, Sequences, FiniteSets, TLC

CONSTANTS
  Calls,        \* the calls (= their query ids: every call draws a fresh 256-bit id)
  NConns,       \* connections of the client (1 + extra workers)
  Unknown,      \* a query id that no call uses
  MaxDrops,     \* bound on closes by the server (SrvDrop and closes during a handshake)
  MaxNoise,     \* bound on unsolicited packets (pong, unknown id, duplicate, other)
  MaxSilence,   \* bound on expiries of the 10 s silence timer
  StrictRst     \* TRUE: after the server's close at most one write is swallowed before writes fail

Conns == 1..NConns

VARIABLES
  pc,        \* pc[c]: "start" | "reg" | "picked" | "wait" | "unreg" | "done"
  conn,      \* conn[c]: connection picked by call c (0 before)
  ret,       \* ret[c]: <<"none">> | <<"answer", v>> | <<"timeout">> | <<"senderr">> | <<"notconnected">>
  queries,   \* Client.queries: registered ids
  chans,     \* chans[c]: contents of c's reply channel (capacity 1)
  status,    \* status[k]: "Connected" | "Connecting"
  gen,       \* gen[k]: the generation installed in Connection.econn
  link,      \* link[k]: sequence of generation records (see NewLink)
  clr,       \* clr[k]: client reader of connection k: [st |-> "idle"|"got"|"found", pkt |-> packet in hand]
  rcq,       \* rcq[k]: reconnect goroutines spawned by failed sends, not yet through the status check
  dial,      \* dial[k]: who is in reconnect()'s dial loop: <<"none">> | <<"rc">> (spawned goroutine) | <<"r", g>> (reader of generation g)
  produced,  \* produced[i]: payloads the server has sent as the answer to id i
  drops, noise, sil

vars == <<pc, conn, ret, queries, chans, status, gen, link, clr, rcq, dial, produced, drops, noise, sil>>
callVars == <<pc, conn, ret, queries, chans>>

NoPkt == [t |-> "none", id |-> Unknown, v |-> Unknown]
\* a generation: the socket and its two goroutines
\*   in   server -> client packets written and not yet parsed by P
\*   fin  "open" | "srv" (closed by the server: EOF follows `in`) | "cli" (closed by econn.close())
\*   out  queries written by the client, not yet read by the server;  pend  read, not yet answered
\*   rst  a write after the server's close has been swallowed
\*   p    "new" (socket exists, not installed) | "run" | "stuck" (blocked forever forwarding a packet nobody will take) | "dead"
\*   r    "new" | "run" | "offer" (blocked on Connection.resp with rh) | "rc" (silence: about to call reconnect) | "dial" | "dead"
NewLink == [in |-> <<>>, fin |-> "open", out |-> {}, pend |-> {}, rst |-> FALSE, p |-> "new", r |-> "new", rh |-> NoPkt]
Gens(k) == 1..Len(link[k])
L(k, g) == link[k][g]
Cur(k)  == link[k][gen[k]]
SetL(k, g, rec) == link' = [link EXCEPT ![k][g] = rec]

Init ==
  /\ pc = [c \in Calls |-> "start"] /\ conn = [c \in Calls |-> 0] /\ ret = [c \in Calls |-> <<"none">>]
  /\ queries = {} /\ chans = [c \in Calls |-> <<>>]
  /\ status = [k \in Conns |-> "Connected"] /\ gen = [k \in Conns |-> 1]
  /\ link = [k \in Conns |-> <<[NewLink EXCEPT !.p = "run", !.r = "run"]>>]
  /\ clr = [k \in Conns |-> [st |-> "idle", pkt |-> NoPkt]]
  /\ rcq = [k \in Conns |-> 0] /\ dial = [k \in Conns |-> <<"none">>]
  /\ produced = [i \in Calls |-> {}]
  /\ drops = 0 /\ noise = 0 /\ sil = 0

Answered == {i \in Calls : produced[i] # {}}

(* ------------------------------ Client.Request ------------------------------ *)
Register(c) ==
  /\ pc[c] = "start"
  /\ queries' = queries \cup {c} /\ pc' = [pc EXCEPT ![c] = "reg"]
  /\ UNCHANGED <<conn, ret, chans, status, gen, link, clr, rcq, dial, produced, drops, noise, sil>>

\* which connection is picked is the client's business (the code goes round-robin); the property holds for any choice
PickConn(c, k) ==
  /\ pc[c] = "reg"
  /\ conn' = [conn EXCEPT ![c] = k] /\ pc' = [pc EXCEPT ![c] = "picked"]
  /\ UNCHANGED <<ret, queries, chans, status, gen, link, clr, rcq, dial, produced, drops, noise, sil>>

\* Connection.Send, one critical section of mu
SendNotConnected(c) ==
  /\ pc[c] = "picked" /\ status[conn[c]] # "Connected"
  /\ ret' = [ret EXCEPT ![c] = <<"notconnected">>] /\ pc' = [pc EXCEPT ![c] = "unreg"]
  /\ UNCHANGED <<conn, queries, chans, status, gen, link, clr, rcq, dial, produced, drops, noise, sil>>

\* the write succeeds: the query is on its way, or - after the server's close - it is swallowed
WriteOk(k) == LET l == Cur(k) IN
  CASE l.fin = "open" -> TRUE
    [] l.fin = "srv"  -> ~(StrictRst /\ l.rst)
    [] OTHER          -> FALSE
SendOk(c) ==
  LET k == conn[c]  l == Cur(k) IN
  /\ pc[c] = "picked" /\ status[k] = "Connected" /\ WriteOk(k)
  /\ SetL(k, gen[k], IF l.fin = "open" THEN [l EXCEPT !.out = @ \cup {c}] ELSE [l EXCEPT !.rst = TRUE])
  /\ pc' = [pc EXCEPT ![c] = "wait"]
  /\ UNCHANGED <<conn, ret, queries, chans, status, gen, clr, rcq, dial, produced, drops, noise, sil>>

\* the write fails (possible only after the server's close): error to the caller, `go c.reconnect()`
SendFail(c) ==
  LET k == conn[c] IN
  /\ pc[c] = "picked" /\ status[k] = "Connected" /\ Cur(k).fin = "srv"
  /\ ret' = [ret EXCEPT ![c] = <<"senderr">>] /\ pc' = [pc EXCEPT ![c] = "unreg"]
  /\ rcq' = [rcq EXCEPT ![k] = @ + 1]
  /\ UNCHANGED <<conn, queries, chans, status, gen, link, clr, dial, produced, drops, noise, sil>>

CallerRecv(c) ==
  /\ pc[c] = "wait" /\ chans[c] # <<>>
  /\ ret' = [ret EXCEPT ![c] = <<"answer", Head(chans[c])>>] /\ chans' = [chans EXCEPT ![c] = Tail(@)]
  /\ pc' = [pc EXCEPT ![c] = "unreg"]
  /\ UNCHANGED <<conn, queries, status, gen, link, clr, rcq, dial, produced, drops, noise, sil>>

CallerTimeout(c) ==
  /\ pc[c] = "wait"
  /\ ret' = [ret EXCEPT ![c] = <<"timeout">>] /\ pc' = [pc EXCEPT ![c] = "unreg"]
  /\ UNCHANGED <<conn, queries, chans, status, gen, link, clr, rcq, dial, produced, drops, noise, sil>>

Unregister(c) ==
  /\ pc[c] = "unreg"
  /\ queries' = queries \ {c} /\ pc' = [pc EXCEPT ![c] = "done"]
  /\ UNCHANGED <<conn, ret, chans, status, gen, link, clr, rcq, dial, produced, drops, noise, sil>>

(* -------------------------------- the server -------------------------------- *)
SrvRecv(k, g, i) ==
  LET l == L(k, g) IN
  /\ l.fin = "open" /\ i \in l.out
  /\ SetL(k, g, [l EXCEPT !.out = @ \ {i}, !.pend = @ \cup {i}])
  /\ UNCHANGED <<callVars, status, gen, clr, rcq, dial, produced, drops, noise, sil>>

Push(k, g, p) == SetL(k, g, [L(k, g) EXCEPT !.in = Append(@, p)])

SrvAnswer(k, g, i, v) ==
  LET l == L(k, g) IN
  /\ l.fin = "open" /\ i \in l.pend
  /\ SetL(k, g, [l EXCEPT !.in = Append(@, [t |-> "ans", id |-> i, v |-> v]), !.pend = @ \ {i}])
  /\ produced' = [produced EXCEPT ![i] = @ \cup {v}]
  /\ UNCHANGED <<callVars, status, gen, clr, rcq, dial, drops, noise, sil>>

\* the answer to i once more, on any open socket
SrvDup(k, g, i, v) ==
  /\ L(k, g).fin = "open" /\ noise < MaxNoise /\ v \in produced[i]
  /\ Push(k, g, [t |-> "ans", id |-> i, v |-> v]) /\ noise' = noise + 1
  /\ UNCHANGED <<callVars, status, gen, clr, rcq, dial, produced, drops, sil>>

\* t = "ans" with an id nobody asked about | "pong" | "other" (any other constructor)
SrvNoise(k, g, t, v) ==
  /\ L(k, g).fin = "open" /\ noise < MaxNoise /\ t \in {"ans", "pong", "other"}
  /\ Push(k, g, [t |-> t, id |-> Unknown, v |-> v]) /\ noise' = noise + 1
  /\ UNCHANGED <<callVars, status, gen, clr, rcq, dial, produced, drops, sil>>
SrvUnknown(k, g, v) == SrvNoise(k, g, "ans", v)
SrvPong(k, g)       == SrvNoise(k, g, "pong", Unknown)
SrvOther(k, g, v)   == SrvNoise(k, g, "other", v)

\* the server closes the socket: what it has written is still delivered, then EOF; unread queries are lost
SrvDrop(k, g) ==
  LET l == L(k, g) IN
  /\ l.fin = "open" /\ drops < MaxDrops
  /\ SetL(k, g, [l EXCEPT !.fin = "srv", !.out = {}, !.pend = {}]) /\ drops' = drops + 1
  /\ UNCHANGED <<callVars, status, gen, clr, rcq, dial, produced, noise, sil>>

(* ----------------- generation g of connection k: P and R ------------------- *)
\* P parses the next packet and R takes it from P's unbuffered channel (one rendezvous):
\* pong -> bookkeeping only; anything else -> R blocks offering it on Connection.resp
ConnReaderRecv(k, g) ==
  LET l == L(k, g) IN
  /\ l.p = "run" /\ l.r = "run" /\ l.in # <<>>
  /\ LET p == Head(l.in) IN
       SetL(k, g, IF p.t = "pong" THEN [l EXCEPT !.in = Tail(@)]
                  ELSE [l EXCEPT !.in = Tail(@), !.r = "offer", !.rh = p])
  /\ UNCHANGED <<callVars, status, gen, clr, rcq, dial, produced, drops, noise, sil>>

\* P hits the end of the stream (either side closed): close(ch), exit
PktExit(k, g) ==
  LET l == L(k, g) IN
  /\ l.p = "run" /\ l.in = <<>> /\ l.fin # "open"
  /\ SetL(k, g, [l EXCEPT !.p = "dead"])
  /\ UNCHANGED <<callVars, status, gen, clr, rcq, dial, produced, drops, noise, sil>>

\* R finds P's channel closed and exits. Nothing else happens: status is not touched, no reconnect is scheduled.
ConnReaderEOF(k, g) ==
  LET l == L(k, g) IN
  /\ l.r = "run" /\ l.p = "dead"
  /\ SetL(k, g, [l EXCEPT !.r = "dead"])
  /\ UNCHANGED <<callVars, status, gen, clr, rcq, dial, produced, drops, noise, sil>>

\* 10 s without a packet: R leaves its select for good and calls reconnect()
ConnReaderSilence(k, g) ==
  LET l == L(k, g) IN
  /\ l.r = "run" /\ sil < MaxSilence
  /\ SetL(k, g, [l EXCEPT !.r = "rc"]) /\ sil' = sil + 1
  /\ UNCHANGED <<callVars, status, gen, clr, rcq, dial, produced, drops, noise>>

\* P has parsed a packet but its R will never receive again: P stays blocked on `ch <- p` for ever
PktStuck(k, g) ==
  LET l == L(k, g) IN
  /\ l.p = "run" /\ l.r \in {"rc", "dial", "dead"} /\ l.in # <<>>
  /\ SetL(k, g, [l EXCEPT !.p = "stuck", !.in = Tail(@)])
  /\ UNCHANGED <<callVars, status, gen, clr, rcq, dial, produced, drops, noise, sil>>

(* ------------------------ Client.reader of connection k ---------------------- *)
\* the rendezvous on Connection.resp (shared by all generations of k)
HandOff(k, g) ==
  LET l == L(k, g) IN
  /\ l.r = "offer" /\ clr[k].st = "idle"
  /\ clr' = [clr EXCEPT ![k] = [st |-> "got", pkt |-> l.rh]]
  /\ SetL(k, g, [l EXCEPT !.r = "run", !.rh = NoPkt])
  /\ UNCHANGED <<callVars, status, gen, rcq, dial, produced, drops, noise, sil>>

\* not an answer: dropped.  An answer: lookup and delete under queriesMutex
ClientReaderLookup(k) ==
  /\ clr[k].st = "got"
  /\ LET p == clr[k].pkt IN
       IF p.t = "ans" /\ p.id \in queries
         THEN /\ queries' = queries \ {p.id} /\ clr' = [clr EXCEPT ![k].st = "found"]
         ELSE /\ UNCHANGED queries /\ clr' = [clr EXCEPT ![k] = [st |-> "idle", pkt |-> NoPkt]]
  /\ UNCHANGED <<pc, conn, ret, chans, status, gen, link, rcq, dial, produced, drops, noise, sil>>

\* resp <- data on the buffered(1) reply channel; the reader would block here if the channel were full
ClientReaderDeliver(k) ==
  /\ clr[k].st = "found"
  /\ LET p == clr[k].pkt IN
       /\ Len(chans[p.id]) < 1
       /\ chans' = [chans EXCEPT ![p.id] = Append(@, p.v)]
  /\ clr' = [clr EXCEPT ![k] = [st |-> "idle", pkt |-> NoPkt]]
  /\ UNCHANGED <<pc, conn, ret, queries, status, gen, link, rcq, dial, produced, drops, noise, sil>>

(* ------------------------------ ping, reconnect ------------------------------ *)
\* the ping goroutine's Send; the period (3 s) is long against everything else, so it does not pile up reconnects
PingTick(k) ==
  /\ status[k] = "Connected" /\ Cur(k).fin = "srv" /\ rcq[k] = 0
  /\ \/ /\ WriteOk(k) /\ ~Cur(k).rst /\ SetL(k, gen[k], [Cur(k) EXCEPT !.rst = TRUE]) /\ UNCHANGED rcq
     \/ /\ rcq' = [rcq EXCEPT ![k] = @ + 1] /\ UNCHANGED link
  /\ UNCHANGED <<callVars, status, gen, clr, dial, produced, drops, noise, sil>>

\* econn.close(): queries in flight are lost; P still forwards what it had already read into its buffer (a prefix)
Closed(l, n) == [l EXCEPT !.fin = "cli", !.out = {}, !.pend = {}, !.in = SubSeq(l.in, 1, n)]

\* reconnect() in a goroutine spawned by a failed Send: the critical section
RcBegin(k) ==
  /\ rcq[k] > 0 /\ rcq' = [rcq EXCEPT ![k] = @ - 1]
  /\ IF status[k] = "Connecting" THEN UNCHANGED <<status, link, dial>>
     ELSE /\ status' = [status EXCEPT ![k] = "Connecting"] /\ dial' = [dial EXCEPT ![k] = <<"rc">>]
          /\ \E n \in 0..Len(Cur(k).in) : SetL(k, gen[k], Closed(Cur(k), n))
  /\ UNCHANGED <<callVars, gen, clr, produced, drops, noise, sil>>

\* reconnect() called by the reader of generation g after the silence timer
ReaderRcBegin(k, g) ==
  LET l == L(k, g) IN
  /\ l.r = "rc"
  /\ IF status[k] = "Connecting" THEN SetL(k, g, [l EXCEPT !.r = "dead"]) /\ UNCHANGED <<status, dial>>
     ELSE /\ status' = [status EXCEPT ![k] = "Connecting"] /\ dial' = [dial EXCEPT ![k] = <<"r", g>>]
          /\ \E n \in 0..Len(Cur(k).in) :
               link' = [link EXCEPT ![k] = [h \in Gens(k) |->
                          LET x == IF h = gen[k] THEN Closed(link[k][h], n) ELSE link[k][h] IN
                          IF h = g THEN [x EXCEPT !.r = "dial"] ELSE x]]
  /\ UNCHANGED <<callVars, gen, clr, rcq, produced, drops, noise, sil>>

Dialing(k) == dial[k] # <<"none">>
\* dial + handshake + the server's empty acknowledgement: a new socket exists, not yet installed
DialOk(k) ==
  /\ Dialing(k) /\ Len(link[k]) = gen[k]
  /\ link' = [link EXCEPT ![k] = Append(@, NewLink)]
  /\ UNCHANGED <<callVars, status, gen, clr, rcq, dial, produced, drops, noise, sil>>
\* the server closes the attempt during the handshake: the client sleeps 1 s and dials again
DialFail(k) ==
  /\ Dialing(k) /\ Len(link[k]) = gen[k] /\ drops < MaxDrops
  /\ drops' = drops + 1
  /\ UNCHANGED <<callVars, status, gen, link, clr, rcq, dial, produced, noise, sil>>
\* setupEncryptedConnection's critical section: install the socket, start P and R, status := Connected
SetupDone(k) ==
  /\ Dialing(k) /\ Len(link[k]) = gen[k] + 1
  /\ gen' = [gen EXCEPT ![k] = @ + 1] /\ status' = [status EXCEPT ![k] = "Connected"]
  /\ dial' = [dial EXCEPT ![k] = <<"none">>]
  /\ link' = [link EXCEPT ![k] = [h \in Gens(k) |->
                IF h = gen[k] + 1 THEN [link[k][h] EXCEPT !.p = IF @ = "new" THEN "run" ELSE @, !.r = IF @ = "new" THEN "run" ELSE @]
                ELSE IF dial[k] = <<"r", h>> THEN [link[k][h] EXCEPT !.r = "dead"] ELSE link[k][h]]]
  /\ UNCHANGED <<callVars, clr, rcq, produced, drops, noise, sil>>

(* ----------------------------------- Next ----------------------------------- *)
AllDone == \A c \in Calls : pc[c] = "done"
Done == AllDone /\ UNCHANGED vars

CallerStep(c) == \/ Register(c) \/ (\E k \in Conns : PickConn(c, k)) \/ SendNotConnected(c) \/ SendOk(c) \/ SendFail(c)
                 \/ CallerRecv(c) \/ CallerTimeout(c) \/ Unregister(c)
ServerStep(k, g) == \/ \E i \in Calls : SrvRecv(k, g, i) \/ SrvAnswer(k, g, i, i) \/ SrvDup(k, g, i, i)
                    \/ SrvUnknown(k, g, Unknown) \/ SrvPong(k, g) \/ SrvOther(k, g, Unknown) \/ SrvDrop(k, g)
ReaderStep(k, g) == ConnReaderRecv(k, g) \/ PktExit(k, g) \/ ConnReaderEOF(k, g) \/ ConnReaderSilence(k, g)
                    \/ PktStuck(k, g) \/ HandOff(k, g) \/ ReaderRcBegin(k, g)
ConnStep(k) == ClientReaderLookup(k) \/ ClientReaderDeliver(k) \/ PingTick(k) \/ RcBegin(k) \/ DialOk(k) \/ DialFail(k) \/ SetupDone(k)

Next == \/ \E c \in Calls : CallerStep(c)
        \/ \E k \in Conns : ConnStep(k) \/ \E g \in Gens(k) : ServerStep(k, g) \/ ReaderStep(k, g)
        \/ Done
Spec == Init /\ [][Next]_vars

\* liveness: every goroutine keeps running; the server eventually stops interfering (its bounds)
Fair == /\ \A c \in Calls : WF_vars(CallerStep(c))
        /\ \A k \in Conns : /\ WF_vars(ClientReaderLookup(k)) /\ WF_vars(ClientReaderDeliver(k)) /\ WF_vars(PingTick(k))
                            /\ WF_vars(RcBegin(k)) /\ WF_vars(DialOk(k)) /\ WF_vars(SetupDone(k))
                            /\ \A g \in 1..(MaxDrops + MaxSilence + 1) :
                                  /\ WF_vars(g \in Gens(k) /\ ConnReaderRecv(k, g)) /\ WF_vars(g \in Gens(k) /\ PktExit(k, g))
                                  /\ WF_vars(g \in Gens(k) /\ ConnReaderEOF(k, g)) /\ WF_vars(g \in Gens(k) /\ HandOff(k, g))
                                  /\ WF_vars(g \in Gens(k) /\ ReaderRcBegin(k, g))
FairSpec == Spec /\ Fair

(* -------------------------------- properties -------------------------------- *)
Pkts == [t : {"ans", "pong", "other", "none"}, id : Calls \cup {Unknown}, v : Calls \cup {Unknown}]
TypeOK ==
  /\ pc \in [Calls -> {"start", "reg", "picked", "wait", "unreg", "done"}]
  /\ conn \in [Calls -> 0..NConns] /\ queries \subseteq Calls
  /\ \A c \in Calls : Len(chans[c]) <= 1
  /\ status \in [Conns -> {"Connected", "Connecting"}]
  /\ \A k \in Conns : /\ gen[k] \in Gens(k) /\ Len(link[k]) \in {gen[k], gen[k] + 1} /\ rcq[k] \in Nat
                      /\ clr[k].st \in {"idle", "got", "found"}
                      /\ \A g \in Gens(k) : /\ L(k, g).fin \in {"open", "srv", "cli"}
                                            /\ L(k, g).p \in {"new", "run", "stuck", "dead"}
                                            /\ L(k, g).r \in {"new", "run", "offer", "rc", "dial", "dead"}

\* a call returns only what the server produced as the answer to its own id
OwnAnswer == \A c \in Calls : ret[c][1] = "answer" => ret[c][2] \in produced[c]
\* the same, one step earlier (independent of the history variable ret)
ChanOwn   == \A c \in Calls : \A j \in 1..Len(chans[c]) : chans[c][j] \in produced[c]
\* the client reader never finds the reply channel full: it cannot block on a delivery
ReaderNeverBlocks == \A k \in Conns : clr[k].st = "found" => chans[clr[k].pkt.id] = <<>>
\* a call that is waiting and whose entry is gone has its answer in its channel or in the reader's hand
RegisteredWhileWaiting ==
  \A c \in Calls : pc[c] \in {"reg", "picked", "wait"} =>
     \/ c \in queries \/ chans[c] # <<>> \/ \E k \in Conns : clr[k].st = "found" /\ clr[k].pkt.id = c
NoLeakAtEnd == AllDone => queries = {}
\* the installed socket is never one the client has closed while status says Connected
StatusLink == \A k \in Conns : status[k] = "Connected" => Cur(k).fin # "cli" /\ ~Dialing(k)

\* [spec/proofs/typed copy] The goroutine-counting operators of the original (PAlive .. NoStuck and Safe, which
\* use a LET RECURSIVE that neither tlapm nor Apalache accepts) are left out here; nothing above depends on them.

EveryCallReturns == \A c \in Calls : <>(pc[c] = "done")
\* after the server has closed the installed socket the client gets back to Connected on an open socket
\* (or the server has closed the next one as well - bounded by MaxDrops)
Healthy(k) == status[k] = "Connected" /\ Cur(k).fin = "open"
DropLeadsToConnected == \A k \in Conns : (Cur(k).fin = "srv") ~> Healthy(k)
=============================================================================
