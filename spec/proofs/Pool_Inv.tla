------------------------------ MODULE Pool_Inv ------------------------------
(* C13, unbounded assurance for the wait-list protocol of liteapi/pool: the     *)
(* inductive invariant IndInv of the repaired protocol (FixNotify = FixTimer = *)
(* FixSetHead = TRUE, the code as it is in /repo) and what follows from it.    *)
(* Plain TLA+ (no tool-specific operators): Apalache proves it inductive for   *)
(* the open environment GNext (Pool_Ind.tla), TLC checks it as an ordinary     *)
(* invariant of the original Pool!Spec on the instances of spec/mc             *)
(* (mc/Pool_Inv_TLC_*.cfg).                                                    *)
(*                                                                             *)
(*   TypeInv  every variable constrained; channel capacities respected         *)
(*   LockInv  the RWMutex / connection-lock discipline as a function of the    *)
(*            program counters; the wait list and the run loop's work list     *)
(*   DataInv  every head value in flight was reported by the connection it is  *)
(*            attributed to, which was the best one when the head was handed   *)
(*            over; results are justified                                      *)
(*   TimeInv  one timer per call; nobody is past its select after the deadline *)
EXTENDS Pool_Open

CPcs   == {"idle", "locked", "send"}
RPcs   == {"idle", "rlock", "send", "exit", "upd_acq", "upd_in"}
WPcs   == {"idle", "sub", "sub_acq", "sub_in", "sub_rd", "waiting", "unsub", "unsub_acq", "unsub_in", "done"}
WIn    == {"sub_in", "sub_rd", "unsub_in"}              \* inside a critical section of the write lock
WPend  == WIn \cup {"sub_acq", "unsub_acq"}              \* has announced itself as the pending writer
Results == {"none", "ok", "timeout", "cancel"}
Procs  == Waiters \cup {None, RunP}

(* ---------------------------------------------------------------- parameters *)
\* what the proofs assume about the constants (the sizes are fixed by CInit_*)
ParamOK ==
  /\ NC \in Nat /\ NC >= 1
  /\ None \notin Waiters /\ RunP \notin Waiters /\ None # RunP
  /\ UpdCap \in Nat /\ UpdCap >= 1
  /\ MaxTime \in Nat /\ MaxFlips \in Nat /\ MaxSeq \in Nat
  /\ MaxTime < Inf                 \* the clock stays below the value that stands for "no timer" (10^9 ticks)
  /\ Strategy \in Strategies
  /\ FixNotify /\ FixTimer /\ FixSetHead

(* --------------------------------------------------------------------- types *)
\* the type part: every variable is constrained (in named pieces, so that proofs can address them one by one)
TI_Conn ==
  /\ DOMAIN head = Conns /\ DOMAIN alive = Conns /\ DOMAIN rtt = Conns /\ DOMAIN clk = Conns
  /\ DOMAIN cpc = Conns /\ DOMAIN cnew = Conns
  /\ \A k \in Conns : /\ head[k] \in Nat /\ alive[k] \in BOOLEAN /\ rtt[k] \in Nat /\ clk[k] \in BOOLEAN
                       /\ cpc[k] \in CPcs /\ cnew[k] \in Nat
TI_Upd ==
  /\ Len(updCh) <= UpdCap
  /\ \A i \in DOMAIN updCh : updCh[i][1] \in Conns /\ updCh[i][2] \in Nat
TI_Pool ==
  /\ rw.w \in Procs /\ rw.pend \in Procs /\ rw.r \subseteq Procs
  /\ best \in Conns
TI_Wait ==
  /\ DOMAIN reg = Waiters /\ DOMAIN ch = Waiters /\ DOMAIN wpc = Waiters /\ DOMAIN want = Waiters
  /\ DOMAIN tmo = Waiters /\ DOMAIN hread = Waiters /\ DOMAIN timer = Waiters /\ DOMAIN orig = Waiters
  /\ DOMAIN cancelled = Waiters /\ DOMAIN result = Waiters /\ DOMAIN okby = Waiters /\ DOMAIN rett = Waiters
  /\ \A w \in Waiters :
       /\ reg[w] \in BOOLEAN /\ wpc[w] \in WPcs /\ cancelled[w] \in BOOLEAN /\ result[w] \in Results
       /\ want[w] \in Nat /\ tmo[w] \in Nat /\ hread[w] \in Nat /\ timer[w] \in Nat /\ orig[w] \in Nat /\ rett[w] \in Nat
       /\ okby[w][1] \in Nat /\ okby[w][2] \in Nat /\ okby[w][3] \in Nat
TI_Chan ==
  \A w \in Waiters :
       /\ Len(ch[w]) <= WCap
       /\ \A i \in DOMAIN ch[w] : ch[w][i][1] \in Nat /\ ch[w][i][2] \in Conns /\ ch[w][i][3] \in Conns
TI_Run ==
  /\ rpc \in RPcs /\ rupd[1] \in Nat /\ rupd[2] \in Nat /\ rtodo \subseteq Waiters
  /\ now \in Nat /\ flips \in Nat /\ now <= MaxTime
TypeInv == TI_Conn /\ TI_Upd /\ TI_Pool /\ TI_Wait /\ TI_Chan /\ TI_Run

(* ----------------------------------------------------------- lock discipline *)
\* the RWMutex itself: a writer excludes readers; the only reader there ever is, is the run loop
LI_RW ==
  /\ rw.w # None => rw.pend = rw.w /\ rw.r = {}
  /\ rw.r \subseteq {RunP}
\* who holds what is a function of the program counters; notifySubscribers is in its loop only while somebody
\* is left to notify
LI_Run ==
  /\ RunP \in rw.r <=> rpc \in {"send", "exit"}
  /\ rw.pend = RunP <=> rpc \in {"upd_acq", "upd_in"}
  /\ rw.w = RunP <=> rpc = "upd_in"
  /\ rpc = "send" => rtodo # {}
LI_Wait ==
  \A w \in Waiters : /\ rw.pend = w <=> wpc[w] \in WPend
                     /\ rw.w = w <=> wpc[w] \in WIn
\* the wait list: an entry exists only while its owner is between subscribe and unsubscribe; the run loop's
\* work list is a snapshot of the wait list that stays valid as long as the read lock is held; a channel is
\* empty until its owner's subscribe has finished
LI_Reg ==
  /\ \A w \in Waiters : reg[w] => wpc[w] \in {"waiting", "unsub", "unsub_acq", "unsub_in"}
  /\ rpc = "send" => \A w \in rtodo : reg[w]
  /\ \A w \in Waiters : wpc[w] \in {"idle", "sub", "sub_acq", "sub_in", "sub_rd"} => ch[w] = <<>>
\* connection lock: held exactly between Lock and the end of the update (repaired SetMasterHead)
LI_Clk == \A k \in Conns : clk[k] <=> cpc[k] = "locked"
LockInv == LI_RW /\ LI_Run /\ LI_Wait /\ LI_Reg /\ LI_Clk

(* --------------------------------------------------- justification of results *)
\* a head value that is around was reported by the connection it is attributed to
\* @type: (<<Int, Int, Int>>) => Bool;
MsgOK(m) == m[2] \in Conns /\ head[m[2]] >= m[1] /\ m[2] = m[3]
DI_Upd ==
  /\ \A i \in DOMAIN updCh : head[updCh[i][1]] >= updCh[i][2]
  /\ \A k \in Conns : cpc[k] = "send" => head[k] >= cnew[k]
DI_Run ==
  /\ rpc # "idle" /\ rpc # "upd_acq" /\ rpc # "upd_in" => rupd[1] \in Conns /\ head[rupd[1]] >= rupd[2]
  /\ rpc = "send" => rupd[1] = best
DI_Chan == \A w \in Waiters : \A i \in DOMAIN ch[w] : MsgOK(ch[w][i])
DI_Wait ==
  \A w \in Waiters :
       /\ wpc[w] = "sub_rd" => head[best] >= hread[w]
       /\ result[w] = "ok" => okby[w][1] >= want[w] /\ MsgOK(okby[w])
       /\ result[w] = "timeout" => orig[w] # Inf /\ rett[w] >= orig[w]
       /\ result[w] = "cancel" => cancelled[w]
       /\ wpc[w] \in {"idle", "sub", "sub_acq", "sub_in", "sub_rd", "waiting"} => result[w] = "none"
DataInv == DI_Upd /\ DI_Run /\ DI_Chan /\ DI_Wait

(* ------------------------------------------------------------------ deadlines *)
\* the timer is created once per call; while the call is past its select the clock has not passed the deadline
TimeInv ==
  \A w \in Waiters :
    /\ wpc[w] \in {"waiting", "unsub", "unsub_acq", "unsub_in"} => timer[w] = orig[w]
    /\ wpc[w] \in {"waiting", "unsub", "unsub_acq", "unsub_in"} /\ orig[w] # Inf => now <= orig[w]

IndInv == TypeInv /\ LockInv /\ DataInv /\ TimeInv

(* ---------------------------------------------------------------------- goals *)
\* state predicates implied by IndInv alone
NoSendUnderConnLock == \A k \in Conns : cpc[k] = "send" => ~clk[k]        \* SetMasterHead publishes after unlocking
NotifyNeverBlocks   == rpc = "send" => \E w \in rtodo : G_RunSend(w)       \* holding the read lock, the next send is enabled
NotifyUnderRLock    == rpc = "send" => RunP \in rw.r /\ rw.w = None
WriterExcludesRun   == \A w \in Waiters : wpc[w] \in WIn => rpc \notin {"send", "exit", "upd_in"}
OneWriter           == \A v, w \in Waiters : wpc[v] \in WIn /\ wpc[w] \in WIn => v = w
ChanCapacity        == Len(updCh) <= UpdCap /\ \A w \in Waiters : Len(ch[w]) <= WCap
Goals == /\ NeverStuck /\ ByDeadline /\ OkJustified /\ ErrJustified
         /\ NoSendUnderConnLock /\ NotifyNeverBlocks /\ NotifyUnderRLock /\ WriterExcludesRun /\ OneWriter /\ ChanCapacity

\* action predicates: who may touch a waiter channel / the wait list, and holding what
ChanWriteDiscipline ==
  \A w \in Waiters : ch'[w] # ch[w] =>
     \/ /\ rpc = "send" /\ w \in rtodo /\ RunP \in rw.r /\ rw.w = None       \* the run loop, under the read lock,
        /\ reg[w] /\ Len(ch'[w]) = 1                                        \*   to a channel that is in the wait list
     \/ /\ wpc[w] = "sub_rd" /\ rw.w = w /\ ~reg[w]                          \* the owner's subscribe, under the write lock,
        /\ Len(ch'[w]) = 1                                                   \*   before the channel is in the wait list
     \/ /\ wpc[w] = "waiting" /\ ch[w] # <<>> /\ ch'[w] = Tail(ch[w])        \* the owner receives
WaitListDiscipline ==
  \A w \in Waiters : reg'[w] # reg[w] => rw.w = w /\ rw.r = {} /\ rpc \notin {"send", "exit"}
ConnLockDiscipline ==
  \A k \in Conns : Len(updCh') > Len(updCh) /\ cpc[k] = "send" /\ cpc'[k] = "idle" => ~clk[k]
ActGoals == ChanWriteDiscipline /\ WaitListDiscipline /\ ConnLockDiscipline
=============================================================================
