---------------------------- MODULE Adnl_AbsInd ----------------------------
(* Apalache obligations for Adnl_Abs (bounded number of frames, arbitrary        *)
(* payloads); the unbounded proof is Adnl_AbsProof.tla (TLAPS).                *)
(*   base   --init=Init    --inv=IndInv --length=0                             *)
(*   step   --init=IndInit --inv=IndInv --length=1                             *)
(*   use    --init=IndInit --inv=Goals  --length=0                             *)
EXTENDS Adnl_Abs, Apalache

\* Apalache: Gen(n) = an arbitrary value of the variable's type whose sequences have at most n elements:
\* the inductive step is checked for up to 8 frames sent / in flight, payloads arbitrary integers
IndInit ==
  /\ sent = Gen(8) /\ wire = Gen(8) /\ delivered = Gen(8)
  /\ cut \in BOOLEAN /\ dead \in BOOLEAN
  /\ nrx \in Nat /\ hit \in Nat
  /\ IndInv

\* must FAIL: IndInit admits a state with a damaged frame in flight behind an intact one and a live receiver
CanarySat == ~(~dead /\ hit = nrx + 2 /\ Len(wire) >= 2 /\ wire[1].ok /\ Len(delivered) >= 1)
\* must FAIL: the two clauses of C11 alone are not inductive (the strengthening is needed)
IndInitGoalsOnly ==
  /\ sent = Gen(8) /\ wire = Gen(8) /\ delivered = Gen(8)
  /\ cut \in BOOLEAN /\ dead \in BOOLEAN
  /\ nrx \in Nat /\ hit \in Nat
  /\ Goals
=============================================================================
