----------------------------- MODULE Pool_IndDefs -----------------------------
(* Shared definitions and helper lemmas of the TLAPS proof that IndInv          *)
(* (Pool_Inv.tla) is inductive for arbitrary NC and Waiters: see               *)
(* Pool_IndProof.tla.                                                          *)
EXTENDS Pool_Inv, SequenceTheorems, TLAPS


\* what Apalache gets from its type annotations, spelled out for the untyped logic of TLAPS
Msg2 == Int \X Int
Msg3 == Int \X Int \X Int
FT_Conn == /\ head \in [Conns -> Nat] /\ alive \in [Conns -> BOOLEAN] /\ rtt \in [Conns -> Nat] /\ clk \in [Conns -> BOOLEAN]
           /\ cpc \in [Conns -> CPcs] /\ cnew \in [Conns -> Nat]
FT_Pool == /\ updCh \in Seq(Msg2)
           /\ rw \in [w : Procs, pend : Procs, r : SUBSET Procs]
           /\ reg \in [Waiters -> BOOLEAN] /\ ch \in [Waiters -> Seq(Msg3)]
FT_Wait == /\ wpc \in [Waiters -> WPcs]
           /\ want \in [Waiters -> Nat] /\ tmo \in [Waiters -> Nat] /\ hread \in [Waiters -> Nat]
           /\ timer \in [Waiters -> Nat] /\ orig \in [Waiters -> Nat] /\ cancelled \in [Waiters -> BOOLEAN]
           /\ result \in [Waiters -> Results] /\ okby \in [Waiters -> Msg3] /\ rett \in [Waiters -> Nat]
FT_Run  == rupd \in Msg2
FT == FT_Conn /\ FT_Pool /\ FT_Wait /\ FT_Run
PInv == FT /\ IndInv

LEMMA InfNat == Inf \in Nat /\ Inf > 0
  BY SMT DEF Inf

LEMMA Single == ASSUME NEW S, NEW x \in S
  PROVE <<x>> \in Seq(S) /\ Len(<<x>>) = 1 /\ <<x>>[1] = x /\ <<x>> # <<>> /\ DOMAIN <<x>> = {1}
  OBVIOUS
LEMMA App == ASSUME NEW S, NEW s \in Seq(S), NEW e \in S
  PROVE /\ Append(s, e) \in Seq(S) /\ DOMAIN Append(s, e) = 1..(Len(s)+1) /\ DOMAIN s = 1..Len(s) /\ Len(s) \in Nat
        /\ \A i \in 1..Len(s) : Append(s, e)[i] = s[i]
        /\ Append(s, e)[Len(s)+1] = e /\ Len(Append(s,e)) = Len(s)+1
  OBVIOUS
LEMMA HT == ASSUME NEW S, NEW s \in Seq(S), s # <<>>
  PROVE /\ Head(s) \in S /\ Head(s) = s[1] /\ Tail(s) \in Seq(S) /\ Len(Tail(s)) = Len(s) - 1 /\ Len(s) \in Nat /\ Len(s) >= 1
        /\ DOMAIN Tail(s) = 1..(Len(s)-1) /\ DOMAIN s = 1..Len(s)
        /\ \A i \in 1..(Len(s)-1) : Tail(s)[i] = s[i+1]
  OBVIOUS
=============================================================================
