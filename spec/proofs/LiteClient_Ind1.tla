-------------------------- MODULE LiteClient_Ind1 --------------------------
(* Part 1 of the proof of LiteClient_Ind.tla: the invariant holds initially;    *)
(* what replacing one generation record does to a typed link (SetL lemmas);    *)
(* the callers' and the server's actions preserve TypeInv /\ DataInv.          *)
EXTENDS LiteClient_Inv, SequenceTheorems, TLAPS


(* ================================================================== basics *)
LEMMA NoPktType == NoPkt \in Pkts /\ NoPkt.t = "none"
  BY DEF NoPkt, Pkts

LEMMA NewLinkType == NewLink \in LinkRec /\ NewLink.in = <<>> /\ NewLink.rh = NoPkt
  BY NoPktType DEF NewLink, LinkRec, Fins, PSts, RSts

LEMMA ConnsNat == Conns \subseteq Nat
  BY ConstAssump DEF Conns

LEMMA InitInv == Init => Inv
<1> SUFFICES ASSUME Init PROVE Inv
  OBVIOUS
<1> USE DEF Init
<1>0. NewLink \in LinkRec /\ NoPkt \in Pkts
  BY NewLinkType, NoPktType
<1>1. [NewLink EXCEPT !.p = "run", !.r = "run"] \in LinkRec
  BY <1>0 DEF LinkRec, PSts, RSts
<1>2. \A k \in Conns : link[k] \in Seq(LinkRec) /\ Len(link[k]) = 1 /\ link[k][1] = [NewLink EXCEPT !.p = "run", !.r = "run"]
  BY <1>1
<1>3. TypeInv
  <2>1. ret \in [Calls -> RetVals]
    BY DEF RetVals
  <2>2. chans \in [Calls -> Seq(Vals)]
    OBVIOUS
  <2>3. clr \in [Conns -> ClrRec]
    BY <1>0 DEF ClrRec
  <2> QED
    BY <1>2, <2>1, <2>2, <2>3 DEF TypeInv, PcSet
<1>4. DataInv
  <2>1. LinkOK(link, produced)
    <3>1. /\ [NewLink EXCEPT !.p = "run", !.r = "run"].in = <<>>
          /\ [NewLink EXCEPT !.p = "run", !.r = "run"].rh = NoPkt
      BY NewLinkType DEF LinkRec
    <3>2. RecOK([NewLink EXCEPT !.p = "run", !.r = "run"], produced)
      BY <3>1, NoPktType DEF RecOK, PktOKp
    <3> QED
      BY <1>2, <3>2 DEF LinkOK
  <2>2. ClrOK(clr, produced)
    BY NoPktType DEF ClrOK, PktOKp
  <2>3. ChanOwn /\ OwnAnswer
    BY DEF ChanOwn, OwnAnswer
  <2> QED
    BY <2>1, <2>2, <2>3 DEF DataInv
<1>5. RegInv
  BY DEF RegInv, RI1, RI2, RI3, RI4, RI5, RegisteredWhileWaiting, Found
<1> QED
  BY <1>3, <1>4, <1>5 DEF Inv

(* ------------------------------------------- what SetL does to a typed link *)
LEMMA SetLFacts ==
  ASSUME TypeInv, NEW k \in Conns, NEW g \in Gens(k), NEW rec \in LinkRec, SetL(k, g, rec)
  PROVE  /\ link' \in [Conns -> Seq(LinkRec)]
         /\ \A k2 \in Conns : Len(link'[k2]) = Len(link[k2])
         /\ \A k2 \in Conns : \A g2 \in 1..Len(link[k2]) :
               link'[k2][g2] = IF k2 = k /\ g2 = g THEN rec ELSE link[k2][g2]
<1>1. link \in [Conns -> Seq(LinkRec)] /\ link[k] \in Seq(LinkRec) /\ g \in 1..Len(link[k])
  BY DEF TypeInv, Gens
<1>2. link' = [link EXCEPT ![k] = [link[k] EXCEPT ![g] = rec]]
  BY <1>1 DEF SetL
<1>3. /\ [link[k] EXCEPT ![g] = rec] \in Seq(LinkRec)
      /\ Len([link[k] EXCEPT ![g] = rec]) = Len(link[k])
      /\ \A j \in 1 .. Len(link[k]) : [link[k] EXCEPT ![g] = rec][j] = IF j = g THEN rec ELSE link[k][j]
  BY <1>1, ExceptSeq
<1> QED
  BY <1>1, <1>2, <1>3

LEMMA PktMono ==
  ASSUME NEW p, NEW p1, NEW p2, Mono(p1, p2), PktOKp(p, p1)
  PROVE  PktOKp(p, p2)
  BY DEF Mono, PktOKp

LEMMA SetLData ==
  ASSUME TypeInv, LinkOK(link, produced), NEW k \in Conns, NEW g \in Gens(k), NEW rec \in LinkRec, SetL(k, g, rec),
         Mono(produced, produced'), RecOK(rec, produced')
  PROVE  LinkOK(link', produced')
<1>1. /\ \A k2 \in Conns : Len(link'[k2]) = Len(link[k2])
      /\ \A k2 \in Conns : \A g2 \in 1..Len(link[k2]) :
               link'[k2][g2] = IF k2 = k /\ g2 = g THEN rec ELSE link[k2][g2]
  BY SetLFacts
<1>2. \A l : RecOK(l, produced) => RecOK(l, produced')
  BY PktMono DEF RecOK
<1> SUFFICES ASSUME NEW k2 \in Conns, NEW g2 \in 1..Len(link'[k2]) PROVE RecOK(link'[k2][g2], produced')
  BY DEF LinkOK
<1>3. g2 \in 1..Len(link[k2])
  BY <1>1
<1>4. CASE k2 = k /\ g2 = g
  BY <1>1, <1>3, <1>4
<1>5. CASE ~(k2 = k /\ g2 = g)
  <2>1. link'[k2][g2] = link[k2][g2]
    BY <1>1, <1>3, <1>5
  <2>2. RecOK(link[k2][g2], produced)
    BY <1>3 DEF LinkOK
  <2> QED
    BY <2>1, <2>2, <1>2
<1> QED
  BY <1>4, <1>5

(* ------------------- generic step: one generation record replaced, nothing else *)
LEMMA RecOfLink ==
  ASSUME TypeInv, NEW k \in Conns, NEW g \in Gens(k)
  PROVE  /\ L(k, g) \in LinkRec /\ L(k, g) = link[k][g] /\ g \in 1..Len(link[k])
         /\ L(k, g).in \in Seq(Pkts) /\ L(k, g).rh \in Pkts
  BY DEF TypeInv, Gens, L, LinkRec

LEMMA CurOfLink ==
  ASSUME TypeInv, NEW k \in Conns
  PROVE  gen[k] \in Gens(k) /\ Cur(k) = L(k, gen[k])
  BY DEF TypeInv, Gens, L, Cur

LEMMA SetLStep ==
  ASSUME TypeInv, DataInv, NEW k \in Conns, NEW g \in Gens(k), NEW rec \in LinkRec, SetL(k, g, rec),
         RecOK(rec, produced),
         pc' \in [Calls -> PcSet], \A c \in Calls : pc'[c] = "picked" => pc[c] = "picked",
         UNCHANGED <<conn, ret, queries, chans, status, gen, clr, produced>>
  PROVE  TypeInv' /\ DataInv'
<1>1. /\ link' \in [Conns -> Seq(LinkRec)]
      /\ \A k2 \in Conns : Len(link'[k2]) = Len(link[k2])
  BY SetLFacts
<1>2. TypeInv'
  BY <1>1 DEF TypeInv
<1>3. Mono(produced, produced') /\ RecOK(rec, produced')
  BY DEF Mono
<1>4. LinkOK(link', produced')
  BY <1>3, SetLData DEF DataInv
<1>5. ClrOK(clr', produced') /\ ChanOwn' /\ OwnAnswer'
  BY DEF DataInv, ClrOK, ChanOwn, OwnAnswer
<1> QED
  BY <1>2, <1>4, <1>5 DEF DataInv

\* a record that keeps the packets of a good record is good
LEMMA SamePktsOK ==
  ASSUME NEW l, NEW rec, NEW prod, RecOK(l, prod), rec.in = l.in, rec.rh = l.rh
  PROVE  RecOK(rec, prod)
  BY DEF RecOK

LEMMA LinkRecOK ==
  ASSUME TypeInv, DataInv, NEW k \in Conns, NEW g \in Gens(k)
  PROVE  RecOK(L(k, g), produced)
  BY RecOfLink DEF DataInv, LinkOK

\* nothing that the invariant mentions changes
LEMMA UnchStep ==
  ASSUME TypeInv, DataInv,
         UNCHANGED <<pc, conn, ret, queries, chans, status, gen, link, clr, produced>>
  PROVE  TypeInv' /\ DataInv'
  BY DEF TypeInv, DataInv, LinkOK, ClrOK, ChanOwn, OwnAnswer

(* ================================================================ the callers *)
LEMMA S_Register ==
  ASSUME TypeInv, DataInv, NEW c \in Calls, Register(c)
  PROVE  TypeInv' /\ DataInv'
<1>1. TypeInv'
  BY DEF TypeInv, Register, PcSet
<1>2. DataInv'
  BY DEF DataInv, Register, LinkOK, ClrOK, ChanOwn, OwnAnswer
<1> QED
  BY <1>1, <1>2

LEMMA S_PickConn ==
  ASSUME TypeInv, DataInv, NEW c \in Calls, NEW k \in Conns, PickConn(c, k)
  PROVE  TypeInv' /\ DataInv'
<1>1. TypeInv'
  BY ConnsNat DEF TypeInv, PickConn, PcSet
<1>2. DataInv'
  BY DEF DataInv, PickConn, LinkOK, ClrOK, ChanOwn, OwnAnswer
<1> QED
  BY <1>1, <1>2

LEMMA RetKinds ==
  /\ <<"notconnected">> \in RetVals /\ <<"senderr">> \in RetVals /\ <<"timeout">> \in RetVals
  /\ <<"notconnected">>[1] # "answer" /\ <<"senderr">>[1] # "answer" /\ <<"timeout">>[1] # "answer"
  BY DEF RetVals

LEMMA S_SendNotConnected ==
  ASSUME TypeInv, DataInv, NEW c \in Calls, SendNotConnected(c)
  PROVE  TypeInv' /\ DataInv'
<1>1. TypeInv'
  BY RetKinds DEF TypeInv, SendNotConnected, PcSet
<1>2. OwnAnswer'
  BY RetKinds DEF TypeInv, DataInv, SendNotConnected, OwnAnswer
<1>3. DataInv'
  BY <1>2 DEF DataInv, SendNotConnected, LinkOK, ClrOK, ChanOwn
<1> QED
  BY <1>1, <1>3

LEMMA S_SendFail ==
  ASSUME TypeInv, DataInv, NEW c \in Calls, SendFail(c)
  PROVE  TypeInv' /\ DataInv'
<1>1. TypeInv'
  BY RetKinds DEF TypeInv, SendFail, PcSet
<1>2. OwnAnswer'
  BY RetKinds DEF TypeInv, DataInv, SendFail, OwnAnswer
<1>3. DataInv'
  BY <1>2 DEF DataInv, SendFail, LinkOK, ClrOK, ChanOwn
<1> QED
  BY <1>1, <1>3

LEMMA S_CallerTimeout ==
  ASSUME TypeInv, DataInv, NEW c \in Calls, CallerTimeout(c)
  PROVE  TypeInv' /\ DataInv'
<1>1. TypeInv'
  BY RetKinds DEF TypeInv, CallerTimeout, PcSet
<1>2. OwnAnswer'
  BY RetKinds DEF TypeInv, DataInv, CallerTimeout, OwnAnswer
<1>3. DataInv'
  BY <1>2 DEF DataInv, CallerTimeout, LinkOK, ClrOK, ChanOwn
<1> QED
  BY <1>1, <1>3

LEMMA S_Unregister ==
  ASSUME TypeInv, DataInv, NEW c \in Calls, Unregister(c)
  PROVE  TypeInv' /\ DataInv'
<1>1. TypeInv'
  BY DEF TypeInv, Unregister, PcSet
<1>2. DataInv'
  BY DEF DataInv, Unregister, LinkOK, ClrOK, ChanOwn, OwnAnswer
<1> QED
  BY <1>1, <1>2

LEMMA S_SendOk ==
  ASSUME TypeInv, DataInv, NEW c \in Calls, SendOk(c)
  PROVE  TypeInv' /\ DataInv'
<1> DEFINE k == conn[c]
           l == Cur(k)
           rec == IF l.fin = "open" THEN [l EXCEPT !.out = @ \cup {c}] ELSE [l EXCEPT !.rst = TRUE]
<1>1. k \in Conns /\ pc[c] = "picked"
  BY DEF TypeInv, SendOk
<1>2. gen[k] \in Gens(k) /\ l = L(k, gen[k]) /\ l \in LinkRec
  BY <1>1, CurOfLink, RecOfLink
<1>3. rec \in LinkRec /\ rec.in = l.in /\ rec.rh = l.rh
  BY <1>2 DEF LinkRec
<1>4. RecOK(rec, produced)
  BY <1>1, <1>2, <1>3, LinkRecOK, SamePktsOK
<1>5. SetL(k, gen[k], rec)
  BY DEF SendOk
<1>6. pc' \in [Calls -> PcSet] /\ \A d \in Calls : pc'[d] = "picked" => pc[d] = "picked"
  BY DEF SendOk, TypeInv, PcSet
<1>7. UNCHANGED <<conn, ret, queries, chans, status, gen, clr, produced>>
  BY DEF SendOk
<1> HIDE DEF k, l, rec
<1> QED
  BY <1>1, <1>2, <1>3, <1>4, <1>5, <1>6, <1>7, SetLStep

LEMMA S_CallerRecv ==
  ASSUME TypeInv, DataInv, NEW c \in Calls, CallerRecv(c)
  PROVE  TypeInv' /\ DataInv'
<1>0. chans[c] \in Seq(Vals) /\ chans[c] # <<>>
  BY DEF TypeInv, CallerRecv
<1>1. /\ Head(chans[c]) \in Vals /\ Tail(chans[c]) \in Seq(Vals)
      /\ Len(Tail(chans[c])) = Len(chans[c]) - 1
      /\ \A i \in 1 .. Len(Tail(chans[c])) : Tail(chans[c])[i] = chans[c][i+1]
      /\ Head(chans[c]) = chans[c][1] /\ Len(chans[c]) \in Nat \ {0}
  BY <1>0, HeadTailProperties, EmptySeq
<1>2. <<"answer", Head(chans[c])>> \in RetVals
  BY <1>1 DEF RetVals
<1>3. TypeInv'
  BY <1>1, <1>2 DEF TypeInv, CallerRecv, PcSet
<1>4. Head(chans[c]) \in produced[c]
  BY <1>1 DEF DataInv, ChanOwn
<1>5. OwnAnswer'
  BY <1>4 DEF TypeInv, DataInv, CallerRecv, OwnAnswer
<1>6. ChanOwn'
  <2> SUFFICES ASSUME NEW d \in Calls, NEW j \in 1..Len(chans'[d]) PROVE chans'[d][j] \in produced'[d]
    BY DEF ChanOwn
  <2>1. CASE d = c
    <3>1. chans'[d] = Tail(chans[c]) /\ produced' = produced
      BY <2>1 DEF TypeInv, CallerRecv
    <3>2. chans'[d][j] = chans[c][j+1] /\ j+1 \in 1..Len(chans[c])
      BY <3>1, <1>1
    <3> QED
      BY <3>1, <3>2, <2>1 DEF DataInv, ChanOwn
  <2>2. CASE d # c
    BY <2>2 DEF TypeInv, DataInv, ChanOwn, CallerRecv
  <2> QED
    BY <2>1, <2>2
<1>7. LinkOK(link', produced') /\ ClrOK(clr', produced')
  BY DEF DataInv, CallerRecv, LinkOK, ClrOK
<1> QED
  BY <1>3, <1>5, <1>6, <1>7 DEF DataInv

(* ================================================================= the server *)
LEMMA S_SrvRecv ==
  ASSUME TypeInv, DataInv, NEW k \in Conns, NEW g \in Gens(k), NEW i \in Calls, SrvRecv(k, g, i)
  PROVE  TypeInv' /\ DataInv'
<1> DEFINE l == L(k, g)
           rec == [l EXCEPT !.out = @ \ {i}, !.pend = @ \cup {i}]
<1>1. l \in LinkRec /\ RecOK(l, produced)
  BY RecOfLink, LinkRecOK
<1>2. rec \in LinkRec /\ rec.in = l.in /\ rec.rh = l.rh
  BY <1>1 DEF LinkRec
<1>3. RecOK(rec, produced)
  BY <1>1, <1>2, SamePktsOK
<1>4. SetL(k, g, rec) /\ UNCHANGED <<pc, conn, ret, queries, chans, status, gen, clr, produced>>
  BY DEF SrvRecv, callVars
<1>5. pc' \in [Calls -> PcSet] /\ \A d \in Calls : pc'[d] = "picked" => pc[d] = "picked"
  BY <1>4 DEF TypeInv
<1> HIDE DEF l, rec
<1> QED
  BY <1>2, <1>3, <1>4, <1>5, SetLStep

LEMMA S_SrvDrop ==
  ASSUME TypeInv, DataInv, NEW k \in Conns, NEW g \in Gens(k), SrvDrop(k, g)
  PROVE  TypeInv' /\ DataInv'
<1> DEFINE l == L(k, g)
           rec == [l EXCEPT !.fin = "srv", !.out = {}, !.pend = {}]
<1>1. l \in LinkRec /\ RecOK(l, produced)
  BY RecOfLink, LinkRecOK
<1>2. rec \in LinkRec /\ rec.in = l.in /\ rec.rh = l.rh
  BY <1>1 DEF LinkRec, Fins
<1>3. RecOK(rec, produced)
  BY <1>1, <1>2, SamePktsOK
<1>4. SetL(k, g, rec) /\ UNCHANGED <<pc, conn, ret, queries, chans, status, gen, clr, produced>>
  BY DEF SrvDrop, callVars
<1>5. pc' \in [Calls -> PcSet] /\ \A d \in Calls : pc'[d] = "picked" => pc[d] = "picked"
  BY <1>4 DEF TypeInv
<1> HIDE DEF l, rec
<1> QED
  BY <1>2, <1>3, <1>4, <1>5, SetLStep

\* appending a good packet to the backlog of a good record
LEMMA PushOK ==
  ASSUME NEW l \in LinkRec, NEW p \in Pkts, NEW prod, RecOK(l, prod), PktOKp(p, prod)
  PROVE  /\ [l EXCEPT !.in = Append(@, p)] \in LinkRec
         /\ RecOK([l EXCEPT !.in = Append(@, p)], prod)
<1> DEFINE rec == [l EXCEPT !.in = Append(@, p)]
<1>1. l.in \in Seq(Pkts)
  BY DEF LinkRec
<1>2. /\ Append(l.in, p) \in Seq(Pkts)
      /\ Len(Append(l.in, p)) = Len(l.in) + 1
      /\ \A i \in 1 .. Len(l.in) : Append(l.in, p)[i] = l.in[i]
      /\ Append(l.in, p)[Len(l.in) + 1] = p
      /\ Len(l.in) \in Nat
  BY <1>1, AppendProperties, LenProperties
<1>3. rec \in LinkRec /\ rec.in = Append(l.in, p) /\ rec.rh = l.rh
  BY <1>2 DEF LinkRec
<1>4. \A j \in 1..Len(rec.in) : PktOKp(rec.in[j], prod)
  <2> TAKE j \in 1..Len(rec.in)
  <2>1. CASE j \in 1..Len(l.in)
    BY <2>1, <1>2, <1>3 DEF RecOK
  <2>2. CASE j = Len(l.in) + 1
    BY <2>2, <1>2, <1>3
  <2> QED
    BY <2>1, <2>2, <1>2, <1>3
<1>5. RecOK(rec, prod)
  BY <1>3, <1>4 DEF RecOK
<1> QED
  BY <1>3, <1>5

LEMMA S_Push ==
  ASSUME TypeInv, DataInv, NEW k \in Conns, NEW g \in Gens(k), NEW p \in Pkts, PktOKp(p, produced),
         Push(k, g, p), UNCHANGED <<pc, conn, ret, queries, chans, status, gen, clr, produced>>
  PROVE  TypeInv' /\ DataInv'
<1> DEFINE l == L(k, g)
           rec == [l EXCEPT !.in = Append(@, p)]
<1>1. l \in LinkRec /\ RecOK(l, produced)
  BY RecOfLink, LinkRecOK
<1>2. rec \in LinkRec /\ RecOK(rec, produced)
  BY <1>1, PushOK
<1>3. SetL(k, g, rec)
  BY DEF Push
<1>4. pc' \in [Calls -> PcSet] /\ \A d \in Calls : pc'[d] = "picked" => pc[d] = "picked"
  BY DEF TypeInv
<1> HIDE DEF l, rec
<1> QED
  BY <1>2, <1>3, <1>4, SetLStep

LEMMA S_SrvDup ==
  ASSUME TypeInv, DataInv, NEW k \in Conns, NEW g \in Gens(k), NEW i \in Calls, SrvDup(k, g, i, i)
  PROVE  TypeInv' /\ DataInv'
<1> DEFINE p == [t |-> "ans", id |-> i, v |-> i]
<1>1. p \in Pkts /\ PktOKp(p, produced)
  BY DEF Pkts, PktOKp, SrvDup
<1>2. Push(k, g, p) /\ UNCHANGED <<pc, conn, ret, queries, chans, status, gen, clr, produced>>
  BY DEF SrvDup, callVars
<1> HIDE DEF p
<1> QED
  BY <1>1, <1>2, S_Push

LEMMA S_SrvNoise ==
  ASSUME TypeInv, DataInv, NEW k \in Conns, NEW g \in Gens(k), NEW t, SrvNoise(k, g, t, Unknown)
  PROVE  TypeInv' /\ DataInv'
<1> DEFINE p == [t |-> t, id |-> Unknown, v |-> Unknown]
<1>1. p \in Pkts /\ PktOKp(p, produced)
  BY ConstAssump DEF Pkts, PktOKp, SrvNoise
<1>2. Push(k, g, p) /\ UNCHANGED <<pc, conn, ret, queries, chans, status, gen, clr, produced>>
  BY DEF SrvNoise, callVars
<1> HIDE DEF p
<1> QED
  BY <1>1, <1>2, S_Push

LEMMA S_SrvAnswer ==
  ASSUME TypeInv, DataInv, NEW k \in Conns, NEW g \in Gens(k), NEW i \in Calls, SrvAnswer(k, g, i, i)
  PROVE  TypeInv' /\ DataInv'
<1> DEFINE l == L(k, g)
           p == [t |-> "ans", id |-> i, v |-> i]
           l2 == [l EXCEPT !.pend = @ \ {i}]
           rec == [l EXCEPT !.in = Append(@, p), !.pend = @ \ {i}]
<1>0. produced \in [Calls -> SUBSET Vals] /\ produced' = [produced EXCEPT ![i] = @ \cup {i}]
  BY DEF TypeInv, SrvAnswer
<1>1. Mono(produced, produced') /\ produced' \in [Calls -> SUBSET Vals] /\ i \in produced'[i]
  BY <1>0 DEF Mono, Vals
<1>2. l \in LinkRec /\ RecOK(l, produced)
  BY RecOfLink, LinkRecOK
<1>3. l2 \in LinkRec /\ l2.in = l.in /\ l2.rh = l.rh
  BY <1>2 DEF LinkRec
<1>4. RecOK(l2, produced')
  <2>1. RecOK(l, produced')
    BY <1>1, <1>2, PktMono DEF RecOK
  <2> QED
    BY <2>1, <1>3, SamePktsOK
<1>5. p \in Pkts /\ PktOKp(p, produced')
  BY <1>1 DEF Pkts, PktOKp
<1>6. rec = [l2 EXCEPT !.in = Append(@, p)]
  BY <1>2 DEF LinkRec
<1>7. rec \in LinkRec /\ RecOK(rec, produced')
  <2> HIDE DEF l2, p, rec
  <2> QED
    BY <1>3, <1>4, <1>5, <1>6, PushOK
<1>8. SetL(k, g, rec) /\ UNCHANGED <<pc, conn, ret, queries, chans, status, gen, clr>>
  BY DEF SrvAnswer, callVars
<1> HIDE DEF l, l2, p, rec
<1>9. /\ link' \in [Conns -> Seq(LinkRec)]
      /\ \A k2 \in Conns : Len(link'[k2]) = Len(link[k2])
  BY <1>7, <1>8, SetLFacts
<1>10. TypeInv'
  BY <1>1, <1>8, <1>9 DEF TypeInv
<1>11. LinkOK(link', produced')
  BY <1>1, <1>7, <1>8, SetLData DEF DataInv
<1>12. ClrOK(clr', produced')
  BY <1>1, <1>8, PktMono DEF DataInv, ClrOK
<1>13. ChanOwn' /\ OwnAnswer'
  BY <1>1, <1>8 DEF DataInv, ChanOwn, OwnAnswer, Mono
<1> QED
  BY <1>10, <1>11, <1>12, <1>13 DEF DataInv
=============================================================================
