\* 2 calls x 1 connection, 1 drop, 2 noise packets (duplicates, unknown ids, pongs), 1 silence reconnect
CONSTANTS
  Calls = {c1, c2}
  NConns = 1
  Unknown = unk
  MaxDrops = 1
  MaxNoise = 2
  MaxSilence = 1
  StrictRst = TRUE
  MaxBacklog = 3
SPECIFICATION Spec
SYMMETRY Sym
VIEW View
CONSTRAINT Bounded
INVARIANTS Inv OwnAnswer ChanOwn ReaderNeverBlocks RegisteredWhileWaiting
CHECK_DEADLOCK TRUE
