\* repaired protocol = the code as it is now (all Fix* = TRUE) with the update channel scaled down to 1 slot (2 connections x 1 caller): no wedge on a full channel
CONSTANTS
  NC = 2
  Waiters = {w1}
  None = none
  RunP = run
  MaxSeq = 2
  Steps = {1}
  Wants = {1, 3}
  Timeouts = {1}
  UpdCap = 1
  MaxTime = 2
  Strategy = "first-working"
  Rtt0 <- Rtt_00
  MaxFlips = 0
  FixNotify = TRUE
  FixTimer = TRUE
  FixSetHead = TRUE
SPECIFICATION Spec
INVARIANTS IndInv Goals
PROPERTY ActProp
CHECK_DEADLOCK FALSE
