\* repaired protocol = the code as it is now (all Fix* = TRUE), 2 connections x 1 caller, best switches (ticker, one liveness flip)
CONSTANTS
  NC = 2
  Waiters = {w1}
  None = none
  RunP = run
  MaxSeq = 2
  Steps = {1}
  Wants = {2, 3}
  Timeouts = {1}
  UpdCap = 10
  MaxTime = 2
  Strategy = "best-ping"
  Rtt0 <- Rtt_10
  MaxFlips = 1
  FixNotify = TRUE
  FixTimer = TRUE
  FixSetHead = TRUE
SPECIFICATION Spec
INVARIANTS IndInv Goals
PROPERTY ActProp
CHECK_DEADLOCK FALSE
