\* run twice (spec/LiteClient.tla and spec/proofs/typed/LiteClient.tla under spec/mc/LiteClient_MC.tla): the state counts must agree
CONSTANTS
  Calls = {c1, c2}
  NConns = 2
  Unknown = unk
  MaxDrops = 1
  MaxNoise = 1
  MaxSilence = 0
  StrictRst = TRUE
  MaxBacklog = 3
SPECIFICATION Spec
SYMMETRY Sym
VIEW View
CONSTRAINT Bounded
INVARIANTS TypeOK OwnAnswer ChanOwn ReaderNeverBlocks RegisteredWhileWaiting NoLeakAtEnd StatusLink
CHECK_DEADLOCK TRUE
