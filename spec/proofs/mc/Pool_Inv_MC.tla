----------------------------- MODULE Pool_Inv_MC -----------------------------
(* TLC cross-check: IndInv and Goals of Pool_Inv as ordinary invariants of the  *)
(* ORIGINAL Pool!Spec on the exhaustive instances of spec/mc (same constants   *)
(* as Pool_MC_fixed_*.cfg).  Implied by the Apalache proofs; run to tie the    *)
(* typed copy, the open environment and the invariant back to the module that  *)
(* the C13 check uses.                                                         *)
EXTENDS Pool_Inv
Rtt_1   == <<0>>
Rtt_10  == <<1, 0>>
Rtt_00  == <<0, 0>>
Sym     == Permutations(Waiters)
\* the action-level discipline, as a TLC action property
ActProp == [][ActGoals]_vars
=============================================================================
