\* quick: 2 calls x 2 connections, 1 noise packet (pong | unknown id | duplicate | other)
CONSTANTS
  Calls = {c1, c2}
  NConns = 2
  Unknown = unk
  MaxDrops = 0
  MaxNoise = 1
  MaxSilence = 0
  StrictRst = TRUE
  MaxBacklog = 3
SPECIFICATION Spec
SYMMETRY Sym
VIEW View
CONSTRAINT Bounded
INVARIANTS TypeOK OwnAnswer ChanOwn ReaderNeverBlocks RegisteredWhileWaiting NoLeakAtEnd StatusLink
CHECK_DEADLOCK TRUE
