\* run twice (spec/LiteClient.tla and spec/proofs/typed/LiteClient.tla under spec/mc/LiteClient_MC.tla, no symmetry, one worker): the numbers of distinct states must agree
CONSTANTS
  Calls = {c1, c2}
  NConns = 2
  Unknown = unk
  MaxDrops = 0
  MaxNoise = 1
  MaxSilence = 0
  StrictRst = TRUE
  MaxBacklog = 3
SPECIFICATION Spec
VIEW View
CONSTRAINT Bounded
INVARIANTS TypeOK OwnAnswer ChanOwn ReaderNeverBlocks RegisteredWhileWaiting NoLeakAtEnd StatusLink
CHECK_DEADLOCK TRUE
