\* 2 calls x 2 connections, 1 drop (constants of spec/mc/LiteClient_MC_2x2.cfg)
CONSTANTS
  Calls = {c1, c2}
  NConns = 2
  Unknown = unk
  MaxDrops = 1
  MaxNoise = 0
  MaxSilence = 0
  StrictRst = TRUE
  MaxBacklog = 3
SPECIFICATION Spec
SYMMETRY Sym
VIEW View
CONSTRAINT Bounded
INVARIANTS Inv OwnAnswer ChanOwn ReaderNeverBlocks RegisteredWhileWaiting
CHECK_DEADLOCK TRUE
