\* 2 calls x 1 connection, one expiry of the 10 s silence timer, 1 noise packet: everything but NoStuck
CONSTANTS
  Calls = {c1, c2}
  NConns = 1
  Unknown = unk
  MaxDrops = 0
  MaxNoise = 1
  MaxSilence = 1
  StrictRst = TRUE
  MaxBacklog = 3
SPECIFICATION Spec
SYMMETRY Sym
VIEW View
CONSTRAINT Bounded
INVARIANTS Inv OwnAnswer ChanOwn ReaderNeverBlocks RegisteredWhileWaiting
CHECK_DEADLOCK TRUE
