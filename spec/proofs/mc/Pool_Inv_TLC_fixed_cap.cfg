\* repaired protocol = the code as it is now (all Fix* = TRUE), update channel scaled to 2 slots, 2 connections x 2 callers, heads 0..2
CONSTANTS
  NC = 2
  Waiters = {w1, w2}
  None = none
  RunP = run
  MaxSeq = 2
  Steps = {1}
  Wants = {2, 3}
  Timeouts = {1}
  UpdCap = 2
  MaxTime = 1
  Strategy = "first-working"
  Rtt0 <- Rtt_00
  MaxFlips = 0
  FixNotify = TRUE
  FixTimer = TRUE
  FixSetHead = TRUE
SPECIFICATION Spec
INVARIANTS IndInv Goals
PROPERTY ActProp
CHECK_DEADLOCK FALSE
