-------------------------- MODULE LiteClient_Inv_MC --------------------------
(* TLC cross-check: Inv of LiteClient_Inv as an ordinary invariant of           *)
(* LiteClient!Spec on small instances (Sym, View, Bounded as in                *)
(* spec/mc/LiteClient_MC.tla).  Implied by the TLAPS proof; it ties the        *)
(* invariant (and TLC's reading of it) to the instances the C12 check explores.*)
EXTENDS LiteClient_Inv
CONSTANTS MaxBacklog
Sym  == Permutations(Calls)
Gone(l) == l.p = "dead" /\ l.r = "dead" /\ l.fin # "open"
View == <<pc, [c \in Calls |-> IF pc[c] = "picked" THEN conn[c] ELSE 0], queries, chans, status, gen,
          [k \in Conns |-> [g \in Gens(k) |-> IF Gone(L(k, g)) THEN <<"gone">> ELSE L(k, g)]],
          clr, rcq, dial, produced, drops, noise, sil>>
Bounded == \A k \in Conns : \A g \in Gens(k) : Len(L(k, g).in) <= MaxBacklog
=============================================================================
