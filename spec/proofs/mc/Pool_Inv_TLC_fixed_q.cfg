\* repaired protocol = the code as it is now (all Fix* = TRUE), 1 connection x 2 callers: every property holds
CONSTANTS
  NC = 1
  Waiters = {w1, w2}
  None = none
  RunP = run
  MaxSeq = 2
  Steps = {1}
  Wants = {2, 3}
  Timeouts = {1}
  UpdCap = 10
  MaxTime = 1
  Strategy = "first-working"
  Rtt0 <- Rtt_1
  MaxFlips = 0
  FixNotify = TRUE
  FixTimer = TRUE
  FixSetHead = TRUE
SPECIFICATION Spec
INVARIANTS IndInv Goals
PROPERTY ActProp
CHECK_DEADLOCK FALSE
