--------------------------- MODULE PoolSelect_Ind ---------------------------
(* C13, first clause, for pools of ARBITRARY size: TLAPS proofs about the       *)
(* selection rule of PoolSelect (EXTENDS the original module, nothing copied). *)
(*                                                                             *)
(* N is any natural number, conns any function 1..N -> [alive, seqno, rtt]     *)
(* with natural seqnos and round-trip times, prev any value.                   *)
(*                                                                             *)
(*   NewestIsMax        Newest(conns) is well defined: it is the seqno of some *)
(*                      connection and no connection is ahead of it            *)
(*   GoodMeaning        Good = alive and at most one block behind EVERY head   *)
(*                      known to the pool (no reference to Newest / CHOOSE)    *)
(*   ChoicesNonEmpty    a refresh always has an outcome (an argmin exists)     *)
(*   SelectionRule      the statement of C13: some Good => the choice is Good, *)
(*                      rtt-minimal among Good (best-ping) / the first Good    *)
(*                      (first-working); none Good => the previous choice      *)
(*   FirstWorkingUnique under first-working the outcome is unique              *)
(*   ChosenIsHealthy    the chosen connection is alive and at most one block   *)
(*                      behind every connection of the pool, dead ones included *)
(*   AllDeadKeeps / EmptyKeeps   nothing alive (or no connections): unchanged  *)
(*   DeadIrrelevant     connections that are not alive influence the outcome   *)
(*                      only through the newest head: same alive entries and   *)
(*                      same newest head => same set of allowed outcomes       *)
(*   DeadRttIrrelevant  in particular the rtt of a dead connection never       *)
(*                      matters                                                *)
(*   NewerHeadShrinks   monotonicity: if the newest head known moves forward   *)
(*                      and the alive entries stay, the Good set only shrinks  *)
EXTENDS PoolSelect, NaturalsInduction, TLAPS

ConnRec  == [alive : BOOLEAN, seqno : Nat, rtt : Nat]
Pools(N) == [1..N -> ConnRec]
SomeGood(N, conns) == \E i \in 1..N : Good(conns, i)

(* ------------------------------------------------------------------ maxima *)
LEMMA MaxExists ==
  ASSUME NEW N \in Nat, N >= 1, NEW f \in [1..N -> Nat]
  PROVE  \E m \in 1..N : \A i \in 1..N : f[i] <= f[m]
<1> DEFINE P(n) == (n >= 1 /\ n <= N) => \E m \in 1..n : \A i \in 1..n : f[i] <= f[m]
<1>1. P(0)
  OBVIOUS
<1>2. ASSUME NEW n \in Nat, P(n) PROVE P(n+1)
  <2> SUFFICES ASSUME n + 1 >= 1, n + 1 <= N
               PROVE  \E m \in 1..(n+1) : \A i \in 1..(n+1) : f[i] <= f[m]
    OBVIOUS
  <2>1. CASE n = 0
    <3>1. \A i \in 1..(n+1) : i = 1
      BY <2>1
    <3>2. 1 \in 1..(n+1)
      BY <2>1
    <3> QED
      BY <3>1, <3>2
  <2>2. CASE n >= 1
    <3>1. PICK m0 \in 1..n : \A i \in 1..n : f[i] <= f[m0]
      BY <1>2, <2>2
    <3>2. f[m0] \in Nat /\ f[n+1] \in Nat /\ m0 \in 1..N /\ n+1 \in 1..N
      OBVIOUS
    <3>3. CASE f[n+1] <= f[m0]
      <4>1. \A i \in 1..(n+1) : f[i] <= f[m0]
        BY <3>1, <3>3
      <4>2. m0 \in 1..(n+1)
        OBVIOUS
      <4> QED
        BY <4>1, <4>2
    <3>4. CASE ~(f[n+1] <= f[m0])
      <4>1. \A i \in 1..(n+1) : f[i] <= f[n+1]
        <5> TAKE i \in 1..(n+1)
        <5>1. CASE i = n+1
          BY <5>1, <3>2
        <5>2. CASE i \in 1..n
          <6>1. f[i] <= f[m0] /\ f[i] \in Nat
            BY <3>1, <5>2
          <6> QED
            BY <6>1, <3>2, <3>4
        <5> QED
          BY <5>1, <5>2
      <4>2. n+1 \in 1..(n+1)
        OBVIOUS
      <4> QED
        BY <4>1, <4>2
    <3> QED
      BY <3>3, <3>4
  <2> QED
    BY <2>1, <2>2
<1>3. \A n \in Nat : P(n)
  <2> HIDE DEF P
  <2> QED
    BY <1>1, <1>2, NatInduction, Isa
<1> QED
  BY <1>3

THEOREM NewestIsMax ==
  ASSUME NEW N \in Nat, N >= 1, NEW conns \in Pools(N)
  PROVE  /\ Newest(conns) \in Nat
         /\ \E i \in 1..N : conns[i].seqno = Newest(conns)
         /\ \A i \in 1..N : conns[i].seqno <= Newest(conns)
<1> DEFINE f == [i \in 1..N |-> conns[i].seqno]
           S == {conns[i].seqno : i \in DOMAIN conns}
<1>0. DOMAIN conns = 1..N /\ \A i \in 1..N : conns[i].seqno \in Nat
  BY DEF Pools, ConnRec
<1>1. f \in [1..N -> Nat]
  BY <1>0
<1>2. PICK m \in 1..N : \A i \in 1..N : f[i] <= f[m]
  BY <1>1, MaxExists
<1>3. conns[m].seqno \in S /\ \A i \in DOMAIN conns : conns[i].seqno <= conns[m].seqno
  BY <1>0, <1>2
<1>4. \E x \in S : \A i \in DOMAIN conns : conns[i].seqno <= x
  BY <1>3
<1>5. Newest(conns) \in S /\ \A i \in DOMAIN conns : conns[i].seqno <= Newest(conns)
  BY <1>4 DEF Newest
<1> QED
  BY <1>5, <1>0

(* ------------------------------------------- Good without reference to CHOOSE *)
THEOREM GoodMeaning ==
  ASSUME NEW N \in Nat, N >= 1, NEW conns \in Pools(N), NEW i \in 1..N
  PROVE  Good(conns, i) <=> /\ conns[i].alive
                            /\ \A j \in 1..N : conns[j].seqno <= conns[i].seqno + 1
<1>0. \A j \in 1..N : conns[j].seqno \in Nat
  BY DEF Pools, ConnRec
<1>1. /\ Newest(conns) \in Nat
      /\ \E j \in 1..N : conns[j].seqno = Newest(conns)
      /\ \A j \in 1..N : conns[j].seqno <= Newest(conns)
  BY NewestIsMax
<1>2. conns[i].seqno + 1 >= Newest(conns) <=> \A j \in 1..N : conns[j].seqno <= conns[i].seqno + 1
  BY <1>0, <1>1
<1> QED
  BY <1>2 DEF Good

(* ---------------------------------------------------- a refresh has an outcome *)
LEMMA GoodSetFacts ==
  ASSUME NEW N \in Nat, NEW conns \in Pools(N)
  PROVE  /\ DOMAIN conns = 1..N
         /\ GoodSet(conns) \subseteq 1..N
         /\ GoodSet(conns) = {i \in 1..N : Good(conns, i)}
         /\ \A i \in 1..N : conns[i].rtt \in Nat /\ conns[i].seqno \in Nat /\ conns[i].alive \in BOOLEAN
  BY DEF Pools, ConnRec, GoodSet

THEOREM ChoicesNonEmpty ==
  ASSUME NEW N \in Nat, NEW conns \in Pools(N), NEW strategy \in Strategies, NEW prev
  PROVE  Choices(strategy, conns, prev) # {}
<1>0. /\ GoodSet(conns) \subseteq 1..N
      /\ \A i \in 1..N : conns[i].rtt \in Nat
  BY GoodSetFacts
<1>1. CASE DOMAIN conns = {} \/ GoodSet(conns) = {}
  BY <1>1 DEF Choices
<1>2. CASE ~(DOMAIN conns = {} \/ GoodSet(conns) = {})
  <2>1. PICK g \in GoodSet(conns) : TRUE
    BY <1>2
  <2>2. CASE strategy = "best-ping"
    <3> DEFINE P(n) == \E i \in GoodSet(conns) : conns[i].rtt = n
    <3>1. conns[g].rtt \in Nat /\ P(conns[g].rtt)
      BY <1>0, <2>1
    <3>2. PICK m \in Nat : P(m) /\ \A k \in 0..(m-1) : ~P(k)
      <4> HIDE DEF P
      <4> QED
        BY <3>1, SmallestNatural, Isa
    <3>3. PICK b \in GoodSet(conns) : conns[b].rtt = m
      BY <3>2
    <3>4. \A j \in GoodSet(conns) : conns[b].rtt <= conns[j].rtt
      <4> TAKE j \in GoodSet(conns)
      <4>1. conns[j].rtt \in Nat /\ P(conns[j].rtt)
        BY <1>0
      <4>2. ~(conns[j].rtt \in 0..(m-1))
        BY <4>1, <3>2
      <4> QED
        BY <4>1, <4>2, <3>3
    <3>5. b \in BestPing(conns)
      BY <3>3, <3>4 DEF BestPing
    <3> QED
      BY <3>5, <1>2, <2>2 DEF Choices
  <2>3. CASE strategy = "first-working"
    <3> DEFINE P(n) == n \in GoodSet(conns)
    <3>1. g \in Nat /\ P(g)
      BY <1>0, <2>1
    <3>2. PICK m \in Nat : P(m) /\ \A k \in 0..(m-1) : ~P(k)
      <4> HIDE DEF P
      <4> QED
        BY <3>1, SmallestNatural, Isa
    <3>3. \A j \in GoodSet(conns) : m <= j
      <4> TAKE j \in GoodSet(conns)
      <4>1. j \in Nat /\ P(j)
        BY <1>0
      <4>2. ~(j \in 0..(m-1))
        BY <4>1, <3>2
      <4> QED
        BY <4>1, <4>2
    <3>4. m \in FirstWorking(conns)
      BY <3>2, <3>3 DEF FirstWorking
    <3> QED
      BY <3>4, <1>2, <2>3 DEF Choices
  <2> QED
    BY <2>2, <2>3 DEF Strategies
<1> QED
  BY <1>1, <1>2

(* ------------------------------------------------------- the rule of C13 *)
THEOREM SelectionRule ==
  ASSUME NEW N \in Nat, NEW conns \in Pools(N), NEW strategy \in Strategies, NEW prev,
         NEW b \in Choices(strategy, conns, prev)
  PROVE  /\ SomeGood(N, conns) =>
              /\ b \in 1..N /\ Good(conns, b)
              /\ strategy = "best-ping" => \A j \in 1..N : Good(conns, j) => conns[b].rtt <= conns[j].rtt
              /\ strategy = "first-working" => \A j \in 1..N : Good(conns, j) => b <= j
         /\ ~SomeGood(N, conns) => b = prev
<1>0. /\ DOMAIN conns = 1..N
      /\ GoodSet(conns) = {i \in 1..N : Good(conns, i)}
  BY GoodSetFacts
<1>1. ASSUME SomeGood(N, conns)
      PROVE  /\ b \in 1..N /\ Good(conns, b)
             /\ strategy = "best-ping" => \A j \in 1..N : Good(conns, j) => conns[b].rtt <= conns[j].rtt
             /\ strategy = "first-working" => \A j \in 1..N : Good(conns, j) => b <= j
  <2>1. GoodSet(conns) # {} /\ DOMAIN conns # {}
    BY <1>0, <1>1 DEF SomeGood
  <2>2. CASE strategy = "best-ping"
    <3>1. b \in BestPing(conns)
      BY <2>1, <2>2 DEF Choices
    <3> QED
      BY <3>1, <1>0, <2>2 DEF BestPing
  <2>3. CASE strategy = "first-working"
    <3>1. b \in FirstWorking(conns)
      BY <2>1, <2>3 DEF Choices
    <3> QED
      BY <3>1, <1>0, <2>3 DEF FirstWorking
  <2> QED
    BY <2>2, <2>3 DEF Strategies
<1>2. ASSUME ~SomeGood(N, conns) PROVE b = prev
  <2>1. GoodSet(conns) = {}
    BY <1>0, <1>2 DEF SomeGood
  <2> QED
    BY <2>1 DEF Choices
<1> QED
  BY <1>1, <1>2

THEOREM FirstWorkingUnique ==
  ASSUME NEW N \in Nat, NEW conns \in Pools(N), NEW prev,
         NEW b1 \in Choices("first-working", conns, prev),
         NEW b2 \in Choices("first-working", conns, prev)
  PROVE  b1 = b2
<1>0. "first-working" \in Strategies
  BY DEF Strategies
<1>1. CASE SomeGood(N, conns)
  <2>1. /\ b1 \in 1..N /\ Good(conns, b1) /\ \A j \in 1..N : Good(conns, j) => b1 <= j
    BY <1>0, <1>1, SelectionRule
  <2>2. /\ b2 \in 1..N /\ Good(conns, b2) /\ \A j \in 1..N : Good(conns, j) => b2 <= j
    BY <1>0, <1>1, SelectionRule
  <2> QED
    BY <2>1, <2>2
<1>2. CASE ~SomeGood(N, conns)
  BY <1>0, <1>2, SelectionRule
<1> QED
  BY <1>1, <1>2

(* ------------------------------------------------------------ consequences *)
\* alive, and at most one masterchain block behind the newest head any connection of the pool (alive or not) reports
THEOREM ChosenIsHealthy ==
  ASSUME NEW N \in Nat, NEW conns \in Pools(N), NEW strategy \in Strategies, NEW prev,
         NEW b \in Choices(strategy, conns, prev), SomeGood(N, conns)
  PROVE  /\ b \in 1..N /\ conns[b].alive
         /\ \A j \in 1..N : conns[j].seqno <= conns[b].seqno + 1
<1>1. b \in 1..N /\ Good(conns, b)
  BY SelectionRule
<1>2. N >= 1
  BY <1>1
<1> QED
  BY <1>1, <1>2, GoodMeaning

\* the hypothesis of the rule, spelled out: some connection is alive and at most one block behind everybody
THEOREM SomeGoodMeaning ==
  ASSUME NEW N \in Nat, NEW conns \in Pools(N)
  PROVE  SomeGood(N, conns) <=>
           \E i \in 1..N : conns[i].alive /\ \A j \in 1..N : conns[j].seqno <= conns[i].seqno + 1
<1>1. CASE N = 0
  BY <1>1 DEF SomeGood
<1>2. CASE N >= 1
  BY <1>2, GoodMeaning DEF SomeGood
<1> QED
  BY <1>1, <1>2

THEOREM AllDeadKeeps ==
  ASSUME NEW N \in Nat, NEW conns \in Pools(N), NEW strategy \in Strategies, NEW prev,
         \A i \in 1..N : ~conns[i].alive
  PROVE  Choices(strategy, conns, prev) = {prev}
<1>1. GoodSet(conns) = {}
  BY GoodSetFacts DEF Good
<1> QED
  BY <1>1 DEF Choices

THEOREM EmptyKeeps ==
  ASSUME NEW conns \in Pools(0), NEW strategy \in Strategies, NEW prev
  PROVE  Choices(strategy, conns, prev) = {prev}
  BY AllDeadKeeps

(* ------------------------------------ connections that are not alive *)
LEMMA SameGoodSet ==
  ASSUME NEW N \in Nat, NEW c1 \in Pools(N), NEW c2 \in Pools(N),
         \A i \in 1..N : c1[i].alive <=> c2[i].alive,
         \A i \in 1..N : c1[i].alive => c2[i] = c1[i],
         Newest(c1) = Newest(c2)
  PROVE  GoodSet(c1) = GoodSet(c2)
<1>1. /\ GoodSet(c1) = {i \in 1..N : Good(c1, i)}
      /\ GoodSet(c2) = {i \in 1..N : Good(c2, i)}
  BY GoodSetFacts
<1>2. \A i \in 1..N : Good(c1, i) <=> Good(c2, i)
  BY DEF Good
<1> QED
  BY <1>1, <1>2

THEOREM DeadIrrelevant ==
  ASSUME NEW N \in Nat, NEW c1 \in Pools(N), NEW c2 \in Pools(N), NEW strategy \in Strategies, NEW prev,
         \A i \in 1..N : c1[i].alive <=> c2[i].alive,
         \A i \in 1..N : c1[i].alive => c2[i] = c1[i],
         Newest(c1) = Newest(c2)
  PROVE  Choices(strategy, c1, prev) = Choices(strategy, c2, prev)
<1>1. GoodSet(c1) = GoodSet(c2)
  BY SameGoodSet
<1>2. DOMAIN c1 = 1..N /\ DOMAIN c2 = 1..N /\ GoodSet(c1) \subseteq 1..N
  BY GoodSetFacts
<1>3. \A i \in GoodSet(c1) : c1[i].alive /\ c2[i] = c1[i]
  BY <1>2 DEF GoodSet, Good
<1>4. BestPing(c1) = BestPing(c2)
  BY <1>1, <1>3 DEF BestPing
<1>5. FirstWorking(c1) = FirstWorking(c2)
  BY <1>1 DEF FirstWorking
<1> QED
  BY <1>1, <1>2, <1>4, <1>5 DEF Choices

\* the round-trip time of a connection that is not alive never matters
THEOREM DeadRttIrrelevant ==
  ASSUME NEW N \in Nat, NEW c1 \in Pools(N), NEW strategy \in Strategies, NEW prev,
         NEW k \in 1..N, ~c1[k].alive, NEW r \in Nat
  PROVE  Choices(strategy, [c1 EXCEPT ![k].rtt = r], prev) = Choices(strategy, c1, prev)
<1> DEFINE c2 == [c1 EXCEPT ![k].rtt = r]
<1>0. DOMAIN c1 = 1..N /\ \A i \in 1..N : c1[i] \in ConnRec
  BY DEF Pools
<1>1. c2 \in Pools(N)
  BY <1>0 DEF Pools, ConnRec
<1>2. /\ \A i \in 1..N : c2[i].alive = c1[i].alive /\ c2[i].seqno = c1[i].seqno
      /\ \A i \in 1..N : i # k => c2[i] = c1[i]
      /\ DOMAIN c2 = DOMAIN c1
  BY <1>0 DEF ConnRec
<1>3. {c1[i].seqno : i \in DOMAIN c1} = {c2[i].seqno : i \in DOMAIN c2}
  BY <1>0, <1>2
<1>4. Newest(c1) = Newest(c2)
  BY <1>0, <1>2, <1>3 DEF Newest
<1>5. \A i \in 1..N : c1[i].alive => c2[i] = c1[i]
  BY <1>2
<1>6. \A i \in 1..N : c1[i].alive <=> c2[i].alive
  BY <1>2
<1>7. Choices(strategy, c1, prev) = Choices(strategy, c2, prev)
  <2> HIDE DEF c2
  <2> QED
    BY <1>1, <1>4, <1>5, <1>6, DeadIrrelevant
<1> QED
  BY <1>7

\* the newest head known to the pool moves forward (e.g. a dead connection's last head was ahead): candidates only drop out
THEOREM NewerHeadShrinks ==
  ASSUME NEW N \in Nat, NEW c1 \in Pools(N), NEW c2 \in Pools(N),
         \A i \in 1..N : c1[i].alive <=> c2[i].alive,
         \A i \in 1..N : c1[i].alive => c2[i] = c1[i],
         Newest(c1) <= Newest(c2)
  PROVE  GoodSet(c2) \subseteq GoodSet(c1)
<1>1. /\ GoodSet(c1) = {i \in 1..N : Good(c1, i)}
      /\ GoodSet(c2) = {i \in 1..N : Good(c2, i)}
      /\ \A i \in 1..N : c1[i].seqno \in Nat /\ c2[i].seqno \in Nat
  BY GoodSetFacts
<1>2. CASE N = 0
  BY <1>1, <1>2
<1>3. CASE N >= 1
  <2>1. Newest(c1) \in Nat /\ Newest(c2) \in Nat
    BY <1>3, NewestIsMax
  <2>2. \A i \in 1..N : Good(c2, i) => Good(c1, i)
    BY <1>1, <2>1 DEF Good
  <2> QED
    BY <1>1, <2>2
<1> QED
  BY <1>2, <1>3
=============================================================================
