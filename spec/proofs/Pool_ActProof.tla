---------------------------- MODULE Pool_ActProof ----------------------------
(* C13 wait list, TLAPS, arbitrary NC and Waiters: every step of the open       *)
(* environment taken from a state satisfying the inductive invariant obeys the *)
(* ACTION-level discipline ActGoals of Pool_Inv.tla: a waiter channel is       *)
(* written only by the run loop under the read lock (to a registered channel), *)
(* by the owner's subscribe under the write lock before registration, or read  *)
(* by its owner; the wait list changes only under the write lock;              *)
(* SetMasterHead does not hold the connection lock when it sends.              *)
EXTENDS Pool_IndProof

LEMMA A_SmhLock == ASSUME ParamOK, PInv, NEW k \in Conns, NEW s \in Nat, SmhLock(k, s) PROVE ActGoals
  BY SMT DEF ActGoals, ChanWriteDiscipline, WaitListDiscipline, ConnLockDiscipline, connVars, poolVars, waitVars, runVars, SmhLock

LEMMA A_SmhSet == ASSUME ParamOK, PInv, NEW k \in Conns, SmhSet(k) PROVE ActGoals
  BY SMT DEF ActGoals, ChanWriteDiscipline, WaitListDiscipline, ConnLockDiscipline, connVars, poolVars, waitVars, runVars, SmhSet

LEMMA A_SmhSend == ASSUME ParamOK, PInv, NEW k \in Conns, SmhSend(k) PROVE ActGoals
  BY InfNat, SMT DEF ParamOK, PInv, FT, FT_Conn, FT_Pool, FT_Wait, FT_Run, IndInv, TypeInv, LockInv, TI_Conn, TI_Pool, TI_Chan, TI_Run, LI_RW, LI_Run, LI_Wait, LI_Reg, LI_Clk, Procs, CPcs, RPcs, WPcs, WIn, WPend, Conns, WCap, connVars, poolVars, waitVars, runVars, Msg2, Msg3, ActGoals, ChanWriteDiscipline, WaitListDiscipline, ConnLockDiscipline, SmhSend, G_SmhSend

LEMMA A_Flip == ASSUME ParamOK, PInv, NEW k \in Conns, Flip(k) PROVE ActGoals
  BY SMT DEF ActGoals, ChanWriteDiscipline, WaitListDiscipline, ConnLockDiscipline, connVars, poolVars, waitVars, runVars, Flip

LEMMA A_RunRecv == ASSUME ParamOK, PInv, RunRecv PROVE ActGoals
  BY InfNat, SMT DEF ParamOK, PInv, FT, FT_Conn, FT_Pool, FT_Wait, FT_Run, IndInv, TypeInv, LockInv, TI_Conn, TI_Pool, TI_Chan, TI_Run, LI_RW, LI_Run, LI_Wait, LI_Reg, LI_Clk, Procs, CPcs, RPcs, WPcs, WIn, WPend, Conns, WCap, connVars, poolVars, waitVars, runVars, Msg2, Msg3, ActGoals, ChanWriteDiscipline, WaitListDiscipline, ConnLockDiscipline, RunRecv

LEMMA A_RunRLock == ASSUME ParamOK, PInv, RunRLock PROVE ActGoals
  BY SMT DEF ActGoals, ChanWriteDiscipline, WaitListDiscipline, ConnLockDiscipline, connVars, poolVars, waitVars, runVars, RunRLock, Free, RLock

LEMMA A_RunSend == ASSUME ParamOK, PInv, NEW w \in Waiters, RunSend(w) PROVE ActGoals
<1> DEFINE e == <<rupd[2], rupd[1], best>>
<1>1. Len(<<e>>) = 1
  OBVIOUS
<1>2. /\ ch' = [ch EXCEPT ![w] = <<e>>] /\ reg' = reg /\ updCh' = updCh
      /\ rpc = "send" /\ w \in rtodo
  BY DEF RunSend, G_RunSend, ParamOK, connVars
<1> HIDE DEF e
<1> QED
  BY <1>1, <1>2, SMT DEF ParamOK, PInv, FT, FT_Conn, FT_Pool, FT_Wait, FT_Run, IndInv, TypeInv, LockInv, TI_Conn, TI_Pool, TI_Chan, TI_Run, LI_RW, LI_Run, LI_Wait, LI_Reg, LI_Clk, Procs, CPcs, RPcs, WPcs, WIn, WPend, Conns, WCap, connVars, poolVars, waitVars, runVars, Msg2, Msg3, ActGoals, ChanWriteDiscipline, WaitListDiscipline, ConnLockDiscipline

LEMMA A_RunRUnlock == ASSUME ParamOK, PInv, RunRUnlock PROVE ActGoals
  BY SMT DEF ActGoals, ChanWriteDiscipline, WaitListDiscipline, ConnLockDiscipline, connVars, poolVars, waitVars, runVars, RunRUnlock, RUnlock

LEMMA A_RunTick == ASSUME ParamOK, PInv, RunTick PROVE ActGoals
  BY SMT DEF ActGoals, ChanWriteDiscipline, WaitListDiscipline, ConnLockDiscipline, connVars, poolVars, waitVars, runVars, RunTick, Free, Announce

LEMMA A_RunUpdAcq == ASSUME ParamOK, PInv, RunUpdAcq PROVE ActGoals
  BY SMT DEF ActGoals, ChanWriteDiscipline, WaitListDiscipline, ConnLockDiscipline, connVars, poolVars, waitVars, runVars, RunUpdAcq, CanAcquire, Acquire

LEMMA A_RunUpdBody == ASSUME ParamOK, PInv, RunUpdBody PROVE ActGoals
  BY SMT DEF ActGoals, ChanWriteDiscipline, WaitListDiscipline, ConnLockDiscipline, connVars, poolVars, waitVars, runVars, RunUpdBody, WUnlock, UpdateBest, Choices, BestPing, FirstWorking, GoodSet, ConnState

LEMMA A_WStart == ASSUME ParamOK, PInv, NEW w \in Waiters, NEW s \in Nat, NEW t \in Nat, WStart(w, s, t) PROVE ActGoals
  BY SMT DEF ActGoals, ChanWriteDiscipline, WaitListDiscipline, ConnLockDiscipline, connVars, poolVars, waitVars, runVars, WStart

LEMMA A_WSubAnn == ASSUME ParamOK, PInv, NEW w \in Waiters, WSubAnn(w) PROVE ActGoals
  BY SMT DEF ActGoals, ChanWriteDiscipline, WaitListDiscipline, ConnLockDiscipline, connVars, poolVars, waitVars, runVars, WSubAnn, Free, Announce

LEMMA A_WSubAcq == ASSUME ParamOK, PInv, NEW w \in Waiters, WSubAcq(w) PROVE ActGoals
  BY SMT DEF ActGoals, ChanWriteDiscipline, WaitListDiscipline, ConnLockDiscipline, connVars, poolVars, waitVars, runVars, WSubAcq, CanAcquire, Acquire

LEMMA A_WSubRead == ASSUME ParamOK, PInv, NEW w \in Waiters, WSubRead(w) PROVE ActGoals
  BY SMT DEF ActGoals, ChanWriteDiscipline, WaitListDiscipline, ConnLockDiscipline, connVars, poolVars, waitVars, runVars, WSubRead

LEMMA A_WSubBody == ASSUME ParamOK, PInv, NEW w \in Waiters, WSubBody(w) PROVE ActGoals
<1> DEFINE e == <<hread[w], best, best>>
<1>1. Len(<<e>>) = 1
  OBVIOUS
<1>2. /\ ch' = IF hread[w] >= want[w] THEN [ch EXCEPT ![w] = <<e>>] ELSE ch
      /\ reg' = IF hread[w] >= want[w] THEN reg ELSE [reg EXCEPT ![w] = TRUE]
      /\ wpc[w] = "sub_rd" /\ updCh' = updCh
  BY DEF WSubBody, G_WSubBody, connVars
<1> HIDE DEF e
<1> QED
  BY <1>1, <1>2, SMT DEF ParamOK, PInv, FT, FT_Conn, FT_Pool, FT_Wait, FT_Run, IndInv, TypeInv, LockInv, TI_Conn, TI_Pool, TI_Chan, TI_Run, LI_RW, LI_Run, LI_Wait, LI_Reg, LI_Clk, Procs, CPcs, RPcs, WPcs, WIn, WPend, Conns, WCap, connVars, poolVars, waitVars, runVars, Msg2, Msg3, ActGoals, ChanWriteDiscipline, WaitListDiscipline, ConnLockDiscipline

LEMMA A_WRecv == ASSUME ParamOK, PInv, NEW w \in Waiters, WRecv(w) PROVE ActGoals
  BY InfNat, SMT DEF ParamOK, PInv, FT, FT_Conn, FT_Pool, FT_Wait, FT_Run, IndInv, TypeInv, LockInv, TI_Conn, TI_Pool, TI_Chan, TI_Run, LI_RW, LI_Run, LI_Wait, LI_Reg, LI_Clk, Procs, CPcs, RPcs, WPcs, WIn, WPend, Conns, WCap, connVars, poolVars, waitVars, runVars, Msg2, Msg3, ActGoals, ChanWriteDiscipline, WaitListDiscipline, ConnLockDiscipline, WRecv, G_WRecv

LEMMA A_WTimeout == ASSUME ParamOK, PInv, NEW w \in Waiters, WTimeout(w) PROVE ActGoals
  BY SMT DEF ActGoals, ChanWriteDiscipline, WaitListDiscipline, ConnLockDiscipline, connVars, poolVars, waitVars, runVars, WTimeout

LEMMA A_Cancel == ASSUME ParamOK, PInv, NEW w \in Waiters, Cancel(w) PROVE ActGoals
  BY SMT DEF ActGoals, ChanWriteDiscipline, WaitListDiscipline, ConnLockDiscipline, connVars, poolVars, waitVars, runVars, Cancel

LEMMA A_WCancelRet == ASSUME ParamOK, PInv, NEW w \in Waiters, WCancelRet(w) PROVE ActGoals
  BY SMT DEF ActGoals, ChanWriteDiscipline, WaitListDiscipline, ConnLockDiscipline, connVars, poolVars, waitVars, runVars, WCancelRet

LEMMA A_WUnsubAnn == ASSUME ParamOK, PInv, NEW w \in Waiters, WUnsubAnn(w) PROVE ActGoals
  BY SMT DEF ActGoals, ChanWriteDiscipline, WaitListDiscipline, ConnLockDiscipline, connVars, poolVars, waitVars, runVars, WUnsubAnn, Free, Announce

LEMMA A_WUnsubAcq == ASSUME ParamOK, PInv, NEW w \in Waiters, WUnsubAcq(w) PROVE ActGoals
  BY SMT DEF ActGoals, ChanWriteDiscipline, WaitListDiscipline, ConnLockDiscipline, connVars, poolVars, waitVars, runVars, WUnsubAcq, CanAcquire, Acquire

LEMMA A_WUnsubBody == ASSUME ParamOK, PInv, NEW w \in Waiters, WUnsubBody(w) PROVE ActGoals
  BY InfNat, SMT DEF ParamOK, PInv, FT, FT_Conn, FT_Pool, FT_Wait, FT_Run, IndInv, TypeInv, LockInv, TI_Conn, TI_Pool, TI_Chan, TI_Run, LI_RW, LI_Run, LI_Wait, LI_Reg, LI_Clk, Procs, CPcs, RPcs, WPcs, WIn, WPend, Conns, WCap, connVars, poolVars, waitVars, runVars, Msg2, Msg3, ActGoals, ChanWriteDiscipline, WaitListDiscipline, ConnLockDiscipline, WUnsubBody, G_WUnsubBody, WUnlock

LEMMA A_Tick == ASSUME ParamOK, PInv, Tick PROVE ActGoals
  BY SMT DEF ActGoals, ChanWriteDiscipline, WaitListDiscipline, ConnLockDiscipline, connVars, poolVars, waitVars, runVars, Tick

THEOREM ActDiscipline == ASSUME ParamOK PROVE PInv /\ GNext => ActGoals
<1> SUFFICES ASSUME PInv, GNext PROVE ActGoals
  OBVIOUS
<1>2. CASE \E k \in Conns : SmhSet(k) \/ SmhSend(k)
  BY <1>2, A_SmhSet, A_SmhSend
<1>3. CASE RunRecv \/ RunRLock \/ RunRUnlock \/ RunUpdAcq \/ RunUpdBody
  BY <1>3, A_RunRecv, A_RunRLock, A_RunRUnlock, A_RunUpdAcq, A_RunUpdBody
<1>4. CASE \E w \in Waiters : \/ RunSend(w) \/ WSubAnn(w) \/ WSubAcq(w) \/ WSubRead(w) \/ WSubBody(w) \/ WRecv(w) \/ WTimeout(w)
                              \/ WCancelRet(w) \/ WUnsubAnn(w) \/ WUnsubAcq(w) \/ WUnsubBody(w)
  BY <1>4, A_RunSend, A_WSubAnn, A_WSubAcq, A_WSubRead, A_WSubBody, A_WRecv, A_WTimeout, A_WCancelRet, A_WUnsubAnn, A_WUnsubAcq, A_WUnsubBody
<1>5. CASE \E k \in Conns : (\E s \in Nat : SmhLock(k, s)) \/ Flip(k)
  BY <1>5, A_SmhLock, A_Flip
<1>6. CASE RunTick
  BY <1>6, A_RunTick
<1>7. CASE \E w \in Waiters : (\E s \in Nat : \E t \in Nat : WStart(w, s, t)) \/ Cancel(w)
  BY <1>7, A_WStart, A_Cancel
<1>8. CASE Tick
  BY <1>8, A_Tick
<1> QED
  BY <1>2, <1>3, <1>4, <1>5, <1>6, <1>7, <1>8 DEF GNext, Internal, GEnv

THEOREM ActSafety == ASSUME ParamOK, Rtt0 \in [Conns -> Nat] PROVE GSpec => [][ActGoals]_vars
<1>1. Init => PInv
  BY InitPInv
<1>2. PInv /\ [GNext]_vars => PInv'
  BY StepPInv
<1>3. PInv /\ GNext => ActGoals
  BY ActDiscipline
<1> QED
  BY <1>1, <1>2, <1>3, PTL DEF GSpec
=============================================================================
