------------------------------ MODULE Adnl_Abs ------------------------------
(* C11, the state-machine half of Adnl.tla WITHOUT the crypto operators: one    *)
(* direction of an ADNL connection at the granularity of frames.               *)
(*                                                                             *)
(* This is an ABSTRACTION written for the proof tools, not a typed copy: the   *)
(* byte streams, AES-CTR offsets, SHA-256 checksums and length fields of       *)
(* Adnl.tla are replaced by frame tokens [pl |-> payload, ok |-> BOOLEAN].     *)
(* ok = FALSE means "some byte of this frame was altered in transit, or the    *)
(* stream was cut inside it, or the sender stopped inside it".  The ONE place  *)
(* where cryptography enters Adnl.tla's invariants is                          *)
(*                                                                             *)
(*   ASSUMPTION (frame integrity): a receiver never accepts a frame that is    *)
(*   not ok - Peek answers "bad" (length out of bounds, checksum mismatch) or  *)
(*   keeps waiting for bytes that never come; it never answers "pkt".          *)
(*                                                                             *)
(* (For the checksum this is second-preimage resistance of SHA-256 over        *)
(* nonce || payload; for the CTR stream it is the fact that XOR is positional, *)
(* so an altered byte alters exactly that plaintext byte.)  Adnl_MC checks     *)
(* with TLC, byte by byte and with the real primitives, that the concrete      *)
(* model has this property on its instances; here the assumption is built into *)
(* Deliver, and the two clauses of C11 are proved for ANY payloads, ANY        *)
(* interleaving of sends, arrivals and faults, ANY number of faults (Adnl_MC   *)
(* injects one).  What corresponds to what:                                    *)
(*                                                                             *)
(*   Adnl.tla (direction d)                  here                              *)
(*   sent[d], delivered[d], dead[d], hit[d]  sent, delivered, dead, hit        *)
(*   eof[d]                                  cut                               *)
(*   frames of units[d] not yet parsed       wire (tokens), nrx = frames parsed *)
(*   Send                                    Send                              *)
(*   Corrupt(d, i, v), i in frame j          Corrupt(j - nrx)                  *)
(*   Truncate(d)                             Truncate(i): the first i-1 frames *)
(*                                           in flight had arrived completely  *)
(*   SendHeaderOnly                          Dangling                          *)
(*   Deliver "pkt" / "bad" / "more"+eof      Deliver / Deliver / DeliverEof    *)
(*   HsDeliver rejecting, Segment            GiveUp / stuttering               *)
(*                                                                             *)
(* The correspondence is an argument, NOT a mechanically checked refinement.   *)
EXTENDS Integers, Sequences

VARIABLES
  \* @type: Seq(Int);
  sent,        \* payloads handed to the sender
  \* @type: Seq({ pl: Int, ok: Bool });
  wire,        \* frames written and not yet parsed by the receiver, oldest first
  \* @type: Bool;
  cut,         \* nothing will follow what is in `wire` (sender closed / stream cut)
  \* @type: Int;
  nrx,         \* ghost: number of frames the receiver has parsed (delivered or rejected)
  \* @type: Seq(Int);
  delivered,   \* payloads handed out by the receiver
  \* @type: Bool;
  dead,        \* the receiver has given up
  \* @type: Int;
  hit          \* ghost: index in `sent` of the first frame touched by a fault, 0 = none (Adnl!Mark)

vars == <<sent, wire, cut, nrx, delivered, dead, hit>>

Init == /\ sent = <<>> /\ wire = <<>> /\ cut = FALSE /\ nrx = 0
        /\ delivered = <<>> /\ dead = FALSE /\ hit = 0

Mark(fr) == hit' = IF hit = 0 \/ fr < hit THEN fr ELSE hit

Send(p) ==
  /\ ~cut
  /\ sent' = Append(sent, p) /\ wire' = Append(wire, [pl |-> p, ok |-> TRUE])
  /\ UNCHANGED <<cut, nrx, delivered, dead, hit>>

\* a byte of the i-th frame in flight is altered
Corrupt(i) ==
  /\ i \in DOMAIN wire
  /\ wire' = [wire EXCEPT ![i].ok = FALSE]
  /\ Mark(nrx + i)
  /\ UNCHANGED <<sent, cut, nrx, delivered, dead>>

\* the stream is cut: the first i-1 frames in flight had arrived completely, the rest is lost
\* (i = Len(wire) + 1: an orderly close, nothing is lost)
Truncate(i) ==
  /\ ~cut /\ i \in 1..(Len(wire) + 1)
  /\ wire' = SubSeq(wire, 1, i - 1) /\ cut' = TRUE
  /\ IF i <= Len(wire) THEN Mark(nrx + i) ELSE UNCHANGED hit
  /\ UNCHANGED <<sent, nrx, delivered, dead>>

\* the sender stops inside a frame that is not one of `sent` (Adnl!SendHeaderOnly)
Dangling ==
  /\ ~cut
  /\ wire' = Append(wire, [pl |-> 0, ok |-> FALSE]) /\ cut' = TRUE
  /\ Mark(Len(sent) + 1)
  /\ UNCHANGED <<sent, nrx, delivered, dead>>

\* the receiver parses the next frame; by the frame-integrity assumption it hands out the payload only if the frame is ok
Deliver ==
  /\ ~dead /\ wire # <<>>
  /\ IF Head(wire).ok THEN delivered' = Append(delivered, Head(wire).pl) /\ UNCHANGED dead
                      ELSE dead' = TRUE /\ UNCHANGED delivered
  /\ wire' = Tail(wire) /\ nrx' = nrx + 1
  /\ UNCHANGED <<sent, cut, hit>>

DeliverEof ==
  /\ ~dead /\ wire = <<>> /\ cut
  /\ dead' = TRUE
  /\ UNCHANGED <<sent, wire, cut, nrx, delivered, hit>>

\* the receiver may give up for reasons outside this direction (handshake rejected, the peer closed)
GiveUp == /\ ~dead /\ dead' = TRUE /\ UNCHANGED <<sent, wire, cut, nrx, delivered, hit>>

Next == \/ \E p \in Int : Send(p)
        \/ \E i \in DOMAIN wire : Corrupt(i)
        \/ \E i \in 1..(Len(wire) + 1) : Truncate(i)
        \/ Dangling \/ Deliver \/ DeliverEof \/ GiveUp
Spec == Init /\ [][Next]_vars

(* ------------------------------------------------------- the clauses of C11 *)
DeliveredIsPrefixOfSent ==
  /\ Len(delivered) <= Len(sent)
  /\ \A i \in DOMAIN delivered : delivered[i] = sent[i]
NothingFromHitFrameOn == hit # 0 => Len(delivered) < hit
Goals == DeliveredIsPrefixOfSent /\ NothingFromHitFrameOn

(* ------------------------------------------------------ inductive invariant *)
IndInv ==
  /\ nrx \in Nat /\ hit \in Nat
  \* the receiver has parsed what it delivered, plus at most the frame that killed it
  /\ Len(delivered) <= nrx /\ (~dead => Len(delivered) = nrx)
  /\ DeliveredIsPrefixOfSent
  \* an undamaged frame in flight is the sent frame at its position
  /\ \A i \in DOMAIN wire : wire[i].ok => nrx + i <= Len(sent) /\ wire[i].pl = sent[nrx + i]
  \* until the stream is cut every sent frame is parsed or in flight
  /\ ~cut => nrx + Len(wire) = Len(sent)
  \* the first frame touched by a fault has not been delivered, and it is still there to stop the receiver:
  \* damaged in flight, or missing at the end of a cut stream
  /\ NothingFromHitFrameOn
  /\ hit # 0 /\ ~dead =>
       /\ hit > nrx
       /\ hit - nrx <= Len(wire) => ~wire[hit - nrx].ok
       /\ hit - nrx > Len(wire) => cut
=============================================================================
