--------------------------- MODULE LiteClient_Ind ---------------------------
(* C12, unbounded assurance: OwnAnswer (and ChanOwn, ReaderNeverBlocks,         *)
(* RegisteredWhileWaiting, reply channels never hold more than one item) as     *)
(* consequences of an INDUCTIVE invariant of LiteClient, proved with TLAPS for *)
(* an arbitrary set of calls, any number of connections, any number of         *)
(* reconnect generations, any backlog, any values of MaxDrops / MaxNoise /     *)
(* MaxSilence / StrictRst.                                                     *)
(*                                                                             *)
(* EXTENDS LiteClient: the module proved about is spec/proofs/typed/           *)
(* LiteClient.tla, i.e. spec/LiteClient.tla without the goroutine-counting     *)
(* operators (their LET RECURSIVE is rejected by tlapm's parser); Init, Next   *)
(* and every property used here are token-identical (checked by bin/prove).    *)
(*                                                                             *)
(* The only assumptions: NConns is a natural number and Unknown is not a call  *)
(* ("a query id that no call uses").  Query ids of concurrent calls are        *)
(* distinct by construction of the model: a call IS its id.                    *)
(*                                                                             *)
(* The strengthening:                                                          *)
(*   DataInv  every packet anywhere between the server and a reply channel     *)
(*            (socket backlog `in`, the connection reader's hand `rh`, the     *)
(*            client reader's hand `clr.pkt`) that is an answer to call i      *)
(*            carries a value the server produced for i; the packet the client *)
(*            reader has looked up ("found") is an answer to a call; what is   *)
(*            in reply channel c, and what call c has returned, was produced   *)
(*            for c.                                                           *)
(*   RegInv   lookup + delete is atomic: an id that has been looked up is no   *)
(*            longer registered, at most one reader holds a given id, and its  *)
(*            reply channel is still empty (so the delivery cannot block and   *)
(*            the channel never holds two items).                              *)
EXTENDS LiteClient_Inv, SequenceTheorems, TLAPS

(* ================================================================== basics *)
LEMMA NoPktType == NoPkt \in Pkts /\ NoPkt.t = "none"
  BY DEF NoPkt, Pkts

LEMMA NewLinkType == NewLink \in LinkRec /\ NewLink.in = <<>> /\ NewLink.rh = NoPkt
  BY NoPktType DEF NewLink, LinkRec, Fins, PSts, RSts

LEMMA ConnsNat == Conns \subseteq Nat
  BY ConstAssump DEF Conns

LEMMA InitInv == Init => Inv
<1> SUFFICES ASSUME Init PROVE Inv
  OBVIOUS
<1> USE DEF Init
<1>0. NewLink \in LinkRec /\ NoPkt \in Pkts
  BY NewLinkType, NoPktType
<1>1. [NewLink EXCEPT !.p = "run", !.r = "run"] \in LinkRec
  BY <1>0 DEF LinkRec, PSts, RSts
<1>2. \A k \in Conns : link[k] \in Seq(LinkRec) /\ Len(link[k]) = 1 /\ link[k][1] = [NewLink EXCEPT !.p = "run", !.r = "run"]
  BY <1>1
<1>3. TypeInv
  <2>1. ret \in [Calls -> RetVals]
    BY DEF RetVals
  <2>2. chans \in [Calls -> Seq(Vals)]
    OBVIOUS
  <2>3. clr \in [Conns -> ClrRec]
    BY <1>0 DEF ClrRec
  <2> QED
    BY <1>2, <2>1, <2>2, <2>3 DEF TypeInv, PcSet
<1>4. DataInv
  <2>1. LinkOK(link, produced)
    <3>1. /\ [NewLink EXCEPT !.p = "run", !.r = "run"].in = <<>>
          /\ [NewLink EXCEPT !.p = "run", !.r = "run"].rh = NoPkt
      BY NewLinkType DEF LinkRec
    <3>2. RecOK([NewLink EXCEPT !.p = "run", !.r = "run"], produced)
      BY <3>1, NoPktType DEF RecOK, PktOKp
    <3> QED
      BY <1>2, <3>2 DEF LinkOK
  <2>2. ClrOK(clr, produced)
    BY NoPktType DEF ClrOK, PktOKp
  <2>3. ChanOwn /\ OwnAnswer
    BY DEF ChanOwn, OwnAnswer
  <2> QED
    BY <2>1, <2>2, <2>3 DEF DataInv
<1>5. RegInv
  BY DEF RegInv, RI1, RI2, RI3, RI4, RI5, RegisteredWhileWaiting, Found
<1> QED
  BY <1>3, <1>4, <1>5 DEF Inv

(* ------------------------------------------- what SetL does to a typed link *)
LEMMA SetLFacts ==
  ASSUME TypeInv, NEW k \in Conns, NEW g \in Gens(k), NEW rec \in LinkRec, SetL(k, g, rec)
  PROVE  /\ link' \in [Conns -> Seq(LinkRec)]
         /\ \A k2 \in Conns : Len(link'[k2]) = Len(link[k2])
         /\ \A k2 \in Conns : \A g2 \in 1..Len(link[k2]) :
               link'[k2][g2] = IF k2 = k /\ g2 = g THEN rec ELSE link[k2][g2]
<1>1. link \in [Conns -> Seq(LinkRec)] /\ link[k] \in Seq(LinkRec) /\ g \in 1..Len(link[k])
  BY DEF TypeInv, Gens
<1>2. link' = [link EXCEPT ![k] = [link[k] EXCEPT ![g] = rec]]
  BY <1>1 DEF SetL
<1>3. /\ [link[k] EXCEPT ![g] = rec] \in Seq(LinkRec)
      /\ Len([link[k] EXCEPT ![g] = rec]) = Len(link[k])
      /\ \A j \in 1 .. Len(link[k]) : [link[k] EXCEPT ![g] = rec][j] = IF j = g THEN rec ELSE link[k][j]
  BY <1>1, ExceptSeq
<1> QED
  BY <1>1, <1>2, <1>3

LEMMA PktMono ==
  ASSUME NEW p, NEW p1, NEW p2, Mono(p1, p2), PktOKp(p, p1)
  PROVE  PktOKp(p, p2)
  BY DEF Mono, PktOKp

LEMMA SetLData ==
  ASSUME TypeInv, LinkOK(link, produced), NEW k \in Conns, NEW g \in Gens(k), NEW rec \in LinkRec, SetL(k, g, rec),
         Mono(produced, produced'), RecOK(rec, produced')
  PROVE  LinkOK(link', produced')
<1>1. /\ \A k2 \in Conns : Len(link'[k2]) = Len(link[k2])
      /\ \A k2 \in Conns : \A g2 \in 1..Len(link[k2]) :
               link'[k2][g2] = IF k2 = k /\ g2 = g THEN rec ELSE link[k2][g2]
  BY SetLFacts
<1>2. \A l : RecOK(l, produced) => RecOK(l, produced')
  BY PktMono DEF RecOK
<1> SUFFICES ASSUME NEW k2 \in Conns, NEW g2 \in 1..Len(link'[k2]) PROVE RecOK(link'[k2][g2], produced')
  BY DEF LinkOK
<1>3. g2 \in 1..Len(link[k2])
  BY <1>1
<1>4. CASE k2 = k /\ g2 = g
  BY <1>1, <1>3, <1>4
<1>5. CASE ~(k2 = k /\ g2 = g)
  <2>1. link'[k2][g2] = link[k2][g2]
    BY <1>1, <1>3, <1>5
  <2>2. RecOK(link[k2][g2], produced)
    BY <1>3 DEF LinkOK
  <2> QED
    BY <2>1, <2>2, <1>2
<1> QED
  BY <1>4, <1>5

(* ------------------- generic step: one generation record replaced, nothing else *)
LEMMA RecOfLink ==
  ASSUME TypeInv, NEW k \in Conns, NEW g \in Gens(k)
  PROVE  /\ L(k, g) \in LinkRec /\ L(k, g) = link[k][g] /\ g \in 1..Len(link[k])
         /\ L(k, g).in \in Seq(Pkts) /\ L(k, g).rh \in Pkts
  BY DEF TypeInv, Gens, L, LinkRec

LEMMA CurOfLink ==
  ASSUME TypeInv, NEW k \in Conns
  PROVE  gen[k] \in Gens(k) /\ Cur(k) = L(k, gen[k])
  BY DEF TypeInv, Gens, L, Cur

LEMMA SetLStep ==
  ASSUME TypeInv, DataInv, NEW k \in Conns, NEW g \in Gens(k), NEW rec \in LinkRec, SetL(k, g, rec),
         RecOK(rec, produced),
         pc' \in [Calls -> PcSet], \A c \in Calls : pc'[c] = "picked" => pc[c] = "picked",
         UNCHANGED <<conn, ret, queries, chans, status, gen, clr, produced>>
  PROVE  TypeInv' /\ DataInv'
<1>1. /\ link' \in [Conns -> Seq(LinkRec)]
      /\ \A k2 \in Conns : Len(link'[k2]) = Len(link[k2])
  BY SetLFacts
<1>2. TypeInv'
  BY <1>1 DEF TypeInv
<1>3. Mono(produced, produced') /\ RecOK(rec, produced')
  BY DEF Mono
<1>4. LinkOK(link', produced')
  BY <1>3, SetLData DEF DataInv
<1>5. ClrOK(clr', produced') /\ ChanOwn' /\ OwnAnswer'
  BY DEF DataInv, ClrOK, ChanOwn, OwnAnswer
<1> QED
  BY <1>2, <1>4, <1>5 DEF DataInv

\* a record that keeps the packets of a good record is good
LEMMA SamePktsOK ==
  ASSUME NEW l, NEW rec, NEW prod, RecOK(l, prod), rec.in = l.in, rec.rh = l.rh
  PROVE  RecOK(rec, prod)
  BY DEF RecOK

LEMMA LinkRecOK ==
  ASSUME TypeInv, DataInv, NEW k \in Conns, NEW g \in Gens(k)
  PROVE  RecOK(L(k, g), produced)
  BY RecOfLink DEF DataInv, LinkOK

\* nothing that the invariant mentions changes
LEMMA UnchStep ==
  ASSUME TypeInv, DataInv,
         UNCHANGED <<pc, conn, ret, queries, chans, status, gen, link, clr, produced>>
  PROVE  TypeInv' /\ DataInv'
  BY DEF TypeInv, DataInv, LinkOK, ClrOK, ChanOwn, OwnAnswer

(* ================================================================ the callers *)
LEMMA S_Register ==
  ASSUME TypeInv, DataInv, NEW c \in Calls, Register(c)
  PROVE  TypeInv' /\ DataInv'
<1>1. TypeInv'
  BY DEF TypeInv, Register, PcSet
<1>2. DataInv'
  BY DEF DataInv, Register, LinkOK, ClrOK, ChanOwn, OwnAnswer
<1> QED
  BY <1>1, <1>2

LEMMA S_PickConn ==
  ASSUME TypeInv, DataInv, NEW c \in Calls, NEW k \in Conns, PickConn(c, k)
  PROVE  TypeInv' /\ DataInv'
<1>1. TypeInv'
  BY ConnsNat DEF TypeInv, PickConn, PcSet
<1>2. DataInv'
  BY DEF DataInv, PickConn, LinkOK, ClrOK, ChanOwn, OwnAnswer
<1> QED
  BY <1>1, <1>2

LEMMA RetKinds ==
  /\ <<"notconnected">> \in RetVals /\ <<"senderr">> \in RetVals /\ <<"timeout">> \in RetVals
  /\ <<"notconnected">>[1] # "answer" /\ <<"senderr">>[1] # "answer" /\ <<"timeout">>[1] # "answer"
  BY DEF RetVals

LEMMA S_SendNotConnected ==
  ASSUME TypeInv, DataInv, NEW c \in Calls, SendNotConnected(c)
  PROVE  TypeInv' /\ DataInv'
<1>1. TypeInv'
  BY RetKinds DEF TypeInv, SendNotConnected, PcSet
<1>2. OwnAnswer'
  BY RetKinds DEF TypeInv, DataInv, SendNotConnected, OwnAnswer
<1>3. DataInv'
  BY <1>2 DEF DataInv, SendNotConnected, LinkOK, ClrOK, ChanOwn
<1> QED
  BY <1>1, <1>3

LEMMA S_SendFail ==
  ASSUME TypeInv, DataInv, NEW c \in Calls, SendFail(c)
  PROVE  TypeInv' /\ DataInv'
<1>1. TypeInv'
  BY RetKinds DEF TypeInv, SendFail, PcSet
<1>2. OwnAnswer'
  BY RetKinds DEF TypeInv, DataInv, SendFail, OwnAnswer
<1>3. DataInv'
  BY <1>2 DEF DataInv, SendFail, LinkOK, ClrOK, ChanOwn
<1> QED
  BY <1>1, <1>3

LEMMA S_CallerTimeout ==
  ASSUME TypeInv, DataInv, NEW c \in Calls, CallerTimeout(c)
  PROVE  TypeInv' /\ DataInv'
<1>1. TypeInv'
  BY RetKinds DEF TypeInv, CallerTimeout, PcSet
<1>2. OwnAnswer'
  BY RetKinds DEF TypeInv, DataInv, CallerTimeout, OwnAnswer
<1>3. DataInv'
  BY <1>2 DEF DataInv, CallerTimeout, LinkOK, ClrOK, ChanOwn
<1> QED
  BY <1>1, <1>3

LEMMA S_Unregister ==
  ASSUME TypeInv, DataInv, NEW c \in Calls, Unregister(c)
  PROVE  TypeInv' /\ DataInv'
<1>1. TypeInv'
  BY DEF TypeInv, Unregister, PcSet
<1>2. DataInv'
  BY DEF DataInv, Unregister, LinkOK, ClrOK, ChanOwn, OwnAnswer
<1> QED
  BY <1>1, <1>2

LEMMA S_SendOk ==
  ASSUME TypeInv, DataInv, NEW c \in Calls, SendOk(c)
  PROVE  TypeInv' /\ DataInv'
<1> DEFINE k == conn[c]
           l == Cur(k)
           rec == IF l.fin = "open" THEN [l EXCEPT !.out = @ \cup {c}] ELSE [l EXCEPT !.rst = TRUE]
<1>1. k \in Conns /\ pc[c] = "picked"
  BY DEF TypeInv, SendOk
<1>2. gen[k] \in Gens(k) /\ l = L(k, gen[k]) /\ l \in LinkRec
  BY <1>1, CurOfLink, RecOfLink
<1>3. rec \in LinkRec /\ rec.in = l.in /\ rec.rh = l.rh
  BY <1>2 DEF LinkRec
<1>4. RecOK(rec, produced)
  BY <1>1, <1>2, <1>3, LinkRecOK, SamePktsOK
<1>5. SetL(k, gen[k], rec)
  BY DEF SendOk
<1>6. pc' \in [Calls -> PcSet] /\ \A d \in Calls : pc'[d] = "picked" => pc[d] = "picked"
  BY DEF SendOk, TypeInv, PcSet
<1>7. UNCHANGED <<conn, ret, queries, chans, status, gen, clr, produced>>
  BY DEF SendOk
<1> HIDE DEF k, l, rec
<1> QED
  BY <1>1, <1>2, <1>3, <1>4, <1>5, <1>6, <1>7, SetLStep

LEMMA S_CallerRecv ==
  ASSUME TypeInv, DataInv, NEW c \in Calls, CallerRecv(c)
  PROVE  TypeInv' /\ DataInv'
<1>0. chans[c] \in Seq(Vals) /\ chans[c] # <<>>
  BY DEF TypeInv, CallerRecv
<1>1. /\ Head(chans[c]) \in Vals /\ Tail(chans[c]) \in Seq(Vals)
      /\ Len(Tail(chans[c])) = Len(chans[c]) - 1
      /\ \A i \in 1 .. Len(Tail(chans[c])) : Tail(chans[c])[i] = chans[c][i+1]
      /\ Head(chans[c]) = chans[c][1] /\ Len(chans[c]) \in Nat \ {0}
  BY <1>0, HeadTailProperties, EmptySeq
<1>2. <<"answer", Head(chans[c])>> \in RetVals
  BY <1>1 DEF RetVals
<1>3. TypeInv'
  BY <1>1, <1>2 DEF TypeInv, CallerRecv, PcSet
<1>4. Head(chans[c]) \in produced[c]
  BY <1>1 DEF DataInv, ChanOwn
<1>5. OwnAnswer'
  BY <1>4 DEF TypeInv, DataInv, CallerRecv, OwnAnswer
<1>6. ChanOwn'
  <2> SUFFICES ASSUME NEW d \in Calls, NEW j \in 1..Len(chans'[d]) PROVE chans'[d][j] \in produced'[d]
    BY DEF ChanOwn
  <2>1. CASE d = c
    <3>1. chans'[d] = Tail(chans[c]) /\ produced' = produced
      BY <2>1 DEF TypeInv, CallerRecv
    <3>2. chans'[d][j] = chans[c][j+1] /\ j+1 \in 1..Len(chans[c])
      BY <3>1, <1>1
    <3> QED
      BY <3>1, <3>2, <2>1 DEF DataInv, ChanOwn
  <2>2. CASE d # c
    BY <2>2 DEF TypeInv, DataInv, ChanOwn, CallerRecv
  <2> QED
    BY <2>1, <2>2
<1>7. LinkOK(link', produced') /\ ClrOK(clr', produced')
  BY DEF DataInv, CallerRecv, LinkOK, ClrOK
<1> QED
  BY <1>3, <1>5, <1>6, <1>7 DEF DataInv

(* ================================================================= the server *)
LEMMA S_SrvRecv ==
  ASSUME TypeInv, DataInv, NEW k \in Conns, NEW g \in Gens(k), NEW i \in Calls, SrvRecv(k, g, i)
  PROVE  TypeInv' /\ DataInv'
<1> DEFINE l == L(k, g)
           rec == [l EXCEPT !.out = @ \ {i}, !.pend = @ \cup {i}]
<1>1. l \in LinkRec /\ RecOK(l, produced)
  BY RecOfLink, LinkRecOK
<1>2. rec \in LinkRec /\ rec.in = l.in /\ rec.rh = l.rh
  BY <1>1 DEF LinkRec
<1>3. RecOK(rec, produced)
  BY <1>1, <1>2, SamePktsOK
<1>4. SetL(k, g, rec) /\ UNCHANGED <<pc, conn, ret, queries, chans, status, gen, clr, produced>>
  BY DEF SrvRecv, callVars
<1>5. pc' \in [Calls -> PcSet] /\ \A d \in Calls : pc'[d] = "picked" => pc[d] = "picked"
  BY <1>4 DEF TypeInv
<1> HIDE DEF l, rec
<1> QED
  BY <1>2, <1>3, <1>4, <1>5, SetLStep

LEMMA S_SrvDrop ==
  ASSUME TypeInv, DataInv, NEW k \in Conns, NEW g \in Gens(k), SrvDrop(k, g)
  PROVE  TypeInv' /\ DataInv'
<1> DEFINE l == L(k, g)
           rec == [l EXCEPT !.fin = "srv", !.out = {}, !.pend = {}]
<1>1. l \in LinkRec /\ RecOK(l, produced)
  BY RecOfLink, LinkRecOK
<1>2. rec \in LinkRec /\ rec.in = l.in /\ rec.rh = l.rh
  BY <1>1 DEF LinkRec, Fins
<1>3. RecOK(rec, produced)
  BY <1>1, <1>2, SamePktsOK
<1>4. SetL(k, g, rec) /\ UNCHANGED <<pc, conn, ret, queries, chans, status, gen, clr, produced>>
  BY DEF SrvDrop, callVars
<1>5. pc' \in [Calls -> PcSet] /\ \A d \in Calls : pc'[d] = "picked" => pc[d] = "picked"
  BY <1>4 DEF TypeInv
<1> HIDE DEF l, rec
<1> QED
  BY <1>2, <1>3, <1>4, <1>5, SetLStep

\* appending a good packet to the backlog of a good record
LEMMA PushOK ==
  ASSUME NEW l \in LinkRec, NEW p \in Pkts, NEW prod, RecOK(l, prod), PktOKp(p, prod)
  PROVE  /\ [l EXCEPT !.in = Append(@, p)] \in LinkRec
         /\ RecOK([l EXCEPT !.in = Append(@, p)], prod)
<1> DEFINE rec == [l EXCEPT !.in = Append(@, p)]
<1>1. l.in \in Seq(Pkts)
  BY DEF LinkRec
<1>2. /\ Append(l.in, p) \in Seq(Pkts)
      /\ Len(Append(l.in, p)) = Len(l.in) + 1
      /\ \A i \in 1 .. Len(l.in) : Append(l.in, p)[i] = l.in[i]
      /\ Append(l.in, p)[Len(l.in) + 1] = p
      /\ Len(l.in) \in Nat
  BY <1>1, AppendProperties, LenProperties
<1>3. rec \in LinkRec /\ rec.in = Append(l.in, p) /\ rec.rh = l.rh
  BY <1>2 DEF LinkRec
<1>4. \A j \in 1..Len(rec.in) : PktOKp(rec.in[j], prod)
  <2> TAKE j \in 1..Len(rec.in)
  <2>1. CASE j \in 1..Len(l.in)
    BY <2>1, <1>2, <1>3 DEF RecOK
  <2>2. CASE j = Len(l.in) + 1
    BY <2>2, <1>2, <1>3
  <2> QED
    BY <2>1, <2>2, <1>2, <1>3
<1>5. RecOK(rec, prod)
  BY <1>3, <1>4 DEF RecOK
<1> QED
  BY <1>3, <1>5

LEMMA S_Push ==
  ASSUME TypeInv, DataInv, NEW k \in Conns, NEW g \in Gens(k), NEW p \in Pkts, PktOKp(p, produced),
         Push(k, g, p), UNCHANGED <<pc, conn, ret, queries, chans, status, gen, clr, produced>>
  PROVE  TypeInv' /\ DataInv'
<1> DEFINE l == L(k, g)
           rec == [l EXCEPT !.in = Append(@, p)]
<1>1. l \in LinkRec /\ RecOK(l, produced)
  BY RecOfLink, LinkRecOK
<1>2. rec \in LinkRec /\ RecOK(rec, produced)
  BY <1>1, PushOK
<1>3. SetL(k, g, rec)
  BY DEF Push
<1>4. pc' \in [Calls -> PcSet] /\ \A d \in Calls : pc'[d] = "picked" => pc[d] = "picked"
  BY DEF TypeInv
<1> HIDE DEF l, rec
<1> QED
  BY <1>2, <1>3, <1>4, SetLStep

LEMMA S_SrvDup ==
  ASSUME TypeInv, DataInv, NEW k \in Conns, NEW g \in Gens(k), NEW i \in Calls, SrvDup(k, g, i, i)
  PROVE  TypeInv' /\ DataInv'
<1> DEFINE p == [t |-> "ans", id |-> i, v |-> i]
<1>1. p \in Pkts /\ PktOKp(p, produced)
  BY DEF Pkts, PktOKp, SrvDup
<1>2. Push(k, g, p) /\ UNCHANGED <<pc, conn, ret, queries, chans, status, gen, clr, produced>>
  BY DEF SrvDup, callVars
<1> HIDE DEF p
<1> QED
  BY <1>1, <1>2, S_Push

LEMMA S_SrvNoise ==
  ASSUME TypeInv, DataInv, NEW k \in Conns, NEW g \in Gens(k), NEW t, SrvNoise(k, g, t, Unknown)
  PROVE  TypeInv' /\ DataInv'
<1> DEFINE p == [t |-> t, id |-> Unknown, v |-> Unknown]
<1>1. p \in Pkts /\ PktOKp(p, produced)
  BY ConstAssump DEF Pkts, PktOKp, SrvNoise
<1>2. Push(k, g, p) /\ UNCHANGED <<pc, conn, ret, queries, chans, status, gen, clr, produced>>
  BY DEF SrvNoise, callVars
<1> HIDE DEF p
<1> QED
  BY <1>1, <1>2, S_Push

LEMMA S_SrvAnswer ==
  ASSUME TypeInv, DataInv, NEW k \in Conns, NEW g \in Gens(k), NEW i \in Calls, SrvAnswer(k, g, i, i)
  PROVE  TypeInv' /\ DataInv'
<1> DEFINE l == L(k, g)
           p == [t |-> "ans", id |-> i, v |-> i]
           l2 == [l EXCEPT !.pend = @ \ {i}]
           rec == [l EXCEPT !.in = Append(@, p), !.pend = @ \ {i}]
<1>0. produced \in [Calls -> SUBSET Vals] /\ produced' = [produced EXCEPT ![i] = @ \cup {i}]
  BY DEF TypeInv, SrvAnswer
<1>1. Mono(produced, produced') /\ produced' \in [Calls -> SUBSET Vals] /\ i \in produced'[i]
  BY <1>0 DEF Mono, Vals
<1>2. l \in LinkRec /\ RecOK(l, produced)
  BY RecOfLink, LinkRecOK
<1>3. l2 \in LinkRec /\ l2.in = l.in /\ l2.rh = l.rh
  BY <1>2 DEF LinkRec
<1>4. RecOK(l2, produced')
  <2>1. RecOK(l, produced')
    BY <1>1, <1>2, PktMono DEF RecOK
  <2> QED
    BY <2>1, <1>3, SamePktsOK
<1>5. p \in Pkts /\ PktOKp(p, produced')
  BY <1>1 DEF Pkts, PktOKp
<1>6. rec = [l2 EXCEPT !.in = Append(@, p)]
  BY <1>2 DEF LinkRec
<1>7. rec \in LinkRec /\ RecOK(rec, produced')
  <2> HIDE DEF l2, p, rec
  <2> QED
    BY <1>3, <1>4, <1>5, <1>6, PushOK
<1>8. SetL(k, g, rec) /\ UNCHANGED <<pc, conn, ret, queries, chans, status, gen, clr>>
  BY DEF SrvAnswer, callVars
<1> HIDE DEF l, l2, p, rec
<1>9. /\ link' \in [Conns -> Seq(LinkRec)]
      /\ \A k2 \in Conns : Len(link'[k2]) = Len(link[k2])
  BY <1>7, <1>8, SetLFacts
<1>10. TypeInv'
  BY <1>1, <1>8, <1>9 DEF TypeInv
<1>11. LinkOK(link', produced')
  BY <1>1, <1>7, <1>8, SetLData DEF DataInv
<1>12. ClrOK(clr', produced')
  BY <1>1, <1>8, PktMono DEF DataInv, ClrOK
<1>13. ChanOwn' /\ OwnAnswer'
  BY <1>1, <1>8 DEF DataInv, ChanOwn, OwnAnswer, Mono
<1> QED
  BY <1>10, <1>11, <1>12, <1>13 DEF DataInv

(* ============================================ generation g of connection k: P and R *)
LEMMA TailOK ==
  ASSUME NEW l \in LinkRec, NEW prod, RecOK(l, prod), l.in # <<>>
  PROVE  /\ Head(l.in) \in Pkts /\ PktOKp(Head(l.in), prod)
         /\ Tail(l.in) \in Seq(Pkts)
         /\ \A j \in 1..Len(Tail(l.in)) : PktOKp(Tail(l.in)[j], prod)
<1>1. l.in \in Seq(Pkts)
  BY DEF LinkRec
<1>2. /\ Head(l.in) \in Pkts /\ Tail(l.in) \in Seq(Pkts)
      /\ Len(Tail(l.in)) = Len(l.in) - 1
      /\ \A i \in 1 .. Len(Tail(l.in)) : Tail(l.in)[i] = l.in[i+1]
      /\ Head(l.in) = l.in[1] /\ Len(l.in) \in Nat \ {0}
  BY <1>1, HeadTailProperties, EmptySeq
<1>3. PktOKp(Head(l.in), prod)
  BY <1>2 DEF RecOK
<1>4. \A j \in 1..Len(Tail(l.in)) : PktOKp(Tail(l.in)[j], prod)
  <2> TAKE j \in 1..Len(Tail(l.in))
  <2>1. Tail(l.in)[j] = l.in[j+1] /\ j+1 \in 1..Len(l.in)
    BY <1>2
  <2> QED
    BY <2>1 DEF RecOK
<1> QED
  BY <1>2, <1>3, <1>4

\* a step that only replaces record (k, g)
LEMMA S_SetLOnly ==
  ASSUME TypeInv, DataInv, NEW k \in Conns, NEW g \in Gens(k), NEW rec \in LinkRec, RecOK(rec, produced),
         SetL(k, g, rec), UNCHANGED <<pc, conn, ret, queries, chans, status, gen, clr, produced>>
  PROVE  TypeInv' /\ DataInv'
<1>1. pc' \in [Calls -> PcSet] /\ \A d \in Calls : pc'[d] = "picked" => pc[d] = "picked"
  BY DEF TypeInv
<1> QED
  BY <1>1, SetLStep

LEMMA S_ConnReaderRecv ==
  ASSUME TypeInv, DataInv, NEW k \in Conns, NEW g \in Gens(k), ConnReaderRecv(k, g)
  PROVE  TypeInv' /\ DataInv'
<1> DEFINE l == L(k, g)
           p == Head(l.in)
           rec == IF p.t = "pong" THEN [l EXCEPT !.in = Tail(@)]
                  ELSE [l EXCEPT !.in = Tail(@), !.r = "offer", !.rh = p]
<1>1. l \in LinkRec /\ RecOK(l, produced) /\ l.in # <<>>
  BY RecOfLink, LinkRecOK DEF ConnReaderRecv
<1>2. /\ p \in Pkts /\ PktOKp(p, produced) /\ Tail(l.in) \in Seq(Pkts)
      /\ \A j \in 1..Len(Tail(l.in)) : PktOKp(Tail(l.in)[j], produced)
  BY <1>1, TailOK
<1>3. rec \in LinkRec /\ rec.in = Tail(l.in) /\ (rec.rh = l.rh \/ rec.rh = p)
  BY <1>1, <1>2 DEF LinkRec, RSts
<1>4. RecOK(rec, produced)
  BY <1>1, <1>2, <1>3 DEF RecOK
<1>5. SetL(k, g, rec) /\ UNCHANGED <<pc, conn, ret, queries, chans, status, gen, clr, produced>>
  BY DEF ConnReaderRecv, callVars
<1> HIDE DEF l, p, rec
<1> QED
  BY <1>3, <1>4, <1>5, S_SetLOnly

LEMMA S_PktStuck ==
  ASSUME TypeInv, DataInv, NEW k \in Conns, NEW g \in Gens(k), PktStuck(k, g)
  PROVE  TypeInv' /\ DataInv'
<1> DEFINE l == L(k, g)
           rec == [l EXCEPT !.p = "stuck", !.in = Tail(@)]
<1>1. l \in LinkRec /\ RecOK(l, produced) /\ l.in # <<>>
  BY RecOfLink, LinkRecOK DEF PktStuck
<1>2. /\ Tail(l.in) \in Seq(Pkts)
      /\ \A j \in 1..Len(Tail(l.in)) : PktOKp(Tail(l.in)[j], produced)
  BY <1>1, TailOK
<1>3. rec \in LinkRec /\ rec.in = Tail(l.in) /\ rec.rh = l.rh
  BY <1>1, <1>2 DEF LinkRec, PSts
<1>4. RecOK(rec, produced)
  BY <1>1, <1>2, <1>3 DEF RecOK
<1>5. SetL(k, g, rec) /\ UNCHANGED <<pc, conn, ret, queries, chans, status, gen, clr, produced>>
  BY DEF PktStuck, callVars
<1> HIDE DEF l, rec
<1> QED
  BY <1>3, <1>4, <1>5, S_SetLOnly

\* PktExit, ConnReaderEOF, ConnReaderSilence: one status field of the record changes
LEMMA S_FieldOnly ==
  ASSUME TypeInv, DataInv, NEW k \in Conns, NEW g \in Gens(k),
         \/ PktExit(k, g) \/ ConnReaderEOF(k, g) \/ ConnReaderSilence(k, g)
  PROVE  TypeInv' /\ DataInv'
<1> DEFINE l == L(k, g)
<1>1. l \in LinkRec /\ RecOK(l, produced)
  BY RecOfLink, LinkRecOK
<1>2. PICK rec \in LinkRec : /\ rec.in = l.in /\ rec.rh = l.rh /\ SetL(k, g, rec)
                             /\ UNCHANGED <<pc, conn, ret, queries, chans, status, gen, clr, produced>>
  <2>1. CASE PktExit(k, g)
    <3>1. [l EXCEPT !.p = "dead"] \in LinkRec
      BY <1>1 DEF LinkRec, PSts
    <3> QED
      BY <2>1, <3>1, <1>1 DEF PktExit, callVars, LinkRec
  <2>2. CASE ConnReaderEOF(k, g)
    <3>1. [l EXCEPT !.r = "dead"] \in LinkRec
      BY <1>1 DEF LinkRec, RSts
    <3> QED
      BY <2>2, <3>1, <1>1 DEF ConnReaderEOF, callVars, LinkRec
  <2>3. CASE ConnReaderSilence(k, g)
    <3>1. [l EXCEPT !.r = "rc"] \in LinkRec
      BY <1>1 DEF LinkRec, RSts
    <3> QED
      BY <2>3, <3>1, <1>1 DEF ConnReaderSilence, callVars, LinkRec
  <2> QED
    BY <2>1, <2>2, <2>3
<1>3. RecOK(rec, produced)
  BY <1>1, <1>2, SamePktsOK
<1> HIDE DEF l
<1> QED
  BY <1>2, <1>3, S_SetLOnly

LEMMA S_HandOff ==
  ASSUME TypeInv, DataInv, NEW k \in Conns, NEW g \in Gens(k), HandOff(k, g)
  PROVE  TypeInv' /\ DataInv'
<1> DEFINE l == L(k, g)
           rec == [l EXCEPT !.r = "run", !.rh = NoPkt]
<1>1. l \in LinkRec /\ RecOK(l, produced) /\ l.rh \in Pkts
  BY RecOfLink, LinkRecOK
<1>2. rec \in LinkRec /\ rec.in = l.in /\ rec.rh = NoPkt
  BY <1>1, NoPktType DEF LinkRec, RSts
<1>3. RecOK(rec, produced)
  BY <1>1, <1>2, NoPktType DEF RecOK, PktOKp
<1>4. /\ SetL(k, g, rec) /\ clr' = [clr EXCEPT ![k] = [st |-> "got", pkt |-> l.rh]]
      /\ UNCHANGED <<pc, conn, ret, queries, chans, status, gen, produced>>
  BY DEF HandOff, callVars
<1>5. PktOKp(l.rh, produced)
  BY <1>1 DEF RecOK
<1> HIDE DEF l, rec
<1>6. /\ link' \in [Conns -> Seq(LinkRec)]
      /\ \A k2 \in Conns : Len(link'[k2]) = Len(link[k2])
  BY <1>2, <1>4, SetLFacts
<1>7. clr' \in [Conns -> ClrRec]
  BY <1>1, <1>4 DEF TypeInv, ClrRec
<1>8. TypeInv'
  BY <1>4, <1>6, <1>7 DEF TypeInv
<1>9. LinkOK(link', produced')
  <2>1. Mono(produced, produced') /\ RecOK(rec, produced')
    BY <1>3, <1>4 DEF Mono
  <2> QED
    BY <2>1, <1>2, <1>4, SetLData DEF DataInv
<1>10. ClrOK(clr', produced')
  BY <1>4, <1>5 DEF TypeInv, DataInv, ClrOK
<1>11. ChanOwn' /\ OwnAnswer'
  BY <1>4 DEF DataInv, ChanOwn, OwnAnswer
<1> QED
  BY <1>8, <1>9, <1>10, <1>11 DEF DataInv

(* ============================================== Client.reader of connection k *)
LEMMA S_Lookup ==
  ASSUME TypeInv, DataInv, NEW k \in Conns, ClientReaderLookup(k)
  PROVE  TypeInv' /\ DataInv'
<1>1. clr[k] \in ClrRec /\ clr[k].pkt \in Pkts
  BY DEF TypeInv, ClrRec
<1>2. clr' \in [Conns -> ClrRec]
  BY <1>1, NoPktType DEF TypeInv, ClientReaderLookup, ClrRec
<1>3. queries' \subseteq Calls
  BY DEF TypeInv, ClientReaderLookup
<1>4. TypeInv'
  BY <1>2, <1>3 DEF TypeInv, ClientReaderLookup
<1>5. ClrOK(clr', produced')
  <2> SUFFICES ASSUME NEW k2 \in Conns
               PROVE  /\ PktOKp(clr'[k2].pkt, produced')
                      /\ clr'[k2].st = "found" => clr'[k2].pkt.t = "ans" /\ clr'[k2].pkt.id \in Calls
    BY DEF ClrOK
  <2>1. CASE k2 # k
    BY <2>1 DEF TypeInv, DataInv, ClrOK, ClientReaderLookup
  <2>2. CASE k2 = k
    <3>1. CASE clr[k].pkt.t = "ans" /\ clr[k].pkt.id \in queries
      <4>1. clr'[k].pkt = clr[k].pkt /\ clr'[k].st = "found" /\ produced' = produced
        BY <3>1, <1>1 DEF TypeInv, ClientReaderLookup, ClrRec
      <4> QED
        BY <4>1, <3>1, <2>2 DEF TypeInv, DataInv, ClrOK
    <3>2. CASE ~(clr[k].pkt.t = "ans" /\ clr[k].pkt.id \in queries)
      <4>1. clr'[k] = [st |-> "idle", pkt |-> NoPkt] /\ produced' = produced
        BY <3>2 DEF TypeInv, ClientReaderLookup
      <4> QED
        BY <4>1, <2>2, NoPktType DEF PktOKp
    <3> QED
      BY <3>1, <3>2
  <2> QED
    BY <2>1, <2>2
<1>6. LinkOK(link', produced') /\ ChanOwn' /\ OwnAnswer'
  BY DEF DataInv, ClientReaderLookup, LinkOK, ChanOwn, OwnAnswer
<1> QED
  BY <1>4, <1>5, <1>6 DEF DataInv

LEMMA S_Deliver ==
  ASSUME TypeInv, DataInv, NEW k \in Conns, ClientReaderDeliver(k)
  PROVE  TypeInv' /\ DataInv'
<1> DEFINE p == clr[k].pkt
<1>1. p \in Pkts /\ p.t = "ans" /\ p.id \in Calls /\ p.v \in produced[p.id] /\ p.v \in Vals
  BY DEF TypeInv, DataInv, ClrOK, PktOKp, ClientReaderDeliver, ClrRec, Pkts, Vals
<1>2. chans[p.id] \in Seq(Vals)
  BY <1>1 DEF TypeInv
<1>3. /\ Append(chans[p.id], p.v) \in Seq(Vals)
      /\ Len(Append(chans[p.id], p.v)) = Len(chans[p.id]) + 1
      /\ \A i \in 1 .. Len(chans[p.id]) : Append(chans[p.id], p.v)[i] = chans[p.id][i]
      /\ Append(chans[p.id], p.v)[Len(chans[p.id]) + 1] = p.v
      /\ Len(chans[p.id]) \in Nat
  BY <1>1, <1>2, AppendProperties, LenProperties
<1>4. /\ chans' = [chans EXCEPT ![p.id] = Append(@, p.v)]
      /\ clr' = [clr EXCEPT ![k] = [st |-> "idle", pkt |-> NoPkt]]
      /\ UNCHANGED <<pc, conn, ret, queries, status, gen, link, produced>>
  BY DEF ClientReaderDeliver
<1>5. TypeInv'
  <2>1. chans' \in [Calls -> Seq(Vals)]
    BY <1>1, <1>3, <1>4 DEF TypeInv
  <2>2. clr' \in [Conns -> ClrRec]
    BY <1>4, NoPktType DEF TypeInv, ClrRec
  <2> QED
    BY <2>1, <2>2, <1>4 DEF TypeInv
<1>6. ChanOwn'
  <2> SUFFICES ASSUME NEW d \in Calls, NEW j \in 1..Len(chans'[d]) PROVE chans'[d][j] \in produced'[d]
    BY DEF ChanOwn
  <2>1. CASE d = p.id
    <3>1. chans'[d] = Append(chans[p.id], p.v)
      BY <2>1, <1>4 DEF TypeInv
    <3>2. CASE j \in 1..Len(chans[p.id])
      BY <3>1, <3>2, <1>3, <1>4, <2>1 DEF DataInv, ChanOwn
    <3>3. CASE j = Len(chans[p.id]) + 1
      BY <3>1, <3>3, <1>3, <1>4, <1>1, <2>1
    <3> QED
      BY <3>1, <3>2, <3>3, <1>3
  <2>2. CASE d # p.id
    BY <2>2, <1>4 DEF TypeInv, DataInv, ChanOwn
  <2> QED
    BY <2>1, <2>2
<1>7. ClrOK(clr', produced')
  BY <1>4, NoPktType DEF TypeInv, DataInv, ClrOK, PktOKp
<1>8. LinkOK(link', produced') /\ OwnAnswer'
  BY <1>4 DEF DataInv, LinkOK, OwnAnswer
<1> QED
  BY <1>5, <1>6, <1>7, <1>8 DEF DataInv

(* ======================================================= ping, reconnect *)
LEMMA S_PingTick ==
  ASSUME TypeInv, DataInv, NEW k \in Conns, PingTick(k)
  PROVE  TypeInv' /\ DataInv'
<1>1. CASE /\ SetL(k, gen[k], [Cur(k) EXCEPT !.rst = TRUE])
           /\ UNCHANGED <<callVars, status, gen, clr, produced>>
  <2> DEFINE l == L(k, gen[k])
             rec == [l EXCEPT !.rst = TRUE]
  <2>1. gen[k] \in Gens(k) /\ Cur(k) = l
    BY CurOfLink
  <2>2. l \in LinkRec /\ RecOK(l, produced)
    BY <2>1, RecOfLink, LinkRecOK
  <2>3. rec \in LinkRec /\ rec.in = l.in /\ rec.rh = l.rh
    BY <2>2 DEF LinkRec
  <2>4. RecOK(rec, produced)
    BY <2>2, <2>3, SamePktsOK
  <2>5. SetL(k, gen[k], rec) /\ UNCHANGED <<pc, conn, ret, queries, chans, status, gen, clr, produced>>
    BY <1>1, <2>1 DEF callVars
  <2> HIDE DEF l, rec
  <2> QED
    BY <2>1, <2>3, <2>4, <2>5, S_SetLOnly
<1>2. CASE UNCHANGED <<link, callVars, status, gen, clr, produced>>
  BY <1>2, UnchStep DEF callVars
<1> QED
  BY <1>1, <1>2 DEF PingTick

LEMMA ClosedOK ==
  ASSUME NEW l \in LinkRec, NEW prod, RecOK(l, prod), NEW n \in 0..Len(l.in)
  PROVE  Closed(l, n) \in LinkRec /\ RecOK(Closed(l, n), prod)
<1>1. l.in \in Seq(Pkts) /\ Len(l.in) \in Nat /\ \A i \in 1..Len(l.in) : l.in[i] \in Pkts
  BY LenProperties DEF LinkRec
<1>2. /\ SubSeq(l.in, 1, n) \in Seq(Pkts)
      /\ Len(SubSeq(l.in, 1, n)) = n
      /\ \A i \in 1 .. n : SubSeq(l.in, 1, n)[i] = l.in[i]
  BY <1>1
<1>3. /\ Closed(l, n) \in LinkRec /\ Closed(l, n).in = SubSeq(l.in, 1, n) /\ Closed(l, n).rh = l.rh
  BY <1>2 DEF Closed, LinkRec, Fins
<1>4. \A j \in 1..Len(SubSeq(l.in, 1, n)) : SubSeq(l.in, 1, n)[j] = l.in[j] /\ j \in 1..Len(l.in)
  BY <1>1, <1>2
<1>5. RecOK(Closed(l, n), prod)
  BY <1>3, <1>4 DEF RecOK
<1> QED
  BY <1>3, <1>5

LEMMA S_RcBegin ==
  ASSUME TypeInv, DataInv, NEW k \in Conns, RcBegin(k)
  PROVE  TypeInv' /\ DataInv'
<1>1. CASE status[k] = "Connecting"
  BY <1>1, UnchStep DEF RcBegin, callVars
<1>2. CASE status[k] # "Connecting"
  <2> DEFINE l == L(k, gen[k])
  <2>1. gen[k] \in Gens(k) /\ Cur(k) = l /\ l \in LinkRec /\ RecOK(l, produced)
    BY CurOfLink, RecOfLink, LinkRecOK
  <2>2. PICK n \in 0..Len(l.in) : SetL(k, gen[k], Closed(l, n))
    BY <1>2, <2>1 DEF RcBegin
  <2>3. Closed(l, n) \in LinkRec /\ RecOK(Closed(l, n), produced)
    BY <2>1, ClosedOK
  <2>4. /\ status' = [status EXCEPT ![k] = "Connecting"]
        /\ UNCHANGED <<pc, conn, ret, queries, chans, gen, clr, produced>>
    BY <1>2 DEF RcBegin, callVars
  <2> HIDE DEF l
  <2>5. /\ link' \in [Conns -> Seq(LinkRec)]
        /\ \A k2 \in Conns : Len(link'[k2]) = Len(link[k2])
    BY <2>1, <2>2, <2>3, SetLFacts
  <2>6. TypeInv'
    BY <2>4, <2>5 DEF TypeInv
  <2>7. LinkOK(link', produced')
    <3>1. Mono(produced, produced') /\ RecOK(Closed(l, n), produced')
      BY <2>3, <2>4 DEF Mono
    <3> QED
      BY <3>1, <2>1, <2>2, <2>3, SetLData DEF DataInv
  <2>8. ClrOK(clr', produced') /\ ChanOwn' /\ OwnAnswer'
    BY <2>4 DEF DataInv, ClrOK, ChanOwn, OwnAnswer
  <2> QED
    BY <2>6, <2>7, <2>8 DEF DataInv
<1> QED
  BY <1>1, <1>2

\* a step that replaces every record of connection k by F(h), lengths unchanged
LEMMA S_Map ==
  ASSUME TypeInv, DataInv, NEW k \in Conns, NEW F(_),
         \A h \in Gens(k) : F(h) \in LinkRec /\ RecOK(F(h), produced),
         link' = [link EXCEPT ![k] = [h \in Gens(k) |-> F(h)]],
         status' \in [Conns -> {"Connected", "Connecting"}],
         gen' \in [Conns -> Nat], \A k2 \in Conns : gen'[k2] \in 1..Len(link[k2]),
         UNCHANGED <<pc, conn, ret, queries, chans, clr, produced>>
  PROVE  TypeInv' /\ DataInv'
<1> DEFINE n == Len(link[k])
           s == [h \in 1..n |-> F(h)]
<1>1. link \in [Conns -> Seq(LinkRec)] /\ n \in Nat /\ Gens(k) = 1..n
  BY LenProperties DEF TypeInv, Gens
<1>2. s \in Seq(LinkRec)
  BY <1>1, IsASeq
<1>3. Len(s) = n /\ \A h \in 1..n : s[h] = F(h)
  <2>1. DOMAIN s = 1..Len(s) /\ Len(s) \in Nat
    BY <1>2, LenProperties
  <2>2. DOMAIN s = 1..n
    OBVIOUS
  <2> QED
    BY <2>1, <2>2, <1>1
<1>4. link' = [link EXCEPT ![k] = s]
  BY <1>1
<1> HIDE DEF s
<1>5. /\ link' \in [Conns -> Seq(LinkRec)]
      /\ \A k2 \in Conns : Len(link'[k2]) = Len(link[k2])
      /\ \A k2 \in Conns : k2 # k => link'[k2] = link[k2]
      /\ link'[k] = s
  BY <1>1, <1>2, <1>3, <1>4
<1>6. TypeInv'
  BY <1>5 DEF TypeInv
<1>7. LinkOK(link', produced')
  <2> SUFFICES ASSUME NEW k2 \in Conns, NEW g2 \in 1..Len(link'[k2]) PROVE RecOK(link'[k2][g2], produced')
    BY DEF LinkOK
  <2>0. produced' = produced /\ g2 \in 1..Len(link[k2])
    BY <1>5
  <2>1. CASE k2 = k
    BY <2>0, <2>1, <1>1, <1>3, <1>5
  <2>2. CASE k2 # k
    BY <2>0, <2>2, <1>5 DEF DataInv, LinkOK
  <2> QED
    BY <2>1, <2>2
<1>8. ClrOK(clr', produced') /\ ChanOwn' /\ OwnAnswer'
  BY DEF DataInv, ClrOK, ChanOwn, OwnAnswer
<1> QED
  BY <1>6, <1>7, <1>8 DEF DataInv

LEMMA S_ReaderRcBegin ==
  ASSUME TypeInv, DataInv, NEW k \in Conns, NEW g \in Gens(k), ReaderRcBegin(k, g)
  PROVE  TypeInv' /\ DataInv'
<1> DEFINE l == L(k, g)
<1>0. l \in LinkRec /\ RecOK(l, produced)
  BY RecOfLink, LinkRecOK
<1>1. CASE status[k] = "Connecting"
  <2> DEFINE rec == [l EXCEPT !.r = "dead"]
  <2>1. rec \in LinkRec /\ rec.in = l.in /\ rec.rh = l.rh
    BY <1>0 DEF LinkRec, RSts
  <2>2. RecOK(rec, produced)
    BY <1>0, <2>1, SamePktsOK
  <2>3. SetL(k, g, rec) /\ UNCHANGED <<pc, conn, ret, queries, chans, status, gen, clr, produced>>
    BY <1>1 DEF ReaderRcBegin, callVars
  <2> HIDE DEF l, rec
  <2> QED
    BY <2>1, <2>2, <2>3, S_SetLOnly
<1>2. CASE status[k] # "Connecting"
  <2>1. PICK n \in 0..Len(Cur(k).in) :
           link' = [link EXCEPT ![k] = [h \in Gens(k) |->
                          LET x == IF h = gen[k] THEN Closed(link[k][h], n) ELSE link[k][h] IN
                          IF h = g THEN [x EXCEPT !.r = "dial"] ELSE x]]
    BY <1>2 DEF ReaderRcBegin
  <2> DEFINE X(h) == IF h = gen[k] THEN Closed(link[k][h], n) ELSE link[k][h]
             F(h) == IF h = g THEN [X(h) EXCEPT !.r = "dial"] ELSE X(h)
  <2>2. gen[k] \in Gens(k) /\ Cur(k) = L(k, gen[k])
    BY CurOfLink
  <2>3. \A h \in Gens(k) : X(h) \in LinkRec /\ RecOK(X(h), produced)
    <3> TAKE h \in Gens(k)
    <3>1. L(k, h) \in LinkRec /\ RecOK(L(k, h), produced) /\ L(k, h) = link[k][h]
      BY RecOfLink, LinkRecOK
    <3>2. CASE h = gen[k]
      <4>1. n \in 0..Len(link[k][h].in)
        BY <3>2, <2>2, <3>1
      <4> QED
        BY <4>1, <3>1, <3>2, ClosedOK
    <3>3. CASE h # gen[k]
      BY <3>1, <3>3
    <3> QED
      BY <3>2, <3>3
  <2>4. \A h \in Gens(k) : F(h) \in LinkRec /\ RecOK(F(h), produced)
    <3> TAKE h \in Gens(k)
    <3>1. X(h) \in LinkRec /\ RecOK(X(h), produced)
      BY <2>3
    <3> HIDE DEF X
    <3>2. [X(h) EXCEPT !.r = "dial"] \in LinkRec /\ [X(h) EXCEPT !.r = "dial"].in = X(h).in
          /\ [X(h) EXCEPT !.r = "dial"].rh = X(h).rh
      BY <3>1 DEF LinkRec, RSts
    <3>3. RecOK([X(h) EXCEPT !.r = "dial"], produced)
      BY <3>1, <3>2, SamePktsOK
    <3> QED
      BY <3>1, <3>2, <3>3
  <2>5. link' = [link EXCEPT ![k] = [h \in Gens(k) |-> F(h)]]
    BY <2>1
  <2>6. /\ status' \in [Conns -> {"Connected", "Connecting"}]
        /\ gen' \in [Conns -> Nat] /\ \A k2 \in Conns : gen'[k2] \in 1..Len(link[k2])
        /\ UNCHANGED <<pc, conn, ret, queries, chans, clr, produced>>
    BY <1>2 DEF ReaderRcBegin, callVars, TypeInv
  <2> HIDE DEF F, X
  <2> QED
    BY <2>4, <2>5, <2>6, S_Map
<1> QED
  BY <1>1, <1>2

LEMMA S_SetupDone ==
  ASSUME TypeInv, DataInv, NEW k \in Conns, SetupDone(k)
  PROVE  TypeInv' /\ DataInv'
<1> DEFINE F(h) == IF h = gen[k] + 1 THEN [link[k][h] EXCEPT !.p = "run", !.r = "run"]
                   ELSE IF dial[k] = <<"r", h>> THEN [link[k][h] EXCEPT !.r = "dead"] ELSE link[k][h]
<1>1. \A h \in Gens(k) : F(h) \in LinkRec /\ RecOK(F(h), produced)
  <2> TAKE h \in Gens(k)
  <2>1. L(k, h) \in LinkRec /\ RecOK(L(k, h), produced) /\ L(k, h) = link[k][h]
    BY RecOfLink, LinkRecOK
  <2>2. F(h) \in LinkRec /\ F(h).in = link[k][h].in /\ F(h).rh = link[k][h].rh
    BY <2>1 DEF LinkRec, PSts, RSts
  <2> HIDE DEF F
  <2> QED
    BY <2>1, <2>2, SamePktsOK
<1>2. link' = [link EXCEPT ![k] = [h \in Gens(k) |-> F(h)]]
  BY DEF SetupDone
<1>3. /\ status' \in [Conns -> {"Connected", "Connecting"}]
      /\ gen' \in [Conns -> Nat] /\ \A k2 \in Conns : gen'[k2] \in 1..Len(link[k2])
      /\ UNCHANGED <<pc, conn, ret, queries, chans, clr, produced>>
  BY DEF SetupDone, callVars, TypeInv
<1> HIDE DEF F
<1> QED
  BY <1>1, <1>2, <1>3, S_Map

LEMMA S_DialOk ==
  ASSUME TypeInv, DataInv, NEW k \in Conns, DialOk(k)
  PROVE  TypeInv' /\ DataInv'
<1> DEFINE s == Append(link[k], NewLink)
<1>1. link \in [Conns -> Seq(LinkRec)] /\ link[k] \in Seq(LinkRec) /\ Len(link[k]) \in Nat
  BY LenProperties DEF TypeInv
<1>2. /\ s \in Seq(LinkRec) /\ Len(s) = Len(link[k]) + 1
      /\ \A i \in 1 .. Len(link[k]) : s[i] = link[k][i]
      /\ s[Len(link[k]) + 1] = NewLink
  BY <1>1, NewLinkType, AppendProperties
<1>3. link' = [link EXCEPT ![k] = s] /\ UNCHANGED <<pc, conn, ret, queries, chans, status, gen, clr, produced>>
  BY DEF DialOk, callVars
<1> HIDE DEF s
<1>4. /\ link' \in [Conns -> Seq(LinkRec)]
      /\ \A k2 \in Conns : k2 # k => link'[k2] = link[k2]
      /\ link'[k] = s
  BY <1>1, <1>2, <1>3
<1>5. TypeInv'
  BY <1>1, <1>2, <1>3, <1>4 DEF TypeInv
<1>6. LinkOK(link', produced')
  <2> SUFFICES ASSUME NEW k2 \in Conns, NEW g2 \in 1..Len(link'[k2]) PROVE RecOK(link'[k2][g2], produced')
    BY DEF LinkOK
  <2>0. produced' = produced
    BY <1>3
  <2>1. CASE k2 # k
    BY <2>0, <2>1, <1>4 DEF DataInv, LinkOK
  <2>2. CASE k2 = k /\ g2 \in 1..Len(link[k])
    BY <2>0, <2>2, <1>2, <1>4 DEF DataInv, LinkOK
  <2>3. CASE k2 = k /\ g2 = Len(link[k]) + 1
    <3>1. link'[k2][g2] = NewLink
      BY <2>3, <1>2, <1>4
    <3>2. RecOK(NewLink, produced')
      BY NewLinkType, NoPktType DEF RecOK, PktOKp
    <3> QED
      BY <3>1, <3>2
  <2> QED
    BY <2>1, <2>2, <2>3, <1>1, <1>2, <1>4
<1>7. ClrOK(clr', produced') /\ ChanOwn' /\ OwnAnswer'
  BY <1>3 DEF DataInv, ClrOK, ChanOwn, OwnAnswer
<1> QED
  BY <1>5, <1>6, <1>7 DEF DataInv

(* ==================================== TypeInv /\ DataInv is preserved by Next *)
LEMMA TD_Caller ==
  ASSUME TypeInv, DataInv, NEW c \in Calls, CallerStep(c)
  PROVE  TypeInv' /\ DataInv'
  BY S_Register, S_PickConn, S_SendNotConnected, S_SendOk, S_SendFail, S_CallerRecv, S_CallerTimeout, S_Unregister
     DEF CallerStep

LEMMA TD_Server ==
  ASSUME TypeInv, DataInv, NEW k \in Conns, NEW g \in Gens(k), ServerStep(k, g)
  PROVE  TypeInv' /\ DataInv'
<1>1. CASE \E i \in Calls : SrvRecv(k, g, i) \/ SrvAnswer(k, g, i, i) \/ SrvDup(k, g, i, i)
  BY <1>1, S_SrvRecv, S_SrvAnswer, S_SrvDup
<1>2. CASE SrvUnknown(k, g, Unknown) \/ SrvPong(k, g) \/ SrvOther(k, g, Unknown)
  BY <1>2, S_SrvNoise DEF SrvUnknown, SrvPong, SrvOther
<1>3. CASE SrvDrop(k, g)
  BY <1>3, S_SrvDrop
<1> QED
  BY <1>1, <1>2, <1>3 DEF ServerStep

LEMMA TD_Reader ==
  ASSUME TypeInv, DataInv, NEW k \in Conns, NEW g \in Gens(k), ReaderStep(k, g)
  PROVE  TypeInv' /\ DataInv'
  BY S_ConnReaderRecv, S_FieldOnly, S_PktStuck, S_HandOff, S_ReaderRcBegin DEF ReaderStep

LEMMA S_DialFail ==
  ASSUME TypeInv, DataInv, NEW k \in Conns, DialFail(k)
  PROVE  TypeInv' /\ DataInv'
  BY UnchStep DEF DialFail, callVars

LEMMA TD_Conn ==
  ASSUME TypeInv, DataInv, NEW k \in Conns, ConnStep(k)
  PROVE  TypeInv' /\ DataInv'
  BY S_Lookup, S_Deliver, S_PingTick, S_RcBegin, S_DialOk, S_DialFail, S_SetupDone DEF ConnStep

LEMMA TD_Next ==
  ASSUME TypeInv, DataInv, [Next]_vars
  PROVE  TypeInv' /\ DataInv'
<1>1. CASE \E c \in Calls : CallerStep(c)
  BY <1>1, TD_Caller
<1>2. CASE \E k \in Conns : ConnStep(k) \/ \E g \in Gens(k) : ServerStep(k, g) \/ ReaderStep(k, g)
  BY <1>2, TD_Conn, TD_Server, TD_Reader
<1>3. CASE Done \/ UNCHANGED vars
  BY <1>3, UnchStep DEF Done, vars
<1> QED
  BY <1>1, <1>2, <1>3 DEF Next

(* ============================================================ the registry *)
\* steps that touch none of pc, queries, chans, clr
LEMMA R_Unch ==
  ASSUME RegInv, UNCHANGED <<pc, queries, chans, clr>>
  PROVE  RegInv'
  BY DEF RegInv, RI1, RI2, RI3, RI4, RI5, RegisteredWhileWaiting, Found

\* steps in which one call moves on inside Request without touching the registry
LEMMA R_PcOnly ==
  ASSUME TypeInv, RegInv, NEW c \in Calls, NEW x \in {"picked", "wait", "unreg"},
         pc[c] \in {"reg", "picked", "wait"}, pc' = [pc EXCEPT ![c] = x],
         UNCHANGED <<queries, chans, clr>>
  PROVE  RegInv'
  BY DEF TypeInv, RegInv, RI1, RI2, RI3, RI4, RI5, RegisteredWhileWaiting, Found

LEMMA R_Register ==
  ASSUME TypeInv, RegInv, NEW c \in Calls, Register(c)
  PROVE  RegInv'
  BY DEF TypeInv, RegInv, RI1, RI2, RI3, RI4, RI5, RegisteredWhileWaiting, Found, Register

LEMMA R_Unregister ==
  ASSUME TypeInv, RegInv, NEW c \in Calls, Unregister(c)
  PROVE  RegInv'
  BY DEF TypeInv, RegInv, RI1, RI2, RI3, RI4, RI5, RegisteredWhileWaiting, Found, Unregister

LEMMA R_CallerRecv ==
  ASSUME TypeInv, DataInv, RegInv, NEW c \in Calls, CallerRecv(c)
  PROVE  RegInv'
<1>0. chans[c] \in Seq(Vals) /\ chans[c] # <<>> /\ Len(chans[c]) <= 1
  BY DEF TypeInv, CallerRecv, RegInv, RI1
<1>1. Tail(chans[c]) \in Seq(Vals) /\ Len(Tail(chans[c])) = Len(chans[c]) - 1 /\ Len(chans[c]) \in Nat \ {0}
  BY <1>0, HeadTailProperties, EmptySeq
<1>2. Tail(chans[c]) = <<>>
  BY <1>0, <1>1, EmptySeq
<1>3. /\ chans' = [chans EXCEPT ![c] = <<>>] /\ pc' = [pc EXCEPT ![c] = "unreg"] /\ pc[c] = "wait"
      /\ UNCHANGED <<queries, clr>>
  BY <1>2 DEF CallerRecv
<1>4. c \notin queries /\ \A k \in Conns : ~(clr[k].st = "found" /\ clr[k].pkt.id = c)
  BY <1>0 DEF RegInv, RI3, RI4
<1>5. /\ chans'[c] = <<>> /\ \A d \in Calls : d # c => chans'[d] = chans[d]
      /\ pc'[c] = "unreg" /\ \A d \in Calls : d # c => pc'[d] = pc[d]
      /\ queries' = queries /\ clr' = clr
  BY <1>3 DEF TypeInv
<1>6. RI1'
  <2>1. Len(<<>>) = 0
    OBVIOUS
  <2> QED
    BY <1>5, <2>1 DEF RegInv, RI1
<1>7. RI2'
  BY <1>5 DEF RegInv, RI2, Found
<1>8. RI3'
  BY <1>4, <1>5 DEF TypeInv, RegInv, RI3, Found
<1>9. RI4'
  <2> SUFFICES ASSUME NEW k \in Conns, clr[k].st = "found"
               PROVE  clr[k].pkt.id \notin queries /\ chans'[clr[k].pkt.id] = <<>>
    BY <1>5 DEF RI4
  <2>1. clr[k].pkt.id \notin queries /\ chans[clr[k].pkt.id] = <<>> /\ clr[k].pkt.id # c
    BY <1>0 DEF RegInv, RI4
  <2>2. clr[k].pkt.id \in Calls
    BY DEF DataInv, ClrOK
  <2> QED
    BY <2>1, <2>2, <1>5
<1>10. RI5'
  BY <1>5 DEF RegInv, RI5
<1>11. RegisteredWhileWaiting'
  BY <1>5 DEF RegInv, RegisteredWhileWaiting
<1> QED
  BY <1>6, <1>7, <1>8, <1>9, <1>10, <1>11 DEF RegInv

LEMMA R_HandOff ==
  ASSUME TypeInv, RegInv, NEW k \in Conns, NEW g \in Gens(k), HandOff(k, g)
  PROVE  RegInv'
<1>1. /\ clr[k].st = "idle" /\ clr' = [clr EXCEPT ![k] = [st |-> "got", pkt |-> L(k, g).rh]]
      /\ UNCHANGED <<pc, queries, chans>>
  BY DEF HandOff, callVars
<1>2. \A k2 \in Conns : clr'[k2].st = "found" => k2 # k /\ clr'[k2] = clr[k2]
  BY <1>1 DEF TypeInv
<1>3. \A k2 \in Conns : clr[k2].st = "found" => k2 # k /\ clr'[k2] = clr[k2]
  BY <1>1 DEF TypeInv
<1> QED
  BY <1>1, <1>2, <1>3 DEF RegInv, RI1, RI2, RI3, RI4, RI5, RegisteredWhileWaiting, Found

LEMMA R_Lookup ==
  ASSUME TypeInv, RegInv, NEW k \in Conns, ClientReaderLookup(k)
  PROVE  RegInv'
<1> DEFINE p == clr[k].pkt
<1>0. clr[k].st = "got" /\ clr \in [Conns -> ClrRec] /\ UNCHANGED <<pc, chans>>
  BY DEF ClientReaderLookup, TypeInv
<1>1. CASE p.t = "ans" /\ p.id \in queries
  <2>1. /\ queries' = queries \ {p.id} /\ clr' = [clr EXCEPT ![k].st = "found"]
    BY <1>1 DEF ClientReaderLookup
  <2>2. /\ clr'[k].st = "found" /\ clr'[k].pkt = p
        /\ \A k2 \in Conns : k2 # k => clr'[k2] = clr[k2]
    BY <2>1, <1>0 DEF ClrRec
  <2>3. p.id \in Calls /\ chans[p.id] = <<>> /\ \A k2 \in Conns : ~(clr[k2].st = "found" /\ clr[k2].pkt.id = p.id)
    BY <1>1 DEF RegInv, RI3, TypeInv, Found
  <2>4. pc[p.id] # "start"
    BY <1>1, <2>3 DEF RegInv, RI2
  <2>5. \A k2 \in Conns : clr[k2].st = "found" => k2 # k /\ clr[k2].pkt.id \notin queries
    BY <1>0 DEF RegInv, RI4
  <2> HIDE DEF p
  <2> QED
    BY <1>0, <2>1, <2>2, <2>3, <2>4, <2>5 DEF RegInv, RI1, RI2, RI3, RI4, RI5, RegisteredWhileWaiting, Found
<1>2. CASE ~(p.t = "ans" /\ p.id \in queries)
  <2>1. /\ queries' = queries /\ clr' = [clr EXCEPT ![k] = [st |-> "idle", pkt |-> NoPkt]]
    BY <1>2 DEF ClientReaderLookup
  <2>2. /\ clr'[k].st = "idle"
        /\ \A k2 \in Conns : k2 # k => clr'[k2] = clr[k2]
    BY <2>1, <1>0
  <2> HIDE DEF p
  <2> QED
    BY <1>0, <2>1, <2>2 DEF RegInv, RI1, RI2, RI3, RI4, RI5, RegisteredWhileWaiting, Found
<1> QED
  BY <1>1, <1>2

LEMMA R_Deliver ==
  ASSUME TypeInv, DataInv, RegInv, NEW k \in Conns, ClientReaderDeliver(k)
  PROVE  RegInv'
<1> DEFINE p == clr[k].pkt
           q == p.id
<1>0. /\ clr[k].st = "found" /\ clr \in [Conns -> ClrRec] /\ chans \in [Calls -> Seq(Vals)]
      /\ q \in Calls /\ p.v \in Vals
  BY DEF ClientReaderDeliver, TypeInv, DataInv, ClrOK, ClrRec, Pkts, Vals
<1>1. /\ chans' = [chans EXCEPT ![q] = Append(@, p.v)]
      /\ clr' = [clr EXCEPT ![k] = [st |-> "idle", pkt |-> NoPkt]]
      /\ UNCHANGED <<pc, queries>>
  BY DEF ClientReaderDeliver
<1>2. q \notin queries /\ chans[q] = <<>>
  BY <1>0 DEF RegInv, RI4
<1>3. /\ Append(chans[q], p.v) \in Seq(Vals) /\ Append(chans[q], p.v) # <<>>
      /\ Len(Append(chans[q], p.v)) = Len(chans[q]) + 1 /\ Len(chans[q]) = 0
  BY <1>0, <1>2, AppendProperties, EmptySeq
<1>4. /\ chans'[q] # <<>> /\ Len(chans'[q]) = 1
      /\ \A d \in Calls : d # q => chans'[d] = chans[d]
  BY <1>0, <1>1, <1>3
<1>5. /\ clr'[k].st = "idle"
      /\ \A k2 \in Conns : k2 # k => clr'[k2] = clr[k2]
  BY <1>0, <1>1
<1>6. \A k2 \in Conns : k2 # k /\ clr[k2].st = "found" => clr[k2].pkt.id # q
  BY <1>0 DEF RegInv, RI5
<1>7. pc[q] # "start"
  BY <1>0 DEF RegInv, RI2, Found
<1> HIDE DEF p, q
<1>8. RI1'
  BY <1>1, <1>4 DEF RegInv, RI1
<1>9. RI2'
  <2> SUFFICES ASSUME NEW c \in Calls, pc[c] = "start"
               PROVE  c \notin queries /\ chans'[c] = <<>> /\ \A k2 \in Conns : ~(clr'[k2].st = "found" /\ clr'[k2].pkt.id = c)
    BY <1>1 DEF RI2, Found
  <2>1. c # q /\ c \notin queries /\ chans[c] = <<>> /\ \A k2 \in Conns : ~(clr[k2].st = "found" /\ clr[k2].pkt.id = c)
    BY <1>7 DEF RegInv, RI2, Found
  <2> QED
    BY <2>1, <1>4, <1>5
<1>10. RI3'
  <2> SUFFICES ASSUME NEW c \in queries
               PROVE  chans'[c] = <<>> /\ \A k2 \in Conns : ~(clr'[k2].st = "found" /\ clr'[k2].pkt.id = c)
    BY <1>1 DEF RI3, Found
  <2>1. c \in Calls /\ c # q /\ chans[c] = <<>> /\ \A k2 \in Conns : ~(clr[k2].st = "found" /\ clr[k2].pkt.id = c)
    BY <1>2 DEF TypeInv, RegInv, RI3, Found
  <2> QED
    BY <2>1, <1>4, <1>5
<1>11. RI4'
  <2> SUFFICES ASSUME NEW k2 \in Conns, clr'[k2].st = "found"
               PROVE  clr'[k2].pkt.id \notin queries /\ chans'[clr'[k2].pkt.id] = <<>>
    BY <1>1 DEF RI4
  <2>1. k2 # k /\ clr'[k2] = clr[k2]
    BY <1>5
  <2>2. clr[k2].pkt.id \notin queries /\ chans[clr[k2].pkt.id] = <<>> /\ clr[k2].pkt.id # q
    BY <2>1, <1>6 DEF RegInv, RI4
  <2>3. clr[k2].pkt.id \in Calls
    BY <2>1 DEF DataInv, ClrOK
  <2> QED
    BY <2>1, <2>2, <2>3, <1>4
<1>12. RI5'
  BY <1>5 DEF RegInv, RI5
<1>13. RegisteredWhileWaiting'
  <2> SUFFICES ASSUME NEW c \in Calls, pc[c] \in {"reg", "picked", "wait"}
               PROVE  \/ c \in queries \/ chans'[c] # <<>>
                      \/ \E k2 \in Conns : clr'[k2].st = "found" /\ clr'[k2].pkt.id = c
    BY <1>1 DEF RegisteredWhileWaiting
  <2>1. CASE c = q
    BY <2>1, <1>4
  <2>2. CASE c # q
    <3>1. \/ c \in queries \/ chans[c] # <<>> \/ \E k2 \in Conns : clr[k2].st = "found" /\ clr[k2].pkt.id = c
      BY DEF RegInv, RegisteredWhileWaiting
    <3>2. \A k2 \in Conns : clr[k2].st = "found" /\ clr[k2].pkt.id = c => k2 # k
      BY <2>2 DEF q, p
    <3> QED
      BY <3>1, <3>2, <2>2, <1>4, <1>5
  <2> QED
    BY <2>1, <2>2
<1> QED
  BY <1>8, <1>9, <1>10, <1>11, <1>12, <1>13 DEF RegInv

LEMMA R_Next ==
  ASSUME TypeInv, DataInv, RegInv, [Next]_vars
  PROVE  RegInv'
<1>1. ASSUME NEW c \in Calls, CallerStep(c) PROVE RegInv'
  <2>1. CASE Register(c)
    BY <2>1, R_Register
  <2>2. CASE \E k \in Conns : PickConn(c, k)
    BY <2>2, R_PcOnly DEF PickConn
  <2>3. CASE SendNotConnected(c)
    BY <2>3, R_PcOnly DEF SendNotConnected
  <2>4. CASE SendOk(c)
    BY <2>4, R_PcOnly DEF SendOk
  <2>5. CASE SendFail(c)
    BY <2>5, R_PcOnly DEF SendFail
  <2>6. CASE CallerRecv(c)
    BY <2>6, R_CallerRecv
  <2>7. CASE CallerTimeout(c)
    BY <2>7, R_PcOnly DEF CallerTimeout
  <2>8. CASE Unregister(c)
    BY <2>8, R_Unregister
  <2> QED
    BY <1>1, <2>1, <2>2, <2>3, <2>4, <2>5, <2>6, <2>7, <2>8 DEF CallerStep
<1>2. ASSUME NEW k \in Conns, ConnStep(k) PROVE RegInv'
  <2>1. CASE ClientReaderLookup(k)
    BY <2>1, R_Lookup
  <2>2. CASE ClientReaderDeliver(k)
    BY <2>2, R_Deliver
  <2>3. CASE PingTick(k) \/ RcBegin(k) \/ DialOk(k) \/ DialFail(k) \/ SetupDone(k)
    BY <2>3, R_Unch DEF PingTick, RcBegin, DialOk, DialFail, SetupDone, callVars
  <2> QED
    BY <1>2, <2>1, <2>2, <2>3 DEF ConnStep
<1>3. ASSUME NEW k \in Conns, NEW g \in Gens(k), ServerStep(k, g) PROVE RegInv'
  BY <1>3, R_Unch DEF ServerStep, SrvRecv, SrvAnswer, SrvDup, SrvUnknown, SrvPong, SrvOther, SrvNoise, SrvDrop, callVars
<1>4. ASSUME NEW k \in Conns, NEW g \in Gens(k), ReaderStep(k, g) PROVE RegInv'
  <2>1. CASE HandOff(k, g)
    BY <2>1, R_HandOff
  <2>2. CASE ConnReaderRecv(k, g) \/ PktExit(k, g) \/ ConnReaderEOF(k, g) \/ ConnReaderSilence(k, g)
             \/ PktStuck(k, g) \/ ReaderRcBegin(k, g)
    BY <2>2, R_Unch DEF ConnReaderRecv, PktExit, ConnReaderEOF, ConnReaderSilence, PktStuck, ReaderRcBegin, callVars
  <2> QED
    BY <1>4, <2>1, <2>2 DEF ReaderStep
<1>5. CASE Done \/ UNCHANGED vars
  BY <1>5, R_Unch DEF Done, vars
<1> QED
  BY <1>1, <1>2, <1>3, <1>4, <1>5 DEF Next

(* =============================================================== the theorems *)
THEOREM InvInductive == Inv /\ [Next]_vars => Inv'
  BY TD_Next, R_Next DEF Inv

THEOREM InvInvariant == Spec => []Inv
<1>1. Init => Inv
  BY InitInv
<1>2. Inv /\ [Next]_vars => Inv'
  BY InvInductive
<1> QED
  BY <1>1, <1>2, PTL DEF Spec

\* what the inductive invariant gives: the four key safety properties of C12 and the capacity of a reply channel
THEOREM InvImplies ==
  Inv => /\ OwnAnswer /\ ChanOwn /\ ReaderNeverBlocks /\ RegisteredWhileWaiting
         /\ \A c \in Calls : Len(chans[c]) <= 1
  BY DEF Inv, DataInv, RegInv, RI1, RI4, ReaderNeverBlocks

THEOREM Safety == Spec => [](OwnAnswer /\ ChanOwn /\ ReaderNeverBlocks /\ RegisteredWhileWaiting)
  BY InvInvariant, InvImplies, PTL
=============================================================================
