--------------------------- MODULE LiteClient_Ind ---------------------------
(* C12, unbounded assurance: OwnAnswer (and ChanOwn, ReaderNeverBlocks,         *)
(* RegisteredWhileWaiting, reply channels never hold more than one item) as     *)
(* consequences of an INDUCTIVE invariant of LiteClient, proved with TLAPS for *)
(* an arbitrary set of calls, any number of connections, any number of         *)
(* reconnect generations, any backlog, any values of MaxDrops / MaxNoise /     *)
(* MaxSilence / StrictRst.                                                     *)
(*                                                                             *)
(* The step lemmas are in LiteClient_Ind1.tla (initial state, callers, server) *)
(* and LiteClient_Ind2.tla (readers, reconnect); tlapm checks each module in a *)
(* run of its own, this one proves the registry part and the theorems.         *)
(*                                                                             *)
(* EXTENDS LiteClient: the module proved about is spec/proofs/typed/           *)
(* LiteClient.tla, i.e. spec/LiteClient.tla without the goroutine-counting     *)
(* operators (their LET RECURSIVE is rejected by tlapm's parser); Init, Next   *)
(* and every property used here are token-identical (checked by bin/prove).    *)
(*                                                                             *)
(* The only assumptions: NConns is a natural number and Unknown is not a call  *)
(* ("a query id that no call uses").  Query ids of concurrent calls are        *)
(* distinct by construction of the model: a call IS its id.                    *)
(*                                                                             *)
(* The strengthening:                                                          *)
(*   DataInv  every packet anywhere between the server and a reply channel     *)
(*            (socket backlog `in`, the connection reader's hand `rh`, the     *)
(*            client reader's hand `clr.pkt`) that is an answer to call i      *)
(*            carries a value the server produced for i; the packet the client *)
(*            reader has looked up ("found") is an answer to a call; what is   *)
(*            in reply channel c, and what call c has returned, was produced   *)
(*            for c.                                                           *)
(*   RegInv   lookup + delete is atomic: an id that has been looked up is no   *)
(*            longer registered, at most one reader holds a given id, and its  *)
(*            reply channel is still empty (so the delivery cannot block and   *)
(*            the channel never holds two items).                              *)
EXTENDS LiteClient_Ind2

(* ==================================== TypeInv /\ DataInv is preserved by Next *)
LEMMA TD_Caller ==
  ASSUME TypeInv, DataInv, NEW c \in Calls, CallerStep(c)
  PROVE  TypeInv' /\ DataInv'
  BY S_Register, S_PickConn, S_SendNotConnected, S_SendOk, S_SendFail, S_CallerRecv, S_CallerTimeout, S_Unregister
     DEF CallerStep

LEMMA TD_Server ==
  ASSUME TypeInv, DataInv, NEW k \in Conns, NEW g \in Gens(k), ServerStep(k, g)
  PROVE  TypeInv' /\ DataInv'
<1>1. CASE \E i \in Calls : SrvRecv(k, g, i) \/ SrvAnswer(k, g, i, i) \/ SrvDup(k, g, i, i)
  BY <1>1, S_SrvRecv, S_SrvAnswer, S_SrvDup
<1>2. CASE SrvUnknown(k, g, Unknown) \/ SrvPong(k, g) \/ SrvOther(k, g, Unknown)
  BY <1>2, S_SrvNoise DEF SrvUnknown, SrvPong, SrvOther
<1>3. CASE SrvDrop(k, g)
  BY <1>3, S_SrvDrop
<1> QED
  BY <1>1, <1>2, <1>3 DEF ServerStep

LEMMA TD_Reader ==
  ASSUME TypeInv, DataInv, NEW k \in Conns, NEW g \in Gens(k), ReaderStep(k, g)
  PROVE  TypeInv' /\ DataInv'
  BY S_ConnReaderRecv, S_FieldOnly, S_PktStuck, S_HandOff, S_ReaderRcBegin DEF ReaderStep

LEMMA S_DialFail ==
  ASSUME TypeInv, DataInv, NEW k \in Conns, DialFail(k)
  PROVE  TypeInv' /\ DataInv'
  BY UnchStep DEF DialFail, callVars

LEMMA TD_Conn ==
  ASSUME TypeInv, DataInv, NEW k \in Conns, ConnStep(k)
  PROVE  TypeInv' /\ DataInv'
  BY S_Lookup, S_Deliver, S_PingTick, S_RcBegin, S_DialOk, S_DialFail, S_SetupDone DEF ConnStep

LEMMA TD_Next ==
  ASSUME TypeInv, DataInv, [Next]_vars
  PROVE  TypeInv' /\ DataInv'
<1>1. CASE \E c \in Calls : CallerStep(c)
  BY <1>1, TD_Caller
<1>2. CASE \E k \in Conns : ConnStep(k) \/ \E g \in Gens(k) : ServerStep(k, g) \/ ReaderStep(k, g)
  BY <1>2, TD_Conn, TD_Server, TD_Reader
<1>3. CASE Done \/ UNCHANGED vars
  BY <1>3, UnchStep DEF Done, vars
<1> QED
  BY <1>1, <1>2, <1>3 DEF Next

(* ============================================================ the registry *)
\* steps that touch none of pc, queries, chans, clr
LEMMA R_Unch ==
  ASSUME RegInv, UNCHANGED <<pc, queries, chans, clr>>
  PROVE  RegInv'
  BY DEF RegInv, RI1, RI2, RI3, RI4, RI5, RegisteredWhileWaiting, Found

\* steps in which one call moves on inside Request without touching the registry
LEMMA R_PcOnly ==
  ASSUME TypeInv, RegInv, NEW c \in Calls, NEW x \in {"picked", "wait", "unreg"},
         pc[c] \in {"reg", "picked", "wait"}, pc' = [pc EXCEPT ![c] = x],
         UNCHANGED <<queries, chans, clr>>
  PROVE  RegInv'
  BY DEF TypeInv, RegInv, RI1, RI2, RI3, RI4, RI5, RegisteredWhileWaiting, Found

LEMMA R_Register ==
  ASSUME TypeInv, RegInv, NEW c \in Calls, Register(c)
  PROVE  RegInv'
  BY DEF TypeInv, RegInv, RI1, RI2, RI3, RI4, RI5, RegisteredWhileWaiting, Found, Register

LEMMA R_Unregister ==
  ASSUME TypeInv, RegInv, NEW c \in Calls, Unregister(c)
  PROVE  RegInv'
  BY DEF TypeInv, RegInv, RI1, RI2, RI3, RI4, RI5, RegisteredWhileWaiting, Found, Unregister

LEMMA R_CallerRecv ==
  ASSUME TypeInv, DataInv, RegInv, NEW c \in Calls, CallerRecv(c)
  PROVE  RegInv'
<1>0. chans[c] \in Seq(Vals) /\ chans[c] # <<>> /\ Len(chans[c]) <= 1
  BY DEF TypeInv, CallerRecv, RegInv, RI1
<1>1. Tail(chans[c]) \in Seq(Vals) /\ Len(Tail(chans[c])) = Len(chans[c]) - 1 /\ Len(chans[c]) \in Nat \ {0}
  BY <1>0, HeadTailProperties, EmptySeq
<1>2. Tail(chans[c]) = <<>>
  BY <1>0, <1>1, EmptySeq
<1>3. /\ chans' = [chans EXCEPT ![c] = <<>>] /\ pc' = [pc EXCEPT ![c] = "unreg"] /\ pc[c] = "wait"
      /\ UNCHANGED <<queries, clr>>
  BY <1>2 DEF CallerRecv
<1>4. c \notin queries /\ \A k \in Conns : ~(clr[k].st = "found" /\ clr[k].pkt.id = c)
  BY <1>0 DEF RegInv, RI3, RI4
<1>5. /\ chans'[c] = <<>> /\ \A d \in Calls : d # c => chans'[d] = chans[d]
      /\ pc'[c] = "unreg" /\ \A d \in Calls : d # c => pc'[d] = pc[d]
      /\ queries' = queries /\ clr' = clr
  BY <1>3 DEF TypeInv
<1>6. RI1'
  <2>1. Len(<<>>) = 0
    OBVIOUS
  <2> QED
    BY <1>5, <2>1 DEF RegInv, RI1
<1>7. RI2'
  BY <1>5 DEF RegInv, RI2, Found
<1>8. RI3'
  BY <1>4, <1>5 DEF TypeInv, RegInv, RI3, Found
<1>9. RI4'
  <2> SUFFICES ASSUME NEW k \in Conns, clr[k].st = "found"
               PROVE  clr[k].pkt.id \notin queries /\ chans'[clr[k].pkt.id] = <<>>
    BY <1>5 DEF RI4
  <2>1. clr[k].pkt.id \notin queries /\ chans[clr[k].pkt.id] = <<>> /\ clr[k].pkt.id # c
    BY <1>0 DEF RegInv, RI4
  <2>2. clr[k].pkt.id \in Calls
    BY DEF DataInv, ClrOK
  <2> QED
    BY <2>1, <2>2, <1>5
<1>10. RI5'
  BY <1>5 DEF RegInv, RI5
<1>11. RegisteredWhileWaiting'
  BY <1>5 DEF RegInv, RegisteredWhileWaiting
<1> QED
  BY <1>6, <1>7, <1>8, <1>9, <1>10, <1>11 DEF RegInv

LEMMA R_HandOff ==
  ASSUME TypeInv, RegInv, NEW k \in Conns, NEW g \in Gens(k), HandOff(k, g)
  PROVE  RegInv'
<1>1. /\ clr[k].st = "idle" /\ clr' = [clr EXCEPT ![k] = [st |-> "got", pkt |-> L(k, g).rh]]
      /\ UNCHANGED <<pc, queries, chans>>
  BY DEF HandOff, callVars
<1>2. \A k2 \in Conns : clr'[k2].st = "found" => k2 # k /\ clr'[k2] = clr[k2]
  BY <1>1 DEF TypeInv
<1>3. \A k2 \in Conns : clr[k2].st = "found" => k2 # k /\ clr'[k2] = clr[k2]
  BY <1>1 DEF TypeInv
<1> QED
  BY <1>1, <1>2, <1>3 DEF RegInv, RI1, RI2, RI3, RI4, RI5, RegisteredWhileWaiting, Found

LEMMA R_Lookup ==
  ASSUME TypeInv, RegInv, NEW k \in Conns, ClientReaderLookup(k)
  PROVE  RegInv'
<1> DEFINE p == clr[k].pkt
<1>0. clr[k].st = "got" /\ clr \in [Conns -> ClrRec] /\ UNCHANGED <<pc, chans>>
  BY DEF ClientReaderLookup, TypeInv
<1>1. CASE p.t = "ans" /\ p.id \in queries
  <2>1. /\ queries' = queries \ {p.id} /\ clr' = [clr EXCEPT ![k].st = "found"]
    BY <1>1 DEF ClientReaderLookup
  <2>2. /\ clr'[k].st = "found" /\ clr'[k].pkt = p
        /\ \A k2 \in Conns : k2 # k => clr'[k2] = clr[k2]
    BY <2>1, <1>0 DEF ClrRec
  <2>3. p.id \in Calls /\ chans[p.id] = <<>> /\ \A k2 \in Conns : ~(clr[k2].st = "found" /\ clr[k2].pkt.id = p.id)
    BY <1>1 DEF RegInv, RI3, TypeInv, Found
  <2>4. pc[p.id] # "start"
    BY <1>1, <2>3 DEF RegInv, RI2
  <2>5. \A k2 \in Conns : clr[k2].st = "found" => k2 # k /\ clr[k2].pkt.id \notin queries
    BY <1>0 DEF RegInv, RI4
  <2> HIDE DEF p
  <2> QED
    BY <1>0, <2>1, <2>2, <2>3, <2>4, <2>5 DEF RegInv, RI1, RI2, RI3, RI4, RI5, RegisteredWhileWaiting, Found
<1>2. CASE ~(p.t = "ans" /\ p.id \in queries)
  <2>1. /\ queries' = queries /\ clr' = [clr EXCEPT ![k] = [st |-> "idle", pkt |-> NoPkt]]
    BY <1>2 DEF ClientReaderLookup
  <2>2. /\ clr'[k].st = "idle"
        /\ \A k2 \in Conns : k2 # k => clr'[k2] = clr[k2]
    BY <2>1, <1>0
  <2> HIDE DEF p
  <2> QED
    BY <1>0, <2>1, <2>2 DEF RegInv, RI1, RI2, RI3, RI4, RI5, RegisteredWhileWaiting, Found
<1> QED
  BY <1>1, <1>2

LEMMA R_Deliver ==
  ASSUME TypeInv, DataInv, RegInv, NEW k \in Conns, ClientReaderDeliver(k)
  PROVE  RegInv'
<1> DEFINE p == clr[k].pkt
           q == p.id
<1>0. /\ clr[k].st = "found" /\ clr \in [Conns -> ClrRec] /\ chans \in [Calls -> Seq(Vals)]
      /\ q \in Calls /\ p.v \in Vals
  BY DEF ClientReaderDeliver, TypeInv, DataInv, ClrOK, ClrRec, Pkts, Vals
<1>1. /\ chans' = [chans EXCEPT ![q] = Append(@, p.v)]
      /\ clr' = [clr EXCEPT ![k] = [st |-> "idle", pkt |-> NoPkt]]
      /\ UNCHANGED <<pc, queries>>
  BY DEF ClientReaderDeliver
<1>2. q \notin queries /\ chans[q] = <<>>
  BY <1>0 DEF RegInv, RI4
<1>3. /\ Append(chans[q], p.v) \in Seq(Vals) /\ Append(chans[q], p.v) # <<>>
      /\ Len(Append(chans[q], p.v)) = Len(chans[q]) + 1 /\ Len(chans[q]) = 0
  BY <1>0, <1>2, AppendProperties, EmptySeq
<1>4. /\ chans'[q] # <<>> /\ Len(chans'[q]) = 1
      /\ \A d \in Calls : d # q => chans'[d] = chans[d]
  BY <1>0, <1>1, <1>3
<1>5. /\ clr'[k].st = "idle"
      /\ \A k2 \in Conns : k2 # k => clr'[k2] = clr[k2]
  BY <1>0, <1>1
<1>6. \A k2 \in Conns : k2 # k /\ clr[k2].st = "found" => clr[k2].pkt.id # q
  BY <1>0 DEF RegInv, RI5
<1>7. pc[q] # "start"
  BY <1>0 DEF RegInv, RI2, Found
<1> HIDE DEF p, q
<1>8. RI1'
  BY <1>1, <1>4 DEF RegInv, RI1
<1>9. RI2'
  <2> SUFFICES ASSUME NEW c \in Calls, pc[c] = "start"
               PROVE  c \notin queries /\ chans'[c] = <<>> /\ \A k2 \in Conns : ~(clr'[k2].st = "found" /\ clr'[k2].pkt.id = c)
    BY <1>1 DEF RI2, Found
  <2>1. c # q /\ c \notin queries /\ chans[c] = <<>> /\ \A k2 \in Conns : ~(clr[k2].st = "found" /\ clr[k2].pkt.id = c)
    BY <1>7 DEF RegInv, RI2, Found
  <2> QED
    BY <2>1, <1>4, <1>5
<1>10. RI3'
  <2> SUFFICES ASSUME NEW c \in queries
               PROVE  chans'[c] = <<>> /\ \A k2 \in Conns : ~(clr'[k2].st = "found" /\ clr'[k2].pkt.id = c)
    BY <1>1 DEF RI3, Found
  <2>1. c \in Calls /\ c # q /\ chans[c] = <<>> /\ \A k2 \in Conns : ~(clr[k2].st = "found" /\ clr[k2].pkt.id = c)
    BY <1>2 DEF TypeInv, RegInv, RI3, Found
  <2> QED
    BY <2>1, <1>4, <1>5
<1>11. RI4'
  <2> SUFFICES ASSUME NEW k2 \in Conns, clr'[k2].st = "found"
               PROVE  clr'[k2].pkt.id \notin queries /\ chans'[clr'[k2].pkt.id] = <<>>
    BY <1>1 DEF RI4
  <2>1. k2 # k /\ clr'[k2] = clr[k2]
    BY <1>5
  <2>2. clr[k2].pkt.id \notin queries /\ chans[clr[k2].pkt.id] = <<>> /\ clr[k2].pkt.id # q
    BY <2>1, <1>6 DEF RegInv, RI4
  <2>3. clr[k2].pkt.id \in Calls
    BY <2>1 DEF DataInv, ClrOK
  <2> QED
    BY <2>1, <2>2, <2>3, <1>4
<1>12. RI5'
  BY <1>5 DEF RegInv, RI5
<1>13. RegisteredWhileWaiting'
  <2> SUFFICES ASSUME NEW c \in Calls, pc[c] \in {"reg", "picked", "wait"}
               PROVE  \/ c \in queries \/ chans'[c] # <<>>
                      \/ \E k2 \in Conns : clr'[k2].st = "found" /\ clr'[k2].pkt.id = c
    BY <1>1 DEF RegisteredWhileWaiting
  <2>1. CASE c = q
    BY <2>1, <1>4
  <2>2. CASE c # q
    <3>1. \/ c \in queries \/ chans[c] # <<>> \/ \E k2 \in Conns : clr[k2].st = "found" /\ clr[k2].pkt.id = c
      BY DEF RegInv, RegisteredWhileWaiting
    <3>2. \A k2 \in Conns : clr[k2].st = "found" /\ clr[k2].pkt.id = c => k2 # k
      BY <2>2 DEF q, p
    <3> QED
      BY <3>1, <3>2, <2>2, <1>4, <1>5
  <2> QED
    BY <2>1, <2>2
<1> QED
  BY <1>8, <1>9, <1>10, <1>11, <1>12, <1>13 DEF RegInv

LEMMA R_Next ==
  ASSUME TypeInv, DataInv, RegInv, [Next]_vars
  PROVE  RegInv'
<1>1. ASSUME NEW c \in Calls, CallerStep(c) PROVE RegInv'
  <2>1. CASE Register(c)
    BY <2>1, R_Register
  <2>2. CASE \E k \in Conns : PickConn(c, k)
    BY <2>2, R_PcOnly DEF PickConn
  <2>3. CASE SendNotConnected(c)
    BY <2>3, R_PcOnly DEF SendNotConnected
  <2>4. CASE SendOk(c)
    BY <2>4, R_PcOnly DEF SendOk
  <2>5. CASE SendFail(c)
    BY <2>5, R_PcOnly DEF SendFail
  <2>6. CASE CallerRecv(c)
    BY <2>6, R_CallerRecv
  <2>7. CASE CallerTimeout(c)
    BY <2>7, R_PcOnly DEF CallerTimeout
  <2>8. CASE Unregister(c)
    BY <2>8, R_Unregister
  <2> QED
    BY <1>1, <2>1, <2>2, <2>3, <2>4, <2>5, <2>6, <2>7, <2>8 DEF CallerStep
<1>2. ASSUME NEW k \in Conns, ConnStep(k) PROVE RegInv'
  <2>1. CASE ClientReaderLookup(k)
    BY <2>1, R_Lookup
  <2>2. CASE ClientReaderDeliver(k)
    BY <2>2, R_Deliver
  <2>3. CASE PingTick(k) \/ RcBegin(k) \/ DialOk(k) \/ DialFail(k) \/ SetupDone(k)
    BY <2>3, R_Unch DEF PingTick, RcBegin, DialOk, DialFail, SetupDone, callVars
  <2> QED
    BY <1>2, <2>1, <2>2, <2>3 DEF ConnStep
<1>3. ASSUME NEW k \in Conns, NEW g \in Gens(k), ServerStep(k, g) PROVE RegInv'
  BY <1>3, R_Unch DEF ServerStep, SrvRecv, SrvAnswer, SrvDup, SrvUnknown, SrvPong, SrvOther, SrvNoise, SrvDrop, callVars
<1>4. ASSUME NEW k \in Conns, NEW g \in Gens(k), ReaderStep(k, g) PROVE RegInv'
  <2>1. CASE HandOff(k, g)
    BY <2>1, R_HandOff
  <2>2. CASE ConnReaderRecv(k, g) \/ PktExit(k, g) \/ ConnReaderEOF(k, g) \/ ConnReaderSilence(k, g)
             \/ PktStuck(k, g) \/ ReaderRcBegin(k, g)
    BY <2>2, R_Unch DEF ConnReaderRecv, PktExit, ConnReaderEOF, ConnReaderSilence, PktStuck, ReaderRcBegin, callVars
  <2> QED
    BY <1>4, <2>1, <2>2 DEF ReaderStep
<1>5. CASE Done \/ UNCHANGED vars
  BY <1>5, R_Unch DEF Done, vars
<1> QED
  BY <1>1, <1>2, <1>3, <1>4, <1>5 DEF Next

(* =============================================================== the theorems *)
THEOREM InvInductive == Inv /\ [Next]_vars => Inv'
  BY TD_Next, R_Next DEF Inv

THEOREM InvInvariant == Spec => []Inv
<1>1. Init => Inv
  BY InitInv
<1>2. Inv /\ [Next]_vars => Inv'
  BY InvInductive
<1> QED
  BY <1>1, <1>2, PTL DEF Spec

\* what the inductive invariant gives: the four key safety properties of C12 and the capacity of a reply channel
THEOREM InvImplies ==
  Inv => /\ OwnAnswer /\ ChanOwn /\ ReaderNeverBlocks /\ RegisteredWhileWaiting
         /\ \A c \in Calls : Len(chans[c]) <= 1
  BY DEF Inv, DataInv, RegInv, RI1, RI4, ReaderNeverBlocks

THEOREM Safety == Spec => [](OwnAnswer /\ ChanOwn /\ ReaderNeverBlocks /\ RegisteredWhileWaiting)
  BY InvInvariant, InvImplies, PTL
========================================================================
=============================================================================
