---------------------------- MODULE Pool_IndProof ----------------------------
(* C13 wait list, TLAPS: the invariant IndInv of Pool_Inv.tla is inductive for   *)
(* the open environment GNext for an ARBITRARY number of connections (NC) and  *)
(* an ARBITRARY set of waiters - the parameters Apalache has to fix per run -  *)
(* and it implies the properties of C13 (NeverStuck, ByDeadline, OkJustified,  *)
(* ErrJustified and the lock-discipline facts of Goals).  Assumptions: ParamOK *)
(* (Pool_Inv.tla: the repaired protocol, None / RunP distinct non-waiters,     *)
(* UpdCap >= 1, MaxTime < Inf) and Rtt0 \in [Conns -> Nat].                    *)
(*                                                                             *)
(* Runs over the ORIGINAL spec/Pool.tla.  One lemma P_<Action> per action of   *)
(* GNext, in the six modules Pool_IndProof_{Conn,RunNtf,RunUpd,WSub,WWait,     *)
(* WUnsub} (tlapm checks each of them in a run of its own; this module uses    *)
(* their lemmas); each lemma proves the 4 + 16 named pieces of FT /\ IndInv    *)
(* separately.  FT is the typing that Apalache gets from its annotations       *)
(* (Pool_IndDefs.tla).  Inf (= 10^9) is kept opaque behind lemma InfNat and    *)
(* every step names the SMT back end: an obligation that expands Inf and falls *)
(* through to Zenon crashes tlapm (numeral printed in unary, stack overflow).  *)
EXTENDS Pool_IndProof_Conn, Pool_IndProof_RunNtf, Pool_IndProof_RunUpd, Pool_IndProof_WSub, Pool_IndProof_WWait, Pool_IndProof_WUnsub, Pool_OpenProof

(* ======================================================= base case, step, use *)

LEMMA InitPInv == ASSUME ParamOK, Rtt0 \in [Conns -> Nat] PROVE Init => PInv
<1> SUFFICES ASSUME Init PROVE PInv
  OBVIOUS
<1>0. <<>> \in Seq(Msg2) /\ <<>> \in Seq(Msg3) /\ <<0, 0, 0>> \in Msg3 /\ <<0, 0>> \in Msg2 /\ Len(<<>>) = 0 /\ DOMAIN <<>> = {}
  BY SMT DEF Msg2, Msg3
<1>1. FT
  BY <1>0, InfNat, SMT DEF Init, ParamOK, FT, FT_Conn, FT_Pool, FT_Wait, FT_Run, Procs, CPcs, WPcs, Results, Conns
<1>2. TypeInv
  BY <1>0, <1>1, InfNat, SMT DEF Init, ParamOK, TypeInv, TI_Conn, TI_Upd, TI_Pool, TI_Wait, TI_Chan, TI_Run, Procs, CPcs, RPcs, WPcs, Results, Conns, WCap, FT, FT_Conn, FT_Pool, FT_Wait, FT_Run
<1>3. LockInv
  BY <1>0, InfNat, SMT DEF Init, ParamOK, LockInv, LI_RW, LI_Run, LI_Wait, LI_Reg, LI_Clk, WIn, WPend, Conns
<1>4. DataInv
  BY <1>0, InfNat, SMT DEF Init, ParamOK, DataInv, DI_Upd, DI_Run, DI_Chan, DI_Wait, MsgOK, Conns
<1>5. TimeInv
  BY SMT DEF Init, TimeInv
<1> QED
  BY <1>1, <1>2, <1>3, <1>4, <1>5 DEF PInv, IndInv

LEMMA StutterPInv == ASSUME PInv, UNCHANGED vars PROVE PInv'
  BY SMT DEF vars, connVars, poolVars, waitVars, runVars, PInv, FT, FT_Conn, FT_Pool, FT_Wait, FT_Run, IndInv, TypeInv, LockInv, DataInv,
     TI_Conn, TI_Upd, TI_Pool, TI_Wait, TI_Chan, TI_Run, LI_RW, LI_Run, LI_Wait, LI_Reg, LI_Clk, DI_Upd, DI_Run, DI_Chan, DI_Wait, TimeInv, MsgOK

THEOREM StepPInv == ASSUME ParamOK PROVE PInv /\ [GNext]_vars => PInv'
<1> SUFFICES ASSUME PInv, [GNext]_vars PROVE PInv'
  OBVIOUS
<1>1. CASE UNCHANGED vars
  BY <1>1, StutterPInv
<1>2. CASE \E k \in Conns : SmhSet(k) \/ SmhSend(k)
  BY <1>2, P_SmhSet, P_SmhSend
<1>3. CASE RunRecv \/ RunRLock \/ RunRUnlock \/ RunUpdAcq \/ RunUpdBody
  BY <1>3, P_RunRecv, P_RunRLock, P_RunRUnlock, P_RunUpdAcq, P_RunUpdBody
<1>4. CASE \E w \in Waiters : \/ RunSend(w) \/ WSubAnn(w) \/ WSubAcq(w) \/ WSubRead(w) \/ WSubBody(w) \/ WRecv(w) \/ WTimeout(w)
                              \/ WCancelRet(w) \/ WUnsubAnn(w) \/ WUnsubAcq(w) \/ WUnsubBody(w)
  BY <1>4, P_RunSend, P_WSubAnn, P_WSubAcq, P_WSubRead, P_WSubBody, P_WRecv, P_WTimeout, P_WCancelRet, P_WUnsubAnn, P_WUnsubAcq, P_WUnsubBody
<1>5. CASE \E k \in Conns : (\E s \in Nat : SmhLock(k, s)) \/ Flip(k)
  BY <1>5, P_SmhLock, P_Flip
<1>6. CASE RunTick
  BY <1>6, P_RunTick
<1>7. CASE \E w \in Waiters : (\E s \in Nat : \E t \in Nat : WStart(w, s, t)) \/ Cancel(w)
  BY <1>7, P_WStart, P_Cancel
<1>8. CASE Tick
  BY <1>8, P_Tick
<1> QED
  BY <1>1, <1>2, <1>3, <1>4, <1>5, <1>6, <1>7, <1>8 DEF GNext, Internal, GEnv

(* --------------------------------------------------- what the invariant gives *)
LEMMA G_NeverStuck == ASSUME ParamOK, PInv PROVE NeverStuck
  BY InfNat, SMT DEF ParamOK, PInv, FT, FT_Conn, FT_Pool, FT_Wait, FT_Run, IndInv, TypeInv, LockInv, TI_Conn, TI_Upd, TI_Pool, TI_Wait, TI_Chan, TI_Run,
     LI_RW, LI_Run, LI_Wait, LI_Reg, LI_Clk, Procs, CPcs, RPcs, WPcs, WIn, WPend, Conns, WCap,
     NeverStuck, Wedged, MidCall, InternalEnabled, G_SmhSet, G_SmhSend, G_RunRecv, G_RunRLock, G_RunRUnlock, G_RunUpdAcq, G_RunUpdBody,
     G_RunSend, G_WSubAnn, G_WSubAcq, G_WSubRead, G_WSubBody, G_WRecv, G_WTimeout, G_WCancelRet, G_WUnsubAnn, G_WUnsubAcq, G_WUnsubBody,
     Free, CanAcquire

LEMMA G_ByDeadline == ASSUME ParamOK, PInv PROVE ByDeadline
  BY InfNat, SMT DEF ParamOK, PInv, FT, FT_Wait, IndInv, TypeInv, TI_Wait, TI_Run, TimeInv, ByDeadline, Late, WPcs

LEMMA G_Justified == ASSUME ParamOK, PInv PROVE OkJustified /\ ErrJustified
  BY InfNat, SMT DEF ParamOK, PInv, FT, FT_Wait, FT_Conn, IndInv, DataInv, DI_Wait, MsgOK, OkJustified, ErrJustified

LEMMA G_Discipline == ASSUME ParamOK, PInv
  PROVE NoSendUnderConnLock /\ NotifyNeverBlocks /\ NotifyUnderRLock /\ WriterExcludesRun /\ OneWriter /\ ChanCapacity
  BY InfNat, SMT DEF ParamOK, PInv, FT, FT_Conn, FT_Pool, FT_Wait, IndInv, TypeInv, LockInv, TI_Conn, TI_Upd, TI_Pool, TI_Wait, TI_Chan, TI_Run,
     LI_RW, LI_Run, LI_Wait, LI_Reg, LI_Clk, Procs, CPcs, RPcs, WPcs, WIn, WPend, Conns, WCap,
     NoSendUnderConnLock, NotifyNeverBlocks, NotifyUnderRLock, WriterExcludesRun, OneWriter, ChanCapacity, G_RunSend

THEOREM PInvGoals == ASSUME ParamOK PROVE PInv => Goals
  BY G_NeverStuck, G_ByDeadline, G_Justified, G_Discipline DEF Goals

THEOREM GSafety == ASSUME ParamOK, Rtt0 \in [Conns -> Nat] PROVE GSpec => []Goals
<1>1. Init => PInv
  BY InitPInv
<1>2. PInv /\ [GNext]_vars => PInv'
  BY StepPInv
<1>3. PInv => Goals
  BY PInvGoals
<1> QED
  BY <1>1, <1>2, <1>3, PTL DEF GSpec

\* ... and therefore of Pool's own specification, whatever finite menus its environment draws from
THEOREM Safety ==
  ASSUME ParamOK, Rtt0 \in [Conns -> Nat], Steps \subseteq Nat, Wants \subseteq Nat, Timeouts \subseteq Nat
  PROVE  Spec => []Goals
<1>1. MaxSeq \in Nat
  BY DEF ParamOK
<1>2. Spec => GSpec
  BY <1>1, SpecImpliesGSpec
<1> QED
  BY <1>2, GSafety, PTL

=============================================================================
