------------------------------ MODULE Pool_Ind ------------------------------
(* Apalache obligations for the inductive invariant IndInv of Pool_Inv under    *)
(* the open environment GNext of Pool_Open:                                    *)
(*                                                                             *)
(*   base   Init => IndInv                --cinit=C --init=Init    --inv=IndInv   --length=0 *)
(*   step   IndInv /\ N => IndInv'        --cinit=C --init=IndInit --next=N --inv=IndInv --length=1 *)
(*          for every group N of GNextSplit (N_Conn, N_RunNtf, N_RunUpd, N_WSub, N_WWait, N_WUnsub, N_Tick) *)
(*   use    IndInv => Goals               --cinit=C --init=IndInit --inv=Goals    --length=0 *)
(*   acts   IndInv /\ GNext => ActGoals   --cinit=C --init=IndInit --next=GNext --inv=ActGoals --length=1 *)
(*                                                                             *)
(* Heads, seqnos asked for, timeouts, the clock bound, the number of liveness  *)
(* flips, round-trip times are arbitrary natural numbers (SMT integers); the   *)
(* channel capacities are the real ones (UpdCap = 10, WCap = 1).  The number   *)
(* of connections and the set of waiters are fixed per run by CInit_<n>x<m>    *)
(* (Apalache unrolls the quantifiers over them).                               *)
EXTENDS Pool_Inv, Apalache

\* the constants GNext never reads (Steps, Wants, Timeouts) get arbitrary fixed values
CInitCommon ==
  /\ None = "none" /\ RunP = "run"
  /\ MaxSeq \in Nat /\ Steps = {0, 1} /\ Wants = {0} /\ Timeouts = {0}
  /\ MaxTime \in Nat /\ MaxFlips \in Nat /\ MaxTime < Inf
  /\ Strategy \in Strategies
  /\ FixNotify = TRUE /\ FixTimer = TRUE /\ FixSetHead = TRUE

CInit_2x2 == /\ NC = 2 /\ Waiters = {"w1", "w2"} /\ UpdCap = 10
             /\ Rtt0 \in [1..2 -> Nat] /\ CInitCommon
CInit_3x3 == /\ NC = 3 /\ Waiters = {"w1", "w2", "w3"} /\ UpdCap = 10
             /\ Rtt0 \in [1..3 -> Nat] /\ CInitCommon
CInit_3x4 == /\ NC = 3 /\ Waiters = {"w1", "w2", "w3", "w4"} /\ UpdCap = 10
             /\ Rtt0 \in [1..3 -> Nat] /\ CInitCommon
CInit_4x6 == /\ NC = 4 /\ Waiters = {"w1", "w2", "w3", "w4", "w5", "w6"} /\ UpdCap = 10
             /\ Rtt0 \in [1..4 -> Nat] /\ CInitCommon
CInit_6x6 == /\ NC = 6 /\ Waiters = {"w1", "w2", "w3", "w4", "w5", "w6"} /\ UpdCap = 10
             /\ Rtt0 \in [1..6 -> Nat] /\ CInitCommon
CInit_8x8 == /\ NC = 8 /\ Waiters = {"w1", "w2", "w3", "w4", "w5", "w6", "w7", "w8"} /\ UpdCap = 10
             /\ Rtt0 \in [1..8 -> Nat] /\ CInitCommon

\* Apalache: every variable is assigned (Gen(n): an arbitrary value whose collections have at most n elements), then constrained
IndGen ==
  /\ head \in [Conns -> Nat] /\ alive \in [Conns -> BOOLEAN] /\ rtt \in [Conns -> Nat]
  /\ clk \in [Conns -> BOOLEAN]
  /\ updCh = Gen(10)
  /\ cpc \in [Conns -> CPcs] /\ cnew \in [Conns -> Nat]
  /\ \E a \in Procs, b \in Procs : \E c \in SUBSET Procs : rw = [w |-> a, pend |-> b, r |-> c]
  /\ best \in Conns
  /\ reg \in [Waiters -> BOOLEAN]
  /\ LET \* @type: Str -> <<Int, Int, Int>>;
         m == Gen(8)
     IN \E full \in SUBSET Waiters :                  \* a waiter channel holds at most WCap = 1 head
          ch = [w \in Waiters |-> IF w \in full THEN <<m[w]>> ELSE <<>>]
  /\ wpc \in [Waiters -> WPcs]
  /\ want \in [Waiters -> Nat] /\ tmo \in [Waiters -> Nat] /\ hread \in [Waiters -> Nat]
  /\ timer \in [Waiters -> Nat] /\ orig \in [Waiters -> Nat]
  /\ cancelled \in [Waiters -> BOOLEAN] /\ result \in [Waiters -> Results]
  /\ okby = Gen(8)
  /\ rett \in [Waiters -> Nat]
  /\ rpc \in RPcs /\ rupd = Gen(1) /\ rtodo \in SUBSET Waiters
  /\ now \in Nat /\ flips \in Nat
IndInitBody == IndGen /\ IndInv
IndInit == IndInitBody /\ ParamOK

(* -------------------------------------------------------------------- canaries *)
\* obligations that MUST FAIL (bin/prove expects a counterexample): they show that the runs above are not vacuous
\* (a) IndInit is satisfiable, in particular by the shape of state in which the protocol as it was deadlocked:
\*     the run loop inside its notify loop under the read lock, a leaving waiter parked on the write lock
CanarySat == ~(rpc = "send" /\ \E w \in Waiters : wpc[w] = "unsub_acq" /\ rw.pend = w)
\* (b) the same invariant with notifySubscribers as it was (blocking send on a full 1-slot channel): NeverStuck fails
CInitAsIs_2x2 == /\ NC = 2 /\ Waiters = {"w1", "w2"} /\ UpdCap = 10 /\ Rtt0 \in [1..2 -> Nat]
                 /\ None = "none" /\ RunP = "run"
                 /\ MaxSeq \in Nat /\ Steps = {0, 1} /\ Wants = {0} /\ Timeouts = {0}
                 /\ MaxTime \in Nat /\ MaxFlips \in Nat /\ MaxTime < Inf
                 /\ Strategy \in Strategies
                 /\ FixNotify = FALSE /\ FixTimer = TRUE /\ FixSetHead = TRUE
IndInitAsIs == IndInitBody /\ ~FixNotify
\* (c) the properties alone (with the type part) are not inductive: the strengthening LockInv / DataInv / TimeInv is needed
IndInitGoalsOnly == IndGen /\ ParamOK /\ TypeInv /\ Goals
=============================================================================
