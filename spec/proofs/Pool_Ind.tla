------------------------------ MODULE Pool_Ind ------------------------------
(* C13, unbounded assurance for the wait-list protocol of liteapi/pool:        *)
(* an INDUCTIVE invariant of the repaired protocol (FixNotify = FixTimer =     *)
(* FixSetHead = TRUE, the code as it is in /repo) under the open environment   *)
(* GNext of Pool_Open, discharged by Apalache:                                 *)
(*                                                                             *)
(*   base   Init => IndInv                 --init=Init    --inv=IndInv --length=0 *)
(*   step   IndInv /\ GNext => IndInv'     --init=IndInit --inv=IndInv --length=1 *)
(*   use    IndInv => NeverStuck /\ ...    --init=IndInit --inv=Goals  --length=0 *)
(*   acts   IndInv /\ GNext => ActGoals    --init=IndInit --inv=ActGoals --length=1 *)
(*                                                                             *)
(* Heads, seqnos asked for, timeouts, the clock, the number of liveness flips  *)
(* are arbitrary natural numbers (SMT integers, no bound); the channel         *)
(* capacities are the real ones (UpdCap = 10, WCap = 1).  The number of        *)
(* connections and the set of waiters are fixed per run by the operators       *)
(* CInit_* below (Apalache unrolls quantifiers over them).                     *)
EXTENDS Pool_Open, Apalache

CPcs   == {"idle", "locked", "send"}
RPcs   == {"idle", "rlock", "send", "exit", "upd_acq", "upd_in"}
WPcs   == {"idle", "sub", "sub_acq", "sub_in", "sub_rd", "waiting", "unsub", "unsub_acq", "unsub_in", "done"}
WIn    == {"sub_in", "sub_rd", "unsub_in"}              \* inside a critical section of the write lock
WPend  == WIn \cup {"sub_acq", "unsub_acq"}              \* has announced itself as the pending writer
Results == {"none", "ok", "timeout", "cancel"}
Procs  == Waiters \cup {None, RunP}

(* ---------------------------------------------------------------- parameters *)
\* what the proofs assume about the constants (the sizes are fixed by CInit_*)
ParamOK ==
  /\ NC \in Nat /\ NC >= 1
  /\ None \notin Waiters /\ RunP \notin Waiters /\ None # RunP
  /\ UpdCap \in Nat /\ UpdCap >= 1
  /\ MaxTime \in Nat /\ MaxFlips \in Nat /\ MaxSeq \in Nat
  /\ MaxTime < Inf                 \* the clock stays below the value that stands for "no timer" (10^9 ticks)
  /\ Strategy \in Strategies
  /\ FixNotify /\ FixTimer /\ FixSetHead

\* the constants GNext never reads (Steps, Wants, Timeouts) get arbitrary fixed values
CInitCommon ==
  /\ None = "none" /\ RunP = "run"
  /\ MaxSeq \in Nat /\ Steps = {0, 1} /\ Wants = {0} /\ Timeouts = {0}
  /\ MaxTime \in Nat /\ MaxFlips \in Nat /\ MaxTime < Inf
  /\ Strategy \in Strategies
  /\ FixNotify = TRUE /\ FixTimer = TRUE /\ FixSetHead = TRUE

CInit_2x2 == /\ NC = 2 /\ Waiters = {"w1", "w2"} /\ UpdCap = 10
             /\ Rtt0 \in [1..2 -> Nat] /\ CInitCommon
CInit_3x4 == /\ NC = 3 /\ Waiters = {"w1", "w2", "w3", "w4"} /\ UpdCap = 10
             /\ Rtt0 \in [1..3 -> Nat] /\ CInitCommon
CInit_4x6 == /\ NC = 4 /\ Waiters = {"w1", "w2", "w3", "w4", "w5", "w6"} /\ UpdCap = 10
             /\ Rtt0 \in [1..4 -> Nat] /\ CInitCommon

(* --------------------------------------------------------------------- types *)
\* the type part: every variable is constrained
TypeInv ==
  /\ head \in [Conns -> Nat] /\ alive \in [Conns -> BOOLEAN] /\ rtt \in [Conns -> Nat]
  /\ clk \in [Conns -> BOOLEAN]
  /\ Len(updCh) <= UpdCap
  /\ \A i \in DOMAIN updCh : updCh[i][1] \in Conns /\ updCh[i][2] \in Nat
  /\ cpc \in [Conns -> CPcs] /\ cnew \in [Conns -> Nat]
  /\ rw \in [w : Procs, pend : Procs, r : SUBSET Procs]
  /\ best \in Conns
  /\ reg \in [Waiters -> BOOLEAN]
  /\ DOMAIN ch = Waiters
  /\ \A w \in Waiters : /\ Len(ch[w]) <= WCap
                        /\ \A i \in DOMAIN ch[w] : ch[w][i][1] \in Nat /\ ch[w][i][2] \in Conns /\ ch[w][i][3] \in Conns
  /\ wpc \in [Waiters -> WPcs]
  /\ want \in [Waiters -> Nat] /\ tmo \in [Waiters -> Nat] /\ hread \in [Waiters -> Nat]
  /\ timer \in [Waiters -> Nat] /\ orig \in [Waiters -> Nat]
  /\ cancelled \in [Waiters -> BOOLEAN] /\ result \in [Waiters -> Results]
  /\ DOMAIN okby = Waiters
  /\ \A w \in Waiters : okby[w][1] \in Nat /\ okby[w][2] \in Nat /\ okby[w][3] \in Nat
  /\ rett \in [Waiters -> Nat]
  /\ rpc \in RPcs /\ rupd[1] \in Nat /\ rupd[2] \in Nat /\ rtodo \subseteq Waiters
  /\ now \in Nat /\ flips \in Nat /\ now <= MaxTime

(* ----------------------------------------------------------- lock discipline *)
LockInv ==
  \* the RWMutex itself: a writer excludes readers; the only reader there ever is, is the run loop
  /\ rw.w # None => rw.pend = rw.w /\ rw.r = {}
  /\ rw.r \subseteq {RunP}
  \* who holds what is a function of the program counters
  /\ RunP \in rw.r <=> rpc \in {"send", "exit"}
  /\ rw.pend = RunP <=> rpc \in {"upd_acq", "upd_in"}
  /\ rw.w = RunP <=> rpc = "upd_in"
  /\ \A w \in Waiters : /\ rw.pend = w <=> wpc[w] \in WPend
                        /\ rw.w = w <=> wpc[w] \in WIn
  \* notifySubscribers is in its loop only while somebody is left to notify
  /\ rpc = "send" => rtodo # {}
  \* the wait list: an entry exists only while its owner is between subscribe and unsubscribe; the run loop's
  \* work list is a snapshot of the wait list that stays valid as long as the read lock is held; a channel is
  \* empty until its owner's subscribe has finished
  /\ \A w \in Waiters : reg[w] => wpc[w] \in {"waiting", "unsub", "unsub_acq", "unsub_in"}
  /\ rpc = "send" => \A w \in rtodo : reg[w]
  /\ \A w \in Waiters : wpc[w] \in {"idle", "sub", "sub_acq", "sub_in", "sub_rd"} => ch[w] = <<>>
  \* connection lock: held exactly between Lock and the end of the update (repaired SetMasterHead)
  /\ \A k \in Conns : clk[k] <=> cpc[k] = "locked"

(* --------------------------------------------------- justification of results *)
\* a head value that is around was reported by the connection it is attributed to
\* @type: (<<Int, Int, Int>>) => Bool;
MsgOK(m) == m[2] \in Conns /\ head[m[2]] >= m[1] /\ m[2] = m[3]
DataInv ==
  /\ \A i \in DOMAIN updCh : head[updCh[i][1]] >= updCh[i][2]
  /\ \A k \in Conns : cpc[k] = "send" => head[k] >= cnew[k]
  /\ rpc # "idle" /\ rpc # "upd_acq" /\ rpc # "upd_in" => rupd[1] \in Conns /\ head[rupd[1]] >= rupd[2]
  /\ rpc = "send" => rupd[1] = best
  /\ \A w \in Waiters :
       /\ \A i \in DOMAIN ch[w] : MsgOK(ch[w][i])
       /\ wpc[w] = "sub_rd" => head[best] >= hread[w]
       /\ result[w] = "ok" => okby[w][1] >= want[w] /\ MsgOK(okby[w])
       /\ result[w] = "timeout" => orig[w] # Inf /\ rett[w] >= orig[w]
       /\ result[w] = "cancel" => cancelled[w]
       /\ wpc[w] \in {"idle", "sub", "sub_acq", "sub_in", "sub_rd", "waiting"} => result[w] = "none"

(* ------------------------------------------------------------------ deadlines *)
\* the timer is created once per call; while the call is past its select the clock has not passed the deadline
TimeInv ==
  \A w \in Waiters :
    /\ wpc[w] \in {"waiting", "unsub", "unsub_acq", "unsub_in"} => timer[w] = orig[w]
    /\ wpc[w] \in {"waiting", "unsub", "unsub_acq", "unsub_in"} /\ orig[w] # Inf => now <= orig[w]

IndInv == TypeInv /\ LockInv /\ DataInv /\ TimeInv

\* Apalache: every variable is assigned (Gen(n): an arbitrary value whose collections have at most n elements), then constrained
IndInit ==
  /\ head \in [Conns -> Nat] /\ alive \in [Conns -> BOOLEAN] /\ rtt \in [Conns -> Nat]
  /\ clk \in [Conns -> BOOLEAN]
  /\ updCh = Gen(10)
  /\ cpc \in [Conns -> CPcs] /\ cnew \in [Conns -> Nat]
  /\ rw \in [w : Procs, pend : Procs, r : SUBSET Procs]
  /\ best \in Conns
  /\ reg \in [Waiters -> BOOLEAN]
  /\ ch = Gen(6)
  /\ wpc \in [Waiters -> WPcs]
  /\ want \in [Waiters -> Nat] /\ tmo \in [Waiters -> Nat] /\ hread \in [Waiters -> Nat]
  /\ timer \in [Waiters -> Nat] /\ orig \in [Waiters -> Nat]
  /\ cancelled \in [Waiters -> BOOLEAN] /\ result \in [Waiters -> Results]
  /\ okby = Gen(6)
  /\ rett \in [Waiters -> Nat]
  /\ rpc \in RPcs /\ rupd = Gen(1) /\ rtodo \in SUBSET Waiters
  /\ now \in Nat /\ flips \in Nat
  /\ ParamOK
  /\ IndInv

(* ---------------------------------------------------------------------- goals *)
\* state predicates implied by IndInv alone
NoSendUnderConnLock == \A k \in Conns : cpc[k] = "send" => ~clk[k]        \* SetMasterHead publishes after unlocking
NotifyNeverBlocks   == rpc = "send" => \E w \in rtodo : G_RunSend(w)       \* holding the read lock, the next send is enabled
NotifyUnderRLock    == rpc = "send" => RunP \in rw.r /\ rw.w = None
WriterExcludesRun   == \A w \in Waiters : wpc[w] \in WIn => rpc \notin {"send", "exit", "upd_in"}
OneWriter           == \A v, w \in Waiters : wpc[v] \in WIn /\ wpc[w] \in WIn => v = w
ChanCapacity        == Len(updCh) <= UpdCap /\ \A w \in Waiters : Len(ch[w]) <= WCap
Goals == /\ NeverStuck /\ ByDeadline /\ OkJustified /\ ErrJustified
         /\ NoSendUnderConnLock /\ NotifyNeverBlocks /\ NotifyUnderRLock /\ WriterExcludesRun /\ OneWriter /\ ChanCapacity

\* action predicates: who may touch a waiter channel / the wait list, and holding what
ChanWriteDiscipline ==
  \A w \in Waiters : ch'[w] # ch[w] =>
     \/ /\ rpc = "send" /\ w \in rtodo /\ RunP \in rw.r /\ rw.w = None       \* the run loop, under the read lock,
        /\ reg[w] /\ Len(ch'[w]) = 1                                        \*   to a channel that is in the wait list
     \/ /\ wpc[w] = "sub_rd" /\ rw.w = w /\ ~reg[w]                          \* the owner's subscribe, under the write lock,
        /\ Len(ch'[w]) = 1                                                   \*   before the channel is in the wait list
     \/ /\ wpc[w] = "waiting" /\ ch[w] # <<>> /\ ch'[w] = Tail(ch[w])        \* the owner receives
WaitListDiscipline ==
  \A w \in Waiters : reg'[w] # reg[w] => rw.w = w /\ rw.r = {} /\ rpc \notin {"send", "exit"}
ConnLockDiscipline ==
  \A k \in Conns : Len(updCh') > Len(updCh) /\ cpc[k] = "send" /\ cpc'[k] = "idle" => ~clk[k]
ActGoals == ChanWriteDiscipline /\ WaitListDiscipline /\ ConnLockDiscipline
=============================================================================
