------------------------------ MODULE Pool_Ind ------------------------------
(* Apalache obligations for the inductive invariant IndInv of Pool_Inv under    *)
(* the open environment GNext of Pool_Open:                                    *)
(*                                                                             *)
(*   base   Init => IndInv                --cinit=C --init=Init    --inv=IndInv   --length=0 *)
(*   step   IndInv /\ N => IndInv'        --cinit=C --init=IndInit --next=N --inv=IndInv --length=1 *)
(*          for every group N of GNextSplit (N_Conn, N_RunNtf, N_RunUpd, N_WSub, N_WWait, N_WUnsub, N_Tick) *)
(*   use    IndInv => Goals               --cinit=C --init=IndInit --inv=Goals    --length=0 *)
(*   acts   IndInv /\ GNext => ActGoals   --cinit=C --init=IndInit --next=GNext --inv=ActGoals --length=1 *)
(*                                                                             *)
(* Heads, seqnos asked for, timeouts, the clock bound, the number of liveness  *)
(* flips, round-trip times are arbitrary natural numbers (SMT integers); the   *)
(* channel capacities are the real ones (UpdCap = 10, WCap = 1).  The number   *)
(* of connections and the set of waiters are fixed per run by CInit_<n>x<m>    *)
(* (Apalache unrolls the quantifiers over them).                               *)
EXTENDS Pool_Inv, Apalache

\* the constants GNext never reads (Steps, Wants, Timeouts) get arbitrary fixed values
CInitCommon ==
  /\ None = "none" /\ RunP = "run"
  /\ MaxSeq \in Nat /\ Steps = {0, 1} /\ Wants = {0} /\ Timeouts = {0}
  /\ MaxTime \in Nat /\ MaxFlips \in Nat /\ MaxTime < Inf
  /\ Strategy \in Strategies
  /\ FixNotify = TRUE /\ FixTimer = TRUE /\ FixSetHead = TRUE

CInit_2x2 == /\ NC = 2 /\ Waiters = {"w1", "w2"} /\ UpdCap = 10
             /\ Rtt0 \in [1..2 -> Nat] /\ CInitCommon
CInit_3x4 == /\ NC = 3 /\ Waiters = {"w1", "w2", "w3", "w4"} /\ UpdCap = 10
             /\ Rtt0 \in [1..3 -> Nat] /\ CInitCommon
CInit_4x6 == /\ NC = 4 /\ Waiters = {"w1", "w2", "w3", "w4", "w5", "w6"} /\ UpdCap = 10
             /\ Rtt0 \in [1..4 -> Nat] /\ CInitCommon

\* Apalache: every variable is assigned (Gen(n): an arbitrary value whose collections have at most n elements), then constrained
IndInit ==
  /\ head \in [Conns -> Nat] /\ alive \in [Conns -> BOOLEAN] /\ rtt \in [Conns -> Nat]
  /\ clk \in [Conns -> BOOLEAN]
  /\ updCh = Gen(10)
  /\ cpc \in [Conns -> CPcs] /\ cnew \in [Conns -> Nat]
  /\ \E a \in Procs, b \in Procs : \E c \in SUBSET Procs : rw = [w |-> a, pend |-> b, r |-> c]
  /\ best \in Conns
  /\ reg \in [Waiters -> BOOLEAN]
  /\ LET \* @type: Str -> <<Int, Int, Int>>;
         m == Gen(6)
     IN \E full \in SUBSET Waiters :                  \* a waiter channel holds at most WCap = 1 head
          ch = [w \in Waiters |-> IF w \in full THEN <<m[w]>> ELSE <<>>]
  /\ wpc \in [Waiters -> WPcs]
  /\ want \in [Waiters -> Nat] /\ tmo \in [Waiters -> Nat] /\ hread \in [Waiters -> Nat]
  /\ timer \in [Waiters -> Nat] /\ orig \in [Waiters -> Nat]
  /\ cancelled \in [Waiters -> BOOLEAN] /\ result \in [Waiters -> Results]
  /\ okby = Gen(6)
  /\ rett \in [Waiters -> Nat]
  /\ rpc \in RPcs /\ rupd = Gen(1) /\ rtodo \in SUBSET Waiters
  /\ now \in Nat /\ flips \in Nat
  /\ ParamOK
  /\ IndInv

\* the inductive step as ONE action invariant (no re-check of IndInv in the state that IndInit already constrains)
IndInvNext == IndInv'
=============================================================================
