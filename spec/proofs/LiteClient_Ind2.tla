-------------------------- MODULE LiteClient_Ind2 --------------------------
(* Part 2 of the proof of LiteClient_Ind.tla: the packet goroutine, the         *)
(* connection reader, the client reader, ping and reconnect preserve           *)
(* TypeInv /\ DataInv.                                                         *)
EXTENDS LiteClient_Ind1

(* ============================================ generation g of connection k: P and R *)
LEMMA TailOK ==
  ASSUME NEW l \in LinkRec, NEW prod, RecOK(l, prod), l.in # <<>>
  PROVE  /\ Head(l.in) \in Pkts /\ PktOKp(Head(l.in), prod)
         /\ Tail(l.in) \in Seq(Pkts)
         /\ \A j \in 1..Len(Tail(l.in)) : PktOKp(Tail(l.in)[j], prod)
<1>1. l.in \in Seq(Pkts)
  BY DEF LinkRec
<1>2. /\ Head(l.in) \in Pkts /\ Tail(l.in) \in Seq(Pkts)
      /\ Len(Tail(l.in)) = Len(l.in) - 1
      /\ \A i \in 1 .. Len(Tail(l.in)) : Tail(l.in)[i] = l.in[i+1]
      /\ Head(l.in) = l.in[1] /\ Len(l.in) \in Nat \ {0}
  BY <1>1, HeadTailProperties, EmptySeq
<1>3. PktOKp(Head(l.in), prod)
  BY <1>2 DEF RecOK
<1>4. \A j \in 1..Len(Tail(l.in)) : PktOKp(Tail(l.in)[j], prod)
  <2> TAKE j \in 1..Len(Tail(l.in))
  <2>1. Tail(l.in)[j] = l.in[j+1] /\ j+1 \in 1..Len(l.in)
    BY <1>2
  <2> QED
    BY <2>1 DEF RecOK
<1> QED
  BY <1>2, <1>3, <1>4

\* a step that only replaces record (k, g)
LEMMA S_SetLOnly ==
  ASSUME TypeInv, DataInv, NEW k \in Conns, NEW g \in Gens(k), NEW rec \in LinkRec, RecOK(rec, produced),
         SetL(k, g, rec), UNCHANGED <<pc, conn, ret, queries, chans, status, gen, clr, produced>>
  PROVE  TypeInv' /\ DataInv'
<1>1. pc' \in [Calls -> PcSet] /\ \A d \in Calls : pc'[d] = "picked" => pc[d] = "picked"
  BY DEF TypeInv
<1> QED
  BY <1>1, SetLStep

LEMMA S_ConnReaderRecv ==
  ASSUME TypeInv, DataInv, NEW k \in Conns, NEW g \in Gens(k), ConnReaderRecv(k, g)
  PROVE  TypeInv' /\ DataInv'
<1> DEFINE l == L(k, g)
           p == Head(l.in)
           rec == IF p.t = "pong" THEN [l EXCEPT !.in = Tail(@)]
                  ELSE [l EXCEPT !.in = Tail(@), !.r = "offer", !.rh = p]
<1>1. l \in LinkRec /\ RecOK(l, produced) /\ l.in # <<>>
  BY RecOfLink, LinkRecOK DEF ConnReaderRecv
<1>2. /\ p \in Pkts /\ PktOKp(p, produced) /\ Tail(l.in) \in Seq(Pkts)
      /\ \A j \in 1..Len(Tail(l.in)) : PktOKp(Tail(l.in)[j], produced)
  BY <1>1, TailOK
<1>3. rec \in LinkRec /\ rec.in = Tail(l.in) /\ (rec.rh = l.rh \/ rec.rh = p)
  BY <1>1, <1>2 DEF LinkRec, RSts
<1>4. RecOK(rec, produced)
  BY <1>1, <1>2, <1>3 DEF RecOK
<1>5. SetL(k, g, rec) /\ UNCHANGED <<pc, conn, ret, queries, chans, status, gen, clr, produced>>
  BY DEF ConnReaderRecv, callVars
<1> HIDE DEF l, p, rec
<1> QED
  BY <1>3, <1>4, <1>5, S_SetLOnly

LEMMA S_PktStuck ==
  ASSUME TypeInv, DataInv, NEW k \in Conns, NEW g \in Gens(k), PktStuck(k, g)
  PROVE  TypeInv' /\ DataInv'
<1> DEFINE l == L(k, g)
           rec == [l EXCEPT !.p = "stuck", !.in = Tail(@)]
<1>1. l \in LinkRec /\ RecOK(l, produced) /\ l.in # <<>>
  BY RecOfLink, LinkRecOK DEF PktStuck
<1>2. /\ Tail(l.in) \in Seq(Pkts)
      /\ \A j \in 1..Len(Tail(l.in)) : PktOKp(Tail(l.in)[j], produced)
  BY <1>1, TailOK
<1>3. rec \in LinkRec /\ rec.in = Tail(l.in) /\ rec.rh = l.rh
  BY <1>1, <1>2 DEF LinkRec, PSts
<1>4. RecOK(rec, produced)
  BY <1>1, <1>2, <1>3 DEF RecOK
<1>5. SetL(k, g, rec) /\ UNCHANGED <<pc, conn, ret, queries, chans, status, gen, clr, produced>>
  BY DEF PktStuck, callVars
<1> HIDE DEF l, rec
<1> QED
  BY <1>3, <1>4, <1>5, S_SetLOnly

\* PktExit, ConnReaderEOF, ConnReaderSilence: one status field of the record changes
LEMMA S_FieldOnly ==
  ASSUME TypeInv, DataInv, NEW k \in Conns, NEW g \in Gens(k),
         \/ PktExit(k, g) \/ ConnReaderEOF(k, g) \/ ConnReaderSilence(k, g)
  PROVE  TypeInv' /\ DataInv'
<1> DEFINE l == L(k, g)
<1>1. l \in LinkRec /\ RecOK(l, produced)
  BY RecOfLink, LinkRecOK
<1>2. PICK rec \in LinkRec : /\ rec.in = l.in /\ rec.rh = l.rh /\ SetL(k, g, rec)
                             /\ UNCHANGED <<pc, conn, ret, queries, chans, status, gen, clr, produced>>
  <2>1. CASE PktExit(k, g)
    <3>1. [l EXCEPT !.p = "dead"] \in LinkRec
      BY <1>1 DEF LinkRec, PSts
    <3> QED
      BY <2>1, <3>1, <1>1 DEF PktExit, callVars, LinkRec
  <2>2. CASE ConnReaderEOF(k, g)
    <3>1. [l EXCEPT !.r = "dead"] \in LinkRec
      BY <1>1 DEF LinkRec, RSts
    <3> QED
      BY <2>2, <3>1, <1>1 DEF ConnReaderEOF, callVars, LinkRec
  <2>3. CASE ConnReaderSilence(k, g)
    <3>1. [l EXCEPT !.r = "rc"] \in LinkRec
      BY <1>1 DEF LinkRec, RSts
    <3> QED
      BY <2>3, <3>1, <1>1 DEF ConnReaderSilence, callVars, LinkRec
  <2> QED
    BY <2>1, <2>2, <2>3
<1>3. RecOK(rec, produced)
  BY <1>1, <1>2, SamePktsOK
<1> HIDE DEF l
<1> QED
  BY <1>2, <1>3, S_SetLOnly

LEMMA S_HandOff ==
  ASSUME TypeInv, DataInv, NEW k \in Conns, NEW g \in Gens(k), HandOff(k, g)
  PROVE  TypeInv' /\ DataInv'
<1> DEFINE l == L(k, g)
           rec == [l EXCEPT !.r = "run", !.rh = NoPkt]
<1>1. l \in LinkRec /\ RecOK(l, produced) /\ l.rh \in Pkts
  BY RecOfLink, LinkRecOK
<1>2. rec \in LinkRec /\ rec.in = l.in /\ rec.rh = NoPkt
  BY <1>1, NoPktType DEF LinkRec, RSts
<1>3. RecOK(rec, produced)
  BY <1>1, <1>2, NoPktType DEF RecOK, PktOKp
<1>4. /\ SetL(k, g, rec) /\ clr' = [clr EXCEPT ![k] = [st |-> "got", pkt |-> l.rh]]
      /\ UNCHANGED <<pc, conn, ret, queries, chans, status, gen, produced>>
  BY DEF HandOff, callVars
<1>5. PktOKp(l.rh, produced)
  BY <1>1 DEF RecOK
<1> HIDE DEF l, rec
<1>6. /\ link' \in [Conns -> Seq(LinkRec)]
      /\ \A k2 \in Conns : Len(link'[k2]) = Len(link[k2])
  BY <1>2, <1>4, SetLFacts
<1>7. clr' \in [Conns -> ClrRec]
  BY <1>1, <1>4 DEF TypeInv, ClrRec
<1>8. TypeInv'
  BY <1>4, <1>6, <1>7 DEF TypeInv
<1>9. LinkOK(link', produced')
  <2>1. Mono(produced, produced') /\ RecOK(rec, produced')
    BY <1>3, <1>4 DEF Mono
  <2> QED
    BY <2>1, <1>2, <1>4, SetLData DEF DataInv
<1>10. ClrOK(clr', produced')
  BY <1>4, <1>5 DEF TypeInv, DataInv, ClrOK
<1>11. ChanOwn' /\ OwnAnswer'
  BY <1>4 DEF DataInv, ChanOwn, OwnAnswer
<1> QED
  BY <1>8, <1>9, <1>10, <1>11 DEF DataInv

(* ============================================== Client.reader of connection k *)
LEMMA S_Lookup ==
  ASSUME TypeInv, DataInv, NEW k \in Conns, ClientReaderLookup(k)
  PROVE  TypeInv' /\ DataInv'
<1>1. clr[k] \in ClrRec /\ clr[k].pkt \in Pkts
  BY DEF TypeInv, ClrRec
<1>2. clr' \in [Conns -> ClrRec]
  BY <1>1, NoPktType DEF TypeInv, ClientReaderLookup, ClrRec
<1>3. queries' \subseteq Calls
  BY DEF TypeInv, ClientReaderLookup
<1>4. TypeInv'
  BY <1>2, <1>3 DEF TypeInv, ClientReaderLookup
<1>5. ClrOK(clr', produced')
  <2> SUFFICES ASSUME NEW k2 \in Conns
               PROVE  /\ PktOKp(clr'[k2].pkt, produced')
                      /\ clr'[k2].st = "found" => clr'[k2].pkt.t = "ans" /\ clr'[k2].pkt.id \in Calls
    BY DEF ClrOK
  <2>1. CASE k2 # k
    BY <2>1 DEF TypeInv, DataInv, ClrOK, ClientReaderLookup
  <2>2. CASE k2 = k
    <3>1. CASE clr[k].pkt.t = "ans" /\ clr[k].pkt.id \in queries
      <4>1. clr'[k].pkt = clr[k].pkt /\ clr'[k].st = "found" /\ produced' = produced
        BY <3>1, <1>1 DEF TypeInv, ClientReaderLookup, ClrRec
      <4> QED
        BY <4>1, <3>1, <2>2 DEF TypeInv, DataInv, ClrOK
    <3>2. CASE ~(clr[k].pkt.t = "ans" /\ clr[k].pkt.id \in queries)
      <4>1. clr'[k] = [st |-> "idle", pkt |-> NoPkt] /\ produced' = produced
        BY <3>2 DEF TypeInv, ClientReaderLookup
      <4> QED
        BY <4>1, <2>2, NoPktType DEF PktOKp
    <3> QED
      BY <3>1, <3>2
  <2> QED
    BY <2>1, <2>2
<1>6. LinkOK(link', produced') /\ ChanOwn' /\ OwnAnswer'
  BY DEF DataInv, ClientReaderLookup, LinkOK, ChanOwn, OwnAnswer
<1> QED
  BY <1>4, <1>5, <1>6 DEF DataInv

LEMMA S_Deliver ==
  ASSUME TypeInv, DataInv, NEW k \in Conns, ClientReaderDeliver(k)
  PROVE  TypeInv' /\ DataInv'
<1> DEFINE p == clr[k].pkt
<1>1. p \in Pkts /\ p.t = "ans" /\ p.id \in Calls /\ p.v \in produced[p.id] /\ p.v \in Vals
  BY DEF TypeInv, DataInv, ClrOK, PktOKp, ClientReaderDeliver, ClrRec, Pkts, Vals
<1>2. chans[p.id] \in Seq(Vals)
  BY <1>1 DEF TypeInv
<1>3. /\ Append(chans[p.id], p.v) \in Seq(Vals)
      /\ Len(Append(chans[p.id], p.v)) = Len(chans[p.id]) + 1
      /\ \A i \in 1 .. Len(chans[p.id]) : Append(chans[p.id], p.v)[i] = chans[p.id][i]
      /\ Append(chans[p.id], p.v)[Len(chans[p.id]) + 1] = p.v
      /\ Len(chans[p.id]) \in Nat
  BY <1>1, <1>2, AppendProperties, LenProperties
<1>4. /\ chans' = [chans EXCEPT ![p.id] = Append(@, p.v)]
      /\ clr' = [clr EXCEPT ![k] = [st |-> "idle", pkt |-> NoPkt]]
      /\ UNCHANGED <<pc, conn, ret, queries, status, gen, link, produced>>
  BY DEF ClientReaderDeliver
<1>5. TypeInv'
  <2>1. chans' \in [Calls -> Seq(Vals)]
    BY <1>1, <1>3, <1>4 DEF TypeInv
  <2>2. clr' \in [Conns -> ClrRec]
    BY <1>4, NoPktType DEF TypeInv, ClrRec
  <2> QED
    BY <2>1, <2>2, <1>4 DEF TypeInv
<1>6. ChanOwn'
  <2> SUFFICES ASSUME NEW d \in Calls, NEW j \in 1..Len(chans'[d]) PROVE chans'[d][j] \in produced'[d]
    BY DEF ChanOwn
  <2>1. CASE d = p.id
    <3>1. chans'[d] = Append(chans[p.id], p.v)
      BY <2>1, <1>4 DEF TypeInv
    <3>2. CASE j \in 1..Len(chans[p.id])
      BY <3>1, <3>2, <1>3, <1>4, <2>1 DEF DataInv, ChanOwn
    <3>3. CASE j = Len(chans[p.id]) + 1
      BY <3>1, <3>3, <1>3, <1>4, <1>1, <2>1
    <3> QED
      BY <3>1, <3>2, <3>3, <1>3
  <2>2. CASE d # p.id
    BY <2>2, <1>4 DEF TypeInv, DataInv, ChanOwn
  <2> QED
    BY <2>1, <2>2
<1>7. ClrOK(clr', produced')
  BY <1>4, NoPktType DEF TypeInv, DataInv, ClrOK, PktOKp
<1>8. LinkOK(link', produced') /\ OwnAnswer'
  BY <1>4 DEF DataInv, LinkOK, OwnAnswer
<1> QED
  BY <1>5, <1>6, <1>7, <1>8 DEF DataInv

(* ======================================================= ping, reconnect *)
LEMMA S_PingTick ==
  ASSUME TypeInv, DataInv, NEW k \in Conns, PingTick(k)
  PROVE  TypeInv' /\ DataInv'
<1>1. CASE /\ SetL(k, gen[k], [Cur(k) EXCEPT !.rst = TRUE])
           /\ UNCHANGED <<callVars, status, gen, clr, produced>>
  <2> DEFINE l == L(k, gen[k])
             rec == [l EXCEPT !.rst = TRUE]
  <2>1. gen[k] \in Gens(k) /\ Cur(k) = l
    BY CurOfLink
  <2>2. l \in LinkRec /\ RecOK(l, produced)
    BY <2>1, RecOfLink, LinkRecOK
  <2>3. rec \in LinkRec /\ rec.in = l.in /\ rec.rh = l.rh
    BY <2>2 DEF LinkRec
  <2>4. RecOK(rec, produced)
    BY <2>2, <2>3, SamePktsOK
  <2>5. SetL(k, gen[k], rec) /\ UNCHANGED <<pc, conn, ret, queries, chans, status, gen, clr, produced>>
    BY <1>1, <2>1 DEF callVars
  <2> HIDE DEF l, rec
  <2> QED
    BY <2>1, <2>3, <2>4, <2>5, S_SetLOnly
<1>2. CASE UNCHANGED <<link, callVars, status, gen, clr, produced>>
  BY <1>2, UnchStep DEF callVars
<1> QED
  BY <1>1, <1>2 DEF PingTick

LEMMA ClosedOK ==
  ASSUME NEW l \in LinkRec, NEW prod, RecOK(l, prod), NEW n \in 0..Len(l.in)
  PROVE  Closed(l, n) \in LinkRec /\ RecOK(Closed(l, n), prod)
<1>1. l.in \in Seq(Pkts) /\ Len(l.in) \in Nat /\ \A i \in 1..Len(l.in) : l.in[i] \in Pkts
  BY LenProperties DEF LinkRec
<1>2. /\ SubSeq(l.in, 1, n) \in Seq(Pkts)
      /\ Len(SubSeq(l.in, 1, n)) = n
      /\ \A i \in 1 .. n : SubSeq(l.in, 1, n)[i] = l.in[i]
  BY <1>1
<1>3. /\ Closed(l, n) \in LinkRec /\ Closed(l, n).in = SubSeq(l.in, 1, n) /\ Closed(l, n).rh = l.rh
  BY <1>2 DEF Closed, LinkRec, Fins
<1>4. \A j \in 1..Len(SubSeq(l.in, 1, n)) : SubSeq(l.in, 1, n)[j] = l.in[j] /\ j \in 1..Len(l.in)
  BY <1>1, <1>2
<1>5. RecOK(Closed(l, n), prod)
  BY <1>3, <1>4 DEF RecOK
<1> QED
  BY <1>3, <1>5

LEMMA S_RcBegin ==
  ASSUME TypeInv, DataInv, NEW k \in Conns, RcBegin(k)
  PROVE  TypeInv' /\ DataInv'
<1>1. CASE status[k] = "Connecting"
  BY <1>1, UnchStep DEF RcBegin, callVars
<1>2. CASE status[k] # "Connecting"
  <2> DEFINE l == L(k, gen[k])
  <2>1. gen[k] \in Gens(k) /\ Cur(k) = l /\ l \in LinkRec /\ RecOK(l, produced)
    BY CurOfLink, RecOfLink, LinkRecOK
  <2>2. PICK n \in 0..Len(l.in) : SetL(k, gen[k], Closed(l, n))
    BY <1>2, <2>1 DEF RcBegin
  <2>3. Closed(l, n) \in LinkRec /\ RecOK(Closed(l, n), produced)
    BY <2>1, ClosedOK
  <2>4. /\ status' = [status EXCEPT ![k] = "Connecting"]
        /\ UNCHANGED <<pc, conn, ret, queries, chans, gen, clr, produced>>
    BY <1>2 DEF RcBegin, callVars
  <2> HIDE DEF l
  <2>5. /\ link' \in [Conns -> Seq(LinkRec)]
        /\ \A k2 \in Conns : Len(link'[k2]) = Len(link[k2])
    BY <2>1, <2>2, <2>3, SetLFacts
  <2>6. TypeInv'
    BY <2>4, <2>5 DEF TypeInv
  <2>7. LinkOK(link', produced')
    <3>1. Mono(produced, produced') /\ RecOK(Closed(l, n), produced')
      BY <2>3, <2>4 DEF Mono
    <3> QED
      BY <3>1, <2>1, <2>2, <2>3, SetLData DEF DataInv
  <2>8. ClrOK(clr', produced') /\ ChanOwn' /\ OwnAnswer'
    BY <2>4 DEF DataInv, ClrOK, ChanOwn, OwnAnswer
  <2> QED
    BY <2>6, <2>7, <2>8 DEF DataInv
<1> QED
  BY <1>1, <1>2

\* a step that replaces every record of connection k by F(h), lengths unchanged
LEMMA S_Map ==
  ASSUME TypeInv, DataInv, NEW k \in Conns, NEW F(_),
         \A h \in Gens(k) : F(h) \in LinkRec /\ RecOK(F(h), produced),
         link' = [link EXCEPT ![k] = [h \in Gens(k) |-> F(h)]],
         status' \in [Conns -> {"Connected", "Connecting"}],
         gen' \in [Conns -> Nat], \A k2 \in Conns : gen'[k2] \in 1..Len(link[k2]),
         UNCHANGED <<pc, conn, ret, queries, chans, clr, produced>>
  PROVE  TypeInv' /\ DataInv'
<1> DEFINE n == Len(link[k])
           s == [h \in 1..n |-> F(h)]
<1>1. link \in [Conns -> Seq(LinkRec)] /\ n \in Nat /\ Gens(k) = 1..n
  BY LenProperties DEF TypeInv, Gens
<1>2. s \in Seq(LinkRec)
  BY <1>1, IsASeq
<1>3. Len(s) = n /\ \A h \in 1..n : s[h] = F(h)
  <2>1. DOMAIN s = 1..Len(s) /\ Len(s) \in Nat
    BY <1>2, LenProperties
  <2>2. DOMAIN s = 1..n
    OBVIOUS
  <2> QED
    BY <2>1, <2>2, <1>1
<1>4. link' = [link EXCEPT ![k] = s]
  BY <1>1
<1> HIDE DEF s
<1>5. /\ link' \in [Conns -> Seq(LinkRec)]
      /\ \A k2 \in Conns : Len(link'[k2]) = Len(link[k2])
      /\ \A k2 \in Conns : k2 # k => link'[k2] = link[k2]
      /\ link'[k] = s
  BY <1>1, <1>2, <1>3, <1>4
<1>6. TypeInv'
  BY <1>5 DEF TypeInv
<1>7. LinkOK(link', produced')
  <2> SUFFICES ASSUME NEW k2 \in Conns, NEW g2 \in 1..Len(link'[k2]) PROVE RecOK(link'[k2][g2], produced')
    BY DEF LinkOK
  <2>0. produced' = produced /\ g2 \in 1..Len(link[k2])
    BY <1>5
  <2>1. CASE k2 = k
    BY <2>0, <2>1, <1>1, <1>3, <1>5
  <2>2. CASE k2 # k
    BY <2>0, <2>2, <1>5 DEF DataInv, LinkOK
  <2> QED
    BY <2>1, <2>2
<1>8. ClrOK(clr', produced') /\ ChanOwn' /\ OwnAnswer'
  BY DEF DataInv, ClrOK, ChanOwn, OwnAnswer
<1> QED
  BY <1>6, <1>7, <1>8 DEF DataInv

LEMMA S_ReaderRcBegin ==
  ASSUME TypeInv, DataInv, NEW k \in Conns, NEW g \in Gens(k), ReaderRcBegin(k, g)
  PROVE  TypeInv' /\ DataInv'
<1> DEFINE l == L(k, g)
<1>0. l \in LinkRec /\ RecOK(l, produced)
  BY RecOfLink, LinkRecOK
<1>1. CASE status[k] = "Connecting"
  <2> DEFINE rec == [l EXCEPT !.r = "dead"]
  <2>1. rec \in LinkRec /\ rec.in = l.in /\ rec.rh = l.rh
    BY <1>0 DEF LinkRec, RSts
  <2>2. RecOK(rec, produced)
    BY <1>0, <2>1, SamePktsOK
  <2>3. SetL(k, g, rec) /\ UNCHANGED <<pc, conn, ret, queries, chans, status, gen, clr, produced>>
    BY <1>1 DEF ReaderRcBegin, callVars
  <2> HIDE DEF l, rec
  <2> QED
    BY <2>1, <2>2, <2>3, S_SetLOnly
<1>2. CASE status[k] # "Connecting"
  <2>1. PICK n \in 0..Len(Cur(k).in) :
           link' = [link EXCEPT ![k] = [h \in Gens(k) |->
                          LET x == IF h = gen[k] THEN Closed(link[k][h], n) ELSE link[k][h] IN
                          IF h = g THEN [x EXCEPT !.r = "dial"] ELSE x]]
    BY <1>2 DEF ReaderRcBegin
  <2> DEFINE X(h) == IF h = gen[k] THEN Closed(link[k][h], n) ELSE link[k][h]
             F(h) == IF h = g THEN [X(h) EXCEPT !.r = "dial"] ELSE X(h)
  <2>2. gen[k] \in Gens(k) /\ Cur(k) = L(k, gen[k])
    BY CurOfLink
  <2>3. \A h \in Gens(k) : X(h) \in LinkRec /\ RecOK(X(h), produced)
    <3> TAKE h \in Gens(k)
    <3>1. L(k, h) \in LinkRec /\ RecOK(L(k, h), produced) /\ L(k, h) = link[k][h]
      BY RecOfLink, LinkRecOK
    <3>2. CASE h = gen[k]
      <4>1. n \in 0..Len(link[k][h].in)
        BY <3>2, <2>2, <3>1
      <4> QED
        BY <4>1, <3>1, <3>2, ClosedOK
    <3>3. CASE h # gen[k]
      BY <3>1, <3>3
    <3> QED
      BY <3>2, <3>3
  <2>4. \A h \in Gens(k) : F(h) \in LinkRec /\ RecOK(F(h), produced)
    <3> TAKE h \in Gens(k)
    <3>1. X(h) \in LinkRec /\ RecOK(X(h), produced)
      BY <2>3
    <3> HIDE DEF X
    <3>2. [X(h) EXCEPT !.r = "dial"] \in LinkRec /\ [X(h) EXCEPT !.r = "dial"].in = X(h).in
          /\ [X(h) EXCEPT !.r = "dial"].rh = X(h).rh
      BY <3>1 DEF LinkRec, RSts
    <3>3. RecOK([X(h) EXCEPT !.r = "dial"], produced)
      BY <3>1, <3>2, SamePktsOK
    <3> QED
      BY <3>1, <3>2, <3>3
  <2>5. link' = [link EXCEPT ![k] = [h \in Gens(k) |-> F(h)]]
    BY <2>1
  <2>6. /\ status' \in [Conns -> {"Connected", "Connecting"}]
        /\ gen' \in [Conns -> Nat] /\ \A k2 \in Conns : gen'[k2] \in 1..Len(link[k2])
        /\ UNCHANGED <<pc, conn, ret, queries, chans, clr, produced>>
    BY <1>2 DEF ReaderRcBegin, callVars, TypeInv
  <2> HIDE DEF F, X
  <2> QED
    BY <2>4, <2>5, <2>6, S_Map
<1> QED
  BY <1>1, <1>2

LEMMA S_SetupDone ==
  ASSUME TypeInv, DataInv, NEW k \in Conns, SetupDone(k)
  PROVE  TypeInv' /\ DataInv'
<1> DEFINE F(h) == IF h = gen[k] + 1 THEN [link[k][h] EXCEPT !.p = IF @ = "new" THEN "run" ELSE @, !.r = IF @ = "new" THEN "run" ELSE @]
                   ELSE IF dial[k] = <<"r", h>> THEN [link[k][h] EXCEPT !.r = "dead"] ELSE link[k][h]
<1>1. \A h \in Gens(k) : F(h) \in LinkRec /\ RecOK(F(h), produced)
  <2> TAKE h \in Gens(k)
  <2>1. L(k, h) \in LinkRec /\ RecOK(L(k, h), produced) /\ L(k, h) = link[k][h]
    BY RecOfLink, LinkRecOK
  <2>2. F(h) \in LinkRec /\ F(h).in = link[k][h].in /\ F(h).rh = link[k][h].rh
    BY <2>1 DEF LinkRec, PSts, RSts
  <2> HIDE DEF F
  <2> QED
    BY <2>1, <2>2, SamePktsOK
<1>2. link' = [link EXCEPT ![k] = [h \in Gens(k) |-> F(h)]]
  BY DEF SetupDone
<1>3. /\ status' \in [Conns -> {"Connected", "Connecting"}]
      /\ gen' \in [Conns -> Nat] /\ \A k2 \in Conns : gen'[k2] \in 1..Len(link[k2])
      /\ UNCHANGED <<pc, conn, ret, queries, chans, clr, produced>>
  BY DEF SetupDone, callVars, TypeInv
<1> HIDE DEF F
<1> QED
  BY <1>1, <1>2, <1>3, S_Map

LEMMA S_DialOk ==
  ASSUME TypeInv, DataInv, NEW k \in Conns, DialOk(k)
  PROVE  TypeInv' /\ DataInv'
<1> DEFINE s == Append(link[k], NewLink)
<1>1. link \in [Conns -> Seq(LinkRec)] /\ link[k] \in Seq(LinkRec) /\ Len(link[k]) \in Nat
  BY LenProperties DEF TypeInv
<1>2. /\ s \in Seq(LinkRec) /\ Len(s) = Len(link[k]) + 1
      /\ \A i \in 1 .. Len(link[k]) : s[i] = link[k][i]
      /\ s[Len(link[k]) + 1] = NewLink
  BY <1>1, NewLinkType, AppendProperties
<1>3. link' = [link EXCEPT ![k] = s] /\ UNCHANGED <<pc, conn, ret, queries, chans, status, gen, clr, produced>>
  BY DEF DialOk, callVars
<1> HIDE DEF s
<1>4. /\ link' \in [Conns -> Seq(LinkRec)]
      /\ \A k2 \in Conns : k2 # k => link'[k2] = link[k2]
      /\ link'[k] = s
  BY <1>1, <1>2, <1>3
<1>5. TypeInv'
  BY <1>1, <1>2, <1>3, <1>4 DEF TypeInv
<1>6. LinkOK(link', produced')
  <2> SUFFICES ASSUME NEW k2 \in Conns, NEW g2 \in 1..Len(link'[k2]) PROVE RecOK(link'[k2][g2], produced')
    BY DEF LinkOK
  <2>0. produced' = produced
    BY <1>3
  <2>1. CASE k2 # k
    BY <2>0, <2>1, <1>4 DEF DataInv, LinkOK
  <2>2. CASE k2 = k /\ g2 \in 1..Len(link[k])
    BY <2>0, <2>2, <1>2, <1>4 DEF DataInv, LinkOK
  <2>3. CASE k2 = k /\ g2 = Len(link[k]) + 1
    <3>1. link'[k2][g2] = NewLink
      BY <2>3, <1>2, <1>4
    <3>2. RecOK(NewLink, produced')
      BY NewLinkType, NoPktType DEF RecOK, PktOKp
    <3> QED
      BY <3>1, <3>2
  <2> QED
    BY <2>1, <2>2, <2>3, <1>1, <1>2, <1>4
<1>7. ClrOK(clr', produced') /\ ChanOwn' /\ OwnAnswer'
  BY <1>3 DEF DataInv, ClrOK, ChanOwn, OwnAnswer
<1> QED
  BY <1>5, <1>6, <1>7 DEF DataInv
=============================================================================
