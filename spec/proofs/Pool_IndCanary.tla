--------------------------- MODULE Pool_IndCanary ---------------------------
(* Must NOT be provable (bin/prove requires tlapm to leave it unproved): the     *)
(* invariant without the assumption that the protocol is the repaired one      *)
(* (ParamOK, in particular FixNotify) does not give NeverStuck - with the      *)
(* blocking send of the protocol as it was, a state satisfying IndInv is       *)
(* wedged.  Same back end and definitions as lemma G_NeverStuck.               *)
EXTENDS Pool_IndProof

LEMMA NeverStuckWithoutTheFix == ASSUME PInv PROVE NeverStuck
  BY InfNat, SMT DEF PInv, FT, FT_Conn, FT_Pool, FT_Wait, FT_Run, IndInv, TypeInv, LockInv, TI_Conn, TI_Upd, TI_Pool, TI_Wait, TI_Chan, TI_Run,
     LI_RW, LI_Run, LI_Wait, LI_Reg, LI_Clk, Procs, CPcs, RPcs, WPcs, WIn, WPend, Conns, WCap,
     NeverStuck, Wedged, MidCall, InternalEnabled, G_SmhSet, G_SmhSend, G_RunRecv, G_RunRLock, G_RunRUnlock, G_RunUpdAcq, G_RunUpdBody,
     G_RunSend, G_WSubAnn, G_WSubAcq, G_WSubRead, G_WSubBody, G_WRecv, G_WTimeout, G_WCancelRet, G_WUnsubAnn, G_WUnsubAcq, G_WUnsubBody,
     Free, CanAcquire
=============================================================================
