------------------------------ MODULE Pool_Open ------------------------------
(* Pool with an OPEN environment (C13, unbounded assurance).                    *)
(*                                                                             *)
(* Pool!Env draws the environment's choices from the finite constants Steps,   *)
(* Wants, Timeouts and 1..MaxSeq so that TLC can enumerate them.  For the      *)
(* inductive-invariant proofs these bounds are dropped: a connection may       *)
(* report ANY natural number as its head, a caller may wait for ANY seqno      *)
(* with ANY timeout (Inf = 10^9 is a natural number, so "no timer" is          *)
(* included).  Every other action is Pool's own, by name.                      *)
(*                                                                             *)
(* GNext is weaker than Pool!Next (theorem NextImpliesGNext in                 *)
(* Pool_OpenProof.tla, proved by TLAPS for arbitrary constants), so a state    *)
(* predicate that is inductive for GNext is an invariant of Pool!Spec.         *)
(* MaxTime and MaxFlips stay constants of Pool; the proofs leave them          *)
(* arbitrary naturals.                                                         *)
EXTENDS Pool

GEnv ==
  \/ \E k \in Conns : (\E s \in Nat : SmhLock(k, s)) \/ Flip(k)
  \/ RunTick
  \/ \E w \in Waiters : (\E s \in Nat : \E t \in Nat : WStart(w, s, t)) \/ Cancel(w)
  \/ Tick
GNext == Internal \/ GEnv
GSpec == Init /\ [][GNext]_vars

\* GNext regrouped by process (GNext <=> GNextSplit: theorem SplitIsGNext in Pool_OpenProof.tla), so that the
\* inductive step can be discharged group by group, in parallel
N_Conn   == \E k \in Conns : SmhSet(k) \/ SmhSend(k) \/ (\E s \in Nat : SmhLock(k, s)) \/ Flip(k)
N_RunNtf == RunRecv \/ RunRLock \/ RunRUnlock \/ \E w \in Waiters : RunSend(w)
N_RunUpd == RunTick \/ RunUpdAcq \/ RunUpdBody
N_WSub   == \E w \in Waiters : \/ (\E s \in Nat : \E t \in Nat : WStart(w, s, t))
                                 \/ WSubAnn(w) \/ WSubAcq(w) \/ WSubRead(w) \/ WSubBody(w)
N_WWait  == \E w \in Waiters : WRecv(w) \/ WTimeout(w) \/ Cancel(w) \/ WCancelRet(w)
N_WUnsub == \E w \in Waiters : WUnsubAnn(w) \/ WUnsubAcq(w) \/ WUnsubBody(w)
N_Tick   == Tick
GNextSplit == N_Conn \/ N_RunNtf \/ N_RunUpd \/ N_WSub \/ N_WWait \/ N_WUnsub \/ N_Tick
=============================================================================
