--------------------------- MODULE LiteClient_Inv ---------------------------
(* C12, unbounded assurance: the inductive invariant Inv of LiteClient and the   *)
(* assumptions on the constants.  Plain TLA+: proved inductive by TLAPS in     *)
(* LiteClient_Ind.tla (arbitrary Calls, NConns, generations, backlog), checked *)
(* by TLC as an ordinary invariant on the small instances of                   *)
(* spec/proofs/mc/LiteClient_Inv_TLC_*.cfg.                                    *)
(*                                                                             *)
(*   TypeInv  shapes of all variables the argument looks at                    *)
(*   DataInv  every packet anywhere between the server and a reply channel     *)
(*            (socket backlog `in`, the connection reader's hand `rh`, the     *)
(*            client reader's hand `clr.pkt`) that is an answer to call i      *)
(*            carries a value the server produced for i; the packet the client *)
(*            reader has looked up ("found") is an answer to a call; what is   *)
(*            in reply channel c, and what call c has returned, was produced   *)
(*            for c (ChanOwn, OwnAnswer)                                       *)
(*   RegInv   lookup + delete is atomic: an id that has been looked up is no   *)
(*            longer registered, at most one reader holds a given id, and its  *)
(*            reply channel is still empty (so the delivery cannot block and   *)
(*            the channel never holds two items)                               *)
EXTENDS LiteClient


ASSUME ConstAssump == NConns \in Nat /\ Unknown \notin Calls

Vals    == Calls \cup {Unknown}
PcSet   == {"start", "reg", "picked", "wait", "unreg", "done"}
RetVals == {<<"none">>, <<"timeout">>, <<"senderr">>, <<"notconnected">>} \cup {<<"answer", v>> : v \in Vals}
Fins    == {"open", "srv", "cli"}
PSts    == {"new", "run", "stuck", "dead"}
RSts    == {"new", "run", "offer", "rc", "dial", "dead"}
LinkRec == [in : Seq(Pkts), fin : Fins, out : SUBSET Calls, pend : SUBSET Calls, rst : BOOLEAN,
            p : PSts, r : RSts, rh : Pkts]
ClrRec  == [st : {"idle", "got", "found"}, pkt : Pkts]

TypeInv ==
  /\ pc \in [Calls -> PcSet]
  /\ conn \in [Calls -> Nat]
  /\ \A c \in Calls : pc[c] = "picked" => conn[c] \in Conns
  /\ ret \in [Calls -> RetVals]
  /\ queries \subseteq Calls
  /\ chans \in [Calls -> Seq(Vals)]
  /\ status \in [Conns -> {"Connected", "Connecting"}]
  /\ gen \in [Conns -> Nat]
  /\ link \in [Conns -> Seq(LinkRec)]
  /\ \A k \in Conns : gen[k] \in 1..Len(link[k])
  /\ clr \in [Conns -> ClrRec]
  /\ produced \in [Calls -> SUBSET Vals]

\* an answer to a call carries a value produced for that call (prod: the server's history)
PktOKp(p, prod) == (p.t = "ans" /\ p.id \in Calls) => p.v \in prod[p.id]
RecOK(l, prod)  == PktOKp(l.rh, prod) /\ \A j \in 1..Len(l.in) : PktOKp(l.in[j], prod)
LinkOK(lk, prod) == \A k \in Conns : \A g \in 1..Len(lk[k]) : RecOK(lk[k][g], prod)
ClrOK(cl, prod) == \A k \in Conns : /\ PktOKp(cl[k].pkt, prod)
                                    /\ cl[k].st = "found" => cl[k].pkt.t = "ans" /\ cl[k].pkt.id \in Calls
DataInv == /\ LinkOK(link, produced) /\ ClrOK(clr, produced) /\ ChanOwn /\ OwnAnswer

Found(k, c) == clr[k].st = "found" /\ clr[k].pkt.id = c
RI1 == \A c \in Calls : Len(chans[c]) <= 1
RI2 == \A c \in Calls : pc[c] = "start" => c \notin queries /\ chans[c] = <<>> /\ \A k \in Conns : ~Found(k, c)
RI3 == \A c \in queries : chans[c] = <<>> /\ \A k \in Conns : ~Found(k, c)
RI4 == \A k \in Conns : clr[k].st = "found" => clr[k].pkt.id \notin queries /\ chans[clr[k].pkt.id] = <<>>
RI5 == \A k1, k2 \in Conns : clr[k1].st = "found" /\ clr[k2].st = "found" /\ clr[k1].pkt.id = clr[k2].pkt.id => k1 = k2
RegInv == RI1 /\ RI2 /\ RI3 /\ RI4 /\ RI5 /\ RegisteredWhileWaiting

Inv == TypeInv /\ DataInv /\ RegInv

Mono(p1, p2) == \A c \in Calls : p1[c] \subseteq p2[c]

=============================================================================
