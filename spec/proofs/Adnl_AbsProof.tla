--------------------------- MODULE Adnl_AbsProof ---------------------------
(* TLAPS: the two clauses of C11 are invariants of Adnl_Abs for ANY number of   *)
(* frames and faults (Apalache checks the same invariant for up to 8 frames).  *)
EXTENDS Adnl_Abs, TLAPS

Frame == [pl : Int, ok : BOOLEAN]
TypeOK == /\ sent \in Seq(Int) /\ wire \in Seq(Frame) /\ delivered \in Seq(Int)
          /\ cut \in BOOLEAN /\ dead \in BOOLEAN
TInv == TypeOK /\ IndInv

LEMMA InitTInv == Init => TInv
  BY DEF Init, TInv, TypeOK, IndInv, DeliveredIsPrefixOfSent, NothingFromHitFrameOn, Frame

LEMMA S_Send == ASSUME TInv, NEW p \in Int, Send(p) PROVE TInv'
<1> USE DEF TInv, TypeOK, IndInv, DeliveredIsPrefixOfSent, NothingFromHitFrameOn, Send, Frame
<1>1. TypeOK'
  OBVIOUS
<1>2. IndInv'
  OBVIOUS
<1> QED
  BY <1>1, <1>2

LEMMA S_Corrupt == ASSUME TInv, NEW i \in DOMAIN wire, Corrupt(i) PROVE TInv'
<1> USE DEF TInv, TypeOK, IndInv, DeliveredIsPrefixOfSent, NothingFromHitFrameOn, Corrupt, Mark, Frame
<1>1. TypeOK'
  OBVIOUS
<1>2. IndInv'
  OBVIOUS
<1> QED
  BY <1>1, <1>2

LEMMA S_Truncate == ASSUME TInv, NEW i \in 1..(Len(wire) + 1), Truncate(i) PROVE TInv'
<1> USE DEF TInv, TypeOK, IndInv, DeliveredIsPrefixOfSent, NothingFromHitFrameOn, Truncate, Mark, Frame
<1>0. /\ SubSeq(wire, 1, i - 1) \in Seq(Frame) /\ Len(SubSeq(wire, 1, i - 1)) = i - 1
      /\ \A j \in 1..(i - 1) : SubSeq(wire, 1, i - 1)[j] = wire[j]
  OBVIOUS
<1>1. TypeOK'
  BY <1>0
<1>2. IndInv'
  BY <1>0
<1> QED
  BY <1>1, <1>2

LEMMA S_Dangling == ASSUME TInv, Dangling PROVE TInv'
<1> USE DEF TInv, TypeOK, IndInv, DeliveredIsPrefixOfSent, NothingFromHitFrameOn, Dangling, Mark, Frame
<1>1. TypeOK'
  OBVIOUS
<1>2. IndInv'
  OBVIOUS
<1> QED
  BY <1>1, <1>2

LEMMA S_Deliver == ASSUME TInv, Deliver PROVE TInv'
<1> USE DEF TInv, TypeOK, IndInv, DeliveredIsPrefixOfSent, NothingFromHitFrameOn, Deliver, Frame
<1>0. /\ Head(wire) \in Frame /\ Head(wire) = wire[1] /\ Tail(wire) \in Seq(Frame)
      /\ Len(Tail(wire)) = Len(wire) - 1 /\ Len(wire) >= 1
      /\ \A j \in 1..(Len(wire) - 1) : Tail(wire)[j] = wire[j + 1]
  OBVIOUS
<1>1. TypeOK'
  BY <1>0
<1>2. IndInv'
  BY <1>0
<1> QED
  BY <1>1, <1>2

LEMMA S_Other == ASSUME TInv, DeliverEof \/ GiveUp \/ UNCHANGED vars PROVE TInv'
  BY DEF TInv, TypeOK, IndInv, DeliveredIsPrefixOfSent, NothingFromHitFrameOn, DeliverEof, GiveUp, vars, Frame

THEOREM Inductive == TInv /\ [Next]_vars => TInv'
  BY S_Send, S_Corrupt, S_Truncate, S_Dangling, S_Deliver, S_Other DEF Next

THEOREM Safety == Spec => [](DeliveredIsPrefixOfSent /\ NothingFromHitFrameOn)
<1>1. TInv => DeliveredIsPrefixOfSent /\ NothingFromHitFrameOn
  BY DEF TInv, IndInv
<1> QED
  BY InitTInv, Inductive, <1>1, PTL DEF Spec
=============================================================================
