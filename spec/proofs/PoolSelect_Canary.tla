-------------------------- MODULE PoolSelect_Canary --------------------------
(* A FALSE statement about the selection rule (under best-ping the choice is    *)
(* NOT in general the first Good connection).  bin/prove requires tlapm to     *)
(* leave it unproved: "all obligations proved" on this file would mean the     *)
(* proof runs are vacuous.                                                     *)
EXTENDS PoolSelect_Ind

THEOREM BestPingIsFirstGood ==
  ASSUME NEW N \in Nat, NEW conns \in Pools(N), NEW prev,
         NEW b \in Choices("best-ping", conns, prev), SomeGood(N, conns)
  PROVE  \A j \in 1..N : Good(conns, j) => b <= j
  BY SelectionRule, GoodSetFacts DEF Choices, BestPing, Strategies
=============================================================================
