--------------------------- MODULE Pool_OpenProof ---------------------------
(* TLAPS: the open environment of Pool_Open is weaker than Pool's own, for      *)
(* ARBITRARY constants (any NC, any set of waiters, any capacities), provided  *)
(* the environment's finite menus are sets of natural numbers (they are in     *)
(* every .cfg of spec/mc).  Checked against the ORIGINAL spec/Pool.tla.        *)
(* Hence: an invariant of Pool_Open!GSpec is an invariant of Pool!Spec.        *)
EXTENDS Pool_Open, TLAPS

THEOREM NextImpliesGNext ==
  ASSUME Steps \subseteq Nat, Wants \subseteq Nat, Timeouts \subseteq Nat, MaxSeq \in Nat
  PROVE  Next => GNext
<1> SUFFICES ASSUME Next PROVE GNext
  OBVIOUS
<1>1. CASE Internal
  BY <1>1 DEF GNext
<1>2. CASE Env
  <2>1. CASE \E k \in Conns : (\E d \in Steps : head[k] + d \in 1..MaxSeq /\ SmhLock(k, head[k] + d)) \/ Flip(k)
    <3>1. PICK k \in Conns : (\E d \in Steps : head[k] + d \in 1..MaxSeq /\ SmhLock(k, head[k] + d)) \/ Flip(k)
      BY <2>1
    <3>2. CASE Flip(k)
      BY <3>2 DEF GNext, GEnv
    <3>3. CASE \E d \in Steps : head[k] + d \in 1..MaxSeq /\ SmhLock(k, head[k] + d)
      <4>1. PICK d \in Steps : head[k] + d \in 1..MaxSeq /\ SmhLock(k, head[k] + d)
        BY <3>3
      <4>2. head[k] + d \in Nat
        BY <4>1
      <4>3. \E s \in Nat : SmhLock(k, s)
        BY <4>1, <4>2
      <4> QED
        BY <4>3 DEF GNext, GEnv
    <3> QED
      BY <3>1, <3>2, <3>3
  <2>2. CASE RunTick
    BY <2>2 DEF GNext, GEnv
  <2>3. CASE \E w \in Waiters : (\E s \in Wants, t \in Timeouts : WStart(w, s, t)) \/ Cancel(w)
    <3>1. PICK w \in Waiters : (\E s \in Wants, t \in Timeouts : WStart(w, s, t)) \/ Cancel(w)
      BY <2>3
    <3>2. CASE Cancel(w)
      BY <3>2 DEF GNext, GEnv
    <3>3. CASE \E s \in Wants, t \in Timeouts : WStart(w, s, t)
      <4>1. \E s \in Nat : \E t \in Nat : WStart(w, s, t)
        BY <3>3
      <4> QED
        BY <4>1 DEF GNext, GEnv
    <3> QED
      BY <3>1, <3>2, <3>3
  <2>4. CASE Tick
    BY <2>4 DEF GNext, GEnv
  <2> QED
    BY <1>2, <2>1, <2>2, <2>3, <2>4 DEF Env
<1> QED
  BY <1>1, <1>2 DEF Next

THEOREM SpecImpliesGSpec ==
  ASSUME Steps \subseteq Nat, Wants \subseteq Nat, Timeouts \subseteq Nat, MaxSeq \in Nat
  PROVE  Spec => GSpec
<1>1. [Next]_vars => [GNext]_vars
  BY NextImpliesGNext
<1> QED
  BY <1>1, PTL DEF Spec, GSpec

\* the regrouping used to discharge the inductive step piecewise loses nothing
THEOREM SplitIsGNext == GNext <=> GNextSplit
<1>1. GNext => GNextSplit
  BY DEF GNext, GNextSplit, Internal, GEnv, N_Conn, N_RunNtf, N_RunUpd, N_WSub, N_WWait, N_WUnsub, N_Tick
<1>2. GNextSplit => GNext
  BY DEF GNext, GNextSplit, Internal, GEnv, N_Conn, N_RunNtf, N_RunUpd, N_WSub, N_WWait, N_WUnsub, N_Tick
<1> QED
  BY <1>1, <1>2
=============================================================================
