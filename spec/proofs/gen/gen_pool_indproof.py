import sys
actions = [
 ("SmhLock", ["k \\in Conns", "s \\in Nat"], "SmhLock(k, s)", ["SmhLock","G_SmhLock"]),
 ("SmhSet", ["k \\in Conns"], "SmhSet(k)", ["SmhSet","G_SmhSet"]),
 ("SmhSend", ["k \\in Conns"], "SmhSend(k)", ["SmhSend","G_SmhSend"]),
 ("Flip", ["k \\in Conns"], "Flip(k)", ["Flip"]),
 ("RunRecv", [], "RunRecv", ["RunRecv","G_RunRecv"]),
 ("RunRLock", [], "RunRLock", ["RunRLock","G_RunRLock","Free","RLock"]),
 ("RunSend", ["w \\in Waiters"], "RunSend(w)", ["RunSend","G_RunSend"]),
 ("RunRUnlock", [], "RunRUnlock", ["RunRUnlock","G_RunRUnlock","RUnlock"]),
 ("RunTick", [], "RunTick", ["RunTick","Free","Announce"]),
 ("RunUpdAcq", [], "RunUpdAcq", ["RunUpdAcq","G_RunUpdAcq","CanAcquire","Acquire"]),
 ("RunUpdBody", [], "RunUpdBody", ["RunUpdBody","G_RunUpdBody","WUnlock","UpdateBest","Choices","BestPing","FirstWorking","GoodSet","ConnState"]),
 ("WStart", ["w \\in Waiters","s \\in Nat","t \\in Nat"], "WStart(w, s, t)", ["WStart"]),
 ("WSubAnn", ["w \\in Waiters"], "WSubAnn(w)", ["WSubAnn","G_WSubAnn","Free","Announce"]),
 ("WSubAcq", ["w \\in Waiters"], "WSubAcq(w)", ["WSubAcq","G_WSubAcq","CanAcquire","Acquire"]),
 ("WSubRead", ["w \\in Waiters"], "WSubRead(w)", ["WSubRead","G_WSubRead"]),
 ("WSubBody", ["w \\in Waiters"], "WSubBody(w)", ["WSubBody","G_WSubBody","WUnlock"]),
 ("WRecv", ["w \\in Waiters"], "WRecv(w)", ["WRecv","G_WRecv"]),
 ("WTimeout", ["w \\in Waiters"], "WTimeout(w)", ["WTimeout","G_WTimeout"]),
 ("Cancel", ["w \\in Waiters"], "Cancel(w)", ["Cancel"]),
 ("WCancelRet", ["w \\in Waiters"], "WCancelRet(w)", ["WCancelRet","G_WCancelRet"]),
 ("WUnsubAnn", ["w \\in Waiters"], "WUnsubAnn(w)", ["WUnsubAnn","G_WUnsubAnn","Free","Announce"]),
 ("WUnsubAcq", ["w \\in Waiters"], "WUnsubAcq(w)", ["WUnsubAcq","G_WUnsubAcq","CanAcquire","Acquire"]),
 ("WUnsubBody", ["w \\in Waiters"], "WUnsubBody(w)", ["WUnsubBody","G_WUnsubBody","WUnlock"]),
 ("Tick", [], "Tick", ["Tick","InternalEnabled","G_SmhSet","G_SmhSend","G_RunRecv","G_RunRLock","G_RunRUnlock","G_RunUpdAcq","G_RunUpdBody","G_RunSend","G_WSubAnn","G_WSubAcq","G_WSubRead","G_WSubBody","G_WRecv","G_WTimeout","G_WCancelRet","G_WUnsubAnn","G_WUnsubAcq","G_WUnsubBody","Free","CanAcquire"]),
]
pieces_ft=["FT_Conn","FT_Pool","FT_Wait","FT_Run"]
pieces=["TI_Conn","TI_Upd","TI_Pool","TI_Wait","TI_Chan","TI_Run","LI_RW","LI_Run","LI_Wait","LI_Reg","LI_Clk","DI_Upd","DI_Run","DI_Chan","DI_Wait","TimeInv"]
sets="Procs, CPcs, RPcs, WPcs, WIn, WPend, Results, Conns, WCap, connVars, poolVars, waitVars, runVars, Msg2, Msg3"
struct="ParamOK, PInv, FT, IndInv, TypeInv, LockInv, DataInv"
base_defs=struct+", "+", ".join(pieces_ft)+", "+", ".join(pieces)+", MsgOK, "+sets
def focus(*ps): return struct+", MsgOK, "+sets+", "+", ".join(ps)
# (action, piece) -> list of pieces to expand (focused proof), or a literal proof
FOCUS = {
 ("RunSend","FT_Pool"): "SEQ",
 ("SmhSend","DI_Upd"): "SEQ",
 ("WStart","TI_Wait"): ["TI_Wait","FT_Wait"],
 ("WStart","FT_Wait"): ["FT_Wait"],
 ("WSubBody","LI_Reg"): "SEQ",
 ("WSubBody","FT_Wait"): ["FT_Wait","TI_Run"],
 ("WSubBody","FT_Pool"): "SEQ",
 ("WRecv","LI_Reg"): ["LI_Reg","FT_Pool","FT_Wait"],
 ("WRecv","TI_Wait"): "SEQ",
 ("WRecv","FT_Wait"): "SEQ",
 ("WRecv","FT_Pool"): "SEQ",
 ("WTimeout","DI_Wait"): "SEQ",
 ("WTimeout","TI_Wait"): ["TI_Wait","FT_Wait","TI_Run"],
 ("SmhSend","TI_Upd"): "SEQ",
 ("WCancelRet","LI_Reg"): ["LI_Reg","FT_Pool","FT_Wait"],
 ("WUnsubAcq","LI_Reg"): ["LI_Reg","FT_Pool","FT_Wait"],
 ("WUnsubBody","LI_Wait"): ["LI_Wait","TI_Pool","FT_Pool","FT_Wait"],
 ("Tick","TI_Run"): ["TI_Run"],
}
SEQ = {}
SEQ[("RunSend","FT_Pool")] = '''  <2> DEFINE e == <<rupd[2], rupd[1], best>>
  <2>1. e \\in Msg3
    BY SMT DEF PInv, FT, FT_Run, Msg2, Msg3, IndInv, TypeInv, TI_Pool, Conns, ParamOK
  <2>2. <<e>> \\in Seq(Msg3)
    BY <2>1, Single
  <2>3. ch' = [ch EXCEPT ![w] = <<e>>] /\\ UNCHANGED <<updCh, rw, reg>>
    BY DEF RunSend, ParamOK, connVars
  <2> HIDE DEF e
  <2> QED
    BY <2>2, <2>3, SMT DEF PInv, FT, FT_Pool'''
SEQ[("SmhSend","DI_Upd")] = '''  <2> DEFINE e == <<k, cnew[k]>>
  <2>1. /\\ updCh \\in Seq(Msg2) /\\ e \\in Msg2 /\\ e[1] = k /\\ e[2] = cnew[k] /\\ head[k] >= cnew[k]
    BY SMT DEF PInv, FT, FT_Pool, FT_Conn, Msg2, Conns, ParamOK, SmhSend, G_SmhSend, IndInv, DataInv, DI_Upd
  <2>2. /\\ DOMAIN Append(updCh, e) = 1..(Len(updCh)+1) /\\ DOMAIN updCh = 1..Len(updCh) /\\ Len(updCh) \\in Nat
        /\\ \\A i \\in 1..Len(updCh) : Append(updCh, e)[i] = updCh[i]
        /\\ Append(updCh, e)[Len(updCh)+1] = e
    BY <2>1, App
  <2>3. updCh' = Append(updCh, e) /\\ head' = head /\\ cnew' = cnew /\\ cpc' = [cpc EXCEPT ![k] = "idle"]
    BY DEF SmhSend
  <2>4. \\A i \\in DOMAIN updCh : head[updCh[i][1]] >= updCh[i][2]
    BY DEF PInv, IndInv, DataInv, DI_Upd
  <2>5. \\A j \\in Conns : cpc[j] = "send" => head[j] >= cnew[j]
    BY DEF PInv, IndInv, DataInv, DI_Upd
  <2>6. cpc \\in [Conns -> CPcs]
    BY DEF PInv, FT, FT_Conn
  <2> HIDE DEF e
  <2>7. \\A i \\in DOMAIN updCh' : head'[updCh'[i][1]] >= updCh'[i][2]
    <3> TAKE i \\in DOMAIN updCh'
    <3>1. CASE i \\in 1..Len(updCh)
      BY <3>1, <2>1, <2>2, <2>3, <2>4
    <3>2. CASE i = Len(updCh) + 1
      BY <3>2, <2>1, <2>2, <2>3
    <3> QED
      BY <3>1, <3>2, <2>2, <2>3
  <2>8. \\A j \\in Conns : cpc'[j] = "send" => head'[j] >= cnew'[j]
    BY <2>3, <2>5, <2>6
  <2> QED
    BY <2>7, <2>8 DEF DI_Upd'''
SEQ[("WSubBody","FT_Pool")] = '''  <2> DEFINE e == <<hread[w], best, best>>
  <2>1. e \\in Msg3
    BY SMT DEF PInv, FT, FT_Wait, Msg3, IndInv, TypeInv, TI_Pool, Conns, ParamOK
  <2>2. <<e>> \\in Seq(Msg3)
    BY <2>1, Single
  <2>3. /\\ ch' = IF hread[w] >= want[w] THEN [ch EXCEPT ![w] = <<e>>] ELSE ch
        /\\ reg' = IF hread[w] >= want[w] THEN reg ELSE [reg EXCEPT ![w] = TRUE]
        /\\ rw' = [rw EXCEPT !.w = None, !.pend = None] /\\ updCh' = updCh
    BY DEF WSubBody, WUnlock, connVars
  <2> HIDE DEF e
  <2> QED
    BY <2>2, <2>3, SMT DEF PInv, FT, FT_Pool, Procs'''
SEQ[("WSubBody","LI_Reg")] = '''  <2> DEFINE e == <<hread[w], best, best>>
  <2>1. <<e>> # <<>>
    OBVIOUS
  <2>2. /\\ ch' = IF hread[w] >= want[w] THEN [ch EXCEPT ![w] = <<e>>] ELSE ch
        /\\ reg' = IF hread[w] >= want[w] THEN reg ELSE [reg EXCEPT ![w] = TRUE]
        /\\ wpc' = [wpc EXCEPT ![w] = "waiting"] /\\ wpc[w] = "sub_rd" /\\ UNCHANGED <<rpc, rtodo>>
    BY DEF WSubBody, G_WSubBody, runVars
  <2> HIDE DEF e
  <2> QED
    BY <2>1, <2>2, SMT DEF PInv, FT, FT_Pool, FT_Wait, IndInv, LockInv, LI_Reg, TypeInv, TI_Run'''
SEQ[("WRecv","FT_Pool")] = '''  <2>1. ch[w] \\in Seq(Msg3) /\\ ch[w] # <<>>
    BY DEF PInv, FT, FT_Pool, WRecv, G_WRecv
  <2>2. Tail(ch[w]) \\in Seq(Msg3)
    BY <2>1, HT
  <2>3. ch' = [ch EXCEPT ![w] = Tail(ch[w])] /\\ UNCHANGED <<updCh, rw, reg>>
    BY DEF WRecv, connVars
  <2> QED
    BY <2>2, <2>3, SMT DEF PInv, FT, FT_Pool'''
SEQ[("WRecv","FT_Wait")] = '''  <2>1. ch[w] \\in Seq(Msg3) /\\ ch[w] # <<>>
    BY DEF PInv, FT, FT_Pool, WRecv, G_WRecv
  <2>2. Head(ch[w]) \\in Msg3
    BY <2>1, HT
  <2>3. now \\in Nat
    BY DEF PInv, IndInv, TypeInv, TI_Run
  <2> QED
    BY <2>2, <2>3, SMT DEF PInv, FT, FT_Wait, WRecv, G_WRecv, WPcs, Results'''
SEQ[("WRecv","TI_Wait")] = '''  <2>1. ch[w] \\in Seq(Msg3) /\\ ch[w] # <<>>
    BY DEF PInv, FT, FT_Pool, WRecv, G_WRecv
  <2>2. Head(ch[w]) = ch[w][1] /\\ 1 \\in DOMAIN ch[w]
    BY <2>1, HT
  <2>3. ch[w][1][1] \\in Nat /\\ ch[w][1][2] \\in Nat /\\ ch[w][1][3] \\in Nat /\\ now \\in Nat
    BY <2>2, SMT DEF PInv, IndInv, TypeInv, TI_Chan, TI_Run, Conns, ParamOK
  <2> QED
    BY <2>2, <2>3, SMT DEF PInv, FT, FT_Wait, IndInv, TypeInv, TI_Wait, WRecv, G_WRecv, WPcs, Results'''
SEQ[("WTimeout","DI_Wait")] = '''  <2>1. /\\ wpc[w] = "waiting" /\\ now >= timer[w] /\\ timer[w] = orig[w] /\\ now <= MaxTime /\\ MaxTime < Inf
        /\\ now \\in Nat /\\ orig[w] \\in Nat /\\ MaxTime \\in Nat
    BY SMT DEF PInv, FT, FT_Wait, IndInv, TypeInv, TI_Run, TimeInv, ParamOK, WTimeout, G_WTimeout
  <2>2. /\\ result' = [result EXCEPT ![w] = "timeout"] /\\ rett' = [rett EXCEPT ![w] = now]
        /\\ wpc' = [wpc EXCEPT ![w] = "unsub"]
        /\\ UNCHANGED <<head, best, hread, okby, want, orig, cancelled>>
    BY DEF WTimeout, connVars, poolVars
  <2>3. orig[w] # Inf /\\ now >= orig[w]
    BY <2>1, InfNat
  <2>4. DI_Wait
    BY DEF PInv, IndInv, DataInv
  <2> QED
    BY <2>2, <2>3, <2>4, SMT DEF DI_Wait, MsgOK, PInv, FT, FT_Wait, FT_Conn'''
SEQ[("SmhSend","TI_Upd")] = '''  <2> DEFINE e == <<k, cnew[k]>>
  <2>1. /\\ updCh \\in Seq(Msg2) /\\ e \\in Msg2 /\\ e[1] = k /\\ e[2] = cnew[k] /\\ cnew[k] \\in Nat
        /\\ Len(updCh) < UpdCap /\\ UpdCap \\in Nat
    BY SMT DEF PInv, FT, FT_Pool, FT_Conn, Msg2, Conns, ParamOK, SmhSend, G_SmhSend
  <2>2. /\\ DOMAIN Append(updCh, e) = 1..(Len(updCh)+1) /\\ DOMAIN updCh = 1..Len(updCh) /\\ Len(updCh) \\in Nat
        /\\ \\A i \\in 1..Len(updCh) : Append(updCh, e)[i] = updCh[i]
        /\\ Append(updCh, e)[Len(updCh)+1] = e /\\ Len(Append(updCh, e)) = Len(updCh) + 1
    BY <2>1, App
  <2>3. updCh' = Append(updCh, e)
    BY DEF SmhSend
  <2>4. \\A i \\in DOMAIN updCh : updCh[i][1] \\in Conns /\\ updCh[i][2] \\in Nat
    BY DEF PInv, IndInv, TypeInv, TI_Upd
  <2> HIDE DEF e
  <2>5. \\A i \\in DOMAIN updCh' : updCh'[i][1] \\in Conns /\\ updCh'[i][2] \\in Nat
    <3> TAKE i \\in DOMAIN updCh'
    <3>1. CASE i \\in 1..Len(updCh)
      BY <3>1, <2>2, <2>3, <2>4
    <3>2. CASE i = Len(updCh) + 1
      BY <3>2, <2>1, <2>2, <2>3
    <3> QED
      BY <3>1, <3>2, <2>2, <2>3
  <2>6. Len(updCh') <= UpdCap
    BY <2>1, <2>2, <2>3
  <2> QED
    BY <2>5, <2>6 DEF TI_Upd'''

PVARS = {
 "FT_Conn":"head alive rtt clk cpc cnew", "FT_Pool":"updCh rw reg ch",
 "FT_Wait":"wpc want tmo hread timer orig cancelled result okby rett", "FT_Run":"rupd",
 "TI_Conn":"head alive rtt clk cpc cnew", "TI_Upd":"updCh", "TI_Pool":"rw best",
 "TI_Wait":"reg ch wpc want tmo hread timer orig cancelled result okby rett", "TI_Chan":"ch",
 "TI_Run":"rpc rupd rtodo now flips", "LI_RW":"rw", "LI_Run":"rw rpc rtodo", "LI_Wait":"rw wpc",
 "LI_Reg":"reg wpc rpc rtodo ch", "LI_Clk":"clk cpc", "DI_Upd":"updCh head cpc cnew", "DI_Run":"rpc rupd head best",
 "DI_Chan":"ch head", "DI_Wait":"wpc head best hread result okby want orig rett cancelled", "TimeInv":"wpc timer orig now",
}
AVARS = {
 "SmhLock":"cnew clk cpc", "SmhSet":"head cpc clk", "SmhSend":"updCh clk cpc", "Flip":"flips alive",
 "RunRecv":"rupd updCh rpc rtodo", "RunRLock":"rw rtodo rpc", "RunSend":"ch rtodo rpc", "RunRUnlock":"rw rpc",
 "RunTick":"rw rpc", "RunUpdAcq":"rw rpc", "RunUpdBody":"best rw rpc", "WStart":"want tmo wpc",
 "WSubAnn":"rw wpc", "WSubAcq":"rw wpc", "WSubRead":"hread wpc", "WSubBody":"ch reg rw best wpc timer orig",
 "WRecv":"ch result okby rett wpc timer", "WTimeout":"result rett wpc", "Cancel":"cancelled",
 "WCancelRet":"result rett wpc", "WUnsubAnn":"rw wpc", "WUnsubAcq":"rw wpc", "WUnsubBody":"reg rw wpc", "Tick":"now",
}
def unaffected(action, piece):
    return not (set(PVARS[piece].split()) & set(AVARS[action].split()))

helpers = '''
LEMMA InfNat == Inf \\in Nat /\\ Inf > 0
  BY SMT DEF Inf

LEMMA Single == ASSUME NEW S, NEW x \\in S
  PROVE <<x>> \\in Seq(S) /\\ Len(<<x>>) = 1 /\\ <<x>>[1] = x /\\ <<x>> # <<>> /\\ DOMAIN <<x>> = {1}
  OBVIOUS
LEMMA App == ASSUME NEW S, NEW s \\in Seq(S), NEW e \\in S
  PROVE /\\ Append(s, e) \\in Seq(S) /\\ DOMAIN Append(s, e) = 1..(Len(s)+1) /\\ DOMAIN s = 1..Len(s) /\\ Len(s) \\in Nat
        /\\ \\A i \\in 1..Len(s) : Append(s, e)[i] = s[i]
        /\\ Append(s, e)[Len(s)+1] = e /\\ Len(Append(s,e)) = Len(s)+1
  OBVIOUS
LEMMA HT == ASSUME NEW S, NEW s \\in Seq(S), s # <<>>
  PROVE /\\ Head(s) \\in S /\\ Head(s) = s[1] /\\ Tail(s) \\in Seq(S) /\\ Len(Tail(s)) = Len(s) - 1 /\\ Len(s) \\in Nat /\\ Len(s) >= 1
        /\\ DOMAIN Tail(s) = 1..(Len(s)-1) /\\ DOMAIN s = 1..Len(s)
        /\\ \\A i \\in 1..(Len(s)-1) : Tail(s)[i] = s[i+1]
  OBVIOUS
'''
HEADER = open('header.txt').read() if len(sys.argv)>1 and sys.argv[1]=='final' else '---------------------------- MODULE Pool_IndProof ----------------------------\n'
out=[HEADER+'''EXTENDS Pool_Inv, Pool_OpenProof, SequenceTheorems, TLAPS

\\* what Apalache gets from its type annotations, spelled out for the untyped logic of TLAPS
Msg2 == Int \\X Int
Msg3 == Int \\X Int \\X Int
FT_Conn == /\\ head \\in [Conns -> Nat] /\\ alive \\in [Conns -> BOOLEAN] /\\ rtt \\in [Conns -> Nat] /\\ clk \\in [Conns -> BOOLEAN]
           /\\ cpc \\in [Conns -> CPcs] /\\ cnew \\in [Conns -> Nat]
FT_Pool == /\\ updCh \\in Seq(Msg2)
           /\\ rw \\in [w : Procs, pend : Procs, r : SUBSET Procs]
           /\\ reg \\in [Waiters -> BOOLEAN] /\\ ch \\in [Waiters -> Seq(Msg3)]
FT_Wait == /\\ wpc \\in [Waiters -> WPcs]
           /\\ want \\in [Waiters -> Nat] /\\ tmo \\in [Waiters -> Nat] /\\ hread \\in [Waiters -> Nat]
           /\\ timer \\in [Waiters -> Nat] /\\ orig \\in [Waiters -> Nat] /\\ cancelled \\in [Waiters -> BOOLEAN]
           /\\ result \\in [Waiters -> Results] /\\ okby \\in [Waiters -> Msg3] /\\ rett \\in [Waiters -> Nat]
FT_Run  == rupd \\in Msg2
FT == FT_Conn /\\ FT_Pool /\\ FT_Wait /\\ FT_Run
PInv == FT /\\ IndInv
'''+helpers]
for name,params,act,defs in actions:
    news="".join(", NEW "+p for p in params)
    d=base_defs+", "+", ".join(defs)
    steps=[]
    n=0
    ftn=len(pieces_ft)
    ftrefs=", ".join(f"<1>{i}" for i in range(1,ftn+1))
    for pc in pieces_ft+pieces:
        n+=1
        pre = "" if n<=ftn else ftrefs+", "
        f=FOCUS.get((name,pc))
        if unaffected(name,pc):
            # none of the variables this piece mentions is changed by the action
            adef=[x for x in defs if not x.startswith("G_")]
            if name=="Tick": adef=["Tick"]
            steps.append(f"<1>{n}. {pc}'\n  BY SMT DEF PInv, FT, IndInv, TypeInv, LockInv, DataInv, {pc}, MsgOK, connVars, poolVars, waitVars, runVars, {', '.join(adef)}")
        elif f=="SEQ":
            steps.append(f"<1>{n}. {pc}'\n"+SEQ[(name,pc)])
        elif f:
            steps.append(f"<1>{n}. {pc}'\n  BY {pre}InfNat, SMT DEF {focus(*f)}, {', '.join(defs)}")
        else:
            steps.append(f"<1>{n}. {pc}'\n  BY {pre}InfNat, SMT DEF {d}")
    allrefs=", ".join(f"<1>{i}" for i in range(1,n+1))
    out.append(f"LEMMA P_{name} == ASSUME ParamOK, PInv{news}, {act} PROVE PInv'\n"+"\n".join(steps)+f"\n<1> QED\n  BY {allrefs} DEF PInv, FT, IndInv, TypeInv, LockInv, DataInv\n")
if len(sys.argv)>1 and sys.argv[1]=='final':
    out.append(open('footer.txt').read())
out.append('=============================================================================\n')
open('Pool_IndProof.tla','w').write("\n".join(out))
