import re
src=open('gen.py').read()
m=re.search(r'actions = \[(.*?)\n\]\n',src,flags=re.S)
actions=eval('['+m.group(1)+']')
focus="ParamOK, PInv, FT, FT_Conn, FT_Pool, FT_Wait, FT_Run, IndInv, TypeInv, LockInv, TI_Conn, TI_Pool, TI_Chan, TI_Run, LI_RW, LI_Run, LI_Wait, LI_Reg, LI_Clk, Procs, CPcs, RPcs, WPcs, WIn, WPend, Conns, WCap, connVars, poolVars, waitVars, runVars, Msg2, Msg3, ActGoals, ChanWriteDiscipline, WaitListDiscipline, ConnLockDiscipline"
out=['''---------------------------- MODULE Pool_ActProof ----------------------------
(* C13 wait list, TLAPS, arbitrary NC and Waiters: every step of the open       *)
(* environment taken from a state satisfying the inductive invariant obeys the *)
(* ACTION-level discipline ActGoals of Pool_Inv.tla: a waiter channel is       *)
(* written only by the run loop under the read lock (to a registered channel), *)
(* by the owner's subscribe under the write lock before registration, or read  *)
(* by its owner; the wait list changes only under the write lock;              *)
(* SetMasterHead does not hold the connection lock when it sends.              *)
EXTENDS Pool_IndProof
''']
SEQ={}
SEQ["RunSend"]='''<1> DEFINE e == <<rupd[2], rupd[1], best>>
<1>1. Len(<<e>>) = 1
  OBVIOUS
<1>2. /\\ ch' = [ch EXCEPT ![w] = <<e>>] /\\ reg' = reg /\\ updCh' = updCh
      /\\ rpc = "send" /\\ w \\in rtodo
  BY DEF RunSend, G_RunSend, ParamOK, connVars
<1> HIDE DEF e
<1> QED
  BY <1>1, <1>2, SMT DEF '''+focus
SEQ["WSubBody"]='''<1> DEFINE e == <<hread[w], best, best>>
<1>1. Len(<<e>>) = 1
  OBVIOUS
<1>2. /\\ ch' = IF hread[w] >= want[w] THEN [ch EXCEPT ![w] = <<e>>] ELSE ch
      /\\ reg' = IF hread[w] >= want[w] THEN reg ELSE [reg EXCEPT ![w] = TRUE]
      /\\ wpc[w] = "sub_rd" /\\ updCh' = updCh
  BY DEF WSubBody, G_WSubBody, connVars
<1> HIDE DEF e
<1> QED
  BY <1>1, <1>2, SMT DEF '''+focus
for name,params,act,defs in actions:
    news="".join(", NEW "+p for p in params)
    if name in SEQ:
        out.append(f"LEMMA A_{name} == ASSUME ParamOK, PInv{news}, {act} PROVE ActGoals\n"+SEQ[name]+"\n")
    elif name not in ("SmhSend","RunRecv","WRecv","WUnsubBody"):
        # the action changes none of ch, reg, updCh: nothing to show
        d=[x for x in defs if not x.startswith('G_')]
        if name=="Tick": d=["Tick"]
        out.append(f"LEMMA A_{name} == ASSUME ParamOK, PInv{news}, {act} PROVE ActGoals\n  BY SMT DEF ActGoals, ChanWriteDiscipline, WaitListDiscipline, ConnLockDiscipline, connVars, poolVars, waitVars, runVars, {', '.join(d)}\n")
    else:
        d=[x for x in defs if not x.startswith('G_') or x in ('G_SmhSend','G_WRecv','G_WUnsubBody','G_SmhSet','G_SmhLock')]
        if name=="Tick": d=["Tick"]
        out.append(f"LEMMA A_{name} == ASSUME ParamOK, PInv{news}, {act} PROVE ActGoals\n  BY InfNat, SMT DEF {focus}, {', '.join(d)}\n")
out.append('''THEOREM ActDiscipline == ASSUME ParamOK PROVE PInv /\\ GNext => ActGoals
<1> SUFFICES ASSUME PInv, GNext PROVE ActGoals
  OBVIOUS
<1>2. CASE \\E k \\in Conns : SmhSet(k) \\/ SmhSend(k)
  BY <1>2, A_SmhSet, A_SmhSend
<1>3. CASE RunRecv \\/ RunRLock \\/ RunRUnlock \\/ RunUpdAcq \\/ RunUpdBody
  BY <1>3, A_RunRecv, A_RunRLock, A_RunRUnlock, A_RunUpdAcq, A_RunUpdBody
<1>4. CASE \\E w \\in Waiters : \\/ RunSend(w) \\/ WSubAnn(w) \\/ WSubAcq(w) \\/ WSubRead(w) \\/ WSubBody(w) \\/ WRecv(w) \\/ WTimeout(w)
                              \\/ WCancelRet(w) \\/ WUnsubAnn(w) \\/ WUnsubAcq(w) \\/ WUnsubBody(w)
  BY <1>4, A_RunSend, A_WSubAnn, A_WSubAcq, A_WSubRead, A_WSubBody, A_WRecv, A_WTimeout, A_WCancelRet, A_WUnsubAnn, A_WUnsubAcq, A_WUnsubBody
<1>5. CASE \\E k \\in Conns : (\\E s \\in Nat : SmhLock(k, s)) \\/ Flip(k)
  BY <1>5, A_SmhLock, A_Flip
<1>6. CASE RunTick
  BY <1>6, A_RunTick
<1>7. CASE \\E w \\in Waiters : (\\E s \\in Nat : \\E t \\in Nat : WStart(w, s, t)) \\/ Cancel(w)
  BY <1>7, A_WStart, A_Cancel
<1>8. CASE Tick
  BY <1>8, A_Tick
<1> QED
  BY <1>2, <1>3, <1>4, <1>5, <1>6, <1>7, <1>8 DEF GNext, Internal, GEnv

THEOREM ActSafety == ASSUME ParamOK, Rtt0 \\in [Conns -> Nat] PROVE GSpec => [][ActGoals]_vars
<1>1. Init => PInv
  BY InitPInv
<1>2. PInv /\\ [GNext]_vars => PInv'
  BY StepPInv
<1>3. PInv /\\ GNext => ActGoals
  BY ActDiscipline
<1> QED
  BY <1>1, <1>2, <1>3, PTL DEF GSpec
=============================================================================
''')
open('Pool_ActProof.tla','w').write("\n".join(out))
