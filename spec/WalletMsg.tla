------------------------------ MODULE WalletMsg ------------------------------
(* C14: the signed bodies of wallet external messages, per wallet version,     *)
(* written from the wallet contracts' documented message formats (the FunC     *)
(* sources of wallet v3 / v4 / highload-v2 and the TL-B of wallet v5), from     *)
(* block.tlb (OutList, MessageRelaxed, Message, StateInit, HashmapE) - not     *)
(* from the Go code.                                                           *)
(*                                                                             *)
(*  v3        signature:bits512 subwallet_id:uint32 valid_until:uint32         *)
(*            seqno:uint32 (mode:uint8 ^msg)*                  at most 4       *)
(*  v4        signature subwallet_id valid_until seqno op:uint8 (= 0, simple   *)
(*            send) (mode:uint8 ^msg)*                         at most 4       *)
(*  highload  signature subwallet_id:uint32 query_id:uint64                    *)
(*            msgs:(HashmapE 16 (mode:uint8 ^msg))             at most 254     *)
(*            query_id = valid_until * 2^32 + r; the contract walks the keys   *)
(*            upwards from -1 (signed), i.e. keys 0..32767 in ascending order  *)
(*  v5 beta   opcode:uint32 wallet_id:(int32 int8 uint8 uint32) valid_until    *)
(*            seqno action_list_basic$0 actions:^(OutList n) signature:bits512 *)
(*                                                             at most 254     *)
(*  v5r1      opcode:uint32 wallet_id:uint32 valid_until seqno                 *)
(*            out_actions:(Maybe ^(OutList n)) has_other_actions:(## 1)        *)
(*            other_actions:(ActionList n m) signature:bits512 at most 255     *)
(*            action_list_extended$_ action:ExtendedAction prev:^(ActionList)  *)
(*            action_add_ext#02 addr:MsgAddressInt | action_delete_ext#03      *)
(*            addr:MsgAddressInt | action_set_signature_auth_allowed#04        *)
(*            allowed:(## 1).  With has_other_actions = 1 the FIRST extended   *)
(*            action is stored in place right after the flag (the contract     *)
(*            reads its 8-bit tag there); every further one in the single      *)
(*            extra reference of the cell holding the previous one; the last   *)
(*            cell of the chain has no reference.  v5 beta's library entry     *)
(*            points cannot request extended actions (flag always 0).          *)
(*  OutList   out_list_empty$_ = OutList 0                                     *)
(*            out_list$_ prev:^(OutList n) action:OutAction = OutList (n + 1)  *)
(*            action_send_msg#0ec3c86d mode:(## 8) out_msg:^(MessageRelaxed Any)*)
(*            The (n+1)-th action of a list is the one stored beside `prev`;   *)
(*            the actions of `prev` come BEFORE it (TVM appends to c5 this way *)
(*            and the action phase performs them oldest first).                *)
(*  Signature v3/v4/highload: Ed25519 over the representation hash of the      *)
(*            body cell without its first 512 bits (slice_hash after loading   *)
(*            the signature); v5: over the hash of the cell without its LAST   *)
(*            512 bits; references are kept in both cases.                     *)
(*                                                                             *)
(* Everything works on *slices* [b |-> bits, r |-> <<table indices>>] of a     *)
(* cell table T (Cells.tla), because a body may be stored in place in the      *)
(* external message or in a reference (Either X ^X).                           *)
EXTENDS Cells, TLC

WB == INSTANCE Bits WITH s <- <<>>, r <- 0, cap <- 0, nrefs <- 0, rr <- 0

Versions == {"V3R1", "V3R2", "V4R1", "V4R2", "V5Beta", "V5R1", "HighLoadV2R2"}
Family(v) == CASE v \in {"V3R1", "V3R2"} -> "v3"
               [] v \in {"V4R1", "V4R2"} -> "v4"
               [] v = "V5Beta"           -> "v5beta"
               [] v = "V5R1"             -> "v5r1"
               [] v = "HighLoadV2R2"     -> "highload"
MaxMsgs(v) == CASE Family(v) \in {"v3", "v4"}           -> 4
                [] Family(v) \in {"highload", "v5beta"} -> 254
                [] Family(v) = "v5r1"                   -> 255
IsV5(v)  == Family(v) \in {"v5beta", "v5r1"}

\* ----------------------------------------------------------------- numbers
ZeroBits(n) == [i \in 1..n |-> 0]
RECURSIVE NatOf(_)                       \* value of a short big-endian bit string (< 2^31)
NatOf(b) == IF Len(b) = 0 THEN 0 ELSE 2 * NatOf(SubSeq(b, 1, Len(b) - 1)) + b[Len(b)]
UDec(dec, w) == WB!UBits(dec, w)         \* unsigned decimal text -> w bits
SDec(dec, w) == WB!SBits(dec, w)         \* signed decimal text -> w bits two's complement
XorBits(a, b) == [i \in 1..Len(a) |-> (a[i] + b[i]) % 2]
BitsAt(b, p, n) == SubSeq(b, p + 1, p + n)                \* n bits after offset p
HexBits(h) == BytesToBits(HexToBytes(h))
Fail(why) == [ok |-> FALSE, why |-> why]
LongPad == ZeroBits(1400)                \* parsers read from bits \o LongPad and check the end position last

OpSignedExternal == HexBits("7369676e")  \* "sign"
OpSignedInternal == HexBits("73696e74")  \* "sint"
SendMsgTag       == HexBits("0ec3c86d")

\* --------------------------------------------------------------- wallet ids
\* opts = [wc |-> small integer, sub |-> decimal text or "default", net |-> decimal text or "default"]
DefaultSubWallet == 698983191            \* + workchain
MainnetGlobalId  == "-239"
NetBits(opts) == SDec(IF opts.net = "default" THEN MainnetGlobalId ELSE opts.net, 32)
WcBits(opts)  == SDec(ToString(opts.wc), 8)
WalletIdBits(v, opts) ==
  CASE Family(v) \in {"v3", "v4", "highload"} ->
         IF opts.sub = "default" THEN UDec(ToString(DefaultSubWallet + opts.wc), 32) ELSE UDec(opts.sub, 32)
    [] Family(v) = "v5beta" ->      \* network_global_id:int32 workchain:int8 wallet_version:uint8 subwallet_number:uint32
         NetBits(opts) \o WcBits(opts) \o ZeroBits(8) \o (IF opts.sub = "default" THEN ZeroBits(32) ELSE UDec(opts.sub, 32))
    [] Family(v) = "v5r1" ->        \* network_global_id XOR (1 workchain:int8 wallet_version:uint8 subwallet_number:uint15)
         XorBits(NetBits(opts), <<1>> \o WcBits(opts) \o ZeroBits(8) \o ZeroBits(15))

\* ------------------------------------------------------------------- slices
SliceOf(T, i) == [b |-> T[i].b, r |-> T[i].r]
EmptySlice(sl) == Len(sl.b) = 0 /\ Len(sl.r) = 0
\* the ordinary cell holding exactly the content of a slice, and its info given the infos I of the table
SliceCell(T, sl) == [b |-> sl.b, x |-> Ordinary, r |-> sl.r,
                     m |-> FoldLeft(LAMBDA a, k : OrM(a, T[k].m), 0, sl.r)]
SliceInfo(T, I, sl) == CellInfo(SliceCell(T, sl), [j \in 1..Len(sl.r) |-> I[sl.r[j]]])
SliceHash(T, I, sl) == ReprHash(SliceInfo(T, I, sl))

\* ------------------------------------------------------------------ OutList
\* the actions in list order (first action first): <<[mode |-> 0..255, c |-> index of out_msg]>>
RECURSIVE OutListOf(_, _, _)
OutListOf(T, i, fuel) ==
  LET c == T[i] IN
  IF c.x # Ordinary THEN Fail("outlist:exotic")
  ELSE IF Len(c.b) = 0 /\ Len(c.r) = 0 THEN [ok |-> TRUE, l |-> <<>>]
  ELSE IF fuel = 0 THEN Fail("outlist:too-long")
  ELSE IF Len(c.b) # 40 \/ Len(c.r) # 2 \/ SubSeq(c.b, 1, 32) # SendMsgTag THEN Fail("outlist:node")
  ELSE LET p == OutListOf(T, c.r[1], fuel - 1) IN
       IF ~p.ok THEN p
       ELSE [ok |-> TRUE, l |-> Append(p.l, [mode |-> NatOf(SubSeq(c.b, 33, 40)), c |-> c.r[2]])]

\* --------------------------------------------------------- HashmapE n (values)
\* hm_edge label:(HmLabel ~l n) node; hml_short$0 unary-len bits | hml_long$10 len:(#<= m) bits | hml_same$11 v len:(#<= m)
\* Any label form is accepted on any edge. Items come out in ascending (unsigned) key order.
RECURSIVE WidthOf(_)
WidthOf(m) == IF m = 0 THEN 0 ELSE 1 + WidthOf(m \div 2)          \* bits of #<= m
RECURSIVE LeadingOnes(_, _)
LeadingOnes(b, i) == IF i > Len(b) \/ b[i] = 0 THEN 0 ELSE 1 + LeadingOnes(b, i + 1)
HmLabelOf(bits, m) ==
  IF Len(bits) < 2 THEN Fail("label:short-cell")
  ELSE IF bits[1] = 0 THEN
    LET n == LeadingOnes(bits, 2) IN
    IF n > m \/ 2 + 2 * n > Len(bits) THEN Fail("label:short")
    ELSE [ok |-> TRUE, l |-> SubSeq(bits, 3 + n, 2 + 2 * n), used |-> 2 + 2 * n]
  ELSE IF bits[2] = 0 THEN
    LET w == WidthOf(m) IN
    IF 2 + w > Len(bits) THEN Fail("label:long")
    ELSE LET n == NatOf(SubSeq(bits, 3, 2 + w)) IN
         IF n > m \/ 2 + w + n > Len(bits) THEN Fail("label:long")
         ELSE [ok |-> TRUE, l |-> SubSeq(bits, 3 + w, 2 + w + n), used |-> 2 + w + n]
  ELSE
    LET w == WidthOf(m) IN
    IF 3 + w > Len(bits) THEN Fail("label:same")
    ELSE LET n == NatOf(SubSeq(bits, 4, 3 + w)) IN
         IF n > m THEN Fail("label:same")
         ELSE [ok |-> TRUE, l |-> [i \in 1..n |-> bits[3]], used |-> 3 + w]
RECURSIVE HmEdge(_, _, _, _)
HmEdge(T, i, n, prefix) ==
  LET c == T[i] IN
  IF c.x # Ordinary THEN Fail("dict:exotic")
  ELSE LET lb == HmLabelOf(c.b, n) IN
  IF ~lb.ok THEN lb
  ELSE LET m == n - Len(lb.l)  key == prefix \o lb.l IN
       IF m = 0 THEN [ok |-> TRUE, items |-> << [k |-> key, v |-> [b |-> SubSeq(c.b, lb.used + 1, Len(c.b)), r |-> c.r]] >>]
       ELSE IF Len(c.r) # 2 \/ lb.used # Len(c.b) THEN Fail("dict:fork")
       ELSE LET lft == HmEdge(T, c.r[1], m - 1, key \o <<0>>) IN
            IF ~lft.ok THEN lft
            ELSE LET rgt == HmEdge(T, c.r[2], m - 1, key \o <<1>>) IN
                 IF ~rgt.ok THEN rgt ELSE [ok |-> TRUE, items |-> lft.items \o rgt.items]

\* ------------------------------------------------- wallet v5 extended actions
\* one ExtendedAction at offset p of bits b: [ok, p (end offset), a]; a = [kind, wc (8 bits), addr (256 bits), allowed (0/1)]
\* (an extension address is a MsgAddressInt: addr_std$10 without anycast is the only form a request of this property has)
ExtActionAt(b, p) ==
  IF p + 8 > Len(b) THEN Fail("xact:tag")
  ELSE LET tag == BitsAt(b, p, 8) IN
  IF tag \in {HexBits("02"), HexBits("03")} THEN
    IF p + 275 > Len(b) \/ BitsAt(b, p + 8, 3) # <<1, 0, 0>> THEN Fail("xact:addr")
    ELSE [ok |-> TRUE, p |-> p + 275,
          a |-> [kind |-> IF tag = HexBits("02") THEN "add" ELSE "remove", wc |-> BitsAt(b, p + 11, 8), addr |-> BitsAt(b, p + 19, 256), allowed |-> 0]]
  ELSE IF tag = HexBits("04") THEN
    IF p + 9 > Len(b) THEN Fail("xact:flag")
    ELSE [ok |-> TRUE, p |-> p + 9, a |-> [kind |-> "sigauth", wc |-> <<>>, addr |-> <<>>, allowed |-> b[p + 9]]]
  ELSE Fail("xact:tag")
\* the actions after the first: the cell holds exactly one action and at most one reference (to the next)
RECURSIVE ExtChain(_, _, _)
ExtChain(T, i, fuel) ==
  LET c == T[i] IN
  IF c.x # Ordinary \/ fuel = 0 THEN Fail("xact:chain")
  ELSE LET a == ExtActionAt(c.b, 0) IN
  IF ~a.ok THEN a
  ELSE IF a.p # Len(c.b) \/ Len(c.r) > 1 THEN Fail("xact:cell")
  ELSE IF Len(c.r) = 0 THEN [ok |-> TRUE, l |-> <<a.a>>]
  ELSE LET rest == ExtChain(T, c.r[1], fuel - 1) IN
       IF ~rest.ok THEN rest ELSE [ok |-> TRUE, l |-> <<a.a>> \o rest.l]

\* -------------------------------------------------------------- Extract
\* Extract(v, T, sl): strict reading of a signed body of version v stored in slice sl.
\*   [ok, sig (512 bits), op (v5: 32 bits), wid (32 / 80 bits), vu (32 bits), seqno (32 bits | <<>>),
\*    qid (64 bits | <<>>), msgs (<<[mode, c]>> in sending order), ext (extended actions, the in-place one first)]
\* Any deviation from the prescribed bits and references (trailing bits, missing / extra references,
\* wrong tags, flags that announce data which is not requested) gives [ok |-> FALSE, why].
NoBits == <<>>
ModesAndRefs(b, from, refs) == [i \in 1..Len(refs) |-> [mode |-> NatOf(BitsAt(b, from + 8 * (i - 1), 8)), c |-> refs[i]]]
Extract(v, T, sl) ==
  LET f == Family(v)  b == sl.b  n == Len(b)  nr == Len(sl.r) IN
  CASE f = "v3" ->
         IF n # 608 + 8 * nr THEN Fail("v3:shape")
         ELSE [ok |-> TRUE, sig |-> BitsAt(b, 0, 512), op |-> NoBits, wid |-> BitsAt(b, 512, 32), vu |-> BitsAt(b, 544, 32),
               seqno |-> BitsAt(b, 576, 32), qid |-> NoBits, msgs |-> ModesAndRefs(b, 608, sl.r), ext |-> <<>>]
    [] f = "v4" ->
         IF n # 616 + 8 * nr THEN Fail("v4:shape")
         ELSE IF BitsAt(b, 608, 8) # ZeroBits(8) THEN Fail("v4:op")
         ELSE [ok |-> TRUE, sig |-> BitsAt(b, 0, 512), op |-> NoBits, wid |-> BitsAt(b, 512, 32), vu |-> BitsAt(b, 544, 32),
               seqno |-> BitsAt(b, 576, 32), qid |-> NoBits, msgs |-> ModesAndRefs(b, 616, sl.r), ext |-> <<>>]
    [] f = "highload" ->
         IF n # 609 THEN Fail("highload:shape")
         ELSE LET base == [ok |-> TRUE, sig |-> BitsAt(b, 0, 512), op |-> NoBits, wid |-> BitsAt(b, 512, 32),
                           vu |-> BitsAt(b, 544, 32), seqno |-> NoBits, qid |-> BitsAt(b, 544, 64), ext |-> <<>>] IN
              IF b[609] = 0 THEN (IF nr # 0 THEN Fail("highload:empty-dict-with-ref") ELSE base @@ [msgs |-> <<>>])
              ELSE IF nr # 1 THEN Fail("highload:dict-ref")
              ELSE LET d == HmEdge(T, sl.r[1], 16, <<>>) IN
                   IF ~d.ok THEN Fail("highload:dict")
                   ELSE IF \E i \in 1..Len(d.items) : Len(d.items[i].v.b) # 8 \/ Len(d.items[i].v.r) # 1 THEN Fail("highload:value")
                   ELSE IF \E i \in 1..Len(d.items) : d.items[i].k[1] = 1 THEN Fail("highload:key>=2^15")   \* never reached by the upward walk from -1
                   ELSE base @@ [msgs |-> [i \in 1..Len(d.items) |-> [mode |-> NatOf(d.items[i].v.b), c |-> d.items[i].v.r[1]]]]
    [] f = "v5beta" ->
         IF n # 689 \/ nr # 1 THEN Fail("v5beta:shape")
         ELSE IF b[177] # 0 THEN Fail("v5beta:extended-actions")
         ELSE LET ol == OutListOf(T, sl.r[1], 256) IN
              IF ~ol.ok THEN ol
              ELSE [ok |-> TRUE, sig |-> BitsAt(b, 177, 512), op |-> BitsAt(b, 0, 32), wid |-> BitsAt(b, 32, 80), vu |-> BitsAt(b, 112, 32),
                    seqno |-> BitsAt(b, 144, 32), qid |-> NoBits, msgs |-> ol.l, ext |-> <<>>]
    [] f = "v5r1" ->
         IF n < 642 THEN Fail("v5r1:shape")
         ELSE LET hasOut == b[129] = 1
                  hasX   == b[130] = 1
                  first  == IF hasX THEN ExtActionAt(SubSeq(b, 1, n - 512), 130) ELSE [ok |-> TRUE, p |-> 130]
                  nout   == IF hasOut THEN 1 ELSE 0
              IN IF ~first.ok THEN first
              ELSE IF first.p + 512 # n THEN Fail("v5r1:shape")                      \* nothing between the action and the signature
              ELSE IF nr - nout \notin {0, 1} \/ (nr - nout = 1 /\ ~hasX) THEN Fail("v5r1:refs")
              ELSE LET rest == IF nr - nout = 1 THEN ExtChain(T, sl.r[nr], 255) ELSE [ok |-> TRUE, l |-> <<>>]
                       ol   == IF hasOut THEN OutListOf(T, sl.r[1], 256) ELSE [ok |-> TRUE, l |-> <<>>] IN
                   IF ~rest.ok THEN rest
                   ELSE IF ~ol.ok THEN ol
                   ELSE [ok |-> TRUE, sig |-> BitsAt(b, n - 512, 512), op |-> BitsAt(b, 0, 32), wid |-> BitsAt(b, 32, 32),
                         vu |-> BitsAt(b, 64, 32), seqno |-> BitsAt(b, 96, 32), qid |-> NoBits, msgs |-> ol.l,
                         ext |-> (IF hasX THEN <<first.a>> ELSE <<>>) \o rest.l]

\* ------------------------------------------------------------ signed part
HasSignature(sl) == Len(sl.b) >= 512
\* the slice whose cell hash is signed, and the signature bits
SignedSlice(v, sl) == IF IsV5(v) THEN [b |-> SubSeq(sl.b, 1, Len(sl.b) - 512), r |-> sl.r]
                      ELSE [b |-> SubSeq(sl.b, 513, Len(sl.b)), r |-> sl.r]
SignatureBits(v, sl) == IF IsV5(v) THEN SubSeq(sl.b, Len(sl.b) - 511, Len(sl.b)) ELSE SubSeq(sl.b, 1, 512)
\* SignedPart(v, T): the cell table that is hashed for the signature when the body is the root (row 1) of T
SignedPart(v, T) == [T EXCEPT ![1] = SliceCell(T, SignedSlice(v, SliceOf(T, 1)))]
SignedHash(v, T, I, sl) == SliceHash(T, I, SignedSlice(v, sl))
Verifies(v, T, I, sl, pub) == HasSignature(sl) /\ EdVerify(pub, SignedHash(v, T, I, sl), BitsToBytes(SignatureBits(v, sl)))

\* params = [wid (bits), vu (decimal), seqno (decimal), op (bits, v5), msgs (<<[mode, h (32-byte hash)]>>), ext (<<extended actions>>)]
\* BodyLayoutOK: the body has exactly the prescribed bits and references for these parameters. Free: the signature
\* bits, the low 32 bits of a highload query id, dictionary label forms and keys, `nothing` vs an empty list in v5r1.
MsgsOf(I, ex) == [i \in 1..Len(ex.msgs) |-> [mode |-> ex.msgs[i].mode, h |-> ReprHash(I[ex.msgs[i].c])]]
LayoutOK(v, T, I, sl, params) ==
  LET ex == Extract(v, T, sl) IN
  /\ ex.ok
  /\ ex.wid = params.wid
  /\ ex.vu = UDec(params.vu, 32)
  /\ (Family(v) # "highload" => ex.seqno = UDec(params.seqno, 32))
  /\ (IsV5(v) => ex.op = params.op)
  /\ Len(ex.msgs) <= MaxMsgs(v)
  /\ MsgsOf(I, ex) = params.msgs
  /\ ex.ext = params.ext
BodyLayoutOK(v, T, params) == LayoutOK(v, T, InfoTable(T), SliceOf(T, 1), params)

\* info of every cell of T2, where T2 differs from T (infos I) only in row idx: only ancestors of idx are re-hashed
ReInfo(T2, I, idx) ==
  LET acc0 == [d |-> {}, inf |-> I]
      res == FoldLeft(LAMBDA acc, k :
                 LET i == idx - k + 1 IN                                    \* idx, idx-1, .., 1
                 IF i = idx \/ \E j \in 1..Len(T2[i].r) : T2[i].r[j] \in acc.d
                   THEN [d |-> acc.d \cup {i},
                         inf |-> [acc.inf EXCEPT ![i] = CellInfo(T2[i], [j \in 1..Len(T2[i].r) |-> acc.inf[T2[i].r[j]]])]]
                   ELSE acc,
              acc0, [k \in 1..idx |-> k])
  IN res.inf
FlipBit(T, idx, bit) == [T EXCEPT ![idx].b[bit] = 1 - @]

\* ------------------------------------------- block.tlb: StateInit, Message
\* _ split_depth:(Maybe (## 5)) special:(Maybe TickTock) code:(Maybe ^Cell) data:(Maybe ^Cell) library:(Maybe ^Cell) = StateInit
\* read at bit offset p / reference offset q of (bp, refs); bp is padded
StateInitAt(bp, refs, p, q) ==
  LET sd == bp[p + 1]
      p1 == p + 1 + 5 * sd
      sp == bp[p1 + 1]
      p2 == p1 + 1 + 2 * sp
      hc == bp[p2 + 1]  hd == bp[p2 + 2]  hl == bp[p2 + 3]
  IN [p |-> p2 + 3, q |-> q + hc + hd + hl, plain |-> sd = 0 /\ sp = 0 /\ hl = 0, hasCode |-> hc = 1, hasData |-> hd = 1,
      code |-> IF hc = 1 /\ q + 1 <= Len(refs) THEN refs[q + 1] ELSE 0,
      data |-> IF hd = 1 /\ q + hc + 1 <= Len(refs) THEN refs[q + hc + 1] ELSE 0]
NoInit == [present |-> FALSE]
\* init:(Maybe (Either StateInit ^StateInit)) at (p, q) of cell c
InitAt(T, c, bp, p, q) ==
  IF bp[p + 1] = 0 THEN [ok |-> TRUE, p |-> p + 1, q |-> q, init |-> NoInit]
  ELSE IF bp[p + 2] = 0 THEN
    LET si == StateInitAt(bp, c.r, p + 2, q) IN
    [ok |-> si.q <= Len(c.r), p |-> si.p, q |-> si.q, init |-> [present |-> TRUE, plain |-> si.plain, hasCode |-> si.hasCode,
                                                              hasData |-> si.hasData, code |-> si.code, data |-> si.data]]
  ELSE IF q + 1 > Len(c.r) THEN [ok |-> FALSE]
  ELSE LET k == c.r[q + 1]
           si == StateInitAt(T[k].b \o LongPad, T[k].r, 0, 0) IN
       [ok |-> T[k].x = Ordinary /\ si.p = Len(T[k].b) /\ si.q = Len(T[k].r), p |-> p + 2, q |-> q + 1,
        init |-> [present |-> TRUE, plain |-> si.plain, hasCode |-> si.hasCode, hasData |-> si.hasData, code |-> si.code, data |-> si.data]]
\* body:(Either X ^X) at (p, q): the slice holding X
BodyAt(T, c, bp, p, q) ==
  IF p + 1 > Len(c.b) THEN Fail("body:either")
  ELSE IF bp[p + 1] = 0 THEN [ok |-> TRUE, inplace |-> TRUE, sl |-> [b |-> SubSeq(c.b, p + 2, Len(c.b)), r |-> SubSeq(c.r, q + 1, Len(c.r))]]
  ELSE IF p + 1 # Len(c.b) \/ q + 1 # Len(c.r) THEN Fail("body:ref-not-last")
  ELSE IF T[c.r[q + 1]].x # Ordinary THEN Fail("body:exotic")
  ELSE [ok |-> TRUE, inplace |-> FALSE, sl |-> SliceOf(T, c.r[q + 1])]

\* addr_none$00 | addr_extern$01 len:(## 9) bits | addr_std$10 anycast:(Maybe Anycast) workchain_id:int8 address:bits256
\* (anycast and addr_var are not produced by any request of this property: reported as unsupported)
AddrAt(bp, p) ==
  LET t == BitsAt(bp, p, 2) IN
  CASE t = <<0, 0>> -> [ok |-> TRUE, kind |-> "none", p |-> p + 2]
    [] t = <<0, 1>> -> [ok |-> TRUE, kind |-> "extern", p |-> p + 11 + NatOf(BitsAt(bp, p + 2, 9))]
    [] t = <<1, 0>> -> IF bp[p + 3] = 1 THEN Fail("addr:anycast")
                       ELSE [ok |-> TRUE, kind |-> "std", wc |-> BitsAt(bp, p + 3, 8), addr |-> BitsAt(bp, p + 11, 256), p |-> p + 267]
    [] OTHER -> Fail("addr:var")
\* nanograms$_ amount:(VarUInteger 16): len:(#< 16) value:(uint (len * 8))
GramsAt(bp, p) == LET n == NatOf(BitsAt(bp, p, 4)) IN [v |-> BitsAt(bp, p + 4, 8 * n), p |-> p + 4 + 8 * n]
StripZeros(b) == LET nz == {i \in 1..Len(b) : b[i] = 1} IN
                 IF nz = {} THEN <<>> ELSE SubSeq(b, CHOOSE i \in nz : \A j \in nz : i <= j, Len(b))

\* ext_in_msg_info$10 src:MsgAddressExt dest:MsgAddressInt import_fee:Grams, then init and body
ExtMessage(T, i) ==
  LET c == T[i]  bp == c.b \o LongPad IN
  IF c.x # Ordinary \/ BitsAt(bp, 0, 2) # <<1, 0>> THEN Fail("ext:tag")
  ELSE LET src == AddrAt(bp, 2) IN
  IF ~src.ok \/ src.kind \notin {"none", "extern"} THEN Fail("ext:src")
  ELSE LET dst == AddrAt(bp, src.p) IN
  IF ~dst.ok \/ dst.kind # "std" THEN Fail("ext:dest")
  ELSE LET fee == GramsAt(bp, dst.p)
           ini == InitAt(T, c, bp, fee.p, 0) IN
  IF ~ini.ok \/ ini.p > Len(c.b) THEN Fail("ext:init")
  ELSE LET bd == BodyAt(T, c, bp, ini.p, ini.q) IN
  IF ~bd.ok THEN bd
  ELSE [ok |-> TRUE, srcNone |-> src.kind = "none", wc |-> dst.wc, addr |-> dst.addr, fee |-> fee.v, init |-> ini.init,
        body |-> bd.sl, inplace |-> bd.inplace]

\* int_msg_info$0 ihr_disabled:Bool bounce:Bool bounced:Bool src:MsgAddress dest:MsgAddressInt value:CurrencyCollection
\*   ihr_fee:Grams fwd_fee:Grams created_lt:uint64 created_at:uint32 ; currencies$_ grams:Grams other:(HashmapE 32 ..)
IntMessage(T, i) ==
  LET c == T[i]  bp == c.b \o LongPad IN
  IF c.x # Ordinary \/ bp[1] # 0 THEN Fail("int:tag")
  ELSE LET src == AddrAt(bp, 4) IN
  IF ~src.ok THEN Fail("int:src")
  ELSE LET dst == AddrAt(bp, src.p) IN
  IF ~dst.ok \/ dst.kind # "std" THEN Fail("int:dest")
  ELSE LET val == GramsAt(bp, dst.p)
           other == bp[val.p + 1]
           ihr == GramsAt(bp, val.p + 1)
           fwd == GramsAt(bp, ihr.p)
           ini == InitAt(T, c, bp, fwd.p + 96, other) IN
  IF ~ini.ok \/ ini.p > Len(c.b) THEN Fail("int:init")
  ELSE LET bd == BodyAt(T, c, bp, ini.p, ini.q) IN
  IF ~bd.ok THEN bd
  ELSE [ok |-> TRUE, ihrDisabled |-> bp[2] = 1, bounce |-> bp[3] = 1, bounced |-> bp[4] = 1, srcNone |-> src.kind = "none",
        wc |-> dst.wc, addr |-> dst.addr, amount |-> StripZeros(val.v), extra |-> other = 1,
        init |-> ini.init, body |-> bd.sl]

\* Snake data: the bits of the slice followed by the bits of the chain through the single reference of each cell
RECURSIVE SnakeBits(_, _, _)
SnakeBits(T, sl, fuel) ==
  IF Len(sl.r) = 0 THEN [ok |-> TRUE, b |-> sl.b]
  ELSE IF Len(sl.r) > 1 \/ fuel = 0 \/ T[sl.r[1]].x # Ordinary THEN Fail("snake")
  ELSE LET rest == SnakeBits(T, SliceOf(T, sl.r[1]), fuel - 1) IN
       IF ~rest.ok THEN rest ELSE [ok |-> TRUE, b |-> sl.b \o rest.b]
\* "simple message with comment": op = 0 (32 bits) followed by the text, continued in snake format
CommentOf(T, sl) ==
  LET sn == SnakeBits(T, sl, 64) IN
  IF ~sn.ok THEN sn
  ELSE IF Len(sn.b) < 32 \/ SubSeq(sn.b, 1, 32) # ZeroBits(32) \/ (Len(sn.b) - 32) % 8 # 0 THEN Fail("comment:shape")
  ELSE [ok |-> TRUE, text |-> BitsToBytes(SubSeq(sn.b, 33, Len(sn.b)))]
\* hash of the StateInit cell with only code and data (the address of a deployed contract)
PlainStateInitHash(codeInfo, dataInfo) ==
  ReprHash(CellInfo([b |-> <<0, 0, 1, 1, 0>>, x |-> Ordinary, m |-> 0, r |-> <<1, 2>>], <<codeInfo, dataInfo>>))
=============================================================================
