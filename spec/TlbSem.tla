------------------------------- MODULE TlbSem -------------------------------
(* A TL-B interpreter: Enc(S, ty, v) is the cell a value v of type ty must be   *)
(* serialised to under schema S, as the TL-B language defines it:               *)
(*   uintN / intN   big-endian, N bits, two's complement for intN               *)
(*   bitsN          N bits as given                                             *)
(*   Bool           one bit                                                     *)
(*   (#<= n)        big-endian in BitLen(n) bits;  (#< n): BitLen(n-1) bits     *)
(*   Unary          v ones, then a zero                                         *)
(*   VarUInteger n  len:(#< n) value:(uint (len*8)), len minimal                *)
(*   Maybe T        0 | 1 T          Either L R   0 L | 1 R                     *)
(*   ^T             a reference to a new cell holding T                         *)
(*   constructors   tag bits ($binary or #hex) then the fields in order         *)
(*   HashmapE n T   0 | 1 ^(Hashmap n T)  (only the empty map has a unique form)*)
(*   Cell / Any     a given cell: referenced (^Cell) or appended inline (Any)   *)
(* Types are AST records (tools/tlb2json.py output or the reflection extractor  *)
(* of the harness), values are JSON-shaped: decimal strings for numbers, "0101" *)
(* for bits, TRUE/FALSE, [has, v] for Maybe, [right, v] for Either, [c, v] for  *)
(* sums, tuples for field sequences (positional), nested [b, x, r] for cells.   *)
(* Cells under construction are trees  [b |-> bits, x |-> type, r |-> <<trees>>]*)
EXTENDS BitOps, TLC

EmptyCell == [b |-> <<>>, x |-> 0, r |-> <<>>]
Fail(e)   == [ok |-> FALSE, err |-> e]
Good(c)   == [ok |-> TRUE, c |-> c]

\* tag "$0110", "#7ff", "$_", "#_" or "" -> bits
HexDigitBits(ch) == LET i == CHOOSE k \in 0..15 : SubStr("0123456789abcdef", k + 1, k + 1) = ch
                    IN <<(i \div 8) % 2, (i \div 4) % 2, (i \div 2) % 2, i % 2>>
RECURSIVE HexBits(_)
HexBits(s) == IF StrLen(s) = 0 THEN <<>> ELSE HexDigitBits(SubStr(s, 1, 1)) \o HexBits(SubStr(s, 2, StrLen(s)))
TagBits(tag) == IF StrLen(tag) <= 1 THEN <<>>
                ELSE LET body == SubStr(tag, 2, StrLen(tag)) IN
                     IF body = "_" THEN <<>>
                     ELSE IF SubStr(tag, 1, 1) = "$" THEN StrToBits(body) ELSE HexBits(body)

\* JSON cell tree {"b":"0101","x":0,"r":[...]} -> tree
RECURSIVE TreeOfJson(_)
TreeOfJson(j) == [b |-> StrToBits(j.b), x |-> j.x, r |-> [i \in 1..Len(j.r) |-> TreeOfJson(j.r[i])]]

AppendBits(cur, bits) == IF Len(cur.b) + Len(bits) > 1023 THEN Fail("cell overflow: bits") ELSE Good([cur EXCEPT !.b = cur.b \o bits])
AddRef(cur, t)        == IF Len(cur.r) >= 4 THEN Fail("cell overflow: refs") ELSE Good([cur EXCEPT !.r = Append(cur.r, t)])

MinBytes(dec) == (Len(Mag(dec)) + 7) \div 8

\* width of a field that depends on an earlier field of the same constructor: env maps field names to values
EnvGet(env, name) == LET ix == {i \in 1..Len(env) : env[i][1] = name} IN env[CHOOSE i \in ix : TRUE][2]
RECURSIVE DecToNat(_)
DecToNat(d) == IF StrLen(d) = 0 THEN 0 ELSE 10 * DecToNat(SubStr(d, 1, StrLen(d) - 1)) +
                 (CHOOSE k \in 0..9 : SubStr("0123456789", k + 1, k + 1) = SubStr(d, StrLen(d), StrLen(d)))

\* Conditional fields  name:(f . k)?T / name:f?T  and types parametrised by a number  (T f) / (T 3)  look an earlier field up.
\* env entries are <<name, value>> or <<name, value, kind of the field's type>>; the LAST entry of a name counts.
EnvLast(env, name) == LET ix == {i \in 1..Len(env) : env[i][1] = name} IN env[CHOOSE i \in ix : \A j \in ix : j <= i]
EnvNat(env, name)  == LET e == EnvLast(env, name) IN
                      IF Len(e) >= 3 /\ e[3] = "bool" THEN (IF e[2] THEN 1 ELSE 0) ELSE DecToNat(e[2])
CondHolds(env, ty) == LET x == EnvNat(env, ty.from) IN IF ty.bit < 0 THEN x # 0 ELSE (x \div (2 ^ ty.bit)) % 2 = 1
IsDigits(s) == StrLen(s) >= 1 /\ \E k \in 0..9 : SubStr("0123456789", k + 1, k + 1) = SubStr(s, 1, 1)
ParamOf(env, arg) == IF IsDigits(arg) THEN DecToNat(arg) ELSE EnvNat(env, arg)

\* Enc: append the encoding of v : ty to the cell under construction.
RECURSIVE EncT(_, _, _, _, _)
EncT(S, ty, v, cur, env) ==
  CASE ty.t = "uint"  -> IF UFits(v, ty.n) THEN AppendBits(cur, UBits(v, ty.n)) ELSE Fail("uint out of range")
    [] ty.t = "int"   -> IF ty.n >= 1 /\ SFits(v, ty.n) THEN AppendBits(cur, SBits(v, ty.n)) ELSE Fail("int out of range")
    [] ty.t = "bits"  -> IF StrLen(v) = ty.n THEN AppendBits(cur, StrToBits(v)) ELSE Fail("bits length")
    [] ty.t = "bitsdep" -> IF StrLen(v) = DecToNat(EnvGet(env, ty.from)) THEN AppendBits(cur, StrToBits(v)) ELSE Fail("dependent bits length")
    [] ty.t = "bitstring" -> AppendBits(cur, StrToBits(v))
    [] ty.t = "bool"  -> AppendBits(cur, <<IF v THEN 1 ELSE 0>>)
    [] ty.t = "natle" -> IF UFits(v, BitLen(ty.n)) THEN AppendBits(cur, UBits(v, BitLen(ty.n))) ELSE Fail("#<= out of range")
    [] ty.t = "natlt" -> IF UFits(v, BitLen(ty.n - 1)) THEN AppendBits(cur, UBits(v, BitLen(ty.n - 1))) ELSE Fail("#< out of range")
    [] ty.t = "unary" -> AppendBits(cur, UnaryBits(DecToNat(v)))
    [] ty.t = "varuint" ->
         LET len == MinBytes(v) IN
         IF IsNeg(v) \/ len > ty.n - 1 THEN Fail("VarUInteger out of range")
         ELSE AppendBits(cur, UBits(ToString(len), BitLen(ty.n - 1)) \o UBits(v, 8 * len))
    [] ty.t = "magic" -> AppendBits(cur, TagBits(ty.tag))
    [] ty.t = "maybe" ->
         IF ~v.has THEN AppendBits(cur, <<0>>)
         ELSE LET a == AppendBits(cur, <<1>>) IN IF ~a.ok THEN a ELSE EncT(S, ty.of, v.v, a.c, env)
    [] ty.t = "either" ->
         LET a == AppendBits(cur, <<IF v.right THEN 1 ELSE 0>>) IN
         IF ~a.ok THEN a ELSE EncT(S, IF v.right THEN ty.r ELSE ty.l, v.v, a.c, env)
    [] ty.t = "ref" ->
         LET sub == EncT(S, ty.of, v, EmptyCell, env) IN       \* the fields of the constructor stay visible inside ^[ ... ] / ^(T f)
         IF ~sub.ok THEN sub ELSE AddRef(cur, sub.c)
    [] ty.t = "cell" -> Good(TreeOfJson(v))              \* only meaningful directly under "ref": the referenced cell IS v
    [] ty.t = "any" ->
         LET t == TreeOfJson(v)
             a == AppendBits(cur, t.b)
         IN IF ~a.ok THEN a
            ELSE IF Len(a.c.r) + Len(t.r) > 4 THEN Fail("cell overflow: refs")
            ELSE Good([a.c EXCEPT !.r = a.c.r \o t.r])
    [] ty.t = "seq" ->
         IF Len(v) # Len(ty.fields) THEN Fail("field count")
         ELSE LET R == FoldLeft(LAMBDA acc, i :
                           IF ~acc.res.ok THEN acc
                           ELSE [res |-> EncT(S, ty.fields[i].ty, v[i], acc.res.c, acc.env),
                                 env |-> Append(acc.env, <<ty.fields[i].name, v[i], ty.fields[i].ty.t>>)],
                         [res |-> Good(cur), env |-> <<>>], [i \in 1..Len(v) |-> i])
              IN R.res
    [] ty.t = "sum" ->
         LET ix == {i \in 1..Len(ty.ctors) : ty.ctors[i].name = v.c} IN
         IF ix = {} THEN Fail("unknown constructor")
         ELSE LET k == ty.ctors[CHOOSE i \in ix : TRUE]
                  a == AppendBits(cur, TagBits(k.tag))
              IN IF ~a.ok THEN a ELSE EncT(S, k.body, v.v, a.c, <<>>)
    [] ty.t = "dict" -> IF Len(v) = 0 THEN AppendBits(cur, <<0>>) ELSE Fail("non-empty dictionary: encoding not unique")
    [] ty.t = "named" -> EncT(S, S[ty.name], v, cur, env)
    [] ty.t = "cond" ->                                      \* name:cond?T: present exactly when the condition on the earlier field holds
         LET present == CondHolds(env, ty) IN
         IF v.has # present THEN Fail("conditional field: presence contradicts its condition")
         ELSE IF present THEN EncT(S, ty.of, v.v, cur, env) ELSE Good(cur)
    [] ty.t = "pnamed" ->                                    \* (T x): the constructors declared for parameter value x
         LET p  == ParamOf(env, ty.arg)
             cs == S[ty.name].ctors
             ix == {i \in 1..Len(cs) : cs[i].param = p /\ cs[i].name = v.c} IN
         IF ix = {} THEN Fail("no such constructor for this parameter")
         ELSE LET k == cs[CHOOSE i \in ix : TRUE]
                  a == AppendBits(cur, TagBits(k.tag))
              IN IF ~a.ok THEN a ELSE EncT(S, k.body, v.v, a.c, <<>>)
    [] OTHER -> Fail("unsupported type node")

\* Enc of a whole value into a fresh cell
Enc(S, ty, v) == EncT(S, ty, v, EmptyCell, <<>>)

\* Is the encoding of v unique (no dictionary labels inside)?  Enc fails exactly on the non-unique parts.
Unique(S, ty, v) == Enc(S, ty, v).ok

\* canonical text of a tree (same format as Boc!TreeStr, which works on tables)
RECURSIVE TreeText(_)
TreeText(t) == LET kids == FoldLeft(LAMBDA a, k : StrCat(StrCat(a, TreeText(k)), ","), "", t.r)
               IN StrCat(StrCat(StrCat(StrCat(StrCat(ToString(t.x), "{"), BitsToStr(t.b)), "["), kids), "]}")
=============================================================================
