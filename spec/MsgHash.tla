------------------------------ MODULE MsgHash ------------------------------
(* C16: identity hashes of messages and transactions.                         *)
(*                                                                             *)
(* Written from block.tlb (Message, CommonMsgInfo, MsgAddress, Anycast, Grams, *)
(* StateInit, Transaction, Hashmap) and from TEP-467 "Normalized Message Hash":*)
(*   the identity of a message / transaction is the representation hash of the *)
(*   cell that carries it (Cells!ReprHash);                                    *)
(*   the normalised hash of an external-in message is the representation hash  *)
(*   of the message re-encoded with   src = addr_none$00,  import_fee = 0,     *)
(*   init = nothing$0,  body = right$1 ^body   and the destination kept.       *)
(*                                                                             *)
(* Everything is derived from a *cell table* (Cells.tla): the header decoder    *)
(* below locates kind, destination and body in the source cell itself, the     *)
(* canonical cell is laid out bit by bit here and hashed with Cells!InfoTable. *)
(*                                                                             *)
(* Anycast.  TEP-467 lists four rules (src, import_fee, init, body) and its    *)
(* reference code works on an address type that cannot hold an anycast prefix; *)
(* the library documents (its own test) that it clears the anycast of an       *)
(* addr_std destination.  The canonical form here is the anycast-free one      *)
(* (NormHash); for a destination that carries an anycast the verbatim          *)
(* destination (NormHashVerbatim) is admitted as well -- the statement of C16  *)
(* ("depends only on destination and body") does not choose between them.      *)
EXTENDS Boc
BitsM == INSTANCE Bits WITH s <- <<>>, r <- 0, cap <- 0, nrefs <- 0, rr <- 0

\* ------------------------------------------------------------------ reading
RECURSIVE BitsNat(_)                                   \* value of a short (<= 30 bits) big-endian bit string
BitsNat(b) == IF Len(b) = 0 THEN 0 ELSE 2 * BitsNat(SubSeq(b, 1, Len(b) - 1)) + b[Len(b)]
HasBits(c, p, n) == p + n <= Len(c.b)                   \* n more bits after the first p
Seg(c, p, n)     == SubSeq(c.b, p + 1, p + n)
NoParse          == [ok |-> FALSE]
RECURSIVE WidthOf(_)                                   \* bits of (#<= m):  smallest w with m < 2^w
WidthOf(m) == IF m = 0 THEN 0 ELSE 1 + WidthOf(m \div 2)
RECURSIVE OnesFrom(_, _)                               \* consecutive 1s from position i (1-based) up to a 0; -1 if none follows
OnesFrom(b, i) == IF i > Len(b) THEN -1 ELSE IF b[i] = 0 THEN 0
                  ELSE LET k == OnesFrom(b, i + 1) IN IF k < 0 THEN -1 ELSE k + 1

\* anycast:(Maybe Anycast)   anycast_info$_ depth:(#<= 30) { depth >= 1 } rewrite_pfx:(bits depth) = Anycast
MaybeAnycastAt(c, p) ==
  IF ~HasBits(c, p, 1) THEN NoParse
  ELSE IF c.b[p + 1] = 0 THEN [ok |-> TRUE, p |-> p + 1, d |-> 0, pfx |-> <<>>]
  ELSE IF ~HasBits(c, p + 1, 5) THEN NoParse
  ELSE LET d == BitsNat(Seg(c, p + 1, 5)) IN
       IF d < 1 \/ d > 30 \/ ~HasBits(c, p + 6, d) THEN NoParse
       ELSE [ok |-> TRUE, p |-> p + 6 + d, d |-> d, pfx |-> Seg(c, p + 6, d)]

\* addr_none$00 | addr_extern$01 len:(## 9) external_address:(bits len)                      = MsgAddressExt
\* addr_std$10 anycast:(Maybe Anycast) workchain_id:int8 address:bits256
\* addr_var$11 anycast:(Maybe Anycast) addr_len:(## 9) workchain_id:int32 address:(bits addr_len) = MsgAddressInt
AddrAt(c, p) ==
  IF ~HasBits(c, p, 2) THEN NoParse
  ELSE LET t == Seg(c, p, 2) IN
    CASE t = <<0, 0>> -> [ok |-> TRUE, p |-> p + 2, kind |-> "none"]
      [] t = <<0, 1>> ->
           IF ~HasBits(c, p + 2, 9) THEN NoParse
           ELSE LET n == BitsNat(Seg(c, p + 2, 9)) IN
                IF ~HasBits(c, p + 11, n) THEN NoParse
                ELSE [ok |-> TRUE, p |-> p + 11 + n, kind |-> "extern", ext |-> Seg(c, p + 11, n)]
      [] t = <<1, 0>> ->
           LET a == MaybeAnycastAt(c, p + 2) IN
           IF ~a.ok THEN NoParse
           ELSE IF ~HasBits(c, a.p, 264) THEN NoParse
           ELSE [ok |-> TRUE, p |-> a.p + 264, kind |-> "std", any |-> [d |-> a.d, pfx |-> a.pfx],
                 wc |-> BitsM!SDec(Seg(c, a.p, 8)), addr |-> Seg(c, a.p + 8, 256)]
      [] t = <<1, 1>> ->
           LET a == MaybeAnycastAt(c, p + 2) IN
           IF ~a.ok THEN NoParse
           ELSE IF ~HasBits(c, a.p, 41) THEN NoParse
           ELSE LET n == BitsNat(Seg(c, a.p, 9)) IN
                IF ~HasBits(c, a.p + 41, n) THEN NoParse
                ELSE [ok |-> TRUE, p |-> a.p + 41 + n, kind |-> "var", any |-> [d |-> a.d, pfx |-> a.pfx],
                      wc |-> BitsM!SDec(Seg(c, a.p + 9, 32)), addr |-> Seg(c, a.p + 41, n)]
IsIntAddr(a) == a.kind \in {"std", "var"}
IsExtAddr(a) == a.kind \in {"none", "extern"}

\* nanograms$_ amount:(VarUInteger 16) = Grams;  var_uint$_ {n:#} len:(#< n) value:(uint (len * 8))
GramsAt(c, p) ==
  IF ~HasBits(c, p, 4) THEN NoParse
  ELSE LET n == BitsNat(Seg(c, p, 4)) IN
       IF ~HasBits(c, p + 4, 8 * n) THEN NoParse
       ELSE [ok |-> TRUE, p |-> p + 4 + 8 * n, len |-> n, val |-> Seg(c, p + 4, 8 * n)]
\* currencies$_ grams:Grams other:ExtraCurrencyCollection;  extra_currencies$_ dict:(HashmapE 32 (VarUInteger 32))
CurrencyAt(c, p, q) ==
  LET g == GramsAt(c, p) IN
  IF ~g.ok THEN NoParse
  ELSE IF ~HasBits(c, g.p, 1) THEN NoParse
  ELSE IF q + c.b[g.p + 1] > Len(c.r) THEN NoParse
  ELSE [ok |-> TRUE, p |-> g.p + 1, q |-> q + c.b[g.p + 1]]

\* int_msg_info$0 ihr_disabled:Bool bounce:Bool bounced:Bool src:MsgAddressInt dest:MsgAddressInt
\*    value:CurrencyCollection ihr_fee:Grams fwd_fee:Grams created_lt:uint64 created_at:uint32
\* ext_in_msg_info$10 src:MsgAddressExt dest:MsgAddressInt import_fee:Grams
\* ext_out_msg_info$11 src:MsgAddressInt dest:MsgAddressExt created_lt:uint64 created_at:uint32   = CommonMsgInfo
\* result: kind, src, dest, fee (ext_in), p / q = bits / references consumed
InfoAt(c) ==
  IF ~HasBits(c, 0, 1) THEN NoParse
  ELSE IF c.b[1] = 0 THEN
    LET sa == AddrAt(c, 4) IN
    IF ~HasBits(c, 1, 3) \/ ~sa.ok THEN NoParse ELSE
    IF ~IsIntAddr(sa) THEN NoParse ELSE
    LET da == AddrAt(c, sa.p) IN
    IF ~da.ok THEN NoParse ELSE
    IF ~IsIntAddr(da) THEN NoParse ELSE
    LET v == CurrencyAt(c, da.p, 0) IN
    IF ~v.ok THEN NoParse ELSE
    LET f1 == GramsAt(c, v.p) IN
    IF ~f1.ok THEN NoParse ELSE
    LET f2 == GramsAt(c, f1.p) IN
    IF ~f2.ok THEN NoParse ELSE
    IF ~HasBits(c, f2.p, 96) THEN NoParse
    ELSE [ok |-> TRUE, kind |-> "int", src |-> sa, dest |-> da, fee |-> f2, p |-> f2.p + 96, q |-> v.q]
  ELSE IF ~HasBits(c, 0, 2) THEN NoParse
  ELSE IF c.b[2] = 0 THEN
    LET sa == AddrAt(c, 2) IN
    IF ~sa.ok THEN NoParse ELSE
    IF ~IsExtAddr(sa) THEN NoParse ELSE
    LET da == AddrAt(c, sa.p) IN
    IF ~da.ok THEN NoParse ELSE
    IF ~IsIntAddr(da) THEN NoParse ELSE
    LET f == GramsAt(c, da.p) IN
    IF ~f.ok THEN NoParse
    ELSE [ok |-> TRUE, kind |-> "ext_in", src |-> sa, dest |-> da, fee |-> f, p |-> f.p, q |-> 0]
  ELSE
    LET sa == AddrAt(c, 2) IN
    IF ~sa.ok THEN NoParse ELSE
    IF ~IsIntAddr(sa) THEN NoParse ELSE
    LET da == AddrAt(c, sa.p) IN
    IF ~da.ok THEN NoParse ELSE
    IF ~IsExtAddr(da) THEN NoParse ELSE
    IF ~HasBits(c, da.p, 96) THEN NoParse
    ELSE [ok |-> TRUE, kind |-> "ext_out", src |-> sa, dest |-> da, fee |-> [len |-> 0], p |-> da.p + 96, q |-> 0]

\* _ split_depth:(Maybe (## 5)) special:(Maybe TickTock) code:(Maybe ^Cell) data:(Maybe ^Cell)
\*   library:(HashmapE 256 SimpleLib) = StateInit;   tick_tock$_ tick:Bool tock:Bool
StateInitAt(c, p, q) ==
  IF ~HasBits(c, p, 1) THEN NoParse ELSE
  LET p1 == p + 1 + 5 * c.b[p + 1] IN
  IF ~HasBits(c, p1, 1) THEN NoParse ELSE
  LET p2 == p1 + 1 + 2 * c.b[p1 + 1] IN
  IF ~HasBits(c, p2, 3) THEN NoParse ELSE
  LET nr == c.b[p2 + 1] + c.b[p2 + 2] + c.b[p2 + 3] IN
  IF q + nr > Len(c.r) THEN NoParse ELSE [ok |-> TRUE, p |-> p2 + 3, q |-> q + nr]

\* message$_ {X:Type} info:CommonMsgInfo init:(Maybe (Either StateInit ^StateInit)) body:(Either X ^X) = Message X
\* MsgParse(T, i): the message carried by cell i of table T:
\*   info, init \in {"none","inline","ref"}, body \in {"inline","ref"},
\*   bref (index of the body cell) or bbits / brefs (what follows the header: the inline body)
MsgParse(T, i) ==
  LET c == T[i]  h == InfoAt(c) IN
  IF c.x # Ordinary THEN NoParse ELSE
  IF ~h.ok THEN NoParse ELSE
  IF ~HasBits(c, h.p, 1) THEN NoParse ELSE
  LET ini == IF c.b[h.p + 1] = 0 THEN [ok |-> TRUE, p |-> h.p + 1, q |-> h.q, at |-> "none"]
             ELSE IF ~HasBits(c, h.p + 1, 1) THEN NoParse
             ELSE IF c.b[h.p + 2] = 1
                    THEN (IF h.q + 1 > Len(c.r) THEN NoParse ELSE [ok |-> TRUE, p |-> h.p + 2, q |-> h.q + 1, at |-> "ref"])
                    ELSE LET si == StateInitAt(c, h.p + 2, h.q) IN
                         IF ~si.ok THEN NoParse ELSE [ok |-> TRUE, p |-> si.p, q |-> si.q, at |-> "inline"]
  IN IF ~ini.ok THEN NoParse ELSE
     IF ~HasBits(c, ini.p, 1) THEN NoParse ELSE
     IF c.b[ini.p + 1] = 1
       THEN (IF ini.q + 1 > Len(c.r) THEN NoParse
             ELSE [ok |-> TRUE, info |-> h, init |-> ini.at, body |-> "ref", bref |-> c.r[ini.q + 1]])
       ELSE [ok |-> TRUE, info |-> h, init |-> ini.at, body |-> "inline",
             bbits |-> SubSeq(c.b, ini.p + 2, Len(c.b)), brefs |-> SubSeq(c.r, ini.q + 1, Len(c.r))]

\* ------------------------------------------------------------------ hashing
\* identity of the record carried by cell i
MsgHash(T, i) == ReprHash(InfoTable(T)[i])

ShiftRefs(T, k) == [j \in 1..Len(T) |-> [T[j] EXCEPT !.r = [n \in 1..Len(T[j].r) |-> T[j].r[n] + k]]]
\* cells reachable from the set S0 of cells (references point forward: one ascending pass)
ReachFrom(T, S0) == FoldLeft(LAMBDA acc, i : IF i \in acc THEN acc \cup {T[i].r[j] : j \in 1..Len(T[i].r)} ELSE acc,
                             S0, [i \in 1..Len(T) |-> i])
\* the sub-DAG under S0 as a table of its own (same relative order), placed after `lead` other cells; Rank maps old indices to new
Rank(R, lead, o) == lead + Cardinality({x \in R : x <= o})
SubTable(T, R, lead) ==
  LET seq == SetToSortSeq(R, LAMBDA a, b : a < b) IN
  [k \in 1..Len(seq) |-> [T[seq[k]] EXCEPT !.r = [n \in 1..Len(T[seq[k]].r) |-> Rank(R, lead, T[seq[k]].r[n])]]]
\* The body of a parsed message as a cell table whose cell 1 is the body cell: the referenced cell with everything below it,
\* or the cell made of what follows the header (remaining bits, remaining references) when the body is stored inline.
BodyTable(T, mp) ==
  IF mp.body = "ref" THEN SubTable(T, ReachFrom(T, {mp.bref}), 0)
  ELSE LET R == ReachFrom(T, {mp.brefs[n] : n \in 1..Len(mp.brefs)}) IN
       <<[b |-> mp.bbits, x |-> Ordinary, m |-> 0, r |-> [n \in 1..Len(mp.brefs) |-> Rank(R, 1, mp.brefs[n])]]>> \o SubTable(T, R, 1)
BodyHash(BT) == ReprHash(InfoTable(WithMasks(BT))[1])

\* destination as bits; keepAny = FALSE drops the anycast (anycast:nothing$0)
AnycastBits(a, keepAny) == IF keepAny /\ a.d > 0 THEN <<1>> \o BitsM!UBits(ToString(a.d), 5) \o a.pfx ELSE <<0>>
DestBits(d, keepAny) ==
  IF d.kind = "std"
    THEN <<1, 0>> \o AnycastBits(d.any, keepAny) \o BitsM!SBits(d.wc, 8) \o d.addr
    ELSE <<1, 1>> \o AnycastBits(d.any, keepAny) \o BitsM!UBits(ToString(Len(d.addr)), 9) \o BitsM!SBits(d.wc, 32) \o d.addr

\* the canonical external-in message: one cell, one reference
\*   ext_in_msg_info$10  src:addr_none$00  dest  import_fee:Grams = 0 (len 0000)  init:nothing$0  body:right$1 ^body
CanonRoot(destBits) == [b |-> <<1, 0>> \o <<0, 0>> \o destBits \o <<0, 0, 0, 0>> \o <<0>> \o <<1>>, x |-> Ordinary, m |-> 0, r |-> <<2>>]
CanonTable(destBits, BT) == WithMasks(<<CanonRoot(destBits)>> \o ShiftRefs(BT, 1))
CanonHash(destBits, BT)  == ReprHash(InfoTable(CanonTable(destBits, BT))[1])

NormHash(dest, BT)         == CanonHash(DestBits(dest, FALSE), BT)
NormHashVerbatim(dest, BT) == CanonHash(DestBits(dest, TRUE), BT)
\* the values a normalised hash of the external-in message mp (cell table T) may take
NormSet(T, mp) ==
  LET BT == BodyTable(T, mp) IN
  {NormHash(mp.info.dest, BT)} \cup (IF mp.info.dest.any.d > 0 THEN {NormHashVerbatim(mp.info.dest, BT)} ELSE {})

\* Which pairs of external-in messages must agree / differ in their normalised hash:
\*   "equal"  same destination, same body        -- whatever src, import_fee, init and the body placement are
\*   "free"   same body, destinations differ only in the anycast part
\*   "differ" otherwise
PairRelation(Ta, ma, Tb, mb) ==
  LET sameBody == BodyHash(BodyTable(Ta, ma)) = BodyHash(BodyTable(Tb, mb)) IN
  IF sameBody /\ DestBits(ma.info.dest, TRUE) = DestBits(mb.info.dest, TRUE) THEN "equal"
  ELSE IF sameBody /\ DestBits(ma.info.dest, FALSE) = DestBits(mb.info.dest, FALSE) THEN "free"
  ELSE "differ"

\* The same rule on abstract cases: records with dest (kind of destination), any (anycast attached), destv / bodyv (identity
\* of the destination value -- anycast prefix included -- and of the body).  MsgHash_Gen enumerates it; the trace
\* specification requires the concretised cells to stand in exactly this relation (PairRelation).
CaseRelation(a, b) ==
  IF a.bodyv = b.bodyv /\ a.dest = b.dest /\ a.destv = b.destv THEN (IF a.any = b.any THEN "equal" ELSE "free") ELSE "differ"

\* abstract shape of a parsed message (the case analysis of MsgHash_Gen, read back from the cell)
FeeClass(f) == IF f.len = 0 THEN "zero" ELSE "nonzero"
HasAny(a)   == IsIntAddr(a) /\ a.any.d > 0
Shape(mp) == [kind |-> mp.info.kind, init |-> mp.init, body |-> mp.body, src |-> mp.info.src.kind, dest |-> mp.info.dest.kind,
              any |-> HasAny(mp.info.src) \/ HasAny(mp.info.dest), fee |-> FeeClass(mp.info.fee)]

\* -------------------------------------------------------------- transactions
\* transaction$0111 account_addr:bits256 lt:uint64 prev_trans_hash:bits256 prev_trans_lt:uint64 now:uint32
\*   outmsg_cnt:uint15 orig_status:AccountStatus end_status:AccountStatus
\*   ^[ in_msg:(Maybe ^(Message Any)) out_msgs:(HashmapE 15 ^(Message Any)) ]  total_fees ... = Transaction
TxParse(T, i) ==
  LET c == T[i] IN
  IF c.x # Ordinary \/ Len(c.b) < 695 \/ Len(c.r) < 1 THEN NoParse ELSE
  IF SubSeq(c.b, 1, 4) # <<0, 1, 1, 1>> THEN NoParse ELSE
  LET mc == T[c.r[1]] IN
  IF mc.x # Ordinary \/ Len(mc.b) < 2 THEN NoParse ELSE
  IF Len(mc.r) # mc.b[1] + mc.b[2] THEN NoParse
  ELSE [ok |-> TRUE, acc |-> SubSeq(c.b, 5, 260), lt |-> SubSeq(c.b, 261, 324), cnt |-> BitsNat(SubSeq(c.b, 677, 691)),
        hasIn |-> mc.b[1] = 1, inIdx |-> IF mc.b[1] = 1 THEN mc.r[1] ELSE 0,
        hasOut |-> mc.b[2] = 1, outRoot |-> IF mc.b[2] = 1 THEN mc.r[mc.b[1] + 1] ELSE 0]

\* hm_edge#_ {n:#} {X:Type} {l:#} {m:#} label:(HmLabel ~l n) {n = (~m) + l} node:(HashmapNode m X) = Hashmap n X
\* hmn_leaf#_ value:X = HashmapNode 0 X;   hmn_fork#_ left:^(Hashmap n X) right:^(Hashmap n X) = HashmapNode (n + 1) X
\* hml_short$0 len:(Unary ~n) {n <= m} s:(n * Bit) | hml_long$10 n:(#<= m) s:(n * Bit) | hml_same$11 v:Bit n:(#<= m)
LabelAt(c, m) ==
  IF ~HasBits(c, 0, 2) THEN NoParse
  ELSE IF c.b[1] = 0 THEN
    LET n == OnesFrom(c.b, 2) IN
    IF n < 0 \/ n > m THEN NoParse ELSE
    IF ~HasBits(c, 2 + n, n) THEN NoParse
    ELSE [ok |-> TRUE, l |-> n, s |-> Seg(c, 2 + n, n), p |-> 2 + 2 * n]
  ELSE LET w == WidthOf(m) IN
    IF c.b[2] = 0 THEN
      IF ~HasBits(c, 2, w) THEN NoParse ELSE
      LET n == BitsNat(Seg(c, 2, w)) IN
      IF n > m \/ ~HasBits(c, 2 + w, n) THEN NoParse
      ELSE [ok |-> TRUE, l |-> n, s |-> Seg(c, 2 + w, n), p |-> 2 + w + n]
    ELSE
      IF ~HasBits(c, 2, 1 + w) THEN NoParse ELSE
      LET n == BitsNat(Seg(c, 3, w)) IN
      IF n > m THEN NoParse
      ELSE [ok |-> TRUE, l |-> n, s |-> [j \in 1..n |-> c.b[3]], p |-> 3 + w]
\* leaves of the dictionary rooted at cell i with m key bits to go: [ok, s |-> {<<key bits, leaf cell, value offset>>}]
RECURSIVE HmLeaves(_, _, _, _)
HmLeaves(T, i, m, pre) ==
  LET c == T[i]  lb == LabelAt(c, m) IN
  IF c.x # Ordinary THEN [ok |-> FALSE, s |-> {}] ELSE
  IF ~lb.ok THEN [ok |-> FALSE, s |-> {}] ELSE
  LET k == pre \o lb.s  rest == m - lb.l IN
  IF rest = 0 THEN [ok |-> TRUE, s |-> {<<k, i, lb.p>>}]
  ELSE IF Len(c.r) < 2 THEN [ok |-> FALSE, s |-> {}]
  ELSE LET L == HmLeaves(T, c.r[1], rest - 1, k \o <<0>>)
           R == HmLeaves(T, c.r[2], rest - 1, k \o <<1>>)
       IN [ok |-> L.ok /\ R.ok, s |-> L.s \cup R.s]
\* out_msgs of a parsed transaction: pairs <<key (uint15), index of the message cell (the leaf's only reference)>>
OutMsgs(T, tp) ==
  IF ~tp.hasOut THEN [ok |-> TRUE, s |-> {}]
  ELSE LET lv == HmLeaves(T, tp.outRoot, 15, <<>>) IN
       IF ~lv.ok \/ \E x \in lv.s : Len(T[x[2]].r) # 1 THEN [ok |-> FALSE, s |-> {}]
       ELSE [ok |-> TRUE, s |-> {<<BitsNat(x[1]), T[x[2]].r[1]>> : x \in lv.s}]

\* ------------------------------------------------------------------ encoding
\* The same layouts in the other direction: the cell tree of a message from a description of its fields.  MsgHash_Gen uses
\* it to hand the implementation source cells that were laid out here, not by the implementation's own encoder.
\* A tree node is [b |-> bits, c |-> <<child nodes>>] (ordinary cell) or the same with x |-> cell type; addresses are the
\* records AddrAt returns.
EncAddr(a) == CASE a.kind = "none"   -> <<0, 0>>
                [] a.kind = "extern" -> <<0, 1>> \o BitsM!UBits(ToString(Len(a.ext)), 9) \o a.ext
                [] OTHER             -> DestBits(a, TRUE)
\* val: the amount as whole bytes, most significant first, no leading zero byte (<<>> = 0)
EncGrams(val) == BitsM!UBits(ToString(Len(val) \div 8), 4) \o val
\* D: kind, src, dest, fee (import_fee / fwd_fee) and, where the constructor has them, flags (ihr_disabled bounce bounced),
\*    value, ihr (Grams), lt (64 bits), at (32 bits);  init / body placement with si / bd = the state-init / body nodes
EncInfo(D) ==
  CASE D.kind = "int"    -> <<0>> \o D.flags \o EncAddr(D.src) \o EncAddr(D.dest) \o EncGrams(D.value) \o <<0>>
                                 \o EncGrams(D.ihr) \o EncGrams(D.fee) \o D.lt \o D.at
    [] D.kind = "ext_in" -> <<1, 0>> \o EncAddr(D.src) \o EncAddr(D.dest) \o EncGrams(D.fee)
    [] OTHER             -> <<1, 1>> \o EncAddr(D.src) \o EncAddr(D.dest) \o D.lt \o D.at
EncMsg(D) ==
  LET ib == CASE D.init = "none" -> <<0>> [] D.init = "inline" -> <<1, 0>> \o D.si.b [] OTHER -> <<1, 1>>
      ic == CASE D.init = "none" -> <<>>  [] D.init = "inline" -> D.si.c              [] OTHER -> <<D.si>>
      bb == IF D.body = "inline" THEN <<0>> \o D.bd.b ELSE <<1>>
      bc == IF D.body = "inline" THEN D.bd.c ELSE <<D.bd>>
  IN [b |-> EncInfo(D) \o ib \o bb, c |-> ic \o bc]
\* a tree as a cell table (cell 1 = the root, children after parents)
RECURSIVE Flat(_)
Flat(n) ==
  LET subs == [i \in 1..Len(n.c) |-> Flat(n.c[i])]
      off  == FoldLeft(LAMBDA acc, t : Append(acc, acc[Len(acc)] + Len(t)), <<1>>, subs)      \* off[i]: cells before subs[i]
  IN FoldLeft(LAMBDA acc, i : acc \o ShiftRefs(subs[i], off[i]),
              <<[b |-> n.b, x |-> IF "x" \in DOMAIN n THEN n.x ELSE Ordinary, m |-> 0, r |-> [i \in 1..Len(subs) |-> off[i] + 1]]>>,
              [i \in 1..Len(subs) |-> i])
TableJson(T) == [i \in 1..Len(T) |-> [b |-> BitsToStr(T[i].b), x |-> T[i].x, r |-> [j \in 1..Len(T[i].r) |-> T[i].r[j] - 1]]]

\* -------------------------------------------------------------- exotic subtrees
\* Messages may carry exotic cells anywhere below them (a body that holds a Merkle proof, a library cell as code, ...).
\* The nodes below build them from the cell definitions (Cells.tla): data of a pruned branch = 01 mask hash depth of the cell
\* it stands for, of a Merkle proof = 03 hash depth of its child at level 0, of a Merkle update = 04 both hashes, both depths.
NodeInfo(n) == InfoTable(WithMasks(Flat(n)))[1]
LibraryNode(hash256) == [b |-> <<0, 0, 0, 0, 0, 0, 1, 0>> \o hash256, c |-> <<>>, x |-> Library]
\* the pruned branch (level mask 1) that stands for the level-0 tree n
PrunedNode(n) == LET i == NodeInfo(n) IN [b |-> BytesToBits(<<1, 1>> \o i.h[1] \o U16(i.d[1])), c |-> <<>>, x |-> Pruned]
\* The pruned branch with level mask M standing for the tree n (a tree that is itself partly pruned, cut out once more inside a
\* further Merkle cell): one stored hash / depth per significant level of M below the branch's own, i.e. n's hash / depth at level 0
\* and at every lower set bit of M   (data = 01 M hash[0..k-1] depth[0..k-1], k = number of set bits of M)
PrunedMaskNode(n, M) ==
  LET i  == NodeInfo(n)
      lv == SubSeq(Levels(M), 1, Pop(M))
  IN [b |-> BytesToBits(<<1, M>> \o FoldLeft(LAMBDA acc, l : acc \o i.h[l + 1], <<>>, lv)
                                 \o FoldLeft(LAMBDA acc, l : acc \o U16(i.d[l + 1]), <<>>, lv)),
      c |-> <<>>, x |-> Pruned]
\* Merkle proof over the (partly pruned) tree v
ProofNode(v)  == LET i == NodeInfo(v) IN [b |-> BytesToBits(<<3>> \o i.h[1] \o U16(i.d[1])), c |-> <<v>>, x |-> MerkleProof]
UpdateNode(v, w) == LET i == NodeInfo(v)  j == NodeInfo(w) IN
                    [b |-> BytesToBits(<<4>> \o i.h[1] \o j.h[1] \o U16(i.d[1]) \o U16(j.d[1])), c |-> <<v, w>>, x |-> MerkleUpdate]

\* A minimal transaction around an incoming message (block.tlb):
\*   transaction$0111 account_addr lt prev_trans_hash prev_trans_lt now outmsg_cnt:uint15 = 0 orig_status end_status (active$10)
\*     ^[ in_msg:(just ^msg) out_msgs:hme_empty$0 ]  total_fees:(Grams 0, no extra currencies)
\*     state_update:^(update_hashes#72 old_hash new_hash)
\*     description:^(trans_storage$0001 storage_ph:(tr_phase_storage$_ storage_fees_collected:Grams=0 storage_fees_due:nothing$0 acst_unchanged$0))
TxNode(acc256, lt64, h256, now32, msg) ==
  [b |-> <<0, 1, 1, 1>> \o acc256 \o lt64 \o h256 \o lt64 \o now32 \o [i \in 1..15 |-> 0] \o <<1, 0>> \o <<1, 0>> \o <<0, 0, 0, 0>> \o <<0>>,
   c |-> << [b |-> <<1, 0>>, c |-> <<msg>>],
            [b |-> <<0, 1, 1, 1, 0, 0, 1, 0>> \o h256 \o acc256, c |-> <<>>],
            [b |-> <<0, 0, 0, 1>> \o <<0, 0, 0, 0>> \o <<0>> \o <<0>>, c |-> <<>>] >>]
=============================================================================
