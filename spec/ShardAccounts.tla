---------------------------- MODULE ShardAccounts ----------------------------
(* C05: the account dictionary of a shard state, read for its balances         *)
(* (tlb/proof.go ShardState.AccountBalances).  From block.tlb:                  *)
(*   _ (HashmapAugE 256 ShardAccount DepthBalanceInfo) = ShardAccounts;         *)
(*   ahm_edge#_ {n:#} {X:Type} {Y:Type} {l:#} {m:#} label:(HmLabel ~l n) {n = (~m) + l}                        *)
(*             node:(HashmapAugNode m X Y) = HashmapAug n X Y;                  *)
(*   ahmn_leaf#_ {X:Type} {Y:Type} extra:Y value:X = HashmapAugNode 0 X Y;      *)
(*   ahmn_fork#_ {n:#} {X:Type} {Y:Type} left:^(HashmapAug n X Y) right:^(HashmapAug n X Y) extra:Y            *)
(*             = HashmapAugNode (n + 1) X Y;                                    *)
(*   ahme_empty$0 {n:#} {X:Type} {Y:Type} extra:Y = HashmapAugE n X Y;          *)
(*   ahme_root$1 {n:#} {X:Type} {Y:Type} root:^(HashmapAug n X Y) extra:Y = HashmapAugE n X Y;                 *)
(*   depth_balance$_ split_depth:(#<= 30) balance:CurrencyCollection = DepthBalanceInfo;                       *)
(*   currencies$_ grams:Grams other:ExtraCurrencyCollection = CurrencyCollection;                              *)
(*   nanograms$_ amount:(VarUInteger 16) = Grams;   var_uint$_ {n:#} len:(#< n) value:(uint (len * 8))         *)
(*   extra_currencies$_ dict:(HashmapE 32 (VarUInteger 32)) = ExtraCurrencyCollection;                         *)
(*   account_descr$_ account:^Account last_trans_hash:bits256 last_trans_lt:uint64 = ShardAccount;             *)
(*   account_none$0 = Account;                                                  *)
(*   account$1 addr:MsgAddressInt storage_stat:StorageInfo storage:AccountStorage = Account;                   *)
(*   addr_std$10 anycast:(Maybe Anycast) workchain_id:int8 address:bits256 = MsgAddressInt;                    *)
(*   storage_info$_ used:StorageUsed storage_extra:StorageExtraInfo last_paid:uint32 due_payment:(Maybe Grams) *)
(*   storage_used$_ cells:(VarUInteger 7) bits:(VarUInteger 7) = StorageUsed;   *)
(*   storage_extra_none$000 / storage_extra_info$001 dict_hash:bits256 = StorageExtraInfo;                     *)
(*   account_storage$_ last_trans_lt:uint64 balance:CurrencyCollection state:AccountState = AccountStorage;    *)
(* The abstract value of the dictionary, for the balances: a finite map from    *)
(* 256-bit account ids to "no account" or the Grams of the account's balance.   *)
(* (Only accounts with addr_std, no anycast and no extra currencies are read:    *)
(* anything else is reported as not understood, never guessed.)                 *)
EXTENDS Dict

AErr(e) == [ok |-> FALSE, err |-> e]
\* Grams at position p (1-based) of b: [ok, v (the amount's bits, 8 * len of them), next]
GramsAt(b, p) ==
  IF p + 3 > Len(b) THEN AErr("grams:len")
  ELSE LET len == BitsToNat(SubSeq(b, p, p + 3)) IN
       IF p + 3 + 8 * len > Len(b) THEN AErr("grams:value")
       ELSE [ok |-> TRUE, v |-> SubSeq(b, p + 4, p + 3 + 8 * len), next |-> p + 4 + 8 * len]
\* CurrencyCollection with an empty extra-currency dictionary
CurrenciesAt(b, p) ==
  LET g == GramsAt(b, p) IN
  IF ~g.ok THEN g
  ELSE IF g.next > Len(b) THEN AErr("currencies:other")
  ELSE IF b[g.next] # 0 THEN AErr("currencies:extra-not-read")
  ELSE [ok |-> TRUE, v |-> g.v, next |-> g.next + 1]
\* DepthBalanceInfo at position p: split_depth:(#<= 30) is 5 bits
DepthBalanceAt(b, p) ==
  IF p + 4 > Len(b) THEN AErr("depth_balance:depth")
  ELSE IF BitsToNat(SubSeq(b, p, p + 4)) > 30 THEN AErr("depth_balance:depth>30")
  ELSE CurrenciesAt(b, p + 5)
\* VarUInteger 7 at p: len:(#< 7) is 3 bits
VarU7Next(b, p) == IF p + 2 > Len(b) THEN 0 ELSE p + 3 + 8 * BitsToNat(SubSeq(b, p, p + 2))
\* the balance of the account in cell c: [ok, exists, v]
AccountBalance(c) ==
  LET b == c.b IN
  IF c.x # Ordinary \/ Len(b) < 1 THEN AErr("account:cell")
  ELSE IF b[1] = 0 THEN [ok |-> TRUE, exists |-> FALSE, v |-> <<>>]
  ELSE IF Len(b) < 4 \/ SubSeq(b, 2, 4) # <<1, 0, 0>> THEN AErr("account:addr-not-read")      \* addr_std$10, anycast nothing$0
  ELSE LET p1 == 2 + 3 + 8 + 256                      \* storage_stat starts here
           p2 == VarU7Next(b, p1)                      \* after cells
           p3 == IF p2 = 0 THEN 0 ELSE VarU7Next(b, p2) \* after bits
       IN IF p3 = 0 \/ p3 + 2 > Len(b) THEN AErr("account:storage_used")
          ELSE LET tag == SubSeq(b, p3, p3 + 2)
                   p4 == IF tag = <<0, 0, 0>> THEN p3 + 3 ELSE IF tag = <<0, 0, 1>> THEN p3 + 3 + 256 ELSE 0
               IN IF p4 = 0 THEN AErr("account:storage_extra")
                  ELSE LET p5 == p4 + 32 IN                \* after last_paid; due_payment:(Maybe Grams)
                       IF p5 > Len(b) THEN AErr("account:due_payment")
                       ELSE LET due == IF b[p5] = 0 THEN [ok |-> TRUE, next |-> p5 + 1] ELSE GramsAt(b, p5 + 1) IN
                            IF ~due.ok THEN AErr("account:due_payment")
                            ELSE LET bal == CurrenciesAt(b, due.next + 64) IN      \* account_storage: last_trans_lt:uint64, balance
                                 IF ~bal.ok THEN bal ELSE [ok |-> TRUE, exists |-> TRUE, v |-> bal.v]

\* the entries under the edge in cell i, n key bits remaining: [k, acc (index of the Account cell)] in ascending key order
RECURSIVE DecAccEdge(_, _, _, _)
DecAccEdge(T, i, n, prefix) ==
  LET c == T[i] IN
  IF c.x # Ordinary THEN AErr("node:exotic")
  ELSE
  LET lb == Label(c.b, n) IN
  IF ~lb.ok THEN lb
  ELSE
  LET m == n - Len(lb.s)
      key == prefix \o lb.s
      x == DepthBalanceAt(c.b, lb.used + 1)
  IN IF ~x.ok THEN x
     ELSE IF m = 0 THEN
       \* ahmn_leaf: extra, then the ShardAccount: ^Account, 256 + 64 bits
       IF Len(c.b) - (x.next - 1) # 320 \/ Len(c.r) # 1 THEN AErr("leaf:shard-account")
       ELSE [ok |-> TRUE, items |-> << [k |-> key, acc |-> c.r[1], extra |-> x.v] >>]
     ELSE IF Len(c.r) # 2 THEN AErr("fork:refs")
     ELSE IF x.next - 1 # Len(c.b) THEN AErr("fork:extra-bits")
     ELSE LET L == DecAccEdge(T, c.r[1], m - 1, key \o <<0>>) IN
          IF ~L.ok THEN L
          ELSE LET R == DecAccEdge(T, c.r[2], m - 1, key \o <<1>>) IN
               IF ~R.ok THEN R ELSE [ok |-> TRUE, items |-> L.items \o R.items]
\* ShardAccounts stored at the beginning of cell i
DecShardAccounts(T, i) ==
  LET c == T[i] IN
  IF Len(c.b) < 1 THEN AErr("ahme:empty-cell")
  ELSE IF c.b[1] = 0 THEN (IF DepthBalanceAt(c.b, 2).ok THEN [ok |-> TRUE, items |-> <<>>] ELSE AErr("ahme:extra"))
  ELSE IF Len(c.r) < 1 THEN AErr("ahme:no-ref")
  ELSE IF ~DepthBalanceAt(c.b, 2).ok THEN AErr("ahme:extra")
  ELSE DecAccEdge(T, c.r[1], 256, <<>>)
\* the balances the dictionary denotes: sequence of [k, ok, exists, v]
Balances(T, i) ==
  LET D == DecShardAccounts(T, i) IN
  IF ~D.ok THEN D
  ELSE [ok |-> TRUE, items |-> [j \in 1..Len(D.items) |->
          LET a == AccountBalance(T[D.items[j].acc]) IN
          [k |-> D.items[j].k, ok |-> a.ok, exists |-> a.ok /\ a.exists, v |-> IF a.ok /\ a.exists THEN a.v ELSE <<>>]]]
=============================================================================
