----------------------------- MODULE GetMethodAbi -----------------------------
(* X09: the contract between a get-method SCHEMA (abi/schemas/*.xml) and one CALL *)
(* of that method through the library's get-method layer (abi.GetXxx / abi.Decode- *)
(* XxxResult).  Written from the schema grammar (abi/parser/parser.go: get_method  *)
(* name [id]; input: stack records; output [version] [fixed_length]: stack records *)
(* int | tinyint | slice | cell | tuple with name, nullable, list, required_value,  *)
(* the type word and, for tuples, sub-records), TVM's conventions (method id =      *)
(* (crc16/xmodem(name) & 0xffff) | 0x10000 unless the schema fixes one; arguments   *)
(* are pushed in the order they are declared; results are listed in the order they  *)
(* are declared, the first deepest) and the reader model of spec/VmStackApi.tla     *)
(* (MapTo: one TVM value into one Go destination).  NOT from abi/get_methods.go.    *)
(*                                                                               *)
(* THE SCHEMA TABLE (tools: checks/x09.py build_schema, from the XML only):        *)
(*  method = [name, go, fixedid (0: none), ins |-> <<[name, st, ty]>>,             *)
(*            layouts |-> <<[name, ver, fixed, fields |-> <<field>>]>>]             *)
(*  field  = [name, st (stack type), nullable, list, ty (go-type word), req        *)
(*            (required value, decimal, "" = none), sub |-> <<field>>]              *)
(* Methods of the same name in several files are one method whose layouts are      *)
(* listed file after file (only methods without arguments may be declared twice).  *)
(* The name of a layout is CamelCase(method) [_CamelCase(version)] "Result".        *)
(*                                                                               *)
(* ONE CALL                                                                       *)
(*  Call(m, args)    the executor is asked for method WantId(m) with the stack     *)
(*                   ReqStack(m, args): argument i as the stack entry its record    *)
(*                   prescribes (int: vm_stk_int; tinyint: vm_stk_tinyint; slice:   *)
(*                   a slice over the whole cell holding the TL-B form of the       *)
(*                   argument; cell: that cell), pushed in declaration order        *)
(*  Answer(exit, rs) the executor's exit code and result stack (bottom first)       *)
(*  Outcome          exit not in {0, 1}: error.  Otherwise the FIRST layout (schema *)
(*                   order) whose shape rs fits is selected and its fields are read *)
(*                   (field i from result i); no layout fits: error.                *)
(*  Fits(L, rs)      Len(rs) >= n (= n when fixed_length) and for every record i:   *)
(*                   int: an integer (tinyint and int are interchangeable), slice,  *)
(*                   cell, tuple: that kind; null where the record is nullable or a *)
(*                   list (the empty list is null); a required_value: that number.  *)
(*  Reading          ReadField: VmStackApi!MapTo for integers, booleans, Bits256,   *)
(*                   pointers (nullable), structs (tuple) and lists; a cell into    *)
(*                   cell / any: the cell itself; a slice holding exactly addr_none *)
(*                   or addr_std without anycast into msgaddress: that address;     *)
(*                   other TL-B types: free (their codecs are C03 / C08's subject). *)
(*  When the selected layout cannot be READ (a number outside the field's range)    *)
(*  the statement leaves open whether the call fails or a later fitting layout is   *)
(*  taken: both are admitted.  Never a panic.                                       *)
EXTENDS VmStackApi

TxF == INSTANCE TextForms

\* ------------------------------------------------------------------ method ids
WantId(m) == IF m.fixedid # 0 THEN m.fixedid ELSE TxF!MethodId(StrToCodes(m.name))
Pairs2(n) == {p \in (1..n) \X (1..n) : p[1] < p[2]}
IdsOf(S) == [i \in 1..Len(S) |-> WantId(S[i])]
DupIn(S, ids) == {<<S[p[1]].name, S[p[2]].name>> : p \in {q \in Pairs2(Len(S)) : ids[q[1]] = ids[q[2]]}}
DuplicateIds(S) == DupIn(S, IdsOf(S))                       \* (the ids are an operator argument: evaluated once)
DuplicateGoNames(S) == DupIn(S, [i \in 1..Len(S) |-> S[i].go])

\* ------------------------------------------------------------------- arguments
\* an argument as the vectors / events describe it:
\*   [t |-> "num", v |-> decimal]  [t |-> "addr", s |-> VmStackApi structure MsgAddress]
\*   [t |-> "raw", c |-> tree]  (a TL-B value given by its serialisation)  [t |-> "cell", c |-> tree]
ArgEntry(inp, a) ==
  CASE inp.st = "int"     -> VInt(a.v)
    [] inp.st = "tinyint" -> VTiny(a.v)
    [] inp.st = "slice"   -> (IF a.t = "addr" THEN StructAsSlice(a.s) ELSE VWhole(a.c))
    [] inp.st = "cell"    -> VCell(a.c)
ReqStack(m, args) == FoldLeft(LAMBDA s, i : Put(s, ArgEntry(m.ins[i], args[i])), <<>>, [i \in 1..Len(m.ins) |-> i])
\* the Go slice handed to the executor lists that stack top first (VmStackApi: ArgList)
WantParams(m, args) == Texts(ArgList(ReqStack(m, args)))

\* ----------------------------------------------------------------------- shape
IntRec(f) == f.st \in {"int", "tinyint"}
Kinds(f) == (CASE IntRec(f) -> {"tinyint", "int"} [] f.st = "slice" -> {"slice"} [] f.st = "cell" -> {"cell"}
               [] f.st = "tuple" -> {"tuple"} [] OTHER -> {})
            \cup (IF f.nullable \/ (f.st = "tuple" /\ f.list) THEN {"null"} ELSE {})
TypeFits(f, v) == v.t \in Kinds(f)
ReqFits(f, v)  == f.req = "" \/ (IsIntKind(v) /\ v.v = f.req)
NF(L) == Len(L.fields)
LenFits(L, n) == IF L.fixed THEN n = NF(L) ELSE n >= NF(L)
Fits(L, rs) == /\ LenFits(L, Len(rs))
               /\ \A i \in 1..NF(L) : TypeFits(L.fields[i], rs[i]) /\ ReqFits(L.fields[i], rs[i])
\* why a stack does not fit (the first reason): "length" | "type" | "required_value" | "fits"
WhyNot(L, rs) == IF ~LenFits(L, Len(rs)) THEN "length"
                 ELSE IF \E i \in 1..NF(L) : ~TypeFits(L.fields[i], rs[i]) THEN "type"
                 ELSE IF \E i \in 1..NF(L) : ~ReqFits(L.fields[i], rs[i]) THEN "required_value" ELSE "fits"
FitSet(m, rs)   == {j \in 1..Len(m.layouts) : Fits(m.layouts[j], rs)}
FirstFit(m, rs) == LET F == FitSet(m, rs) IN IF F = {} THEN 0 ELSE CHOOSE j \in F : \A k \in F : j <= k

\* A covers B: every stack that fits B fits A (positions are independent, so the test is exact)
Covers(A, B) == /\ NF(A) <= NF(B)
                /\ (A.fixed => (B.fixed /\ NF(A) = NF(B)))
                /\ \A i \in 1..NF(A) : /\ Kinds(B.fields[i]) \subseteq Kinds(A.fields[i])
                                       /\ (A.fields[i].req = "" \/ A.fields[i].req = B.fields[i].req)
\* layouts that can never be selected
ShadowedBy(m, j) == {i \in 1..(j - 1) : Covers(m.layouts[i], m.layouts[j])}
Shadowed(m)      == {j \in 1..Len(m.layouts) : ShadowedBy(m, j) # {}}

\* --------------------------------------------------------------------- reading
\* destinations beyond VmStackApi's: [d |-> "ubig" | "sbig", n] (big integers of n bits), [d |-> "tlb", ty] (a TL-B type),
\* [d |-> "opaque"] (a type word this module does not know)
IntDest(ty) ==
  CASE ty = "int8" -> DI(8, TRUE) [] ty = "int16" -> DI(16, TRUE) [] ty = "int32" -> DI(32, TRUE) [] ty = "int64" -> DI(64, TRUE)
    [] ty = "uint8" -> DI(8, FALSE) [] ty = "uint16" -> DI(16, FALSE) [] ty = "uint32" -> DI(32, FALSE) [] ty = "uint64" -> DI(64, FALSE)
    [] ty = "coins" -> DI(64, FALSE)                      \* the library's Grams is a uint64 ("total value fit to uint64")
    [] ty = "bool" -> DBool [] ty = "int257" -> DBig [] ty = "bits256" -> DB256
    [] ty = "uint128" -> [d |-> "ubig", n |-> 128] [] ty = "uint256" -> [d |-> "ubig", n |-> 256] [] ty = "uint257" -> [d |-> "ubig", n |-> 257]
    [] ty = "int256" -> [d |-> "sbig", n |-> 256]
    [] OTHER -> [d |-> "opaque"]
RECURSIVE FieldDest(_)
FieldDest(f) ==
  LET base == IF f.st = "tuple" THEN LET s == DStruct([i \in 1..Len(f.sub) |-> FieldDest(f.sub[i])]) IN IF f.list THEN DSlice(s) ELSE s
              ELSE IF IntRec(f) THEN IntDest(f.ty)
              ELSE [d |-> "tlb", ty |-> f.ty]
  IN IF f.nullable /\ ~(f.st = "tuple" /\ f.list) THEN DPtr(base) ELSE base

Int8Dec(b) == LET n == FoldLeft(LAMBDA a, x : 2 * a + x, 0, b) IN IF n >= 128 THEN StrCat("-", ToString(256 - n)) ELSE ToString(n)
\* a slice showing exactly one MsgAddress without anycast
AddrRead(w) ==
  IF Len(w.r) = 0 /\ w.b = <<0, 0>> THEN Val("MsgAddress:none")
  ELSE IF Len(w.r) = 0 /\ Len(w.b) = 267 /\ SubSeq(w.b, 1, 3) = <<1, 0, 0>>
    THEN Val(Cat3(Cat3("MsgAddress:std:", Int8Dec(SubSeq(w.b, 4, 11)), ":"), BytesToHex(BitsToBytes(SubSeq(w.b, 12, 267))), ""))
  ELSE FreeO
ReadTlb(ty, v) ==
  IF v.t = "null" THEN ErrO
  ELSE IF v.t = "cell" /\ ty \in {"cell", "any"} THEN Val(StrCat("cell:", TreeText(TreeOfJson(v.c))))
  ELSE IF v.t = "slice" /\ ty = "msgaddress" THEN AddrRead(Window(v))
  ELSE FreeO
RECURSIVE ReadTo(_, _)
ReadTo(D, v) ==
  IF D.d = "ptr" THEN (IF v.t = "null" THEN Val("nil")
                       ELSE LET r == ReadTo(D.of, v) IN IF r.k = "val" THEN Val(StrCat("&", r.s)) ELSE r)
  ELSE IF D.d = "tlb" THEN ReadTlb(D.ty, v)
  ELSE IF D.d = "opaque" THEN FreeO
  ELSE IF D.d \in {"ubig", "sbig"} THEN
         (IF IsIntKind(v) THEN (IF (IF D.d = "ubig" THEN UFits(v.v, D.n) ELSE SFits(v.v, D.n)) THEN Val(v.v) ELSE FreeO)
          ELSE IF v.t \in {"null", "nan", "tuple"} THEN ErrO ELSE FreeO)
  ELSE IF D.d = "struct" /\ v.t = "tuple" THEN
         (IF Len(v.es) # Len(D.fs) THEN ErrO ELSE Combine([i \in 1..Len(v.es) |-> ReadTo(D.fs[i], v.es[i])], "{", "}"))
  ELSE IF D.d = "slice" /\ v.t = "tuple" THEN
         (IF IsList(v) THEN LET es == ListElems(v) IN Combine([i \in 1..Len(es) |-> ReadTo(D.of, es[i])], "[", "]") ELSE FreeO)
  ELSE MapTo(D, v)                                     \* integers, booleans, Bits256, null and every kind mismatch: VmStackApi
ReadField(f, v) == ReadTo(FieldDest(f), v)
ReadLayout(L, rs) == [i \in 1..NF(L) |-> ReadField(L.fields[i], rs[i])]

\* the class of one (record, value) reading, in the naming of VmStackApi_Gen!UClass (C03's keys / patches/0007)
DestName(D) == CASE D.d = "int" -> StrCat(IF D.s THEN "i" ELSE "u", ToString(D.n)) [] D.d = "bool" -> "bool" [] D.d = "big" -> "big"
                 [] D.d = "bits256" -> "b256" [] D.d \in {"ubig", "sbig"} -> StrCat(D.d, ToString(D.n)) [] D.d = "tlb" -> StrCat("tlb:", D.ty)
                 [] D.d = "struct" -> StrCat("S", ToString(Len(D.fs))) [] D.d = "slice" -> "list" [] OTHER -> D.d
\* The names of patches/0007 are given only in the circumstances of those deviations (a vm_stk_int in [2^63, 2^64) into uint64; a
\* vm_stk_int of 2^64 or more in magnitude into bool; a non-zero tinyint into Bits256; any integer into a pointer; a one-entry tuple);
\* every other integer reading is "<kind>-><destination>:plain".
ReadClass(D, v) ==
  IF D.d = "ptr" THEN (IF IsIntKind(v) THEN "integer->ptr" ELSE StrCat(StrCat(v.t, "->ptr:"), DestName(D.of)))
  ELSE IF IsIntKind(v) /\ D.d \in {"int", "bits256"} /\ MapTo(D, v) = ErrO
    THEN (IF D.d = "int" THEN "integer->int:out-of-range" ELSE "integer->b256:out-of-range")
  ELSE IF v.t = "int" /\ D = DI(64, FALSE) /\ ~SFits(v.v, 64) THEN "int->u64"
  ELSE IF v.t = "int" /\ D.d = "bool" /\ Len(Mag(v.v)) > 64 THEN "int->bool"
  ELSE IF v.t = "tinyint" /\ D.d = "bits256" /\ ~IsZeroDec(v.v) THEN "tinyint->b256"
  ELSE IF v.t = "tuple" /\ D.d = "struct" /\ Len(v.es) = 1 /\ Len(D.fs) = 1 THEN "tuple1->S1"
  ELSE IF v.t = "tuple" THEN StrCat(StrCat(StrCat("tuple", ToString(Len(v.es))), "->"), DestName(D))
  ELSE IF IsIntKind(v) THEN StrCat(StrCat(StrCat(v.t, "->"), DestName(D)), ":plain")
  ELSE StrCat(StrCat(v.t, "->"), DestName(D))
\* every reading inside a (possibly nested) record, as a sequence
Flat(ss) == FoldLeft(LAMBDA a, x : a \o x, <<>>, ss)
RECURSIVE LeafClasses(_, _)
LeafClasses(D, v) ==
  IF D.d = "struct" /\ v.t = "tuple" /\ Len(v.es) = Len(D.fs)
    THEN <<ReadClass(D, v)>> \o Flat([i \in 1..Len(v.es) |-> LeafClasses(D.fs[i], v.es[i])])
  ELSE IF D.d = "slice" /\ v.t = "tuple" /\ IsList(v)
    THEN LET es == ListElems(v) IN <<"list">> \o Flat([i \in 1..Len(es) |-> LeafClasses(D.of, es[i])])
  ELSE IF D.d = "ptr" /\ ~IsIntKind(v) /\ v.t # "null" THEN LeafClasses(D.of, v)
  ELSE <<ReadClass(D, v)>>

LayoutClasses(L, rs) == Join([i \in 1..NF(L) |-> Join(LeafClasses(FieldDest(L.fields[i]), rs[i]), "+")], "|")

\* ---------------------------------------------------------------------- a call
\* what one decoder (DecodeXxxResult of layout L) must answer for the result stack rs; d = [res |-> "ok" | "err" | "panic",
\* fields |-> <<texts>>].  Returns "ok" or the class of the disagreement.
DecoderVerdict(L, rs, d) ==
  IF d.res = "panic" THEN "panic"
  ELSE IF ~Fits(L, rs) THEN (IF d.res = "err" THEN "ok" ELSE StrCat("shape:", WhyNot(L, rs)))
  ELSE LET fr  == ReadLayout(L, rs)
           err == {i \in 1..NF(L) : fr[i].k = "err"}
           bad == IF d.res = "ok" /\ Len(d.fields) = NF(L) THEN {i \in 1..NF(L) : fr[i].k = "val" /\ d.fields[i] # fr[i].s} ELSE {}
           Cls(i) == Join(LeafClasses(FieldDest(L.fields[i]), rs[i]), "+")
       IN IF err # {} THEN (IF d.res = "err" THEN "ok" ELSE StrCat("read:accepted:", Cls(CHOOSE i \in err : \A k \in err : i <= k)))
          ELSE IF d.res = "ok" THEN (IF Len(d.fields) # NF(L) THEN "fields:count"
                                     ELSE IF bad = {} THEN "ok" ELSE StrCat("read:value:", Cls(CHOOSE i \in bad : \A k \in bad : i <= k)))
          ELSE \* refused although the shape fits and no field is known to be unreadable: admitted only when some field is free
               LET free == {i \in 1..NF(L) : fr[i].k = "free"}
                   vals == {i \in 1..NF(L) : fr[i].k = "val"} IN
               IF free # {} THEN "ok" ELSE IF NF(L) = 0 THEN "read:refused:empty"
               ELSE StrCat("read:refused:", Join([i \in 1..NF(L) |-> Cls(i)], "|"))

\* the outcome of the call: o = [res |-> "ok" | "err" | "panic", layout, fields]; decs = what the decoders answered on the same
\* stack (judged by DecoderVerdict on their own).  "ok" or the class of the disagreement.
CallVerdict(m, exit, rs, decs, o) ==
  IF o.res = "panic" THEN "panic"
  ELSE IF exit \notin {"0", "1"} THEN (IF o.res = "err" THEN "ok" ELSE "exit-code")
  ELSE LET j == FirstFit(m, rs) IN
       IF j = 0 THEN (IF o.res = "err" THEN "ok" ELSE "selection:none-fits")
       ELSE IF decs[j].res = "ok"
         THEN (IF o.res = "ok" /\ o.layout = m.layouts[j].name /\ o.fields = decs[j].fields THEN "ok" ELSE "selection:first-fit")
       ELSE \* the selected layout could not be read: an error, or the next fitting layout that can
            IF o.res = "err" THEN "ok"
            ELSE IF \E k \in FitSet(m, rs) : /\ k > j /\ o.layout = m.layouts[k].name /\ decs[k].res = "ok" /\ o.fields = decs[k].fields
                                             /\ \A q \in FitSet(m, rs) : (j < q /\ q < k) => decs[q].res # "ok"
              THEN "ok" ELSE "selection:after-unreadable"
=============================================================================
