-------------------------------- MODULE Pool --------------------------------
(* C13, second clause: the wait list of the connection pool.                   *)
(*                                                                             *)
(*   "A caller waiting for a masterchain seqno returns success if the best     *)
(*    connection reports a head at or beyond that seqno in time, returns an    *)
(*    error once its timeout has elapsed or its context is cancelled           *)
(*    otherwise, and no interleaving of head updates, subscriptions and        *)
(*    unsubscriptions blocks the pool."                                        *)
(*                                                                             *)
(* The protocol (one action per critical section of the implementation):       *)
(*   Conn(k)    SetMasterHead: take the connection lock, monotone update,      *)
(*              publish <<k, seqno>> on the buffered update channel WHILE      *)
(*              HOLDING the lock, release.                                     *)
(*   RunLoop    receive an update -> notifySubscribers: read-lock the pool,    *)
(*              if the update comes from the best connection send the head to  *)
(*              every registered waiter's 1-slot channel, read-unlock;         *)
(*              ticker -> updateBest under the write lock (PoolSelect).        *)
(*   Waiter(w)  subscribe under the write lock (read the best connection's     *)
(*              head under that connection's lock; immediate reply if the best *)
(*              connection already has the seqno, else register), select loop  *)
(*              over {own channel, timer, context}, deferred unsubscribe under *)
(*              the write lock.                                                *)
(* The RWMutex is explicit: a set of readers, a writer, and a pending writer   *)
(* that blocks new readers (Go semantics).  Channels are bounded sequences.    *)
(* Time is a discrete clock with maximal progress: Tick is enabled only when   *)
(* no internal step is (internal steps take no time; the environment - new     *)
(* heads, new callers, cancellations, the ticker - is free).  "Still inside    *)
(* the call after the deadline" is therefore a state predicate.                *)
(*                                                                             *)
(* FixNotify / FixTimer / FixSetHead = TRUE is the protocol the code implements *)
(* (notify replaces a stale unread head instead of blocking; the timer is      *)
(* created once per call; SetMasterHead publishes after releasing the          *)
(* connection lock).  FALSE selects the protocol before those repairs (commits *)
(* ff488b7, 5bb5d7a, ef82c42 of /repo); it is kept because its counterexamples  *)
(* are replayed against the code as regression leads.                          *)
EXTENDS Naturals, Sequences, FiniteSets, TLC, PoolSelect

CONSTANTS NC,          \* number of connections (configuration order 1..NC)
          Waiters,     \* set of waiter ids
          None, RunP,  \* "no process", the run loop (lock owners)
          MaxSeq,      \* heads range over 0..MaxSeq
          Steps,       \* a reported head is head[k]+d, d \in Steps (0 = duplicate report)
          Wants,       \* seqnos callers wait for
          Timeouts,    \* timeouts callers use (Inf = no timer: BestMasterchainClient)
          UpdCap,      \* capacity of masterHeadUpdatedCh (10 in the code)
          MaxTime, Strategy, Rtt0, MaxFlips,
          FixNotify, FixTimer, FixSetHead

Conns == 1..NC
Inf   == 1000000000   \* "no timer"
WCap  == 1             \* capacity of a waiter's channel

VARIABLES
  head, alive, rtt,    \* per connection: reported masterchain head, liveness, round-trip time
  clk,                 \* clk[k]: connection k's lock is held (by its own SetMasterHead)
  updCh,               \* masterHeadUpdatedCh : Seq(<<k, seqno>>)
  cpc, cnew,           \* connection goroutine: pc, head being reported
  rw,                  \* pool RWMutex [w |-> writer, pend |-> pending writer, r |-> set of readers]
  best,                \* bestConn
  reg, ch,             \* reg[w]: w is in waitList; ch[w]: its channel, Seq(<<seqno, from, bestThen>>)
  wpc, want, tmo, hread, timer, orig, cancelled, result, okby, rett,
                       \* hread[w]: the head subscribe read from the best connection
  rpc, rupd, rtodo,    \* run loop: pc, update in hand, waiters still to notify
  now, flips

connVars == <<head, alive, rtt, clk, updCh, cpc, cnew>>
poolVars == <<rw, best, reg, ch>>
waitVars == <<wpc, want, tmo, hread, timer, orig, cancelled, result, okby, rett>>
runVars  == <<rpc, rupd, rtodo>>
vars     == <<connVars, poolVars, waitVars, runVars, now, flips>>

ConnState == [k \in Conns |-> [alive |-> alive[k], seqno |-> head[k], rtt |-> rtt[k]]]

\* ----------------------------------------------------------------- RWMutex
Free         == rw.w = None /\ rw.pend = None
RLock(p)     == rw' = [rw EXCEPT !.r = @ \cup {p}]
RUnlock(p)   == rw' = [rw EXCEPT !.r = @ \ {p}]
Announce(p)  == rw' = [rw EXCEPT !.pend = p]
CanAcquire(p) == rw.pend = p /\ rw.r = {}
Acquire(p)   == rw' = [rw EXCEPT !.w = p]
WUnlock      == rw' = [rw EXCEPT !.w = None, !.pend = None]

Init ==
  /\ head = [k \in Conns |-> 0] /\ alive = [k \in Conns |-> TRUE] /\ rtt = Rtt0
  /\ clk = [k \in Conns |-> FALSE] /\ updCh = <<>>
  /\ cpc = [k \in Conns |-> "idle"] /\ cnew = [k \in Conns |-> 0]
  /\ rw = [w |-> None, pend |-> None, r |-> {}] /\ best = 1
  /\ reg = [w \in Waiters |-> FALSE] /\ ch = [w \in Waiters |-> <<>>]
  /\ wpc = [w \in Waiters |-> "idle"] /\ want = [w \in Waiters |-> 0] /\ tmo = [w \in Waiters |-> 0]
  /\ hread = [w \in Waiters |-> 0]
  /\ timer = [w \in Waiters |-> Inf] /\ orig = [w \in Waiters |-> Inf]
  /\ cancelled = [w \in Waiters |-> FALSE] /\ result = [w \in Waiters |-> "none"]
  /\ okby = [w \in Waiters |-> <<0, 0, 0>>] /\ rett = [w \in Waiters |-> 0]
  /\ rpc = "idle" /\ rupd = <<0, 0>> /\ rtodo = {} /\ now = 0 /\ flips = 0

\* ------------------------------------------- connection.SetMasterHead(k, s)
G_SmhLock(k) == cpc[k] = "idle" /\ ~clk[k]
SmhLock(k, s) ==                                        \* environment: connection k learns head s
  /\ G_SmhLock(k)
  /\ cnew' = [cnew EXCEPT ![k] = s] /\ clk' = [clk EXCEPT ![k] = TRUE] /\ cpc' = [cpc EXCEPT ![k] = "locked"]
  /\ UNCHANGED <<head, alive, rtt, updCh, poolVars, waitVars, runVars, now, flips>>
G_SmhSet(k) == cpc[k] = "locked"
SmhSet(k) ==                                            \* monotone update under the lock
  /\ G_SmhSet(k)
  /\ IF cnew[k] > head[k]
       THEN head' = [head EXCEPT ![k] = cnew[k]] /\ cpc' = [cpc EXCEPT ![k] = "send"]
            /\ clk' = IF FixSetHead THEN [clk EXCEPT ![k] = FALSE] ELSE clk      \* repaired: publish after unlocking
       ELSE head' = head /\ cpc' = [cpc EXCEPT ![k] = "idle"] /\ clk' = [clk EXCEPT ![k] = FALSE]
  /\ UNCHANGED <<alive, rtt, updCh, cnew, poolVars, waitVars, runVars, now, flips>>
G_SmhSend(k) == cpc[k] = "send" /\ Len(updCh) < UpdCap
SmhSend(k) ==                                           \* publish while holding the lock, then release
  /\ G_SmhSend(k)
  /\ updCh' = Append(updCh, <<k, cnew[k]>>)
  /\ clk' = [clk EXCEPT ![k] = FALSE] /\ cpc' = [cpc EXCEPT ![k] = "idle"]
  /\ UNCHANGED <<head, alive, rtt, cnew, poolVars, waitVars, runVars, now, flips>>
\* environment: the liteclient under connection k goes down / comes back
Flip(k) == /\ flips < MaxFlips /\ flips' = flips + 1 /\ alive' = [alive EXCEPT ![k] = ~@]
           /\ UNCHANGED <<head, rtt, clk, updCh, cpc, cnew, poolVars, waitVars, runVars, now>>

\* ------------------------------------------------------------ ConnPool.Run
G_RunRecv == rpc = "idle" /\ updCh # <<>>
RunRecv == /\ G_RunRecv
           /\ rupd' = Head(updCh) /\ updCh' = Tail(updCh) /\ rpc' = "rlock" /\ rtodo' = rtodo
           /\ UNCHANGED <<head, alive, rtt, clk, cpc, cnew, poolVars, waitVars, now, flips>>
G_RunRLock == rpc = "rlock" /\ Free
RunRLock ==                                             \* notifySubscribers: RLock + "is it the best connection?"
  /\ G_RunRLock /\ RLock(RunP)
  /\ LET todo == IF rupd[1] = best THEN {w \in Waiters : reg[w]} ELSE {} IN
       /\ rtodo' = todo /\ rpc' = IF todo = {} THEN "exit" ELSE "send"
  /\ UNCHANGED <<connVars, best, reg, ch, waitVars, rupd, now, flips>>
G_RunSend(w) == rpc = "send" /\ w \in rtodo /\ (FixNotify \/ Len(ch[w]) < WCap)
RunSend(w) ==                                           \* ch <- head  (blocks while the slot is full)
  /\ G_RunSend(w)
  /\ ch' = [ch EXCEPT ![w] = IF FixNotify THEN <<<<rupd[2], rupd[1], best>>>> ELSE Append(@, <<rupd[2], rupd[1], best>>)]
  /\ rtodo' = rtodo \ {w} /\ rpc' = IF rtodo' = {} THEN "exit" ELSE "send"
  /\ UNCHANGED <<connVars, rw, best, reg, waitVars, rupd, now, flips>>
G_RunRUnlock == rpc = "exit"
RunRUnlock == /\ G_RunRUnlock /\ RUnlock(RunP) /\ rpc' = "idle"
              /\ UNCHANGED <<connVars, best, reg, ch, waitVars, rupd, rtodo, now, flips>>
\* ticker -> updateBest
RunTick == /\ rpc = "idle" /\ Free /\ Announce(RunP) /\ rpc' = "upd_acq"      \* environment: the ticker fires
           /\ UNCHANGED <<connVars, best, reg, ch, waitVars, rupd, rtodo, now, flips>>
G_RunUpdAcq == rpc = "upd_acq" /\ CanAcquire(RunP)
RunUpdAcq == /\ G_RunUpdAcq /\ Acquire(RunP) /\ rpc' = "upd_in"
             /\ UNCHANGED <<connVars, best, reg, ch, waitVars, rupd, rtodo, now, flips>>
G_RunUpdBody == rpc = "upd_in" /\ \A k \in Conns : ~clk[k]
RunUpdBody == /\ G_RunUpdBody
              /\ UpdateBest(Strategy, ConnState, best, best')
              /\ WUnlock /\ rpc' = "idle"
              /\ UNCHANGED <<connVars, reg, ch, waitVars, rupd, rtodo, now, flips>>

\* ---------------------------- WaitMasterchainSeqno / BestMasterchainClient
WStart(w, s, t) ==                                      \* environment: a caller arrives
  /\ wpc[w] = "idle"
  /\ want' = [want EXCEPT ![w] = s] /\ tmo' = [tmo EXCEPT ![w] = t] /\ wpc' = [wpc EXCEPT ![w] = "sub"]
  /\ UNCHANGED <<connVars, poolVars, hread, timer, orig, cancelled, result, okby, rett, runVars, now, flips>>
G_WSubAnn(w) == wpc[w] = "sub" /\ Free
WSubAnn(w) == /\ G_WSubAnn(w) /\ Announce(w) /\ wpc' = [wpc EXCEPT ![w] = "sub_acq"]
              /\ UNCHANGED <<connVars, best, reg, ch, want, tmo, hread, timer, orig, cancelled, result, okby, rett, runVars, now, flips>>
G_WSubAcq(w) == wpc[w] = "sub_acq" /\ CanAcquire(w)
WSubAcq(w) == /\ G_WSubAcq(w) /\ Acquire(w) /\ wpc' = [wpc EXCEPT ![w] = "sub_in"]
              /\ UNCHANGED <<connVars, best, reg, ch, want, tmo, hread, timer, orig, cancelled, result, okby, rett, runVars, now, flips>>
\* subscribe, first half: head := bestConn.MasterHead()  (under the connection's read lock; the pool's
\* write lock does not stop the connection from advancing afterwards)
G_WSubRead(w) == wpc[w] = "sub_in" /\ ~clk[best]
WSubRead(w) == /\ G_WSubRead(w) /\ hread' = [hread EXCEPT ![w] = head[best]] /\ wpc' = [wpc EXCEPT ![w] = "sub_rd"]
               /\ UNCHANGED <<connVars, poolVars, want, tmo, timer, orig, cancelled, result, okby, rett, runVars, now, flips>>
\* second half: immediate reply or registration, unlock; the caller enters its select (timer armed)
G_WSubBody(w) == wpc[w] = "sub_rd"
WSubBody(w) ==
  /\ G_WSubBody(w)
  /\ IF hread[w] >= want[w]
       THEN ch' = [ch EXCEPT ![w] = <<<<hread[w], best, best>>>>] /\ reg' = reg
       ELSE ch' = ch /\ reg' = [reg EXCEPT ![w] = TRUE]
  /\ WUnlock /\ best' = best /\ wpc' = [wpc EXCEPT ![w] = "waiting"]
  /\ LET d == IF tmo[w] = Inf THEN Inf ELSE now + tmo[w] IN
       timer' = [timer EXCEPT ![w] = d] /\ orig' = [orig EXCEPT ![w] = d]
  /\ UNCHANGED <<connVars, want, tmo, hread, cancelled, result, okby, rett, runVars, now, flips>>
G_WRecv(w) == wpc[w] = "waiting" /\ ch[w] # <<>>
WRecv(w) ==
  /\ G_WRecv(w)
  /\ ch' = [ch EXCEPT ![w] = Tail(@)]
  /\ IF Head(ch[w])[1] >= want[w]
       THEN /\ result' = [result EXCEPT ![w] = "ok"] /\ okby' = [okby EXCEPT ![w] = Head(ch[w])]
            /\ rett' = [rett EXCEPT ![w] = now] /\ wpc' = [wpc EXCEPT ![w] = "unsub"] /\ timer' = timer
       ELSE /\ UNCHANGED <<result, okby, rett, wpc>>
            /\ timer' = IF FixTimer \/ tmo[w] = Inf THEN timer ELSE [timer EXCEPT ![w] = now + tmo[w]]  \* time.After re-armed
  /\ UNCHANGED <<connVars, rw, best, reg, want, tmo, hread, orig, cancelled, runVars, now, flips>>
G_WTimeout(w) == wpc[w] = "waiting" /\ now >= timer[w]
WTimeout(w) == /\ G_WTimeout(w)
               /\ result' = [result EXCEPT ![w] = "timeout"] /\ rett' = [rett EXCEPT ![w] = now]
               /\ wpc' = [wpc EXCEPT ![w] = "unsub"]
               /\ UNCHANGED <<connVars, poolVars, want, tmo, hread, timer, orig, cancelled, okby, runVars, now, flips>>
\* a context cancelled earlier is observed only in the select, so cancelling is modelled there
Cancel(w) == /\ wpc[w] = "waiting" /\ ~cancelled[w] /\ cancelled' = [cancelled EXCEPT ![w] = TRUE]   \* environment
             /\ UNCHANGED <<connVars, poolVars, wpc, want, tmo, hread, timer, orig, result, okby, rett, runVars, now, flips>>
G_WCancelRet(w) == wpc[w] = "waiting" /\ cancelled[w]
WCancelRet(w) == /\ G_WCancelRet(w)
                 /\ result' = [result EXCEPT ![w] = "cancel"] /\ rett' = [rett EXCEPT ![w] = now]
                 /\ wpc' = [wpc EXCEPT ![w] = "unsub"]
                 /\ UNCHANGED <<connVars, poolVars, want, tmo, hread, timer, orig, cancelled, okby, runVars, now, flips>>
G_WUnsubAnn(w) == wpc[w] = "unsub" /\ Free
WUnsubAnn(w) == /\ G_WUnsubAnn(w) /\ Announce(w) /\ wpc' = [wpc EXCEPT ![w] = "unsub_acq"]
                /\ UNCHANGED <<connVars, best, reg, ch, want, tmo, hread, timer, orig, cancelled, result, okby, rett, runVars, now, flips>>
G_WUnsubAcq(w) == wpc[w] = "unsub_acq" /\ CanAcquire(w)
WUnsubAcq(w) == /\ G_WUnsubAcq(w) /\ Acquire(w) /\ wpc' = [wpc EXCEPT ![w] = "unsub_in"]
                /\ UNCHANGED <<connVars, best, reg, ch, want, tmo, hread, timer, orig, cancelled, result, okby, rett, runVars, now, flips>>
G_WUnsubBody(w) == wpc[w] = "unsub_in"
WUnsubBody(w) == /\ G_WUnsubBody(w) /\ reg' = [reg EXCEPT ![w] = FALSE] /\ WUnlock
                 /\ wpc' = [wpc EXCEPT ![w] = "done"]
                 /\ UNCHANGED <<connVars, best, ch, want, tmo, hread, timer, orig, cancelled, result, okby, rett, runVars, now, flips>>

\* ------------------------------------------------------------------- time
InternalEnabled ==
  \/ \E k \in Conns : G_SmhSet(k) \/ G_SmhSend(k)
  \/ G_RunRecv \/ G_RunRLock \/ G_RunRUnlock \/ G_RunUpdAcq \/ G_RunUpdBody
  \/ \E w \in Waiters : \/ G_RunSend(w) \/ G_WSubAnn(w) \/ G_WSubAcq(w) \/ G_WSubRead(w) \/ G_WSubBody(w) \/ G_WRecv(w)
                        \/ G_WTimeout(w) \/ G_WCancelRet(w) \/ G_WUnsubAnn(w) \/ G_WUnsubAcq(w) \/ G_WUnsubBody(w)
Tick == /\ now < MaxTime /\ ~InternalEnabled /\ now' = now + 1
        /\ UNCHANGED <<connVars, poolVars, waitVars, runVars, flips>>

Internal ==
  \/ \E k \in Conns : SmhSet(k) \/ SmhSend(k)
  \/ RunRecv \/ RunRLock \/ RunRUnlock \/ RunUpdAcq \/ RunUpdBody
  \/ \E w \in Waiters : \/ RunSend(w) \/ WSubAnn(w) \/ WSubAcq(w) \/ WSubRead(w) \/ WSubBody(w) \/ WRecv(w) \/ WTimeout(w)
                        \/ WCancelRet(w) \/ WUnsubAnn(w) \/ WUnsubAcq(w) \/ WUnsubBody(w)
Env ==
  \/ \E k \in Conns : (\E d \in Steps : head[k] + d \in 1..MaxSeq /\ SmhLock(k, head[k] + d)) \/ Flip(k)
  \/ RunTick
  \/ \E w \in Waiters : (\E s \in Wants, t \in Timeouts : WStart(w, s, t)) \/ Cancel(w)
  \/ Tick
Next == Internal \/ Env
Spec == Init /\ [][Next]_vars

\* -------------------------------------------------------------- properties
\* somebody is inside a call / the run loop is busy
MidCall == \/ \E k \in Conns : cpc[k] # "idle"
           \/ rpc # "idle"
           \/ \E w \in Waiters : wpc[w] \notin {"idle", "waiting", "done"}
\* "no interleaving ... blocks the pool": whenever a call is in progress some internal step is possible
\* (the environment can only start new calls, it cannot release a lock or drain a channel)
Wedged     == MidCall /\ ~InternalEnabled
NeverStuck == ~Wedged
\* classification of a wedged state (for the replay keys)
WedgedOnNotify  == Wedged /\ rpc = "send"
WedgedOnSetHead == Wedged /\ rpc # "send" /\ \E k \in Conns : cpc[k] = "send"

\* success is justified: the head that woke the caller is >= the seqno asked for, was reported by the
\* connection it is attributed to, and that connection was the best one when the head was handed over
OkJustified == \A w \in Waiters : result[w] = "ok" =>
                  /\ okby[w][1] >= want[w] /\ okby[w][2] \in Conns
                  /\ head[okby[w][2]] >= okby[w][1] /\ okby[w][2] = okby[w][3]
\* an error only at/after the deadline, or after a cancellation
ErrJustified == \A w \in Waiters : /\ result[w] = "timeout" => (orig[w] # Inf /\ rett[w] >= orig[w])
                                   /\ result[w] = "cancel" => cancelled[w]
\* nobody is still inside the call when the clock has passed its deadline
Late(w)    == wpc[w] \notin {"idle", "sub", "sub_acq", "sub_in", "sub_rd", "done"} /\ orig[w] # Inf /\ now > orig[w]
ByDeadline == \A w \in Waiters : ~Late(w)
\* a caller still in its select after the deadline (only a re-armed timer can do that)
LateInSelect(w) == Late(w) /\ wpc[w] = "waiting"

TypeOK == /\ head \in [Conns -> 0..MaxSeq] /\ Len(updCh) <= UpdCap
          /\ \A w \in Waiters : Len(ch[w]) <= WCap
          /\ best \in Conns /\ rw.r \subseteq {RunP}
          /\ (rw.w # None => rw.pend = rw.w /\ rw.r = {})
=============================================================================
