------------------------------ MODULE LiteAuth ------------------------------
(* X03 (A): client authentication on an ADNL-TCP connection (adnl-ext-client / *)
(* adnl-ext-server), written from ton_api.tl and the reference client/server,  *)
(* not from tongo's connection.go.                                             *)
(*                                                                             *)
(* After the ADNL handshake (Adnl.tla) every packet payload is a TL object.    *)
(*   tcp.authentificate nonce:bytes = tcp.Message              id 445bab12     *)
(*   tcp.authentificationNonce nonce:bytes = tcp.Message        id e35d4ab6     *)
(*   tcp.authentificationComplete key:PublicKey signature:bytes               *)
(*                                = tcp.Message                 id f7ad9ea6     *)
(*   pub.ed25519 key:int256 = PublicKey                         id 4813b4c6     *)
(* ids travel as little-endian 32-bit numbers; `bytes` is the TL byte string   *)
(* (length prefix, data, zero padding to a multiple of four: TlSem!TlBytes).   *)
(*                                                                             *)
(* A client that has an identity (an Ed25519 key) sends tcp.authentificate     *)
(* with a fresh nonce first.  The server answers tcp.authentificationNonce     *)
(* with its own nonce; the client accepts a server nonce of 1..512 bytes and   *)
(* refuses any other (protocol violation: nothing is signed).  It then sends   *)
(* the BOXED object                                                            *)
(*   a6 9e ad f7 || c6 b4 13 48 || key(32) || TlBytes(signature(64))           *)
(* where signature = Ed25519(client key, client nonce || server nonce); the    *)
(* server verifies it.  A connection without identity performs no such step.   *)
(*                                                                             *)
(* Part 1: byte layouts.  Part 2: how a client may react to what a server      *)
(* sends, as a nondeterministic state machine over abstract server events -    *)
(* nondeterministic exactly where the documents leave the client free (what    *)
(* to do with a packet that is neither pong nor nonce, with a nonce nobody     *)
(* asked for, how long to wait).  Part 3: the judgement of one recorded        *)
(* session against parts 1 and 2 (used by LiteAuth_Trace; LiteAuth_Gen uses    *)
(* part 2 to enumerate server scripts together with what they allow).          *)
EXTENDS Integers, Sequences, FiniteSets, Prim

TL == INSTANCE TlSem
\* the ADNL layer is C11's; only its key tag is needed here (the same boxed pub.ed25519 that the key id hashes)
A  == INSTANCE Adnl WITH hs <- "none", cp <- <<>>, sp <- <<>>, wire <- <<>>, buf <- <<>>, txoff <- <<>>, rxoff <- <<>>,
                         sent <- <<>>, delivered <- <<>>, dead <- <<>>, eof <- <<>>, got <- <<>>, units <- <<>>, hit <- <<>>

\* ===================================================================== part 1
AuthId     == TL!IdBytes("445bab12")
NonceId    == TL!IdBytes("e35d4ab6")
CompleteId == TL!IdBytes("f7ad9ea6")
PingId     == TL!IdBytes("4d082b9a")
PongId     == TL!IdBytes("dc69fb03")
QueryId    == TL!IdBytes("b48bf97a")
AnswerId   == TL!IdBytes("0fac8416")
PubEdTag   == A!PubKeyTag                        \* c6 b4 13 48

ClientNonceLen == 32
MinServerNonce == 1
MaxServerNonce == 512
SigLen         == 64

AuthPkt(nc)         == AuthId \o TL!TlBytes(nc)
NoncePkt(ns)        == NonceId \o TL!TlBytes(ns)
SignedText(nc, ns)  == nc \o ns
CompletePkt(pub, sig) == CompleteId \o PubEdTag \o pub \o TL!TlBytes(sig)

HasId(b, id) == Len(b) >= 4 /\ SubSeq(b, 1, 4) = id
\* an object `id bytes` and nothing else: [ok, data]
ParseBytesObj(b, id) ==
  IF ~HasId(b, id) THEN [ok |-> FALSE, data |-> <<>>]
  ELSE LET d == TL!DecBytes(b, 4) IN
       IF d.ok /\ d.p = Len(b) THEN [ok |-> TRUE, data |-> HexToBytes(d.v)] ELSE [ok |-> FALSE, data |-> <<>>]
\* the boxed completion and nothing else: [ok, pub, sig]
ParseComplete(b) ==
  IF ~HasId(b, CompleteId) \/ Len(b) < 40 \/ SubSeq(b, 5, 8) # PubEdTag THEN [ok |-> FALSE, pub |-> <<>>, sig |-> <<>>]
  ELSE LET d == TL!DecBytes(b, 40) IN
       IF d.ok /\ d.p = Len(b) THEN [ok |-> TRUE, pub |-> SubSeq(b, 9, 40), sig |-> HexToBytes(d.v)]
       ELSE [ok |-> FALSE, pub |-> <<>>, sig |-> <<>>]

IsPing(b)  == HasId(b, PingId) /\ Len(b) = 12
IsPong(b)  == HasId(b, PongId) /\ Len(b) = 12
IsQuery(b) == HasId(b, QueryId)

\* ===================================================================== part 2
\* What a server packet is to a client, read off its bytes.
\*   pong        tcp.pong: of no consequence
\*   nonce_ok    a well-formed tcp.authentificationNonce with 1..512 bytes
\*   nonce_bad   carries the nonce id but is malformed, empty or too long: a protocol violation
\*   other       anything else (answers to queries nobody made, unknown objects, the empty packet): the reference
\*               client drops some of these silently and closes the connection on others - the client is free
Classify(b) ==
  IF IsPong(b) THEN [t |-> "pong", ns |-> <<>>]
  ELSE IF HasId(b, NonceId) THEN
    LET p == ParseBytesObj(b, NonceId) IN
    IF p.ok /\ Len(p.data) >= MinServerNonce /\ Len(p.data) <= MaxServerNonce THEN [t |-> "nonce_ok", ns |-> p.data]
    ELSE [t |-> "nonce_bad", ns |-> <<>>]
  ELSE [t |-> "other", ns |-> <<>>]
\* a pause in the script that is as long as any client may be expected to wait
GapEvent == [t |-> "gap", ns |-> <<>>]
LongWait == 9000      \* ms: from here on a client may have given up (the documents name no figure)

\* Client states.  st: "wait" (identity sent, no nonce yet) | "up" (usable) | "lost" (was usable, may have been
\* closed since: the connection call succeeded, later traffic is not guaranteed) | "failed" (the connection call fails).
\* sigs: the server nonces the client has signed (each is one tcp.authentificationComplete on the wire).
CInit(key) == [st |-> IF key THEN "wait" ELSE "up", sigs |-> <<>>]

StepWait(s, e) ==
  CASE e.t = "pong"      -> {s}
    [] e.t = "nonce_ok"  -> {[st |-> "up", sigs |-> Append(s.sigs, e.ns)]}
    [] e.t = "nonce_bad" -> {[s EXCEPT !.st = "failed"]}
    [] e.t = "other"     -> {s, [s EXCEPT !.st = "failed"]}
    [] e.t = "gap"       -> {s, [s EXCEPT !.st = "failed"]}
\* nothing is ever signed twice, nor without having asked: a nonce is answered only in "wait"
StepUp(s, e) == IF e.t \in {"pong", "gap"} THEN {s} ELSE {s, [s EXCEPT !.st = "lost"]}
\* the call has failed or is failing; a later well-formed nonce may still be answered on the dying connection
\* (harmless: it signs that nonce), a refused one never is
StepFailed(key, s, e) == IF e.t = "nonce_ok" /\ key THEN {s, [s EXCEPT !.sigs = Append(@, e.ns)]} ELSE {s}
CStep(key, s, e) ==
  IF s.st = "wait" THEN StepWait(s, e)
  ELSE IF s.st \in {"up", "lost"} THEN StepUp(s, e)
  ELSE StepFailed(key, s, e)

RECURSIVE CRun(_, _, _)
CRun(key, S, es) == IF es = <<>> THEN S ELSE CRun(key, UNION {CStep(key, s, Head(es)) : s \in S}, Tail(es))
\* when the script is exhausted the server stays silent: a client still waiting gives up (timeout or cancellation)
CEnd(S) == {IF s.st = "wait" THEN [s EXCEPT !.st = "failed"] ELSE s : s \in S}
Outcomes(key, es) == CEnd(CRun(key, {CInit(key)}, es))
\* the events of a script: its packets, with a gap wherever the server pauses for long
RECURSIVE EventsOf(_)
EventsOf(send) ==
  IF send = <<>> THEN <<>>
  ELSE (IF Head(send).wait >= LongWait THEN <<GapEvent>> ELSE <<>>) \o <<Classify(HexToBytes(Head(send).hex))>> \o EventsOf(Tail(send))

\* properties of the machine itself (checked by TLC on every generated script)
NeverSignsTwiceWhileUp(O) == \A o \in O : o.st \in {"up", "lost"} => Len(o.sigs) <= 1
SignsOnlyWithIdentity(key, O) == ~key => \A o \in O : o.sigs = <<>>
UpMeansSigned(key, O) == key => \A o \in O : o.st \in {"up", "lost"} => Len(o.sigs) = 1

\* ===================================================================== part 3
\* One recorded session: `c2s` the client's packets in order (payload bytes), `send` the script the server played.
\* Returns the set of violated clauses.
NonPing(c2s) == SelectSeq(c2s, LAMBDA b : ~IsPing(b))
Rest(key, c2s) == LET P == NonPing(c2s) IN IF key /\ P # <<>> THEN Tail(P) ELSE P
Completions(key, c2s) == SelectSeq(Rest(key, c2s), LAMBDA b : ~IsQuery(b))
ValidNonces(send) == {Classify(HexToBytes(send[i].hex)).ns : i \in {j \in 1..Len(send) : Classify(HexToBytes(send[j].hex)).t = "nonce_ok"}}

ClientNonceOf(key, c2s) ==
  LET P == NonPing(c2s) IN
  IF ~key \/ P = <<>> THEN <<>> ELSE ParseBytesObj(P[1], AuthId).data

FirstPacketOK(key, c2s) ==
  LET P == NonPing(c2s) IN
  IF key THEN /\ P # <<>>
              /\ LET p == ParseBytesObj(P[1], AuthId) IN
                 p.ok /\ Len(p.data) = ClientNonceLen /\ P[1] = AuthPkt(p.data)
         ELSE \A i \in 1..Len(P) : ~HasId(P[i], AuthId)
\* every later packet that is no query is the boxed completion carrying the client's own key, canonically encoded
BoxedOK(key, pub, c2s) ==
  \A i \in 1..Len(Completions(key, c2s)) :
     LET b == Completions(key, c2s)[i]  p == ParseComplete(b) IN
     key /\ p.ok /\ p.pub = pub /\ Len(p.sig) = SigLen /\ b = CompletePkt(p.pub, p.sig)
\* and its signature is the client key's over client nonce || a server nonce that was really sent and is acceptable
SignatureOK(key, pub, c2s, send) ==
  \A i \in 1..Len(Completions(key, c2s)) :
     LET p == ParseComplete(Completions(key, c2s)[i]) IN
     p.ok => \E ns \in ValidNonces(send) : EdVerify(pub, SignedText(ClientNonceOf(key, c2s), ns), p.sig)
\* the server nonces signed, in order (<<>> for a completion that verifies under none)
SignedNonces(key, pub, c2s, send) ==
  LET C == Completions(key, c2s) IN
  [i \in 1..Len(C) |->
     LET p == ParseComplete(C[i])
         m == {ns \in ValidNonces(send) : p.ok /\ EdVerify(pub, SignedText(ClientNonceOf(key, c2s), ns), p.sig)}
     IN IF m = {} THEN <<>> ELSE CHOOSE ns \in m : TRUE]
=============================================================================
