-------------------------------- MODULE TonDns --------------------------------
(* X06 (first half): TON DNS name resolution as a client performs it.            *)
(*                                                                               *)
(* Written from TEP-81 ("TON DNS Standard") and the DNS chapter of the TON       *)
(* documentation, not from the Go code:                                          *)
(*  * Domain names are UTF-8 strings of at most 126 bytes, components separated  *)
(*    by ".".  Bytes 0..32 are not allowed in a name.  Names are case-sensitive  *)
(*    on chain; applications lower-case them before a lookup.                    *)
(*  * Internal representation: the name is split at ".", a zero byte is appended *)
(*    to every component and the components are concatenated in reverse order:   *)
(*    "test.ton" -> "ton\0test\0".  "." (the resolver itself) is one zero byte.  *)
(*    A resolver skips one leading zero byte, so "\0ton\0test\0" is read alike.  *)
(*  * dnsresolve(subdomain: slice, category: int) -> (resolved_bits, cell):      *)
(*    method id (crc16("dnsresolve") & 0xffff) | 0x10000 = 123660; category 0    *)
(*    asks for all records.  (0, null): nothing known.  resolved_bits is a       *)
(*    multiple of 8 and at most the bits of the subdomain.  If it covers the     *)
(*    whole subdomain the cell is the record set (category 0: the dictionary     *)
(*    sha256(category name) -> ^DNSRecord, or null when there are no records).   *)
(*    If it covers a proper prefix the cell is a dns_next_resolver#ba93 record   *)
(*    and the client continues with that contract and the REST of the bytes.     *)
(*  * The resolver contracts are foreign code: whatever they answer, a client    *)
(*    either follows the protocol or reports failure.  It never crashes.         *)
(*                                                                               *)
(* Names and subdomains are byte sequences.  Resolver addresses are texts        *)
(* "wc:hex".  Record sets are sets of labels (the harness builds one cell per    *)
(* label and maps the decoded records back).                                     *)
EXTENDS TextForms, FiniteSets

\* ------------------------------------------------------------------- names
Dot == 46
Components(name) == SplitAt(name, Dot)
RECURSIVE ConcatRev(_)
ConcatRev(cs) == IF Len(cs) = 0 THEN <<>> ELSE cs[Len(cs)] \o <<0>> \o ConcatRev(Front(cs))
Encode(name) == ConcatRev(Components(name))
ASSUME Encode(StrToCodes("test.ton")) = StrToCodes("ton") \o <<0>> \o StrToCodes("test") \o <<0>>
ASSUME Encode(StrToCodes("ton")) = StrToCodes("ton") \o <<0>>
Lower(cs) == [i \in 1..Len(cs) |-> IF cs[i] \in 65..90 THEN cs[i] + 32 ELSE cs[i]]
\* "ok"    a name of the standard, already lower case: what is sent is fixed
\* "self"  "" / ".": the resolver itself (one zero byte; the library's reading of "" is its own business)
\* "nul"   a zero byte inside a component: the internal representation would be that of ANOTHER name
\* "case"  a name of the standard with upper-case ASCII letters: lower-casing is the application's duty
\* "lax"   anything else the standard does not call a name (empty components, bytes 1..32, more than 126 bytes)
NameClass(name) ==
  IF name = <<>> \/ name = <<Dot>> THEN "self"
  ELSE IF \E i \in 1..Len(name) : name[i] = 0 THEN "nul"
  ELSE IF Len(name) > 126 \/ (\E i \in 1..Len(name) : name[i] <= 32)
          \/ (\E k \in 1..Len(Components(name)) : Components(name)[k] = <<>>) THEN "lax"
  ELSE IF Lower(name) # name THEN "case"
  ELSE "ok"
\* the subdomains a client may open the conversation with
FirstSubdomains(name) ==
  LET cl == NameClass(name) IN
  CASE cl = "ok"   -> {Encode(name), <<0>> \o Encode(name)}
    [] cl = "self" -> {<<0>>, <<0, 0>>}
    [] cl = "case" -> {Encode(name), <<0>> \o Encode(name), Encode(Lower(name)), <<0>> \o Encode(Lower(name))}
    [] OTHER       -> {}            \* "nul": nothing may be sent.  "lax": not decided (see Open)

DnsResolveMethod == MethodId(StrToCodes("dnsresolve"))
ASSUME DnsResolveMethod = 123660

\* ------------------------------------------------- answers of a resolver contract
\* ans = [fail, exit, shape, bits (decimal text), cell]
\*   fail   the executor itself reported an error (no such account, network)
\*   exit   TVM exit code
\*   shape  "pair": (int, cell-or-null)  |  "three": the pair on top of one more value (a client may take the pair or refuse:
\*          see Lenient)  |  anything else: not the result of dnsresolve
\*          "recs:" without labels stands for an empty cell where the dictionary should be (no Hashmap is empty)
\*   cell   "null" | "next:<addr>" (dns_next_resolver, addr_std) | "next:none" / "next:ext" (dns_next_resolver with addr_none /
\*          addr_extern: not a MsgAddressInt)
\*          | "recs:<l1>,<l2>.." (a record dictionary) | "rec:<label>" (one bare record, no dictionary) | "garbage"
StrPrefix(p, s) == StrLen(s) >= StrLen(p) /\ SubStr(s, 1, StrLen(p)) = p
StrAfter(p, s)    == SubStr(s, StrLen(p) + 1, StrLen(s))
BitsOk(ans, d) ==        \* a multiple of 8, positive, within the subdomain
  /\ DecSyntax(StrToCodes(ans.bits)) = "canon" /\ SubStr(ans.bits, 1, 1) # "-" /\ ans.bits # "0"
  /\ Len(DecToBits(ans.bits)) <= 20
  /\ LET b == BitsNum(DecToBits(ans.bits)) IN b % 8 = 0 /\ b \div 8 <= Len(d)
\* what the client has to do after `ans` to its call (resolver, d):
\*   [do |-> "call", res, d]       continue with the next resolver and the rest of the bytes
\*   [do |-> "ok", recs]           return these records
\*   [do |-> "err"]                report failure
\*   [do |-> "free"]               the documents do not decide (failure, or success with any records)
Decide(ans, d) ==
  IF ans.fail \/ ans.exit \notin {0, 1} \/ ans.shape \notin {"pair", "three"} THEN [do |-> "err"]
  ELSE IF ~BitsOk(ans, d) THEN [do |-> "err"]
  ELSE LET n == BitsNum(DecToBits(ans.bits)) \div 8 IN
       IF n = Len(d) THEN
            IF StrPrefix("recs:", ans.cell) /\ ans.cell # "recs:" THEN [do |-> "ok", recs |-> StrAfter("recs:", ans.cell)]
            ELSE IF ans.cell = "null" THEN [do |-> "free"]                  \* resolved, but no records: failure or an empty list
            ELSE [do |-> "free"]                                            \* a cell that is no dictionary: whatever a decoder makes of it
       ELSE IF StrPrefix("next:", ans.cell) /\ ans.cell \notin {"next:none", "next:ext"}
            THEN [do |-> "call", res |-> StrAfter("next:", ans.cell), d |-> SubSeq(d, n + 1, Len(d))]
            ELSE [do |-> "err"]                                             \* partial resolution without a next resolver

Lenient(ans) == ~ans.fail /\ ans.shape = "three"          \* after such an answer a failure report is admitted as well

\* ------------------------------------------------------------- the client
\* state: [ph, res, d]   ph = "open" (before the first call) | "call" (a call to res with d is due) | "ret" (a return is due) | "done"
\* the whole conversation for a script of answers (used by the generator): calls made and the outcome
RECURSIVE Converse(_, _, _, _)
Converse(res, d, script, calls) ==
  IF Len(script) = 0 THEN [calls |-> calls \o <<[res |-> res, d |-> d]>>, out |-> [do |-> "exhausted"]] ELSE
  LET dec == Decide(script[1], d)  cs == calls \o <<[res |-> res, d |-> d]>> IN
  IF dec.do = "call" THEN Converse(dec.res, dec.d, Tail(script), cs) ELSE [calls |-> cs, out |-> dec]
=============================================================================
