-------------------------------- MODULE Dict --------------------------------
(* TON dictionaries (Hashmap / HashmapE), from block.tlb:                      *)
(*   hm_edge#_ {n:#} {X:Type} {l:#} {m:#} label:(HmLabel ~l n) {n = (~m) + l} node:(HashmapNode m X) = Hashmap n X;   *)
(*   hmn_leaf#_ {X:Type} value:X = HashmapNode 0 X;                             *)
(*   hmn_fork#_ {n:#} {X:Type} left:^(Hashmap n X) right:^(Hashmap n X) = HashmapNode (n + 1) X;                      *)
(*   hml_short$0 {m:#} {n:#} len:(Unary ~n) {n <= m} s:(n * Bit) = HmLabel ~n m;                                      *)
(*   hml_long$10 {m:#} n:(#<= m) s:(n * Bit) = HmLabel ~n m;                    *)
(*   hml_same$11 {m:#} v:Bit n:(#<= m) = HmLabel ~n m;                          *)
(*   hme_empty$0 / hme_root$1 root:^(Hashmap n X) = HashmapE n X;               *)
(* The abstract value of a dictionary is a finite map from n-bit keys to value  *)
(* slices.  Dec accepts every label form on every edge (another implementation  *)
(* may choose any); Enc(.., form) is the non-deterministic reference writer.    *)
EXTENDS Cells, TLC

\* ------------------------------------------------------------------- helpers
RECURSIVE BitLenN(_)
BitLenN(n) == IF n = 0 THEN 0 ELSE 1 + BitLenN(n \div 2)
RECURSIVE BitsToNat(_)
BitsToNat(b) == IF Len(b) = 0 THEN 0 ELSE 2 * BitsToNat(SubSeq(b, 1, Len(b) - 1)) + b[Len(b)]
RECURSIVE NatToBits(_, _)
NatToBits(v, w) == IF w = 0 THEN <<>> ELSE NatToBits(v \div 2, w - 1) \o <<v % 2>>
RECURSIVE CountOnes(_, _)
CountOnes(b, i) == IF i > Len(b) \/ b[i] = 0 THEN 0 ELSE 1 + CountOnes(b, i + 1)   \* leading ones from position i
DErr(e) == [ok |-> FALSE, err |-> e]

\* ---------------------------------------------------------------- label parse
\* Label at the start of `bits` when m key bits remain: [ok, s (label bits), used (bits consumed)]
Label(bits, m) ==
  IF Len(bits) < 1 THEN DErr("label:empty")
  ELSE IF bits[1] = 0 THEN                                      \* hml_short: 0, unary len, bits
    LET n == CountOnes(bits, 2) IN
    IF 2 + n > Len(bits) THEN DErr("label:short:unary")          \* no terminating 0
    ELSE IF n > m THEN DErr("label:short:n>m")
    ELSE IF 2 + 2 * n > Len(bits) THEN DErr("label:short:bits")
    ELSE [ok |-> TRUE, s |-> SubSeq(bits, 3 + n, 2 + 2 * n), used |-> 2 + 2 * n]
  ELSE IF Len(bits) < 2 THEN DErr("label:tag")
  ELSE IF bits[2] = 0 THEN                                      \* hml_long: 10, n:(#<= m), bits
    LET w == BitLenN(m) IN
    IF 2 + w > Len(bits) THEN DErr("label:long:len")
    ELSE LET n == BitsToNat(SubSeq(bits, 3, 2 + w)) IN
         IF n > m THEN DErr("label:long:n>m")
         ELSE IF 2 + w + n > Len(bits) THEN DErr("label:long:bits")
         ELSE [ok |-> TRUE, s |-> SubSeq(bits, 3 + w, 2 + w + n), used |-> 2 + w + n]
  ELSE                                                          \* hml_same: 11, v, n:(#<= m)
    LET w == BitLenN(m) IN
    IF 3 + w > Len(bits) THEN DErr("label:same:len")
    ELSE LET n == BitsToNat(SubSeq(bits, 4, 3 + w)) IN
         IF n > m THEN DErr("label:same:n>m")
         ELSE [ok |-> TRUE, s |-> [i \in 1..n |-> bits[3]], used |-> 3 + w]

\* ---------------------------------------------------------------------- decode
\* Dec(T, i, n, prefix): the pairs under the edge stored in cell i with n key bits remaining, in traversal order
\* (left before right = ascending key-bit order). A value is the slice left in the leaf cell: [b |-> bits, r |-> refs].
RECURSIVE DecEdge(_, _, _, _)
DecEdge(T, i, n, prefix) ==
  LET c == T[i] IN
  IF c.x # Ordinary THEN DErr("node:exotic")
  ELSE
  LET lb == Label(c.b, n) IN
  IF ~lb.ok THEN lb
  ELSE
  LET m == n - Len(lb.s)
      key == prefix \o lb.s
  IN IF m = 0
       THEN [ok |-> TRUE, items |-> << [k |-> key, v |-> [b |-> SubSeq(c.b, lb.used + 1, Len(c.b)), r |-> c.r]] >>]
     ELSE IF Len(c.r) # 2 THEN DErr("fork:refs")
     ELSE IF lb.used # Len(c.b) THEN DErr("fork:extra-bits")
     ELSE LET L == DecEdge(T, c.r[1], m - 1, key \o <<0>>) IN
          IF ~L.ok THEN L
          ELSE LET R == DecEdge(T, c.r[2], m - 1, key \o <<1>>) IN
               IF ~R.ok THEN R ELSE [ok |-> TRUE, items |-> L.items \o R.items]

\* HashmapE stored at the beginning of cell i: a Maybe bit, then ^Hashmap
DecDictE(T, i, n) ==
  LET c == T[i] IN
  IF Len(c.b) < 1 THEN DErr("hme:empty-cell")
  ELSE IF c.b[1] = 0 THEN [ok |-> TRUE, items |-> <<>>]
  ELSE IF Len(c.r) < 1 THEN DErr("hme:no-ref")
  ELSE DecEdge(T, c.r[1], n, <<>>)

\* ---------------------------------------------------------------------- encode
\* Reference writer. items: sequence of [k, v] sorted by key bits, distinct keys of length = n + Len(prefix consumed);
\* form(depth, path) \in {"short", "long", "same", "auto"} chooses the label form per edge ("same" only when legal).
LabelBits(s, m, form) ==
  LET n == Len(s)
      same == \A i \in 1..n : s[i] = s[1]            \* an empty label is also expressible as hml_same (n = 0, any v)
      f == IF form = "same" /\ ~same THEN "long" ELSE form
  IN CASE f = "short" -> <<0>> \o [i \in 1..n |-> 1] \o <<0>> \o s
       [] f = "long"  -> <<1, 0>> \o NatToBits(n, BitLenN(m)) \o s
       [] f = "same"  -> <<1, 1, IF n = 0 THEN (m % 2) ELSE s[1]>> \o NatToBits(n, BitLenN(m))

\* longest common prefix of the keys (relative to position `from`+1)
RECURSIVE Lcp(_, _, _)
Lcp(keys, from, n) ==
  IF from >= n THEN <<>>
  ELSE LET b == keys[1][from + 1] IN
       IF \A i \in 1..Len(keys) : keys[i][from + 1] = b THEN <<b>> \o Lcp(keys, from + 1, n) ELSE <<>>

\* returns a cell table (tree shaped, root first); `at` = number of key bits already consumed, n = total key length
RECURSIVE EncEdge(_, _, _, _, _)
EncEdge(items, at, n, forms, path) ==
  LET keys == [i \in 1..Len(items) |-> items[i].k]
      s    == Lcp(keys, at, n)
      m    == n - at
      form == forms[(Len(path) % Len(forms)) + 1]
      at2  == at + Len(s)
      lbl0 == LabelBits(s, m, form)
      \* a form that does not fit the cell (hml_short of a 500-bit label needs 2 + 2 * 500 bits) is not a choice any writer has
      lbl  == IF Len(lbl0) + (IF at2 = n THEN Len(items[1].v.b) ELSE 0) > 1023 THEN LabelBits(s, m, "long") ELSE lbl0
  IN IF at2 = n
       THEN << [b |-> lbl \o items[1].v.b, x |-> Ordinary, r |-> <<>>, m |-> 0] >>
     ELSE LET left  == SelectSeq(items, LAMBDA it : it.k[at2 + 1] = 0)
              right == SelectSeq(items, LAMBDA it : it.k[at2 + 1] = 1)
              LT == EncEdge(left, at2 + 1, n, forms, path \o <<0>>)
              RT == EncEdge(right, at2 + 1, n, forms, path \o <<1>>)
              shift(TT, d) == [j \in 1..Len(TT) |-> [TT[j] EXCEPT !.r = [q \in 1..Len(TT[j].r) |-> TT[j].r[q] + d]]]
          IN << [b |-> lbl, x |-> Ordinary, r |-> <<2, 2 + Len(LT)>>, m |-> 0] >> \o shift(LT, 1) \o shift(RT, 1 + Len(LT))
\* HashmapE in a root cell
EncDictE(items, n, forms) ==
  IF Len(items) = 0 THEN << [b |-> <<0>>, x |-> Ordinary, r |-> <<>>, m |-> 0] >>
  ELSE LET TT == EncEdge(items, 0, n, forms, <<>>) IN
       << [b |-> <<1>>, x |-> Ordinary, r |-> <<2>>, m |-> 0] >>
          \o [j \in 1..Len(TT) |-> [TT[j] EXCEPT !.r = [q \in 1..Len(TT[j].r) |-> TT[j].r[q] + 1]]]

\* ------------------------------------------------------------- orders on keys
RECURSIVE BitsLess(_, _)
BitsLess(a, b) == IF Len(a) = 0 THEN FALSE
                  ELSE IF a[1] # b[1] THEN a[1] < b[1] ELSE BitsLess(Tail(a), Tail(b))
SortedByBits(items) == \A i \in 1..(Len(items) - 1) : BitsLess(items[i].k, items[i + 1].k)
=============================================================================
