--------------------------- MODULE EncComment_Gen ---------------------------
(* S->C for X04.  TLC enumerates the case analysis of EncComment and prints one *)
(* JSON vector per case: the arguments of toncrypto.Encrypt, the random bytes   *)
(* the prefix is to be cut from, and what the specification requires:           *)
(*   cls "ok"   the call succeeds; with the given random bytes the result is    *)
(*              exactly `out`                                                   *)
(*   cls "err"  the call is refused (a key of the wrong size)                   *)
(*   cls "free" an arbitrary 32-byte string as the receiver's key: it need not  *)
(*              be a curve point; refusal is fine, success must give `out`      *)
(* samples.ndjson (written by the runner from the seed) supplies only inputs:   *)
(* seeds, salts, random tapes, a pool of message bytes, arbitrary keys.         *)
(* A state is <<level, group, case>>: groups are the message lengths.           *)
EXTENDS EncComment, Json, TLC
CONSTANTS Lens, BigLens
VARIABLE c

S      == ndJsonDeserialize("samples.ndjson")[1]
Seeds  == [i \in 1..Len(S.seeds) |-> HexToBytes(S.seeds[i])]
Salts  == [i \in 1..Len(S.salts) |-> HexToBytes(S.salts[i])]
Tapes  == [i \in 1..Len(S.tapes) |-> HexToBytes(S.tapes[i])]
RawPub == [i \in 1..Len(S.rawpubs) |-> HexToBytes(S.rawpubs[i])]
Pool   == HexToBytes(S.pool)
NS == Len(Seeds)

Msg(L, k)  == IF L = 0 THEN <<>> ELSE SubSeq(Pool, 1 + ((37 * k) % (Len(Pool) - L)), ((37 * k) % (Len(Pool) - L)) + L)
Priv(seed) == seed \o PubOf(seed)                   \* Go's ed25519.PrivateKey: seed || public key
LenClass(L) == IF L = 0 THEN "len=0" ELSE IF L % 16 = 0 THEN "len%16=0" ELSE IF L % 16 = 15 THEN "len%16=15"
               ELSE IF L % 16 = 1 THEN "len%16=1" ELSE "len%16=other"

Vec(cl, cls, priv, rseed, pub, msg, salt, tape, out) ==
  [k |-> "enc", cl |-> cl, cls |-> cls, rseed |-> BytesToHex(rseed), spriv |-> BytesToHex(priv), rpub |-> BytesToHex(pub), msg |-> BytesToHex(msg),
   salt |-> BytesToHex(salt), tape |-> BytesToHex(tape), out |-> BytesToHex(out), n |-> Len(msg)]

\* ------------------------------------------------------------- the grid
\* every length x ordered key pairs (incl. a message to oneself) x salts, tapes by rotation
GridCases(L) == {<<s, r, a>> : s \in 1..NS, r \in 1..NS, a \in 1..Len(Salts)}
GridOut(L, x) ==
  LET s == x[1]  r == x[2]  a == x[3]  k == s * 7 + r * 3 + a
      msg == Msg(L, k)  tape == Tapes[(k % Len(Tapes)) + 1]  pub == PubOf(Seeds[r])
  IN Vec(LenClass(L), "ok", Priv(Seeds[s]), Seeds[r], pub, msg, Salts[a], tape, Encrypt(Seeds[s], pub, msg, Salts[a], tape))

\* ------------------------------------------------------------ key sizes
SizeCases == {<<"rpub", n>> : n \in {0, 1, 31, 33, 64}} \cup {<<"spriv", n>> : n \in {0, 31, 32, 33, 63, 65, 96}}
Resize(b, n) == IF n <= Len(b) THEN SubSeq(b, 1, n) ELSE b \o Zeros(n - Len(b))
SizeOut(x) ==
  LET priv == Priv(Seeds[1])  pub == PubOf(Seeds[2])
      p2 == IF x[1] = "spriv" THEN Resize(priv, x[2]) ELSE priv
      q2 == IF x[1] = "rpub" THEN Resize(pub, x[2]) ELSE pub
  IN Vec(StrCat("keysize:", x[1]), "err", p2, IF x[1] = "spriv" THEN Seeds[2] ELSE <<>>, q2, Msg(5, x[2]), Salts[1], Tapes[1], <<>>)

\* --------------------------------------------------- arbitrary receiver keys
RawCases == 1..Len(RawPub)
RawOut(i) ==
  LET pub == RawPub[i]  msg == Msg(20, i) IN
  IF NoMontImage(pub) THEN Vec("rawpub:neutral", "any", Priv(Seeds[1]), <<>>, pub, msg, Salts[1], Tapes[1], <<>>)
  ELSE Vec("rawpub", "free", Priv(Seeds[1]), <<>>, pub, msg, Salts[1], Tapes[1], Encrypt(Seeds[1], pub, msg, Salts[1], Tapes[1]))

\* ---------------------------------------------------------------- driver
Groups == Lens \cup BigLens \cup {-1, -2}
Cases(g) == IF g = -1 THEN SizeCases ELSE IF g = -2 THEN RawCases
            ELSE IF g \in BigLens THEN {<<1, 2, 1>>} ELSE GridCases(g)
Out(g, x) == IF g = -1 THEN SizeOut(x) ELSE IF g = -2 THEN RawOut(x) ELSE GridOut(g, x)

Init == c \in {<<0, g, 0>> : g \in Groups}
Next == c[1] = 0 /\ c' \in {<<1, c[2], x>> : x \in Cases(c[2])}
Spec == Init /\ [][Next]_c
Emit == c[1] = 1 => PrintT(<<"VEC", ToJson(Out(c[2], c[3]))>>)
\* the specification's own coherence on every generated case
Coherent ==
  (c[1] = 1 /\ c[2] >= 0) =>
     LET v == Out(c[2], c[3])  s == c[3][1]  r == c[3][2] IN
     Conforms(Seeds[s], Seeds[r], HexToBytes(v.msg), HexToBytes(v.salt), HexToBytes(v.out))
=============================================================================
