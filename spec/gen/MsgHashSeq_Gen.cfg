CONSTANTS
  Depth = 2
SPECIFICATION Spec
INVARIANT Emit
CHECK_DEADLOCK FALSE
