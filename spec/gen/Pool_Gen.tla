------------------------------ MODULE Pool_Gen ------------------------------
(* S->C (b): behaviours of Pool written out as scripts for the scheduler-gate  *)
(* replayer.  Every step is a labelled action of Pool plus the observation the *)
(* specification requires after it (channel lengths, wait list, best, heads,   *)
(* program counters, which processes can move).                                *)
(*                                                                             *)
(* Only behaviours that a replayer can force on real goroutines are produced:  *)
(* a Go select commits to the first of {message, timer, cancel} that becomes   *)
(* ready, so `commit[w]` records which branch waiter w is bound to and the     *)
(* corresponding action is the only one offered; a context is cancelled only   *)
(* while the waiter sits in its select with nothing else ready.  Every script  *)
(* is still a behaviour of Pool (the restriction removes behaviours, it adds   *)
(* none).                                                                      *)
(*                                                                             *)
(* Mode "sim": -simulate, vectors of length Depth.                             *)
(* Mode "cex": BFS with VIEW = state without the history; a state in which the *)
(* property fails (Wedged, a caller still inside after its deadline) is not    *)
(* expanded and its history - a shortest path to it - is printed as a lead.    *)
EXTENDS Pool, Json
CONSTANTS Depth, Mode
VARIABLES hist, commit
gvars == <<vars, hist, commit>>
View  == <<vars, commit>>

GRtt == [k \in 1..NC |-> IF k = NC THEN 0 ELSE 1]        \* the last connection is the fastest

WEnabled(w) == \/ G_WSubAnn(w) \/ G_WSubAcq(w) \/ G_WSubRead(w) \/ G_WSubBody(w) \/ G_WRecv(w) \/ G_WTimeout(w)
               \/ G_WCancelRet(w) \/ G_WUnsubAnn(w) \/ G_WUnsubAcq(w) \/ G_WUnsubBody(w)
REnabled    == \/ G_RunRecv \/ G_RunRLock \/ G_RunRUnlock \/ G_RunUpdAcq \/ G_RunUpdBody
               \/ \E w \in Waiters : G_RunSend(w)
Bad == Wedged \/ ~ByDeadline

Obs == [u   |-> Len(updCh), hd |-> head, al |-> alive, b |-> best,
        rg  |-> [w \in Waiters |-> reg[w]], cl |-> [w \in Waiters |-> Len(ch[w])],
        wpc |-> wpc, cpc |-> cpc, rpc |-> rpc, cm |-> commit, res |-> result, now |-> now,
        todo |-> [w \in Waiters |-> w \in rtodo],
        ew  |-> [w \in Waiters |-> WEnabled(w)], er |-> REnabled,
        wedged |-> Wedged, wn |-> WedgedOnNotify, wh |-> WedgedOnSetHead,
        late |-> [w \in Waiters |-> Late(w)], lis |-> [w \in Waiters |-> LateInSelect(w)]]

\* which select branch waiter w is bound to after this step
Ready(w) == IF ch'[w] # <<>> THEN "recv" ELSE IF cancelled'[w] THEN "cancel"
            ELSE IF now' >= timer'[w] THEN "timeout" ELSE "none"
NewCommit(w, reentered) ==
  IF wpc'[w] # "waiting" THEN "none"
  ELSE IF wpc[w] = "waiting" /\ ~reentered /\ commit[w] # "none" THEN commit[w]
  ELSE Ready(w)

\* an action of Pool, labelled
Do(lbl, A, re) == /\ A
                  /\ commit' = [w \in Waiters |-> NewCommit(w, w \in re)]
                  /\ hist' = Append(hist, lbl @@ [o |-> Obs'])

GenInit == Init /\ hist = <<>> /\ commit = [w \in Waiters |-> "none"]
\* a caller without timer that asks for seqno 1 is BestMasterchainClient: it joins the wait list only while
\* the best connection has no head yet (it reads best and head before subscribing)
StartOK(s, t) == (t = Inf /\ s = 1) => (head[best] = 0 /\ Free /\ rw.r = {} /\ ~clk[best])

GenInternal ==
  \/ \E k \in Conns : Do([a |-> "SmhSet", k |-> k], SmhSet(k), {}) \/ Do([a |-> "SmhSend", k |-> k], SmhSend(k), {})
  \/ Do([a |-> "RunRecv"], RunRecv, {}) \/ Do([a |-> "RunRLock"], RunRLock, {})
  \/ Do([a |-> "RunRUnlock"], RunRUnlock, {})
  \/ Do([a |-> "RunUpdAcq"], RunUpdAcq, {}) \/ Do([a |-> "RunUpdBody"], RunUpdBody, {})
  \/ \E w \in Waiters :
       \/ (\* a caller bound to its receive branch takes the unread head before the next one can replace it
           ~(FixNotify /\ ch[w] # <<>> /\ commit[w] = "recv") /\ Do([a |-> "RunSend", w |-> w], RunSend(w), {}))
       \/ Do([a |-> "WSubAnn", w |-> w], WSubAnn(w), {}) \/ Do([a |-> "WSubAcq", w |-> w], WSubAcq(w), {})
       \/ Do([a |-> "WSubRead", w |-> w], WSubRead(w), {}) \/ Do([a |-> "WSubBody", w |-> w], WSubBody(w), {})
       \/ (commit[w] = "recv" /\ Do([a |-> "WRecv", w |-> w], WRecv(w), {w}))
       \/ (commit[w] = "timeout" /\ Do([a |-> "WTimeout", w |-> w], WTimeout(w), {}))
       \/ (commit[w] = "cancel" /\ Do([a |-> "WCancelRet", w |-> w], WCancelRet(w), {}))
       \/ Do([a |-> "WUnsubAnn", w |-> w], WUnsubAnn(w), {}) \/ Do([a |-> "WUnsubAcq", w |-> w], WUnsubAcq(w), {})
       \/ Do([a |-> "WUnsubBody", w |-> w], WUnsubBody(w), {})
GenHead(D) == \E k \in Conns, d \in D : head[k] + d \in 1..MaxSeq /\
                 Do([a |-> "SmhLock", k |-> k, s |-> head[k] + d], SmhLock(k, head[k] + d), {})
GenFlip   == \E k \in Conns : Do([a |-> "Flip", k |-> k], Flip(k), {})
GenRunTick == Do([a |-> "RunTick"], RunTick, {})
GenStart  == \E w \in Waiters, s \in Wants, t \in Timeouts :
                StartOK(s, t) /\ Do([a |-> "WStart", w |-> w, s |-> s, t |-> t], WStart(w, s, t), {})
GenCancel == \E w \in Waiters : commit[w] = "none" /\ Do([a |-> "Cancel", w |-> w], Cancel(w), {})
GenTick   == Do([a |-> "Tick"], Tick, {})
GenStep == GenInternal \/ GenHead(Steps) \/ GenFlip \/ GenRunTick \/ GenStart \/ GenCancel \/ GenTick
\* simulation: a weighted choice of the kind of step (uniform choice drowns the protocol in duplicate heads)
Kind(r) == IF r <= 60 THEN GenInternal ELSE IF r <= 72 THEN GenTick ELSE IF r <= 86 THEN GenHead(Steps \ {0})
           ELSE IF r <= 89 THEN GenHead({0}) ELSE IF r <= 94 THEN GenStart ELSE IF r <= 95 THEN GenCancel
           ELSE IF r <= 98 THEN GenRunTick ELSE GenFlip
SimStep == \E r \in {RandomElement(1..100)} :
             IF ENABLED Kind(r) THEN Kind(r)
             ELSE IF ENABLED GenInternal THEN GenInternal
             ELSE IF ENABLED GenTick /\ r <= 90 THEN GenTick ELSE GenStep
\* With SetMasterHead publishing after the unlock (FixSetHead) there is no hook - hence no gate - between setting the
\* head and the send: the real goroutine sends as soon as the channel has room.  Scripts of that variant therefore
\* take SmhSend as soon as it is enabled (again a restriction to behaviours a replayer can force, nothing is added).
SendUrgent == FixSetHead /\ \E k \in Conns : G_SmhSend(k)
GenUrgent  == \E k \in Conns : Do([a |-> "SmhSend", k |-> k], SmhSend(k), {})
GenNext == Len(hist) < Depth /\ (Mode = "cex" => ~Bad)
           /\ (IF SendUrgent THEN GenUrgent ELSE IF Mode = "sim" THEN SimStep ELSE GenStep)
GenSpec == GenInit /\ [][GenNext]_gvars

Class == IF WedgedOnNotify THEN "wedged-notify" ELSE IF Wedged THEN "wedged-other"
         ELSE IF \E w \in Waiters : LateInSelect(w) THEN "late-in-select" ELSE "late"
Emit == /\ (Mode = "sim" /\ Len(hist) = Depth) => PrintT(<<"VEC", ToJson(hist)>>)
        /\ (Mode = "cex" /\ Bad) => PrintT(<<"CEX", Class, ToJson(hist)>>)
=============================================================================
