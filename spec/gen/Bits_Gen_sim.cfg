CONSTANTS
  Cap = 1023
  Depth = 40
  Widths = {0, 1, 7, 8, 9, 31, 32, 33, 55, 56, 57, 63, 64}
  BigWidths = {1, 7, 8, 9, 65, 128, 257}
SPECIFICATION SimSpec
INVARIANTS TypeOK Emit
CHECK_DEADLOCK FALSE
