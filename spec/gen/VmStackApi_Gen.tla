--------------------------- MODULE VmStackApi_Gen ---------------------------
(* S->C for the VM stack API (spec/VmStackApi.tla): TLC writes the cases, the Go *)
(* harness (harness/internal/c03/vmstack*.go) runs them against the real API and   *)
(* records one event per case, spec/trace/VmStackApi_Trace.tla judges the events.  *)
(*   api "stack"     a sequence of Put of small values of every kind (every order  *)
(*                   of every pair of a sub-pool, windows of 3.. values), with the  *)
(*                   cell EncStack prescribes, a bag holding it and that bag as TL  *)
(*                   bytes (inputs of UnmarshalTLB / UnmarshalTL)                   *)
(*   api "value"     one value (integers at the int64 / uint64 / 257-bit bounds,    *)
(*                   cells, slices with every kind of window, tuples incl. the      *)
(*                   well-formed tuples of VmTuple_Gen) as the cell ValueCell       *)
(*                   prescribes: decoded, then asked through every accessor         *)
(*   api "unmarshal" one value and the name of a destination (VmStackApi!Dest);     *)
(*                   also VmTuple_Gen's ill-formed neighbours (v.t = "illformed");  *)
(*                   stack = TRUE: the entries of the tuple also as a result stack  *)
(*   api "struct"    one TL-B structure (Grams, MsgAddress, StateInit)             *)
(* vmstack_params.json: [seed |-> n] rotates the sampled parts.                    *)
(* Self-checks (ASSUME): this module's ValueCell agrees with VmTuple_Gen's cells on *)
(* every well-formed tuple of that generator; the order laws of the stack.          *)
EXTENDS VmStackApi, Boc, Json
CONSTANTS Thorough

Params == JsonDeserialize("vmstack_params.json")
Seed   == Params.seed
TL == INSTANCE TlSem
VT == INSTANCE VmTuple_Gen WITH MaxN <- 5, Offsets <- 4, Huge <- FALSE, n <- 0, o <- 0, k <- "wf", out <- "x"

\* ------------------------------------------------------------------- pools
Pow2(k)  == BitsToDec(<<1>> \o Zeros(k))
Pow2m1(k) == BitsToDec(Ones(k))
Neg(d)   == StrCat("-", d)
I64Max == Pow2m1(63)   I64Min == Neg(Pow2(63))   U64Max == Pow2m1(64)

C0 == JCell("", <<>>)
C1 == JCell("1011", <<>>)
C2 == JCell("0110100111", <<C1, JCell("1", <<>>)>>)
C3 == JCell("11110000", <<C0, C1, C2>>)
CBig == JCell(BitsToStr([i \in 1..1023 |-> IF i % 3 = 0 THEN 0 ELSE 1]), <<>>)

T(xs) == VTup([i \in 1..Len(xs) |-> VTiny(xs[i])])
RECURSIVE LispList(_)
LispList(vs) == IF Len(vs) = 0 THEN VNull ELSE VTup(<<vs[1], LispList(Tail(vs))>>)

\* small values of every kind, for the stacks
SmallVals == << VNull, VTiny("42"), VInt(Pow2(63)), VNan, VCell(C1), VWhole(C2), VBuilder(C1), VTup(<<VTiny("7"), VNull>>), VTiny("-1"),
                VCont, VSlice(C2, 2, 7, 1, 2), VInt("-5"), VCell(C2), VTiny(I64Min), VInt(Pow2m1(256)), VTup(<<>>), VTiny("0") >>
NPair == IF Thorough THEN Len(SmallVals) ELSE 9
Win(len, off) == [i \in 1..len |-> SmallVals[((i + off - 1) % Len(SmallVals)) + 1]]
StackCases ==
  <<<<>>>> \o [i \in 1..Len(SmallVals) |-> <<SmallVals[i]>>]
  \o FoldLeft(LAMBDA a, i : a \o [j \in 1..NPair |-> <<SmallVals[i], SmallVals[j]>>], <<>>, [i \in 1..NPair |-> i])
  \o (IF Thorough THEN FoldLeft(LAMBDA a, i : a \o FoldLeft(LAMBDA b, j : b \o [q \in 1..6 |-> <<SmallVals[i], SmallVals[j], SmallVals[q]>>], <<>>, [j \in 1..6 |-> j]),
                                <<>>, [i \in 1..6 |-> i]) ELSE <<>>)
  \o [w \in 1..(IF Thorough THEN 40 ELSE 10) |-> Win(3 + (w % (IF Thorough THEN 7 ELSE 4)), Seed * 5 + w * 3)]
  \o (IF Thorough THEN <<Win(40, Seed), Win(130, Seed + 7)>> ELSE <<Win(17, Seed)>>)

\* VmTuple_Gen's values in this module's shape (its "int" entries are vm_stk_tinyint)
RECURSIVE ConvVT(_)
ConvVT(e) == CASE e.t = "null" -> VNull [] e.t = "nan" -> VNan [] e.t = "int" -> VTiny(e.v)
               [] e.t = "tuple" -> VTup([i \in 1..Len(e.es) |-> ConvVT(e.es[i])])
VTTuple(nn, oo) == ConvVT(VT!Tup(VT!Entries(nn, oo)))
VTOffsets == IF Thorough THEN <<0, 1, 2, 3>> ELSE <<Seed % 4, (Seed + 1) % 4>>
VTWf == FoldLeft(LAMBDA a, nn : a \o [q \in 1..Len(VTOffsets) |-> VTTuple(nn, VTOffsets[q])], <<>>, [nn \in 1..6 |-> nn - 1])

TinyEdges == << "0", "1", "-1", "5", "127", "128", "255", "256", "-128", "-129", "65535", "65536", Pow2m1(31), Pow2(31), Pow2m1(32), Pow2(32), I64Max, I64Min >>
IntEdges  == << "0", "5", "-1", Pow2(63), Neg(StrCat(SubStr(Pow2(63), 1, StrLen(Pow2(63)) - 1), "9")), I64Max, I64Min, U64Max, Pow2(64), Neg(Pow2(64)),
                BitsToDec(<<1>> \o Zeros(63) \o <<1>>), Pow2(65), Pow2(255), Pow2m1(256), Neg(Pow2(256)) >>
\* thorough tier: every power of two with its neighbours, both signs, in both integer constructors where they fit
PowVals(e) == << Pow2(e), Pow2m1(e), Neg(Pow2(e)), Neg(BitsToDec(<<1>> \o Zeros(e - 1) \o <<1>>)) >>
PowInts == IF ~Thorough THEN <<>>
           ELSE FoldLeft(LAMBDA a, e : a \o SelectSeq([q \in 1..4 |-> VInt(PowVals(e)[q])], LAMBDA x : SFits(x.v, 257))
                                         \o SelectSeq([q \in 1..4 |-> VTiny(PowVals(e)[q])], LAMBDA x : SFits(x.v, 64)),
                         <<>>, [e \in 1..256 |-> e])
OwnTuples == << T(<<>>), T(<<"5">>), T(<<"1", "-2">>), T(<<"1", "2", "3">>), T(<<"1", "2", "3", "4">>), T(<<"1", "2", "3", "4", "5">>),
                T(<<"1", "2", "3", "4", "5", "6">>),
                VTup(<<VTiny("7"), VNull, VTiny("-1")>>), VTup(<<VTiny("7"), T(<<"1", "2">>), VInt(Pow2(63))>>), VTup(<<VInt("5"), VTiny("9")>>),
                VTup(<<VTiny(I64Max), VTiny(Pow2m1(32))>>),
                LispList(<<VTiny("1")>>), LispList(<<VTiny("1"), VTiny("2"), VTiny("3")>>), LispList(<<VTiny("0"), VInt(Pow2(63)), VTiny("-1")>>),
                LispList(<<T(<<"1", "2">>), T(<<"3", "4">>)>>), VTup(<<VTiny("9"), LispList(<<VTiny("1"), VTiny("2")>>)>>),
                VTup(<<VTiny("1"), VTiny("2")>>), VTup(<<VTiny("1"), VTup(<<VTiny("2"), VTiny("3")>>)>>) >>
CellVals == << VCell(C0), VCell(C3), VCell(CBig), VWhole(C0), VWhole(C3), VSlice(C3, 0, 0, 0, 0), VSlice(C3, 3, 8, 1, 3), VSlice(CBig, 1, 1023, 0, 0),
               VSlice(CBig, 1023, 1023, 0, 0), VSlice(C2, 10, 10, 2, 2), VSlice(C3, 0, 8, 3, 3), VBuilder(C0), VBuilder(C2) >>
ValueCases == SmallVals \o [i \in 1..Len(TinyEdges) |-> VTiny(TinyEdges[i])] \o [i \in 1..Len(IntEdges) |-> VInt(IntEdges[i])]
              \o CellVals \o OwnTuples \o VTWf \o PowInts

\* ---- value x destination
Pairs(vs, ds) == FoldLeft(LAMBDA a, i : a \o [j \in 1..Len(ds) |-> [v |-> vs[i], dest |-> ds[j]]], <<>>, [i \in 1..Len(vs) |-> i])
ScalarDests == <<"i8", "i16", "i32", "i64", "u8", "u16", "u32", "u64", "bool", "big", "b256", "pi64", "pbig", "S1", "L64", "S2u">>
TupleDests  == <<"S0", "S1", "S2", "S3", "S4", "S5", "S6", "S2u", "S3m", "PS2", "L64", "Lbool", "LS2", "SL", "i64", "bool">>
StructN(nn) == IF nn <= 6 THEN StrCat("S", ToString(nn)) ELSE "S6"
VTDests(nn) == <<StructN(nn), StructN(IF nn = 0 THEN 1 ELSE nn - 1), "L64", "i64", "S2u">>
IllKinds == <<"len+1", "len-1", "no_tail", "head_leaf">>
IllCases == FoldLeft(LAMBDA a, nn : a \o FoldLeft(LAMBDA b, q : b \o FoldLeft(LAMBDA c, kk :
                 IF VT!Applicable(nn, IllKinds[kk])
                   THEN c \o [d \in 1..3 |-> [v |-> [t |-> "illformed", kind |-> IllKinds[kk], n |-> nn, o |-> VTOffsets[q]],
                                              dest |-> <<StructN(nn), StructN(nn + 1), "L64">>[d]]]
                   ELSE c, <<>>, [kk \in 1..Len(IllKinds) |-> kk]), <<>>, [q \in 1..Len(VTOffsets) |-> q]), <<>>, [nn \in 1..6 |-> nn - 1])
UnmarshalCases ==
  Pairs([i \in 1..Len(TinyEdges) |-> VTiny(TinyEdges[i])] \o [i \in 1..Len(IntEdges) |-> VInt(IntEdges[i])] \o PowInts, ScalarDests)
  \o Pairs(<<VNull, VNan>>, DestNames)
  \o Pairs(OwnTuples, TupleDests)
  \o Pairs(<<VTup(<<VInt("5"), VTiny("9")>>), VTup(<<VTiny(I64Max), VTiny(Pow2m1(32))>>), T(<<"1", "2", "3">>), T(<<"7">>)>>, <<"SU2">>)
  \o FoldLeft(LAMBDA a, i : a \o Pairs(<<VTWf[i]>>, VTDests(Len(VTWf[i].es))), <<>>, [i \in 1..Len(VTWf) |-> i])
  \o Pairs(<<VCell(C1), VWhole(C2), VBuilder(C1), VCont>>, <<"i64", "S2", "L64">>)
  \o IllCases

\* ---- TL-B structures
Hex32(pat) == BytesToHex([i \in 1..32 |-> pat[((i - 1) % Len(pat)) + 1]])
StructCases ==
  [i \in 1..7 |-> [ty |-> "Grams", amount |-> <<"0", "1", "255", "256", "1000000000", Pow2(63), U64Max>>[i]]]
  \o << [ty |-> "MsgAddress", ctor |-> "none"] >>
  \o [i \in 1..5 |-> [ty |-> "MsgAddress", ctor |-> "std", wc |-> <<"0", "-1", "127", "-128", "1">>[i],
                     addr |-> <<Hex32(<<0>>), Hex32(<<255>>), Hex32(<<1, 2, 3, 250>>), Hex32(<<128>>), Hex32(<<0, 0, 0, 0, 0, 0, 0, 1>>)>>[i]]]
  \o [i \in 1..5 |-> [ty |-> "StateInit", hascode |-> <<FALSE, TRUE, FALSE, TRUE, TRUE>>[i], code |-> <<C0, C1, C0, C2, C3>>[i],
                     hasdata |-> <<FALSE, FALSE, TRUE, TRUE, TRUE>>[i], data |-> <<C0, C0, C2, C1, C0>>[i]]]

\* ---------------------------------------------------------------- vectors
IllCell(v) == VT!Built(v.n, v.o, v.kind)
VClass(v) == CASE v.t = "illformed" -> StrCat("ill:", v.kind)
               [] v.t = "tuple" -> IF IsList(v) THEN "list" ELSE IF Len(v.es) <= 2 THEN StrCat("tuple", ToString(Len(v.es))) ELSE "tupleN"
               [] OTHER -> v.t
\* the class of a (value, destination) case names what is read into what; destinations that differ only in the width behind a
\* pointer, and the two shapes of a pair, are one class
UClass(x, dest) ==
  LET D   == Dest(dest)
      \* an integer outside the range of an integer / 256-bit destination: one class whatever the width
      oor == x.t \in {"tinyint", "int"} /\ D.d \in {"int", "bits256"} /\ MapTo(D, x) = ErrO
      vcl == IF dest = "S2u" /\ x.t = "tuple" /\ Len(x.es) = 2 THEN "tuple2"
             ELSE IF (oor \/ dest \in {"pi64", "pbig"}) /\ x.t \in {"tinyint", "int"} THEN "integer"
             ELSE VClass(x)
      dcl == IF dest \in {"pi64", "pbig"} THEN "ptr"
             ELSE IF oor THEN (IF D.d = "int" THEN "int:out-of-range" ELSE "b256:out-of-range")
             ELSE dest
  IN StrCat(StrCat(vcl, "->"), dcl)
WithCell(v) == [v |-> v, vc |-> TreeToJ(ValueCell(v))]
StackVec(i) ==
  LET puts == StackCases[i]
      tree == EncStack(puts)
      bag  == Write(VT!Flat(tree), <<1>>, VT!Choice(i + Seed)) IN
  [api |-> "stack", cls |-> StrCat("len", ToString(Len(puts))), puts |-> [j \in 1..Len(puts) |-> WithCell(puts[j])],
   tree |-> TreeToJ(tree), boc |-> BytesToHex(bag), tl |-> BytesToHex(TL!TlBytes(bag))]
ValueVec(i) == LET v == ValueCases[i] IN [api |-> "value", cls |-> VClass(v), v |-> v, vc |-> TreeToJ(ValueCell(v))]
\* the entries of a tuple are also presented as a result stack (VmStack.Unmarshal) to every struct destination, and once to a
\* destination that is not a struct
AsStack(c) == c.v.t = "tuple" /\ (Dest(c.dest).d \in {"struct", "unexported"} \/ (c.dest = "L64" /\ c.v = T(<<"1", "-2">>)))
UnmarshalVec(i) ==
  LET c == UnmarshalCases[i] IN
  [api |-> "unmarshal", cls |-> UClass(c.v, c.dest), v |-> c.v, dest |-> c.dest, stack |-> AsStack(c),
   vc |-> TreeToJ(IF c.v.t = "illformed" THEN IllCell(c.v) ELSE ValueCell(c.v))]
StructVec(i) == LET s == StructCases[i] IN [api |-> "struct", cls |-> s.ty, s |-> s]

Apis == <<"stack", "value", "unmarshal", "struct">>
Count(a) == CASE a = "stack" -> Len(StackCases) [] a = "value" -> Len(ValueCases) [] a = "unmarshal" -> Len(UnmarshalCases) [] a = "struct" -> Len(StructCases)
Vec(a, i) == CASE a = "stack" -> StackVec(i) [] a = "value" -> ValueVec(i) [] a = "unmarshal" -> UnmarshalVec(i) [] a = "struct" -> StructVec(i)

VARIABLES api, idx, done
Init == api \in {Apis[q] : q \in 1..Len(Apis)} /\ idx \in 1..Count(api) /\ done = "todo"
Next == done = "todo" /\ done' = "done" /\ UNCHANGED <<api, idx>> /\ PrintT(<<"VEC", ToJson(Vec(api, idx))>>)
Spec == Init /\ [][Next]_<<api, idx, done>>

\* ---------------------------------------------- self-checks of the specification
\* the cells of this module are the cells VmTuple_Gen builds from the same schema
AgreesWithVmTupleGen == \A nn \in 0..5 : \A oo \in 0..3 : ValueCell(VTTuple(nn, oo)) = VT!Built(nn, oo, "wf")
\* the order laws: the last Put is the top and is listed first; the outermost cell holds the top; what a reader of the cell
\* lists (bottom first) is the argument list reversed
Top3 == Put(Put(Put(<<>>, VTiny("1")), VTiny("2")), VTiny("3"))
OrderLaws == /\ ArgList(Top3)[1] = VTiny("3") /\ ResList(Top3)[1] = VTiny("1")
             /\ ResList(StackOfArgList(ArgList(Top3))) = Reverse(ArgList(Top3))
             /\ LET c == EncStack(Top3) IN /\ SubSeq(c.b, 1, 24) = NatBits(3, 24)
                                           /\ SubSeq(c.b, 25, Len(c.b)) = ValuePiece(VTiny("3")).b
                                           /\ c.r[1].b = ValuePiece(VTiny("2")).b /\ c.r[1].r[1].b = ValuePiece(VTiny("1")).b
                                           /\ c.r[1].r[1].r[1] = Tree(<<>>, <<>>)
             /\ EncStack(<<>>) = Tree(Zeros(24), <<>>)
\* the conversions at their bounds
Bounds == /\ Int64OK(VInt(I64Max), [res |-> "ok", v |-> I64Max]) /\ ~Int64OK(VInt(I64Max), [res |-> "ok", v |-> Pow2(63)])
          /\ Int64OK(VInt(Pow2(63)), [res |-> "ok", v |-> I64Min])                  \* out of range: free
          /\ ~Uint64OK(VInt(U64Max), [res |-> "ok", v |-> "0"]) /\ Uint64OK(VInt(Pow2(64)), [res |-> "ok", v |-> "0"])
          /\ ~Int64OK(VTiny("1"), [res |-> "panic", v |-> ""]) /\ Int64OK(VNull, [res |-> "panic", v |-> ""])
          /\ MapTo(Dest("u64"), VInt(Pow2(63))) = Val(Pow2(63)) /\ MapTo(Dest("u64"), VInt(Pow2(64))) = ErrO
          /\ MapTo(Dest("i8"), VTiny("-128")) = Val("-128") /\ MapTo(Dest("i8"), VTiny("128")) = ErrO /\ MapTo(Dest("u64"), VTiny("-1")) = ErrO
          /\ MapTo(Dest("bool"), VInt(Pow2(64))) = Val("true") /\ MapTo(Dest("S1"), T(<<"5">>)) = Val("{5}")
          /\ MapTo(Dest("S0"), T(<<>>)) = Val("{}") /\ MapTo(Dest("S2"), T(<<"5">>)) = ErrO
          /\ MapTo(Dest("L64"), LispList(<<VTiny("1"), VTiny("2")>>)) = Val("[1,2]")
          /\ MapTo(Dest("S3m"), VTup(<<VTiny("7"), VNull, VTiny("-1")>>)) = Val("{7,nil,true}")
          /\ MapTo(Dest("b256"), VTiny("5")) = Val(StrCat("x", BytesToHex([i \in 1..32 |-> IF i = 32 THEN 5 ELSE 0])))
          /\ MapTo(Dest("pi64"), VTiny("7")) = Val("&7") /\ MapTo(Dest("pi64"), VNull) = Val("nil") /\ MapTo(Dest("i64"), VNull) = ErrO
ASSUME AgreesWithVmTupleGen
ASSUME OrderLaws
ASSUME Bounds
ASSUME \A i \in 1..Len(ValueCases) : InDomain(ValueCases[i])
ASSUME \A i \in 1..Len(StructCases) : StructCell(StructCases[i]).ok
=============================================================================
