CONSTANTS
  Types = {}
  MaxSet = 3
  MaxAbsent = 2
  TwoStep = TRUE
SPECIFICATION Spec
CHECK_DEADLOCK FALSE
