CONSTANTS
  Seed = 1
  Ns = {0, 7, 18, 40, 72, 73, 100}
  PerSchema = 20
SPECIFICATION Spec
INVARIANT Emit
CHECK_DEADLOCK FALSE
