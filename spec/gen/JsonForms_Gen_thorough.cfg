CONSTANT Rich = TRUE
SPECIFICATION Spec
INVARIANTS Emit Sane
CHECK_DEADLOCK FALSE
