------------------------------ MODULE TonDns_Gen ------------------------------
(* S->C for X06 (DNS).  TLC enumerates names x scripted resolver answers and     *)
(* prints, per case, the conversation TonDns requires: the calls (resolver,      *)
(* subdomain) in order and the outcome.  The harness runs dns.DNS.Resolve with   *)
(* an executor that plays the script and records what the library did.           *)
(* A state is <<level, group, case>>.                                            *)
EXTENDS TonDns, Json, TLC
VARIABLE c

T(s) == StrToCodes(s)
Root == "-1:e56754f83426f69b09267bd876ac97c44821345b7e266bd956a7bfbfb98df35c"
A1   == "0:b774d95eb20543f186c06b371ab88ad704f7e256130caf96189368a7d0cb6ccf"
A2   == "0:0000000000000000000000000000000000000000000000000000000000000001"
A3   == "-1:ffffffffffffffffffffffffffffffffffffffffffffffffffffffffffffffff"
Rep(x, n) == [i \in 1..n |-> x]

\* ------------------------------------------------------------------- names
OkNames == << T("ton"), T("foo.ton"), T("a.b.c.ton"), T("xn--80a.t.me"), T("0.ton"), T("a-b_c.ton"),
              Rep(97, 122) \o T(".ton"),                                                   \* 126 bytes
              <<209, 130, 208, 190, 208, 189>> \o T(".ton"), T("!#$%&'()*+,-/.ton") >>
OtherNames == << <<>>, <<46>>, T("Foo.TON"), T("FOO.ton"), T("a..ton"), T(".ton"), T("ton."), T("a b.ton"), <<97, 9, 98>> \o T(".ton"),
                 Rep(97, 123) \o T(".ton"), Rep(97, 250) \o T(".ton"), <<32>>, T("a.b") \o <<1>> \o T(".ton"), T("..."),
                 <<97, 0, 98>> \o T(".ton"), <<0>>, T("foo.ton") \o <<0>>, <<0>> \o T("foo.ton"), T("a.") \o <<0>> \o T(".ton") >>

\* ----------------------------------------------------------------- answers
Ans(bits, cell) == [fail |-> FALSE, exit |-> 0, shape |-> "pair", bits |-> bits, cell |-> cell]
Bits(nbytes) == ToString(8 * nbytes)
Recs == "recs:wallet:1,site:2,storage:3,text:4"
First(name) == Len(Components(name)[Len(Components(name))]) + 1                        \* bytes of the last component and its zero
\* single malformed answers, as the answer to a call with subdomain of n bytes (k = bytes of its first component)
MalNames == {"fail", "exit2", "exit1-final", "exit-1", "one", "three", "strfirst", "nullpair", "bits0", "bits7", "bits12", "bits-over", "bits-over-final",
             "bits-neg", "bits-neg-final", "bits-huge", "bits-2^63", "final-null", "final-rec", "final-garbage", "final-next", "final-empty", "part-recs", "part-null",
             "part-none", "part-garbage", "part-rec", "part-next-ext"}
Mal(m, n, k) ==
  CASE m = "fail"        -> [Ans(Bits(n), Recs) EXCEPT !.fail = TRUE]
    [] m = "exit2"       -> [Ans(Bits(n), Recs) EXCEPT !.exit = 2]
    [] m = "exit1-final" -> [Ans(Bits(n), Recs) EXCEPT !.exit = 1]                      \* exit code 1 is a normal termination
    [] m = "exit-1"      -> [Ans(Bits(n), Recs) EXCEPT !.exit = 2147483647]
    [] m = "one"         -> [Ans(Bits(n), Recs) EXCEPT !.shape = "one"]
    [] m = "three"       -> [Ans(Bits(n), Recs) EXCEPT !.shape = "three"]
    [] m = "strfirst"    -> [Ans(Bits(n), Recs) EXCEPT !.shape = "cellfirst"]
    [] m = "nullpair"    -> Ans("0", "null")
    [] m = "bits0"       -> Ans("0", Recs)
    [] m = "bits7"       -> Ans("7", StrCat("next:", A1))
    [] m = "bits12"      -> Ans("12", StrCat("next:", A1))
    [] m = "bits-over"   -> Ans(Bits(n + 1), StrCat("next:", A1))
    [] m = "bits-over-final" -> Ans(Bits(n + 1), Recs)
    [] m = "bits-neg"    -> Ans("-8", StrCat("next:", A1))
    [] m = "bits-neg-final" -> Ans("-8", Recs)
    [] m = "bits-huge"   -> Ans("1099511627776", StrCat("next:", A1))
    [] m = "bits-2^63"   -> Ans("9223372036854775808", StrCat("next:", A1))
    [] m = "final-null"  -> Ans(Bits(n), "null")
    [] m = "final-rec"   -> Ans(Bits(n), "rec:wallet:1")
    [] m = "final-garbage" -> Ans(Bits(n), "garbage")
    [] m = "final-next"  -> Ans(Bits(n), StrCat("next:", A1))
    [] m = "final-empty" -> Ans(Bits(n), "recs:")
    [] m = "part-recs"   -> Ans(Bits(k), Recs)
    [] m = "part-null"   -> Ans(Bits(k), "null")
    [] m = "part-none"   -> Ans(Bits(k), "next:none")
    [] m = "part-garbage" -> Ans(Bits(k), "garbage")
    [] m = "part-rec"    -> Ans(Bits(k), "rec:site:2")
    [] m = "part-next-ext" -> Ans(Bits(k), "next:ext")

\* scripts for a name whose internal representation has n bytes, first component k bytes
Scripts(n, k) ==
  {<<"whole", <<Ans(Bits(n), Recs)>>>>,
   <<"whole-one-record", <<Ans(Bits(n), "recs:wallet:9")>>>>}
  \cup (IF k < n THEN
          {<<"two-hops", <<Ans(Bits(k), StrCat("next:", A1)), Ans(Bits(n - k), "recs:site:2")>>>>,
           <<"two-hops-same-resolver", <<Ans(Bits(k), StrCat("next:", Root)), Ans(Bits(n - k), Recs)>>>>,
           <<"mid-component", <<Ans("8", StrCat("next:", A3)), Ans(Bits(n - 1), Recs)>>>>,
           <<"byte-by-byte", [i \in 1..n |-> IF i < n THEN Ans("8", StrCat("next:", IF i % 2 = 1 THEN A1 ELSE A2)) ELSE Ans("8", "recs:text:4")]>>}
        ELSE {})
  \cup {<<StrCat("mal1:", m), <<Mal(m, n, IF k < n THEN k ELSE n)>>>> : m \in IF k < n THEN MalNames ELSE {m \in MalNames : ~StrPrefix("part-", m)}}
  \cup (IF k < n THEN {<<StrCat("mal2:", m), <<Ans(Bits(k), StrCat("next:", A2)), Mal(m, n - k, IF n - k > 2 THEN 2 ELSE 1)>>>> :
                         m \in {x \in MalNames : n - k > 2 \/ ~StrPrefix("part-", x)}} ELSE {})

CallRec(cl) == [res |-> cl.res, d |-> BytesToHex(cl.d)]
Vec(cl, name, script) ==
  LET ncl == NameClass(name)
      conv == IF ncl \in {"ok", "case", "self"} THEN Converse(Root, IF ncl = "self" THEN <<0>> ELSE Encode(name), script, <<>>)
              ELSE [calls |-> <<>>, out |-> [do |-> IF ncl = "nul" THEN "err" ELSE "free"]]
  IN [k |-> "dns", cl |-> cl, name |-> BytesToHex(name), root |-> Root, script |-> script, namecls |-> ncl,
      first |-> LET fs == FirstSubdomains(name) IN [i \in 1..Cardinality(fs) |-> BytesToHex(SetToSeq(fs)[i])],
      calls |-> [i \in 1..Len(conv.calls) |-> CallRec(conv.calls[i])],
      do |-> conv.out.do, recs |-> IF conv.out.do = "ok" THEN conv.out.recs ELSE ""]

Groups == {<<"ok", i>> : i \in 1..Len(OkNames)} \cup {<<"other", i>> : i \in 1..Len(OtherNames)}
Cases(g) == IF g[1] = "ok" THEN LET e == Encode(OkNames[g[2]]) IN
                                 IF g[2] \in {2, 3} THEN Scripts(Len(e), First(OkNames[g[2]]))
                                 ELSE {s \in Scripts(Len(e), First(OkNames[g[2]])) : ~StrPrefix("mal", s[1])}
            ELSE LET n == Len(OtherNames[g[2]]) + 1 IN {<<"whole", <<Ans(Bits(n), Recs)>>>>, <<"whole+1", <<Ans(Bits(n + 1), Recs)>>>>}
Out(g, x) == IF g[1] = "ok" THEN Vec(StrCat("dns:ok:", x[1]), OkNames[g[2]], x[2])
             ELSE Vec(StrCat("dns:name:", NameClass(OtherNames[g[2]])), OtherNames[g[2]], x[2])

Init == c \in {<<0, g, 0>> : g \in Groups}
Next == c[1] = 0 /\ c' \in {<<1, c[2], x>> : x \in Cases(c[2])}
Spec == Init /\ [][Next]_c
Emit == c[1] = 1 => PrintT(<<"VEC", ToJson(Out(c[2], c[3]))>>)
\* coherence: the well-formed names are "ok", the conversation never asks for more answers than the script has,
\* every later subdomain is a proper suffix of the one before
Coherent ==
  c[1] = 1 =>
    LET v == Out(c[2], c[3]) IN
    /\ c[2][1] = "ok" => v.namecls = "ok" /\ v.do # "exhausted" /\ Len(v.calls) >= 1 /\ v.calls[1].res = Root
    /\ \A i \in 2..Len(v.calls) : StrLen(v.calls[i].d) < StrLen(v.calls[i - 1].d)
=============================================================================
