CONSTANTS
  Thorough = FALSE
SPECIFICATION Spec
CHECK_DEADLOCK FALSE
