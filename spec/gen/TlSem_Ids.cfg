INIT Init
NEXT Next
INVARIANT Distinct
CHECK_DEADLOCK FALSE
