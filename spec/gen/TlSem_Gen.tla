----------------------------- MODULE TlSem_Gen -----------------------------
(* S->C for C10: the specification generates values of every type, function  *)
(* and request/response pair of a schema (schema.json, DESIGN.md A.5) and      *)
(* encodes them itself; the Go harness must parse the bytes to the same value  *)
(* and serialise the value to the same bytes (vh replay C10), and the client   *)
(* methods must put exactly these requests on the wire and return exactly      *)
(* these responses (in-package driver).                                        *)
(* One state per vector: state k (From <= k <= To) is target number k mod NT,  *)
(* round k div NT.  All choices are drawn from CRC32(Seed, k, path) (TlGen),   *)
(* so a vector depends only on (schema, Seed, k).  In round j the flag field   *)
(* of the root constructor takes combination j of the bits its optional        *)
(* fields use, so 2^bits rounds enumerate every presence pattern.              *)
EXTENDS TlGen
CONSTANTS Seed, From, To

S == JsonDeserialize("schema.json")
VARIABLE k

Single(i) == Cardinality(CtorsOf(S, S.types[i].result)) = 1
Targets ==
     [i \in TypeIdx(S) |-> [ty |-> IF Single(i) THEN S.types[i].ctor ELSE S.types[i].result, op |-> "Enc"]]
  \o [i \in FnIdx(S) |-> [ty |-> S.functions[i].ctor, op |-> "EncBare"]]
  \o [i \in FnIdx(S) |-> [ty |-> S.functions[i].ctor, op |-> "Fn"]]
  \o [i \in FnIdx(S) |-> [ty |-> S.functions[i].ctor, op |-> "Call"]]
NT == Len(Targets)

\* long-vector jobs (checks/c10.py writes longjobs.json from the Go element sizes the driver reports): job j is vector
\* number JobBase + j - 1; the vector in field `field` of constructor / function `decl` gets exactly n elements
Jobs    == JsonDeserialize("longjobs.json")
JobBase == 1000000
Raw(n) ==
  IF n >= JobBase
    THEN LET j == Jobs[n - JobBase + 1] IN
         VecOfOv(S, [ty |-> j.ty, op |-> j.op], n, B4(Seed) \o B4(n), 0, [decl |-> j.decl, field |-> j.field, n |-> j.n])
           @@ [cls |-> "long-vector", decl |-> j.decl, field |-> j.field, len |-> j.n]
    ELSE VecOf(S, Targets[(n % NT) + 1], n, B4(Seed) \o B4(n), n \div NT)
\* a Call vector additionally carries the scripted adnl.message.answer split around the query id,
\* which only the client knows: answer = ans_pre ++ query_id ++ ans_suf
Vec(n) ==
  LET x == Raw(n) IN
  IF x.op # "Call" THEN x
  ELSE LET ans == Enc(S, "adnl.Message", [_ |-> "adnl.message.answer", query_id |-> BytesToHex(ZeroBytes(32)), answer |-> x.body])
       IN x @@ [ans_pre |-> BytesToHex(SubSeq(ans, 1, 4)), ans_suf |-> BytesToHex(SubSeq(ans, 37, Len(ans)))]

Init == k = From
Next == k < To /\ k' = k + 1
Spec == Init /\ [][Next]_k
Emit == LET x == Vec(k) IN VecSane(S, x) /\ PrintT(<<"VEC", ToJson(x)>>)
=============================================================================
