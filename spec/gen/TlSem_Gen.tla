----------------------------- MODULE TlSem_Gen -----------------------------
(* S->C for C10: the specification generates values of every type, function  *)
(* and request/response pair of a schema (schema.json, DESIGN.md A.5) and      *)
(* encodes them itself; the Go harness must parse the bytes to the same value  *)
(* and serialise the value to the same bytes (vh replay C10), and the client   *)
(* methods must put exactly these requests on the wire and return exactly      *)
(* these responses (in-package driver).                                        *)
(* One state per vector: state k (From <= k <= To) is target number k mod NT,  *)
(* round k div NT.  All choices are drawn from CRC32(Seed, k, path), so a      *)
(* vector depends only on (schema, Seed, k).  In round j the flag field of the *)
(* root constructor takes combination j of the bits its optional fields use,   *)
(* so 2^bits rounds enumerate every presence pattern.                          *)
EXTENDS TlSem, Json, FiniteSets
CONSTANTS Seed, From, To

S == JsonDeserialize("schema.json")
VARIABLE k

\* ---------------------------------------------------------------- targets
Single(i) == Cardinality(CtorsOf(S, S.types[i].result)) = 1
Targets ==
     [i \in TypeIdx(S) |-> [ty |-> IF Single(i) THEN S.types[i].ctor ELSE S.types[i].result, op |-> "Enc"]]
  \o [i \in FnIdx(S) |-> [ty |-> S.functions[i].ctor, op |-> "EncBare"]]
  \o [i \in FnIdx(S) |-> [ty |-> S.functions[i].ctor, op |-> "Fn"]]
  \o [i \in FnIdx(S) |-> [ty |-> S.functions[i].ctor, op |-> "Call"]]
NT == Len(Targets)

\* ---------------------------------------------------------- choice streams
B4(n)  == <<n % 256, (n \div 256) % 256, (n \div 65536) % 256, (n \div 16777216) % 128>>
R(ctx) == Crc32Ieee(ctx)                                       \* 4 pseudo-random bytes
Pick(ctx, m) == LET c == R(ctx) IN (c[4] + 256 * c[3] + 65536 * c[2]) % m     \* 0..m-1, m <= 2^24
RECURSIVE RBytes(_, _)
RBytes(ctx, n) == IF n <= 0 THEN <<>> ELSE R(ctx \o <<n % 256>>) \o RBytes(ctx, n - 4)    \* n multiple of 4

EdgeInt  == <<"0", "1", "-1", "2147483647", "-2147483648", "255", "256", "-256">>
EdgeLong == <<"0", "1", "-1", "9223372036854775807", "-9223372036854775808", "4294967296", "-4294967297">>
EdgeLen  == <<0, 1, 2, 3, 4, 5, 7, 8, 252, 253, 254, 255, 256, 257, 258, 259, 260, 1099, 1100>>
BigLen   == <<65531, 65532, 65535, 65536, 65537>>
StrLenAt(ctx, dep) ==
  IF dep >= 3 THEN Pick(ctx \o <<9>>, 12)
  ELSE LET x == Pick(ctx \o <<9>>, 100) IN
       IF x < 50 THEN Pick(ctx \o <<10>>, 40)
       ELSE IF x < 70 THEN Pick(ctx \o <<10>>, 1101)
       ELSE IF x < 97 \/ dep >= 2 THEN EdgeLen[Pick(ctx \o <<10>>, Len(EdgeLen)) + 1]
       ELSE BigLen[Pick(ctx \o <<10>>, Len(BigLen)) + 1]
GenBytes(ctx, n) == LET a == Pick(ctx \o <<11>>, 256)  st == 2 * Pick(ctx \o <<12>>, 128) + 1 IN
                    [i \in 1..n |-> (a + i * st) % 256]
VecMax(dep) == IF dep = 0 THEN 5 ELSE IF dep = 1 THEN 3 ELSE 1

UsedBits(d, name) == {d.fields[i].flag.bit : i \in {j \in 1..Len(d.fields) : HasFlag(d.fields[j]) /\ d.fields[j].flag.field = name}}
RECURSIVE Pow2(_)
Pow2(n) == IF n = 0 THEN 1 ELSE 2 * Pow2(n - 1)
\* the mode value: used bits from combination comb (or random when comb < 0), the others random / all 0 / all 1
ModeVal(ctx, used, comb) ==
  LET rnd  == BytesToBits(R(ctx \o <<13>>))
      fill == Pick(ctx \o <<14>>, 4)
      cmb  == IF comb >= 0 THEN comb ELSE Pick(ctx \o <<15>>, Pow2(Cardinality(used)))
      bits == [i \in 1..32 |->
                LET N == 32 - i IN
                IF N \in used THEN (cmb \div Pow2(Cardinality({u \in used : u < N}))) % 2
                ELSE IF fill = 0 THEN 0 ELSE IF fill = 1 THEN 1 ELSE rnd[i]]
  IN IF \A i \in 1..32 : bits[i] = 0 THEN "0" ELSE BitsToDec(bits)

RECURSIVE NthOf(_, _)
NthOf(set, n) == LET m == CHOOSE x \in set : \A y \in set : x <= y IN IF n = 0 THEN m ELSE NthOf(set \ {m}, n - 1)

RECURSIVE GenTy(_, _, _), GenFields(_, _, _, _, _, _)
GenFields(d, ctx, dep, comb, i, acc) ==
  IF i > Len(d.fields) THEN acc
  ELSE LET f == d.fields[i] IN
       IF IsTrue(f) \/ ~Present(f, acc) THEN GenFields(d, ctx, dep, comb, i + 1, acc)
       ELSE LET used == UsedBits(d, f.name)
                val  == IF ~IsVec(f.ty) /\ f.ty = "#" /\ ~HasFlag(f) /\ used # {}
                          THEN ModeVal(ctx \o <<i>>, used, comb)
                          ELSE GenTy(f.ty, ctx \o <<i>>, dep + 1)
            IN GenFields(d, ctx, dep, comb, i + 1, acc @@ (f.name :> val))
GenRec(d, ctx, dep, comb) == GenFields(d, ctx, dep, comb, 1, "_" :> d.ctor)
GenTy(ty, ctx, dep) ==
  IF IsVec(ty) THEN [i \in 1..Pick(ctx \o <<200>>, VecMax(dep) + 1) |-> GenTy(ty.vector, ctx \o <<100 + i>>, dep + 1)]
  ELSE CASE ty = "int"  -> IF Pick(ctx \o <<1>>, 3) = 0 THEN EdgeInt[Pick(ctx \o <<2>>, Len(EdgeInt)) + 1]
                           ELSE B!SDec(BytesToBits(R(ctx \o <<3>>)))
         [] ty = "long" -> IF Pick(ctx \o <<1>>, 3) = 0 THEN EdgeLong[Pick(ctx \o <<2>>, Len(EdgeLong)) + 1]
                           ELSE B!SDec(BytesToBits(RBytes(ctx \o <<3>>, 8)))
         [] ty = "#"    -> ModeVal(ctx, {}, -1)
         [] ty = "int128" -> BytesToHex(RBytes(ctx \o <<4>>, 16))
         [] ty = "int256" -> BytesToHex(RBytes(ctx \o <<4>>, 32))
         [] ty \in {"bytes", "string"} -> BytesToHex(GenBytes(ctx, StrLenAt(ctx, dep)))
         [] ty = "Bool" -> Pick(ctx \o <<5>>, 2) = 1
         [] IsCtor(S, ty) -> GenRec(CtorDecl(S, ty), ctx, dep, -1)
         [] IsResult(S, ty) -> LET cs == CtorsOf(S, ty) IN
                               GenRec(S.types[NthOf(cs, Pick(ctx \o <<6>>, Cardinality(cs)))], ctx, dep, -1)
         [] IsFn(S, ty) -> GenRec(FnDecl(S, ty), ctx, dep, -1)

\* root: the constructor's own flag field walks through the combinations
GenRoot(ty, ctx, round) ==
  IF ty \in Builtins THEN GenTy(ty, ctx, 0)
  ELSE IF IsCtor(S, ty) THEN GenRec(CtorDecl(S, ty), ctx, 0, round)
  ELSE IF IsFn(S, ty) THEN GenRec(FnDecl(S, ty), ctx, 0, round)
  ELSE LET cs == CtorsOf(S, ty) IN
       GenRec(S.types[NthOf(cs, round % Cardinality(cs))], ctx, 0, round \div Cardinality(cs))

\* --------------------------------------------------------------- vectors
ErrDecl == CtorDecl(S, "liteServer.error")
Vec(n) ==
  LET t     == Targets[(n % NT) + 1]
      round == n \div NT
      ctx   == B4(Seed) \o B4(n)
      v     == GenRoot(t.ty, ctx, round)
      base  == [vec |-> n, ty |-> t.ty, op |-> t.op, v |-> v]
  IN
  IF t.op = "Enc" THEN base @@ [hex |-> BytesToHex(Enc(S, t.ty, v))]
  ELSE IF t.op = "EncBare" THEN base @@ [hex |-> BytesToHex(EncBare(S, t.ty, v))]
  ELSE IF t.op = "Fn" THEN base @@ [hex |-> BytesToHex(Enc(S, t.ty, v))]
  ELSE \* Call: request, and the answer the scripted connection gives: every 4th an error, else a value of the result type
    LET fd     == FnDecl(S, t.ty)
        isErr  == round % 4 = 3
        rv     == IF isErr THEN GenRec(ErrDecl, ctx \o <<250>>, 0, -1) ELSE GenRoot(fd.result, ctx \o <<251>>, round)
        body   == IF isErr THEN Enc(S, "liteServer.Error", rv) ELSE Enc(S, fd.result, rv)
        zq     == BytesToHex(ZeroBytes(32))
        ans    == Enc(S, "adnl.Message", [_ |-> "adnl.message.answer", query_id |-> zq, answer |-> BytesToHex(body)])
    IN base @@ [hex |-> BytesToHex(Enc(S, t.ty, v)), res_ty |-> fd.result, is_err |-> isErr, resv |-> rv,
                body |-> BytesToHex(body),
                ans_pre |-> BytesToHex(SubSeq(ans, 1, 4)), ans_suf |-> BytesToHex(SubSeq(ans, 37, Len(ans)))]

Init == k = From
Next == k < To /\ k' = k + 1
Spec == Init /\ [][Next]_k
\* the generator's own sanity: what it emits is in the domain and decodes back to itself
Emit == LET x == Vec(k) IN
        /\ Valid(S, x.ty, x.v)
        /\ (x.op = "Enc" => LET d == Dec(S, x.ty, HexToBytes(x.hex)) IN d.ok /\ d.value = x.v /\ d.rest = <<>>)
        /\ PrintT(<<"VEC", ToJson(x)>>)
=============================================================================
