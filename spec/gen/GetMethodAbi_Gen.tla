--------------------------- MODULE GetMethodAbi_Gen ---------------------------
(* S->C for X09 and the model questions over the whole schema table.              *)
(* schema.ndjson: one method record per line (checks/x09.py build_schema, from    *)
(* the XML files); params.json: [seed |-> n].                                      *)
(*  mi = 0      prints <<"MODEL", json>>: duplicate method ids, duplicate Go names,*)
(*              the shadowed layouts of every method (GetMethodAbi!Covers)         *)
(*  mi = 1..N   prints <<"VEC", json>>: the cases of method mi:                    *)
(*    fit:vK     a stack fitting layout j: K = 0 small tinyints / std addresses /  *)
(*               two-element lists, 1 the same numbers as vm_stk_int and null      *)
(*               where nullable (empty lists), 2 zeros and addr_none, 3 the        *)
(*               maxima and 4 the minima of the fields' types                      *)
(*    bnd        -1, 2^63, 2^255 at one integer position (thorough: 18 bounds at    *)
(*               every integer position)                                           *)
(*    kind / kind2 / null   one position of another kind / null where not nullable *)
(*    req        another number where the record requires a value                  *)
(*    short / empty / long                                                         *)
(*    exit       exit codes 2, 0xffffffff, an executor error (the others alternate *)
(*               between 0 and 1)                                                  *)
(*  with, for methods with arguments, argument vectors rotating through small,     *)
(*  zero, negative and 2^255 / -2^256 / 2^256-1 integers, addr_std / addr_none,    *)
(*  the constructors of DedustAsset, byte strings and cells with references.       *)
(* Every case carries what the specification expects (want) for the direct         *)
(* comparison; the trace specification re-derives it from the event.               *)
EXTENDS GetMethodAbi, Json, FiniteSets, SequencesExt
CONSTANTS Thorough
VARIABLES mi, done

Schema == ndJsonDeserialize("schema.ndjson")
Params == JsonDeserialize("params.json")
Seed   == Params.seed
NM     == Len(Schema)

Pow2(k)   == BitsToDec(<<1>> \o Zeros(k))
Pow2m1(k) == BitsToDec(Ones(k))
Neg(d)    == StrCat("-", d)
AsStackInt(d) == IF SFits(d, 64) THEN VTiny(d) ELSE VInt(d)

C0 == JCell("", <<>>)
C1 == JCell("1011", <<>>)
C2 == JCell("0110100111", <<C1, JCell("1", <<>>)>>)
Hex32(pat) == BytesToHex([i \in 1..32 |-> pat[((i - 1) % Len(pat)) + 1]])
StdAddr(wc, i) == [ty |-> "MsgAddress", ctor |-> "std", wc |-> wc, addr |-> Hex32(<<i % 256, 17, 250, (i * 7) % 256>>)]
NoAddr == [ty |-> "MsgAddress", ctor |-> "none"]
RECURSIVE LispList(_)
LispList(vs) == IF Len(vs) = 0 THEN VNull ELSE VTup(<<vs[1], LispList(Tail(vs))>>)
AssetCell(k, i) == CASE k % 3 = 0 -> JCell("0000", <<>>)
                     [] k % 3 = 1 -> JCell(StrCat("0001", BitsToStr(NatBits(i % 256, 8) \o BytesToBits(HexToBytes(Hex32(<<i % 256, 3>>))))), <<>>)
                     [] k % 3 = 2 -> JCell(StrCat("0010", BitsToStr(Zeros(24) \o NatBits((77 + i) % 256, 8))), <<>>)

\* well-formed values of the TL-B types the layouts name in cell records (from the <types> sections of the schemas and block.tlb);
\* the specification reads them freely, the library must be able to read them at all:
\*   hm_edge#_ label:(HmLabel ~l n) ... with hml_same$11 v:Bit n:(#<= m): a dictionary of one entry under the key 0...0
\*   SignersList#_ signers:(Hashmap 8 MsgAddressInt);  ProposersList#_ proposers:(HashmapE 8 MsgAddressInt);
\*   _ _:(Hashmap 8 ^MultisigSendMessageAction) = MultisigOrder;  update_multisig_param#1d0cfbd3 threshold:uint8
\*     signers:^(Hashmap 8 MsgAddressInt) proposers:(HashmapE 8 MsgAddressInt) = MultisigSendMessageAction;
\*   whales_nominators_members_list#_ list:(Hashmap 256 WhalesNominatorsMember); member = int128 Grams Grams Bool Grams Grams
\*   DNS_RecordSet = Hashmap 256 ^DNSRecord;  dns_storage_address#7473 bag_id:bits256 = DNSRecord;
\*   offchain#01 uri:Text = FullContent
Same0(n)  == StrCat("110", BitsToStr(NatBits(n, IF n = 8 THEN 4 ELSE 9)))
AddrBits(i) == StrCat("10000000000", BitsToStr(BytesToBits(HexToBytes(Hex32(<<i % 256, 5>>)))))
Signers(i) == JCell(StrCat(Same0(8), AddrBits(i)), <<>>)
TypeCell(ty, i) ==
  CASE ty \in {"MultisigSignersList", "Hashmap 8 MsgAddress"} -> Signers(i)
    [] ty = "MultisigProposersList" -> JCell("0", <<>>)
    [] ty = "MultisigOrder" -> JCell(Same0(8), <<JCell(StrCat(BitsToStr(BytesToBits(HexToBytes("1d0cfbd3")) \o NatBits(i % 256, 8)), "0"), <<Signers(i + 1)>>)>>)
    [] ty = "WhalesNominatorsMembersList" -> JCell(StrCat(Same0(256), BitsToStr(Zeros(145))), <<>>)
    [] ty = "dns_recordset" -> JCell(Same0(256), <<JCell(BitsToStr(BytesToBits(HexToBytes(StrCat("7473", Hex32(<<i % 256, 9>>))))), <<>>)>>)
    [] ty = "fullcontent" -> JCell(BitsToStr(BytesToBits(<<1, 104, 116, 116, 112, 58, 47, 47, 97 + (i % 20)>>)), <<>>)
HasTypeCell(ty) == ty \in {"MultisigSignersList", "Hashmap 8 MsgAddress", "MultisigProposersList", "MultisigOrder", "WhalesNominatorsMembersList",
                           "dns_recordset", "fullcontent"}

\* ---------------------------------------------------------------- field values
MaxOf(D) == CASE D.d = "int" -> AsStackInt(IF D.s THEN Pow2m1(D.n - 1) ELSE Pow2m1(D.n))
              [] D.d = "bool" -> VTiny("-1")
              [] D.d = "big" -> VInt(Pow2m1(256)) [] D.d = "bits256" -> VInt(Pow2m1(256))
              [] D.d = "ubig" -> VInt(Pow2m1(IF D.n > 256 THEN 256 ELSE D.n)) [] D.d = "sbig" -> VInt(Pow2m1(D.n - 1))
              [] OTHER -> VTiny("1")
MinOf(D) == CASE D.d = "int" -> (IF D.s THEN AsStackInt(Neg(Pow2(D.n - 1))) ELSE VInt("0"))
              [] D.d = "bool" -> VInt("0")
              [] D.d = "big" -> VInt(Neg(Pow2(256))) [] D.d = "bits256" -> VInt("1")
              [] D.d = "ubig" -> VInt("0") [] D.d = "sbig" -> VInt(Neg(Pow2(D.n - 1)))
              [] OTHER -> VTiny("0")
RECURSIVE FieldVal(_, _, _)
FieldVal(f, var, i) ==
  IF var = 1 /\ (f.nullable \/ (f.st = "tuple" /\ f.list)) THEN VNull
  ELSE IF IntRec(f) THEN
         (IF f.req # "" THEN (IF var % 2 = 1 THEN VInt(f.req) ELSE AsStackInt(f.req))
          ELSE CASE var = 0 -> VTiny(ToString(i)) [] var = 1 -> VInt(ToString(i + 1)) [] var = 2 -> VTiny("0")
                 [] var = 3 -> MaxOf(IntDest(f.ty)) [] var = 4 -> MinOf(IntDest(f.ty)))
  ELSE IF f.st = "slice" THEN
         (IF f.ty = "msgaddress" THEN StructAsSlice(IF var = 2 THEN NoAddr ELSE StdAddr(IF var = 3 THEN "-1" ELSE IF var = 4 THEN "127" ELSE "0", i + var))
          ELSE IF f.ty = "DedustAsset" THEN VWhole(AssetCell(var + i, i))
          ELSE VWhole(IF var = 2 THEN C0 ELSE C2))
  ELSE IF f.st = "cell" THEN VCell(IF HasTypeCell(f.ty) /\ var # 4 THEN TypeCell(f.ty, i + var) ELSE IF var = 2 THEN C0 ELSE IF var = 3 THEN C2 ELSE C1)
  ELSE \* tuple
       LET one(q) == VTup([k \in 1..Len(f.sub) |-> FieldVal(f.sub[k], IF var = 1 THEN 0 ELSE var, i + k + q)]) IN
       IF f.list THEN LispList(IF var = 2 THEN <<one(0)>> ELSE <<one(0), one(3)>>) ELSE one(0)
FitStack(L, var) == [i \in 1..NF(L) |-> FieldVal(L.fields[i], var, i)]

\* one position of another kind
Wrong1(f) == IF IntRec(f) THEN StructAsSlice(StdAddr("0", 1)) ELSE VTiny("1")
Wrong2(f) == CASE IntRec(f) -> VNan [] f.st = "slice" -> VCell(C1) [] f.st = "cell" -> VWhole(C1) [] OTHER -> VBuilder(C1)
Put1(s, p, v) == [s EXCEPT ![p] = v]
Bnd == <<VTiny("-1"), VInt(Pow2(63)), VInt(Pow2(255))>>
       \o (IF Thorough THEN <<VInt("-1"), VInt("0"), VTiny(Pow2m1(31)), VTiny(Pow2(31)), VTiny(Pow2(32)), VTiny(Pow2m1(63)), VTiny(Neg(Pow2(63))), VInt(Pow2m1(64)),
                                VInt(Pow2(64)), VInt(Neg(StrCat(SubStr(Pow2(63), 1, StrLen(Pow2(63)) - 1), "9"))), VInt(Pow2m1(256)), VInt(Neg(Pow2(256))), VTiny("255"),
                                VTiny("256"), VTiny("65536")>> ELSE <<>>)
IntPos(L) == SelectSeq([i \in 1..NF(L) |-> i], LAMBDA i : IntRec(L.fields[i]) /\ L.fields[i].req = "")
ReqPos(L) == SelectSeq([i \in 1..NF(L) |-> i], LAMBDA i : L.fields[i].req # "")
Pick(seq, k) == seq[((k - 1) % Len(seq)) + 1]
Uniq(seq) == FoldLeft(LAMBDA a, x : IF \E q \in 1..Len(a) : a[q] = x THEN a ELSE Append(a, x), <<>>, seq)
BndPos(L) == LET ip == IntPos(L) IN IF Len(ip) = 0 THEN <<>> ELSE IF Thorough THEN ip ELSE Uniq(<<ip[1], ip[Len(ip)], Pick(ip, Seed + 1)>>)
KindPos(L) == IF NF(L) = 0 THEN <<>> ELSE IF Thorough THEN [i \in 1..NF(L) |-> i] ELSE Uniq(<<1, NF(L), ((Seed * 3) % NF(L)) + 1>>)

Case(cls, rs) == [cls |-> cls, stack |-> rs]
LayoutCases(L, j) ==
  LET tag(s) == StrCat(StrCat("L", ToString(j)), StrCat(":", s))
      base == FitStack(L, 1)
      b0   == FitStack(L, 0) IN
  [var \in 1..5 |-> Case(tag(StrCat("fit:v", ToString(var - 1))), FitStack(L, var - 1))]
  \o Flat([q \in 1..Len(BndPos(L)) |-> [b \in 1..Len(Bnd) |-> Case(tag("bnd"), Put1(base, BndPos(L)[q], Bnd[b]))]])
  \o Flat([q \in 1..Len(KindPos(L)) |-> LET p == KindPos(L)[q] IN
            << Case(tag("kind"), Put1(b0, p, Wrong1(L.fields[p]))), Case(tag("kind2"), Put1(base, p, Wrong2(L.fields[p]))),
               Case(tag("null"), Put1(b0, p, VNull)) >>])
  \o [q \in 1..Len(ReqPos(L)) |-> Case(tag("req"), Put1(b0, ReqPos(L)[q], VTiny(IF L.fields[ReqPos(L)[q]].req = "0" THEN "1" ELSE "0")))]
  \o (IF NF(L) = 0 THEN <<>> ELSE <<Case(tag("short"), SubSeq(b0, 1, NF(L) - 1))>>)
  \o <<Case(tag("empty"), <<>>), Case(tag("long"), b0 \o <<VTiny("77")>>), Case(tag("long"), base \o <<VNull, VCell(C1)>>)>>

\* ------------------------------------------------------------------ arguments
IntArgs == <<"5", "0", "-1", Pow2(255), Neg(Pow2(256)), Pow2m1(256), Pow2(63), "1000000007">>
TinyArgs(ty) == IF ty = "int32" THEN <<"0", "-1", "2147483647", "-2147483648", "7">> ELSE <<"12345", "0", "1", Pow2m1(63), "255">>
BytesCell(k) == JCell(BitsToStr(BytesToBits(<< <<>>, <<3, 116, 111, 110, 0>>, <<0>>, <<119, 97, 108, 108, 101, 116, 0, 116, 111, 110, 0>> >>[(k % 4) + 1])), <<>>)
ArgVal(inp, k, i) ==
  CASE inp.st = "int"     -> [t |-> "num", v |-> Pick(IntArgs, k + i)]
    [] inp.st = "tinyint" -> [t |-> "num", v |-> Pick(TinyArgs(inp.ty), k + i)]
    [] inp.st = "slice"   -> (IF inp.ty = "msgaddress" THEN [t |-> "addr", s |-> IF (k + i) % 3 = 2 THEN NoAddr ELSE StdAddr(IF (k + i) % 3 = 1 THEN "-1" ELSE "0", k + i)]
                              ELSE IF inp.ty = "DedustAsset" THEN [t |-> "raw", c |-> AssetCell(k + i, k)]
                              ELSE [t |-> "raw", c |-> BytesCell(k + i)])
    [] inp.st = "cell"    -> [t |-> "cell", c |-> <<C1, C0, C2>>[((k + i) % 3) + 1]]
Args(m, k) == [i \in 1..Len(m.ins) |-> ArgVal(m.ins[i], k, i)]

\* ---------------------------------------------------------------------- vectors
Outs(rs) == [i \in 1..Len(rs) |-> IF rs[i].k = "val" THEN rs[i].s ELSE IF rs[i].k = "err" THEN "!err" ELSE "?"]
Want(m, args, exit, xerr, rs) ==
  LET j == IF xerr \/ exit \notin {"0", "1"} THEN 0 ELSE FirstFit(m, rs) IN
  [id |-> WantId(m), params |-> WantParams(m, args),
   sel |-> IF j = 0 THEN "err" ELSE m.layouts[j].name,
   fields |-> IF j = 0 THEN <<>> ELSE Outs(ReadLayout(m.layouts[j], rs)),
   fits |-> [q \in 1..Len(m.layouts) |-> Fits(m.layouts[q], rs)]]
MethodCases(m) ==
  LET cs == Flat([j \in 1..Len(m.layouts) |-> LayoutCases(m.layouts[j], j)])
      l1 == FitStack(m.layouts[1], 1)
      ex == << [cls |-> "exit:2", stack |-> l1, exit |-> "2", xerr |-> FALSE], [cls |-> "exit:0xffffffff", stack |-> l1, exit |-> "4294967295", xerr |-> FALSE],
               [cls |-> "exit:error", stack |-> l1, exit |-> "0", xerr |-> TRUE], [cls |-> "exit:1", stack |-> l1, exit |-> "1", xerr |-> FALSE],
               [cls |-> "exit:0", stack |-> l1, exit |-> "0", xerr |-> FALSE] >>
      all == [k \in 1..Len(cs) |-> [cls |-> cs[k].cls, stack |-> cs[k].stack, exit |-> IF (k + Seed) % 2 = 0 THEN "0" ELSE "1", xerr |-> FALSE]] \o ex IN
  [k \in 1..Len(all) |-> LET a == Args(m, k + Seed) IN
     [cls |-> all[k].cls, args |-> a, exit |-> all[k].exit, xerr |-> all[k].xerr, stack |-> all[k].stack,
      want |-> Want(m, a, all[k].exit, all[k].xerr, all[k].stack)]]
Vec(m) == [method |-> m.name, go |-> m.go, layouts |-> [j \in 1..Len(m.layouts) |-> m.layouts[j].name], cases |-> MethodCases(m)]

ModelOf(S) == [dupids |-> SetToSeq(DuplicateIds(S)), dupgo |-> SetToSeq(DuplicateGoNames(S)),
          ids |-> [i \in 1..Len(S) |-> WantId(S[i])],
          shadowed |-> Flat([i \in 1..Len(S) |-> LET m == S[i] IN
                              [q \in 1..Cardinality(Shadowed(m)) |-> LET j == SetToSeq(Shadowed(m))[q] IN
                                 [method |-> m.name, layout |-> m.layouts[j].name,
                                  by |-> m.layouts[CHOOSE x \in ShadowedBy(m, j) : \A y \in ShadowedBy(m, j) : x <= y].name]]])]

Emit == IF mi = 0 THEN PrintT(<<"MODEL", ToJson(ModelOf(Schema))>>) ELSE PrintT(<<"VEC", ToJson(Vec(Schema[mi]))>>)
Init == mi \in 0..NM /\ done = "todo"
Next == done = "todo" /\ done' = "done" /\ UNCHANGED mi /\ Emit
Spec == Init /\ [][Next]_<<mi, done>>

\* ---------------------------------------------------- self-checks of the rules
\* a shadowed layout is never the first fit of its own fitting stacks; an unshadowed one is selected by at least one of them
ShadowLaw == \A i \in 1..NM : LET m == Schema[i] IN \A j \in 1..Len(m.layouts) :
               LET firsts == {FirstFit(m, FitStack(m.layouts[j], var)) : var \in 0..4} IN
               /\ 0 \notin firsts
               /\ (j \in Shadowed(m) => j \notin firsts)
ASSUME ShadowLaw
ASSUME WantId([name |-> "seqno", fixedid |-> 0]) = 85143 /\ WantId([name |-> "x", fixedid |-> 77]) = 77
ASSUME AddrRead(Window(StructAsSlice(StdAddr("-1", 5)))) = Val(StrCat("MsgAddress:std:-1:", Hex32(<<5, 17, 250, 35>>)))
ASSUME AddrRead(Window(StructAsSlice(NoAddr))) = Val("MsgAddress:none")
=============================================================================
