CONSTANTS
  MaxOps = 4
  MaxReq = 3
  Free = FALSE
SPECIFICATION Spec
INVARIANT Emit
CHECK_DEADLOCK FALSE
