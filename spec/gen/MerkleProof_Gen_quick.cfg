CONSTANTS
  MaxOps = 4
  MaxReq = 3
  TwoStep = FALSE
  Exotic = FALSE
  Hold = FALSE
  Free = FALSE
SPECIFICATION Spec
INVARIANT Emit
CHECK_DEADLOCK FALSE
