CONSTANTS
  MaxOps = 7
  Free = FALSE
SPECIFICATION Spec
INVARIANT Emit
CHECK_DEADLOCK FALSE
