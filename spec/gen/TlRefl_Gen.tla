----------------------------- MODULE TlRefl_Gen -----------------------------
(* S->C for the "reflective" phase of C10: tl.Marshal / tl.Unmarshal on plain  *)
(* Go structs (harness/internal/c10/mirror.go) for the fixed schema            *)
(* harness/internal/c10/reflective.tl (schema.json, parsed like lite_api.tl).  *)
(*  1. Rounds values of every type (TlGen: every constructor of the union      *)
(*     r.Choice in turn) with TlSem!Enc's bytes                      op "Enc"   *)
(*  2. byte strings of the boundary lengths 0 1 253 254 255 256 65536 65537,   *)
(*     in a record (r.item.v) and in a union alternative (r.beta.y)  op "Enc"   *)
(*  3. adversarial inputs with TlSem!Dec's verdict (ok, value, unread bytes):  *)
(*     unknown constructor id, constructor id in the wrong byte order, every    *)
(*     truncation of short encodings (a 2-element vector, each alternative of   *)
(*     the union, the union inside a record and inside a vector), trailing      *)
(*     bytes                                                          op "Dec"  *)
(* State k = vector k.                                                          *)
EXTENDS TlGen
CONSTANTS Seed, Rounds

S == JsonDeserialize("schema.json")
VARIABLE k

Single(i) == Cardinality(CtorsOf(S, S.types[i].result)) = 1
\* one target per type: the constructor of a single-constructor type (bare), the result name of a union (boxed)
RECURSIVE Uniq(_, _)
Uniq(sq, seen) == IF Len(sq) = 0 THEN <<>>
                  ELSE IF sq[1] \in seen THEN Uniq(Tail(sq), seen) ELSE <<sq[1]>> \o Uniq(Tail(sq), seen \cup {sq[1]})
Targets == Uniq([i \in TypeIdx(S) |-> IF Single(i) THEN S.types[i].ctor ELSE S.types[i].result], {})
NT == Len(Targets)
N1 == NT * Rounds
Ctx(n) == B4(Seed) \o B4(n) \o <<91>>

\* ---- 2. boundary lengths
Lens == <<0, 1, 253, 254, 255, 256, 65536, 65537>>
LenVec(j) ==
  LET L  == Lens[((j - 1) \div 2) + 1]
      hx == BytesToHex(GenBytes(Ctx(5000 + j), L))
      inItem == (j % 2) = 1
      ty == IF inItem THEN "r.item" ELSE "r.Choice"
      v  == IF inItem THEN [_ |-> "r.item", k |-> "-7", v |-> hx] ELSE [_ |-> "r.beta", y |-> hx, z |-> <<"1", "-2">>]
  IN [ty |-> ty, op |-> "Enc", v |-> v, hex |-> BytesToHex(Enc(S, ty, v)), cls |-> "bytes-length"]
N2 == 2 * Len(Lens)

\* ---- 3. adversarial inputs
Item(a, hx) == [_ |-> "r.item", k |-> a, v |-> hx]
Bases == <<
  [ty |-> "r.list",   v |-> [_ |-> "r.list", items |-> <<Item("1", "aabbcc"), Item("-2", "")>>, tail |-> "258"], idAt |-> -1],
  [ty |-> "r.Choice", v |-> [_ |-> "r.alpha", x |-> "-3"], idAt |-> 0],
  [ty |-> "r.Choice", v |-> [_ |-> "r.beta", y |-> "0102030405", z |-> <<"9", "-1">>], idAt |-> 0],
  [ty |-> "r.Choice", v |-> [_ |-> "r.none"], idAt |-> 0],
  [ty |-> "r.holder", v |-> [_ |-> "r.holder", pre |-> "5", c |-> [_ |-> "r.beta", y |-> "ff", z |-> <<>>], post |-> "-6"], idAt |-> 4],
  [ty |-> "r.bag",    v |-> [_ |-> "r.bag", cs |-> <<[_ |-> "r.none"], [_ |-> "r.alpha", x |-> "77"], [_ |-> "r.none"]>>, end |-> "1"], idAt |-> 8]
>>
Bytes(bs) == Enc(S, bs.ty, bs.v)
PatchAt(b, at, four) == [i \in 1..Len(b) |-> IF i > at /\ i <= at + 4 THEN four[i - at] ELSE b[i]]
UnknownId == IdBytes("feedface")
\* all adversarial inputs, as [ty, cls, b]
AdvOf(bs) ==
  LET b == Bytes(bs) IN
     [i \in 1..Len(b) |-> [ty |-> bs.ty, cls |-> "truncated", b |-> SubSeq(b, 1, i - 1)]]
  \o <<[ty |-> bs.ty, cls |-> "trailing", b |-> b \o <<1, 2, 3, 4>>],
       [ty |-> bs.ty, cls |-> "exact", b |-> b]>>
  \o (IF bs.idAt < 0 THEN <<>>
      ELSE <<[ty |-> bs.ty, cls |-> "unknown-id", b |-> PatchAt(b, bs.idAt, UnknownId)],
             [ty |-> bs.ty, cls |-> "wrong-byte-order-id", b |-> PatchAt(b, bs.idAt, Rev(SubSeq(b, bs.idAt + 1, bs.idAt + 4)))],
             \* the id of another alternative in front of these fields
             [ty |-> bs.ty, cls |-> "other-alternative-id", b |-> PatchAt(b, bs.idAt, IdBytes(IF bs.v["_"] = "r.alpha" THEN "deadbe07" ELSE "c0ffee01"))]>>)
RECURSIVE Flat(_, _)
Flat(sq, i) == IF i > Len(sq) THEN <<>> ELSE AdvOf(sq[i]) \o Flat(sq, i + 1)
Adv == Flat(Bases, 1)
N3 == Len(Adv)
AdvVec(j) ==
  LET a == Adv[j]
      d == Dec(S, a.ty, a.b)
      base == [ty |-> a.ty, op |-> "Dec", cls |-> a.cls, hex |-> BytesToHex(a.b), ok |-> d.ok, rest |-> IF d.ok THEN Len(d.rest) ELSE 0]
  IN IF d.ok THEN base @@ [v |-> d.value] ELSE base

Total == N1 + N2 + N3
Vec(n) ==
  IF n < N1 THEN VecOf(S, [ty |-> Targets[(n % NT) + 1], op |-> "Enc"], n, Ctx(n), n \div NT) @@ [cls |-> "value"]
  ELSE IF n < N1 + N2 THEN LenVec(n - N1 + 1) @@ [vec |-> n]
  ELSE AdvVec(n - N1 - N2 + 1) @@ [vec |-> n]

Init == k = 0
Next == k < Total - 1 /\ k' = k + 1
Spec == Init /\ [][Next]_k
\* sanity of the generator itself: what it emits is in the domain; exact encodings decode back; the unknown id is
\* nobody's; a reversed id is nobody's
Sane(x) == IF x.op = "Enc" THEN VecSane(S, x)
           ELSE /\ (x.cls = "exact" => x.ok /\ x.rest = 0)
                /\ (x.cls = "trailing" => x.ok /\ x.rest = 4)
                /\ (x.cls \in {"unknown-id", "wrong-byte-order-id"} => ~x.ok)
Emit == LET x == Vec(k) IN Sane(x) /\ PrintT(<<"VEC", ToJson(x)>>)
=============================================================================
