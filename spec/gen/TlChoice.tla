------------------------------ MODULE TlChoice ------------------------------
(* Deterministic choice streams for the generator specs: every "random" choice  *)
(* is a function of a context (a sequence of small numbers: seed, vector number, *)
(* path inside the value) through CRC32, so a generated vector depends only on   *)
(* (schema, seed, number) and not on TLC's own random generator or worker count. *)
EXTENDS Integers, Sequences, Prim

B4(n)  == <<n % 256, (n \div 256) % 256, (n \div 65536) % 256, (n \div 16777216) % 128>>
R(ctx) == Crc32Ieee(ctx)                                       \* 4 pseudo-random bytes
Pick(ctx, m) == LET c == R(ctx) IN (c[4] + 256 * c[3] + 65536 * c[2]) % m     \* 0..m-1, m <= 2^24
RECURSIVE RBytes(_, _)
RBytes(ctx, n) == IF n <= 0 THEN <<>> ELSE R(ctx \o <<n % 256>>) \o RBytes(ctx, n - 4)    \* n multiple of 4
RBits(ctx, n)  == SubSeq(BytesToBits(RBytes(ctx, 4 * ((n + 31) \div 32))), 1, n)          \* n pseudo-random bits
RECURSIVE Pow2(_)
Pow2(n) == IF n = 0 THEN 1 ELSE 2 * Pow2(n - 1)
RECURSIVE NthOf(_, _)
NthOf(set, n) == LET m == CHOOSE x \in set : \A y \in set : x <= y IN IF n = 0 THEN m ELSE NthOf(set \ {m}, n - 1)
=============================================================================
