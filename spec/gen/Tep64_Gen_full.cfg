SPECIFICATION Spec
CONSTANT Tier = "full"
CHECK_DEADLOCK FALSE
