CONSTANTS
  Types <- TypesAll
  MaxSet = 3
SPECIFICATION Spec
INVARIANT Emit
CHECK_DEADLOCK FALSE
