--------------------------- MODULE MerkleProof_GenD ---------------------------
(* S->C for C18 (ii): small dictionaries (key width 8, <= MaxSet entries) over  *)
(* the adversarial key pool of C05 plus the keys 01000000 / 11000000, so that     *)
(* 00,01,10,11 followed by zeros occur together.  With value mode "same" every    *)
(* key carries one value: two keys that differ in one bit then hang under a fork  *)
(* whose two children are the same cell.  The reference writer of Dict.tla lays    *)
(* the dictionary out (three label-form assignments); the vector lists, for every *)
(* present key and for absent keys, what the specification requires of            *)
(* tlb.ProveKeyInHashmap: a proof satisfying ProofOK and the value / an error.    *)
(* Value mode "valueref": for two keys that differ in the last bit only, the      *)
(* value of the first gets a reference to a cell equal to the leaf of the second  *)
(* (the sibling that a prover prunes).                                            *)
EXTENDS MerkleProof, Dict_Pool
CONSTANTS MaxAbsent,
          TwoStep     \* TRUE: the dictionary handed to the prover is the tree under an earlier proof that keeps 1 or 2 of the
                      \* keys (KeepKeysPruneSet): a partial dictionary, to be proven further
N == 8
KeyPool == Pool(N) \cup { <<0,1,0,0,0,0,0,0>>, <<1,1,0,0,0,0,0,0>> }
FormSeqs == { <<"short","short","short">>, <<"long","same","short">>, <<"same","long","long">> }
VARIABLES kset, vmode, forms, keep, out
Neighbours(S) == {p \in S \X S : p[1] # p[2] /\ SubSeq(p[1], 1, N - 1) = SubSeq(p[2], 1, N - 1)}
Init == /\ kset \in {S \in SUBSET KeyPool : Cardinality(S) >= 1 /\ Cardinality(S) <= MaxSet}
        /\ vmode \in {"distinct", "same", "valueref"} /\ forms \in FormSeqs /\ out = "todo"
        /\ vmode = "valueref" => Neighbours(kset) # {}
        /\ keep \in (IF TwoStep THEN {K \in SUBSET kset : Cardinality(K) \in {1, 2}} ELSE {{}})
ValOf(k) == IF vmode = "same" THEN Val(Z(N)) ELSE Val(k)
TableJson(T) == [i \in 1..Len(T) |-> [b |-> BitsToStr(T[i].b), x |-> T[i].x, m |-> T[i].m, r |-> [j \in 1..Len(T[i].r) |-> T[i].r[j] - 1]]]
Vec == LET m == {<<k, ValOf(k)>> : k \in kset}
           s == SortedItems(m)
           items0 == [i \in 1..Len(s) |-> [k |-> s[i][1], v |-> [b |-> s[i][2], r |-> <<>>]]]
           T0 == EncEdge(items0, 0, N, forms, <<>>)             \* Hashmap (not HashmapE): the root row is the first edge
           nb == IF vmode = "valueref" THEN CHOOSE p \in Neighbours(kset) : TRUE ELSE <<>>
           \* valueref: the leaf of nb[1] gets one reference, to a new last row that equals the leaf of nb[2]
           T == IF vmode # "valueref" THEN T0
                ELSE LET la == Lookup(T0, 1, N, nb[1]).leaf  lb == Lookup(T0, 1, N, nb[2]).leaf
                     IN Append([T0 EXCEPT ![la].r = <<Len(T0) + 1>>], T0[lb])
           items == [i \in 1..Len(s) |-> [k |-> s[i][1], v |-> [b |-> s[i][2], r |-> IF vmode = "valueref" /\ s[i][1] = nb[1] THEN <<Len(T)>> ELSE <<>>]]]
           IT == InfoTable(T)
           absentSorted == SortSeq(SetToSeq(KeyPool \ kset), BitsLess)
           na == Len(absentSorted)
           rot == BitsToNat(s[Len(s)][1]) % na                  \* which absent keys are asked varies with the key set
           absentAll == [i \in 1..na |-> absentSorted[((i - 1 + rot) % na) + 1]]
           absent == SubSeq(absentAll, 1, IF na < MaxAbsent THEN na ELSE MaxAbsent)
           D == DecEdge(T, 1, N, <<>>)
           Ch == [magic |-> "generic", idx |-> FALSE, crc |-> FALSE, cache |-> FALSE, size |-> 1, ob |-> 2, hashes |-> FALSE]
           fs == KeepKeysPruneSet(T, 1, N, keep)
           S == WithMasks(Body(Proof(T, 1, fs)))
       IN IF keep # {} THEN
            \* two-step: kept keys first (their proofs are judged), then the other keys (path pruned: unconstrained) and absent keys
            LET ks == SortSeq(SetToSeq(keep), BitsLess) \o SortSeq(SetToSeq(kset \ keep), BitsLess) \o absent IN
            [t |-> "dict", n |-> N, cells |-> TableJson(S), roots |-> <<0>>, forms |-> forms, vmode |-> vmode,
             orig |-> TableJson(T), srcboc |-> BytesToHex(Write(Proof(T, 1, fs), <<1>>, Ch)),
             keys |-> [i \in 1..Len(ks) |-> BitsToStr(ks[i])], exp |-> <<>>,
             twin |-> <<fs = {}>>,
             selfcheck |-> (D.ok /\ SourceOK(S) /\ (fs # {} => Partial(S)) /\ \A k \in keep : LET o == Lookup(S, 1, N, k) IN o.ok /\ o.found)]
          ELSE
          [t |-> "dict", n |-> N, cells |-> TableJson(T), roots |-> <<0>>, forms |-> forms, vmode |-> vmode,
           keys |-> [i \in 1..Len(s) |-> BitsToStr(s[i][1])] \o [i \in 1..Len(absent) |-> BitsToStr(absent[i])],
           exp |-> [i \in 1..Len(s) |-> [found |-> TRUE, v |-> BitsToStr(s[i][2])]] \o [i \in 1..Len(absent) |-> [found |-> FALSE, v |-> ""]],
           twin |-> [i \in 1..Len(s) |-> KeyClass(T, IT, 1, N, s[i][1]) # "plain"],
           selfcheck |-> (D.ok /\ D.items = items /\ LevelZero(T) /\ WellFormed(T)
                          /\ (\A i \in 1..Len(s) : LET o == Lookup(T, 1, N, s[i][1]) IN o.ok /\ o.found /\ o.v.b = s[i][2])
                          /\ (\A j \in 1..Len(absent) : LET oa == Lookup(T, 1, N, absent[j]) IN oa.ok /\ ~oa.found))]
Next == out = "todo" /\ out' = "done" /\ UNCHANGED <<kset, vmode, forms, keep>> /\ PrintT(<<"VEC", ToJson(Vec)>>)
Spec == Init /\ [][Next]_<<kset, vmode, forms, keep, out>>
=============================================================================
