------------------------------- MODULE Tlb_Gen -------------------------------
(* S->C for C04: for every primitive / combinator type the Go side offers      *)
(* (types.json: <<name, AST>> pairs produced by reflection), TLC enumerates the  *)
(* boundary values of the type's domain and emits the cell TlbSem!Enc prescribes *)
(* for each.  The Go side must encode the value to exactly that cell, and decode *)
(* that cell back to exactly that value.                                         *)
(* Self-check of the specification (encoder and decoder cross-validate): for    *)
(* every vector, TlbDec!Dec reads the value back from TlbSem!Enc's cell and      *)
(* leaves nothing (invariant DecAgrees; also reported per vector as `dec`), and  *)
(* for dictionaries - where Enc prescribes no unique cell - Dec reads back what   *)
(* the reference writer Dict!EncDictE wrote in every label form (DictAgrees).     *)
EXTENDS TlbDec, Json

Types == JsonDeserialize("types.json")        \* sequence of [name, ast]

Alt(n, s) == [i \in 1..n |-> (i + s) % 2]
UPats(n) == IF n = 0 THEN <<<<>>>> ELSE << Zeros(n), Zeros(n - 1) \o <<1>>, Ones(n), <<1>> \o Zeros(n - 1), Alt(n, 0), Alt(n, 1) >>
Map(f(_), s) == [i \in 1..Len(s) |-> f(s[i])]
Pick(s, k) == s[((k - 1) % Len(s)) + 1]

RECURSIVE Vals(_)
Vals(ty) ==
  CASE ty.t = "uint"  -> Map(LAMBDA p : BitsToDec(p), UPats(ty.n))
    [] ty.t = "int"   -> Map(LAMBDA p : SDec(p), UPats(ty.n))
    [] ty.t = "bits"  -> Map(LAMBDA p : BitsToStr(p), UPats(ty.n))
    [] ty.t = "bool"  -> <<TRUE, FALSE>>
    [] ty.t = "unary" -> <<"0", "1", "7">>
    [] ty.t = "varuint" ->    \* every byte length 0..n-1: the smallest and the largest value of that length
         <<"0">> \o FoldLeft(LAMBDA a, len : a \o << BitsToDec(<<1>> \o Zeros(8 * len - 8)), BitsToDec(Ones(8 * len)), BitsToDec(Alt(8 * len, 1)) >>,
                             <<>>, [i \in 1..(IF "gobytes" \in DOMAIN ty /\ ty.gobytes < ty.n - 1 THEN ty.gobytes ELSE ty.n - 1) |-> i])
    [] ty.t = "magic" -> <<"">>
    [] ty.t = "maybe" -> << [has |-> FALSE] >> \o Map(LAMBDA x : [has |-> TRUE, v |-> x], Vals(ty.of))
    [] ty.t = "either" -> Map(LAMBDA x : [right |-> FALSE, v |-> x], Vals(ty.l)) \o Map(LAMBDA x : [right |-> TRUE, v |-> x], Vals(ty.r))
    [] ty.t = "ref"   -> Vals(ty.of)
    [] ty.t = "seq"   ->      \* diagonal of the field domains (the product would explode)
         LET fv == [i \in 1..Len(ty.fields) |-> Vals(ty.fields[i].ty)]
             m  == FoldLeft(LAMBDA a, i : IF Len(fv[i]) > a THEN Len(fv[i]) ELSE a, 1, [i \in 1..Len(fv) |-> i])
         IN [k \in 1..m |-> [i \in 1..Len(fv) |-> Pick(fv[i], k + i)]]
    [] ty.t = "sum"   -> FoldLeft(LAMBDA a, i : a \o Map(LAMBDA x : [c |-> ty.ctors[i].name, v |-> x], Vals(ty.ctors[i].body)),
                                  <<>>, [i \in 1..Len(ty.ctors) |-> i])
    [] OTHER -> <<>>

RECURSIVE TreeJson(_)
TreeJson(t) == [b |-> BitsToStr(t.b), x |-> t.x, r |-> [i \in 1..Len(t.r) |-> TreeJson(t.r[i])]]

VARIABLES ti, k, out
Init == /\ ti \in 1..Len(Types) /\ k \in 1..Len(Vals(Types[ti][2])) /\ out = "todo"
Vec == LET ty == Types[ti][2]
           val == Vals(ty)[k]
           r == Enc(<<>>, ty, val)
       IN [type |-> Types[ti][1], v |-> val, ok |-> r.ok, dec |-> DecEncAgree(<<>>, ty, val),
           tree |-> IF r.ok THEN TreeJson(r.c) ELSE TreeJson(EmptyCell), text |-> IF r.ok THEN TreeText(r.c) ELSE ""]
Next == out = "todo" /\ out' = "done" /\ UNCHANGED <<ti, k>> /\ PrintT(<<"VEC", ToJson(Vec)>>)
Spec == Init /\ [][Next]_<<ti, k, out>>

\* ---------------------------------------------------------------- self-checks of the specification
DecAgrees == out = "todo" => DecEncAgree(<<>>, Types[ti][2], Vals(Types[ti][2])[k])

\* dictionaries: table (Dict's writer) -> tree
RECURSIVE TreeOfTable(_, _)
TreeOfTable(T, i) == [b |-> T[i].b, x |-> T[i].x, r |-> [q \in 1..Len(T[i].r) |-> TreeOfTable(T, T[i].r[q])]]
DictTy(n, val) == [t |-> "seq", fields |-> << [name |-> "a", ty |-> [t |-> "uint", n |-> 3]],
                                             [name |-> "d", ty |-> [t |-> "dict", n |-> n, val |-> val]],
                                             [name |-> "z", ty |-> [t |-> "bool"]] >>]
\* key sets (as bit strings) of width 4, values of a type with bits, a Maybe and a reference
DictKeySets == << <<>>, << <<0,0,0,0>> >>, << <<1,1,1,1>> >>, << <<0,0,0,0>>, <<1,1,1,1>> >>, << <<0,1,0,0>>, <<0,1,0,1>>, <<0,1,1,1>> >>,
                 << <<0,0,0,0>>, <<0,0,0,1>>, <<0,0,1,0>>, <<1,0,0,0>>, <<1,1,1,0>>, <<1,1,1,1>> >>,
                 [i \in 1..16 |-> D!NatToBits(i - 1, 4)] >>
DictValTy == [t |-> "seq", fields |-> << [name |-> "x", ty |-> [t |-> "varuint", n |-> 16]],
                                        [name |-> "m", ty |-> [t |-> "maybe", of |-> [t |-> "ref", of |-> [t |-> "int", n |-> 9]]]] >>]
DictVal(i) == << BitsToDec(D!NatToBits(i * 37, 12)), IF i % 2 = 0 THEN [has |-> FALSE] ELSE [has |-> TRUE, v |-> SDec(D!NatToBits(i * 29, 9))] >>
DictCase(keys, forms) ==
  LET items == [i \in 1..Len(keys) |-> [k |-> keys[i], v |-> LET e == Enc(<<>>, DictValTy, DictVal(i)) IN [b |-> e.c.b, kids |-> e.c.r]]]
      \* Dict's writer builds leaves without references: write the dictionary over the value BITS and graft the references back
      T0 == D!EncDictE([i \in 1..Len(items) |-> [k |-> items[i].k, v |-> [b |-> items[i].v.b]]], 4, forms)
      tree0 == TreeOfTable(T0, 1)
      RECURSIVE Graft(_, _)
      Graft(t, path) == IF Len(t.r) = 0
                          THEN LET ix == {i \in 1..Len(items) : \E lb \in {D!Label(t.b, 4 - Len(path))} : lb.ok /\ path \o lb.s = items[i].k} IN
                               IF ix = {} THEN t ELSE [t EXCEPT !.r = items[CHOOSE i \in ix : TRUE].v.kids]
                          ELSE LET lb == D!Label(t.b, 4 - Len(path)) IN
                               [t EXCEPT !.r = << Graft(t.r[1], path \o lb.s \o <<0>>), Graft(t.r[2], path \o lb.s \o <<1>>) >>]
      dictcell == IF Len(keys) = 0 THEN tree0 ELSE [tree0 EXCEPT !.r = << Graft(tree0.r[1], <<>>) >>]
      whole == [b |-> <<1, 0, 1>> \o dictcell.b \o <<1>>, x |-> 0, r |-> dictcell.r]
      want == << "5", [i \in 1..Len(keys) |-> << BitsToStr(keys[i]), DictVal(i) >>], TRUE >>
      d == Dec(<<>>, DictTy(4, DictValTy), whole)
  IN NothingLeft(d) /\ Canon(<<>>, DictTy(4, DictValTy), d.v) = Canon(<<>>, DictTy(4, DictValTy), want)
DictAgrees == \A ks \in 1..Len(DictKeySets) :
                \A forms \in {<<"short">>, <<"long">>, <<"same">>, <<"short", "long", "same">>, <<"same", "long">>} :
                   DictCase(DictKeySets[ks], forms) \/ (PrintT(<<"DICT-SELF-CHECK-FAILED", ks, forms>>) /\ FALSE)
\* a leaf with data left over, a missing reference, an over-long VarUInteger length and a (#<= n) above its bound are refused
Refusals ==
  /\ ~Dec(<<>>, [t |-> "ref", of |-> [t |-> "uint", n |-> 3]], [b |-> <<>>, x |-> 0, r |-> << [b |-> <<1,0,1,1>>, x |-> 0, r |-> <<>>] >>]).ok
  /\ DecLax(<<>>, [t |-> "ref", of |-> [t |-> "uint", n |-> 3]], [b |-> <<>>, x |-> 0, r |-> << [b |-> <<1,0,1,1>>, x |-> 0, r |-> <<>>] >>]).ok
  /\ ~Dec(<<>>, [t |-> "ref", of |-> [t |-> "uint", n |-> 3]], [b |-> <<1>>, x |-> 0, r |-> <<>>]).ok
  /\ ~Dec(<<>>, [t |-> "varuint", n |-> 7], [b |-> <<1,1,1>> \o Zeros(56), x |-> 0, r |-> <<>>]).ok
  /\ Dec(<<>>, [t |-> "varuint", n |-> 7], [b |-> <<1,1,0>> \o Zeros(48), x |-> 0, r |-> <<>>]).ok
  /\ ~Dec(<<>>, [t |-> "natle", n |-> 30], [b |-> <<1,1,1,1,1>>, x |-> 0, r |-> <<>>]).ok
  /\ Dec(<<>>, [t |-> "natle", n |-> 30], [b |-> <<1,1,1,1,0>>, x |-> 0, r |-> <<>>]).v = "30"
  /\ ~Dec(<<>>, [t |-> "natlt", n |-> 5], [b |-> <<1,0,1>>, x |-> 0, r |-> <<>>]).ok
  /\ ~Dec(<<>>, [t |-> "unary"], [b |-> <<1,1,1>>, x |-> 0, r |-> <<>>]).ok
  /\ ~Dec(<<>>, [t |-> "uint", n |-> 3], [b |-> <<1,1,1>>, x |-> 1, r |-> <<>>]).ok
  /\ Dec(<<>>, [t |-> "sum", ctors |-> << [name |-> "A", tag |-> "$1", body |-> [t |-> "seq", fields |-> <<>>]],
                                          [name |-> "B", tag |-> "$10", body |-> [t |-> "seq", fields |-> <<>>]] >>],
          [b |-> <<1, 0>>, x |-> 0, r |-> <<>>]).v.c = "A"                         \* first match
ASSUME DictAgrees
ASSUME Refusals
=============================================================================
