------------------------------- MODULE Tlb_Gen -------------------------------
(* S->C for C04: for every primitive / combinator type the Go side offers      *)
(* (types.json: <<name, AST>> pairs produced by reflection), TLC enumerates the  *)
(* boundary values of the type's domain and emits the cell TlbSem!Enc prescribes *)
(* for each.  The Go side must encode the value to exactly that cell, and decode *)
(* that cell back to exactly that value.                                         *)
EXTENDS TlbSem, Json

Types == JsonDeserialize("types.json")        \* sequence of [name, ast]

Alt(n, s) == [i \in 1..n |-> (i + s) % 2]
UPats(n) == IF n = 0 THEN <<<<>>>> ELSE << Zeros(n), Zeros(n - 1) \o <<1>>, Ones(n), <<1>> \o Zeros(n - 1), Alt(n, 0), Alt(n, 1) >>
Map(f(_), s) == [i \in 1..Len(s) |-> f(s[i])]
Pick(s, k) == s[((k - 1) % Len(s)) + 1]

RECURSIVE Vals(_)
Vals(ty) ==
  CASE ty.t = "uint"  -> Map(LAMBDA p : BitsToDec(p), UPats(ty.n))
    [] ty.t = "int"   -> Map(LAMBDA p : SDec(p), UPats(ty.n))
    [] ty.t = "bits"  -> Map(LAMBDA p : BitsToStr(p), UPats(ty.n))
    [] ty.t = "bool"  -> <<TRUE, FALSE>>
    [] ty.t = "unary" -> <<"0", "1", "7">>
    [] ty.t = "varuint" ->    \* every byte length 0..n-1: the smallest and the largest value of that length
         <<"0">> \o FoldLeft(LAMBDA a, len : a \o << BitsToDec(<<1>> \o Zeros(8 * len - 8)), BitsToDec(Ones(8 * len)), BitsToDec(Alt(8 * len, 1)) >>,
                             <<>>, [i \in 1..(IF "gobytes" \in DOMAIN ty /\ ty.gobytes < ty.n - 1 THEN ty.gobytes ELSE ty.n - 1) |-> i])
    [] ty.t = "magic" -> <<"">>
    [] ty.t = "maybe" -> << [has |-> FALSE] >> \o Map(LAMBDA x : [has |-> TRUE, v |-> x], Vals(ty.of))
    [] ty.t = "either" -> Map(LAMBDA x : [right |-> FALSE, v |-> x], Vals(ty.l)) \o Map(LAMBDA x : [right |-> TRUE, v |-> x], Vals(ty.r))
    [] ty.t = "ref"   -> Vals(ty.of)
    [] ty.t = "seq"   ->      \* diagonal of the field domains (the product would explode)
         LET fv == [i \in 1..Len(ty.fields) |-> Vals(ty.fields[i].ty)]
             m  == FoldLeft(LAMBDA a, i : IF Len(fv[i]) > a THEN Len(fv[i]) ELSE a, 1, [i \in 1..Len(fv) |-> i])
         IN [k \in 1..m |-> [i \in 1..Len(fv) |-> Pick(fv[i], k + i)]]
    [] ty.t = "sum"   -> FoldLeft(LAMBDA a, i : a \o Map(LAMBDA x : [c |-> ty.ctors[i].name, v |-> x], Vals(ty.ctors[i].body)),
                                  <<>>, [i \in 1..Len(ty.ctors) |-> i])
    [] OTHER -> <<>>

RECURSIVE TreeJson(_)
TreeJson(t) == [b |-> BitsToStr(t.b), x |-> t.x, r |-> [i \in 1..Len(t.r) |-> TreeJson(t.r[i])]]

VARIABLES ti, k, out
Init == /\ ti \in 1..Len(Types) /\ k \in 1..Len(Vals(Types[ti][2])) /\ out = "todo"
Vec == LET ty == Types[ti][2]
           val == Vals(ty)[k]
           r == Enc(<<>>, ty, val)
       IN [type |-> Types[ti][1], v |-> val, ok |-> r.ok,
           tree |-> IF r.ok THEN TreeJson(r.c) ELSE TreeJson(EmptyCell), text |-> IF r.ok THEN TreeText(r.c) ELSE ""]
Next == out = "todo" /\ out' = "done" /\ UNCHANGED <<ti, k>> /\ PrintT(<<"VEC", ToJson(Vec)>>)
Spec == Init /\ [][Next]_<<ti, k, out>>
=============================================================================
