------------------------------ MODULE Dict_GenF ------------------------------
(* S->C for C05 (2): foreign dictionaries: the reference writer with every     *)
(* assignment of label forms (short / long / same) to the edges, serialised to  *)
(* a bag the real decoder must read back as the same map.                       *)
EXTENDS Dict_Pool
AllForms == {<<a, b, c>> : a \in {"short", "long", "same"}, b \in {"short", "long", "same"}, c \in {"short", "long", "same"}}
\* the quick instance uses the three uniform assignments and two mixed ones; the full instance (FormsAll) all 27
CONSTANT FormsAll
FormSeqs5 == {<<"short","short","short">>, <<"long","long","long">>, <<"same","same","same">>,
              <<"short","long","same">>, <<"same","short","long">>}
FormSeqs == IF ~FormsAll THEN FormSeqs5 ELSE AllForms
\* the sample of additional key types (TypesNew) takes the five representative assignments in both instances
FormsFor(ty) == IF ty \in TypesNew THEN FormSeqs5 ELSE FormSeqs
VARIABLES fty, fset, fforms, fout
FInit == /\ fty \in Types
         /\ fset \in {S \in SUBSET PoolOf(fty) : Cardinality(S) <= MaxSet /\ Cardinality(S) >= 1}
         /\ fforms \in FormsFor(fty) /\ fout = "todo"
FVec == LET m == {<<k, Val(k)>> : k \in fset}
            s == SortedItems(m)
            items == [i \in 1..Len(s) |-> [k |-> s[i][1], v |-> [b |-> s[i][2], r |-> <<>>]]]
            T == EncDictE(items, fty[2], fforms)
            B == Write(T, <<1>>, [magic |-> "generic", idx |-> FALSE, crc |-> TRUE, cache |-> FALSE, size |-> 1, ob |-> 2, hashes |-> FALSE])
            D == DecDictE(T, 1, fty[2])
        IN [kind |-> fty[1], n |-> fty[2], forms |-> fforms, boc |-> BytesToHex(B), items |-> ItemsLt(m),
            selfcheck |-> (D.ok /\ D.items = items)]
FNext == fout = "todo" /\ fout' = "done" /\ UNCHANGED <<fty, fset, fforms>> /\ PrintT(<<"VEC", ToJson(FVec)>>)
FSpec == FInit /\ [][FNext]_<<fty, fset, fforms, fout>>
=============================================================================
