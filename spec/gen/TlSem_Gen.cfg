CONSTANTS
  Seed = 1
  From = 0
  To = 263
SPECIFICATION Spec
INVARIANT Emit
CHECK_DEADLOCK FALSE
