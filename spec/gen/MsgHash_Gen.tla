----------------------------- MODULE MsgHash_Gen -----------------------------
(* S->C for C16: TLC enumerates the message-shape case analysis               *)
(*   kind x init placement x body placement x source kind x destination kind   *)
(*   x anycast x fee class (x body variant)                                    *)
(* as abstract cases, and -- for external-in messages -- pairs of cases with   *)
(* the relation MsgHash!CaseRelation requires between their normalised hashes. *)
(* The Go harness concretises every case with the library (values are a        *)
(* function of the identities destv / bodyv, everything the normalised hash    *)
(* must ignore is drawn at random), records what the real code reports, and    *)
(* MsgHash_Trace judges the result against the cells.                          *)
(*   Part = "case": every shape of the three kinds x 3 body variants           *)
(*   Part = "pair": unordered pairs of external-in cases; Mode = "near": the   *)
(*          two cases differ in exactly one coordinate; Mode = "all": all      *)
EXTENDS MsgHash, Json
CONSTANTS Part, Mode
VARIABLE c

Inits  == {"none", "inline", "ref"}
Places == {"inline", "ref"}
Fees   == {"zero", "nonzero"}
IntK   == {"std", "var"}
ExtK   == {"none", "extern"}
ShapeOf(k, i, b, s, d, a, f) == [kind |-> k, init |-> i, body |-> b, src |-> s, dest |-> d, any |-> a, fee |-> f]
ExtIn  == {ShapeOf("ext_in", i, b, s, d, a, f) : i \in Inits, b \in Places, s \in ExtK, d \in IntK, a \in BOOLEAN, f \in Fees}
IntMsg == {ShapeOf("int", i, b, s, d, a, f) : i \in Inits, b \in Places, s \in IntK, d \in IntK, a \in BOOLEAN, f \in Fees}
ExtOut == {ShapeOf("ext_out", i, b, s, d, a, "zero") : i \in Inits, b \in Places, s \in IntK, d \in ExtK, a \in BOOLEAN}
Shapes == ExtIn \cup IntMsg \cup ExtOut
WithIds(sh, dv, bv) == sh @@ [destv |-> dv, bodyv |-> bv]

\* ---- part "case"
CaseGroups   == {<<k, i>> : k \in {"ext_in", "int", "ext_out"}, i \in Inits}
CaseCases(g) == {WithIds(sh, 0, bv) : sh \in {x \in Shapes : x.kind = g[1] /\ x.init = g[2]}, bv \in 0..2}
CaseOut(g, x) == [k |-> "case", c |-> x]

\* ---- part "pair"
E     == SetToSeq({WithIds(sh, dv, bv) : sh \in ExtIn, dv \in 0..1, bv \in 0..2})
Coord == {"init", "body", "src", "dest", "any", "fee", "destv", "bodyv"}
Dist(a, b) == Cardinality({f \in Coord : a[f] # b[f]})
PairGroups   == 1..Len(E)
PairCases(i) == {j \in (i + 1)..Len(E) : Mode = "all" \/ Dist(E[i], E[j]) = 1}
PairOut(i, j) == [k |-> "pair", a |-> E[i], b |-> E[j], exp |-> CaseRelation(E[i], E[j])]

Groups   == IF Part = "case" THEN CaseGroups ELSE PairGroups
Cases(g) == IF Part = "case" THEN CaseCases(g) ELSE PairCases(g)
Out(g, x) == IF Part = "case" THEN CaseOut(g, x) ELSE PairOut(g, x)

Init == c \in {<<0, g, 0>> : g \in Groups}
Next == c[1] = 0 /\ c' \in {<<1, c[2], x>> : x \in Cases(c[2])}
Spec == Init /\ [][Next]_c
Emit == c[1] = 1 => PrintT(<<"VEC", ToJson(Out(c[2], c[3]))>>)

\* the rule is a relation on cases: symmetric, and "equal" is transitive through any third case
Coherent ==
  (c[1] = 1 /\ Part = "pair") =>
     LET a == E[c[2]]  b == E[c[3]] IN
     /\ CaseRelation(a, b) = CaseRelation(b, a)
     /\ CaseRelation(a, a) = "equal"
     /\ (CaseRelation(a, b) = "equal") <=> (a.dest = b.dest /\ a.any = b.any /\ a.destv = b.destv /\ a.bodyv = b.bodyv)
=============================================================================
