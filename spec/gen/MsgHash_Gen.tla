----------------------------- MODULE MsgHash_Gen -----------------------------
(* S->C for C16: TLC enumerates the message-shape case analysis               *)
(*   kind x init placement x body placement x source kind x destination kind   *)
(*   x anycast x fee class (x body variant)                                    *)
(* and -- for external-in messages -- pairs of cases with the relation         *)
(* MsgHash!CaseRelation requires between their normalised hashes.  Every case  *)
(* is emitted as the *cell tree* MsgHash!EncMsg lays out for it (field values  *)
(* come from samples.ndjson, written by the runner from the seed; destination  *)
(* and body are functions of the identities destv / bodyv), so the source      *)
(* cells the implementation decodes are the specification's, not the product   *)
(* of the implementation's own encoder.  The Go harness only turns the table   *)
(* into cells, decodes, and records what Hash(false)/Hash(true) report;        *)
(* MsgHash_Trace judges the result against the cells.                          *)
(*   Part = "case": every shape of the three kinds x 3 body variants           *)
(*   Part = "pair": the external-in cases ("msg" vectors, one per case) and    *)
(*          unordered pairs of them by index; Mode = "near": the two cases     *)
(*          differ in exactly one coordinate; Mode = "all": all pairs          *)
(*   Part = "exotic": messages whose body / init holds exotic subtrees (Merkle *)
(*          proof over a partly pruned tree, Merkle update, library cell,      *)
(*          pruned branch; by reference and nested deeper), and a transaction  *)
(*          around each, written out as bags of cells by Boc!Write             *)
EXTENDS MsgHash, Json
CONSTANTS Part, Mode
VARIABLE c

Inits  == {"none", "inline", "ref"}
Places == {"inline", "ref"}
Fees   == {"zero", "nonzero"}
IntK   == {"std", "var"}
ExtK   == {"none", "extern"}
ShapeOf(k, i, b, s, d, a, f) == [kind |-> k, init |-> i, body |-> b, src |-> s, dest |-> d, any |-> a, fee |-> f]
ExtIn  == {ShapeOf("ext_in", i, b, s, d, a, f) : i \in Inits, b \in Places, s \in ExtK, d \in IntK, a \in BOOLEAN, f \in Fees}
IntMsg == {ShapeOf("int", i, b, s, d, a, f) : i \in Inits, b \in Places, s \in IntK, d \in IntK, a \in BOOLEAN, f \in Fees}
ExtOut == {ShapeOf("ext_out", i, b, s, d, a, "zero") : i \in Inits, b \in Places, s \in IntK, d \in ExtK, a \in BOOLEAN}
Shapes == ExtIn \cup IntMsg \cup ExtOut
WithIds(sh, dv, bv) == sh @@ [destv |-> dv, bodyv |-> bv]
ShapeOfCase(cs) == ShapeOf(cs.kind, cs.init, cs.body, cs.src, cs.dest, cs.any, cs.fee)

\* ---- concrete field values (inputs only; every layout is MsgHash's)
S == ndJsonDeserialize("samples.ndjson")[1]
RECURSIVE NodeOf(_)
NodeOf(j) == [b |-> StrToBits(j.b), c |-> [i \in 1..Len(j.c) |-> NodeOf(j.c[i])]]
NoAnycast == [d |-> 0, pfx |-> <<>>]
MkAddr(kind, v, any) ==
  CASE kind = "none"   -> [kind |-> "none"]
    [] kind = "extern" -> [kind |-> "extern", ext |-> StrToBits(S.ext)]
    [] OTHER -> LET a == (IF kind = "std" THEN S.std ELSE S.var)[v + 1] IN
                [kind |-> kind, any |-> IF any THEN [d |-> a.any.d, pfx |-> StrToBits(a.any.pfx)] ELSE NoAnycast,
                 wc |-> a.wc, addr |-> StrToBits(a.addr)]
\* the anycast flag of a case sits on the internal address: destination of int / ext_in, source of ext_out
Describe(cs) ==
  [kind |-> cs.kind,
   src  |-> CASE cs.kind = "ext_in" -> MkAddr(cs.src, 0, FALSE) [] cs.kind = "int" -> MkAddr(cs.src, 2, FALSE) [] OTHER -> MkAddr(cs.src, 2, cs.any),
   dest |-> IF cs.kind = "ext_out" THEN MkAddr(cs.dest, 0, FALSE) ELSE MkAddr(cs.dest, cs.destv, cs.any),
   fee  |-> IF cs.fee = "zero" THEN <<>> ELSE StrToBits(IF cs.kind = "int" THEN S.fwd ELSE S.fee),
   flags |-> StrToBits(S.flags), value |-> StrToBits(S.value), ihr |-> StrToBits(S.ihr), lt |-> StrToBits(S.lt), at |-> StrToBits(S.at),
   init |-> cs.init, si |-> NodeOf(IF cs.init = "ref" THEN S.si_ref ELSE S.si_inline),
   body |-> cs.body, bd |-> NodeOf(S.bodies[cs.bodyv + 1])]
TableOf(cs) == Flat(EncMsg(Describe(cs)))
CellsOf(cs) == TableJson(TableOf(cs))

\* ---- part "case"
CaseGroups   == {<<k, i>> : k \in {"ext_in", "int", "ext_out"}, i \in Inits}
CaseCases(g) == {WithIds(sh, 0, bv) : sh \in {x \in Shapes : x.kind = g[1] /\ x.init = g[2]}, bv \in 0..2}
CaseOut(g, x) == [k |-> "case", c |-> x, cells |-> CellsOf(x)]

\* ---- part "pair"
E     == SetToSeq({WithIds(sh, dv, bv) : sh \in ExtIn, dv \in 0..1, bv \in 0..2})
Coord == {"init", "body", "src", "dest", "any", "fee", "destv", "bodyv"}
Dist(a, b) == Cardinality({f \in Coord : a[f] # b[f]})
PairGroups   == 1..Len(E)
PairCases(i) == {j \in (i + 1)..Len(E) : Mode = "all" \/ Dist(E[i], E[j]) = 1}
PairOut(i, j) == [k |-> "pair", i |-> i, j |-> j, exp |-> CaseRelation(E[i], E[j])]
MsgOut(i)    == [k |-> "msg", id |-> i, c |-> E[i], cells |-> CellsOf(E[i])]

\* ---- part "exotic": messages (and transactions around them) that hold exotic subtrees, handed over as bags of cells
\* written by Boc!Write -- the implementation's serialiser has no part in producing its own input
XT == NodeOf(S.bodies[3])                                  \* a multi-cell tree X
YT == NodeOf(S.bodies[2])
V1 == [b |-> StrToBits(S.flags), c |-> <<PrunedNode(XT), YT>>]                               \* X pruned right below the root
V2 == [b |-> StrToBits(S.lt), c |-> <<YT, [b |-> StrToBits(S.at), c |-> <<PrunedNode(XT)>>]>>]   \* ... and deeper
P1 == ProofNode(V1)
P2 == ProofNode(V2)
U1 == UpdateNode(V1, V2)
L1 == LibraryNode(StrToBits(S.std[1].addr))
Ord(bits, kids) == [b |-> bits, c |-> kids]
ExoticBodies ==
  << [name |-> "proof-as-body",             kind |-> "int",     body |-> "ref",    bd |-> P1],
     [name |-> "x-and-proof-of-pruned-x",   kind |-> "ext_in",  body |-> "ref",    bd |-> Ord(StrToBits(S.at), <<XT, P1>>)],
     [name |-> "x-and-proof-inline-body",   kind |-> "ext_in",  body |-> "inline", bd |-> Ord(StrToBits(S.flags), <<XT, P1>>)],
     [name |-> "proof-nested-deeper",       kind |-> "ext_in",  body |-> "ref",    bd |-> Ord(<<1>>, <<Ord(<<0, 1>>, <<YT, Ord(<<>>, <<P2>>)>>)>>)],
     [name |-> "update-as-body",            kind |-> "int",     body |-> "ref",    bd |-> U1],
     [name |-> "update-nested",             kind |-> "ext_out", body |-> "ref",    bd |-> Ord(<<1, 1>>, <<U1, XT>>)],
     [name |-> "library-nested",            kind |-> "ext_in",  body |-> "ref",    bd |-> Ord(<<1, 0, 1>>, <<L1, Ord(<<0>>, <<L1>>)>>)],
     [name |-> "pruned-branch-in-body",     kind |-> "int",     body |-> "ref",    bd |-> Ord(<<0, 0>>, <<PrunedNode(XT), XT>>)],
     [name |-> "proof-as-init-code",        kind |-> "int",     body |-> "inline", bd |-> Ord(<<>>, <<>>)],
     \* pruned branches whose level mask has several significant bits (a record cut out of a proof nested in two Merkle cells)
     [name |-> "pruned-mask-3-as-body",     kind |-> "int",     body |-> "ref",    bd |-> PrunedMaskNode(V1, 3)],
     [name |-> "pruned-mask-3-inline-body", kind |-> "ext_out", body |-> "inline", bd |-> Ord(<<1, 0>>, <<PrunedMaskNode(V1, 3), XT>>)],
     [name |-> "pruned-mask-5-nested",      kind |-> "ext_out", body |-> "ref",    bd |-> Ord(<<1>>, <<Ord(<<0>>, <<PrunedMaskNode(V1, 5)>>), XT>>)],
     [name |-> "pruned-mask-6-as-body",     kind |-> "int",     body |-> "ref",    bd |-> PrunedMaskNode(Ord(<<1, 1>>, <<PrunedMaskNode(XT, 2)>>), 6)],
     [name |-> "pruned-mask-7-nested",      kind |-> "int",     body |-> "ref",    bd |-> Ord(<<0, 1>>, <<PrunedMaskNode(Ord(<<>>, <<PrunedMaskNode(V1, 3), YT>>), 7)>>)],
     [name |-> "pruned-masks-2-and-4",      kind |-> "int",     body |-> "ref",    bd |-> Ord(<<1>>, <<PrunedMaskNode(XT, 2), PrunedMaskNode(YT, 4)>>)] >>
ExoticCase(k) == LET sh == IF k = "ext_in" THEN ShapeOf(k, "none", "ref", "none", "std", FALSE, "zero")
                           ELSE IF k = "int" THEN ShapeOf(k, "none", "ref", "std", "std", FALSE, "nonzero")
                           ELSE ShapeOf(k, "none", "ref", "var", "extern", FALSE, "zero")
                 IN WithIds(sh, 0, 0)
ExoticMsg(x) ==
  LET D0 == Describe(ExoticCase(x.kind))
      D  == IF x.name = "proof-as-init-code"
              THEN [D0 EXCEPT !.init = "ref", !.si = Ord(<<0, 0, 1, 0, 0>>, <<P1>>), !.body = x.body, !.bd = x.bd]
              ELSE [D0 EXCEPT !.body = x.body, !.bd = x.bd]
  IN EncMsg(D)
PlainBag == [magic |-> "generic", idx |-> FALSE, crc |-> FALSE, cache |-> FALSE, size |-> 1, ob |-> 2, hashes |-> FALSE]
BagOf(node) == BytesToHex(Write(WithMasks(Flat(node)), <<1>>, PlainBag))
ExoticTx(x) == TxNode(StrToBits(S.std[2].addr), StrToBits(S.lt), StrToBits(S.std[3].addr), StrToBits(S.at), ExoticMsg(x))
ExoticGroups   == 1..Len(ExoticBodies)
ExoticCases(g) == {"msg", "tx"}
ExoticOut(g, w) == LET x == ExoticBodies[g] IN
  IF w = "msg" THEN [k |-> "xmsg", name |-> x.name, kind |-> x.kind, boc |-> BagOf(ExoticMsg(x))]
  ELSE [k |-> "xtx", name |-> x.name, kind |-> x.kind, boc |-> BagOf(ExoticTx(x))]

Groups   == CASE Part = "case" -> CaseGroups [] Part = "pair" -> PairGroups [] OTHER -> ExoticGroups
Cases(g) == CASE Part = "case" -> CaseCases(g) [] Part = "pair" -> PairCases(g) [] OTHER -> ExoticCases(g)
Out(g, x) == CASE Part = "case" -> CaseOut(g, x) [] Part = "pair" -> PairOut(g, x) [] OTHER -> ExoticOut(g, x)

Init == c \in {<<0, g, 0>> : g \in Groups}
Next == c[1] = 0 /\ c' \in {<<1, c[2], x>> : x \in Cases(c[2])}
Spec == Init /\ [][Next]_c
Emit == IF c[1] = 1 THEN PrintT(<<"VEC", ToJson(Out(c[2], c[3]))>>)
        ELSE (Part = "pair" => PrintT(<<"VEC", ToJson(MsgOut(c[2]))>>))

\* The specification agrees with itself on everything it hands out: the cell it lays out for a case parses back (MsgParse)
\* to that shape, destination and body; and the relation of two cases (CaseRelation) is the relation of their cells (PairRelation).
ReadsBack(cs) ==
  LET D == Describe(cs)  T == Flat(EncMsg(D))  mp == MsgParse(T, 1) IN
  /\ mp.ok
  /\ Shape(mp) = ShapeOfCase(cs)
  /\ BodyHash(BodyTable(T, mp)) = BodyHash(Flat(D.bd))
  /\ cs.kind # "ext_out" => DestBits(mp.info.dest, TRUE) = DestBits(D.dest, TRUE)
Coherent ==
  /\ (c[1] = 1 /\ Part = "case") => ReadsBack(c[3])
  /\ (c[1] = 0 /\ Part = "pair") => ReadsBack(E[c[2]])
  \* what the specification hands out as a bag is a well-formed DAG that its own parser reads back to the same root hash
  /\ (c[1] = 1 /\ Part = "exotic") =>
       LET n == IF c[3] = "msg" THEN ExoticMsg(ExoticBodies[c[2]]) ELSE ExoticTx(ExoticBodies[c[2]])
           T == WithMasks(Flat(n))
           P == Parse(HexToBytes(BagOf(n)))
       IN WellFormed(T) /\ P.ok /\ RootHashes(P) = <<ReprHash(InfoTable(T)[1])>> /\ MsgParse(WithMasks(Flat(ExoticMsg(ExoticBodies[c[2]]))), 1).ok
  /\ (c[1] = 1 /\ Part = "pair") =>
       LET a == E[c[2]]  b == E[c[3]]  Ta == TableOf(a)  Tb == TableOf(b) IN
       /\ CaseRelation(a, b) = CaseRelation(b, a)
       /\ CaseRelation(a, a) = "equal"
       /\ (Mode = "near" => PairRelation(Ta, MsgParse(Ta, 1), Tb, MsgParse(Tb, 1)) = CaseRelation(a, b))
=============================================================================
