-------------------------- MODULE MerkleProof_Canary --------------------------
(* Synthetic, hand-checkable trace segments for the binding self-test of C18.   *)
(* Nothing here comes from the code under test: the proofs are written by the    *)
(* specification itself (Proof + Boc!Write).  The tree is  root(101)[L(0110),    *)
(* R(11110)]; the dictionary maps the 8-bit keys 00000000 -> 0xAAAAAAAA and       *)
(* 10000000 -> 0x55555555 (root = empty label, two leaves).                       *)
(* Segments (expected verdict):                                                   *)
(*  W1 prune L, proof; new cursor, nothing pruned, whole tree        accepted     *)
(*  W2 as W1 but the 2nd proof still has L pruned        rejected, class leak     *)
(*  W3 Prune dropped from the script, proof has L pruned  rejected, class plain   *)
(*  W4 a bit of the stored hash flipped                   rejected well-formed    *)
(*  W5 two interleaved sessions, each proof has its own prune only   accepted     *)
(*  W6 two open sessions, the proof of the one that pruned nothing has L pruned    *)
(*                                                        rejected, class leak     *)
(*  D1 key A, key B, absent key refused, key A again                 accepted     *)
(*  D2 key B, then key A with BOTH leaves pruned         rejected, class leak     *)
(*  D3 key A answered with the proof of key B             rejected value:pruned   *)
(*  D4 absent key answered with a proof                   rejected absent-key-proved *)
(*  D5 key A, stored hash bit flipped                     rejected well-formed    *)
(*  D6 key A, right proof, wrong returned value           rejected returned-value *)
EXTENDS MerkleProof, Json
VARIABLE out
C(b, r) == [b |-> b, x |-> Ordinary, m |-> 0, r |-> r]
WT == << C(<<1,0,1>>, <<2, 3>>), C(<<0,1,1,0>>, <<>>), C(<<1,1,1,1,0>>, <<>>) >>
Ch == [magic |-> "generic", idx |-> FALSE, crc |-> FALSE, cache |-> FALSE, size |-> 1, ob |-> 2, hashes |-> FALSE]
Bag(PT) == BytesToHex(Write(PT, <<1>>, Ch))
FlipBit(PT) == [PT EXCEPT ![1].b = [@ EXCEPT ![60] = 1 - @]]          \* a bit of the hash stored in the Merkle-proof cell
TableJson(T) == [i \in 1..Len(T) |-> [b |-> BitsToStr(T[i].b), x |-> T[i].x, r |-> [j \in 1..Len(T[i].r) |-> T[i].r[j] - 1]]]
WReset == [k |-> "Reset", kind |-> "walk", src |-> "canary", mode |-> "none", n |-> 0, cells |-> TableJson(WT), roots |-> <<0>>]
Cur(c) == [k |-> "Cursor", c |-> c]
Ref0(c, i) == [k |-> "Ref", c |-> c, i |-> i]
Pr(c) == [k |-> "Prune", c |-> c]
Cr(c, PT) == [k |-> "Create", c |-> c, err |-> "", panic |-> "", proof |-> Bag(PT)]
PL == Proof(WT, 1, {<<1>>})   PR == Proof(WT, 1, {<<2>>})   P0 == Proof(WT, 1, {})
WS1 == << WReset, Cur(1), Ref0(1, 0), Pr(1), Cr(1, PL), Cur(2), Cr(2, P0) >>
WS2 == << WReset, Cur(1), Ref0(1, 0), Pr(1), Cr(1, PL), Cur(2), Cr(2, PL) >>
WS3 == << WReset, Cur(1), Ref0(1, 0), Cr(1, PL) >>
WS4 == << WReset, Cur(1), Ref0(1, 0), Pr(1), Cr(1, FlipBit(PL)) >>
WS5 == << WReset, Cur(1), Cur(2), Ref0(1, 0), Ref0(2, 1), Pr(1), Pr(2), Cr(2, PR), Cr(1, PL) >>
WS6 == << WReset, Cur(1), Cur(2), Ref0(1, 0), Pr(1), Cr(2, PL) >>

KA == <<0,0,0,0,0,0,0,0>>   KB == <<1,0,0,0,0,0,0,0>>   KX == <<0,1,0,0,0,0,0,0>>
VA == [i \in 1..32 |-> i % 2]   VB == [i \in 1..32 |-> (i + 1) % 2]
DT == EncEdge(<< [k |-> KA, v |-> [b |-> VA, r |-> <<>>]], [k |-> KB, v |-> [b |-> VB, r |-> <<>>]] >>, 0, 8, <<"short">>, <<>>)
DReset == [k |-> "Reset", kind |-> "dict", src |-> "canary", mode |-> "none", n |-> 8, cells |-> TableJson(DT), roots |-> <<0>>]
ValT(vb) == [cells |-> << [b |-> BitsToStr(vb), x |-> 0, r |-> <<>>] >>, roots |-> <<0>>]
Key(kb, vb, PT) == [k |-> "Key", key |-> BitsToStr(kb), err |-> "", panic |-> "", val |-> ValT(vb), proof |-> Bag(PT)]
Refused(kb) == [k |-> "Key", key |-> BitsToStr(kb), err |-> "e", panic |-> "", val |-> [cells |-> <<>>, roots |-> <<>>], proof |-> ""]
PA == Proof(DT, 1, {<<2>>})   PB == Proof(DT, 1, {<<1>>})   PAB == Proof(DT, 1, {<<1>>, <<2>>})
DS1 == << DReset, Key(KA, VA, PA), Key(KB, VB, PB), Refused(KX), Key(KA, VA, PA) >>
DS2 == << DReset, Key(KB, VB, PB), Key(KA, VA, PAB) >>
DS3 == << DReset, Key(KA, VA, PB) >>
DS4 == << DReset, Key(KX, VA, PA) >>
DS5 == << DReset, Key(KA, VA, FlipBit(PA)) >>
DS6 == << DReset, Key(KA, VB, PA) >>
All == WS1 \o WS2 \o WS3 \o WS4 \o WS5 \o WS6 \o DS1 \o DS2 \o DS3 \o DS4 \o DS5 \o DS6
Init == out = "todo"
Next == out = "todo" /\ out' = "done" /\ PrintT(<<"VEC", ToJson([events |-> All, lens |-> <<Len(WS1), Len(WS2), Len(WS3), Len(WS4), Len(WS5), Len(WS6), Len(DS1), Len(DS2), Len(DS3), Len(DS4), Len(DS5), Len(DS6)>>,
                                                                selfcheck |-> (WellFormed(PL) /\ WellFormed(P0) /\ WellFormed(PAB) /\ DecEdge(DT, 1, 8, <<>>).ok)])>>)
Spec == Init /\ [][Next]_out
=============================================================================
