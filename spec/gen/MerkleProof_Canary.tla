-------------------------- MODULE MerkleProof_Canary --------------------------
(* Synthetic, hand-checkable trace segments for the binding self-test of C18.   *)
(* Nothing here comes from the code under test: the proofs are written by the    *)
(* specification itself (Proof + Boc!Write).  The tree is  root(101)[L(0110),    *)
(* R(11110)]; the dictionary maps the 8-bit keys 00000000 -> 0xAAAAAAAA and       *)
(* 10000000 -> 0x55555555 (root = empty label, two leaves).                       *)
(* Segments (expected verdict):                                                   *)
(*  W1 prune L, proof; new cursor, nothing pruned, whole tree        accepted     *)
(*  W2 as W1 but the 2nd proof still has L pruned        rejected, class leak     *)
(*  W3 Prune dropped from the script, proof has L pruned  rejected, class plain   *)
(*  W4 a bit of the stored hash flipped                   rejected stored-hash    *)
(*  W5 two interleaved sessions, each proof has its own prune only   accepted     *)
(*  W6 two open sessions, the proof of the one that pruned nothing has L pruned    *)
(*                                                        rejected, class leak     *)
(*  D1 key A, key B, absent key refused, key A again                 accepted     *)
(*  D2 key B, then key A with BOTH leaves pruned         rejected, class leak     *)
(*  D3 key A answered with the proof of key B             rejected value:pruned   *)
(*  D4 absent key answered with a proof                   rejected absent-key-proved *)
(*  D5 key A, stored hash bit flipped                     rejected stored-hash    *)
(*  D6 key A, right proof, wrong returned value           rejected returned-value *)
(* Two-step proofs.  T2 = root[A[A1,A2], B[B1], C]; the source S2 is the tree under *)
(* Proof(T2, {A}) (A is a pruned branch of depth 1, root of S2 has level 1).         *)
(*  P1 prune B (A kept); re-prune A; prune the root (above A)          accepted     *)
(*  P2 as the 1st proof of P1, kept pruned branch A written with mask 0              *)
(*                                         rejected level-mask, class partial        *)
(*  P3 Merkle-proof cell stores hash/depth of S2's root at its HIGHEST level         *)
(*                                         rejected stored-hash, class partial       *)
(*  P4 A re-pruned, the new pruned branch stores depth 0 instead of 1                *)
(*                                         rejected pruned-cell, class partial       *)
(*  H1 a := root.Ref(0); l := a.Ref(0); r := a.Ref(1); l.Prune(): A1 pruned  accepted *)
(*  H2 same calls, the proof has A2 (the position of r) pruned                        *)
(*                                  rejected asked-but-not-pruned, class held         *)
(*  K1 as W1's first proof, the kept root cell has lost its first data bit            *)
(*                                  rejected kept-cell                                *)
(* Merkle cell below the root.  XS = root[leaf, M[c[g1, g2]]], M a Merkle-proof cell  *)
(* over the whole sub-tree c.                                                         *)
(*  X1 prune g1 (beneath M): proof with a LEVEL-2 pruned branch; prune leaf: refused    *)
(*     (M is reached); prune the root (M hidden): proof                  accepted     *)
(*  X2 prune g1, the proof has an ordinary level-1 pruned branch beneath M              *)
(*                                  rejected pruned-cell, class beneath-merkle          *)
(*  X3 prune the root, refused although no Merkle cell is reached                       *)
(*                                  rejected create-proof-error, class merkle           *)
(*  X4 prune g1, refused (M is reached)                                  accepted     *)
(*  D7 key A (present) refused                             rejected present-key-error *)
(* YS = root[leaf, Mb[r1[Ma[P3]]]]: P3 a pruned branch of MASK 3 (two stored levels,   *)
(* depths 2 and 1) beneath two Merkle-proof cells.                                     *)
(*  X5 nothing pruned: refused (a Merkle cell is reached); root pruned: proof  accepted *)
(*  X6 root pruned, the Merkle-proof cell carries depth + 7                            *)
(*                                  rejected stored-depth, class merkle                 *)
(* DT3 = {KA, KB, KC}; the source is the tree under the proof that keeps KA and KB.  *)
(*  Q1 key A (prunes above the old pruned branch), key B (re-prunes it), key C       *)
(*     (path pruned: anything but a panic), absent key refused         accepted     *)
(*  Q2 key A, Merkle-proof cell stores the hash at the highest level                 *)
(*                                         rejected stored-hash, class partial       *)
EXTENDS MerkleProof, Json
VARIABLE out
C(b, r) == [b |-> b, x |-> Ordinary, m |-> 0, r |-> r]
WT == << C(<<1,0,1>>, <<2, 3>>), C(<<0,1,1,0>>, <<>>), C(<<1,1,1,1,0>>, <<>>) >>
Ch == [magic |-> "generic", idx |-> FALSE, crc |-> FALSE, cache |-> FALSE, size |-> 1, ob |-> 2, hashes |-> FALSE]
Bag(PT) == BytesToHex(Write(PT, <<1>>, Ch))
FlipBit(PT) == [PT EXCEPT ![1].b = [@ EXCEPT ![60] = 1 - @]]          \* a bit of the hash stored in the Merkle-proof cell
TableJson(T) == [i \in 1..Len(T) |-> [b |-> BitsToStr(T[i].b), x |-> T[i].x, r |-> [j \in 1..Len(T[i].r) |-> T[i].r[j] - 1]]]
WReset == [k |-> "Reset", kind |-> "walk", src |-> "canary", mode |-> "none", n |-> 0, cells |-> TableJson(WT), roots |-> <<0>>]
Cur(c) == [k |-> "Cursor", c |-> c]
RefH(c, h, nh, i) == [k |-> "Ref", c |-> c, h |-> h, nh |-> nh, i |-> i]
PrH(c, h) == [k |-> "Prune", c |-> c, h |-> h]
Ref0(c, i) == RefH(c, 0, 1, i)                \* handle 1 := handle 0 .Ref(i)
Pr(c) == PrH(c, 1)
Cr(c, PT) == [k |-> "Create", c |-> c, h |-> 0, err |-> "", panic |-> "", proof |-> Bag(PT)]
PL == Proof(WT, 1, {<<1>>})   PR == Proof(WT, 1, {<<2>>})   P0 == Proof(WT, 1, {})
WS1 == << WReset, Cur(1), Ref0(1, 0), Pr(1), Cr(1, PL), Cur(2), Cr(2, P0) >>
WS2 == << WReset, Cur(1), Ref0(1, 0), Pr(1), Cr(1, PL), Cur(2), Cr(2, PL) >>
WS3 == << WReset, Cur(1), Ref0(1, 0), Cr(1, PL) >>
WS4 == << WReset, Cur(1), Ref0(1, 0), Pr(1), Cr(1, FlipBit(PL)) >>
WS5 == << WReset, Cur(1), Cur(2), Ref0(1, 0), Ref0(2, 1), Pr(1), Pr(2), Cr(2, PR), Cr(1, PL) >>
WS6 == << WReset, Cur(1), Cur(2), Ref0(1, 0), Pr(1), Cr(2, PL) >>

KA == <<0,0,0,0,0,0,0,0>>   KB == <<1,0,0,0,0,0,0,0>>   KX == <<0,1,0,0,0,0,0,0>>
VA == [i \in 1..32 |-> i % 2]   VB == [i \in 1..32 |-> (i + 1) % 2]
DT == EncEdge(<< [k |-> KA, v |-> [b |-> VA, r |-> <<>>]], [k |-> KB, v |-> [b |-> VB, r |-> <<>>]] >>, 0, 8, <<"short">>, <<>>)
DReset == [k |-> "Reset", kind |-> "dict", src |-> "canary", mode |-> "none", n |-> 8, cells |-> TableJson(DT), roots |-> <<0>>]
ValT(vb) == [cells |-> << [b |-> BitsToStr(vb), x |-> 0, r |-> <<>>] >>, roots |-> <<0>>]
Key(kb, vb, PT) == [k |-> "Key", key |-> BitsToStr(kb), err |-> "", panic |-> "", val |-> ValT(vb), proof |-> Bag(PT)]
Refused(kb) == [k |-> "Key", key |-> BitsToStr(kb), err |-> "e", panic |-> "", val |-> [cells |-> <<>>, roots |-> <<>>], proof |-> ""]
PA == Proof(DT, 1, {<<2>>})   PB == Proof(DT, 1, {<<1>>})   PAB == Proof(DT, 1, {<<1>>, <<2>>})
DS1 == << DReset, Key(KA, VA, PA), Key(KB, VB, PB), Refused(KX), Key(KA, VA, PA) >>
DS2 == << DReset, Key(KB, VB, PB), Key(KA, VA, PAB) >>
DS3 == << DReset, Key(KA, VA, PB) >>
DS4 == << DReset, Key(KX, VA, PA) >>
DS5 == << DReset, Key(KA, VA, FlipBit(PA)) >>
DS6 == << DReset, Key(KA, VB, PA) >>
\* ---- two-step proofs
T2 == << C(<<1,0,1>>, <<2, 5, 7>>), C(<<0,1,1,0>>, <<3, 4>>), C(<<1>>, <<>>), C(<<0,0>>, <<>>), C(<<1,1,1,1,0>>, <<6>>), C(<<0,1,0>>, <<>>), C(<<1,1,1,1>>, <<>>) >>
S2 == WithMasks(Body(Proof(T2, 1, {<<1>>})))          \* root[pruned(A), B[B1], C]
IS2 == InfoTable(S2)
TableJsonM(T) == [i \in 1..Len(T) |-> [b |-> BitsToStr(T[i].b), x |-> T[i].x, m |-> T[i].m, r |-> [j \in 1..Len(T[i].r) |-> T[i].r[j] - 1]]]
PReset == [k |-> "Reset", kind |-> "walk", src |-> "canary", mode |-> "proof", n |-> 0, cells |-> TableJsonM(S2), roots |-> <<0>>,
           orig |-> [cells |-> TableJson(T2), roots |-> <<0>>]]
QB == Proof(S2, 1, {<<2>>})      \* rows: 1 Merkle proof, 2 root, 3 A (kept pruned branch), 4 B (new pruned branch), 5 C
QA == Proof(S2, 1, {<<1>>})      \* A pruned again: the same pruned branch
QR == Proof(S2, 1, {<<>>})       \* the root pruned: above A
Bytes(PT, i) == DataBytes(PT[i].b)
PSS1 == << PReset, Cur(1), Ref0(1, 1), Pr(1), Cr(1, QB), Cur(2), Ref0(2, 0), Pr(2), Cr(2, QA), Cur(3), PrH(3, 0), Cr(3, QR) >>
PSS2 == << PReset, Cur(1), Ref0(1, 1), Pr(1), Cr(1, [QB EXCEPT ![3].m = 0]) >>
PSS3 == << PReset, Cur(1), Ref0(1, 1), Pr(1), Cr(1, [QB EXCEPT ![1].b = BytesToBits(<<3>> \o IS2[1].h[4] \o U16(IS2[1].d[4]))]) >>
PSS4 == << PReset, Cur(1), Ref0(1, 0), Pr(1), Cr(1, [QA EXCEPT ![3].b = BytesToBits(SubSeq(Bytes(QA, 3), 1, 34) \o <<0, 0>>)]) >>
\* ---- several cursor values alive at once: a := root.Ref(0); l := a.Ref(0); r := a.Ref(1); l.Prune()
HoldScript == << Cur(1), RefH(1, 0, 1, 0), RefH(1, 1, 2, 0), RefH(1, 1, 3, 1), PrH(1, 2) >>
HReset == [k |-> "Reset", kind |-> "walk", src |-> "canary", mode |-> "none", n |-> 0, cells |-> TableJson(T2), roots |-> <<0>>]
HS1 == << HReset >> \o HoldScript \o << Cr(1, Proof(T2, 1, {<<1, 1>>})) >>
HS2 == << HReset >> \o HoldScript \o << Cr(1, Proof(T2, 1, {<<1, 2>>})) >>     \* the position of r was pruned instead
\* a kept cell rebuilt with only the tail of its data (as if a read cursor had been honoured)
KS1 == << WReset, Cur(1), Ref0(1, 0), Pr(1), Cr(1, [PL EXCEPT ![2].b = SubSeq(@, 2, Len(@))]) >>
\* ---- a Merkle-proof cell below the root
XSub == << C(<<0,1,1,0>>, <<2, 3>>), C(<<1>>, <<>>), C(<<0,0>>, <<>>) >>
XS == << C(<<1,0,1>>, <<2, 3>>), C(<<1,1,1,1,0>>, <<>>) >> \o Shift(Proof(XSub, 1, {}), 2)     \* rows: root, leaf, M, c, g1, g2
IXS == InfoTable(XS)
XReset == [k |-> "Reset", kind |-> "walk", src |-> "canary", mode |-> "boc", n |-> 0, cells |-> TableJsonM(XS), roots |-> <<0>>]
ToG1(c) == << Cur(c), RefH(c, 0, 1, 1), RefH(c, 1, 2, 0), RefH(c, 2, 3, 0), PrH(c, 3) >>
CrErr(c) == [k |-> "Create", c |-> c, h |-> 0, err |-> "e", panic |-> "", proof |-> ""]
XG1 == Proof(XS, 1, {<<2, 1, 1>>})          \* rows: 1 Merkle proof, 2 root, 3 leaf, 4 M, 5 c, 6 g1 (pruned, level 2), 7 g2
XG1L1 == WithMasks([XG1 EXCEPT ![6] = PrunedCell(IXS[5])])          \* an ordinary level-1 pruned branch in its place
XSS1 == << XReset >> \o ToG1(1) \o << Cr(1, XG1), Cur(2), RefH(2, 0, 1, 0), PrH(2, 1), CrErr(2), Cur(3), PrH(3, 0), Cr(3, Proof(XS, 1, {<<>>})) >>
XSS2 == << XReset >> \o ToG1(1) \o << Cr(1, XG1L1) >>
XSS3 == << XReset, Cur(1), PrH(1, 0), CrErr(1) >>
XSS4 == << XReset >> \o ToG1(1) \o << CrErr(1) >>
DS7 == << DReset, Refused(KA) >>
YDeep == << C(<<0,1>>, <<2>>), C(<<1>>, <<3>>), C(<<0,0>>, <<>>) >>                                  \* x[u[u1]]
Y1 == << C(<<1,0,1>>, <<2>>) >> \o Shift(Proof(YDeep, 1, {<<1>>}), 1)                               \* r1[Ma[x[pruned (u)]]]
YS == << C(<<1,1>>, <<2, 3>>), C(<<0>>, <<>>) >> \o Shift(Proof(Y1, 1, {<<1, 1>>}), 2)               \* root[leaf, Mb[r1[Ma[P3]]]]
IYS == InfoTable(YS)
YReset == [k |-> "Reset", kind |-> "walk", src |-> "canary", mode |-> "boc", n |-> 0, cells |-> TableJsonM(YS), roots |-> <<0>>]
YR == Proof(YS, 1, {<<>>})
XSS5 == << YReset, Cur(1), CrErr(1), Cur(2), PrH(2, 0), Cr(2, YR) >>
XSS6 == << YReset, Cur(1), PrH(1, 0), Cr(1, [YR EXCEPT ![1].b = BytesToBits(<<3>> \o IYS[1].h[1] \o U16(IYS[1].d[1] + 7))]) >>
KC == <<1,1,0,0,0,0,0,0>>   VC == [i \in 1..32 |-> IF i % 3 = 0 THEN 1 ELSE 0]
DT3 == EncEdge(<< [k |-> KA, v |-> [b |-> VA, r |-> <<>>]], [k |-> KB, v |-> [b |-> VB, r |-> <<>>]], [k |-> KC, v |-> [b |-> VC, r |-> <<>>]] >>, 0, 8, <<"short">>, <<>>)
KeepAB == KeepKeysPruneSet(DT3, 1, 8, {KA, KB})
S3 == WithMasks(Body(Proof(DT3, 1, KeepAB)))
IS3 == InfoTable(S3)
QReset == [k |-> "Reset", kind |-> "dict", src |-> "canary", mode |-> "proof", n |-> 8, cells |-> TableJsonM(S3), roots |-> <<0>>,
           orig |-> [cells |-> TableJson(DT3), roots |-> <<0>>]]
QKA == Proof(S3, 1, {<<2>>})    QKB == Proof(S3, 1, {<<1>>, <<2, 2>>})
QS1 == << QReset, Key(KA, VA, QKA), Key(KB, VB, QKB), Refused(KC), Refused(KX) >>
QS2 == << QReset, Key(KA, VA, [QKA EXCEPT ![1].b = BytesToBits(<<3>> \o IS3[1].h[4] \o U16(IS3[1].d[4]))]) >>
All == WS1 \o WS2 \o WS3 \o WS4 \o WS5 \o WS6 \o DS1 \o DS2 \o DS3 \o DS4 \o DS5 \o DS6 \o PSS1 \o PSS2 \o PSS3 \o PSS4 \o QS1 \o QS2 \o HS1 \o HS2 \o KS1 \o XSS1 \o XSS2 \o XSS3 \o XSS4 \o DS7 \o XSS5 \o XSS6
Init == out = "todo"
Next == out = "todo" /\ out' = "done" /\ PrintT(<<"VEC", ToJson([events |-> All, lens |-> <<Len(WS1), Len(WS2), Len(WS3), Len(WS4), Len(WS5), Len(WS6), Len(DS1), Len(DS2), Len(DS3), Len(DS4), Len(DS5), Len(DS6), Len(PSS1), Len(PSS2), Len(PSS3), Len(PSS4), Len(QS1), Len(QS2), Len(HS1), Len(HS2), Len(KS1), Len(XSS1), Len(XSS2), Len(XSS3), Len(XSS4), Len(DS7), Len(XSS5), Len(XSS6)>>,
                                                                selfcheck |-> (WellFormed(PL) /\ WellFormed(P0) /\ WellFormed(PAB) /\ DecEdge(DT, 1, 8, <<>>).ok
                                                                               /\ SourceOK(S2) /\ Partial(S2) /\ S2[1].m = 1 /\ IS2[1].h[4] # IS2[1].h[1] /\ IS2[2].d[1] = 1
                                                                               /\ WellFormed(QB) /\ WellFormed(QA) /\ WellFormed(QR) /\ QA = Proof(S2, 1, {})
                                                                               /\ KeepAB = {<<2, 2>>} /\ SourceOK(S3) /\ WellFormed(QKB)
                                                                               \* the proof with the level-2 pruned branch is well formed and hashes to the source; with a level-1
                                                                               \* pruned branch in its place the level-0 hash is another one (the Merkle-proof root no longer matches)
                                                                               /\ ExoticSourceOK(XS, 1) /\ WellFormed(XG1) /\ XG1[6].m = 2 /\ InfoTable(XG1)[2].h[1] = IXS[1].h[1]
                                                                               /\ ~WellFormed(XG1L1) /\ MasksOK(XG1L1)
                                                                               /\ InfoTable(XG1L1)[2].h[1] # IXS[1].h[1]
                                                                               \* the pruned branch of YS stores two levels with different depths
                                                                               /\ ExoticSourceOK(YS, 1) /\ YS[Len(YS)].x = Pruned /\ YS[Len(YS)].m = 3
                                                                               /\ SubSeq(DataBytes(YS[Len(YS)].b), 67, 70) = <<0, 2, 0, 1>> /\ WellFormed(YR))])>>)
Spec == Init /\ [][Next]_out
=============================================================================
