------------------------------ MODULE Addr_Gen ------------------------------
(* S->C for C17: TLC enumerates the case analysis of Addr and prints one JSON  *)
(* vector per case: the input in every form the library takes and the result   *)
(* the specification requires.  The Go harness replays each vector through     *)
(* every conversion function and compares.                                     *)
(*                                                                             *)
(* A state is <<level, group, case>>.  Initial states are the groups of the    *)
(* selected Part (cheap), each group expands to its cases in one step, so the  *)
(* workers share the groups.  samples.ndjson (one record, written by the       *)
(* runner from the seed) only supplies *inputs*: sampled 256-bit ids, int32    *)
(* edge workchains, random 64-bit strings.  Every expectation is computed here.*)
EXTENDS Addr, Json, TLC
CONSTANT Part
VARIABLE c

S       == ndJsonDeserialize("samples.ndjson")[1]
Hashes  == [i \in 1..Len(S.hashes) |-> HexToBytes(S.hashes[i])]      \* sampled ids (patterns first)
NH      == Len(Hashes)
Wc32    == S.wc32                                                      \* decimal texts, int32 edges
Rnd64   == [i \in 1..Len(S.rnd64) |-> StrToBits(S.rnd64[i])]           \* random 64-bit strings
SubAddr == S.subaddr                                                   \* [wc, hash, b, t, url] for the substitution part

Form(r)  == [cls |-> r.cls, wc |-> r.wc, hash |-> BytesToHex(r.hash)]
\* a text handed to every text parser: what each of them must do with it
ParseVec(cl, s) ==
  LET r == RawDecode(s)  f == FriendlyDecode(s) IN
  [k |-> "parse", cl |-> cl, s |-> s, rw |-> Form(r), fr |-> Form(f), an |-> Form(Either(r, f))]

\* ------------------------------------------------------------ part "enc"
\* every int8 workchain x 4 flag combinations x sampled ids (both alphabets in one vector),
\* and the int32 edge workchains for the forms that carry an int32
EncVec(wc, h, b, t) ==
  LET i8 == InInt8(wc) IN
  [k |-> "enc", cl |-> IF i8 THEN "int8" ELSE "int32", wc |-> wc, hash |-> BytesToHex(h), bounce |-> b, testnet |-> t,
   raw  |-> RawText(wc, h), json |-> JsonText(wc, h), tl |-> BytesToHex(TlBytes(wc, h)),
   url  |-> IF i8 THEN Friendly(wc, h, b, t, B64Url) ELSE "",
   std  |-> IF i8 THEN Friendly(wc, h, b, t, B64Std) ELSE "",
   tlb  |-> IF i8 THEN BitsToStr(TlbBits(NoAnycast, wc, h)) ELSE ""]
EncGroups    == 1..NH
EncCases(g)  == {<<ToString(w), b, t>> : w \in -128..127, b \in BOOLEAN, t \in BOOLEAN}
                \cup {<<Wc32[i], TRUE, FALSE>> : i \in 1..Len(Wc32)}
EncOut(g, x) == EncVec(x[1], Hashes[g], x[2], x[3])

\* ------------------------------------------------------------ part "sub"
\* every position of the 48-character form x every other character of both alphabets.  Whether the
\* result is still a form of an account is decided by FriendlyDecode (the checksum), not by a list.
Alpha66 == B64Std \o <<45, 95>>
SubStrOf(a) == Friendly(a.wc, HexToBytes(a.hash), a.b, a.t, IF a.url THEN B64Url ELSE B64Std)
SubGroups   == {<<a, p>> : a \in 1..Len(SubAddr), p \in 1..48}
SubCases(g) == LET o == StrToCodes(SubStrOf(SubAddr[g[1]]))[g[2]] IN {x \in 1..66 : Alpha66[x] # o}
SubOut(g, x) ==
  LET o == StrToCodes(SubStrOf(SubAddr[g[1]]))
      m == [o EXCEPT ![g[2]] = Alpha66[x]]
      same == B64Val(o[g[2]]) = B64Val(Alpha66[x])
  IN ParseVec(IF same THEN "sub:same-digit" ELSE "sub:other-digit", CodesToStr(m))
     @@ [pos |-> g[2], orig |-> CodesToStr(o)]

\* ------------------------------------------------------------ part "ext"
\* texts that are not 48 base64 digits (one character appended / dropped / inserted / foreign): the
\* documentation says they are no addresses, C17 does not quantify over them; replayed for the record
ExtGroups   == {<<a, v>> : a \in 1..Len(SubAddr), v \in {"append", "drop-last", "drop-first", "insert", "foreign", "append4"}}
ExtCases(g) == IF g[2] \in {"drop-last", "drop-first"} THEN {<<1, 65>>}
               ELSE IF g[2] = "foreign" THEN {<<p, x>> : p \in 1..48, x \in {33, 46, 126}}
               ELSE {<<p, x>> : p \in (IF g[2] = "insert" THEN {1, 2, 24, 47, 48} ELSE {48}), x \in {65, 66, 47, 95, 57}}
ExtOut(g, x) ==
  LET o == StrToCodes(SubStrOf(SubAddr[g[1]]))  v == g[2]
      m == CASE v = "append"     -> o \o <<x[2]>>
             [] v = "append4"    -> o \o <<x[2], x[2], x[2], x[2]>>
             [] v = "drop-last"  -> Front(o)
             [] v = "drop-first" -> Tail(o)
             [] v = "insert"     -> SubSeq(o, 1, x[1] - 1) \o <<x[2]>> \o SubSeq(o, x[1], 48)
             [] v = "foreign"    -> [o EXCEPT ![x[1]] = x[2]]
  IN ParseVec(StrCat("ext:", v), CodesToStr(m))

\* ------------------------------------------------------------ part "raw"
\* variants of the raw text: zero fill, letter case, sign forms, and malformed ones
UpperHex(cs) == [i \in 1..Len(cs) |-> IF cs[i] \in 97..102 THEN cs[i] - 32 ELSE cs[i]]
RECURSIVE StripZeros(_)
StripZeros(cs) == IF Len(cs) > 0 /\ cs[1] = 48 THEN StripZeros(Tail(cs)) ELSE cs
RawVariants == {"canon", "upper", "strip-all", "strip-one", "hex65", "hex66", "nonhex", "nocolon", "plus", "lead0",
                "nowc", "colon-end", "nohex", "space", "short1", "short63", "minus0", "dash-only"}
RawVar(v, wc, h) ==
  LET hx == StrToCodes(BytesToHex(h))  w == StrToCodes(wc)  col == <<58>> IN
  CASE v = "canon"     -> w \o col \o hx
    [] v = "upper"     -> w \o col \o UpperHex(hx)
    [] v = "strip-all" -> w \o col \o StripZeros(hx)
    [] v = "strip-one" -> w \o col \o (IF hx[1] = 48 THEN Tail(hx) ELSE hx)
    [] v = "hex65"     -> w \o col \o hx \o <<48>>
    [] v = "hex66"     -> w \o col \o <<48, 48>> \o hx
    [] v = "nonhex"    -> w \o col \o [hx EXCEPT ![17] = 103]
    [] v = "nocolon"   -> w \o hx
    [] v = "plus"      -> (IF w[1] = 45 THEN w ELSE <<43>> \o w) \o col \o hx
    [] v = "lead0"     -> (IF w[1] = 45 THEN <<45, 48>> \o Tail(w) ELSE <<48>> \o w) \o col \o hx
    [] v = "nowc"      -> col \o hx
    [] v = "colon-end" -> w \o col \o hx \o col
    [] v = "nohex"     -> w \o col
    [] v = "space"     -> w \o col \o <<32>> \o Tail(hx)
    [] v = "short1"    -> w \o col \o <<hx[64]>>
    [] v = "short63"   -> w \o col \o Tail(hx)
    [] v = "minus0"    -> <<45, 48>> \o col \o hx
    [] v = "dash-only" -> <<45>> \o col \o hx
RawGroups    == 1..NH
RawCases(g)  == {<<w, v>> : w \in ({Wc32[i] : i \in 1..Len(Wc32)} \cup {"0", "-1", "5"}), v \in RawVariants}
                \cup {<<w, "canon">> : w \in {"2147483648", "-2147483649", "4294967295", "4294967296", "99999999999999999999", "0x10", "1e3", "1.0"}}
RawOut(g, x) == ParseVec(StrCat("raw:", x[2]), CodesToStr(RawVar(x[2], x[1], Hashes[g])))

\* ------------------------------------------------------------ part "tl"
\* TL bytes through a family of deliveries.  rd names how the harness hands the bytes to the decoder:
\* "bytes" all at once, "one" a byte per read, "half" half of what is asked for, "dataerr" the last data
\* together with end-of-stream, "bufio16" a 16-byte buffered stream, "split" two chunks cut after byte `at`.
\* Complete ids (one, or two back to back on ONE stream) must decode to the same value under every
\* delivery; every proper prefix (and a second id cut short) must be an error.
TlReaders   == {"bytes", "one", "half", "dataerr", "bufio16"}
TlGroups    == 1..NH
TlWcs       == {Wc32[1], Wc32[Len(Wc32)], "-1", "0"}
TlDeliveries ==
       {<<36, 1, rd, 0>> : rd \in TlReaders} \cup {<<36, 1, "split", p>> : p \in 1..35}            \* one complete id
  \cup {<<40, 1, rd, 0>> : rd \in TlReaders}                                                      \* followed by other data
  \cup {<<n, 1, rd, 0>> : n \in 0..35, rd \in TlReaders \ {"bufio16"}}                            \* every proper prefix
  \cup {<<n, 1, "split", p>> : n \in {5, 20, 35}, p \in {1, 4}}
  \cup {<<72, 2, rd, 0>> : rd \in TlReaders} \cup {<<72, 2, "split", p>> : p \in 1..71}            \* two ids, one stream
  \cup {<<36 + q, 2, rd, 0>> : q \in {0, 1, 4, 5, 20, 35}, rd \in TlReaders \ {"bufio16"}}         \* second id cut short
TlCases(g)  == {<<w, d>> : w \in TlWcs, d \in TlDeliveries}
TlOut(g, x) ==
  LET d  == x[2]
      one == TlBytes(x[1], Hashes[g])
      two == TlBytes(IF x[1] = "0" THEN "-1" ELSE "0", Hashes[((g + 2) % NH) + 1])       \* a different id behind it
      by == SubSeq(one \o two, 1, d[1])
      r  == TlStreamDecode(by, d[2])
      ch == IF d[3] = "split" /\ d[4] < Len(by) THEN Chunks(by, <<d[4]>>) ELSE <<by>>
  IN [k |-> "tl", cl |-> StrCat("tl:", StrCat(d[3], IF d[1] < 36 THEN ":short" ELSE IF d[2] = 2 THEN ":stream" ELSE ":full")),
      bytes |-> BytesToHex(by), rd |-> d[3], at |-> d[4], n |-> d[2],
      chunks |-> [i \in 1..Len(ch) |-> BytesToHex(ch[i])],
      exps |-> [i \in 1..d[2] |-> Form(r[i])]]

\* ------------------------------------------------------------ part "tlb"
\* addr_std with every anycast depth 1..30 (0 = no anycast) x rewrite prefixes x workchains x ids;
\* "short" drops the last bit (lax: no addr_std fits)
TlbGroups    == 0..30
PfxSet(d)    == IF d = 0 THEN {<<>>}
                ELSE {ZeroBits(d), [i \in 1..d |-> 1], [i \in 1..d |-> i % 2], [i \in 1..d |-> IF i = 1 THEN 1 ELSE 0]}
                     \cup {SubSeq(Rnd64[i], 1, d) : i \in 1..Len(Rnd64)}
TlbCases(d)  == {<<p, w, h, sh>> : p \in PfxSet(d), w \in {"-128", "-1", "0", "1", "127"}, h \in 1..NH, sh \in {FALSE}}
                \cup {<<p, "0", 1, TRUE>> : p \in PfxSet(d)}
TlbOut(d, x) ==
  LET full == TlbBits([d |-> d, p |-> x[1]], x[2], Hashes[x[3]])
      bits == IF x[4] THEN Front(full) ELSE full
      r    == TlbDecode(bits)
  IN [k |-> "tlb", cl |-> IF x[4] THEN "tlb:short" ELSE IF d = 0 THEN "tlb:plain" ELSE "tlb:anycast",
      bits |-> BitsToStr(bits), cls |-> r.cls, d |-> r.d, p |-> BitsToStr(r.p), wc8 |-> r.wc8,
      addr |-> BytesToHex(r.addr), wc |-> r.wc, hash |-> BytesToHex(r.hash)]

\* ------------------------------------------------------------ part "shard"
\* every prefix length 0..60 x prefix patterns; for each shard: matching accounts, accounts differing in
\* each single prefix bit, related block shards, children and parent, the ShardIdent that denotes it
ShardGroups  == 0..61                     \* 61: the all-zero id, which is not a shard id
PfxPats(n)   == {ZeroBits(n), [i \in 1..n |-> 1], [i \in 1..n |-> i % 2]} \cup {SubSeq(Rnd64[i], 1, n) : i \in 1..Len(Rnd64)}
ShardCases(n) == IF n = 61 THEN {<<>>} ELSE PfxPats(n)
HashOf(bits256) == BytesToHex(BitsToBytes(bits256))
AcctBits(pfx, tail) == pfx \o SubSeq(tail, Len(pfx) + 1, 256)          \* tail: 256 bits
Flip(b, j) == [b EXCEPT ![j] = 1 - b[j]]
ShardOut(n, pfx) ==
  IF n = 61 THEN [k |-> "shardzero", cl |-> "shard:zero", id |-> BitsToStr(ZeroBits(64)), valid |-> ShardValid(ZeroBits(64))] ELSE
  LET id    == ShardBits(pfx)
      tails == {BytesToBits(Hashes[i]) : i \in 1..NH}
      accts == {AcctBits(pfx, t) : t \in tails}
               \cup {Flip(AcctBits(pfx, t), j) : j \in 1..(n + 2), t \in {BytesToBits(Hashes[NH])}}
      blks  == {ShardBits(SubSeq(pfx, 1, m)) : m \in 0..n}                                    \* ancestors and itself
               \cup {ShardBits(pfx \o e) : e \in {<<0>>, <<1>>, <<0, 1, 1>>, <<1, 0, 0>>}}   \* descendants
               \cup UNION {{ShardBits(SubSeq(Flip(pfx \o <<0, 1>>, j), 1, m)) : m \in {j, n, n + 2}} : j \in 1..(n + 1)}
               \cup {ZeroBits(64)}
      A == SetToSeq(accts)   B == SetToSeq(blks)
  IN [k |-> "shard", cl |-> "shard", id |-> BitsToStr(id), n |-> n, ident |-> BitsToStr(pfx \o ZeroBits(64 - n)),
      identid |-> BitsToStr(IdentShard(n, pfx \o ZeroBits(64 - n))),
      left |-> BitsToStr(Child(id, TRUE)), right |-> BitsToStr(Child(id, FALSE)),
      parent |-> IF n = 0 THEN "" ELSE BitsToStr(Parent(id)),
      lastbit |-> IF n = 0 THEN 0 ELSE pfx[n],
      pl |-> BitsToStr(Parent(Child(id, TRUE))), pr |-> BitsToStr(Parent(Child(id, FALSE))),
      accts |-> [i \in 1..Len(A) |-> [hash |-> HashOf(A[i]), exp |-> Matches(id, BitsToBytes(A[i]))]],
      blks  |-> [i \in 1..Len(B) |-> [blk |-> BitsToStr(B[i]), exp |-> ShardValid(B[i]) /\ Intersects(id, B[i])]]]

\* ------------------------------------------------------------ part "adnl"
AdnlGroups    == 1..NH
AdnlCases(g)  == {0}
AdnlOut(g, x) == [k |-> "adnl", cl |-> "adnl", addr |-> BytesToHex(Hashes[g]), text |-> AdnlText(Hashes[g]),
                  back |-> LET r == AdnlDecode(AdnlText(Hashes[g])) IN [cls |-> r.cls, addr |-> BytesToHex(r.addr)]]

\* ------------------------------------------------------------------ driver
Groups == CASE Part = "enc" -> EncGroups [] Part = "sub" -> SubGroups [] Part = "raw" -> RawGroups [] Part = "ext" -> ExtGroups
            [] Part = "tl" -> TlGroups [] Part = "tlb" -> TlbGroups [] Part = "shard" -> ShardGroups [] Part = "adnl" -> AdnlGroups
Cases(g) == CASE Part = "enc" -> EncCases(g) [] Part = "sub" -> SubCases(g) [] Part = "raw" -> RawCases(g) [] Part = "ext" -> ExtCases(g)
            [] Part = "tl" -> TlCases(g) [] Part = "tlb" -> TlbCases(g) [] Part = "shard" -> ShardCases(g) [] Part = "adnl" -> AdnlCases(g)
Out(g, x) == CASE Part = "enc" -> EncOut(g, x) [] Part = "sub" -> SubOut(g, x) [] Part = "raw" -> RawOut(g, x) [] Part = "ext" -> ExtOut(g, x)
            [] Part = "tl" -> TlOut(g, x) [] Part = "tlb" -> TlbOut(g, x) [] Part = "shard" -> ShardOut(g, x) [] Part = "adnl" -> AdnlOut(g, x)

Init == c \in {<<0, g, 0>> : g \in Groups}
Next == c[1] = 0 /\ c' \in {<<1, c[2], x>> : x \in Cases(c[2])}
Spec == Init /\ [][Next]_c
Emit == c[1] = 1 => PrintT(<<"VEC", ToJson(Out(c[2], c[3]))>>)

\* the specification's own coherence on every generated case: decoding an encoding is the identity,
\* child/parent are mutual inverses, a shard matches exactly the accounts that extend its prefix
Coherent ==
  c[1] = 1 =>
    CASE Part = "enc" ->
           LET wc == c[3][1]  h == Hashes[c[2]] IN
           /\ RawDecode(RawText(wc, h)) = [cls |-> "ok", wc |-> wc, hash |-> h]
           /\ TlDecode(TlBytes(wc, h)) = [cls |-> "ok", wc |-> wc, hash |-> h]
           /\ InInt8(wc) => /\ FriendlyDecode(Friendly(wc, h, c[3][2], c[3][3], B64Std)) = [cls |-> "ok", wc |-> wc, hash |-> h]
                            /\ TlbDecode(TlbBits(NoAnycast, wc, h)).hash = h
      [] Part = "shard" /\ c[2] <= 60 ->
           LET id == ShardBits(c[3]) IN
           /\ Parent(Child(id, TRUE)) = id /\ Parent(Child(id, FALSE)) = id
           /\ c[2] > 0 => Child(Parent(id), c[3][c[2]] = 0) = id
           /\ ShardPrefix(id) = c[3]
      [] Part = "adnl" -> AdnlDecode(AdnlText(Hashes[c[2]])) = [cls |-> "ok", addr |-> Hashes[c[2]]]
      [] Part = "tl" ->          \* a complete first id decodes to what was encoded, whatever follows; a delivery is a split of the bytes
           LET d == c[3][2]  by == SubSeq(TlBytes(c[3][1], Hashes[c[2]]) \o ZeroBits(40), 1, d[1]) IN
           /\ d[1] >= 36 => TlStreamDecode(by, 1)[1] = [cls |-> "ok", wc |-> c[3][1], hash |-> Hashes[c[2]]]
           /\ d[1] < 36 => TlStreamDecode(by, 1)[1].cls = "bad"
           /\ (d[3] = "split" /\ d[4] < d[1]) => FlattenSeq(Chunks(by, <<d[4]>>)) = by
      [] OTHER -> TRUE
=============================================================================
