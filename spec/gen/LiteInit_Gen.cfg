CONSTANTS
  Salt = 1
  Count = 40
  T = 800
  SlowD = 150
  LateD = 2400
  CtxD = 350
SPECIFICATION Spec
INVARIANTS RowsOK Emit
CHECK_DEADLOCK FALSE
