------------------------------ MODULE Boc_HdrFuzz ------------------------------
(* S->C for C07: adversarial HEADERS.  TLC composes a header from every magic,   *)
(* flag combination, reference width 1..4, offset width 1..8 and counters drawn  *)
(* from byte patterns (0, 1, 2, 256, 2^(8n-1), all ones, ...) for cells / roots /    *)
(* tot_cells_size, followed by a short tail (nothing, a few zero bytes, one valid *)
(* cell), and labels each with the guard of Boc!Parse it fails.  Inputs of a few  *)
(* bytes that announce up to 2^32 cells are exactly what the allocation clause of *)
(* the property is about.                                                         *)
EXTENDS Boc, Json
CONSTANT Stride          \* emit every Stride-th combination (1 = all)

Zs(n) == [i \in 1..n |-> 0]
Fs(n) == [i \in 1..n |-> 255]
\* counters as byte strings of width n
Pats(n) == { Zs(n - 1) \o <<1>>, Zs(n - 1) \o <<2>>, Fs(n), <<127>> \o Fs(n - 1), <<1>> \o Zs(n - 1), Zs(n - 1) \o <<255>> }
Magics == { <<181, 238, 156, 114>>, <<104, 255, 101, 243>>, <<172, 195, 167, 40>> }
Flags  == { 0, 128, 160, 64, 192 }                  \* none, idx, idx+cache, crc, idx+crc  (generic magic only)
Tails  == { <<>>, Zs(1), Zs(4), Zs(6), <<0, 2, 170>>, <<0, 0, 0, 2, 170, 0, 0, 0, 0>> }

VARIABLES mg, fl, sz, ob, cells, roots, tot, tail, out
vars == <<mg, fl, sz, ob, cells, roots, tot, tail, out>>
Hash(x) == (Len(x) * 7 + FoldLeft(LAMBDA a, b : (a * 31 + b) % 9973, 1, x)) % 9973
Init == /\ mg \in Magics /\ fl \in Flags /\ sz \in 1..4 /\ ob \in {1, 2, 3, 4, 8}
        /\ cells \in Pats(sz) \cup {Zs(sz)} /\ roots \in {Zs(sz - 1) \o <<1>>, Fs(sz), Zs(sz)} /\ tot \in Pats(ob) \cup {Zs(ob)} /\ tail \in Tails
        \* the headers that announce NO cell at the narrowest widths are always emitted (an implied root in an empty bag)
        /\ \/ (Hash(mg \o cells \o tot \o tail) + fl + 3 * sz + 5 * ob) % Stride = 0
           \/ (cells = Zs(sz) /\ sz = 1 /\ ob = 1)
        /\ out = "todo"
Bytes0 == mg \o <<(IF mg[1] = 181 THEN fl ELSE 0) + sz, ob>> \o cells \o roots \o Zs(sz) \o tot
\* where the format carries a checksum a tail of 4 zero bytes stands for the RIGHT checksum of what precedes it
HasCrc == mg[1] = 172 \/ (mg[1] = 181 /\ (fl \div 64) % 2 = 1)
Bytes == IF HasCrc /\ tail = Zs(4) THEN Bytes0 \o Reverse(Crc32c(Bytes0)) ELSE Bytes0 \o tail
Label(B) == LET P == Parse(B) IN IF P.ok THEN "accepted" ELSE P.err
Next == /\ out = "todo" /\ out' = "done" /\ UNCHANGED <<mg, fl, sz, ob, cells, roots, tot, tail>>
        /\ PrintT(<<"VEC", ToJson([boc |-> BytesToHex(Bytes), guard |-> Label(Bytes), pos |-> 0, val |-> 0])>>)
Spec == Init /\ [][Next]_vars
=============================================================================
