------------------------------ MODULE Dict_Gen ------------------------------
(* S->C for C05 (1): behaviours of the abstract dictionary: all insertion      *)
(* orders of key sets drawn from an adversarial pool, then Encode, Decode, Get  *)
(* of every key and of an absent key, an overwrite and a fresh insert on the    *)
(* decoded dictionary, Encode and Decode again.  Each step carries the map the  *)
(* specification requires after it.                                             *)
EXTENDS Dict_Pool
VARIABLES ty, todo, map, phase, hist
vars == <<ty, todo, map, phase, hist>>

PutM(m, k, v) == {p \in m : p[1] # k} \cup {<<k, v>>}
Step(op, k, v, m) == [op |-> op, k |-> BitsToStr(k), v |-> BitsToStr(v), items |-> ItemsJson(m)]

Init == /\ ty \in Types
        /\ todo \in {S \in SUBSET PoolOf(ty) : Cardinality(S) <= MaxSet}
        /\ map = {} /\ phase = "put" /\ hist = <<>>
PutNext == /\ phase = "put" /\ todo # {}
           /\ \E k \in todo : /\ todo' = todo \ {k} /\ map' = PutM(map, k, Val(k))
                              /\ hist' = Append(hist, Step("put", k, Val(k), map'))
           /\ UNCHANGED <<ty, phase>>
\* after the puts: one composite tail (deterministic), so that orders are the only branching
\* (computed by a pure operator and handed to the action as an ARGUMENT: a LET written directly in an action is re-evaluated
\* at every use of its names)
TailOf(m, pool) ==
  LET keys == {p[1] : p \in m}
      cand == pool \ keys
      hasAbsent == cand # {}
      absent == IF hasAbsent THEN CHOOSE k \in cand : TRUE ELSE <<>>
      si == SortedItems(m)
      gets == [i \in 1..Len(si) |-> Step("get", si[i][1], si[i][2], m)]
      m2 == IF m = {} THEN m ELSE PutM(m, si[1][1], Val2(si[1][1]))
      over == IF m = {} THEN <<>> ELSE << Step("put", si[1][1], Val2(si[1][1]), m2) >>
      m3 == IF hasAbsent THEN PutM(m2, absent, Val(absent)) ELSE m2
      fresh == IF hasAbsent THEN << Step("put", absent, Val(absent), m3) >> ELSE <<>>
  IN [h |-> << Step("enc", <<>>, <<>>, m), Step("dec", <<>>, <<>>, m) >> \o gets
              \o (IF hasAbsent THEN << Step("getabsent", absent, <<>>, m) >> ELSE <<>>)
              \o over \o fresh \o << Step("enc", <<>>, <<>>, m3), Step("dec", <<>>, <<>>, m3) >>,
      m |-> m3]
TailApply(o) == hist' = hist \o o.h /\ map' = o.m
TailStep == /\ phase = "put" /\ todo = {}
            /\ TailApply(TailOf(map, PoolOf(ty)))
            /\ phase' = "done" /\ UNCHANGED <<ty, todo>>
Next == PutNext \/ TailStep
Spec == Init /\ [][Next]_vars
Emit == phase = "done" => PrintT(<<"VEC", ToJson([kind |-> ty[1], n |-> ty[2], steps |-> hist])>>)

=============================================================================
