------------------------------ MODULE Dict_Gen ------------------------------
(* S->C for C05 (1): behaviours of the abstract dictionary: all insertion      *)
(* orders of key sets drawn from an adversarial pool, then Encode, Decode, Get  *)
(* of every key and of an absent key, an overwrite and a fresh insert on the    *)
(* decoded dictionary, Encode and Decode again.  Each step carries the map the  *)
(* specification requires after it.                                             *)
EXTENDS Dict_Pool
VARIABLES ty, todo, map, phase, hist
vars == <<ty, todo, map, phase, hist>>

PutM(m, k, v) == {p \in m : p[1] # k} \cup {<<k, v>>}
Step(op, k, v, m) == [op |-> op, k |-> BitsToStr(k), v |-> BitsToStr(v), items |-> ItemsJson(m)]
\* lookups and encodings leave the map as it is: the replayer compares listings after put and dec only, so these steps carry none
Same(op, k, v) == [op |-> op, k |-> BitsToStr(k), v |-> BitsToStr(v), items |-> <<>>]

Init == /\ ty \in Types
        /\ todo \in {S \in SUBSET PoolOf(ty) : Cardinality(S) <= MaxSet}
        /\ map = {} /\ phase = "put" /\ hist = <<>>
PutNext == /\ phase = "put" /\ todo # {}
           /\ \E k \in todo : /\ todo' = todo \ {k} /\ map' = PutM(map, k, Val(k))
                              /\ hist' = Append(hist, Step("put", k, Val(k), map'))
           /\ UNCHANGED <<ty, phase>>
\* after the puts: one composite tail (deterministic), so that orders are the only branching
\* (computed by a pure operator and handed to the action as an ARGUMENT: a LET written directly in an action is re-evaluated
\* at every use of its names)
TailOf(m, pool) ==
  LET keys == {p[1] : p \in m}
      cand == pool \ keys
      hasAbsent == cand # {}
      absent == IF hasAbsent THEN CHOOSE k \in cand : TRUE ELSE <<>>
      si == SortedItems(m)
      gets == [i \in 1..Len(si) |-> Same("get", si[i][1], si[i][2])]
      m2 == IF m = {} THEN m ELSE PutM(m, si[1][1], Val2(si[1][1]))
      over == IF m = {} THEN <<>> ELSE << Step("put", si[1][1], Val2(si[1][1]), m2) >>
      m3 == IF hasAbsent THEN PutM(m2, absent, Val(absent)) ELSE m2
      fresh == IF hasAbsent THEN << Step("put", absent, Val(absent), m3) >> ELSE <<>>
  IN [h |-> << Same("enc", <<>>, <<>>), Step("dec", <<>>, <<>>, m) >> \o gets
              \o (IF hasAbsent THEN << Same("getabsent", absent, <<>>) >> ELSE <<>>)
              \o over \o fresh \o << Same("enc", <<>>, <<>>), Step("dec", <<>>, <<>>, m3) >>,
      m |-> m3]
TailApply(o) == hist' = hist \o o.h /\ map' = o.m
TailStep == /\ phase = "put" /\ todo = {}
            /\ TailApply(TailOf(map, PoolOf(ty)))
            /\ phase' = "done" /\ UNCHANGED <<ty, todo>>
Next == PutNext \/ TailStep
Spec == Init /\ [][Next]_vars
\* A behaviour names few keys many times: the vector carries each key once (`keys`) and the steps refer to it by position
\* (0 = no key); bit strings are spelt with letters (Dict_Pool!Lt); the runner expands both before the replay.
KeysIn(h) == UNION {{h[i].k} \cup {h[i].items[j][1] : j \in 1..Len(h[i].items)} : i \in 1..Len(h)} \ {""}
Compact(h, ks) ==
  LET Idx(k) == IF k = "" THEN 0 ELSE CHOOSE i \in 1..Len(ks) : ks[i] = k IN
  [kind |-> ty[1], n |-> ty[2], keys |-> [i \in 1..Len(ks) |-> Lt(StrToBits(ks[i]))],
   steps |-> [i \in 1..Len(h) |-> [op |-> h[i].op, k |-> Idx(h[i].k), v |-> Lt(StrToBits(h[i].v)),
                                    items |-> [j \in 1..Len(h[i].items) |-> <<Idx(h[i].items[j][1]), Lt(StrToBits(h[i].items[j][2]))>>]]]]
Emit == phase = "done" => PrintT(<<"VEC", ToJson(Compact(hist, SetToSeq(KeysIn(hist))))>>)

=============================================================================
