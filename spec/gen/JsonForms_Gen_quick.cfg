CONSTANT Rich = FALSE
SPECIFICATION Spec
INVARIANTS Emit Sane
CHECK_DEADLOCK FALSE
