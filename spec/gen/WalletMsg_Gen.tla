---------------------------- MODULE WalletMsg_Gen ----------------------------
(* S->C for C14: the parameter classes of a wallet send as abstract cases with *)
(* the outcome the specification requires.  One initial state per case; the    *)
(* invariant Emit prints each as a JSON vector.  The Go harness concretises a  *)
(* case (keys, destinations, amounts, bodies from the run's seed), runs it     *)
(* through Wallet.RawSend with a recording blockchain and records the result   *)
(* as a Send event, which WalletMsg_Trace then judges in full.                 *)
(*   version x message count in {0, 1, max-1, max, max+1} x seqno class x      *)
(*   expiry class x mode class  ->  "ok" (n <= max) | "refused" (n = max + 1)  *)
EXTENDS WalletMsg, Json
CONSTANTS SeqClasses, ExpClasses, ModeClasses

\* uint32 classes as decimal text (TLC integers stop at 2^31 - 1, so the values are built from bit patterns)
U32Class(c) == CASE c = "zero" -> "0"
                 [] c = "one"  -> "1"
                 [] c = "2^31-1" -> BitsToDec(<<0>> \o [i \in 1..31 |-> 1])
                 [] c = "2^31" -> BitsToDec(<<1>> \o ZeroBits(31))
                 [] c = "max"  -> BitsToDec([i \in 1..32 |-> 1])
                 [] c = "rand" -> "rand"                         \* drawn by the harness from the whole range
Counts(ver) == {0, 1, MaxMsgs(ver) - 1, MaxMsgs(ver), MaxMsgs(ver) + 1}
Cases == {[ver |-> ver, n |-> n, seqno |-> U32Class(sc), vu |-> U32Class(ec), modes |-> mc,
           exp |-> IF n <= MaxMsgs(ver) THEN "ok" ELSE "refused"] :
            ver \in Versions, n \in UNION {Counts(x) : x \in Versions}, sc \in SeqClasses, ec \in ExpClasses, mc \in ModeClasses}
Wanted == {c \in Cases : c.n \in Counts(c.ver)}

VARIABLE c
Init == c \in Wanted
Next == UNCHANGED c
Spec == Init /\ [][Next]_c
Emit == PrintT(<<"VEC", ToJson(c)>>)
=============================================================================
