---------------------------- MODULE WalletMsg_Gen ----------------------------
(* S->C for C14: the parameter classes of a wallet send as abstract cases with *)
(* the outcome the specification requires.  One initial state per case; the    *)
(* invariant Emit prints each as a JSON vector.  The Go harness concretises a  *)
(* case (keys, destinations, amounts, bodies from the run's seed), runs it     *)
(* through Wallet.RawSend with a recording blockchain and records the result   *)
(* as a Send event, which WalletMsg_Trace then judges in full.                 *)
(*   version x message count in {0, 1, max-1, max, max+1} x seqno class x      *)
(*   expiry class x mode class  ->  "ok" (n <= max) | "refused" (n = max + 1)  *)
(* plus, for wallet v5r1, the extended-action dimension (XCases below).       *)
EXTENDS WalletMsg, Json
CONSTANTS SeqClasses, ExpClasses, ModeClasses

\* uint32 classes as decimal text (TLC integers stop at 2^31 - 1, so the values are built from bit patterns)
U32Class(c) == CASE c = "zero" -> "0"
                 [] c = "one"  -> "1"
                 [] c = "2^31-1" -> BitsToDec(<<0>> \o [i \in 1..31 |-> 1])
                 [] c = "2^31" -> BitsToDec(<<1>> \o ZeroBits(31))
                 [] c = "max"  -> BitsToDec([i \in 1..32 |-> 1])
                 [] c = "rand" -> "rand"                         \* drawn by the harness from the whole range
Counts(ver) == {0, 1, MaxMsgs(ver) - 1, MaxMsgs(ver), MaxMsgs(ver) + 1}
Plain == {[ver |-> ver, n |-> n, seqno |-> U32Class(sc), vu |-> U32Class(ec), modes |-> mc, via |-> "send", ext |-> <<>>, mt |-> "ext",
           exp |-> IF n <= MaxMsgs(ver) THEN "ok" ELSE "refused"] :
            ver \in Versions, n \in UNION {Counts(x) : x \in Versions}, sc \in SeqClasses, ec \in ExpClasses, mc \in ModeClasses}
\* wallet v5r1 extended actions (via = "x": built through CreateSignedMsgBodyCell): none / 1 / 2 / 3 actions of the three kinds
\* x 0 / 1 / many out messages x externally / internally signed message type; always within the limit, hence "ok"
ExtLists == {<<>>, <<"add">>, <<"remove">>, <<"sigauth">>, <<"add", "remove">>, <<"sigauth", "add">>,
             <<"add", "remove", "sigauth">>, <<"remove", "sigauth", "add">>}
XCases == {[ver |-> "V5R1", n |-> n, seqno |-> U32Class("max"), vu |-> U32Class("2^31"), modes |-> "mixed", via |-> "x", ext |-> x, mt |-> mt,
            exp |-> "ok"] : n \in {0, 1, 3}, x \in ExtLists, mt \in {"ext", "int"}}
Wanted == {c \in Plain : c.n \in Counts(c.ver)} \cup XCases

VARIABLE c
Init == c \in Wanted
Next == UNCHANGED c
Spec == Init /\ [][Next]_c
Emit == PrintT(<<"VEC", ToJson(c)>>)
=============================================================================
