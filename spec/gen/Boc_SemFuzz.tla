----------------------------- MODULE Boc_SemFuzz -----------------------------
(* S->C for C07 (3): bags whose CONTAINER is conforming (written by the        *)
(* reference writer) but whose cells are exotic cells of every type with every *)
(* data length around what the type needs (a pruned branch with its hashes but *)
(* without its depths, a library cell of 32 bytes, a Merkle proof without its  *)
(* depth, ...), with 0..3 references, as the root or below an ordinary parent, *)
(* with the level bits of the descriptor equal to or different from the mask   *)
(* stored in the data.  The parser may accept or refuse them; parsing, hashing,*)
(* printing and re-serialising whatever it returns must not crash.             *)
EXTENDS Boc, Json
CONSTANT Full

Cl(b, x, r, m) == [b |-> b, x |-> x, r |-> r, m |-> m]
Rep(n, v) == [i \in 1..n |-> v]
RECURSIVE Depths(_)
Depths(n) == IF n = 0 THEN <<>> ELSE <<0, 3>> \o Depths(n - 1)
\* what a cell of type t (pruned: with stored mask im) carries when it is complete
Canon(t, im) == CASE t = 1 -> <<1, im>> \o Rep(32 * Pop(im), 7) \o Depths(Pop(im))
                  [] t = 2 -> <<2>> \o Rep(32, 7)
                  [] t = 3 -> <<3>> \o Rep(32, 7) \o <<0, 1>>
                  [] t = 4 -> <<4>> \o Rep(64, 7) \o <<0, 1, 0, 1>>
                  [] OTHER -> <<t>> \o Rep(8, 7)
Body(t, im, L) == SubSeq(Canon(t, im) \o Rep(4, 9), 1, L)
MaxL(t, im) == Len(Canon(t, im)) + 3

Types  == {0, 1, 2, 3, 4, 5, 255}      \* 0: an ordinary cell (only with the reference counts no cell can have)
IMasks(t) == IF t # 1 THEN {0} ELSE IF Full THEN 0..7 ELSE {1, 2, 5, 7}
DMasks(t, im) == IF t = 1 THEN {im, 0} \cup (IF Full THEN {7} ELSE {}) ELSE {0, 1}
\* 5..7: the descriptor's three reference bits can say what no cell has
NRefs(t) == (CASE t = 0 -> {} [] t = 3 -> 0..2 [] t = 4 -> 0..3 [] OTHER -> 0..1) \cup {4, 5, 6, 7}
Lens(t, im) == IF t \in {0, 5, 255} THEN {1, 2, 9} ELSE 1..MaxL(t, im)

VARIABLES t, im, dm, L, nr, place, out
vars == <<t, im, dm, L, nr, place, out>>
Leaf == Cl(<<1, 0, 1>>, 0, <<>>, 0)
Table ==
  LET bits == BytesToBits(Body(t, im, L)) IN
  IF place = "root"
    THEN <<Cl(bits, t, [j \in 1..nr |-> 2], dm)>> \o (IF nr > 0 THEN <<Leaf>> ELSE <<>>)
    ELSE <<Cl(<<>>, 0, <<2>>, dm), Cl(bits, t, [j \in 1..nr |-> 3], dm)>> \o (IF nr > 0 THEN <<Leaf>> ELSE <<>>)
Hdr == [magic |-> "generic", idx |-> FALSE, crc |-> FALSE, cache |-> FALSE, size |-> 1, ob |-> 1, hashes |-> FALSE]
Label(B) == LET P == Parse(B) IN IF P.ok THEN "accepted" ELSE P.err
Init == /\ t \in Types /\ im \in IMasks(t) /\ dm \in DMasks(t, im) /\ L \in Lens(t, im) /\ nr \in NRefs(t)
        /\ (nr >= 4 => L \in {1, 9, Len(Canon(t, im))})
        /\ place \in {"root", "child"} /\ out = "todo"
Next == /\ out = "todo" /\ out' = "done" /\ UNCHANGED <<t, im, dm, L, nr, place>>
        /\ LET B == Write(Table, <<1>>, Hdr) IN
           PrintT(<<"VEC", ToJson([boc |-> BytesToHex(B),
                                   guard |-> "sem:" \o ToString(t) \o ":" \o (IF L = Len(Canon(t, im)) THEN "exact" ELSE IF L < Len(Canon(t, im)) THEN "short" ELSE "long") \o ":" \o Label(B),
                                   t |-> t, im |-> im, dm |-> dm, len |-> L, nrefs |-> nr, place |-> place])>>)
Spec == Init /\ [][Next]_vars
=============================================================================
