CONSTANTS
  Rnd = 6
SPECIFICATION KSpec
CHECK_DEADLOCK FALSE
