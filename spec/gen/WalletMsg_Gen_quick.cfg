CONSTANTS
  SeqClasses = {"zero", "max"}
  ExpClasses = {"one", "2^31"}
  ModeClasses = {"three", "mixed"}
SPECIFICATION Spec
INVARIANT Emit
CHECK_DEADLOCK FALSE
