CONSTANTS
  Lens = {0, 1, 2, 15, 16, 17, 31, 32, 33, 47, 48, 49, 100, 255, 256}
  BigLens = {1000, 4096}
SPECIFICATION Spec
INVARIANTS Emit Coherent
CHECK_DEADLOCK FALSE
