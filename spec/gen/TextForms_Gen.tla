---------------------------- MODULE TextForms_Gen ----------------------------
(* S->C for X05.  TLC enumerates the case analysis of TextForms and prints one  *)
(* JSON vector per case: the input and what the specification requires of every *)
(* function that takes it.  samples.ndjson (written by the runner from the      *)
(* seed) supplies only inputs (random byte strings, amounts, 64- and 256-bit    *)
(* strings).  Every text travels as the hex of its bytes.                       *)
(* A state is <<level, group, case>>; groups are <<part, index>>.               *)
EXTENDS TextForms, Json, TLC
VARIABLE c

S       == ndJsonDeserialize("samples.ndjson")[1]
Blobs   == [i \in 1..Len(S.blobs) |-> HexToBytes(S.blobs[i])]
Amounts == S.amounts                                                     \* canonical decimals, 0 <= a < 2^63
Rnd64   == [i \in 1..Len(S.rnd64) |-> StrToBits(S.rnd64[i])]
Hashes  == [i \in 1..Len(S.hashes) |-> HexToBytes(S.hashes[i])]
Hx(codes) == BytesToHex(codes)                                           \* a text as the hex of its bytes
T(s) == StrToCodes(s)

\* ----------------------------------------------------------------- part crc
Names == <<"", "a", "seqno", "get_public_key", "123456789", "get_wallet_data", "get_nft_data", "dnsresolve", "get_jetton_data",
           "recv_internal", "main", "get_subwallet_id", "is_plugin_installed", "get_plugin_list", "get_collection_data",
           "get_nft_address_by_index", "royalty_params", "get_wallet_address", "get_sale_data", "get_pool_data">>
CrcInputs == [i \in 1..Len(Names) |-> T(Names[i])] \o Blobs \o [b \in 1..16 |-> <<(b * 16 + b) % 256>>] \o << <<0>>, <<255>>, <<0, 0>>, <<255, 255, 255, 255>> >>
CrcClass(d) == IF Len(d) = 0 THEN "crc:empty" ELSE IF Len(d) <= 8 THEN "crc:1..8" ELSE IF Len(d) <= 64 THEN "crc:9..64" ELSE "crc:long"
CrcOut(i) == LET d == CrcInputs[i] IN
  [k |-> "crc", cl |-> CrcClass(d), data |-> Hx(d), c16 |-> Crc16(d), c32 |-> Crc32Dec(d), mid |-> MethodId(d)]

\* --------------------------------------------------------------- part coins
Zs(k) == [j \in 1..k |-> 48]
Nines(k) == [j \in 1..k |-> 57]
Edge(k) == { <<49>> \o Zs(k), <<49>> \o Zs(k - 1) \o <<49>>, <<53>> \o Zs(k), <<49, 50, 51>> \o Zs(k), Nines(k + 1),
             <<49>> \o Zs(k - 1) \o <<53>>, <<57, 57, 57>> \o Zs(k), <<49, 48, 48, 48>> \o Zs(k), <<49, 48, 53>> \o Zs(k) }
CoinCases(k) ==        \* k = number of zeros; keep below 2^63 = 9223372036854775808 (19 digits)
  LET raw == IF k = 0 THEN {<<48>>, <<49>>, <<57>>, <<49, 48>>, <<57, 57, 57>>, <<49, 48, 48>>} ELSE Edge(k)
      fits(d) == Len(d) < 19 \/ (Len(d) = 19 /\ d[1] \in 49..56)
  IN {d \in raw : fits(Canon(d))}
UnitOf(t) == LET cs == T(t)  sp == CHOOSE i \in 1..Len(cs) : cs[i] = 32 IN CodesToStr(SubSeq(cs, sp + 1, Len(cs)))
CoinOut(d) == LET a == CodesToStr(Canon(d))  t == HumanCoins(a) IN
  [k |-> "coins", cl |-> StrCat("coins:", UnitOf(t)),
   amount |-> a, cls |-> "exact", text |-> Hx(T(t))]
NegAmounts == <<"-1", "-999", "-1000", "-1500", "-1500000000", "-9223372036854775808">>
\* a negative amount has no documented form: whatever is printed must denote it
NegOut(i) == [k |-> "coins", cl |-> "coins:negative", amount |-> NegAmounts[i], cls |-> "denote", text |-> ""]

\* ----------------------------------------------------------------- part blk
Wcs    == <<"-2147483648", "-239", "-1", "0", "1", "2147483647">>
Seqnos == <<"0", "1", "123456", "4294967295">>
Shards == << HexBits("8000000000000000"), HexBits("0800000000000000"), HexBits("0000000000000001"), HexBits("ffffffffffffffff"),
             HexBits("0000000000000000"), HexBits("c000000000000000"), HexBits("00000000a0000000") >> \o Rnd64
ShardClass(b) == IF b[1] = 0 /\ b[2] = 0 /\ b[3] = 0 /\ b[4] = 0 THEN "blk:shard-leading-zero-digit" ELSE "blk:shard-16-digits"
IdOf(w, s, q) == [wc |-> Wcs[w], shard |-> Shards[s], seqno |-> Seqnos[q]]
IdRec(id) == [wc |-> id.wc, shard |-> Hex16(id.shard), seqno |-> id.seqno]
BlkOut(w, s, q) ==
  LET id == IdOf(w, s, q)  root == Hashes[((w + s) % Len(Hashes)) + 1]  file == Hashes[((s + q) % Len(Hashes)) + 1] IN
  [k |-> "blkfmt", cl |-> ShardClass(id.shard), id |-> IdRec(id), root |-> Hx(root), file |-> Hx(file),
   text16 |-> Hx(T(BlockIdText(id))), textmin |-> Hx(T(BlockIdTextMin(id))),
   ext16 |-> Hx(T(BlockIdExtText(id, root, file, Hex16(id.shard)))), extmin |-> Hx(T(BlockIdExtText(id, root, file, HexMin(id.shard)))),
   tl |-> Hx(BlockIdExtTL(id, root, file))]

\* --------------------------------------------------------------- part tldec
\* tonNode.blockIdExt is exactly 80 bytes: shorter and longer strings are refused
TlLens == {0, 1, 40, 79, 80, 81, 84, 88, 160}
TlDecOut(w, s, n) ==
  LET id == IdOf(w, s, 3)  root == Hashes[1]  file == Hashes[Len(Hashes)]
      full == BlockIdExtTL(id, root, file)
      by == IF n <= 80 THEN SubSeq(full, 1, n) ELSE full \o SubSeq(full, 1, n - 80) IN
  [k |-> "tldec", cl |-> IF n = 80 THEN "tldec:80" ELSE IF n < 80 THEN "tldec:short" ELSE "tldec:long", bytes |-> Hx(by),
   cls |-> IF n = 80 THEN "ok" ELSE "bad", id |-> IdRec(id), root |-> Hx(root), file |-> Hx(file)]

\* ------------------------------------------------------------ part blkparse
ParseVariants == {"canon16", "canonmin", "upper", "plus-wc", "lead0-wc", "lead0-seqno", "minus0-wc", "space-after-comma", "space-before",
                  "space-inside-numeral", "trailing-text", "trailing-space", "newline-end", "unterminated", "no-open", "two-fields", "four-fields",
                  "five-fields", "empty-shard", "nonhex-shard", "0x-shard", "neg-shard", "neg-seqno", "plus-seqno", "wc-2^31", "wc--2^31-1", "seqno-2^32",
                  "shard-17-digits", "shard-17-lead0", "shard-40-digits", "empty", "parens-only", "commas-only", "wc-fraction", "wc-hex",
                  "wc-empty", "seqno-empty", "seqno-huge", "semicolons", "brackets", "double-open", "nul-inside"}
Up(cs) == [i \in 1..Len(cs) |-> IF cs[i] \in 97..122 THEN cs[i] - 32 ELSE cs[i]]
Join3(a, b, d) == <<40>> \o a \o <<44>> \o b \o <<44>> \o d \o <<41>>
ParseText(v, id) ==
  LET w == T(id.wc)  h == T(Hex16(id.shard))  hm == T(HexMin(id.shard))  q == T(id.seqno)  neg == w[1] = 45 IN
  CASE v = "canon16"   -> Join3(w, h, q)
    [] v = "canonmin"  -> Join3(w, hm, q)
    [] v = "upper"     -> Join3(w, Up(h), q)
    [] v = "plus-wc"   -> Join3(IF neg THEN w ELSE <<43>> \o w, h, q)
    [] v = "lead0-wc"  -> Join3(IF neg THEN <<45, 48>> \o Tail(w) ELSE <<48>> \o w, h, q)
    [] v = "lead0-seqno" -> Join3(w, h, <<48, 48>> \o q)
    [] v = "minus0-wc" -> Join3(<<45, 48>>, h, q)
    [] v = "space-after-comma" -> <<40>> \o w \o <<44, 32>> \o h \o <<44, 32>> \o q \o <<41>>
    [] v = "space-before" -> <<32>> \o Join3(w, h, q)
    [] v = "space-inside-numeral" -> Join3(w, <<h[1], 32>> \o Tail(h), q)
    [] v = "trailing-text" -> Join3(w, h, q) \o T("garbage")
    [] v = "trailing-space" -> Join3(w, h, q) \o <<32>>
    [] v = "newline-end" -> Join3(w, h, q) \o <<10>>
    [] v = "unterminated" -> Front(Join3(w, h, q))
    [] v = "no-open"   -> Tail(Join3(w, h, q))
    [] v = "two-fields" -> <<40>> \o w \o <<44>> \o h \o <<41>>
    [] v = "four-fields" -> <<40>> \o w \o <<44>> \o h \o <<44>> \o q \o <<44>> \o q \o <<41>>
    [] v = "five-fields" -> T(BlockIdExtText(id, Hashes[1], Hashes[2], Hex16(id.shard)))
    [] v = "empty-shard" -> Join3(w, <<>>, q)
    [] v = "nonhex-shard" -> Join3(w, [h EXCEPT ![5] = 103], q)
    [] v = "0x-shard"  -> Join3(w, <<48, 120>> \o h, q)
    [] v = "neg-shard" -> Join3(w, <<45>> \o h, q)
    [] v = "neg-seqno" -> Join3(w, h, <<45, 49>>)
    [] v = "plus-seqno" -> Join3(w, h, <<43>> \o q)
    [] v = "wc-2^31"   -> Join3(T("2147483648"), h, q)
    [] v = "wc--2^31-1" -> Join3(T("-2147483649"), h, q)
    [] v = "seqno-2^32" -> Join3(w, h, T("4294967296"))
    [] v = "shard-17-digits" -> Join3(w, <<49>> \o h, q)
    [] v = "shard-17-lead0" -> Join3(w, <<48>> \o h, q)
    [] v = "shard-40-digits" -> Join3(w, h \o h \o Zs(8), q)
    [] v = "empty"     -> <<>>
    [] v = "parens-only" -> <<40, 41>>
    [] v = "commas-only" -> <<40, 44, 44, 41>>
    [] v = "wc-fraction" -> Join3(w \o <<46, 48>>, h, q)
    [] v = "wc-hex"    -> Join3(<<97>>, h, q)
    [] v = "wc-empty"  -> Join3(<<>>, h, q)
    [] v = "seqno-empty" -> Join3(w, h, <<>>)
    [] v = "seqno-huge" -> Join3(w, h, Nines(30))
    [] v = "semicolons" -> <<40>> \o w \o <<59>> \o h \o <<59>> \o q \o <<41>>
    [] v = "brackets"  -> <<91>> \o w \o <<44>> \o h \o <<44>> \o q \o <<93>>
    [] v = "double-open" -> <<40>> \o Join3(w, h, q)
    [] v = "nul-inside" -> Join3(w, <<h[1], 0>> \o Tail(h), q)
ParseOut(v, w, s, q) ==
  LET txt == ParseText(v, IdOf(w, s, q))  r == BlockIdRead(txt) IN
  [k |-> "blkparse", cl |-> StrCat("blkparse:", v), s |-> Hx(txt), cls |-> r.cls,
   id |-> IF r.id = NoId THEN [wc |-> "", shard |-> "", seqno |-> ""] ELSE IdRec(r.id)]

\* ---------------------------------------------------------------- part h256
H256Out(i) == LET v == Hashes[i] IN
  [k |-> "h256", cl |-> "h256", v |-> Hx(v), hex |-> Hx(T(BytesToHex(v))), b64 |-> Hx(B64Encode(v, B64Std)), url |-> Hx(B64Encode(v, B64Url)),
   json |-> Hx(<<34>> \o T(BytesToHex(v)) \o <<34>>)]

\* ----------------------------------------------------------- part h256parse
HVariants == {"hex", "hex-upper", "hex-mixed", "hex-0x", "hex-0X", "hex-62", "hex-63", "hex-65", "hex-66", "hex-nonhex", "hex-space-end", "hex-space-start",
              "b64", "url", "b64-nopad", "b64-2pad", "b64-tail-bits", "b64-newline", "b64-42", "b64-44", "b64-foreign", "b64-pad-inside", "b64-space",
              "empty", "json", "json-upper", "json-0x", "json-62", "json-66", "json-nonhex", "json-empty-string", "json-null", "json-number",
              "json-unterminated", "json-trailing-space", "json-leading-space", "json-escape", "json-b64", "json-array"}
Q(cs) == <<34>> \o cs \o <<34>>
HText(vr, v) ==
  LET hx == T(BytesToHex(v))  b == B64Encode(v, B64Std)  u == B64Encode(v, B64Url) IN
  CASE vr = "hex" -> hx
    [] vr = "hex-upper" -> Up(hx)
    [] vr = "hex-mixed" -> [i \in 1..64 |-> IF i % 2 = 0 THEN Up(hx)[i] ELSE hx[i]]
    [] vr = "hex-0x" -> <<48, 120>> \o hx
    [] vr = "hex-0X" -> <<48, 88>> \o hx
    [] vr = "hex-62" -> SubSeq(hx, 1, 62)
    [] vr = "hex-63" -> SubSeq(hx, 1, 63)
    [] vr = "hex-65" -> hx \o <<48>>
    [] vr = "hex-66" -> hx \o <<48, 48>>
    [] vr = "hex-nonhex" -> [hx EXCEPT ![17] = 103]
    [] vr = "hex-space-end" -> hx \o <<32>>
    [] vr = "hex-space-start" -> <<32>> \o hx
    [] vr = "b64" -> b
    [] vr = "url" -> u
    [] vr = "b64-nopad" -> Front(b)
    [] vr = "b64-2pad" -> b \o <<61>>
    [] vr = "b64-tail-bits" -> [b EXCEPT ![43] = B64Std[StdVal[b[43]] + 2]]         \* the digit's two unused low bits are 01
    [] vr = "b64-newline" -> SubSeq(b, 1, 20) \o <<10>> \o SubSeq(b, 21, 44)
    [] vr = "b64-42" -> SubSeq(b, 1, 42) \o <<61, 61>>
    [] vr = "b64-44" -> SubSeq(b, 1, 43) \o <<65>>
    [] vr = "b64-foreign" -> [b EXCEPT ![10] = 33]
    [] vr = "b64-pad-inside" -> [b EXCEPT ![10] = 61]
    [] vr = "b64-space" -> SubSeq(b, 1, 20) \o <<32>> \o SubSeq(b, 21, 44)
    [] vr = "empty" -> <<>>
    [] vr = "json" -> Q(hx)
    [] vr = "json-upper" -> Q(Up(hx))
    [] vr = "json-0x" -> Q(<<48, 120>> \o hx)
    [] vr = "json-62" -> Q(SubSeq(hx, 1, 62))
    [] vr = "json-66" -> Q(hx \o <<48, 48>>)
    [] vr = "json-nonhex" -> Q([hx EXCEPT ![64] = 122])
    [] vr = "json-empty-string" -> Q(<<>>)
    [] vr = "json-null" -> T("null")
    [] vr = "json-number" -> T("12")
    [] vr = "json-unterminated" -> <<34>> \o hx
    [] vr = "json-trailing-space" -> Q(hx) \o <<32>>
    [] vr = "json-leading-space" -> <<32>> \o Q(hx)
    [] vr = "json-escape" -> Q(T("\\u0030") \o Tail(hx))
    [] vr = "json-b64" -> Q(b)
    [] vr = "json-array" -> <<91>> \o Q(hx) \o <<93>>
Verd(r) == [cls |-> r.cls, v |-> Hx(r.v), hasv |-> r.hasv]
HParseOut(vr, i) ==
  LET txt == HText(vr, Hashes[i]) IN
  [k |-> "h256parse", cl |-> StrCat("h256parse:", vr), s |-> Hx(txt),
   fns |-> [hex |-> Verd(Hex32Read(txt)), b64 |-> Verd(B64Read32(txt, StdVal)), url |-> Verd(B64Read32(txt, UrlVal)),
            any |-> Verd(AnyRead32(txt)), json |-> Verd(Json32Read(txt))]]

\* ------------------------------------------------------------------ driver
Groups == {<<"crc", i>> : i \in 1..Len(CrcInputs)} \cup {<<"coins", k>> : k \in 0..18} \cup {<<"coins", 100>>, <<"coins", 101>>}
          \cup {<<"blk", w>> : w \in 1..Len(Wcs)} \cup {<<"blkparse", w>> : w \in 1..Len(Wcs)} \cup {<<"tldec", w>> : w \in 1..Len(Wcs)}
          \cup {<<"h256", 0>>} \cup {<<"h256parse", i>> : i \in 1..3}
Cases(g) == CASE g[1] = "crc" -> {0}
              [] g[1] = "coins" -> IF g[2] = 100 THEN {T(Amounts[i]) : i \in 1..Len(Amounts)} ELSE IF g[2] = 101 THEN 1..Len(NegAmounts) ELSE CoinCases(g[2])
              [] g[1] = "blk" -> {<<s, q>> : s \in 1..Len(Shards), q \in 1..Len(Seqnos)}
              [] g[1] = "tldec" -> {<<s, n>> : s \in {1, 2, 4}, n \in TlLens}
              [] g[1] = "blkparse" -> {<<v, s, q>> : v \in ParseVariants, s \in {1, 2, 7}, q \in {3}}
              [] g[1] = "h256" -> 1..Len(Hashes)
              [] g[1] = "h256parse" -> HVariants
Out(g, x) == CASE g[1] = "crc" -> CrcOut(g[2])
               [] g[1] = "coins" -> IF g[2] = 101 THEN NegOut(x) ELSE CoinOut(x)
               [] g[1] = "blk" -> BlkOut(g[2], x[1], x[2])
               [] g[1] = "tldec" -> TlDecOut(g[2], x[1], x[2])
               [] g[1] = "blkparse" -> ParseOut(x[1], g[2], x[2], x[3])
               [] g[1] = "h256" -> H256Out(x)
               [] g[1] = "h256parse" -> HParseOut(x, g[2])

Init == c \in {<<0, g, 0>> : g \in Groups}
Next == c[1] = 0 /\ c' \in {<<1, c[2], x>> : x \in Cases(c[2])}
Spec == Init /\ [][Next]_c
Emit == c[1] = 1 => PrintT(<<"VEC", ToJson(Out(c[2], c[3]))>>)

\* the specification's own coherence on every generated case: reading what was written is the identity
Coherent ==
  c[1] = 1 =>
    LET g == c[2]  x == c[3] IN
    CASE g[1] = "coins" /\ g[2] # 101 -> LET a == CodesToStr(Canon(x)) IN CoinsDenote(HumanCoins(a)) = a
      [] g[1] = "blk" -> LET id == IdOf(g[2], x[1], x[2]) IN
                         /\ BlockIdRead(T(BlockIdText(id))) = [cls |-> "ok", id |-> id]
                         /\ BlockIdRead(T(BlockIdTextMin(id))) = [cls |-> "ok", id |-> id]
      [] g[1] = "h256" -> LET v == Hashes[x] IN
                          /\ Hex32Read(T(BytesToHex(v))) = [cls |-> "ok", v |-> v, hasv |-> TRUE]
                          /\ B64Read32(B64Encode(v, B64Std), StdVal) = [cls |-> "ok", v |-> v, hasv |-> TRUE]
                          /\ B64Read32(B64Encode(v, B64Url), UrlVal) = [cls |-> "ok", v |-> v, hasv |-> TRUE]
                          /\ AnyRead32(B64Encode(v, B64Url)).v = v /\ AnyRead32(T(BytesToHex(v))).v = v
                          /\ Json32Read(Q(T(BytesToHex(v)))) = [cls |-> "ok", v |-> v, hasv |-> TRUE]
      [] g[1] = "h256parse" -> AnyReadCoherent(HText(x, Hashes[g[2]]))
      [] OTHER -> TRUE
=============================================================================
