CONSTANTS
  MaxOps = 4
  Free = TRUE
SPECIFICATION Spec
INVARIANT Emit
CHECK_DEADLOCK FALSE
