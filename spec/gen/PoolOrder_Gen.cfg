CONSTANTS
  Servers = {0, 1, 2, 3}
SPECIFICATION Spec
INVARIANTS Emit Sane
CHECK_DEADLOCK FALSE
