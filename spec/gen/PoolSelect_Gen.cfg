CONSTANTS
  N = 3
  SeqVals = {0, 1, 2, 3, 1000000}
  RttVals = {0, 1, 2}
  Top = 1000000
  Alive1 = {TRUE, FALSE}
  Seq1 = {0, 1, 2, 3, 1000000}
  Seq2 = {0, 1, 2, 3, 1000000}
SPECIFICATION Spec
INVARIANTS Emit Sane
CHECK_DEADLOCK FALSE
