---------------------------- MODULE LiteAuth_Gen ----------------------------
(* S->C for X03 (A): TLC enumerates server scripts over the alphabet of       *)
(* LiteAuth (honest nonces at the length boundaries, refused lengths,         *)
(* malformed nonce packets, nonce twice, unrelated packets before the nonce,  *)
(* silence, a nonce nobody asked for, cancellation, reconnects), realises     *)
(* every packet as bytes with the layouts of LiteAuth, runs the client        *)
(* machine over the script and writes out the script with the outcomes the    *)
(* machine allows.  The properties of the machine are invariants of the run.  *)
(* One initial state per script; the single step evaluates and emits it.      *)
EXTENDS LiteAuth, SequencesExt, Json, TLC
CONSTANTS Salt, Tier          \* Tier: "quick" | "thorough"
VARIABLES plan, done

\* ------------------------------------------------------------- realisation
Pat(n, a, b) == [i \in 1..n |-> (a * i + b) % 256]
SrvNonce(id, k, n) == Pat(n, 7 + 2 * (Salt % 50), 13 * k + id + Salt)
Raw(what, id, k) ==
  CASE what = "idonly"   -> NonceId                                                \* the id and nothing else
    [] what = "cut1"     -> NonceId \o <<5>>                                       \* announces 5 bytes, the packet ends
    [] what = "cut"      -> NonceId \o <<200>> \o Pat(39, 3, id)                   \* announces 200 bytes, 39 follow
    [] what = "ff"       -> NonceId \o <<255, 0, 0, 0>> \o Pat(32, 5, id)          \* 255 is no length byte
    [] what = "cutlong"  -> NonceId \o <<254, 44, 1, 0>> \o Pat(100, 9, id)        \* long form: 300 announced, 100 follow
    [] what = "pong"     -> PongId \o Pat(8, 11, id + k)                           \* a pong nobody asked for
    [] what = "unknown"  -> TL!IdBytes("7ea1c0de") \o Pat(12, 17, id)              \* no tcp.Message, no adnl.Message
    [] what = "answer"   -> AnswerId \o Pat(32, 19, id) \o TL!TlBytes(Pat(8, 23, k)) \* adnl.message.answer to no query
    [] what = "empty"    -> <<>>
Bytes(p, id, k) == IF p.t = "nonce" THEN NoncePkt(SrvNonce(id, k, p.n)) ELSE Raw(p.t, id, k)
Realise(ps, id) == [k \in 1..Len(ps) |-> [hex |-> BytesToHex(Bytes(ps[k], id, k)), wait |-> ps[k].w]]

N(n)     == [t |-> "nonce", n |-> n, w |-> 0]
NW(n, w) == [t |-> "nonce", n |-> n, w |-> w]
R(t)     == [t |-> t, n |-> 0, w |-> 0]

\* ------------------------------------------------------------------- plans
P(cls, grp, key, ps) == [cls |-> cls, grp |-> grp, key |-> key, ps |-> ps, ps2 |-> ps, cancel |-> 0, drop |-> FALSE]
Honest(n) == P(StrCat("honest-", ToString(n)), IF n < 32 THEN "honest-short" ELSE "honest", TRUE, <<N(n)>>)
Refused(n) == P(StrCat("refused-", ToString(n)), "refused", TRUE, <<N(n)>>)
Malformed(w) == P(StrCat("malformed-", w), "malformed", TRUE, <<R(w)>>)
Before(w) == P(StrCat(w, "-before-nonce"), IF w = "pong" THEN "pong-before" ELSE "noise-before", TRUE, <<R(w), NW(32, 40)>>)
After(w) == P(StrCat(w, "-after-nonce"), "noise-after", TRUE, <<N(32), [t |-> w, n |-> 0, w |-> 30]>>)
Twice(a, b, nm, grp) == P(StrCat("twice-", nm), grp, TRUE, <<N(a), N(b)>>)
Drop(nm, ps2) == [P(StrCat("reconnect-", nm), IF nm = "honest" THEN "reconnect" ELSE "reconnect-misbehaving", TRUE, <<N(32)>>)
                  EXCEPT !.drop = TRUE, !.ps2 = ps2]

Core == <<
  Honest(32), Honest(1), Honest(512), Honest(256),
  Refused(0), Refused(513),
  Malformed("idonly"), Malformed("cut"),
  Twice(32, 32, "good-good", "twice"), Twice(513, 32, "bad-good", "twice-after-refused"),
  Before("pong"), Before("unknown"),
  P("nokey", "nokey", FALSE, <<>>), P("nokey-nonce", "nokey", FALSE, <<N(32)>>),
  P("silent", "silent", TRUE, <<>>),
  [P("cancel", "cancel", TRUE, <<>>) EXCEPT !.cancel = 300],
  Drop("honest", <<N(64)>>), Drop("refused-then-honest", <<N(513), N(32)>>) >>
More == <<
  Honest(2), Honest(3), Honest(4), Honest(28), Honest(31), Honest(33), Honest(64), Honest(253), Honest(254), Honest(255), Honest(511),
  Honest(1 + ((Salt * 37) % 512)), Honest(1 + ((Salt * 101 + 7) % 512)), Honest(1 + ((Salt * 211 + 99) % 31)),
  Refused(514), Refused(600), Refused(1024),
  Malformed("cut1"), Malformed("ff"), Malformed("cutlong"),
  Twice(32, 513, "good-bad", "twice"), Twice(0, 0, "bad-bad", "twice-after-refused"), Twice(1, 1, "short-short", "honest-short"),
  Before("answer"), Before("empty"), After("pong"), After("unknown"), After("answer"),
  P("nokey-refused-nonce", "nokey", FALSE, <<N(513)>>), P("nokey-noise", "nokey", FALSE, <<R("unknown"), R("pong")>>),
  P("nokey-malformed-nonce", "nokey", FALSE, <<R("cut")>>),
  P("late-nonce", "late-nonce", TRUE, <<NW(32, 10700)>>),
  [P("cancel-after-noise", "cancel", TRUE, <<R("pong")>>) EXCEPT !.cancel = 500],
  [P("cancel-refused", "refused", TRUE, <<N(0)>>) EXCEPT !.cancel = 2000],
  Drop("refused", <<N(0)>>), Drop("refused-twice", <<N(513), N(513)>>), Drop("malformed-then-honest", <<R("cut"), N(32)>>),
  Drop("pong-then-honest", <<R("pong"), NW(48, 30)>>), Drop("short-honest", <<N(1)>>) >>
Plans == IF Tier = "quick" THEN Core ELSE Core \o More

SeedOf(tag, id) == Sha256(<<tag, id % 256, id \div 256, Salt % 256, (Salt \div 256) % 256>>)
Vector(id) ==
  LET p == Plans[id]
      send  == Realise(p.ps, id)
      send2 == Realise(p.ps2, id + 100)
      O  == Outcomes(p.key, EventsOf(send))
      O2 == Outcomes(p.key, EventsOf(send2))
      show(S) == LET q == SetToSeq(S) IN [i \in 1..Len(q) |-> [st |-> q[i].st, nsig |-> Len(q[i].sigs)]]
  IN [id |-> id, cls |-> p.cls, grp |-> p.grp, key |-> p.key,
      cseed |-> BytesToHex(SeedOf(67, id)), sseed |-> BytesToHex(SeedOf(83, id)),
      send |-> send, send2 |-> send2, cancel |-> p.cancel, drop |-> p.drop, now |-> 100000 + 7 * id + Salt, within |-> 20000,
      allowed |-> show(O), allowed2 |-> show(O2)]

Init == plan \in 1..Len(Plans) /\ done = FALSE
Next == ~done /\ done' = TRUE /\ UNCHANGED plan
Spec == Init /\ [][Next]_<<plan, done>>

\* the machine's own properties on every enumerated script (both the first and the reconnect script)
MachineOK ==
  LET p == Plans[plan]
      chk(ps, id) == LET O == Outcomes(p.key, EventsOf(Realise(ps, id))) IN
                     /\ O # {}
                     /\ NeverSignsTwiceWhileUp(O) /\ SignsOnlyWithIdentity(p.key, O) /\ UpMeansSigned(p.key, O)
  IN chk(p.ps, plan) /\ chk(p.ps2, plan + 100)
\* the realisation means what the plan says: an honest n-byte nonce is classified nonce_ok with n bytes, a refused
\* or malformed one nonce_bad, the rest as named
RealisationOK ==
  LET p == Plans[plan] IN
  \A k \in 1..Len(p.ps) :
     LET c == Classify(Bytes(p.ps[k], plan, k)) IN
     CASE p.ps[k].t = "nonce" -> IF p.ps[k].n >= 1 /\ p.ps[k].n <= 512 THEN c.t = "nonce_ok" /\ Len(c.ns) = p.ps[k].n
                                 ELSE c.t = "nonce_bad"
       [] p.ps[k].t \in {"idonly", "cut1", "cut", "ff", "cutlong"} -> c.t = "nonce_bad"
       [] p.ps[k].t = "pong" -> c.t = "pong"
       [] OTHER -> c.t = "other"
Emit == done => PrintT(<<"VEC", ToJson(Vector(plan))>>)
=============================================================================
