CONSTANTS
  Salt = 1
  Tier = "quick"
SPECIFICATION Spec
INVARIANTS MachineOK RealisationOK Emit
CHECK_DEADLOCK FALSE
