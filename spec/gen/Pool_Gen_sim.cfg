CONSTANTS
  NC = 2
  Waiters = {1, 2, 3}
  None = 0
  RunP = 99
  MaxSeq = 6
  Steps = {0, 1, 2}
  Wants = {1, 2, 3, 5, 7}
  Timeouts = {1, 2, 1000000000}
  UpdCap = 10
  MaxTime = 5
  Strategy = "first-working"
  Rtt0 <- GRtt
  MaxFlips = 2
  FixNotify = FALSE
  FixTimer = FALSE
  FixSetHead = FALSE
  Depth = 60
  Mode = "sim"
SPECIFICATION GenSpec
INVARIANTS Emit
CHECK_DEADLOCK FALSE
