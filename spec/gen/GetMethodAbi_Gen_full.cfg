CONSTANTS
  Thorough = TRUE
SPECIFICATION Spec
CHECK_DEADLOCK FALSE
