CONSTANTS
  NC = 1
  Waiters = {1}
  None = 0
  RunP = 99
  MaxSeq = 3
  Steps = {0, 1}
  Wants = {2, 4}
  Timeouts = {3}
  UpdCap = 10
  MaxTime = 5
  Strategy = "first-working"
  Rtt0 <- GRtt
  MaxFlips = 0
  FixNotify = FALSE
  FixTimer = FALSE
  FixSetHead = FALSE
  Depth = 26
  Mode = "cex"
SPECIFICATION GenSpec
VIEW View
INVARIANTS Emit
CHECK_DEADLOCK FALSE
