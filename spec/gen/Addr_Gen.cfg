CONSTANTS
  Part = "enc"
SPECIFICATION Spec
INVARIANTS Emit Coherent
CHECK_DEADLOCK FALSE
