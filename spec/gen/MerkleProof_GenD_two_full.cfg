CONSTANTS
  Types = {}
  MaxSet = 4
  MaxAbsent = 3
  TwoStep = TRUE
SPECIFICATION Spec
CHECK_DEADLOCK FALSE
