CONSTANTS
  SeqClasses = {"zero", "one", "2^31", "max", "rand"}
  ExpClasses = {"zero", "one", "2^31-1", "2^31", "max", "rand"}
  ModeClasses = {"zero", "three", "flags", "max", "mixed"}
SPECIFICATION Spec
INVARIANT Emit
CHECK_DEADLOCK FALSE
