--------------------------- MODULE ShardChain_Gen ---------------------------
(* S->C for X08.  TLC -simulate walks the ShardChain machine (one random enabled  *)
(* action per step: NewBlock, Split, Merge, McBlock) and prints each behaviour of  *)
(* Steps actions as one vector: the blocks in the order they were made (with the   *)
(* header fields a block of that kind has by block.tlb and the previous-block ids  *)
(* the library must report) and the masterchain blocks (with the configuration     *)
(* they record, leaves from left to right).                                        *)
EXTENDS ShardChain, Json
CONSTANT Steps
Done == cnt.new + cnt.split + cnt.merge + cnt.mcs
Enabled == {<<"new", p>> : p \in DOMAIN sh}
           \cup {<<"split", p>> : p \in {q \in DOMAIN sh : Len(q) < Depth}}
           \cup {<<"merge", Front(p)>> : p \in {q \in DOMAIN sh : Len(q) > 0 /\ q[Len(q)] = 0 /\ (Front(q) \o <<1>>) \in DOMAIN sh}}
           \cup {<<"mc", <<>>>>}
\* splits and merges are rarer than ordinary blocks in a uniform choice when there are many shards: draw the kind first
Kinds == {a[1] : a \in Enabled}
GenNext == /\ Done < Steps
           /\ \E k \in {RandomElement(Kinds)} : \E a \in {RandomElement({x \in Enabled : x[1] = k})} :
                CASE a[1] = "new"   -> NewBlock(a[2])
                  [] a[1] = "split" -> Split(a[2])
                  [] a[1] = "merge" -> Merge(a[2])
                  [] OTHER          -> McBlock
GenSpec == Init /\ [][GenNext]_vars
Emit == Done = Steps => PrintT(<<"VEC", ToJson([k |-> "beh", wc |-> Wc, depth |-> Depth, steps |-> hist,
                                                 init |-> <<[pfx |-> "", seqno |-> 0, root |-> RootHashHex(1), file |-> FileHashHex(1)]>>,
                                                 splits |-> cnt.split, merges |-> cnt.merge, mcs |-> cnt.mcs])>>)
=============================================================================
