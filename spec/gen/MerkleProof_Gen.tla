--------------------------- MODULE MerkleProof_Gen ---------------------------
(* S->C for C18 (i): TLC explores the cursor state machine of MerkleProof on   *)
(* small trees (<= 6 rows), including DAGs with a shared sub-tree and nodes      *)
(* whose two children are structurally identical (as one row and as two equal    *)
(* rows).  A behaviour is a SEQUENCE of requests served by one prover: Cursor(), *)
(* Ref/Up/Prune, CreateProof, again Cursor() ... (each session starts with an    *)
(* empty prune set).  It is emitted as a script with, per CreateProof, the hash  *)
(* of the proof the specification requires; the Go side replays the script       *)
(* through ONE boc.MerkleProver on three builds of the tree (distinct pointers,   *)
(* shared pointers, parsed from a bag).                                          *)
(* Visits are in depth-first order (Ref(i) only to a position after the ones     *)
(* already visited from this node; no second Prune of a path) unless Free.       *)
EXTENDS MerkleProof, Json
CONSTANTS MaxOps,    \* number of Ref/Up/Prune operations in a behaviour (all requests together)
          MaxReq,    \* number of requests (cursor sessions, each ended by CreateProof) served by ONE prover
          Free,      \* TRUE: no depth-first discipline (any enabled operation)
          Hold,      \* TRUE: cursor VALUES are held: any live cursor value may be used for the next Ref / Prune (take all
                     \* children of a node first, prune / descend through the earlier ones later); FALSE: one current cursor
                     \* (a stack: Ref pushes a new value, Up goes back to the value held before)
          Exotic,    \* TRUE: the source is one of the XTrees: level-0 trees with a Merkle-proof / Merkle-update cell BELOW the
                     \* root (built here with Proof / Cells operators, handed over as a bag written with Boc!Write); the cursor
                     \* prunes beside such a cell, above it, the cell itself and positions strictly beneath it
          TwoStep    \* TRUE: the source of the prover is the tree under an earlier proof Proof(tree, A) (a partial view with
                     \* pruned branches, root of level 1); A ranges over the single positions and the pairs of incomparable
                     \* positions of depth <= 2.  The second-step cursor then reaches positions outside A, next to A's pruned
                     \* branches, the pruned branches themselves (pruned again) and positions above them.

C(b, r) == [b |-> b, x |-> Ordinary, m |-> 0, r |-> r]
Ch == [magic |-> "generic", idx |-> FALSE, crc |-> FALSE, cache |-> FALSE, size |-> 1, ob |-> 2, hashes |-> FALSE]
A == <<1, 0, 1>>            B == <<0, 1, 1, 0, 1, 0, 0, 1>>     D == <<>>     E == <<1, 1, 1, 1, 1, 1, 1, 1, 0>>
F == <<0>>                  G == [i \in 1..17 |-> i % 2]
Trees == <<
  << C(A, <<>>) >>,                                                             \* 1 single cell
  << C(A, <<2>>), C(B, <<3>>), C(D, <<>>) >>,                                   \* 2 chain
  << C(A, <<2, 3>>), C(B, <<>>), C(E, <<>>) >>,                                 \* 3 two distinct leaves
  << C(A, <<2, 3>>), C(B, <<>>), C(B, <<>>) >>,                                 \* 4 twin leaves as two equal rows
  << C(D, <<2, 3>>), C(A, <<4>>), C(B, <<4>>), C(E, <<>>) >>,                   \* 5 diamond: shared leaf
  << C(A, <<2, 2>>), C(F, <<3>>), C(G, <<>>) >>,                                \* 6 the same row twice, with a child
  << C(D, <<2, 3, 4, 5>>), C(A, <<>>), C(B, <<>>), C(A, <<>>), C(E, <<>>) >>,   \* 7 four children, two equal
  << C(F, <<2, 2>>), C(A, <<3, 4>>), C(B, <<>>), C(E, <<>>) >>,                 \* 8 twin inner nodes (7 occurrences)
  << C(A, <<2, 3>>), C(B, <<3>>), C(E, <<4>>), C(D, <<>>) >>,                   \* 9 shared sub-tree at two depths
  << C(G, <<2, 3, 4>>), C(A, <<5>>), C(B, <<5>>), C(F, <<6>>), C(E, <<>>), C(E, <<>>) >>,  \* 10 six rows: shared + twin rows
  << C(A, <<2, 3>>), C(B, <<4, 5>>), C(B, <<5, 4>>), C(D, <<>>), C(F, <<>>) >>  \* 11 mirrored children (not equal)
>>

\* ---- trees with Merkle cells below the root
Sub  == << C(B, <<2, 3>>), C(E, <<>>), C(F, <<4>>), C(D, <<>>) >>            \* c[g1, g2[g3]]
Sub2 == << C(G, <<2, 3>>), C(A, <<>>), C(B, <<>>) >>
\* a Merkle-update cell over two tables (root row 1 each, masks set)
MUpd(TA, TB) == LET IA == InfoTable(TA)  IB == InfoTable(TB) IN
  << [b |-> BytesToBits(<<4>> \o IA[1].h[1] \o IB[1].h[1] \o U16(IA[1].d[1]) \o U16(IB[1].d[1])), x |-> MerkleUpdate,
      m |-> OrM(TA[1].m, TB[1].m) \div 2, r |-> <<2, 2 + Len(TA)>>] >> \o Shift(TA, 1) \o Shift(TB, 1 + Len(TA))
\* `rows` (ordinary cells whose references point into themselves and to row Len(rows) + 1) followed by the table X
Over(rows, X) == rows \o Shift(X, Len(rows))
Inner == Over(<< C(F, <<2, 3>>), C(E, <<>>) >>, Proof(Sub2, 1, {<<1>>}))       \* r2[leaf, M2[pruned, leaf]]
\* c[x[u[u1[u2]]], y[v[v1]]]; Ma over it with u pruned (level 1, depth 2); v pruned beneath Ma (level 2)
Deep == << C(B, <<2, 6>>), C(E, <<3>>), C(F, <<4>>), C(D, <<5>>), C(A, <<>>), C(G, <<7>>), C(A, <<8>>), C(F, <<>>) >>
ML1 == Over(<< C(F, <<2, 3>>), C(E, <<>>) >>, Proof(Deep, 1, {<<1, 1>>}))         \* r1[leaf, Ma[c[x[pruned 1], y[v[v1]]]]]
ML2 == Over(<< C(D, <<2, 3>>), C(G, <<>>) >>, Proof(ML1, 1, {<<2, 1, 2, 1>>}))    \* r0[leaf, Mb[r1[leaf, Ma[c[x[pruned 1], y[pruned 2]]]]]]
XTrees == <<
  Over(<< C(A, <<2, 3>>), C(G, <<>>) >>, Proof(Sub, 1, {})),                     \* 1 root[leaf, M[c[g1, g2[g3]]]]: proof cell over a whole sub-tree
  Over(<< C(D, <<3, 2>>), C(E, <<>>), C(B, <<4>>) >>, Proof(Sub, 1, {<<1>>})),   \* 2 root[a[M[c[pruned, g2[g3]]]], leaf]: over a partly pruned sub-tree
  Over(<< C(A, <<3, 2>>), C(F, <<>>) >>, MUpd(Body(Proof(Sub2, 1, {<<2>>})), Sub)),  \* 3 root[U[x[y, pruned], c[..]], leaf]: update cell, two children
  Over(<< C(B, <<2, 3>>), C(D, <<>>) >>, Proof(Inner, 1, {})),                   \* 4 root[leaf, M1[r2[leaf, M2[pruned, leaf]]]]: Merkle depth 2
  \* sources that already hold pruned branches storing SEVERAL levels (a tree cut out of a proof of a proof ...): written
  \* by the specification itself, by proving beneath the Merkle cells of an earlier tree (PrunedCellK); the stored depths of
  \* the levels differ (the lower level stands for the deeper, original sub-tree)
  Over(<< C(A, <<2, 3>>), C(D, <<>>) >>, Proof(ML1, 1, {<<2, 1, 1>>})),            \* 5 root[leaf, Mb[r1[leaf, Ma[c[pruned MASK 3 (x), y[v[v1]]]]]]]
  Over(<< C(G, <<2, 3>>), C(A, <<>>) >>, Proof(ML2, 1, {<<2, 1, 2, 1, 1>>, <<2, 1, 2, 1, 2>>})),   \* 6 root[leaf, Mc[r0[leaf, Mb[r1[leaf, Ma[c[pruned MASK 5, pruned MASK 6]]]]]]]
  Over(<< C(E, <<2, 3>>), C(B, <<>>) >>, Proof(ML2, 1, {<<2, 1, 2, 1>>})),         \* 7 ... Ma[pruned MASK 7 (c)]
  \* 8 a cut from beneath two Merkle cells, no Merkle cell in it (MerkleProof!HighViewOK): c[x[pruned MASK 1], y[pruned MASK 2, leaf]],
  \* root of level 2: a newly pruned position (mask 1) beside the kept branch of mask 2 - the OR of the masks is not their maximum
  WithMasks(<< C(B, <<2, 4>>), C(E, <<3>>), PrunedCellK(0, InfoTable(Sub)[1], 0), C(F, <<5, 6>>), PrunedCellK(0, InfoTable(Sub2)[1], 1), C(A, <<>>) >>)
>>
\* the pruned branches of a table that store more than one level: <<mask, stored depths>>
MultiLevel(TT) == {<<TT[i].m, LET d == DataBytes(TT[i].b) n == Pop(TT[i].m) IN [q \in 1..n |-> d[1 + 2 + 32 * n + 2 * (q - 1)] * 256 + d[2 + 2 + 32 * n + 2 * (q - 1)]]>>
                    : i \in {j \in 1..Len(TT) : TT[j].x = Pruned /\ Pop(TT[j].m) > 1}}
XOK == /\ \A t \in 1..7 : ExoticSourceOK(XTrees[t], 1)
       /\ HighViewOK(XTrees[8], 1) /\ XTrees[8][1].m = 3 /\ XTrees[8][4].m = 2 /\ XTrees[8][2].m = 1
       /\ {x[1] : x \in MultiLevel(XTrees[5])} = {3} /\ {x[1] : x \in MultiLevel(XTrees[6])} = {5, 6} /\ {x[1] : x \in MultiLevel(XTrees[7])} = {7}
       /\ \A t \in 5..7 : \A x \in MultiLevel(XTrees[t]) : \A a, b \in 1..Len(x[2]) : a # b => x[2][a] # x[2][b]
ASSUME Len(XTrees) = 8 /\ (Exotic => XOK)
SrcTrees == IF Exotic THEN XTrees ELSE Trees

VARIABLES T, hs, stk, ps, nxt, hist, exph, cur, open, nops, done, first, aux
vars == <<T, hs, stk, ps, nxt, hist, exph, cur, open, nops, done, first, aux>>
\* aux: (Exotic) the hashes / depths of T and the bag that hands T over, computed once per behaviour (TLC does not keep the
\* value of a constant definition that goes through RECURSIVE operators)
\* T: the source table of the prover; hs: the cursor values of the open session (handle h = hs[h + 1], a path; handle 0 is
\* the value Cursor() returned); stk: (not Hold) the handles from the root value to the current one; ps: the session's prune
\* set; nxt: (depth-first discipline) for every handle on stk the smallest reference position still allowed below it;
\* hist: the script (events as the harness replays and records them); exph: for every Create the hash of the proof the
\* specification requires; cur: id of the open session; nops: Ref/Up/Prune operations so far
\* first: <<index of the original tree, prune set A of the first proof>> (A = {} and the tree itself is the source unless TwoStep)
RECURSIVE PathsBelow(_, _, _, _)
PathsBelow(TT, j, p, d) == IF d = 0 THEN {} ELSE UNION {{Append(p, k)} \cup PathsBelow(TT, TT[j].r[k], Append(p, k), d - 1) : k \in 1..Len(TT[j].r)}
FirstSets(TT) == LET pp == PathsBelow(TT, 1, <<>>, 2) IN
                {{p} : p \in pp} \cup {{x[1], x[2]} : x \in {y \in pp \X pp : y[1] # y[2] /\ ~PathPrefix(y[1], y[2]) /\ ~PathPrefix(y[2], y[1])}}
Source(t, fs) == IF fs = {} THEN SrcTrees[t] ELSE WithMasks(Body(Proof(Trees[t], 1, fs)))
Ev(k, h, nh, i) == [k |-> k, c |-> cur, h |-> h, nh |-> nh, i |-> i]
CursorEv(c) == [k |-> "Cursor", c |-> c, h |-> 0, nh |-> 0, i |-> 0]
Refs(h) == Len(T[NodeAt(T, 1, hs[h + 1])].r)
Top == stk[Len(stk)]
ASSUME ~(Exotic /\ TwoStep)
Init == /\ \E t \in 1..Len(SrcTrees) : \E fs \in (IF TwoStep THEN FirstSets(Trees[t]) ELSE {{}}) : first = <<t, fs>> /\ T = Source(t, fs)
        /\ hs = << <<>> >> /\ stk = <<0>> /\ ps = {} /\ nxt = <<1>> /\ cur = 1 /\ hist = << CursorEv(1) >> /\ exph = <<>>
        /\ open = TRUE /\ nops = 0 /\ done = FALSE
        /\ aux = IF Exotic THEN [info |-> InfoTable(T), bag |-> BytesToHex(Write(T, <<1>>, Ch))] ELSE <<>>
\* ---- one current cursor (stack)
DoRef(i) == /\ i <= Refs(Top) /\ (Free \/ i >= nxt[Len(nxt)])
            /\ hs' = Append(hs, Append(hs[Top + 1], i)) /\ stk' = Append(stk, Len(hs))
            /\ nxt' = Append([nxt EXCEPT ![Len(nxt)] = i + 1], 1)
            /\ hist' = Append(hist, Ev("Ref", Top, Len(hs), i - 1)) /\ ps' = ps
DoUp == /\ Len(stk) > 1 /\ stk' = SubSeq(stk, 1, Len(stk) - 1) /\ nxt' = SubSeq(nxt, 1, Len(nxt) - 1)
        /\ UNCHANGED <<hs, ps, hist>>                    \* no call: the program continues with the value it held before
DoPrune == /\ (Free \/ hs[Top + 1] \notin ps)
           /\ ps' = ps \cup {hs[Top + 1]} /\ hist' = Append(hist, Ev("Prune", Top, 0, 0)) /\ UNCHANGED <<hs, stk, nxt>>
\* ---- held cursor values: any live value is used
Derive(h, i) == /\ i <= Refs(h) /\ Append(hs[h + 1], i) \notin {hs[x] : x \in 1..Len(hs)}
                /\ hs' = Append(hs, Append(hs[h + 1], i))
                /\ hist' = Append(hist, Ev("Ref", h, Len(hs), i - 1)) /\ UNCHANGED <<stk, nxt, ps>>
PruneH(h) == /\ hs[h + 1] \notin ps /\ ps' = ps \cup {hs[h + 1]}
             /\ hist' = Append(hist, Ev("Prune", h, 0, 0)) /\ UNCHANGED <<hs, stk, nxt>>
\* (the deep trees 5..7 need no long scripts: what matters is any proof at all, with the Merkle cells reached or hidden)
Op == /\ open /\ nops < (IF Exotic /\ first[1] >= 5 THEN 3 ELSE MaxOps)
      /\ IF Hold THEN \E h \in 0..(Len(hs) - 1) : (\E i \in 1..4 : Derive(h, i)) \/ PruneH(h)
         ELSE (\E i \in 1..4 : DoRef(i)) \/ DoUp \/ DoPrune
      /\ nops' = nops + 1 /\ UNCHANGED <<T, exph, cur, open, done, first, aux>>
\* CreateProof through the current cursor value (Hold: the newest one): Proof(T, R, prune set of THIS session)
Create == /\ open /\ open' = FALSE
          /\ hist' = Append(hist, Ev("Create", IF Hold THEN Len(hs) - 1 ELSE Top, 0, 0))
          /\ exph' = Append(exph, BytesToHex(ReprHash(InfoTable(IF Exotic THEN ProofI(T, aux.info, 1, ps) ELSE Proof(T, 1, ps))[1])))
          /\ UNCHANGED <<T, hs, stk, ps, nxt, cur, nops, done, first, aux>>
\* the same prover serves another request: a new cursor session starts with an empty prune set
NewCursor == /\ ~open /\ cur < MaxReq /\ open' = TRUE /\ cur' = cur + 1
             /\ hs' = << <<>> >> /\ stk' = <<0>> /\ ps' = {} /\ nxt' = <<1>>
             /\ hist' = Append(hist, CursorEv(cur + 1))
             /\ UNCHANGED <<T, exph, nops, done, first, aux>>
Finish == /\ ~open /\ done' = TRUE /\ UNCHANGED <<T, hs, stk, ps, nxt, hist, exph, cur, open, nops, first, aux>>
Next == ~done /\ (Op \/ Create \/ NewCursor \/ Finish)
Spec == Init /\ [][Next]_vars

TableJson(TT) == [i \in 1..Len(TT) |-> [b |-> BitsToStr(TT[i].b), x |-> TT[i].x, m |-> TT[i].m, r |-> [j \in 1..Len(TT[i].r) |-> TT[i].r[j] - 1]]]
Vector == IF Exotic THEN [t |-> "walk", cells |-> TableJson(T), roots |-> <<0>>, script |-> hist, exphash |-> exph, reqs |-> cur, xtree |-> first[1],
                          bag |-> aux.bag, selfcheck |-> TRUE]           \* (XOK is an assumption)
          ELSE IF first[2] = {} THEN [t |-> "walk", cells |-> TableJson(T), roots |-> <<0>>, script |-> hist, exphash |-> exph, reqs |-> cur]
          \* two-step: the source is handed over as the first proof's bag (written by the specification); orig = the level-0 tree
          ELSE [t |-> "walk", cells |-> TableJson(T), roots |-> <<0>>, script |-> hist, exphash |-> exph, reqs |-> cur,
                orig |-> TableJson(Trees[first[1]]), srcboc |-> BytesToHex(Write(Proof(Trees[first[1]], 1, first[2]), <<1>>, Ch))]
Emit == done => PrintT(<<"VEC", ToJson(Vector)>>)
=============================================================================
