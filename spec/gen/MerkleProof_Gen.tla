--------------------------- MODULE MerkleProof_Gen ---------------------------
(* S->C for C18 (i): TLC explores the cursor state machine of MerkleProof on   *)
(* small trees (<= 6 rows), including DAGs with a shared sub-tree and nodes      *)
(* whose two children are structurally identical (as one row and as two equal    *)
(* rows).  A behaviour is a SEQUENCE of requests served by one prover: Cursor(), *)
(* Ref/Up/Prune, CreateProof, again Cursor() ... (each session starts with an    *)
(* empty prune set).  It is emitted as a script with, per CreateProof, the hash  *)
(* of the proof the specification requires; the Go side replays the script       *)
(* through ONE boc.MerkleProver on three builds of the tree (distinct pointers,   *)
(* shared pointers, parsed from a bag).                                          *)
(* Visits are in depth-first order (Ref(i) only to a position after the ones     *)
(* already visited from this node; no second Prune of a path) unless Free.       *)
EXTENDS MerkleProof, Json
CONSTANTS MaxOps,    \* number of Ref/Up/Prune operations in a behaviour (all requests together)
          MaxReq,    \* number of requests (cursor sessions, each ended by CreateProof) served by ONE prover
          Free       \* TRUE: no depth-first discipline (any enabled operation)

C(b, r) == [b |-> b, x |-> Ordinary, m |-> 0, r |-> r]
A == <<1, 0, 1>>            B == <<0, 1, 1, 0, 1, 0, 0, 1>>     D == <<>>     E == <<1, 1, 1, 1, 1, 1, 1, 1, 0>>
F == <<0>>                  G == [i \in 1..17 |-> i % 2]
Trees == <<
  << C(A, <<>>) >>,                                                             \* 1 single cell
  << C(A, <<2>>), C(B, <<3>>), C(D, <<>>) >>,                                   \* 2 chain
  << C(A, <<2, 3>>), C(B, <<>>), C(E, <<>>) >>,                                 \* 3 two distinct leaves
  << C(A, <<2, 3>>), C(B, <<>>), C(B, <<>>) >>,                                 \* 4 twin leaves as two equal rows
  << C(D, <<2, 3>>), C(A, <<4>>), C(B, <<4>>), C(E, <<>>) >>,                   \* 5 diamond: shared leaf
  << C(A, <<2, 2>>), C(F, <<3>>), C(G, <<>>) >>,                                \* 6 the same row twice, with a child
  << C(D, <<2, 3, 4, 5>>), C(A, <<>>), C(B, <<>>), C(A, <<>>), C(E, <<>>) >>,   \* 7 four children, two equal
  << C(F, <<2, 2>>), C(A, <<3, 4>>), C(B, <<>>), C(E, <<>>) >>,                 \* 8 twin inner nodes (7 occurrences)
  << C(A, <<2, 3>>), C(B, <<3>>), C(E, <<4>>), C(D, <<>>) >>,                   \* 9 shared sub-tree at two depths
  << C(G, <<2, 3, 4>>), C(A, <<5>>), C(B, <<5>>), C(F, <<6>>), C(E, <<>>), C(E, <<>>) >>,  \* 10 six rows: shared + twin rows
  << C(A, <<2, 3>>), C(B, <<4, 5>>), C(B, <<5, 4>>), C(D, <<>>), C(F, <<>>) >>  \* 11 mirrored children (not equal)
>>

VARIABLES s, nxt, hist, exph, cur, open, nops, done
vars == <<s, nxt, hist, exph, cur, open, nops, done>>
\* s: cursor state of the open session; nxt: for every prefix of its path (index Len+1) the smallest reference position
\* still allowed below it; hist: the script (events as the harness replays and records them); exph: for every Create the
\* hash of the proof the specification requires; cur: id of the open session; nops: Ref/Up/Prune operations so far
Ev(k, i) == [k |-> k, c |-> cur, i |-> i]
Init == /\ \E t \in 1..Len(Trees) : s = CInit(Trees[t], 1)
        /\ nxt = <<1>> /\ cur = 1 /\ hist = << [k |-> "Cursor", c |-> 1, i |-> 0] >> /\ exph = <<>>
        /\ open = TRUE /\ nops = 0 /\ done = FALSE
DoRef(i) == /\ RefEnabled(s, i) /\ (Free \/ i >= nxt[Len(nxt)])
            /\ s' = Ref(s, i)
            /\ nxt' = Append([nxt EXCEPT ![Len(nxt)] = i + 1], 1)
            /\ hist' = Append(hist, Ev("Ref", i - 1))
DoUp == /\ UpEnabled(s) /\ s' = Up(s)
        /\ nxt' = SubSeq(nxt, 1, Len(nxt) - 1)
        /\ hist' = Append(hist, Ev("Up", 0))
DoPrune == /\ (Free \/ s.path \notin s.ps)
           /\ s' = Prune(s) /\ nxt' = nxt
           /\ hist' = Append(hist, Ev("Prune", 0))
Op == /\ open /\ nops < MaxOps /\ ((\E i \in 1..4 : DoRef(i)) \/ DoUp \/ DoPrune)
      /\ nops' = nops + 1 /\ UNCHANGED <<exph, cur, open, done>>
\* CreateProof on the open session: the proof is Proof(T, R, prune set of THIS session)
Create == /\ open /\ open' = FALSE
          /\ hist' = Append(hist, Ev("Create", 0))
          /\ exph' = Append(exph, BytesToHex(ReprHash(InfoTable(CreateProof(s))[1])))
          /\ UNCHANGED <<s, nxt, cur, nops, done>>
\* the same prover serves another request: a new cursor session starts with an empty prune set
NewCursor == /\ ~open /\ cur < MaxReq /\ open' = TRUE /\ cur' = cur + 1
             /\ s' = CInit(s.T, 1) /\ nxt' = <<1>>
             /\ hist' = Append(hist, [k |-> "Cursor", c |-> cur + 1, i |-> 0])
             /\ UNCHANGED <<exph, nops, done>>
Finish == /\ ~open /\ done' = TRUE /\ UNCHANGED <<s, nxt, hist, exph, cur, open, nops>>
Next == ~done /\ (Op \/ Create \/ NewCursor \/ Finish)
Spec == Init /\ [][Next]_vars

TableJson(T) == [i \in 1..Len(T) |-> [b |-> BitsToStr(T[i].b), x |-> T[i].x, m |-> T[i].m, r |-> [j \in 1..Len(T[i].r) |-> T[i].r[j] - 1]]]
Vector == [t |-> "walk", cells |-> TableJson(s.T), roots |-> <<0>>, script |-> hist, exphash |-> exph, reqs |-> cur]
Emit == done => PrintT(<<"VEC", ToJson(Vector)>>)
=============================================================================
