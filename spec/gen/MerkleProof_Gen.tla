--------------------------- MODULE MerkleProof_Gen ---------------------------
(* S->C for C18 (i): TLC explores the cursor state machine of MerkleProof on   *)
(* small trees (<= 6 rows), including DAGs with a shared sub-tree and nodes      *)
(* whose two children are structurally identical (as one row and as two equal    *)
(* rows).  A behaviour is a SEQUENCE of requests served by one prover: Cursor(), *)
(* Ref/Up/Prune, CreateProof, again Cursor() ... (each session starts with an    *)
(* empty prune set).  It is emitted as a script with, per CreateProof, the hash  *)
(* of the proof the specification requires; the Go side replays the script       *)
(* through ONE boc.MerkleProver on three builds of the tree (distinct pointers,   *)
(* shared pointers, parsed from a bag).                                          *)
(* Visits are in depth-first order (Ref(i) only to a position after the ones     *)
(* already visited from this node; no second Prune of a path) unless Free.       *)
EXTENDS MerkleProof, Json
CONSTANTS MaxOps,    \* number of Ref/Up/Prune operations in a behaviour (all requests together)
          MaxReq,    \* number of requests (cursor sessions, each ended by CreateProof) served by ONE prover
          Free,      \* TRUE: no depth-first discipline (any enabled operation)
          TwoStep    \* TRUE: the source of the prover is the tree under an earlier proof Proof(tree, A) (a partial view with
                     \* pruned branches, root of level 1); A ranges over the single positions and the pairs of incomparable
                     \* positions of depth <= 2.  The second-step cursor then reaches positions outside A, next to A's pruned
                     \* branches, the pruned branches themselves (pruned again) and positions above them.

C(b, r) == [b |-> b, x |-> Ordinary, m |-> 0, r |-> r]
A == <<1, 0, 1>>            B == <<0, 1, 1, 0, 1, 0, 0, 1>>     D == <<>>     E == <<1, 1, 1, 1, 1, 1, 1, 1, 0>>
F == <<0>>                  G == [i \in 1..17 |-> i % 2]
Trees == <<
  << C(A, <<>>) >>,                                                             \* 1 single cell
  << C(A, <<2>>), C(B, <<3>>), C(D, <<>>) >>,                                   \* 2 chain
  << C(A, <<2, 3>>), C(B, <<>>), C(E, <<>>) >>,                                 \* 3 two distinct leaves
  << C(A, <<2, 3>>), C(B, <<>>), C(B, <<>>) >>,                                 \* 4 twin leaves as two equal rows
  << C(D, <<2, 3>>), C(A, <<4>>), C(B, <<4>>), C(E, <<>>) >>,                   \* 5 diamond: shared leaf
  << C(A, <<2, 2>>), C(F, <<3>>), C(G, <<>>) >>,                                \* 6 the same row twice, with a child
  << C(D, <<2, 3, 4, 5>>), C(A, <<>>), C(B, <<>>), C(A, <<>>), C(E, <<>>) >>,   \* 7 four children, two equal
  << C(F, <<2, 2>>), C(A, <<3, 4>>), C(B, <<>>), C(E, <<>>) >>,                 \* 8 twin inner nodes (7 occurrences)
  << C(A, <<2, 3>>), C(B, <<3>>), C(E, <<4>>), C(D, <<>>) >>,                   \* 9 shared sub-tree at two depths
  << C(G, <<2, 3, 4>>), C(A, <<5>>), C(B, <<5>>), C(F, <<6>>), C(E, <<>>), C(E, <<>>) >>,  \* 10 six rows: shared + twin rows
  << C(A, <<2, 3>>), C(B, <<4, 5>>), C(B, <<5, 4>>), C(D, <<>>), C(F, <<>>) >>  \* 11 mirrored children (not equal)
>>

VARIABLES s, nxt, hist, exph, cur, open, nops, done, first
vars == <<s, nxt, hist, exph, cur, open, nops, done, first>>
\* first: <<index of the original tree, prune set A of the first proof>> (A = {} and the tree itself is the source unless TwoStep)
RECURSIVE PathsBelow(_, _, _, _)
PathsBelow(T, j, p, d) == IF d = 0 THEN {} ELSE UNION {{Append(p, k)} \cup PathsBelow(T, T[j].r[k], Append(p, k), d - 1) : k \in 1..Len(T[j].r)}
FirstSets(T) == LET ps == PathsBelow(T, 1, <<>>, 2) IN
                {{p} : p \in ps} \cup {{pp[1], pp[2]} : pp \in {x \in ps \X ps : x[1] # x[2] /\ ~PathPrefix(x[1], x[2]) /\ ~PathPrefix(x[2], x[1])}}
Source(t, fs) == IF fs = {} THEN Trees[t] ELSE WithMasks(Body(Proof(Trees[t], 1, fs)))
\* s: cursor state of the open session; nxt: for every prefix of its path (index Len+1) the smallest reference position
\* still allowed below it; hist: the script (events as the harness replays and records them); exph: for every Create the
\* hash of the proof the specification requires; cur: id of the open session; nops: Ref/Up/Prune operations so far
Ev(k, i) == [k |-> k, c |-> cur, i |-> i]
Init == /\ \E t \in 1..Len(Trees) : \E fs \in (IF TwoStep THEN FirstSets(Trees[t]) ELSE {{}}) : first = <<t, fs>> /\ s = CInit(Source(t, fs), 1)
        /\ nxt = <<1>> /\ cur = 1 /\ hist = << [k |-> "Cursor", c |-> 1, i |-> 0] >> /\ exph = <<>>
        /\ open = TRUE /\ nops = 0 /\ done = FALSE
DoRef(i) == /\ RefEnabled(s, i) /\ (Free \/ i >= nxt[Len(nxt)])
            /\ s' = Ref(s, i)
            /\ nxt' = Append([nxt EXCEPT ![Len(nxt)] = i + 1], 1)
            /\ hist' = Append(hist, Ev("Ref", i - 1))
DoUp == /\ UpEnabled(s) /\ s' = Up(s)
        /\ nxt' = SubSeq(nxt, 1, Len(nxt) - 1)
        /\ hist' = Append(hist, Ev("Up", 0))
DoPrune == /\ (Free \/ s.path \notin s.ps)
           /\ s' = Prune(s) /\ nxt' = nxt
           /\ hist' = Append(hist, Ev("Prune", 0))
Op == /\ open /\ nops < MaxOps /\ ((\E i \in 1..4 : DoRef(i)) \/ DoUp \/ DoPrune)
      /\ nops' = nops + 1 /\ UNCHANGED <<exph, cur, open, done, first>>
\* CreateProof on the open session: the proof is Proof(T, R, prune set of THIS session)
Create == /\ open /\ open' = FALSE
          /\ hist' = Append(hist, Ev("Create", 0))
          /\ exph' = Append(exph, BytesToHex(ReprHash(InfoTable(CreateProof(s))[1])))
          /\ UNCHANGED <<s, nxt, cur, nops, done, first>>
\* the same prover serves another request: a new cursor session starts with an empty prune set
NewCursor == /\ ~open /\ cur < MaxReq /\ open' = TRUE /\ cur' = cur + 1
             /\ s' = CInit(s.T, 1) /\ nxt' = <<1>>
             /\ hist' = Append(hist, [k |-> "Cursor", c |-> cur + 1, i |-> 0])
             /\ UNCHANGED <<exph, nops, done, first>>
Finish == /\ ~open /\ done' = TRUE /\ UNCHANGED <<s, nxt, hist, exph, cur, open, nops, first>>
Next == ~done /\ (Op \/ Create \/ NewCursor \/ Finish)
Spec == Init /\ [][Next]_vars

TableJson(T) == [i \in 1..Len(T) |-> [b |-> BitsToStr(T[i].b), x |-> T[i].x, m |-> T[i].m, r |-> [j \in 1..Len(T[i].r) |-> T[i].r[j] - 1]]]
Ch == [magic |-> "generic", idx |-> FALSE, crc |-> FALSE, cache |-> FALSE, size |-> 1, ob |-> 2, hashes |-> FALSE]
Vector == IF first[2] = {} THEN [t |-> "walk", cells |-> TableJson(s.T), roots |-> <<0>>, script |-> hist, exphash |-> exph, reqs |-> cur]
          \* two-step: the source is handed over as the first proof's bag (written by the specification); orig = the level-0 tree
          ELSE [t |-> "walk", cells |-> TableJson(s.T), roots |-> <<0>>, script |-> hist, exphash |-> exph, reqs |-> cur,
                orig |-> TableJson(Trees[first[1]]), srcboc |-> BytesToHex(Write(Proof(Trees[first[1]], 1, first[2]), <<1>>, Ch))]
Emit == done => PrintT(<<"VEC", ToJson(Vector)>>)
=============================================================================
