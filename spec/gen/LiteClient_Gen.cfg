\* the check rewrites Calls / NConns / MaxDrops / MaxNoise / DropWhen / weights per plan
CONSTANTS
  Calls = {1, 2, 3}
  NConns = 2
  Unknown = 0
  MaxDrops = 1
  MaxNoise = 2
  MaxSilence = 0
  StrictRst = TRUE
  Depth = 60
  DropWhen = "any"
  WTimeout = 4
  WNoise = 8
  WDrop = 5
SPECIFICATION GenSpec
INVARIANTS Emit
CHECK_DEADLOCK FALSE
