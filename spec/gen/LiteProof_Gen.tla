---------------------------- MODULE LiteProof_Gen ----------------------------
(* S->C for X01: TLC enumerates the case analysis of LiteProof                  *)
(*    call x policy x how the trusted block is supplied x honest answer x single  *)
(*    tampering                                                                   *)
(* and prints one abstract case per row: the clause of LiteProof the tampering    *)
(* violates (reason), what the answer then still holds (value class) and the     *)
(* verdict LiteProof!Decide requires.  The Go harness concretises every row on a  *)
(* synthetic piece of blockchain (or the repository's real blocks), serves it     *)
(* from the scripted lite server and runs the real client call.  Every concrete   *)
(* answer is judged again FROM ITS BYTES by LiteProof_Trace; the runner requires  *)
(* the reason / class derived from the bytes to equal the ones listed here, so a  *)
(* row only counts if the harness really built the tampering it names.            *)
EXTENDS LiteProof, Json
VARIABLE c

Policies == {"unsafe", "fast"}

\* ------------------------------------------------------------------ getAccountState
\* honest answers: account of the masterchain / of workchain 0 asked at the masterchain head (shard proof needed) /
\* of workchain 0 asked at a trusted shard block; present or absent
AcctBases == {"mc_present", "mc_absent", "wc_present", "wc_absent", "sb_present", "sb_absent"}
Present(b) == b \in {"mc_present", "wc_present", "sb_present"}
NeedsShardProof(b) == b \in {"wc_present", "wc_absent"}
Vias(b) == IF b \in {"sb_present", "sb_absent"} THEN {"withblock"} ELSE {"head", "withblock"}

AcctTampers == {
  "none",
  \* ids
  "ans_id_other",              \* a consistent answer about another (older) reference block
  "ans_id_file_hash",          \* the id in the answer differs from the requested one in one bit of file_hash only
  "shardblk_file_hash",        \* shardblk differs from the block the shard configuration names in one bit of file_hash only
  "shardblk_seqno",            \* ... in seqno only
  "wrong_shard",               \* "absent" proved in the sibling shard, which cannot hold the account
  "trusted_id_seqno",          \* the trusted id itself names seqno+1 with the root hash of block seqno
  \* shard proof (id = masterchain block, shardblk = shard block)
  "shard_proof_missing", "shard_proof_trunc", "shard_proof_one_root", "shard_proof_other_mc", "shard_proof_state_mismatch",
  "shard_descr_other", "shard_proof_pruned",
  \* block header -> state
  "header_other_block", "state_update_mismatch", "state_update_pruned", "info_pruned",
  \* state -> account record
  "proof_other_account", "path_pruned", "state_other", "state_modified", "state_empty", "absent_with_state",
  "leaf_lt_stale", "leaf_lt_rehashed",
  "proof_stored_hash",         \* the tree is the right one, the Merkle-proof cell above it stores another hash
  \* containers
  "proof_one_root", "proof_three_roots", "proof_swapped", "proof_not_exotic", "proof_trunc", "proof_garbage", "proof_empty",
  "state_trunc", "state_two_roots"}

Applies(t, b, via) ==
  CASE t \in {"wrong_shard"} -> b = "wc_present"
    [] t = "trusted_id_seqno" -> via = "withblock" /\ ~NeedsShardProof(b)
    [] t \in {"shard_proof_missing", "shard_proof_trunc", "shard_proof_one_root", "shard_proof_other_mc", "shard_proof_state_mismatch",
              "shard_descr_other", "shard_proof_pruned", "shardblk_file_hash", "shardblk_seqno"} -> NeedsShardProof(b)
    [] t \in {"state_other", "state_modified", "state_empty", "leaf_lt_stale", "leaf_lt_rehashed", "state_trunc", "state_two_roots"} -> Present(b)
    [] t = "absent_with_state" -> ~Present(b)
    [] OTHER -> TRUE

AcctReason(t) ==
  CASE t = "none" -> ""
    [] t \in {"ans_id_other", "ans_id_file_hash"} -> "id"
    [] t = "wrong_shard" -> "shard"
    [] t = "trusted_id_seqno" -> "header-id"
    [] t \in {"shard_proof_missing", "shard_proof_trunc"} -> "shardproof:parse"
    [] t = "shard_proof_one_root" -> "shardproof:roots"
    [] t = "shard_proof_other_mc" -> "shardproof:root-hash"
    [] t = "shard_proof_state_mismatch" -> "shardproof:state-hash"
    [] t \in {"shard_descr_other", "shardblk_file_hash", "shardblk_seqno"} -> "shardproof:descr"
    [] t = "shard_proof_pruned" -> "shardproof:pruned"
    [] t = "header_other_block" -> "root-hash"
    [] t = "state_update_mismatch" -> "state-hash"
    [] t = "state_update_pruned" -> "block:state-update"
    [] t = "info_pruned" -> "block:info-pruned"
    [] t \in {"proof_other_account", "path_pruned"} -> "account:pruned"
    [] t \in {"state_other", "state_modified"} -> "account:hash"
    [] t = "state_empty" -> "account:present-but-empty"
    [] t = "absent_with_state" -> "account:absent-but-state"
    [] t \in {"leaf_lt_stale", "proof_stored_hash"} -> "proof:malformed"
    [] t = "leaf_lt_rehashed" -> "state-hash"
    [] t \in {"proof_one_root", "proof_three_roots"} -> "proof:roots"
    [] t = "proof_swapped" -> "root-hash"
    [] t = "proof_not_exotic" -> "not-merkle"
    [] t \in {"proof_trunc", "proof_garbage", "proof_empty"} -> "proof:parse"
    [] t = "state_trunc" -> "state:parse"
    [] t = "state_two_roots" -> "state:roots"

\* what the answer still holds when an account record is served with it
ServedCls(t) ==
  CASE t \in {"proof_other_account", "path_pruned", "absent_with_state", "proof_one_root", "proof_swapped", "proof_trunc", "proof_garbage",
              "proof_empty", "state_trunc", "state_two_roots"} -> "no"
    [] t = "proof_not_exotic" -> "unclear"
    [] OTHER -> "value"
ServedEmpty(b, t) == (~Present(b) /\ t # "absent_with_state") \/ t \in {"state_empty", "wrong_shard"}
AcctCls(b, t) == IF ServedEmpty(b, t) THEN "none" ELSE ServedCls(t)

AcctRows == {[api |-> "acct", policy |-> x[1], via |-> x[3], base |-> x[2], tamper |-> x[4], reason |-> AcctReason(x[4]), cls |-> AcctCls(x[2], x[4]),
              want |-> Decide(x[1], AcctReason(x[4]), AcctCls(x[2], x[4]))] :
             x \in {y \in Policies \X AcctBases \X {"head", "withblock"} \X AcctTampers : y[3] \in Vias(y[2]) /\ Applies(y[4], y[2], y[3])}}

\* ------------------------------------------------------------------ getBlock (the repository's real blocks)
BlockBases == {"real4", "real5"}
BlockTampers == {"none", "want_other_hash", "want_hash_first_bit", "want_hash_last_bit", "data_other_block", "data_trunc", "data_garbage", "data_two_roots"}
BlockRsn(t) == CASE t = "none" -> "" [] t \in {"want_other_hash", "want_hash_first_bit", "want_hash_last_bit", "data_other_block"} -> "block:root-hash"
                 [] t \in {"data_trunc", "data_garbage"} -> "data:parse" [] t = "data_two_roots" -> "data:roots"
BlockCls(t) == IF t \in {"data_trunc", "data_garbage", "data_two_roots"} THEN "no" ELSE "value"
BlockRows == {[api |-> "block", policy |-> x[1], via |-> x[3], base |-> x[2], tamper |-> x[4], reason |-> BlockRsn(x[4]), cls |-> BlockCls(x[4]),
               want |-> Decide(x[1], BlockRsn(x[4]), BlockCls(x[4]))] : x \in Policies \X BlockBases \X {"head", "withblock"} \X BlockTampers}

\* ------------------------------------------------------------------ getBlockHeader / lookupBlock
HeaderBases == {"real4", "real5", "mc", "sb"}
HeaderTampers == {"none", "ans_id_other", "ans_id_file_hash", "proof_other_block", "id_seqno", "info_pruned", "proof_trunc", "proof_garbage", "proof_two_roots",
                  "proof_not_exotic", "proof_stale_hash", "proof_stored_hash"}
HeaderRsn(t) == CASE t = "none" -> "" [] t \in {"ans_id_other", "ans_id_file_hash"} -> "id" [] t = "proof_other_block" -> "root-hash" [] t = "id_seqno" -> "header-id"
                  [] t = "info_pruned" -> "block:info-pruned" [] t \in {"proof_trunc", "proof_garbage"} -> "proof:parse"
                  [] t = "proof_two_roots" -> "proof:roots" [] t = "proof_not_exotic" -> "not-merkle" [] t \in {"proof_stale_hash", "proof_stored_hash"} -> "proof:malformed"
HeaderCls(t) == CASE t \in {"proof_trunc", "proof_garbage", "proof_two_roots"} -> "no" [] t \in {"info_pruned", "proof_not_exotic"} -> "unclear"
                  [] OTHER -> "value"
HeaderRows == {[api |-> x[1], policy |-> x[2], via |-> "head", base |-> x[3], tamper |-> x[4], reason |-> HeaderRsn(x[4]), cls |-> HeaderCls(x[4]),
                want |-> Decide(x[2], HeaderRsn(x[4]), HeaderCls(x[4]))] : x \in {y \in {"header", "lookup"} \X Policies \X HeaderBases \X HeaderTampers :
                                                                                 \* a lookup does not name a file hash
                                                                                 ~(y[1] = "lookup" /\ y[4] = "ans_id_file_hash")}}

\* ------------------------------------------------------------------ getConfigAll
ConfigTampers == {"none", "ans_id_other", "ans_id_file_hash", "state_proof_other", "config_state_mismatch", "config_pruned", "config_trunc", "state_proof_trunc",
                  "state_update_pruned"}
ConfigRsn(t) == CASE t = "none" -> "" [] t \in {"ans_id_other", "ans_id_file_hash"} -> "id" [] t = "state_proof_other" -> "stateproof:root-hash"
                  [] t = "config_state_mismatch" -> "config:state-hash" [] t = "config_pruned" -> "config:pruned" [] t = "config_trunc" -> "config:parse"
                  [] t = "state_proof_trunc" -> "stateproof:parse" [] t = "state_update_pruned" -> "stateproof:block:state-update"
ConfigCls(t) == CASE t = "config_trunc" -> "no" [] t = "config_pruned" -> "unclear" [] OTHER -> "value"
ConfigRows == {[api |-> "config", policy |-> x[1], via |-> x[2], base |-> "mc", tamper |-> x[3], reason |-> ConfigRsn(x[3]), cls |-> ConfigCls(x[3]),
                want |-> Decide(x[1], ConfigRsn(x[3]), ConfigCls(x[3]))] : x \in Policies \X {"head", "withblock"} \X ConfigTampers}

Rows == AcctRows \cup BlockRows \cup HeaderRows \cup ConfigRows

Init == c \in {<<"todo", r>> : r \in Rows}
Next == /\ c[1] = "todo"
        /\ c' = <<"done", c[2]>>
        /\ PrintT(<<"VEC", ToJson(c[2])>>)
Spec == Init /\ [][Next]_c
=============================================================================
