CONSTANTS
  Types = {}
  MaxSet = 4
  MaxAbsent = 2
SPECIFICATION Spec
CHECK_DEADLOCK FALSE
