CONSTANTS
  Types = {}
  MaxSet = 4
  MaxAbsent = 2
  TwoStep = FALSE
SPECIFICATION Spec
CHECK_DEADLOCK FALSE
