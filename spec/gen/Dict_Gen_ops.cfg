CONSTANTS
  Types <- TypesQuickF
  MaxSet = 3
SPECIFICATION Spec
INVARIANT Emit
CHECK_DEADLOCK FALSE
