---------------------------- MODULE PoolOrder_Gen ----------------------------
(* S->C: every arrival order of every non-empty subset of the configured       *)
(* servers.  After each arrival the pool's list must be in configuration       *)
(* order (PoolOrder!AddConn); on the final pool - every connection alive,     *)
(* same head, round-trip time falling with the index - a first-working         *)
(* refresh must choose the lowest configured index and a best-ping refresh     *)
(* the highest (PoolSelect!Choices evaluated on the list in configuration      *)
(* order).  The first arrival is the initial best connection.                  *)
EXTENDS PoolOrder, Json, TLC
CONSTANTS Servers            \* configuration indices
VARIABLES arrived, order
ovars == <<arrived, order>>

Init == arrived = <<>> /\ order = <<>>
Next == \E id \in Servers \ {arrived[i].id : i \in DOMAIN arrived} :
          /\ arrived' = Append(arrived, [id |-> id, order |-> AddConn(order, id)])
          /\ order' = AddConn(order, id)
Spec == Init /\ [][Next]_ovars

\* the final pool as PoolSelect sees it: position j of the list holds connection order[j]
Uniform == [j \in DOMAIN order |-> [alive |-> TRUE, seqno |-> 1, rtt |-> 10 - order[j]]]
Pick(st) == LET c == Choices(st, Uniform, 0) IN {order[j] : j \in c}
RECURSIVE SetToSeq(_)
SetToSeq(S) == IF S = {} THEN <<>> ELSE LET x == CHOOSE y \in S : \A z \in S : y <= z IN <<x>> \o SetToSeq(S \ {x})
Vec == [arrivals |-> arrived, first |-> arrived[1].id,
        fw |-> SetToSeq(Pick("first-working")), bp |-> SetToSeq(Pick("best-ping"))]
Emit == Len(arrived) >= 1 => PrintT(<<"VEC", ToJson(Vec)>>)
\* the specification's own sanity: the list is strictly ascending and holds exactly the arrived indices
Sane == /\ \A i, j \in DOMAIN order : i < j => order[i] < order[j]
        /\ {order[i] : i \in DOMAIN order} = {arrived[i].id : i \in DOMAIN arrived}
=============================================================================
