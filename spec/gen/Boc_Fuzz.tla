------------------------------- MODULE Boc_Fuzz -------------------------------
(* S->C for C07: starting from small conforming bags written by the reference  *)
(* writer, TLC produces every truncation and a set of single-byte substitutions *)
(* at every position, and labels each mutant with the first guard of Boc!Parse  *)
(* it fails (or "accepted").  The labels measure which guards of the case       *)
(* analysis were exercised; the real parser must survive every mutant.          *)
EXTENDS Boc, Json
CONSTANT ManyVals       \* FALSE: 5 substitution values per byte; TRUE: 20

Cl(b, x, r) == [b |-> b, x |-> x, r |-> r, m |-> -1]
PrunedBits == BytesToBits(<<1, 1>> \o [i \in 1..32 |-> 7] \o <<0, 3>>)
Tables == {
  WithMasks(<<Cl(<<1,0,1>>, 0, <<>>)>>),
  WithMasks(<<Cl(<<1,0,1,1,0,0,1,0>>, 0, <<2, 2>>), Cl(<<>>, 0, <<>>)>>),
  WithMasks(<<Cl(<<1>>, 0, <<2, 3>>), Cl(<<0,0,0,0,0,0,0,1,1>>, 0, <<3>>), Cl(StrToBits("1111111100000000"), 0, <<>>)>>),
  WithMasks(<<Cl(<<>>, 0, <<2>>), Cl(PrunedBits, 1, <<>>)>>) }
HdrChoices == {[magic |-> "generic", idx |-> i, crc |-> c, cache |-> ca, size |-> 1, ob |-> 1, hashes |-> h] :
               i \in BOOLEAN, c \in BOOLEAN, ca \in {FALSE}, h \in BOOLEAN}
           \cup {[magic |-> "generic", idx |-> TRUE, crc |-> FALSE, cache |-> TRUE, size |-> 2, ob |-> 2, hashes |-> FALSE],
                 [magic |-> "idxcrc", idx |-> TRUE, crc |-> TRUE, cache |-> FALSE, size |-> 1, ob |-> 1, hashes |-> FALSE]}
Bases == {Write(T, <<1>>, ch) : T \in Tables, ch \in HdrChoices}
Vals(b) == IF ManyVals THEN {0, 1, 2, 3, 4, 5, 7, 8, 9, 16, 17, 32, 40, 64, 127, 128, 129, 254, 255, (b + 1) % 256} \ {b}
           ELSE {0, 255, (b + 1) % 256, (b + 128) % 256, 8} \ {b}

VARIABLES base, pos, val, out
\* val = -1: truncate to pos - 1 bytes; otherwise substitute
Mutant == IF val = -1 THEN SubSeq(base, 1, pos - 1) ELSE [base EXCEPT ![pos] = val]
Label(B) == LET P == Parse(B) IN IF P.ok THEN "accepted" ELSE P.err
Init == /\ base \in Bases /\ pos \in 1..Len(base) /\ val \in {-1} \cup Vals(base[pos]) /\ out = "todo"
Next == /\ out = "todo" /\ out' = "done" /\ UNCHANGED <<base, pos, val>>
        /\ PrintT(<<"VEC", ToJson([boc |-> BytesToHex(Mutant), guard |-> Label(Mutant), pos |-> pos, val |-> val])>>)
Spec == Init /\ [][Next]_<<base, pos, val, out>>
=============================================================================
