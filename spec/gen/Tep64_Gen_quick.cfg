SPECIFICATION Spec
CONSTANT Tier = "quick"
CHECK_DEADLOCK FALSE
