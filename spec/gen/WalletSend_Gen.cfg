SPECIFICATION Spec
INVARIANTS Emit NoBad Clauses Ordered
CHECK_DEADLOCK FALSE
