--------------------------- MODULE LiteClient_Gen ---------------------------
(* S->C: behaviours of LiteClient (TLC -simulate) written out as scripts for the  *)
(* scripted lite server: the projection of a behaviour onto the SERVER's actions *)
(* (which queries it has read, which it answers in which order, duplicates,       *)
(* unknown ids, pongs, other packets, closes: mid-request / idle / during the     *)
(* handshake of a reconnect) plus "late i" where a caller's timeout precedes the  *)
(* next server action (the server holds its answer back beyond the deadline).     *)
(* The client's own steps are not part of a script: the real client takes them    *)
(* under the Go scheduler, and the recorded execution goes back to TLC            *)
(* (LiteClient_Trace).                                                            *)
(*                                                                                *)
(* A link is addressed the way the server can: "of" = a call whose query is       *)
(* pending on it (0: none), else "k" = the connection number.                     *)
(* DropWhen restricts SrvDrop: "mid" (a query is pending on the link), "idle"     *)
(* (none is), "hs" (one close only, further closes hit the handshake of the      *)
(* reconnect), "any".  A behaviour is complete when every call has returned and    *)
(* every connection is back on an open socket; the script is emitted there (or    *)
(* at Depth).  One random class of step per state (a uniform choice would drown   *)
(* the protocol in timeouts).                                                     *)
EXTENDS LiteClient, Json
CONSTANTS Depth, DropWhen, WTimeout, WNoise, WDrop
VARIABLES hist
gvars == <<vars, hist>>

Busy(k, g)   == L(k, g).out \cup L(k, g).pend
OfLink(k, g) == IF Busy(k, g) = {} THEN 0 ELSE CHOOSE i \in Busy(k, g) : \A j \in Busy(k, g) : i <= j
Step(a, i, k, of) == hist' = Append(hist, [a |-> a, i |-> i, k |-> k, of |-> of])
Quiet == UNCHANGED hist

Complete == AllDone /\ \A k \in Conns : status[k] = "Connected" /\ Cur(k).fin = "open" /\ rcq[k] = 0 /\ ~Dialing(k)
                                        /\ clr[k].st = "idle"

GClient ==
  \/ \E c \in Calls : /\ \/ Register(c) \/ (\E k \in Conns : PickConn(c, k)) \/ SendNotConnected(c) \/ SendOk(c)
                         \/ SendFail(c) \/ CallerRecv(c) \/ Unregister(c)
                      /\ Quiet
  \/ \E k \in Conns : /\ \/ ClientReaderLookup(k) \/ ClientReaderDeliver(k) \/ RcBegin(k) \/ DialOk(k) \/ SetupDone(k)
                         \/ \E g \in Gens(k) : ConnReaderRecv(k, g) \/ PktExit(k, g) \/ ConnReaderEOF(k, g) \/ PktStuck(k, g)
                                               \/ HandOff(k, g) \/ ReaderRcBegin(k, g)
                      /\ Quiet
GPing    == \E k \in Conns : PingTick(k) /\ Quiet
GTimeout == \E c \in Calls : CallerTimeout(c) /\ Step("late", c, 0, 0)
GServe   == \E k \in Conns : \E g \in Gens(k) : \E i \in Calls :
              \/ SrvRecv(k, g, i) /\ Step("recv", i, k, 0)
              \/ SrvAnswer(k, g, i, i) /\ Step("ans", i, k, 0)
GNoise   == \E k \in Conns : \E g \in Gens(k) :
              \/ \E i \in Calls : SrvDup(k, g, i, i) /\ Step("dup", i, k, OfLink(k, g))
              \/ SrvUnknown(k, g, Unknown) /\ Step("unk", 0, k, OfLink(k, g))
              \/ SrvPong(k, g) /\ Step("pong", 0, k, OfLink(k, g))
              \/ SrvOther(k, g, Unknown) /\ Step("other", 0, k, OfLink(k, g))
DropOK(k, g) == CASE DropWhen = "mid" -> Busy(k, g) # {}
                  [] DropWhen = "idle" -> Busy(k, g) = {}
                  [] DropWhen = "hs" -> drops = 0             \* one close; the rest of the budget goes to handshakes
                  [] OTHER -> TRUE
GDrop    == \/ \E k \in Conns : \E g \in Gens(k) : DropOK(k, g) /\ SrvDrop(k, g) /\ Step("drop", 0, k, OfLink(k, g))
            \/ \E k \in Conns : DialFail(k) /\ Step("hsdrop", 0, k, 0)
GSilence == \E k \in Conns : \E g \in Gens(k) : ConnReaderSilence(k, g) /\ Step("silence", 0, k, 0)

Kind(r) == IF r <= WTimeout THEN GTimeout
           ELSE IF r <= WTimeout + WNoise THEN GNoise
           ELSE IF r <= WTimeout + WNoise + WDrop THEN GDrop
           ELSE IF r <= WTimeout + WNoise + WDrop + 3 THEN GPing
           ELSE IF r <= 60 THEN GServe
           ELSE GClient
AnyStep == GClient \/ GServe \/ GNoise \/ GDrop \/ GPing \/ GSilence \/ GTimeout
SimStep == \E r \in {RandomElement(1..100)} :
             IF ENABLED Kind(r) THEN Kind(r)
             ELSE IF ENABLED GClient THEN GClient
             ELSE IF ENABLED GServe THEN GServe
             ELSE AnyStep
GenNext == ~Complete /\ Len(hist) < Depth /\ SimStep
GenInit == Init /\ hist = <<>>
GenSpec == GenInit /\ [][GenNext]_gvars

Emit == (Complete \/ Len(hist) = Depth) =>
          PrintT(<<"VEC", ToJson([ncalls |-> Cardinality(Calls), nconns |-> NConns, complete |-> Complete, steps |-> hist])>>)
=============================================================================
