------------------------------ MODULE Bits_Gen ------------------------------
(* S->C: behaviours of Bits over a finite operation alphabet, written out as  *)
(* JSON vectors (operation, arguments, required observation after the step).  *)
(* BFS with small constants enumerates every behaviour of length Depth;       *)
(* -simulate with Cap = 1023 samples long behaviours at the real sizes.        *)
EXTENDS Bits, Json, TLC
CONSTANTS Cap, Depth, Widths, BigWidths
VARIABLES hist, done
gvars == <<s, r, cap, nrefs, rr, hist, done>>

Alt(w)  == [i \in 1..w |-> i % 2]
Pats(w) == IF w = 0 THEN {<<>>} ELSE {Zeros(w), Ones(w), <<1>> \o Zeros(w - 1), Zeros(w - 1) \o <<1>>, Alt(w)}

WriteOps ==
       {[k |-> "WriteBit", b |-> b] : b \in {0, 1}}
  \cup {[k |-> "WriteUint", w |-> w, v |-> BitsToDec(p)] : w \in Widths, p \in UNION {Pats(x) : x \in Widths}} 
  \cup {[k |-> "WriteUnary", n |-> n] : n \in {0, 1, 5}}
WriteOpsOK == {o \in WriteOps : o.k = "WriteUint" => UFits(o.v, o.w)}
SignedOps  == UNION {{[k |-> "WriteInt", w |-> w, v |-> SDec(p)] : p \in Pats(w)} : w \in Widths \ {0}}
BigOps     == UNION {{[k |-> "WriteBigUint", w |-> w, v |-> BitsToDec(p)] : p \in Pats(w)} : w \in BigWidths}
         \cup UNION {{[k |-> "WriteBigInt", w |-> w, v |-> SDec(p)] : p \in Pats(w)} : w \in BigWidths}
ReadOps ==
       {[k |-> "ReadBit"], [k |-> "ReadUnary"], [k |-> "ResetCounter"]}
  \cup {[k |-> kk, w |-> w] : kk \in {"ReadUint", "PickUint"}, w \in Widths}
  \cup {[k |-> "ReadInt", w |-> w] : w \in Widths \ {0}}
  \cup {[k |-> "ReadBigUint", w |-> w] : w \in BigWidths}
  \cup {[k |-> kk, n |-> n] : kk \in {"ReadBits", "Skip"}, n \in {0, 1, 3, 8, 9}}
Ops == WriteOpsOK \cup SignedOps \cup BigOps \cup ReadOps

BitsOf(o) == CASE o.k = "WriteBit" -> <<o.b>>
               [] o.k \in {"WriteUint", "WriteBigUint"} -> UBits(o.v, o.w)
               [] o.k \in {"WriteInt", "WriteBigInt"} -> SBits(o.v, o.w)
               [] o.k = "WriteUnary" -> UnaryBits(o.n)
IsWrite(o) == o.k \in {"WriteBit", "WriteUint", "WriteBigUint", "WriteInt", "WriteBigInt", "WriteUnary"}
WidthOf(o) == CASE o.k = "ReadBit" -> 1
                [] o.k \in {"ReadUint", "PickUint", "ReadInt", "ReadBigUint"} -> o.w
                [] o.k \in {"ReadBits", "Skip"} -> o.n

Obs(o, ok, out) == o @@ [ok |-> ok, bin |-> BitsToStr(s'), avail |-> Len(s') - r', out |-> out]

Do(o) ==
  IF IsWrite(o) THEN
    LET fits == Len(s) + Len(BitsOf(o)) <= cap IN
      /\ Write(BitsOf(o), fits)
      /\ s' = (IF fits THEN s \o BitsOf(o) ELSE s \o SubSeq(BitsOf(o), 1, cap - Len(s)))  \* on failure: longest prefix; the vector ends
      /\ done' = ~fits
      /\ hist' = Append(hist, Obs(o, fits, ""))
  ELSE IF o.k = "ResetCounter" THEN
      ResetCounter /\ done' = FALSE /\ hist' = Append(hist, Obs(o, TRUE, ""))
  ELSE IF o.k = "ReadUnary" THEN
      LET ok == LeadOnes(s, r + 1) >= 0 IN
      /\ ReadUnaryAct(ok) /\ (~ok => r' = Len(s))
      /\ done' = FALSE
      /\ hist' = Append(hist, Obs(o, ok, IF ok THEN ToString(ReadUnaryOut) ELSE ""))
  ELSE
      LET w == WidthOf(o)  ok == w <= Avail IN
      /\ Read(w, IF o.k = "PickUint" THEN 0 ELSE w, ok)
      /\ done' = FALSE
      /\ hist' = Append(hist, Obs(o, ok, IF ok /\ o.k # "Skip" THEN BitsToStr(Window(w)) ELSE ""))

Init == s = <<>> /\ r = 0 /\ cap = Cap /\ nrefs = 0 /\ rr = 0 /\ hist = <<>> /\ done = FALSE
Next == ~done /\ Len(hist) < Depth /\ \E o \in Ops : Do(o)
Spec == Init /\ [][Next]_gvars
\* simulation: one random operation per step (TLC would otherwise build all |Ops| successors)
SimNext == ~done /\ Len(hist) < Depth /\ Do(RandomElement(Ops))
SimSpec == Init /\ [][SimNext]_gvars

Emit == (done \/ Len(hist) = Depth) => PrintT(<<"VEC", ToJson(hist)>>)
\* the model's own sanity: s only grows, cursor stays inside
AppendOnly == [][IsPrefix(s, s')]_gvars
=============================================================================
