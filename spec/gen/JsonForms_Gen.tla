--------------------------- MODULE JsonForms_Gen ---------------------------
(* S->C: TLC enumerates the value-class partition of JsonForms into concrete   *)
(* test values (one transition Pick(ty, v) of the abstract machine per vector) *)
(* and the nearest documents outside each simple type's domain.  Each vector   *)
(* is printed as JSON; the Go harness builds the value, marshals, unmarshals   *)
(* and records the run, which JsonForms_Trace then judges.                     *)
EXTENDS JsonForms, Json
VARIABLE vec
gvars == <<m, tgt, vec>>

RTVec(ty, c) == [k |-> "RT", ty |-> ty, cls |-> c.cls, val |-> c.v, mut |-> (IF c.cls \in MutBaseCls(ty) THEN 1 ELSE 0)]
                @@ (IF "canon" \in DOMAIN c THEN [canon |-> c.canon] ELSE <<>>)
Vectors ==
       UNION { { RTVec(ty, c) : c \in Classes(ty) } : ty \in AllTypes }
  \cup UNION { { [k |-> "Dec", ty |-> ty, cls |-> o.cls, doc |-> BytesToHex(o.doc)] : o \in OutsideDocs(ty) } : ty \in AllTypes }
  \* value A, then value B of another class, decoded into ONE reused target (JsonForms section 4b)
  \cup UNION { { [k |-> "Seq", ty |-> ty, cls |-> StrCat(p[1].cls, StrCat(" -> ", p[2].cls)), vals |-> <<p[1].v, p[2].v>>]
                 : p \in SeqPairs(ty) } : ty \in AllTypes }

None == [k |-> "none"]
Init == m = M0 /\ tgt = FreshTarget /\ vec = None
Next == /\ vec = None /\ m.phase = "idle"
        /\ UNCHANGED tgt
        /\ \E v \in Vectors : /\ vec' = v
                              /\ IF v.k = "RT" THEN Pick(v.ty, v.val) ELSE UNCHANGED m
Spec == Init /\ [][Next]_gvars

Emit == vec # None => PrintT(<<"VEC", ToJson(vec)>>)
\* every type has mutation bases among its classes
ASSUME \A ty \in AllTypes : MutBaseCls(ty) \subseteq { c.cls : c \in Classes(ty) }
\* model-level leads (never verdicts): address values that share one canonical spelling
ASSUME \A p \in AddrCollisions : PrintT(<<"LEAD", StrCat("same-text ", StrCat(AddrCls(p[1]), StrCat(" ", AddrCls(p[2]))))>>)

\* the partition's own sanity: every enumerated value is in the domain of its type, every "outside"
\* document denotes something that is not (checked for the types whose abstract value is in the vector)
Scalar(ty) == ty.t \in IntFamilies \cup ByteFamilies \cup {"bitstring", "addr", "account"}
Sane == /\ (vec # None /\ vec.k = "RT" /\ Scalar(vec.ty)) => InDomain(vec.ty, vec.val)
        /\ (vec # None /\ vec.k = "Dec" /\ vec.ty.t \in DecFamilies) =>
              LET d == HexToBytes(vec.doc) IN IsIntDoc(d) /\ WF(d) /\ ~IntInDomain(vec.ty, IntOfDoc(d))
        /\ (vec # None /\ vec.k = "Dec" /\ vec.ty.t \in ByteFamilies) =>
              LET d == HexToBytes(vec.doc) IN IsHexDoc(d) /\ WF(d) /\ StrLen(HexOfDoc(d)) # 2 * NBytes(vec.ty)

\* known-answer tests of the recogniser (RFC 8259 examples and the usual near misses)
Y(s) == WF(StrToCodes(s))
ASSUME /\ Y("{}") /\ Y("[]") /\ Y("0") /\ Y("-0") /\ Y("-0.5e+10") /\ Y("1E5") /\ Y(" [1, 2 ,3]\n") /\ Y("\"\"")
       /\ Y("\"a\\n\\u00e9\\\"\\\\\\/\"") /\ Y("{\"a\":{\"b\":[true,false,null,{}]},\"c\":\"d\"}") /\ Y("null") /\ Y("\t12 ")
       /\ Y("{\"Image\":{\"Width\":800,\"Thumbnail\":{\"Url\":\"http://x/y\",\"Height\":125},\"IDs\":[116,943,234,38793]}}")
ASSUME /\ ~Y("") /\ ~Y(" ") /\ ~Y("{") /\ ~Y("}") /\ ~Y("[1,]") /\ ~Y("[,1]") /\ ~Y("{\"a\"}") /\ ~Y("{\"a\":}") /\ ~Y("{a:1}")
       /\ ~Y("01") /\ ~Y("-") /\ ~Y("1.") /\ ~Y(".5") /\ ~Y("1e") /\ ~Y("1e+") /\ ~Y("+1") /\ ~Y("0x10") /\ ~Y("\"abc") /\ ~Y("\"\\x\"")
       /\ ~Y("\"\\u12g4\"") /\ ~Y("\"a\nb\"") /\ ~Y("tru") /\ ~Y("nul") /\ ~Y("truee") /\ ~Y("1 2") /\ ~Y("[1 2]") /\ ~Y("{\"a\":1,}")
       /\ ~Y("[1]]") /\ ~Y("{\"a\":1}}") /\ ~Y("'a'") /\ ~Y("\"a\" \"b\"") /\ ~Y("[\"a\":1]") /\ ~Y("{\"a\",1}")
=============================================================================
