CONSTANTS
  Rnd = 1
SPECIFICATION KSpec
CHECK_DEADLOCK FALSE
