---------------------------- MODULE TlShape_Gen ----------------------------
(* S->C for the TL half of C09 (programs x inputs): TLC enumerates schema      *)
(* *shapes* and, for each, values with the bytes TlSem requires.  The runner    *)
(* renders every schema to .tl text, runs tongo's tl/parser on it, compiles the *)
(* output and executes MarshalTL / UnmarshalTL / the request methods on the     *)
(* vectors.                                                                      *)
(* A shape is a sequence of field kinds drawn from Alphabet:                     *)
(*   plain   int long int256 bytes string Bool #  t.inner (bare record)          *)
(*           t.Sum (boxed sum, 2..5 constructors)  (vector T) for builtin and    *)
(*           declared T, (vector (vector int))                                   *)
(*   flagged mode.N?T for N in {0,1,7,15,31}, T builtin / true / declared /      *)
(*           vector; `mode:#` is inserted before the first flagged field         *)
(* Shape n < |Alphabet| is the single-field shape of kind n+1 (every kind is     *)
(* covered); larger n are sequences of 2..4 kinds drawn from CRC32(Seed, n).     *)
(* Schema of a shape:  liteServer.error (the generator needs it), t.inner,       *)
(* t.alt1..k = t.Sum, t.main <shape> = t.Main, t.u1..j <rotations of the shape>  *)
(* (conditional fields only in every 4th schema, else the plain kinds) = t.Union, *)
(* functions t.call <shape> = t.Main, t.callu x:int = t.Union,                   *)
(* t.calls = t.Sum.  Constructor ids are TlSem!ConstructorId of the text.        *)
(*                                                                               *)
(* Family F (shape numbers FBase + i): a conditional field of a type held in a   *)
(* slice -- mode.N?bytes, mode.N?string, mode.N?(vector int), mode.N?(vector     *)
(* t.inner) -- with a field after it (first, and in the middle).  In every 4th   *)
(* vector whose flag bit is set the field's value is EMPTY: the schema then      *)
(* still requires the field on the wire (four zero bytes).  Such a vector also   *)
(* carries `wrong`: the bytes with the empty field left out, which TlSem!Dec     *)
(* must not read back as the value (checked here; fed to the judges as canary).  *)
(* The driver marshals every value twice, empty slices as nil and as non-nil.    *)
(*                                                                               *)
(* Family L (shape numbers LBase + i): a vector longer than what a decoder may   *)
(* want to allocate up front -- lengths on both sides of 64 KiB / (element size  *)
(* in memory + 1) for int, long, int256, t.inner, Bool, bytes elements -- with a *)
(* field after it, and as the last field.  Vectors: t.main with the two lengths, *)
(* and t.call whose answer carries the longer one.                               *)
(*                                                                               *)
(* Family I (shape numbers IBase + i): the constructors of the two multi-        *)
(* constructor types are declared NON-contiguously -- t.alt1 t.alt2 t.u1 t.u2    *)
(* t.alt3 t.u3 [t.alt4] -- which TL allows (a type is the set of constructors    *)
(* with that result, wherever they stand).  Vectors take every constructor of    *)
(* both types, alone (Enc) and as the answer of a request (Call).                *)
(*                                                                               *)
(* Family B (shape numbers BBase + i): a Bool first, last, and as vector         *)
(* element.  Besides the usual vectors, each schema gets REFUSAL vectors (op     *)
(* Rej): the bytes of a value of t.main with the word at the Bool position       *)
(* replaced by a word that is neither boolTrue nor boolFalse (zero, the two ids  *)
(* byte-swapped, all ones, boolTrue + 1, 1).  TlSem!Dec refuses them (checked    *)
(* here); the generated UnmarshalTL must refuse them too.                        *)
EXTENDS TlGen
CONSTANTS Seed, Ns, PerSchema       \* Ns: the set of shape numbers this run emits

VARIABLE k

V(t)  == [vector |-> t]
Plain == <<"int", "long", "int256", "bytes", "string", "Bool", "#", "t.inner", "t.Sum",
           V("int"), V("long"), V("int256"), V("bytes"), V("string"), V("Bool"), V("t.inner"), V("t.Sum"), V(V("int"))>>
FlagTys == <<"int", "long", "int256", "bytes", "string", "Bool", "true", "t.inner", "t.Sum", V("int"), V("t.inner")>>
FlagBits == <<0, 1, 7, 15, 31>>
Alphabet == [i \in 1..Len(Plain) |-> [ty |-> Plain[i], bit |-> -1]]
         \o [i \in 1..(Len(FlagTys) * Len(FlagBits)) |->
               [ty |-> FlagTys[((i - 1) \div Len(FlagBits)) + 1], bit |-> FlagBits[((i - 1) % Len(FlagBits)) + 1]]]
NA == Len(Alphabet)

P(ty) == [ty |-> ty, bit |-> -1]
\* ---- family F: i = type * 2 + position
FBase  == 9000000
FTys   == <<"bytes", "string", V("int"), V("t.inner")>>
FCount == 2 * Len(FTys)
IsF(n) == n >= FBase /\ n < FBase + FCount
FTy(i) == FTys[(i \div 2) + 1]
FShape(i) == IF i % 2 = 0 THEN <<[ty |-> FTy(i), bit |-> 0], P("int")>>
             ELSE <<P("long"), [ty |-> FTy(i), bit |-> 31], P("int")>>
FField(i) == IF i % 2 = 0 THEN "f1" ELSE "f2"
\* ---- family L: i = element type * 2 + position
LBase  == 9100000
LTys   == <<"int", "long", "int256", "t.inner", "Bool", "bytes">>
LLim   == <<13107, 7281, 1985, 1985, 32768, 2621>>       \* 65536 \div (element size in memory + 1)
LCount == 2 * Len(LTys)
IsL(n) == n >= LBase /\ n < LBase + LCount
LShape(i) == IF i % 2 = 0 THEN <<P(V(LTys[(i \div 2) + 1])), P("int")>> ELSE <<P("long"), P(V(LTys[(i \div 2) + 1]))>>
LField(i) == IF i % 2 = 0 THEN "f1" ELSE "f2"

\* ---- family I
IBase  == 9200000
ISh    == << <<P("int"), P("bytes")>>, <<P(V("int")), P("long")>> >>
ICount == 4
IsI(n) == n >= IBase /\ n < IBase + ICount
IShape(i) == ISh[(i \div 2) + 1]

\* ---- family B
BBase  == 9300000
BSh    == << <<P("Bool"), P("int")>>, <<P("long"), P("Bool")>>, <<P(V("Bool")), P("int")>> >>
BCount == Len(BSh)
IsB(n) == n >= BBase /\ n < BBase + BCount
BField(i) == IF i = 1 THEN "f2" ELSE "f1"
BadWords == <<<<0, 0, 0, 0>>, Rev(BoolTrue), Rev(BoolFalse), <<255, 255, 255, 255>>, <<BoolTrue[1] + 1, BoolTrue[2], BoolTrue[3], BoolTrue[4]>>, <<1, 0, 0, 0>>>>

Shape(n) == IF n < NA THEN <<Alphabet[n + 1]>>
            ELSE IF IsI(n) THEN IShape(n - IBase)
            ELSE IF IsB(n) THEN BSh[n - BBase + 1]
            ELSE IF IsF(n) THEN FShape(n - FBase)
            ELSE IF IsL(n) THEN LShape(n - LBase)
            ELSE LET ctx == B4(Seed) \o B4(n) \o <<77>>
                     len == 2 + Pick(ctx, 3)
                 IN [i \in 1..len |-> Alphabet[Pick(ctx \o <<i>>, NA) + 1]]

\* label of a kind, for the runner's violation keys
RECURSIVE TyLabel(_)
TyLabel(ty) == IF IsVec(ty) THEN CatAll(<<"vector<", TyLabel(ty.vector), ">">>) ELSE ty
KindLabel(kd) == IF kd.bit < 0 THEN TyLabel(kd.ty) ELSE CatAll(<<"mode.", ToString(kd.bit), "?", TyLabel(kd.ty)>>)

\* fields of a shape: f1, f2, ...; `mode:#` right before the first flagged field
RECURSIVE FieldsFrom(_, _, _)
FieldsFrom(sh, i, haveMode) ==
  IF i > Len(sh) THEN <<>>
  ELSE LET kd == sh[i]
           nm == CatAll(<<"f", ToString(i)>>)
           f  == IF kd.bit < 0 THEN [name |-> nm, ty |-> kd.ty]
                 ELSE [name |-> nm, ty |-> kd.ty, flag |-> [field |-> "mode", bit |-> kd.bit]]
       IN (IF kd.bit >= 0 /\ ~haveMode THEN <<[name |-> "mode", ty |-> "#"]>> ELSE <<>>)
          \o <<f>> \o FieldsFrom(sh, i + 1, haveMode \/ kd.bit >= 0)
Fields(sh) == FieldsFrom(sh, 1, FALSE)
Rot(sh, r) == [i \in 1..Len(sh) |-> sh[((i - 1 + r) % Len(sh)) + 1]]
\* the constructors of t.Union carry the shape's conditional fields only in every 4th schema (UnionFlags), so that
\* "conditional field inside a multi-constructor type" is a shape class of its own; otherwise its plain kinds only
UnionFlags(n) == n % 4 = 3
RECURSIVE PlainOnly(_)
PlainOnly(sh) == IF Len(sh) = 0 THEN <<>> ELSE (IF sh[1].bit < 0 THEN <<sh[1]>> ELSE <<>>) \o PlainOnly(Tail(sh))
UnionShape(n, sh) == IF UnionFlags(n) THEN sh
                     ELSE IF Len(PlainOnly(sh)) = 0 THEN <<[ty |-> "int", bit |-> -1]>> ELSE PlainOnly(sh)
HasFlagged(sh) == \E i \in 1..Len(sh) : sh[i].bit >= 0

D(c, res, fs) == LET d == [ctor |-> c, id |-> "", result |-> res, fields |-> fs] IN [d EXCEPT !.id = ConstructorId(d)]
AltFields(i) == CASE i = 1 -> <<>>
                  [] i = 2 -> <<[name |-> "x", ty |-> "int"]>>
                  [] i = 3 -> <<[name |-> "y", ty |-> "bytes"], [name |-> "z", ty |-> "long"]>>
                  [] i = 4 -> <<[name |-> "w", ty |-> V("int")]>>
                  [] OTHER -> <<[name |-> "h", ty |-> "int256"], [name |-> "b", ty |-> "Bool"]>>
ISchema(i) ==
  LET sh == IShape(i)
      ka == 3 + (i % 2)
      alt(j) == D(CatAll(<<"t.alt", ToString(j)>>), "t.Sum", AltFields(j))
      u(j)   == D(CatAll(<<"t.u", ToString(j)>>), "t.Union", Fields(Rot(<<P("int"), P("bytes")>>, j - 1)))
  IN [types |->
           <<D("liteServer.error", "liteServer.Error", <<[name |-> "code", ty |-> "int"], [name |-> "message", ty |-> "string"]>>),
             D("t.inner", "t.Inner", <<[name |-> "a", ty |-> "int"], [name |-> "b", ty |-> "bytes"]>>),
             alt(1), alt(2), u(1), u(2), alt(3), u(3)>>
        \o (IF ka = 4 THEN <<alt(4)>> ELSE <<>>)
        \o <<D("t.main", "t.Main", Fields(sh))>>,
      functions |->
           <<D("t.call", "t.Main", Fields(sh)),
             D("t.callu", "t.Union", <<[name |-> "x", ty |-> "int"]>>),
             D("t.calls", "t.Sum", <<>>)>>]
SchemaOf(n) ==
  IF IsI(n) THEN ISchema(n - IBase) ELSE
  LET sh == Shape(n)
      ka == 2 + (n % 4)                 \* constructors of t.Sum
      ku == 2 + ((n \div 4) % 4)        \* constructors of t.Union
  IN [types |->
           <<D("liteServer.error", "liteServer.Error", <<[name |-> "code", ty |-> "int"], [name |-> "message", ty |-> "string"]>>),
             D("t.inner", "t.Inner", <<[name |-> "a", ty |-> "int"], [name |-> "b", ty |-> "bytes"]>>)>>
        \o [i \in 1..ka |-> D(CatAll(<<"t.alt", ToString(i)>>), "t.Sum", AltFields(i))]
        \o <<D("t.main", "t.Main", Fields(sh))>>
        \o [i \in 1..ku |-> D(CatAll(<<"t.u", ToString(i)>>), "t.Union", Fields(Rot(UnionShape(n, sh), i - 1)))],
      functions |->
           <<D("t.call", "t.Main", Fields(sh)),
             D("t.callu", "t.Union", <<[name |-> "x", ty |-> "int"]>>),
             D("t.calls", "t.Sum", <<>>)>>]

T(ty, op) == [ty |-> ty, op |-> op]
Targets == <<T("t.main", "Enc"), T("t.main", "Enc"), T("t.main", "Enc"), T("t.main", "Enc"),
             T("t.Union", "Enc"), T("t.Union", "Enc"), T("t.Union", "Enc"),
             T("t.call", "EncBare"), T("t.call", "EncBare"), T("t.call", "Fn"), T("t.call", "Fn"),
             T("t.call", "Call"), T("t.call", "Call"), T("t.call", "Call"), T("t.call", "Call"),
             T("t.Sum", "Enc"), T("t.inner", "Enc"), T("t.callu", "Call"), T("t.calls", "Call"), T("t.callu", "Fn")>>
NT == Len(Targets)
ITargets == <<T("t.Sum", "Enc"), T("t.Sum", "Enc"), T("t.Sum", "Enc"), T("t.Sum", "Enc"),
              T("t.Union", "Enc"), T("t.Union", "Enc"), T("t.Union", "Enc"),
              T("t.calls", "Call"), T("t.calls", "Call"), T("t.calls", "Call"), T("t.calls", "Call"),
              T("t.callu", "Call"), T("t.callu", "Call"), T("t.callu", "Call"),
              T("t.main", "Enc"), T("t.main", "Enc"), T("t.call", "Call"), T("t.call", "Call"), T("t.Sum", "Enc"), T("t.Union", "Enc")>>
ISane(vs) == /\ \E j \in 1..Len(vs) : vs[j].ty = "t.Sum" /\ vs[j].op = "Enc" /\ vs[j].v["_"] = "t.alt3"
             /\ \E j \in 1..Len(vs) : vs[j].ty = "t.Union" /\ vs[j].op = "Enc" /\ vs[j].v["_"] = "t.u3"
             /\ \E j \in 1..Len(vs) : vs[j].ty = "t.calls" /\ ~vs[j].is_err /\ vs[j].resv["_"] = "t.alt3"

\* family F: vector x of t.main / t.call with the conditional field (present: bit set) emptied; t.main Enc vectors get `wrong`
FieldIdx(d, name) == CHOOSE i \in 1..Len(d.fields) : d.fields[i].name = name
Emptied(S, n, x) ==
  LET fld == FField(n - FBase)
      v2  == [x.v EXCEPT ![fld] = IF IsVec(FTy(n - FBase)) THEN <<>> ELSE ""]
      hx  == IF x.op = "EncBare" THEN EncBare(S, x.ty, v2) ELSE Enc(S, x.ty, v2)
      y   == [x EXCEPT !.v = v2, !.hex = BytesToHex(hx)]
      d   == CtorDecl(S, "t.main")
      tl  == EncFields(S, d, v2, FieldIdx(d, fld) + 1)
  IN IF x.ty = "t.main" /\ x.op = "Enc"
       THEN y @@ [wrong |-> BytesToHex(SubSeq(hx, 1, Len(hx) - Len(tl) - 4) \o tl), emptied |-> TRUE]
       ELSE y @@ [emptied |-> TRUE]
FVec(S, n, j) ==
  LET x == VecOf(S, Targets[((j - 1) % NT) + 1], j - 1, B4(Seed) \o B4(n) \o B4(j), j - 1) IN
  IF j % 4 = 2 /\ x.ty \in {"t.main", "t.call"} /\ FField(n - FBase) \in DOMAIN x.v THEN Emptied(S, n, x) ELSE x
FSane(S, vs) ==
  /\ \E j \in 1..Len(vs) : "wrong" \in DOMAIN vs[j]
  /\ \E j \in 1..Len(vs) : "emptied" \in DOMAIN vs[j] /\ vs[j].op = "Call"
  /\ \A j \in 1..Len(vs) : "wrong" \in DOMAIN vs[j] =>
        LET dd == Dec(S, vs[j].ty, HexToBytes(vs[j].wrong)) IN ~(dd.ok /\ dd.value = vs[j].v /\ dd.rest = <<>>)
\* family L: the vector in Main's field gets exactly the given length (also in the answer of t.call)
LVecs(S, n) ==
  LET i   == n - LBase
      lim == LLim[(i \div 2) + 1]
      ov(len) == [decl |-> "t.main", field |-> LField(i), n |-> len]
  IN <<VecOfOv(S, T("t.main", "Enc"), 0, B4(Seed) \o B4(n) \o B4(1), 0, ov(lim)),
       VecOfOv(S, T("t.main", "Enc"), 1, B4(Seed) \o B4(n) \o B4(2), 1, ov(lim + 1)),
       VecOfOv(S, T("t.call", "Call"), 2, B4(Seed) \o B4(n) \o B4(3), 0, ov(lim + 1))>>
LSane(n, vs) == LET i == n - LBase  lim == LLim[(i \div 2) + 1] IN
  Len(vs[1].v[LField(i)]) = lim /\ Len(vs[2].v[LField(i)]) = lim + 1 /\ ~vs[3].is_err /\ Len(vs[3].resv[LField(i)]) = lim + 1

\* family B: refusal vectors -- a value of t.main (vector element: two elements, the second one's word is replaced)
BRej(S, n, w) ==
  LET i   == n - BBase
      x   == VecOfOv(S, T("t.main", "Enc"), 100 + w, B4(Seed) \o B4(n) \o B4(100 + w), 0, [decl |-> "t.main", field |-> "f1", n |-> 2])
      d   == CtorDecl(S, "t.main")
      hx  == HexToBytes(x.hex)
      tl  == EncFields(S, d, x.v, FieldIdx(d, BField(i)))
      off == Len(hx) - Len(tl) + (IF i = 2 THEN 8 ELSE 0)
      bad == SubSeq(hx, 1, off) \o BadWords[w] \o SubSeq(hx, off + 5, Len(hx))
  IN [vec |-> PerSchema + w - 1, ty |-> "t.main", op |-> "Rej", v |-> x.v, hex |-> BytesToHex(bad), valid_hex |-> x.hex]
BSane(S, vs) == \A j \in 1..Len(vs) : vs[j].op = "Rej" =>
                   /\ ~Dec(S, vs[j].ty, HexToBytes(vs[j].hex)).ok
                   /\ Dec(S, vs[j].ty, HexToBytes(vs[j].valid_hex)).ok /\ Len(vs[j].hex) = Len(vs[j].valid_hex) /\ vs[j].hex # vs[j].valid_hex

Out(n) ==
  LET S == SchemaOf(n)
      vs == IF IsL(n) THEN LVecs(S, n)
            ELSE IF IsF(n) THEN [j \in 1..PerSchema |-> FVec(S, n, j)]
            ELSE IF IsB(n) THEN [j \in 1..PerSchema |-> VecOf(S, Targets[((j - 1) % NT) + 1], j - 1, B4(Seed) \o B4(n) \o B4(j), j - 1)]
                                \o [w \in 1..Len(BadWords) |-> BRej(S, n, w)]
            ELSE IF IsI(n) THEN [j \in 1..Len(ITargets) |-> VecOf(S, ITargets[j], j - 1, B4(Seed) \o B4(n) \o B4(j), j - 1)]
            ELSE [j \in 1..PerSchema |-> VecOf(S, Targets[((j - 1) % NT) + 1], j - 1, B4(Seed) \o B4(n) \o B4(j), j - 1)]
  IN [schema |-> n, ast |-> S, kinds |-> (IF IsI(n) THEN <<"non-contiguous-constructors">> ELSE <<>>) \o [i \in 1..Len(Shape(n)) |-> KindLabel(Shape(n)[i])],
      sumctor_conditional |-> UnionFlags(n) /\ HasFlagged(Shape(n)), vecs |-> vs,
      sane |-> /\ \A j \in 1..Len(vs) : VecSane(S, vs[j])
               /\ (IsF(n) => FSane(S, vs))
               /\ (IsL(n) => LSane(n, vs))
               /\ (IsI(n) => ISane(vs))
               /\ (IsB(n) => BSane(S, vs))]

Init == k \in Ns                    \* one initial state per shape; nothing else happens
Next == UNCHANGED k
Spec == Init /\ [][Next]_k
Emit == LET o == Out(k) IN o.sane /\ PrintT(<<"VEC", ToJson(o)>>)
=============================================================================
