SPECIFICATION GenSpec
CONSTANTS
  Depth = 7
  Wc = "0"
  Steps = 40
INVARIANTS Emit
CHECK_DEADLOCK FALSE
