CONSTANTS
  First = 1
  Count = 40
  Salt = 1
SPECIFICATION Spec
INVARIANTS TypeOK SessionAgreement DeliveredIsPrefixOfSent NothingFromHitFrameOn GenOK Emit
CHECK_DEADLOCK FALSE
