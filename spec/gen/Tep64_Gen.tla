----------------------------- MODULE Tep64_Gen -----------------------------
(* S->C for X02: TLC enumerates the case analysis of Tep64                     *)
(*   layout (off / on / semi) x value form (snake in one cell, split inside a    *)
(*   byte / at a byte boundary / three cells / empty tail / empty head / filled  *)
(*   cells; chunked with 0, 1, 3 chunks, gaps in the indices, an empty chunk,    *)
(*   a chunk boundary inside a byte, a chunk that is a chain) x key set (known   *)
(*   subsets, unknown attributes mixed in, empty dictionary) x label forms x     *)
(*   payload size, and the malformations of Mals,                                *)
(* writes each content with the reference encoders of Tep64 into a bag of cells  *)
(* (Boc!Write, four header variants) and prints it with the result the           *)
(* specification requires.  The expectation comes from the CONSTRUCTION (the     *)
(* attributes that were encoded); `selfcheck` says that Tep64!Verdict, read back  *)
(* from the cells, agrees with it.  Merge vectors: pairs of abstract Metadata     *)
(* values with MergeSpec.                                                        *)
EXTENDS Tep64, Json
CONSTANT Tier            \* "quick" | "full"
VARIABLE c

Unknown == {"x_unknown", "zz_other"}

\* ------------------------------------------------------------- payloads
\* "e" empty | "s" short (>= 3 bytes) | "l" 300 bytes (does not fit one cell) | "b" 126 bytes (fills one cell after the tag
\* byte exactly) | "c" 127 bytes (one byte more); image_data and the unknown attributes are binary
Payload(a, sz) ==
  IF sz = "e" THEN <<>>
  ELSE IF sz \in {"b", "c"} THEN [i \in 1..(IF sz = "b" THEN 126 ELSE 127) |-> 48 + ((i + Len(a)) % 75)]
  ELSE IF sz = "s" THEN (IF a = "image_data" THEN <<137, 80, 0, 255, Len(a)>> ELSE StrToCodes(a) \o <<58, 49>>)
  ELSE IF a = "image_data" \/ a \in Unknown THEN [i \in 1..300 |-> (i * 7 + Len(a)) % 256]
  ELSE [i \in 1..300 |-> 33 + ((i * 7 + Len(a)) % 90)]
Url(sz) == IF sz = "e" THEN <<>> ELSE IF sz = "s" THEN StrToCodes("https://x.io/m.json")
           ELSE StrToCodes("https://example.org/") \o [i \in 1..280 |-> 97 + (i % 26)]

\* -------------------------------------------------------------- value forms
RECURSIVE FillCutsR(_, _, _)
FillCutsR(nbits, first, room) == IF nbits <= first THEN <<nbits>> ELSE <<first>> \o FillCutsR(nbits - first, room, room)
SnakeForms  == {"s1", "s2in", "s2b", "s3", "set", "seh"}
ChunkForms  == {"c1", "c3", "cgap", "cin", "cmulti", "c0e"}
LongForms   == {"fill", "fillodd", "cfill"}
EmptyForms  == {"s1", "c0", "c1"}
\* cuts of a snake form for nb payload bits after `pre` prefix bits in the first cell
Cuts(f, nb, pre) ==
  CASE f = "s1"      -> <<nb>>
    [] f = "s2in"    -> <<12, nb - 12>>
    [] f = "s2b"     -> <<8, nb - 8>>
    [] f = "s3"      -> <<8, 4, nb - 12>>
    [] f = "set"     -> <<nb, 0>>
    [] f = "seh"     -> <<0, nb>>
    [] f = "fill"    -> FillCutsR(nb, 1016 - pre, 1016)
    [] f = "fillodd" -> FillCutsR(nb, 1023 - pre, 1023)
Idx(v) == NatToBits(v, 32)
High(v) == <<1>> \o NatToBits(v, 31)                          \* index 2^31 + v
TailCell(bits) == << Cell(bits, <<>>) >>
Chunks(f, pb) ==
  LET nb == Len(pb)
      part(a, b) == SubSeq(pb, a + 1, b)
  IN CASE f = "c0"     -> <<>>
       [] f = "c1"     -> << [k |-> Idx(0), t |-> TailCell(pb)] >>
       [] f = "c3"     -> << [k |-> Idx(0), t |-> TailCell(part(0, 8))], [k |-> Idx(1), t |-> TailCell(part(8, 16))], [k |-> Idx(2), t |-> TailCell(part(16, nb))] >>
       [] f = "cgap"   -> << [k |-> Idx(1), t |-> TailCell(part(0, 8))], [k |-> Idx(7), t |-> TailCell(part(8, 16))], [k |-> High(5), t |-> TailCell(part(16, nb))] >>
       [] f = "cin"    -> << [k |-> Idx(0), t |-> TailCell(part(0, 4))], [k |-> Idx(1), t |-> TailCell(part(4, nb))] >>
       [] f = "cmulti" -> << [k |-> Idx(0), t |-> EncSnake(<<>>, pb, <<8, nb - 8>>)] >>
       [] f = "c0e"    -> << [k |-> Idx(0), t |-> TailCell(part(0, 8))], [k |-> Idx(3), t |-> TailCell(<<>>)], [k |-> Idx(4), t |-> TailCell(part(8, nb))] >>
       [] f = "cfill"  -> LET cs == FillCutsR(nb, 1016, 1016)  s == Sums(cs)
                          IN [j \in 1..Len(cs) |-> [k |-> Idx(j - 1), t |-> TailCell(part(s[j], s[j + 1]))]]
\* the ContentData table of `bytes` in form f; label forms lf for the chunk dictionary
Value(f, bytes, lf) ==
  LET pb == BytesToBits(bytes) IN
  IF f \in {"c0", "c1", "c3", "cgap", "cin", "cmulti", "c0e", "cfill"} THEN EncChunked(Chunks(f, pb), lf)
  ELSE EncSnake(Byte(0), pb, Cuts(f, Len(pb), 8))
ConformingForm(f) == f # "cmulti"                              \* a chunk is ^(SnakeData ~0): a chain there is surplus

\* ---------------------------------------------------------------- key sets
KeySets == << {}, {"name"}, {"name", "x_unknown"}, AttrSet \ {"uri"}, {"x_unknown", "zz_other"},
              {"image_data", "decimals", "symbol"} >>
LabelForms == << <<"long">>, <<"short">>, <<"same", "long">>, <<"short", "long", "same">> >>
Headers == << [magic |-> "generic", idx |-> FALSE, crc |-> FALSE, cache |-> FALSE, size |-> 1, ob |-> 2, hashes |-> FALSE],
              [magic |-> "generic", idx |-> TRUE,  crc |-> TRUE,  cache |-> FALSE, size |-> 2, ob |-> 3, hashes |-> FALSE],
              [magic |-> "idxcrc",  idx |-> TRUE,  crc |-> TRUE,  cache |-> FALSE, size |-> 1, ob |-> 2, hashes |-> FALSE],
              [magic |-> "generic", idx |-> FALSE, crc |-> TRUE,  cache |-> FALSE, size |-> 1, ob |-> 2, hashes |-> TRUE] >>

HexFields(f) == [a \in AttrSet |-> BytesToHex(f[a])]
Want(v, layout, fields, url) == [v |-> v, layout |-> layout, fields |-> HexFields(fields), url |-> BytesToHex(url)]
WantErr == Want("err", "none", NoFields, <<>>)

\* ------------------------------------------------------------- regular cases
\* <<"on"|"semi", key set index, value form, label form index, payload size>>
KeysOf(lay, ks) == KeySets[ks] \cup (IF lay = "semi" THEN {"uri"} ELSE {})
OnCase(lay, ks, f, lfi, sz) ==
  LET keys == KeysOf(lay, ks)
      lf   == LabelForms[lfi]
      ents == SetToSeq({ [k |-> KeyOf(a), t |-> Value(f, Payload(a, sz), lf)] : a \in keys })
      T    == EncOnchain(ents, lf)
      flds == [a \in AttrSet |-> IF a \in keys THEN Payload(a, sz) ELSE <<>>]
  IN [T |-> T, dicts |-> TRUE,
      want |-> Want(IF ConformingForm(f) \/ keys = {} THEN "ok" ELSE "free", IF lay = "semi" THEN "semichain" ELSE "onchain", flds, <<>>)]
OffCase(f, sz) ==
  LET u == Url(sz)
      T == EncOffchain(u, Cuts(f, 8 * Len(u), 8))
  IN [T |-> T, dicts |-> FALSE, want |-> Want("ok", "offchain", NoFields, u)]

\* --------------------------------------------------------------- malformations
Junk == << Cell(Byte(90) \o Byte(90), <<>>) >>
NameV == EncSnake(Byte(0), BytesToBits(Payload("name", "s")), <<8 * Len(Payload("name", "s"))>>)
UnkV  == EncSnake(Byte(0), BytesToBits(Payload("x_unknown", "s")), <<8 * Len(Payload("x_unknown", "s"))>>)
One(a, t, lf) == EncOnchain(<< [k |-> KeyOf(a), t |-> t] >>, lf)                  \* rows: 1 root, 2 leaf, 3.. value
Two(tn, tu, lf) == EncOnchain(<< [k |-> KeyOf("name"), t |-> tn], [k |-> KeyOf("x_unknown"), t |-> tu] >>, lf)
NameOnly == [a \in AttrSet |-> IF a = "name" THEN Payload("name", "s") ELSE <<>>]
AddRef(T, i, sub) == [T EXCEPT ![i].r = Append(@, Len(T) + 1)] \o ShiftT(sub, Len(T))
AddBits(T, i, bits) == [T EXCEPT ![i].b = @ \o bits]
LF1 == <<"long">>
ChunkV(chunks) == EncChunked(chunks, LF1)
NameBits == 8 * Len(Payload("name", "s"))
NameSnake(cuts) == EncSnake(Byte(0), BytesToBits(Payload("name", "s")), cuts)
NameChunks == Chunks("c3", BytesToBits(Payload("name", "s")))
Mals == {"root_tag02", "root_tagff", "root_empty", "root_4bits", "root_7bits",
         "on_no_maybe", "on_maybe1_noref", "on_root_extra_bits", "on_root_extra_ref", "on_empty_extra_ref", "on_empty_extra_bits",
         "leaf_noref_known", "leaf_noref_unknown", "leaf_extra_bits", "leaf_extra_ref",
         "cd_tag02_known", "cd_tag02_unknown", "cd_4bits_known", "cd_0bits_known", "cd_0bits_unknown",
         "snake_12bits_known", "snake_12bits_unknown", "snake_4_5_known", "snake_extra_ref", "snake_extra_ref_2nd",
         "chunk_noref", "chunk_12bits", "chunk_leaf_extra_bits", "chunk_root_extra_bits", "chunk_root_extra_ref",
         "chunk_maybe1_noref", "chunk_no_maybe", "chunk_bad_label", "chunk_key_16bit",
         "off_12bits", "off_4_5", "off_trailing_ref", "off_trailing_ref_2nd", "off_ref_is_data",
         "dict_label_gt", "dict_label_cut", "dict_fork_one_ref", "dict_fork_extra_bits", "dict_fork_third_ref", "dict_key_255",
         "semi_uri_empty", "semi_uri_unaligned", "known_empty_values",
         "exotic_pruned_value", "exotic_library_value", "exotic_pruned_leaf", "exotic_library_snake_next", "exotic_pruned_root"}
\* exotic cells (outside the documents: anything but a panic)
PrunedCell == [b |-> Byte(1) \o Byte(1) \o [i \in 1..272 |-> i % 2], x |-> Pruned, m |-> 1, r |-> <<>>]
LibraryCell == [b |-> Byte(2) \o [i \in 1..256 |-> (i \div 3) % 2], x |-> Library, m |-> 0, r |-> <<>>]
MalCase(m) ==
  LET free(T, f, lay) == [T |-> T, dicts |-> FALSE, want |-> Want("free", lay, f, <<>>)]
      err(T)          == [T |-> T, dicts |-> FALSE, want |-> WantErr]
      okc(T, f, lay)  == [T |-> T, dicts |-> FALSE, want |-> Want("ok", lay, f, <<>>)]
      any(T)          == [T |-> WithMasks(T), dicts |-> FALSE, want |-> Want("any", "none", NoFields, <<>>)]
      base1 == One("name", NameV, LF1)
      base2 == Two(NameV, UnkV, LF1)
  IN CASE m = "root_tag02" -> err(<< Cell(Byte(2) \o <<0>>, <<>>) >>)
       [] m = "root_tagff" -> err(<< Cell(Byte(255) \o Byte(97), <<>>) >>)
       [] m = "root_empty" -> err(<< Cell(<<>>, <<>>) >>)
       [] m = "root_4bits" -> err(<< Cell(<<0, 0, 0, 0>>, <<>>) >>)
       [] m = "root_7bits" -> err(<< Cell(<<0, 0, 0, 0, 0, 0, 0>>, <<2>>), Cell(<<>>, <<>>) >>)
       [] m = "on_no_maybe" -> err(<< Cell(Byte(0), <<>>) >>)
       [] m = "on_maybe1_noref" -> err(<< Cell(Byte(0) \o <<1>>, <<>>) >>)
       [] m = "on_root_extra_bits" -> free(AddBits(base1, 1, <<1, 0, 1>>), NameOnly, "onchain")
       [] m = "on_root_extra_ref" -> free(AddRef(base1, 1, Junk), NameOnly, "onchain")
       [] m = "on_empty_extra_ref" -> free(<< Cell(Byte(0) \o <<0>>, <<2>>) >> \o ShiftT(base1, 1), NoFields, "onchain")
       [] m = "on_empty_extra_bits" -> free(<< Cell(Byte(0) \o <<0, 1, 1>>, <<>>) >>, NoFields, "onchain")
       [] m = "leaf_noref_known" -> err(One("name", <<>>, LF1))
       [] m = "leaf_noref_unknown" -> free(Two(NameV, <<>>, LF1), NameOnly, "onchain")
       [] m = "leaf_extra_bits" -> free(AddBits(base1, 2, <<1>>), NameOnly, "onchain")
       [] m = "leaf_extra_ref" -> free(AddRef(base1, 2, Junk), NameOnly, "onchain")
       [] m = "cd_tag02_known" -> err(One("name", << Cell(Byte(2) \o Byte(97), <<>>) >>, LF1))
       [] m = "cd_tag02_unknown" -> free(Two(NameV, << Cell(Byte(2) \o Byte(97), <<>>) >>, LF1), NameOnly, "onchain")
       [] m = "cd_4bits_known" -> err(One("name", << Cell(<<0, 0, 0, 0>>, <<>>) >>, LF1))
       [] m = "cd_0bits_known" -> err(One("name", << Cell(<<>>, <<>>) >>, LF1))
       [] m = "cd_0bits_unknown" -> free(Two(NameV, << Cell(<<>>, <<>>) >>, LF1), NameOnly, "onchain")
       [] m = "snake_12bits_known" -> err(One("name", << Cell(Byte(0) \o Byte(97) \o <<0, 1, 1, 0>>, <<>>) >>, LF1))
       [] m = "snake_12bits_unknown" -> free(Two(NameV, << Cell(Byte(0) \o Byte(97) \o <<0, 1, 1, 0>>, <<>>) >>, LF1), NameOnly, "onchain")
       [] m = "snake_4_5_known" -> err(One("name", << Cell(Byte(0) \o <<0, 1, 1, 0>>, <<2>>), Cell(<<0, 0, 0, 1, 1>>, <<>>) >>, LF1))
       \* value rows: 3, 4 (, 5); the surplus reference is never the first one (the first one IS the continuation)
       [] m = "snake_extra_ref" -> free(AddRef(One("name", NameSnake(<<8, NameBits - 8>>), LF1), 3, Junk), NameOnly, "onchain")
       [] m = "snake_extra_ref_2nd" -> free(AddRef(One("name", NameSnake(<<8, 4, NameBits - 12>>), LF1), 4, Junk), NameOnly, "onchain")
       [] m = "chunk_noref" -> err(One("name", ChunkV(<< [k |-> Idx(0), t |-> TailCell(Byte(97))], [k |-> Idx(1), t |-> <<>>] >>), LF1))
       [] m = "chunk_12bits" -> err(One("name", ChunkV(<< [k |-> Idx(0), t |-> TailCell(Byte(97))], [k |-> Idx(1), t |-> TailCell(<<0, 1, 1, 0>>)] >>), LF1))
       [] m = "chunk_leaf_extra_bits" -> free(One("name", AddBits(ChunkV(<< [k |-> Idx(0), t |-> TailCell(BytesToBits(Payload("name", "s")))] >>), 2, <<0>>), LF1), NameOnly, "onchain")
       [] m = "chunk_root_extra_bits" -> free(One("name", AddBits(ChunkV(NameChunks), 1, <<0, 0>>), LF1), NameOnly, "onchain")
       [] m = "chunk_root_extra_ref" -> free(One("name", AddRef(ChunkV(NameChunks), 1, Junk), LF1), NameOnly, "onchain")
       [] m = "chunk_maybe1_noref" -> err(One("name", << Cell(Byte(1) \o <<1>>, <<>>) >>, LF1))
       [] m = "chunk_no_maybe" -> err(One("name", << Cell(Byte(1), <<>>) >>, LF1))
       \* hml_long with n = 33 > 32 on the root edge of the chunk dictionary
       [] m = "chunk_bad_label" -> err(One("name", << Cell(Byte(1) \o <<1>>, <<2>>), Cell(<<1, 0>> \o NatToBits(33, 6) \o [i \in 1..33 |-> 0], <<3>>), Cell(Byte(97), <<>>) >>, LF1))
       \* a dictionary written for 16-bit keys is not a HashmapE 32
       [] m = "chunk_key_16bit" -> err(One("name", << Cell(Byte(1) \o <<1>>, <<2>>), Cell(<<1, 0>> \o NatToBits(16, 6) \o [i \in 1..16 |-> 0], <<3>>), Cell(Byte(97), <<>>) >>, LF1))
       [] m = "off_12bits" -> err(<< Cell(Byte(1) \o Byte(97) \o <<0, 1, 1, 0>>, <<>>) >>)
       [] m = "off_4_5" -> err(<< Cell(Byte(1) \o <<0, 1, 1, 0>>, <<2>>), Cell(<<0, 0, 0, 1, 1>>, <<>>) >>)
       [] m = "off_trailing_ref" -> [T |-> AddRef(EncOffchain(Url("s"), <<16, 8 * Len(Url("s")) - 16>>), 1, Junk), dicts |-> FALSE,
                                     want |-> Want("free", "offchain", NoFields, Url("s"))]
       [] m = "off_trailing_ref_2nd" -> [T |-> AddRef(EncOffchain(Url("s"), <<16, 4, 8 * Len(Url("s")) - 20>>), 2, Junk), dicts |-> FALSE,
                                         want |-> Want("free", "offchain", NoFields, Url("s"))]
       \* a reference in a one-cell URI is not surplus: it is the continuation of the data (cons)
       [] m = "off_ref_is_data" -> [T |-> AddRef(EncOffchain(Url("s"), <<8 * Len(Url("s"))>>), 1, Junk), dicts |-> FALSE,
                                    want |-> Want("ok", "offchain", NoFields, Url("s") \o <<90, 90>>)]
       \* root edge: hml_long n = 257 > 256
       [] m = "dict_label_gt" -> err(<< Cell(Byte(0) \o <<1>>, <<2>>), Cell(<<1, 0>> \o NatToBits(257, 9) \o [i \in 1..257 |-> 1], <<3>>) >> \o ShiftT(NameV, 2))
       \* root edge: hml_long n = 256 but only 100 label bits in the cell
       [] m = "dict_label_cut" -> err(<< Cell(Byte(0) \o <<1>>, <<2>>), Cell(<<1, 0>> \o NatToBits(256, 9) \o [i \in 1..100 |-> 1], <<3>>) >> \o ShiftT(NameV, 2))
       \* base2 rows: 1 root, 2 fork, 3 leaf, 4 leaf, 5.. values
       [] m = "dict_fork_one_ref" -> err([base2 EXCEPT ![2].r = <<3>>])
       [] m = "dict_fork_extra_bits" -> free(AddBits(base2, 2, <<1, 1>>), NameOnly, "onchain")
       [] m = "dict_fork_third_ref" -> free(AddRef(base2, 2, Junk), NameOnly, "onchain")
       \* the only key has 255 bits: the edge is a fork without children
       [] m = "dict_key_255" -> err(<< Cell(Byte(0) \o <<1>>, <<2>>), Cell(<<1, 0>> \o NatToBits(255, 9) \o SubSeq(KeyOf("name"), 1, 255), <<3>>) >> \o ShiftT(NameV, 2))
       [] m = "semi_uri_empty" -> okc(EncOnchain(<< [k |-> KeyOf("name"), t |-> NameV], [k |-> KeyOf("uri"), t |-> << Cell(Byte(0), <<>>) >>] >>, LF1), NameOnly, "semichain")
       [] m = "semi_uri_unaligned" -> err(EncOnchain(<< [k |-> KeyOf("name"), t |-> NameV], [k |-> KeyOf("uri"), t |-> << Cell(Byte(0) \o <<1, 0, 1>>, <<>>) >>] >>, LF1))
       [] m = "exotic_pruned_value" -> any(One("name", << PrunedCell >>, LF1))
       [] m = "exotic_library_value" -> any(One("name", << LibraryCell >>, LF1))
       [] m = "exotic_pruned_leaf" -> LET T0 == Two(NameV, <<>>, LF1)
                                          j  == CHOOSE j \in {3, 4} : Len(T0[j].r) = 0
                                      IN any([T0 EXCEPT ![j] = PrunedCell])
       [] m = "exotic_library_snake_next" -> any([EncOffchain(Url("s"), <<16, 8 * Len(Url("s")) - 16>>) EXCEPT ![2] = LibraryCell])
       [] m = "exotic_pruned_root" -> any(<< PrunedCell >>)
       [] m = "known_empty_values" -> okc(EncOnchain(SetToSeq({ [k |-> KeyOf(a), t |-> << Cell(Byte(0), <<>>) >>] : a \in AttrSet \ {"uri"} }), LF1), NoFields, "onchain")

\* ------------------------------------------------------------------- cases
Quick == Tier = "quick"
OnCases ==
  {x \in {<<"on", lay, ks, f, lfi, "s">> : lay \in {"on", "semi"}, ks \in 1..Len(KeySets), f \in SnakeForms \cup ChunkForms,
                                           lfi \in (IF Quick THEN {1, 4} ELSE 1..Len(LabelForms))} :
      (x[2] = "on" /\ x[3] = 1) => (x[4] = "s1" /\ x[5] = 1)}            \* the empty dictionary has no values and no labels
  \cup {<<"on", lay, ks, f, lfi, "l">> : lay \in {"on", "semi"}, ks \in (IF Quick THEN {2, 6} ELSE 2..Len(KeySets)), f \in LongForms,
                                         lfi \in (IF Quick THEN {3} ELSE 1..Len(LabelForms))}
  \cup {<<"on", lay, 2, "s1", 1, "b">> : lay \in {"on", "semi"}}
  \cup {<<"on", lay, 2, f, 1, sz>> : lay \in {"on", "semi"}, f \in LongForms, sz \in {"b", "c"}}
  \cup {<<"on", lay, ks, f, lfi, "e">> : lay \in {"on", "semi"}, ks \in {2, 3, 4}, f \in EmptyForms, lfi \in (IF Quick THEN {2} ELSE 1..Len(LabelForms))}
OffCases ==
  {<<"off", f, "s">> : f \in SnakeForms} \cup {<<"off", f, "l">> : f \in {"fill", "fillodd"}} \cup {<<"off", "s1", "e">>, <<"off", "set", "e">>}
MalCases == {<<"mal", m>> : m \in Mals}

Build(x) == CASE x[1] = "on"  -> OnCase(x[2], x[3], x[4], x[5], x[6])
              [] x[1] = "off" -> OffCase(x[2], x[3])
              [] x[1] = "mal" -> MalCase(x[2])
ClassOf(x) == CASE x[1] = "on"  -> [kind |-> x[2], keys |-> x[3], form |-> x[4], labels |-> x[5], size |-> x[6], mal |-> ""]
                [] x[1] = "off" -> [kind |-> "off", keys |-> 0, form |-> x[2], labels |-> 0, size |-> x[3], mal |-> ""]
                [] x[1] = "mal" -> [kind |-> "mal", keys |-> 0, form |-> "", labels |-> 0, size |-> "", mal |-> x[2]]
HeaderOf(T, x) == Headers[((Len(T) + Len(T[1].b) + Len(T[Len(T)].b)) % Len(Headers)) + 1]

SelfCheck(b, bag) ==
  LET V  == Verdict(b.T, 1)
      pr == Parse(bag)
  IN /\ Topological(b.T) /\ \A i \in 1..Len(b.T) : BasicOK(b.T[i])
     /\ pr.ok /\ pr.roots = <<1>> /\ pr.T = b.T
     /\ V.v = b.want.v
     /\ V.v \in {"ok", "free"} =>
          /\ V.d.layout = b.want.layout
          /\ HexFields(V.d.fields) = b.want.fields
          /\ BytesToHex(V.d.url) = b.want.url
     /\ (b.dicts /\ Len(b.T[1].r) > 0) => DictReadingsAgree(b.T, 1, 8, 256)
TableJson(T) == [i \in 1..Len(T) |-> [b |-> BitsToStr(T[i].b), x |-> T[i].x, r |-> [j \in 1..Len(T[i].r) |-> T[i].r[j] - 1]]]
Vector(x) ==
  LET b   == Build(x)
      bag == Write(b.T, <<1>>, HeaderOf(b.T, x))
  IN [t |-> "dec", cls |-> ClassOf(x), boc |-> BytesToHex(bag), ncells |-> Len(b.T), want |-> b.want, selfcheck |-> SelfCheck(b, bag)]

\* ------------------------------------------------------------------- Merge
\* abstract Metadata values: every string attribute empty or set, image_data nil / empty / set
Img == {"nil", "empty", "set"}
Pat0 == {<<"none", "">>, <<"all", "">>, <<"odd", "">>}
Pat == Pat0 \cup {<<"only", a>> : a \in AttrSet \ {"image_data"}} \cup {<<"but", a>> : a \in AttrSet \ {"image_data"}}
IdxOf(a) == CHOOSE i \in 1..Len(Attrs) : Attrs[i] = a
Meta(pat, img, who) ==
  LET on(a) == CASE pat[1] = "none" -> FALSE [] pat[1] = "all" -> TRUE [] pat[1] = "odd" -> IdxOf(a) % 2 = 1
                 [] pat[1] = "only" -> a = pat[2] [] OTHER -> a # pat[2]
  IN [f |-> [a \in AttrSet |-> IF a = "image_data" THEN (IF img = "set" THEN StrToCodes(who) \o <<0, 255>> ELSE <<>>)
                               ELSE IF on(a) THEN StrToCodes(who) \o StrToCodes(a) ELSE <<>>],
      img_nil |-> img = "nil"]
MetaJson(m) == [f |-> HexFields(m.f), img_nil |-> m.img_nil]
MergeCases == {<<"merge", pa, ia, <<"nil", "">>, "nil">> : pa \in Pat0, ia \in Img}
              \cup {<<"merge", pa, ia, pb, ib>> : pa \in Pat0, ia \in Img, pb \in Pat, ib \in Img}
MergeVector(x) ==
  LET a    == Meta(x[2], x[3], "a")
      bnil == x[4][1] = "nil"
      b    == IF bnil THEN Meta(<<"none", "">>, "nil", "b") ELSE Meta(x[4], x[5], "b")
  IN [t |-> "merge", a |-> MetaJson(a), b_nil |-> bnil, b |-> MetaJson(b), want |-> HexFields(MergeSpec(a, bnil, b)),
      img_free |-> ~bnil /\ x[5] = "empty" /\ x[3] = "set",
      selfcheck |-> MergeAllowed(a, bnil, b, [f |-> MergeSpec(a, bnil, b)])]

\* ------------------------------------------------------------------- driver
Cases == OnCases \cup OffCases \cup MalCases \cup MergeCases
Init == c \in {<<"todo", x>> : x \in Cases}
Next == /\ c[1] = "todo"
        /\ c' = <<"done", c[2]>>
        /\ PrintT(<<"VEC", ToJson(IF c[2][1] = "merge" THEN MergeVector(c[2]) ELSE Vector(c[2]))>>)
Spec == Init /\ [][Next]_c
=============================================================================
