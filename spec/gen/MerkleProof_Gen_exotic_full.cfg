CONSTANTS
  MaxOps = 6
  MaxReq = 2
  TwoStep = FALSE
  Exotic = TRUE
  Hold = FALSE
  Free = FALSE
SPECIFICATION Spec
INVARIANT Emit
CHECK_DEADLOCK FALSE
