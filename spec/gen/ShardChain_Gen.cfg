SPECIFICATION GenSpec
CONSTANTS
  Depth = 4
  Wc = "0"
  Steps = 14
INVARIANTS Emit
CHECK_DEADLOCK FALSE
