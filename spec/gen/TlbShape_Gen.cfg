CONSTANTS
  Seed = 1
  Ns = {0, 5, 23, 30, 35, 39, 41, 50, 77}
  PerSchema = 20
SPECIFICATION Spec
INVARIANT Emit
CHECK_DEADLOCK FALSE
