---------------------------- MODULE GenHist_Gen ----------------------------
(* S->C for GenHist: TLC explores the process state machine -- from the empty  *)
(* history, any call of Calls may follow, up to MaxLen calls -- and emits every *)
(* non-empty history (a history of one call = the same call in one more fresh *)
(* process).  The runner executes each history in a process *)
(* of its own and records the outputs; GenHist_Trace judges them.                *)
EXTENDS GenHist, TLC, Json
CONSTANTS Calls, MaxLen
VARIABLE hist

Init == HInit(hist)
Next == \E c \in Calls : Len(hist) < MaxLen /\ hist' = Append(hist, c)
Spec == Init /\ [][Next]_hist
Emit == Len(hist) >= 1 => PrintT(<<"VEC", ToJson([hist |-> hist])>>)
=============================================================================
