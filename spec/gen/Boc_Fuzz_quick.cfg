CONSTANT ManyVals = FALSE
SPECIFICATION Spec
CHECK_DEADLOCK FALSE
