CONSTANTS
  MaxOps = 4
  MaxReq = 2
  TwoStep = TRUE
  Exotic = FALSE
  Hold = FALSE
  Free = FALSE
SPECIFICATION Spec
INVARIANT Emit
CHECK_DEADLOCK FALSE
