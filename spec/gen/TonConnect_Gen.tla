--------------------------- MODULE TonConnect_Gen ---------------------------
(* S->C for C19: TLC enumerates the decision table of TonConnect               *)
(*   key source x wallet version x single tampering x time                     *)
(* and prints one abstract case per row with the facts the tampering stands    *)
(* for and the verdict TonConnect!Decide requires.  The Go harness concretises *)
(* each case (keys, state-inits, CreateSignedProof, a mock executor), runs the *)
(* real Server.CheckProof and compares.  Every concrete proof is recorded and  *)
(* judged again from its bytes by TonConnect_Trace; the runner also requires   *)
(* the facts recomputed from the bytes to equal the facts listed here, so a    *)
(* case can only count if the harness really built the tampering it names.     *)
EXTENDS TonConnect, Json
CONSTANT TimeProduct          \* "full": every tampering at every time; "diag": times other than fresh only for tampering none
VARIABLE c

Srcs    == {"chain", "si", "si_exit"}      \* get-method answers | account unknown to the executor | get-method exits with an error code
Times   == {"fresh", "proof_b-1", "proof_b+1", "payload_b-1", "payload_b+1"}
Tampers == {"none",
            "signer", "sig_flip", "sig_short", "sig_empty", "sig_bad_b64", "forged_zero_key", "sig_degenerate",
            "ck_zero_honest", "ck_zero_degenerate", "ck_one_honest", "ck_one_degenerate", "ck_short_honest", "ck_short_degenerate",
            "ck_pad24_honest", "ck_pad24_degenerate", "ck_pad31_honest", "ck_pad31_degenerate",
            "chain_differs_signer_owner", "chain_differs_signer_chain",
            "address", "address_unknown", "workchain", "addr_bad_hex", "addr_friendly",
            "wc_plus256", "wc_minus256", "wc_plus512", "wc_plus65536", "wc_minus65536", "wc_plus16777216", "wc_int32_max", "wc_int32_min",
            "domain", "domain_foreign", "domain_swapped", "timestamp",
            "payload", "payload_foreign_secret", "payload_short", "payload_long", "payload_bad_hex", "payload_mac_flip",
            "si_other", "si_attacker", "si_unknown_code",
            "sih_honest", "sih_root_only", "sih_root_claims_victim", "sih_all_claims_victim", "sih_wrong_root_hash", "sih_wrong_root_depth",
            "sih_wrong_inner_hash", "sih_code_claims_wallet", "si_no_code", "si_no_data", "si_no_code_no_data", "si_short_data",
            "si_multi_root", "si_garbage", "si_truncated", "si_bad_b64", "si_empty"}

Honest(src, ver, time) ==
  [plWf |-> TRUE, plMac |-> TRUE, plFresh |-> IF time = "payload_b+1" THEN "no" ELSE "yes",
   addrWf |-> TRUE, sigB64 |-> TRUE, sigCanon |-> TRUE,
   prFresh |-> IF time = "proof_b+1" THEN "no" ELSE "yes", domOK |-> TRUE,
   chain |-> IF src = "chain" THEN "key" ELSE "none", chainJunk |-> FALSE, chainKey |-> IF src = "chain" THEN "owner" ELSE "", sigChain |-> src = "chain",
   siGiven |-> TRUE, siB64 |-> TRUE, siCanon |-> TRUE, siBoc |-> TRUE, siLayout |-> TRUE, siHash |-> TRUE, siCode |-> TRUE, siData |-> TRUE,
   siWallet |-> WalletByName(ver).cls, siKeyOK |-> TRUE, siFull |-> TRUE, siKey |-> "owner", sigSi |-> TRUE]

NoSig(f)   == [f EXCEPT !.sigChain = FALSE, !.sigSi = FALSE]
NoChain(f) == [f EXCEPT !.chain = "none", !.chainKey = "", !.sigChain = FALSE]
NoKey(f)   == [f EXCEPT !.siKeyOK = FALSE, !.siFull = FALSE, !.siKey = "", !.sigSi = FALSE]

\* what a single tampering changes (before closure under prerequisites)
Apply(t, f, src) ==
  CASE t = "none" -> f
    [] t \in {"signer", "sig_flip", "sig_short", "sig_empty", "forged_zero_key", "domain_swapped", "timestamp", "payload"} -> NoSig(f)
    [] t = "sig_bad_b64" -> [f EXCEPT !.sigB64 = FALSE]
    \* what the account answers to get_public_key x who signed.  Answers: 0 | 1 | a number of fewer than 24 bytes (no key: junk) |
    \* 24 random bytes, i.e. a number with 8 leading zero bytes (a key, but nobody's here) | the owner's key, which begins with a
    \* zero byte (31 significant bytes).  Signature: the owner's, or the degenerate one (R of small order, S = 0) that verifies for
    \* keys of small order -- the attacker looks for a payload / timestamp for which it does.  (For the other key sources the
    \* account does not answer at all; the rows then only differ in the signature.)
    [] t = "sig_degenerate" -> NoSig(f)
    [] t \in {"ck_zero_honest", "ck_one_honest", "ck_short_honest"} -> IF src = "chain" THEN [NoChain(f) EXCEPT !.chainJunk = TRUE] ELSE f
    [] t \in {"ck_zero_degenerate", "ck_one_degenerate", "ck_short_degenerate"} ->
         IF src = "chain" THEN [NoSig(NoChain(f)) EXCEPT !.chainJunk = TRUE] ELSE NoSig(f)
    [] t = "ck_pad24_honest" -> IF src = "chain" THEN [f EXCEPT !.chainKey = "chain", !.sigChain = FALSE] ELSE f
    [] t = "ck_pad24_degenerate" -> IF src = "chain" THEN [NoSig(f) EXCEPT !.chainKey = "chain"] ELSE NoSig(f)
    [] t = "ck_pad31_honest" -> f
    [] t = "ck_pad31_degenerate" -> NoSig(f)
    \* the account's current key is not the one in the state-init it was deployed with
    [] t = "chain_differs_signer_owner" -> IF src = "chain" THEN [f EXCEPT !.chainKey = "chain", !.sigChain = FALSE] ELSE f
    [] t = "chain_differs_signer_chain" -> IF src = "chain" THEN [f EXCEPT !.chainKey = "chain", !.sigSi = FALSE] ELSE NoSig(f)
    \* another wallet of the same key (its own proper state-init, known to the chain the same way): only the signed address differs
    [] t = "address" -> [NoSig(f) EXCEPT !.siWallet = "std"]
    [] t = "address_unknown" -> [NoSig(NoChain(f)) EXCEPT !.siHash = FALSE]
    [] t = "workchain" -> NoSig(NoChain(f))
    \* only the workchain of the presented address differs, by a multiple of 2^8 / 2^16 / 2^24 or to an end of the int32 range:
    \* the signed message carries all 32 bits of it
    [] t \in {"wc_plus256", "wc_minus256", "wc_plus512", "wc_plus65536", "wc_minus65536", "wc_plus16777216", "wc_int32_max", "wc_int32_min"} -> NoSig(NoChain(f))
    [] t \in {"addr_bad_hex", "addr_friendly"} -> [f EXCEPT !.addrWf = FALSE]
    [] t = "domain" -> [NoSig(f) EXCEPT !.domOK = FALSE]
    [] t = "domain_foreign" -> [f EXCEPT !.domOK = FALSE]
    [] t \in {"payload_foreign_secret", "payload_mac_flip"} -> [f EXCEPT !.plMac = FALSE]
    [] t \in {"payload_short", "payload_long", "payload_bad_hex"} -> [f EXCEPT !.plWf = FALSE]
    [] t = "si_other" -> [f EXCEPT !.siHash = FALSE, !.siKey = "other", !.sigSi = FALSE]
    \* the attack the hash check is there for: somebody else's address, the attacker's own wallet state-init and signature
    [] t = "si_attacker" -> [f EXCEPT !.siHash = FALSE, !.siKey = "other", !.sigChain = FALSE]
    \* the state-init bag written "with hashes" (stored hash and depth in front of the cells' data):
    \* correct stored values (in every cell / in the root only): the same state-init as the plain bag
    [] t \in {"sih_honest", "sih_root_only"} -> f
    \* the attacker's own wallet state-init whose root (or every cell) is LABELLED with the victim's account id, signed by the attacker
    [] t \in {"sih_root_claims_victim", "sih_all_claims_victim"} -> [f EXCEPT !.siHash = FALSE, !.siKey = "other", !.sigChain = FALSE, !.siCanon = FALSE]
    \* an honest proof whose bag carries a wrong stored value: not a serialiser's output; refuse it or ignore the stored values
    [] t \in {"sih_wrong_root_hash", "sih_wrong_root_depth", "sih_wrong_inner_hash"} -> [f EXCEPT !.siCanon = FALSE]
    \* some other code labelled with the hash of the wallet's code (address = the hash of the real content)
    [] t = "sih_code_claims_wallet" -> [NoKey(f) EXCEPT !.siWallet = "unknown", !.siCanon = FALSE]
    [] t = "si_unknown_code" -> [NoKey(f) EXCEPT !.siWallet = "unknown"]
    [] t = "si_no_code" -> [f EXCEPT !.siCode = FALSE]
    [] t = "si_no_data" -> [f EXCEPT !.siData = FALSE]
    [] t = "si_no_code_no_data" -> [f EXCEPT !.siCode = FALSE, !.siData = FALSE]
    [] t = "si_short_data" -> NoKey(f)
    [] t \in {"si_multi_root", "si_garbage", "si_truncated"} -> [f EXCEPT !.siBoc = FALSE]
    [] t = "si_bad_b64" -> [f EXCEPT !.siB64 = FALSE]
    [] t = "si_empty" -> [f EXCEPT !.siGiven = FALSE]

\* a fact whose prerequisite fails is FALSE (the same convention as TonConnect!Facts)
Close(f0) ==
  LET f1 == IF f0.plWf THEN f0 ELSE [f0 EXCEPT !.plMac = FALSE, !.plFresh = "no"]
      f2 == IF f1.sigB64 THEN f1 ELSE [NoSig(f1) EXCEPT !.sigCanon = FALSE]
      f3 == IF f2.addrWf THEN f2 ELSE [NoSig(NoChain(f2)) EXCEPT !.siGiven = FALSE]
      f4 == IF f3.siGiven THEN f3 ELSE [f3 EXCEPT !.siB64 = FALSE]
      f5 == IF f4.siB64 THEN f4 ELSE [f4 EXCEPT !.siCanon = FALSE, !.siBoc = FALSE]
      f6 == IF f5.siBoc THEN f5 ELSE [f5 EXCEPT !.siLayout = FALSE, !.siHash = FALSE]
      f7 == IF f6.siLayout THEN f6 ELSE [f6 EXCEPT !.siCode = FALSE, !.siData = FALSE]
      f8 == IF f7.siCode THEN f7 ELSE [f7 EXCEPT !.siWallet = "unknown"]
      f9 == IF f8.siCode /\ f8.siData THEN f8 ELSE NoKey(f8)
  IN f9

CaseFacts(src, ver, t, time) == Close(Apply(t, Honest(src, ver, time), src))
Vector(src, ver, t, time) ==
  LET f == CaseFacts(src, ver, t, time) IN
  [src |-> src, ver |-> ver, tamper |-> t, time |-> time, f |-> f, want |-> Decide(f)]

CkTampers == {"ck_zero_honest", "ck_zero_degenerate", "ck_one_honest", "ck_one_degenerate", "ck_short_honest", "ck_short_degenerate",
              "ck_pad24_honest", "ck_pad24_degenerate", "ck_pad31_honest", "ck_pad31_degenerate"}
\* (the rows about the account's answer only exist where the account answers)
Cases == {<<s, v, t, tm>> \in Srcs \X WalletVersions \X Tampers \X Times :
             /\ TimeProduct = "full" \/ tm = "fresh" \/ t = "none"
             /\ t \in CkTampers => s = "chain"}

Init == c \in {<<"todo", x>> : x \in Cases}
Next == /\ c[1] = "todo"
        /\ c' = <<"done", c[2]>>
        /\ PrintT(<<"VEC", ToJson(Vector(c[2][1], c[2][2], c[2][3], c[2][4]))>>)
Spec == Init /\ [][Next]_c
=============================================================================
