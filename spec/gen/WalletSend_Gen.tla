--------------------------- MODULE WalletSend_Gen ---------------------------
(* S->C for C15: TLC enumerates every history of the send pipeline over a      *)
(* scripted chain - version x entry point x with/without confirmation x        *)
(* account state (none, uninit, frozen, error, active with a stored seqno, and  *)
(* an active wallet with a non-empty extension dictionary) x send outcome x     *)
(* poll answers (error / unchanged / lower / advanced, <= MaxPolls, then the     *)
(* deadline) - and prints one vector per complete history: what the chain       *)
(* answers (including the account's data cell, written by the specification)    *)
(* and what the wallet must have done.  Only the environment branches; where    *)
(* the statement leaves the wallet free (frozen account, confirmation on a      *)
(* wallet without seqno) the vector says so.                                    *)
EXTENDS WalletSend, TLC
VARIABLES p, s, hist
vars == <<p, s, hist>>

Params   == ndJsonDeserialize("params.ndjson")[1]     \* {"seeds":[key,..],"nrot":2,"wcs":[0,-1,..],"maxpolls":6,"rawmaxpolls":6,"rawseqs":["0",..],"lowermode":"full"|"sparse","rot":0}
MaxPolls == Params.maxpolls
RawMaxPolls == Params.rawmaxpolls                       \* bound for the entry points that take seqno / init from the caller
Seeds    == Params.seeds                                 \* keys: "seed" (32 bytes hex), or "seed:pub" = a private key whose public half is
                                                          \* the given 32 bytes (ed25519.PrivateKey is seed || public key; patterns such as all-ff)
NRot     == Params.nrot                                  \* the first NRot keys rotate over the (version, entry) pairs; entry "Send" runs with every key
Wcs      == Params.wcs
RawSeqs  == {Params.rawseqs[i] : i \in 1..Len(Params.rawseqs)}   \* seqnos a caller passes to RawSend(V2) (subset of SeqSet)
Rot      == Params.rot                                   \* rotates which key / workchain a (version, entry) pair gets

SeqSet    == {"0", "1", "7", "4294967295"}
\* a uint32 field cannot hold more than 2^32-1: from there the seqno cannot advance
SuccOf(n) == CASE n = "0" -> "1" [] n = "1" -> "2" [] n = "7" -> "8" [] OTHER -> ""

Entries  == <<[e |-> "SendV2", c |-> TRUE], [e |-> "SendV2", c |-> FALSE], [e |-> "Send", c |-> FALSE],
              [e |-> "RawSendV2", c |-> TRUE], [e |-> "RawSendV2", c |-> FALSE], [e |-> "RawSend", c |-> FALSE]>>
ParamSpace ==
  UNION {UNION {{[ver |-> v, entry |-> Entries[i].e, confirm |-> Entries[i].c, rawseq |-> rs, rawinit |-> ri,
                  wc |-> Wcs[((VerIdx(v) + i + Rot) % Len(Wcs)) + 1], seed |-> sd]
                 : sd \in (IF Entries[i].e = "Send" THEN {Seeds[k] : k \in 1..Len(Seeds)} ELSE {Seeds[((VerIdx(v) + 2 * i + Rot) % NRot) + 1]}),
                   rs \in (IF Entries[i].e \in RawEntries THEN RawSeqs ELSE {""}),
                   ri \in (IF Entries[i].e \in RawEntries THEN BOOLEAN ELSE {FALSE})}
                : i \in 1..Len(Entries)} : v \in SendVersions}

AcctStates == {[st |-> x, n |-> "", ext |-> FALSE] : x \in {"none", "uninit", "frozen", "err"}}
              \cup {[st |-> "active", n |-> n, ext |-> FALSE] : n \in SeqSet}
              \cup {[st |-> "active", n |-> "7", ext |-> TRUE]}

SeqOr(v, x) == IF HasSeqno(v) THEN x ELSE ""
\* the wallet's own move (the representative when the statement leaves it free)
BuildEv == IF p.entry \in RawEntries THEN [k |-> "Build", seq |-> SeqOr(p.ver, p.rawseq), init |-> p.rawinit, free |-> FALSE]
           ELSE IF s.st = "active" THEN [k |-> "Build", seq |-> SeqOr(p.ver, s.n), init |-> FALSE, free |-> FALSE]
           ELSE [k |-> "Build", seq |-> SeqOr(p.ver, "0"), init |-> TRUE, free |-> s.st = "frozen"]
SendEv(r) == [k |-> "Send", srcNone |-> TRUE, destOK |-> TRUE, seq |-> s.seq, init |-> s.init, initOK |-> TRUE, r |-> r]
\* what a poll can answer: an error, the seqno used (unchanged), a LOWER seqno (a lagging server: the seqno has not advanced
\* either - like unchanged), a higher one (advanced). Lower answers alternate between n-1 and 0.
LowerOf(n, i) == CASE n = "1" -> "0"
                   [] n = "7" -> IF i % 2 = 1 THEN "6" ELSE "0"
                   [] n = "4294967295" -> IF i % 2 = 1 THEN "4294967294" ELSE "0"
                   [] OTHER -> ""                                        \* nothing is below 0
PollsSoFar == SelectSeq(hist, LAMBDA e : e.k = "Poll")
HadLower   == \E i \in 1..Len(PollsSoFar) : PollsSoFar[i].r = "val" /\ PollsSoFar[i].v # s.seq
AllSame    == \A i \in 1..Len(PollsSoFar) : PollsSoFar[i].r = "val" /\ PollsSoFar[i].v = s.seq
\* LowerMode "full": the full product over the four answers (entry points that read the account state);
\* "sparse": at most one lower answer per history, at every position, among unchanged answers, then unchanged / advanced
FullLower  == Params.lowermode = "full" /\ p.entry \in StateEntries
PollErr    == [k |-> "Poll", r |-> "err", v |-> "", own |-> TRUE]
PollVal(x) == [k |-> "Poll", r |-> "val", v |-> x, own |-> TRUE]
PollEvs == (IF FullLower \/ ~HadLower THEN {PollErr} ELSE {})
           \cup {PollVal(s.seq)}
           \cup (IF SuccOf(s.seq) # "" THEN {PollVal(SuccOf(s.seq))} ELSE {})
           \cup (IF LowerOf(s.seq, s.polls + 1) # "" /\ (FullLower \/ (~HadLower /\ AllSame))
                 THEN {PollVal(LowerOf(s.seq, s.polls + 1))} ELSE {})
ReturnRes == CASE s.pc = "got" -> "err"
               [] s.pc = "failed" -> "err"
               [] s.pc = "sent" -> IF ~p.confirm THEN "ok" ELSE IF ~ConfirmSupported(p.ver) THEN "err"
                                   ELSE IF s.adv THEN "ok" ELSE "err"
Polling == s.pc = "sent" /\ p.confirm /\ ConfirmSupported(p.ver) /\ ~s.adv /\ ~s.late

Do(e) == s' = Step(p, s, e) /\ hist' = Append(hist, e) /\ p' = p

Init == p \in ParamSpace /\ s = S0 /\ hist = <<>>
Next ==
  \/ s.pc = "start" /\ p.entry \in StateEntries /\ \E a \in AcctStates : Do([k |-> "GetState", st |-> a.st, n |-> a.n, ext |-> a.ext, own |-> TRUE])
  \/ ((s.pc = "start" /\ p.entry \in RawEntries) \/ (s.pc = "got" /\ s.st # "err")) /\ Do(BuildEv)
  \/ s.pc = "built" /\ \E r \in {"ok", "err"} : Do(SendEv(r))
  \/ Polling /\ s.polls < (IF p.entry \in RawEntries THEN RawMaxPolls ELSE MaxPolls) /\ \E e \in PollEvs : Do(e)
  \/ Polling /\ Do([k |-> "Deadline"])
  \/ ((s.pc = "got" /\ s.st = "err") \/ s.pc = "failed" \/ (s.pc = "sent" /\ ~Polling)) /\ Do([k |-> "Return", res |-> ReturnRes])
Spec == Init /\ [][Next]_vars

\* ---------------------------------------------------------------- vectors
Sel(kind)  == SelectSeq(hist, LAMBDA e : e.k = kind)
SentOK     == \E i \in 1..Len(hist) : hist[i].k = "Send" /\ hist[i].r = "ok"
\* public keys of the seeds, derived once (Prim!EdPubFromSeed = RFC 8032 key generation by the JDK-independent reference code)
PubTab     == FoldLeft(LAMBDA acc, sd : Append(acc, KeyPub(sd)), <<>>, Seeds)
PubBits    == PubTab[CHOOSE i \in 1..Len(Seeds) : Seeds[i] = p.seed]
SubB       == DefaultSubBits(p.ver, p.wc)
NetB       == S(MainnetId, 32)
JsonCells(T) == [i \in 1..Len(T) |-> [b |-> BitsToStr(T[i].b), x |-> T[i].x, r |-> [j \in 1..Len(T[i].r) |-> T[i].r[j] - 1]]]
Vec ==
  LET gs == Sel("GetState")  bd == Sel("Build")  sd == Sel("Send")  pl == Sel("Poll") IN
  [ver |-> p.ver, entry |-> p.entry, confirm |-> p.confirm, wc |-> p.wc, seed |-> p.seed,
   rawseq |-> p.rawseq, rawinit |-> p.rawinit,
   acct |-> IF Len(gs) = 0 THEN [st |-> "", n |-> "", ext |-> FALSE, cells |-> <<>>]
            ELSE [st |-> gs[1].st, n |-> gs[1].n, ext |-> gs[1].ext,
                  cells |-> IF gs[1].st = "active" THEN JsonCells(DataTable(p.ver, gs[1].n, PubBits, p.wc, SubB, NetB, gs[1].ext)) ELSE <<>>],
   send  |-> IF Len(sd) = 0 THEN "" ELSE sd[1].r,
   polls |-> [i \in 1..Len(pl) |-> [r |-> pl[i].r, v |-> pl[i].v]],
   same  |-> IF s.seq = "" THEN "0" ELSE s.seq,
   exp   |-> [sent |-> Len(sd) > 0, seq |-> s.seq, init |-> s.init,
              free |-> Len(bd) > 0 /\ bd[1].free,
              freeconfirm |-> p.confirm /\ ~ConfirmSupported(p.ver),
              res |-> s.res, advanced |-> s.adv, npolls |-> IF s.adv THEN s.polls ELSE -1,
              addr |-> BytesToHex(AddressHash(p.ver, PubBits, p.wc, SubB, NetB))]]
Emit == s.pc = "done" => PrintT(<<"VEC", ToJson(Vec)>>)

\* ------------------------------------------------------------- invariants
NoBad      == s.pc # "bad"
ASSUME CodesOK == \A v \in SendVersions : CodeIsPublished(v)
Clauses    == InvActive(p, s) /\ InvFresh(p, s) /\ InvNoState(p, s) /\ InvConfirm(p, s, SentOK)
\* nothing is sent unless the account state was obtained (or given by the caller), and every history ends
Ordered    == (Len(Sel("Send")) > 0) => (Len(Sel("Build")) = 1 /\ (p.entry \in StateEntries => Len(Sel("GetState")) = 1))
=============================================================================
