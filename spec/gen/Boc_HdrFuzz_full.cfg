CONSTANT Stride = 1
SPECIFICATION Spec
CHECK_DEADLOCK FALSE
