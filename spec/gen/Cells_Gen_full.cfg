CONSTANT NCh = 24
SPECIFICATION Spec
CHECK_DEADLOCK FALSE
