SPECIFICATION Spec
INVARIANTS Emit Coherent
CHECK_DEADLOCK FALSE
