----------------------------- MODULE TlSem_Ids -----------------------------
(* Schema sanity check of C10: for every declaration of schema.json compare   *)
(* the explicit #id with TlSem!ConstructorId (CRC32 of the normalised text,   *)
(* parentheses removed as in the TL documentation, or kept as TON's newer     *)
(* declarations were numbered).  An explicit id always wins (it is what goes  *)
(* on the wire); the comparison only guards the schema file and tl2json.py.   *)
EXTENDS TlSem, Json
S == JsonDeserialize("schema.json")
D == AllDecls(S)
VARIABLE x
Line(i) == LET d == D[i]  a == ConstructorIdOf(d, FALSE)  b == ConstructorIdOf(d, TRUE) IN
           PrintT(<<"ID", ToJson(<<d.ctor, d.id, a, b, IF d.id = a THEN "plain" ELSE IF d.id = b THEN "parens" ELSE "explicit">>)>>)
Init == x = 0 /\ IdsWellFormed(S) /\ \A i \in DOMAIN D : Line(i)
Next == UNCHANGED x
\* ids are what Dec dispatches on: they must be pairwise different within a result type and among functions
Distinct == /\ \A i, j \in TypeIdx(S) : (i # j /\ S.types[i].result = S.types[j].result) => S.types[i].id # S.types[j].id
            /\ \A i, j \in FnIdx(S) : i # j => S.functions[i].id # S.functions[j].id
=============================================================================
