----------------------------- MODULE VmTuple_Gen -----------------------------
(* S->C: spec-built encodings of a decode-only type.  The library has no       *)
(* encoder for TVM tuples (VmStkTuple.MarshalTLB is "not implemented"), so no  *)
(* valid tuple encoding can be recorded from it; this module builds them from   *)
(* the schema (block.tlb, quoted in tlb/stack.go):                              *)
(*   vm_stk_tuple#07 len:(## 16) data:(VmTuple len) = VmStackValue;            *)
(*   vm_tuple_nil$_ = VmTuple 0;                                                *)
(*   vm_tuple_tcons$_ {n:#} head:(VmTupleRef n) tail:^VmStackValue = VmTuple (n + 1); *)
(*   vm_tupref_nil$_ = VmTupleRef 0;                                            *)
(*   vm_tupref_single$_ entry:^VmStackValue = VmTupleRef 1;                     *)
(*   vm_tupref_any$_ {n:#} ref:^(VmTuple (n + 2)) = VmTupleRef (n + 2);         *)
(*   vm_stk_null#00  vm_stk_tinyint#01 value:int64  vm_stk_nan#02ff             *)
(* A tuple of entries e1..en is therefore the cell  07 len16  with the          *)
(* references  <<>> (n=0), <<e1>> (n=1), <<e1,e2>> (n=2), <<T(n-1), en>> (n>=3) *)
(* where T(k) is a data-less cell holding VmTuple k: <<e1,e2>> for k=2,         *)
(* <<T(k-1), ek>> above.                                                        *)
(* Emitted per vector (PrintT(<<"VEC", ToJson(..)>>)):                          *)
(*   boc    bag (Boc!Write) whose root is the VmStackValue                      *)
(*   stack  bag whose root is a VmStack holding that value as its only entry    *)
(*          (vm_stack#_ depth:(## 24) stack:(VmStackList depth);                *)
(*           vm_stk_cons#_ rest:^(VmStackList n) tos:VmStackValue)              *)
(*   cells / stackcells   the same two as cell tables (DESIGN A.3)              *)
(*   n      number of entries of the top-level tuple (of the well-formed base)  *)
(*   kind   "wf" | "len+1" | "len-1" | "no_tail" | "head_leaf" | "len255" | "len256" *)
(*   wf     TRUE iff the bag is a well-formed tuple                             *)
(*   vals   for wf: the value as text, entries in order -                       *)
(*          nil | nan | int:<decimal> | tuple(<e1>,<e2>,..) ; else "ill-formed"*)
(*          (vm_stk_null is written "nil": the runner's lint refuses the word   *)
(*          null anywhere in a trace, the Json module cannot read JSON null)    *)
(* The ill-formed neighbours: the length field of n over the structure of n-1   *)
(* or n+1 entries, the tail reference missing, the head reference pointing at a *)
(* leaf value where a VmTuple cell is due, huge lengths over few references.    *)
EXTENDS Boc, Json
CONSTANTS MaxN, Offsets, Huge      \* entries 0..MaxN; entry patterns 0..Offsets-1; Huge: also len 255 / 256

Null     == [t |-> "null"]
Nan      == [t |-> "nan"]
IntV(v)   == [t |-> "int", v |-> v]
Tup(es)  == [t |-> "tuple", es |-> es]
\* decimal text and 64-bit two's complement of the integers used (TLC integers are 32-bit: given as pairs)
IntBits(v) ==
  CASE v = "0"  -> [i \in 1..64 |-> 0]
    [] v = "42" -> [i \in 1..58 |-> 0] \o <<1, 0, 1, 0, 1, 0>>
    [] v = "7"  -> [i \in 1..61 |-> 0] \o <<1, 1, 1>>
    [] v = "-1" -> [i \in 1..64 |-> 1]
    [] v = "9223372036854775807"  -> <<0>> \o [i \in 1..63 |-> 1]
    [] v = "-9223372036854775808" -> <<1>> \o [i \in 1..63 |-> 0]
Pool == << Null, IntV("42"), Nan, Tup(<<IntV("7")>>), IntV("-1"), Tup(<<>>), Tup(<<Null, Nan>>), IntV("9223372036854775807"),
           Tup(<<IntV("0"), Tup(<<Nan>>), Null>>), IntV("-9223372036854775808") >>
Entries(n, o) == [i \in 1..n |-> Pool[((i + o - 1) % Len(Pool)) + 1]]

Byte(v)  == [i \in 1..8 |-> (v \div (2 ^ (8 - i))) % 2]
U16b(v)  == [i \in 1..16 |-> (v \div (2 ^ (16 - i))) % 2]
U24b(v)  == [i \in 1..24 |-> (v \div (2 ^ (24 - i))) % 2]
Cell(b, r) == [b |-> b, x |-> 0, r |-> r]

RECURSIVE ValueCell(_), TupInline(_), HeadRefs(_), Text(_)
\* references of an inline VmTuple Len(es)
TupInline(es) == IF Len(es) = 0 THEN <<>> ELSE HeadRefs(SubSeq(es, 1, Len(es) - 1)) \o <<ValueCell(es[Len(es)])>>
\* references of an inline VmTupleRef Len(es)
HeadRefs(es)  == IF Len(es) = 0 THEN <<>>
                 ELSE IF Len(es) = 1 THEN <<ValueCell(es[1])>>
                 ELSE <<Cell(<<>>, TupInline(es))>>
TupleCell(lenField, refs) == Cell(Byte(7) \o U16b(lenField), refs)
ValueCell(e) == CASE e.t = "null"  -> Cell(Byte(0), <<>>)
                  [] e.t = "nan"   -> Cell(Byte(2) \o Byte(255), <<>>)
                  [] e.t = "int"   -> Cell(Byte(1) \o IntBits(e.v), <<>>)
                  [] e.t = "tuple" -> TupleCell(Len(e.es), TupInline(e.es))
Text(e) == CASE e.t = "null" -> "nil"
             [] e.t = "nan"  -> "nan"
             [] e.t = "int"  -> StrCat("int:", e.v)
             [] e.t = "tuple" -> StrCat(StrCat("tuple(", FoldLeft(LAMBDA a, i : StrCat(a, StrCat(IF i = 1 THEN "" ELSE ",", Text(e.es[i]))),
                                                                  "", [i \in 1..Len(e.es) |-> i])), ")")

\* a VmStack with one entry: depth 1, the (empty) rest of the list first, the value inline after it
StackOf(vc) == Cell(U24b(1) \o vc.b, <<Cell(<<>>, <<>>)>> \o vc.r)

\* tree -> cell table (root first, references forward)
RECURSIVE Flat(_)
Flat(t) ==
  LET subs == [i \in 1..Len(t.r) |-> Flat(t.r[i])]
      offs == [i \in 1..Len(subs) |-> 1 + FoldLeft(LAMBDA a, j : a + Len(subs[j]), 0, [j \in 1..(i - 1) |-> j])]
      shifted == [i \in 1..Len(subs) |-> [c \in 1..Len(subs[i]) |->
                    [subs[i][c] EXCEPT !.r = [j \in 1..Len(subs[i][c].r) |-> subs[i][c].r[j] + offs[i]]]]]
  IN <<[b |-> t.b, x |-> 0, m |-> 0, r |-> [i \in 1..Len(subs) |-> offs[i] + 1]]>> \o FoldLeft(LAMBDA a, x : a \o x, <<>>, shifted)
TableJson(T) == [i \in 1..Len(T) |-> [b |-> BitsToStr(T[i].b), x |-> T[i].x, r |-> [j \in 1..Len(T[i].r) |-> T[i].r[j] - 1]]]
Choice(i) == [magic |-> "generic", idx |-> (i % 2 = 0), crc |-> (i % 3 = 0), cache |-> FALSE, size |-> 1, ob |-> 2, hashes |-> FALSE]

Kinds == {"wf", "len+1", "len-1", "no_tail", "head_leaf"} \cup (IF Huge THEN {"len255", "len256"} ELSE {})
Applicable(n, k) == CASE k = "len-1" -> n >= 1 [] k = "no_tail" -> n >= 1 [] k = "head_leaf" -> n >= 3 [] OTHER -> TRUE

\* the value cell of the vector
Built(n, o, k) ==
  LET es == Entries(n, o)
      good == TupInline(es) IN
  CASE k = "wf"        -> TupleCell(n, good)
    [] k = "len+1"     -> TupleCell(n + 1, good)
    [] k = "len-1"     -> TupleCell(n - 1, good)
    [] k = "no_tail"   -> TupleCell(n, SubSeq(good, 1, Len(good) - 1))
    [] k = "head_leaf" -> TupleCell(n, <<ValueCell(IntV("42")), good[2]>>)
    [] k = "len255"    -> TupleCell(255, good)
    [] k = "len256"    -> TupleCell(256, good)

VARIABLES n, o, k, out
Vector ==
  LET vc == Built(n, o, k)
      T  == Flat(vc)
      S  == Flat(StackOf(vc)) IN
  [n |-> n, kind |-> k, wf |-> (k = "wf"), vals |-> IF k = "wf" THEN Text(Tup(Entries(n, o))) ELSE "ill-formed",
   boc |-> BytesToHex(Write(T, <<1>>, Choice(n + o))), stack |-> BytesToHex(Write(S, <<1>>, Choice(n + o + 1))),
   cells |-> TableJson(T), stackcells |-> TableJson(S)]
Init == n \in 0..MaxN /\ o \in 0..(Offsets - 1) /\ k \in Kinds /\ Applicable(n, k) /\ out = "todo"
Next == out = "todo" /\ out' = "done" /\ UNCHANGED <<n, o, k>> /\ PrintT(<<"VEC", ToJson(Vector)>>)
Spec == Init /\ [][Next]_<<n, o, k, out>>
=============================================================================
