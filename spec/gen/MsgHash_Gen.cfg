CONSTANTS
  Part = "case"
  Mode = "near"
SPECIFICATION Spec
INVARIANTS Emit Coherent
CHECK_DEADLOCK FALSE
