CONSTANTS
  MaxN = 5
  Offsets = 4
  Huge = FALSE
SPECIFICATION Spec
CHECK_DEADLOCK FALSE
