CONSTANT Full = FALSE
SPECIFICATION Spec
CHECK_DEADLOCK FALSE
