SPECIFICATION Spec
CONSTANT Full = FALSE
CHECK_DEADLOCK FALSE
