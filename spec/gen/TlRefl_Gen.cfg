CONSTANTS
  Seed = 1
  Rounds = 6
SPECIFICATION Spec
INVARIANT Emit
CHECK_DEADLOCK FALSE
