----------------------------- MODULE NetConfig_Gen -----------------------------
(* S->C for X06 (configuration file).  TLC writes configuration files (the JSON  *)
(* text is assembled here, from the abstract server list) and states what a      *)
(* reader must return.  A state is <<level, group, case>>.                       *)
EXTENDS NetConfig, Json, TLC
VARIABLE c

S    == ndJsonDeserialize("samples.ndjson")[1]
Keys == S.keys                          \* base64 texts of random 32-byte keys
Ips  == <<"0", "1", "-1", "2147483647", "-2147483648", "2130706433", "84478511", "-2018135749", "16777216", "-16777216", "255", "-256",
          "2147483648", "4294967295", "3232235777", "4294967296", "-2147483649", "9223372036854775807", "-9223372036854775808">> \o S.ips
Ports == <<"0", "1", "80", "4924", "65535", "65536", "-1", "2147483648">>
Srv(ip, port, type, key) == [ip |-> ip, port |-> port, type |-> type, key |-> key]

\* ---------------------------------------------------------- the JSON text
Cat(seq) == FoldLeft(LAMBDA a, x : StrCat(a, x), "", seq)
RECURSIVE JoinWith(_, _)
JoinWith(seq, sep) == IF Len(seq) = 0 THEN "" ELSE IF Len(seq) = 1 THEN seq[1] ELSE StrCat(seq[1], StrCat(sep, JoinWith(Tail(seq), sep)))
Esc(key, v) == IF v # "escaped" THEN key ELSE          \* "/" as "\/" and "+" as "+": the same JSON string
  CodesToStr(FoldLeft(LAMBDA a, x : a \o (IF x = 47 THEN <<92, 47>> ELSE IF x = 43 THEN StrToCodes("\\u002b") ELSE <<x>>), <<>>, StrToCodes(key)))
ServerJson(s, v) ==
  LET id == Cat(<<"{\"@type\":\"", s.type, "\",\"key\":\"", Esc(s.key, v), "\"}">>) IN
  CASE v = "reordered" -> Cat(<<"{\"id\":", id, ",\"port\":", s.port, ",\"ip\":", s.ip, "}">>)
    [] v = "extra"     -> Cat(<<"{\"ip\":", s.ip, ",\"port\":", s.port, ",\"provided\":\"someone\",\"id\":", id, ",\"weight\":1.5}">>)
    [] v = "spaced"    -> Cat(<<"{\n    \"ip\": ", s.ip, ",\n    \"port\": ", s.port, ",\n    \"id\": ", id, "\n  }">>)
    [] OTHER           -> Cat(<<"{\"ip\":", s.ip, ",\"port\":", s.port, ",\"id\":", id, "}">>)
FileJson(servers, v) ==
  LET list == JoinWith([i \in 1..Len(servers) |-> ServerJson(servers[i], v)], ",") IN
  CASE v = "extra"    -> Cat(<<"{\"@type\":\"config.global\",\"dht\":{\"k\":6,\"a\":3,\"static_nodes\":{\"nodes\":[]}},\"liteservers\":[", list,
                               "],\"validator\":{\"@type\":\"validator.config.global\",\"zero_state\":{\"workchain\":-1,\"seqno\":0}}}">>)
    [] v = "spaced"   -> Cat(<<"{\n  \"liteservers\": [\n  ", list, "\n  ]\n}\n">>)
    [] v = "nokey"    -> "{\"dht\":{\"k\":6},\"validator\":{}}"
    [] v = "nullkey"  -> "{\"liteservers\":null}"
    [] OTHER          -> Cat(<<"{\"liteservers\":[", list, "]}">>)
Variants == {"canon", "reordered", "extra", "spaced", "escaped"}

Vec(cl, servers, v) ==
  LET cls == Classes(servers)
      det == cls \subseteq {"ok", "skip"}
      ok  == SelectSeq(servers, LAMBDA s : ServerClass(s) = "ok")
      sv  == IF v \in {"nokey", "nullkey"} THEN <<>> ELSE servers
  IN [k |-> "cfg", cl |-> cl, variant |-> v, servers |-> sv, json |-> BytesToHex(StrToCodes(FileJson(servers, v))),
      det |-> det \/ v \in {"nokey", "nullkey"},
      err |-> (v \in {"nokey", "nullkey"}) \/ (det /\ Len(ok) = 0),
      list |-> IF v \in {"nokey", "nullkey"} THEN <<>> ELSE [i \in 1..Len(ok) |-> Entry(ok[i])],
      classes |-> [i \in 1..Len(sv) |-> ServerClass(sv[i])]]

K(i) == Keys[((i - 1) % Len(Keys)) + 1]
Groups == {<<"one", i>> : i \in 1..Len(Ips)} \cup {<<"lists", 0>>, <<"variants", 0>>}
Cases(g) == CASE g[1] = "one"      -> {<<p, t>> : p \in 1..Len(Ports), t \in {"pub.ed25519"}} \cup {<<3, "pub.aes">>}
              [] g[1] = "lists"    -> 1..12
              [] g[1] = "variants" -> {<<v, n>> : v \in Variants \cup {"nokey", "nullkey"}, n \in {1, 3}}
Good(i) == Srv(Ips[((i - 1) % 12) + 1], Ports[((i - 1) % 5) + 1], "pub.ed25519", K(i))
Other(i) == Srv(Ips[((i - 1) % 12) + 1], "80", "pub.aes", K(i))
ListCase(n) ==
  CASE n = 1 -> <<>>
    [] n = 2 -> <<Other(1)>>
    [] n = 3 -> <<Other(1), Other(2)>>
    [] n = 4 -> <<Good(1), Other(2), Good(3)>>
    [] n = 5 -> <<Other(1), Good(2)>>
    [] n = 6 -> <<Good(1), Good(2), Good(3), Good(4), Good(5), Good(6), Good(7), Good(8)>>
    [] n = 7 -> <<Good(1), Good(1)>>                                                     \* the same server twice
    [] n = 8 -> <<Srv("4294967295", "80", "pub.ed25519", K(1)), Good(2)>>                \* free, then ok
    [] n = 9 -> <<Srv("4294967296", "80", "pub.ed25519", K(1)), Good(2)>>                \* lax, then ok
    [] n = 10 -> <<Srv("4294967296", "80", "pub.ed25519", K(1))>>                        \* lax only
    [] n = 11 -> <<Srv("3232235777", "80", "pub.ed25519", K(1))>>                        \* free only
    [] n = 12 -> <<Good(3), Srv("-2147483649", "80", "pub.ed25519", K(2)), Other(4), Good(5)>>
Out(g, x) == CASE g[1] = "one"      -> LET s == Srv(Ips[g[2]], Ports[x[1]], x[2], K(g[2] + x[1])) IN
                                       Vec(StrCat("cfg:one:", ServerClass(s)), <<s>>, "canon")
               [] g[1] = "lists"    -> Vec("cfg:list", ListCase(x), "canon")
               [] g[1] = "variants" -> Vec(StrCat("cfg:variant:", x[1]), IF x[2] = 1 THEN <<Good(2)>> ELSE <<Good(1), Other(2), Good(3)>>, x[1])

Init == c \in {<<0, g, 0>> : g \in Groups}
Next == c[1] = 0 /\ c' \in {<<1, c[2], x>> : x \in Cases(c[2])}
Spec == Init /\ [][Next]_c
Emit == c[1] = 1 => PrintT(<<"VEC", ToJson(Out(c[2], c[3]))>>)
\* coherence: the deterministic expectation is a reading the specification admits
Coherent == c[1] = 1 => LET v == Out(c[2], c[3]) IN
              (v.det /\ v.variant \notin {"nokey", "nullkey"}) => Admitted(v.servers, IF v.err THEN "e" ELSE "", v.list)
=============================================================================
