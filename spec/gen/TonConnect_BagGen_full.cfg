SPECIFICATION Spec
CONSTANT Full = TRUE
CHECK_DEADLOCK FALSE
