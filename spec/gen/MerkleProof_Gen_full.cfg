CONSTANTS
  MaxOps = 12
  Free = FALSE
SPECIFICATION Spec
INVARIANT Emit
CHECK_DEADLOCK FALSE
