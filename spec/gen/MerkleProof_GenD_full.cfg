CONSTANTS
  Types = {}
  MaxSet = 5
  MaxAbsent = 4
SPECIFICATION Spec
CHECK_DEADLOCK FALSE
