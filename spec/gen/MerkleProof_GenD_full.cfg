CONSTANTS
  Types = {}
  MaxSet = 5
  MaxAbsent = 4
  TwoStep = FALSE
SPECIFICATION Spec
CHECK_DEADLOCK FALSE
