---------------------------- MODULE MsgHashSeq_Gen ----------------------------
(* S->C: every behaviour of MsgHashSeq of Depth decodes over two cells, two    *)
(* destination values and the two kinds of decoder (package-level Unmarshal /  *)
(* a decoder with a caching hasher).  The harness replays each behaviour on    *)
(* real cells and real variables -- once with message cells, once with         *)
(* transaction cells -- observing every destination after every step;          *)
(* MsgHash_SeqTrace validates the recording against MsgHashSeq.                *)
EXTENDS MsgHashSeq, Json
CONSTANT Depth
VARIABLE hist
Cs == {"A", "B"}
Ds == 1..2
Decoders == {"plain", "cached"}
Init == SeqInit(Cs, Ds) /\ hist = <<>>
Next == /\ Len(hist) < Depth
        /\ \E c \in Cs, d \in Ds, k \in Decoders :
              /\ Decode(c, d, TRUE)
              /\ hist' = Append(hist, [c |-> c, d |-> d, dec |-> k, holds |-> [x \in Ds |-> holds'[x]]])
Spec == Init /\ [][Next]_<<svars, hist>>
Emit == Len(hist) = Depth => PrintT(<<"VEC", ToJson([k |-> "session", steps |-> hist])>>)
=============================================================================
