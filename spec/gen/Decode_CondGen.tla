--------------------------- MODULE Decode_CondGen ---------------------------
(* S->C for C08: well-formed cells built FROM THE SCHEMA with the conditional  *)
(* fields present.  Recorded encodings and fixtures only show the combinations *)
(* the live chain produces (a block_info never has vert_seqno_incr = 1, so its *)
(* prev_vert_ref branch is never decoded); the schema says which combinations  *)
(* exist.  For every type of schema.json (tools/tlb2json.py over              *)
(* spec/schemas/*.tlb) whose constructor has a field that other fields depend  *)
(* on - the field of a condition  name:(flag . bit)?T / name:flag?T  or the    *)
(* parameter of  (T flag)  - this module enumerates EVERY assignment of those  *)
(* fields (each condition true and false, each parameter 0 and 1), fills the   *)
(* rest with small fixed values (integers 7 / 3, alternating bits, optional    *)
(* fields present, first constructors, empty dictionaries), encodes the value  *)
(* with TlbSem!Enc and writes the bag with Boc!Write.                          *)
(* Each vector: type (schema name), on (the fields set, as text), cells (cell  *)
(* table of the value), boc; and for BlockInfo the same value under a block    *)
(* header ( block#11ef55aa global_id:int32 info:^BlockInfo ... ) as hdrcells.  *)
EXTENDS TlbSem, Json, FiniteSetsExt

S == JsonDeserialize("schema.json")
Names == DOMAIN S

\* ---- which fields of a constructor steer others
RECURSIVE Steers(_)
Steers(ty) == CASE ty.t = "cond"   -> {ty.from} \cup Steers(ty.of)
                [] ty.t = "ref"    -> Steers(ty.of)
                [] ty.t = "pnamed" -> IF IsDigits(ty.arg) THEN {} ELSE {ty.arg}
                [] OTHER -> {}
Toggles(seq) == UNION {Steers(seq.fields[i].ty) : i \in 1..Len(seq.fields)}
\* the bit a flag field needs for its conditions (bit < 0: any non-zero value)
FlagValue(seq, name) ==
  LET bits == {seq.fields[i].ty.bit : i \in {j \in 1..Len(seq.fields) : seq.fields[j].ty.t = "cond" /\ seq.fields[j].ty.from = name}} IN
  IF bits = {} \/ \E b \in bits : b < 0 THEN 1 ELSE FoldLeft(LAMBDA a, b : a + 2 ^ b, 0, SetToSeq(bits))

Alt(n) == FoldLeft(LAMBDA a, i : StrCat(a, IF i % 2 = 1 THEN "1" ELSE "0"), "", [i \in 1..n |-> i])
EmptyCellJson == [b |-> "", x |-> 0, r |-> <<>>]

\* ---- a small well-formed value of a type; on = the steering fields that are set (names), env as TlbSem keeps it
RECURSIVE Val(_, _, _), SeqVal(_, _)
SeqVal(seq, on) ==
  LET tg == Toggles(seq) IN
  [i \in 1..Len(seq.fields) |->
     LET f == seq.fields[i] IN
     IF f.name \in tg
       THEN IF f.ty.t = "bool" THEN f.name \in on ELSE (IF f.name \in on THEN ToString(FlagValue(seq, f.name)) ELSE "0")
       ELSE Val(f.ty, on, seq)]
Val(ty, on, seq) ==
  CASE ty.t = "uint"    -> IF ty.n >= 3 THEN "7" ELSE "1"
    [] ty.t = "int"     -> IF ty.n >= 3 THEN "3" ELSE "0"
    [] ty.t = "bits"    -> Alt(ty.n)
    [] ty.t = "bool"    -> TRUE
    [] ty.t = "natle"   -> "0"
    [] ty.t = "natlt"   -> "0"
    [] ty.t = "unary"   -> "2"
    [] ty.t = "varuint" -> "5"
    [] ty.t = "magic"   -> ""
    [] ty.t = "maybe"   -> [has |-> TRUE, v |-> Val(ty.of, on, seq)]
    [] ty.t = "either"  -> [right |-> FALSE, v |-> Val(ty.l, on, seq)]
    [] ty.t = "ref"     -> Val(ty.of, on, seq)
    [] ty.t = "cell"    -> EmptyCellJson
    [] ty.t = "any"     -> EmptyCellJson
    [] ty.t = "dict"    -> <<>>
    [] ty.t = "named"   -> Val(S[ty.name], {}, seq)
    [] ty.t = "seq"     -> SeqVal(ty, on)
    [] ty.t = "sum"     -> [c |-> ty.ctors[1].name, v |-> Val(ty.ctors[1].body, {}, seq)]
    [] ty.t = "cond"    -> IF ty.from \in on THEN [has |-> TRUE, v |-> Val(ty.of, on, seq)] ELSE [has |-> FALSE]
    [] ty.t = "pnamed"  ->
         LET p  == IF IsDigits(ty.arg) THEN DecToNat(ty.arg) ELSE (IF ty.arg \in on THEN 1 ELSE 0)
             cs == S[ty.name].ctors
             k  == cs[CHOOSE i \in 1..Len(cs) : cs[i].param = p] IN
         [c |-> k.name, v |-> Val(k.body, {}, seq)]

Steered == {n \in Names : S[n].t = "seq" /\ Toggles(S[n]) # {}}

\* ---- tree -> cell table
RECURSIVE Flat(_)
Flat(t) ==
  LET subs == [i \in 1..Len(t.r) |-> Flat(t.r[i])]
      offs == [i \in 1..Len(subs) |-> 1 + FoldLeft(LAMBDA a, j : a + Len(subs[j]), 0, [j \in 1..(i - 1) |-> j])]
      shifted == [i \in 1..Len(subs) |-> [c \in 1..Len(subs[i]) |->
                    [subs[i][c] EXCEPT !.r = [j \in 1..Len(subs[i][c].r) |-> subs[i][c].r[j] + offs[i]]]]]
  IN <<[b |-> t.b, x |-> t.x, r |-> [i \in 1..Len(subs) |-> offs[i] + 1]]>> \o FoldLeft(LAMBDA a, x : a \o x, <<>>, shifted)
TableJson(T) == [i \in 1..Len(T) |-> [b |-> BitsToStr(T[i].b), x |-> T[i].x, r |-> [j \in 1..Len(T[i].r) |-> T[i].r[j] - 1]]]
OnText(seq, on) == FoldLeft(LAMBDA a, i : IF seq.fields[i].name \in on THEN StrCat(a, StrCat(IF a = "" THEN "" ELSE "+", seq.fields[i].name)) ELSE a,
                            "", [i \in 1..Len(seq.fields) |-> i])

\* block#11ef55aa global_id:int32 info:^BlockInfo value_flow:^ValueFlow state_update:^(..) extra:^BlockExtra: the header part
HeaderOf(info) == [b |-> HexBits("11ef55aa") \o SBits("-239", 32), x |-> 0, r |-> <<info>>]

VARIABLES n, on, out
Vector ==
  LET r == Enc(S, S[n], SeqVal(S[n], on)) IN
  IF ~r.ok THEN [type |-> n, on |-> OnText(S[n], on), ok |-> FALSE, err |-> r.err]
  ELSE [type |-> n, on |-> OnText(S[n], on), ok |-> TRUE, cells |-> TableJson(Flat(r.c)),
        hdrcells |-> IF n = "BlockInfo" THEN TableJson(Flat(HeaderOf(r.c))) ELSE <<>>]
Init == n \in Steered /\ on \in SUBSET Toggles(S[n]) /\ out = "todo"
Next == out = "todo" /\ out' = "done" /\ UNCHANGED <<n, on>> /\ PrintT(<<"VEC", ToJson(Vector)>>)
Spec == Init /\ [][Next]_<<n, on, out>>
=============================================================================
