SPECIFICATION Spec
CONSTANT TimeProduct = "full"
CHECK_DEADLOCK FALSE
