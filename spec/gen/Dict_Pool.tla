------------------------------ MODULE Dict_Pool ------------------------------
(* Key pools and value functions shared by the C05 generators.                *)
EXTENDS Dict, Boc, Json
CONSTANTS Types,      \* set of <<kind, n>>: kind \in {"u","i","b","a"}, n = key width in bits
          MaxSet      \* largest key set
TypesQuick == { <<"u",1>>, <<"u",2>>, <<"u",8>>, <<"u",9>>, <<"u",16>>, <<"u",32>>, <<"u",64>>, <<"i",8>>, <<"i",32>>, <<"i",64>>, <<"b",256>> }
TypesAll == TypesQuick \cup { <<"u",15>>, <<"i",16>>, <<"b",80>>, <<"b",96>>, <<"b",264>>, <<"b",512>>, <<"a",288>> }
\* key types beyond the ones the library itself instantiates dictionaries with: a sample of the other generated integer / bits
\* types (every one of them is key-capable: KeyOps.tla), of varied widths incl. 3, 7 (below a byte), 24, 48 (whole bytes), 33, 63
TypesNewQuick == { <<"u",3>>, <<"i",7>>, <<"u",33>>, <<"i",63>>, <<"b",128>> }
TypesNew == TypesNewQuick \cup { <<"u",7>>, <<"u",24>>, <<"u",48>>, <<"u",63>>, <<"i",3>>, <<"i",24>>, <<"i",33>>, <<"b",320>>, <<"b",352>> }
TypesQuickF == TypesQuick \cup TypesNewQuick       \* Dict_Gen, quick
TypesAllF == TypesAll \cup TypesNew                \* Dict_Gen, full
\* foreign dictionaries (Dict_GenF): label forms are read before the key type comes into play (it only decodes the leaf's
\* key bits), so a smaller sample of the additional types takes part there
TypesQuickFF == TypesQuick \cup { <<"i",7>>, <<"u",33>>, <<"b",128>> }
TypesAllFF == TypesAll \cup TypesNewQuick
Alt(n, s) == [i \in 1..n |-> (i + s) % 2]
Z(n) == [i \in 1..n |-> 0]
O(n) == [i \in 1..n |-> 1]
\* adversarial keys of width n: all-zero, all-one, lowest, highest bit, alternating, long common prefixes, runs >= 8
PoolSeq(n) ==
  LET raw == << Z(n), O(n), Z(n - 1) \o <<1>>, <<1>> \o Z(n - 1), Alt(n, 0), Alt(n, 1), O(n - 1) \o <<0>>, <<0>> \o O(n - 1) >>
                \o (IF n >= 10 THEN << O(9) \o Z(n - 9), Z(9) \o O(n - 9), O(8) \o Z(n - 9) \o <<1>>, Z(8) \o <<1>> \o Z(n - 9) >> ELSE <<>>)
  IN raw
Pool(n) == {PoolSeq(n)[i] : i \in 1..Len(PoolSeq(n))}
\* address keys (kind "a": workchain:int32 address:bits256) whose workchain fits the library's int8 field:
\* the top 25 bits are copies of the sign bit
FixAddr(k) == [i \in 1..Len(k) |-> IF i <= 24 THEN k[25] ELSE k[i]]
\* address keys also take the extreme workchains -128 (1 x 25, 0 x 7) and 127 (0 x 25, 1 x 7)
MinWc(n) == [i \in 1..n |-> IF i <= 25 THEN 1 ELSE 0]
MaxWc(n) == [i \in 1..n |-> IF i <= 25 THEN 0 ELSE IF i <= 32 THEN 1 ELSE 0]
PoolOf(ty) == IF ty[1] = "a" THEN {FixAddr(k) : k \in Pool(ty[2])} \cup {MinWc(ty[2]), MaxWc(ty[2])} ELSE Pool(ty[2])
Val(k) == LET src == k \o Alt(32, Len(k)) IN [i \in 1..32 |-> (src[i] + (IF i % 3 = 0 THEN 1 ELSE 0)) % 2]
Val2(k) == [i \in 1..32 |-> 1 - Val(k)[i]]

\* Vectors spell bit strings with the letters o (0) and i (1): the runner scans TLC's whole output with patterns that look
\* for numbers, and megabytes of 512-digit runs cost it minutes; it translates the letters back for the vectors it replays.
Lt(b) == CodesToStr([i \in 1..Len(b) |-> IF b[i] = 1 THEN 105 ELSE 111])
SortedItems(m) == SortSeq(SetToSeq(m), LAMBDA a, b : BitsLess(a[1], b[1]))
ItemsJson(m) == LET s == SortedItems(m) IN [i \in 1..Len(s) |-> <<BitsToStr(s[i][1]), BitsToStr(s[i][2])>>]
ItemsLt(m) == LET s == SortedItems(m) IN [i \in 1..Len(s) |-> <<Lt(s[i][1]), Lt(s[i][2])>>]
=============================================================================
