----------------------------- MODULE KeyOps_Gen -----------------------------
(* S->C for C05 (3): per key type (kind, n) the boundary keys of the width -   *)
(* 0, 1, 2, max, max-1, the signed minimum / maximum and their neighbours, -1,  *)
(* -2, top-bit and second-bit patterns, byte-boundary patterns, alternating     *)
(* bits, and Rnd random keys with their top-bit and low-bit neighbours - and    *)
(* the pairs (i <= j, incl. the equal pairs) on which FixedSize / Equal /       *)
(* Compare of every Go type of that width are called in both directions.        *)
(* The widths cover everything a key type of the library can have: integers of  *)
(* 1..64 bits, byte strings of 8..512 bits, the 288-bit address key.            *)
EXTENDS KeyOps, Json
CONSTANT Rnd        \* random keys per type
Z(n) == [i \in 1..n |-> 0]
O(n) == [i \in 1..n |-> 1]
Alt(n, s) == [i \in 1..n |-> (i + s) % 2]
KeyTypes == {<<"u", n>> : n \in 1..64} \cup {<<"i", n>> : n \in 1..64} \cup {<<"b", 8 * k>> : k \in 1..64} \cup {<<"a", 288>>}

ASSUME OrdersAreStrictTotal(4)
ASSUME SignedIsNumeric(5) /\ UnsignedIsNumeric(5) /\ BitOrderKinds(5) /\ SignedVsBits(5)
ASSUME LET B == {0, 1, 127, 128, 255} IN BytesAreBytewise({<<x, y>> : x \in B, y \in B})

\* the runner's seed (keyseed.ndjson: {"seed": "<decimal>"}) only selects WHICH random keys are taken: bits of
\* SHA-256(seed / kind / n / index / block)
KSeed == ndJsonDeserialize("keyseed.ndjson")[1].seed
RandKey(ty, x) == LET salt == StrCat(KSeed, StrCat("/", StrCat(ty[1], StrCat(BitsToDec(NatToBits(ty[2], 10)), StrCat("/", BitsToDec(NatToBits(x, 10)))))))
                      bits == BytesToBits(Sha256(StrToCodes(StrCat(salt, "/0"))) \o Sha256(StrToCodes(StrCat(salt, "/1"))))
                  IN SubSeq(bits, 1, ty[2])
Flip(k, i) == [k EXCEPT ![i] = 1 - k[i]]
Boundary(n) ==
  {Z(n), O(n), Z(n - 1) \o <<1>>, <<1>> \o Z(n - 1), <<0>> \o O(n - 1), O(n - 1) \o <<0>>, Alt(n, 0), Alt(n, 1)}
  \cup (IF n >= 2 THEN {Z(n - 2) \o <<1, 0>>, <<0>> \o O(n - 2) \o <<0>>, <<1>> \o Z(n - 2) \o <<1>>, <<1, 1>> \o Z(n - 2), <<0, 1>> \o Z(n - 2)} ELSE {})
  \cup (IF n >= 16 THEN {Z(7) \o <<1>> \o Z(n - 8), Z(8) \o <<1>> \o Z(n - 9), Z(n - 9) \o <<1>> \o Z(8), Z(n - 8) \o <<1>> \o Z(7)} ELSE {})
\* address keys whose workchain fits the library's int8 field (the top 25 bits are copies of the sign bit), plus the
\* extreme workchains -128 and 127 and the neighbours of zero
FixAddr(k) == [i \in 1..Len(k) |-> IF i <= 24 THEN k[25] ELSE k[i]]
AddrExtra(n) == { [i \in 1..n |-> IF i <= 25 THEN 1 ELSE 0], [i \in 1..n |-> IF i <= 25 THEN 0 ELSE IF i <= 32 THEN 1 ELSE 0],
                  O(32) \o Z(n - 32), O(32) \o O(n - 32), Z(31) \o <<1>> \o Z(n - 32), Z(32) \o O(n - 32) }
Rands(ty, r) == UNION { LET k == RandKey(ty, x) IN {k, Flip(k, 1), Flip(k, ty[2])} : x \in 1..r }
KeysOf(ty) == LET raw == Boundary(ty[2]) \cup Rands(ty, Rnd) IN
              IF ty[1] = "a" THEN {FixAddr(k) : k \in raw} \cup AddrExtra(ty[2]) ELSE raw
Vec(ty, keys) == LET s == SetToSeq(keys) IN
                 [kind |-> ty[1], n |-> ty[2], vals |-> [i \in 1..Len(s) |-> BitsToStr(s[i])],
                  pairs |-> SetToSeq({<<i, j>> \in (1..Len(s)) \X (1..Len(s)) : i <= j})]

VARIABLES kty, kout
KInit == kty \in KeyTypes /\ kout = "todo"
KNext == kout = "todo" /\ kout' = "done" /\ UNCHANGED kty /\ PrintT(<<"VEC", ToJson(Vec(kty, KeysOf(kty)))>>)
KSpec == KInit /\ [][KNext]_<<kty, kout>>
=============================================================================
