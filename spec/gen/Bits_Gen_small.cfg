CONSTANTS
  Cap = 12
  Depth = 2
  Widths = {0, 1, 3, 4, 5}
  BigWidths = {1, 7, 9}
SPECIFICATION Spec
INVARIANTS TypeOK Emit
PROPERTY AppendOnly
CHECK_DEADLOCK FALSE
