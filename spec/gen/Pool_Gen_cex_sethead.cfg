CONSTANTS
  NC = 1
  Waiters = {1}
  None = 0
  RunP = 99
  MaxSeq = 13
  Steps = {1}
  Wants = {14}
  Timeouts = {1000000000}
  UpdCap = 10
  MaxTime = 0
  Strategy = "first-working"
  Rtt0 <- GRtt
  MaxFlips = 0
  FixNotify = TRUE
  FixTimer = TRUE
  FixSetHead = FALSE
  Depth = 64
  Mode = "cex"
SPECIFICATION GenSpec
VIEW View
INVARIANTS Emit
CHECK_DEADLOCK FALSE
