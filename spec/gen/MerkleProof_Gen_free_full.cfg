CONSTANTS
  MaxOps = 6
  Free = TRUE
SPECIFICATION Spec
INVARIANT Emit
CHECK_DEADLOCK FALSE
