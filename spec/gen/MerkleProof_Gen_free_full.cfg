CONSTANTS
  MaxOps = 4
  MaxReq = 2
  TwoStep = FALSE
  Exotic = FALSE
  Hold = FALSE
  Free = TRUE
SPECIFICATION Spec
INVARIANT Emit
CHECK_DEADLOCK FALSE
