--------------------------- MODULE TonConnect_BagGen ---------------------------
(* S->C for C19, garbage state-init family: bags whose CONTAINER conforms       *)
(* (written by the reference writer Boc!Write) and whose root is an ordinary    *)
(* StateInit cell with code and data -- but one of the cells below it is an      *)
(* exotic cell of every type (pruned branch of every stored mask, library,      *)
(* Merkle proof, Merkle update, unknown types) with every data length around    *)
(* what the type needs (a pruned branch with its hashes but without its depths, *)
(* a library cell of 32 bytes, ...), with 0..3 references, as the code cell, as  *)
(* the data cell, or below an ordinary code cell.  (The cell family is the one   *)
(* C07 uses in Boc_SemFuzz; Canon / Body are taken from there.)                  *)
(* Each bag is presented as the state-init of an otherwise honest proof whose    *)
(* key must come from the state-init, for the account id the bag hashes to where *)
(* it can be hashed.  None of them is a known wallet: TonConnect requires a      *)
(* rejection with an error, and no crash; `why` names the first fact that fails. *)
EXTENDS TonConnect, Json
CONSTANT Full

Cl(b, x, r, m) == [b |-> b, x |-> x, r |-> r, m |-> m]
Rep(n, v) == [i \in 1..n |-> v]
RECURSIVE Depths(_)
Depths(n) == IF n = 0 THEN <<>> ELSE <<0, 3>> \o Depths(n - 1)
Canon(t, im) == CASE t = 1 -> <<1, im>> \o Rep(32 * Pop(im), 7) \o Depths(Pop(im))
                  [] t = 2 -> <<2>> \o Rep(32, 7)
                  [] t = 3 -> <<3>> \o Rep(32, 7) \o <<0, 1>>
                  [] t = 4 -> <<4>> \o Rep(64, 7) \o <<0, 1, 0, 1>>
                  [] OTHER -> <<t>> \o Rep(8, 7)
Body(t, im, L) == SubSeq(Canon(t, im) \o Rep(4, 9), 1, L)

\* Cells no serialiser writes, as raw bytes (d1 d2 data refs), `k` = index the references point to:
\* flagged exotic with no data at all (with and without level bits), d2 odd without a completion tag, 5..7 references.
RawCells == << [n |-> "exotic_empty",        c |-> [k \in 0..9 |-> <<8, 0>>],               refs |-> FALSE],
               [n |-> "exotic_empty_level",  c |-> [k \in 0..9 |-> <<40, 0>>],              refs |-> FALSE],
               [n |-> "exotic_empty_hashes", c |-> [k \in 0..9 |-> <<24, 0>>],              refs |-> FALSE],
               [n |-> "exotic_empty_1ref",   c |-> [k \in 0..9 |-> <<9, 0, k>>],            refs |-> TRUE],
               [n |-> "no_completion_tag_1", c |-> [k \in 0..9 |-> <<0, 1, 0>>],            refs |-> FALSE],
               [n |-> "no_completion_tag_3", c |-> [k \in 0..9 |-> <<0, 3, 90, 0>>],        refs |-> FALSE],
               [n |-> "exotic_no_tag",       c |-> [k \in 0..9 |-> <<8, 1, 0>>],            refs |-> FALSE],
               [n |-> "refs_5",              c |-> [k \in 0..9 |-> <<5, 0, k, k, k, k, k>>], refs |-> TRUE],
               [n |-> "refs_6",              c |-> [k \in 0..9 |-> <<6, 0, k, k, k, k, k, k>>], refs |-> TRUE],
               [n |-> "refs_7",              c |-> [k \in 0..9 |-> <<7, 0, k, k, k, k, k, k, k>>], refs |-> TRUE],
               [n |-> "exotic_refs_7",       c |-> [k \in 0..9 |-> <<15, 0, k, k, k, k, k, k, k>>], refs |-> TRUE] >>
\* a generic bag (1-byte counters, no index, no checksum, root = cell 0) around the given cells
RawBag(cells) == LET data == FoldLeft(LAMBDA a, x : a \o x, <<>>, cells) IN
                 <<181, 238, 156, 114, 1, 1, Len(cells), 1, 0, Len(data), 0>> \o data
RawRoot  == <<2, 1, 52, 1, 2>>                  \* the StateInit root 00110 with its completion tag, references to cells 1 and 2
RawPlain == <<0, 2, 90>>
RawLeaf  == <<0, 0>>
RawTable(i, pl) ==
  LET R == RawCells[i]  tl == IF R.refs THEN <<RawLeaf>> ELSE <<>> IN
  CASE pl = "root" -> <<R.c[1]>> \o tl
    [] pl = "code" -> <<RawRoot, R.c[3], RawPlain>> \o tl
    [] pl = "data" -> <<RawRoot, RawPlain, R.c[3]>> \o tl         \* the last cell of the bag when it has no references
    [] OTHER       -> <<RawRoot, <<1, 1, 192, 3>>, RawPlain, R.c[4]>> \o tl

Types     == {0, 1, 2, 3, 4, 5, 255}          \* 0: the hand-written degenerate descriptors (RawCells) below
IMasks(t) == IF t # 1 THEN {0} ELSE IF Full THEN 1..7 ELSE {1, 2, 3, 7}
DMasks(t, im) == IF t = 0 THEN {0} ELSE IF t = 1 THEN {im, 0} ELSE {0, 1}
NRefs(t)  == CASE t = 0 -> {0} [] t = 3 -> 0..2 [] t = 4 -> 0..3 [] OTHER -> 0..1
\* lengths in bytes: from "all hashes but no depth" to one byte too many, and the shortest ones
\* (0 bytes: a cell flagged exotic that has not even its type byte)
Lens(t, im) == LET n == Len(Canon(t, im)) IN
               IF t = 0 THEN 1..Len(RawCells)
               ELSE IF t \in {5, 255} THEN {0, 1, 2, 9}
               ELSE {0, 1, 2} \cup (IF t = 1 THEN (2 + 32 * Pop(im) - 1)..(n + 1) ELSE (n - 3)..(n + 2))

VARIABLES t, im, dm, L, nr, place, out
vars == <<t, im, dm, L, nr, place, out>>
Leaf   == Cl(<<1, 0, 1>>, 0, <<>>, 0)
SIBits == <<0, 0, 1, 1, 0>>                       \* no split_depth, no special, code, data, no library
Plain  == Cl(BytesToBits(Rep(40, 90)), 0, <<>>, 0)
Table ==
  LET X(ref) == Cl(BytesToBits(Body(t, im, L)), t, [j \in 1..nr |-> ref], dm)
      tail == IF nr > 0 THEN <<Leaf>> ELSE <<>>
  IN CASE place = "root"       -> <<X(2)>> \o tail
       [] place = "code"       -> <<Cl(SIBits, 0, <<2, 3>>, dm), X(4), Plain>> \o tail
       [] place = "data"       -> <<Cl(SIBits, 0, <<2, 3>>, dm), Plain, X(4)>> \o tail
       [] place = "below_code" -> <<Cl(SIBits, 0, <<2, 3>>, dm), Cl(<<1, 1>>, 0, <<4>>, dm), Plain, X(5)>> \o tail
Hdr == [magic |-> "generic", idx |-> FALSE, crc |-> FALSE, cache |-> FALSE, size |-> 1, ob |-> 1, hashes |-> FALSE]
TypeName == CASE t = 1 -> "pruned" [] t = 2 -> "library" [] t = 3 -> "merkle_proof" [] t = 4 -> "merkle_update" [] OTHER -> "unknown_type"
LenClass == LET n == Len(Canon(t, im)) IN IF L = n THEN "exact" ELSE IF L < n THEN "short" ELSE "long"

Init == /\ t \in Types /\ im \in IMasks(t) /\ dm \in DMasks(t, im) /\ L \in Lens(t, im) /\ nr \in NRefs(t)
        /\ place \in {"root", "code", "data", "below_code"} /\ out = "todo"
Next == /\ out = "todo" /\ out' = "done" /\ UNCHANGED <<t, im, dm, L, nr, place>>
        /\ LET B  == IF t = 0 THEN RawBag(RawTable(L, place)) ELSE Write(Table, <<1>>, Hdr)
               h  == BagRootHash(B)
               ad == IF h = <<>> THEN Rep(32, 17) ELSE h
               f  == StateInitFacts(B64Encode(B), ad)
               why == IF ~f.boc THEN "no_reading" ELSE IF ~f.layout THEN "layout" ELSE IF ~f.hash THEN "hash"
                      ELSE IF ~(f.code /\ f.data) THEN "no_code_or_data" ELSE IF f.wallet = "unknown" THEN "unknown_code"
                      ELSE IF ~f.keyOK THEN "no_key" ELSE "ACCEPTABLE"
           IN PrintT(<<"VEC", ToJson([kind |-> "bag", boc |-> BytesToHex(B), addr |-> BytesToHex(ad), why |-> why,
                                      want |-> [v |-> IF why = "ACCEPTABLE" THEN "free" ELSE "reject", key |-> ""],
                                      tamper |-> IF t = 0 THEN "malformed_bag_" \o RawCells[L].n
                                                 ELSE IF L = 0 THEN "malformed_bag_exotic_empty"
                                                 ELSE "exotic_child_" \o TypeName \o "_" \o LenClass,
                                      t |-> t, im |-> im, dm |-> dm, len |-> L, nrefs |-> nr, place |-> place])>>)
Spec == Init /\ [][Next]_vars
=============================================================================
