--------------------------- MODULE PoolSelect_Gen ---------------------------
(* S->C: every refresh transition of PoolSelect over a bounded grid.           *)
(* One TLC state per configuration; the emitted vector carries, for both       *)
(* strategies, the set of connections the refresh may choose (Choices) or the  *)
(* mark "keep" (no good connection: best' = best for EVERY previous best; the  *)
(* replayer runs every previous best 0..N, 0 = none).                          *)
(* Seqno values: small ones are themselves; Top stands for 2^32-1, Top-1 for   *)
(* 2^32-2, ... (TLC integers are 32-bit; the map preserves order and every     *)
(* difference <= 1, which is all Good() looks at) -- they travel as decimal    *)
(* strings.                                                                    *)
EXTENDS PoolSelect, Sequences, Json, TLC
CONSTANTS N, SeqVals, RttVals, Top, Alive1, Seq1, Seq2   \* shard: liveness/seqno of connection 1, seqno of connection 2
VARIABLES conns, fired
gvars == <<conns, fired>>

ConnVals == [alive : BOOLEAN, seqno : SeqVals, rtt : RttVals]
Shard    == {v \in ConnVals : v.alive \in Alive1 /\ v.seqno \in Seq1}

\* 2^32-1-d for d in 0..9 as decimal text
RealSeq(v) == IF v + 9 >= Top THEN "429496729" \o ToString(5 - (Top - v)) ELSE ToString(v)
ASSUME Top > 1000 /\ \A v \in SeqVals : v < 100 \/ (v <= Top /\ Top - v <= 5)

Init == /\ conns \in {<<c1>> \o t : c1 \in Shard, t \in {u \in [1..(N-1) -> ConnVals] : N = 1 \/ u[1].seqno \in Seq2}}
        /\ fired = FALSE
\* the refresh itself: both strategies, from the previous best that exposes "keep"
Next == ~fired /\ fired' = TRUE /\ conns' = conns
Spec == Init /\ [][Next]_gvars

RECURSIVE SetToSeq(_)
SetToSeq(S) == IF S = {} THEN <<>>
               ELSE LET x == CHOOSE y \in S : \A z \in S : y <= z IN <<x>> \o SetToSeq(S \ {x})

Vec == [n  |-> N,
        c  |-> [i \in 1..N |-> [a |-> conns[i].alive, s |-> RealSeq(conns[i].seqno), r |-> conns[i].rtt]],
        keep |-> GoodSet(conns) = {},
        bp |-> SetToSeq(Choices("best-ping", conns, 0)),
        fw |-> SetToSeq(Choices("first-working", conns, 0))]
Emit == fired => PrintT(<<"VEC", ToJson(Vec)>>)
\* the specification's own sanity: a refresh never leaves the good set when it is non-empty
Sane == \A st \in Strategies : \A p \in 0..N : \A b \in Choices(st, conns, p) :
           IF GoodSet(conns) = {} THEN b = p ELSE Good(conns, b)
=============================================================================
