CONSTANT Stride = 24
SPECIFICATION Spec
CHECK_DEADLOCK FALSE
