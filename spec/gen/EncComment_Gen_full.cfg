CONSTANTS
  Lens = {0, 1, 2, 3, 4, 5, 6, 7, 8, 9, 10, 11, 12, 13, 14, 15, 16, 17, 18, 19, 20, 21, 22, 23, 24, 25, 26, 27, 28, 29, 30, 31, 32, 33, 34, 35, 36, 37, 38, 39, 40, 41, 42, 43, 44, 45, 46, 47, 48, 49, 63, 64, 65, 79, 80, 81, 95, 96, 97, 100, 111, 112, 113, 127, 128, 129, 143, 144, 145, 255, 256, 257, 511, 512, 513}
  BigLens = {1000, 1023, 1024, 4096, 16383, 65536}
SPECIFICATION Spec
INVARIANTS Emit Coherent
CHECK_DEADLOCK FALSE
