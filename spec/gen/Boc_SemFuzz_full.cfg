CONSTANT Full = TRUE
SPECIFICATION Spec
CHECK_DEADLOCK FALSE
