------------------------------- MODULE TlGen -------------------------------
(* Value generator shared by TlSem_Gen (C10) and TlShape_Gen (C09): values of   *)
(* a type of schema S drawn from choice streams CRC32(ctx ++ path), and the     *)
(* vector record of one target (type / function / request-answer pair) with the *)
(* specification's own encoding.  Deterministic in (S, ctx).                     *)
EXTENDS TlSem, Json, FiniteSets, TlChoice

EdgeInt  == <<"0", "1", "-1", "2147483647", "-2147483648", "255", "256", "-256">>
EdgeLong == <<"0", "1", "-1", "9223372036854775807", "-9223372036854775808", "4294967296", "-4294967297">>
EdgeLen  == <<0, 1, 2, 3, 4, 5, 7, 8, 252, 253, 254, 255, 256, 257, 258, 259, 260, 1099, 1100>>
BigLen   == <<65531, 65532, 65535, 65536, 65537>>
StrLenAt(ctx, dep) ==
  IF dep >= 3 THEN Pick(ctx \o <<9>>, 12)
  ELSE LET x == Pick(ctx \o <<9>>, 100) IN
       IF x < 50 THEN Pick(ctx \o <<10>>, 40)
       ELSE IF x < 70 THEN Pick(ctx \o <<10>>, 1101)
       ELSE IF x < 97 \/ dep >= 2 THEN EdgeLen[Pick(ctx \o <<10>>, Len(EdgeLen)) + 1]
       ELSE BigLen[Pick(ctx \o <<10>>, Len(BigLen)) + 1]
GenBytes(ctx, n) == LET a == Pick(ctx \o <<11>>, 256)  st == 2 * Pick(ctx \o <<12>>, 128) + 1 IN
                    [i \in 1..n |-> (a + i * st) % 256]
VecMax(dep) == IF dep = 0 THEN 5 ELSE IF dep = 1 THEN 3 ELSE 1

UsedBits(d, name) == {d.fields[i].flag.bit : i \in {j \in 1..Len(d.fields) : HasFlag(d.fields[j]) /\ d.fields[j].flag.field = name}}
\* the mode value: used bits from combination comb (or random when comb < 0), the others random / all 0 / all 1
ModeVal(ctx, used, comb) ==
  LET rnd  == BytesToBits(R(ctx \o <<13>>))
      fill == Pick(ctx \o <<14>>, 4)
      cmb  == IF comb >= 0 THEN comb ELSE Pick(ctx \o <<15>>, Pow2(Cardinality(used)))
      bits == [i \in 1..32 |->
                LET N == 32 - i IN
                IF N \in used THEN (cmb \div Pow2(Cardinality({u \in used : u < N}))) % 2
                ELSE IF fill = 0 THEN 0 ELSE IF fill = 1 THEN 1 ELSE rnd[i]]
  IN IF \A i \in 1..32 : bits[i] = 0 THEN "0" ELSE BitsToDec(bits)

\* ov = [decl |-> constructor / function name, field |-> name, n |-> length]: the vector in that field gets exactly n
\* elements wherever that constructor is generated (decl = "" : no override)
NoOv == [decl |-> "", field |-> "", n |-> 0]
\* path element(s) of item i of a vector: two context bytes, so that up to 25600 * 256 items draw different streams
Idx(i) == <<100 + (i % 100), (i \div 100) % 256, i \div 25600>>
RECURSIVE GenTy(_, _, _, _, _), GenFields(_, _, _, _, _, _, _, _), GenVecN(_, _, _, _, _, _)
GenFields(S, d, ctx, dep, comb, i, acc, ov) ==
  IF i > Len(d.fields) THEN acc
  ELSE LET f == d.fields[i] IN
       IF IsTrue(f) \/ ~Present(f, acc) THEN GenFields(S, d, ctx, dep, comb, i + 1, acc, ov)
       ELSE LET used == UsedBits(d, f.name)
                val  == IF ~IsVec(f.ty) /\ f.ty = "#" /\ ~HasFlag(f) /\ used # {}
                          THEN ModeVal(ctx \o <<i>>, used, comb)
                          ELSE IF IsVec(f.ty) /\ ov.decl = d.ctor /\ ov.field = f.name
                            THEN GenVecN(S, f.ty.vector, ctx \o <<i>>, dep + 2, ov.n, ov)
                            ELSE GenTy(S, f.ty, ctx \o <<i>>, dep + 1, ov)
            IN GenFields(S, d, ctx, dep, comb, i + 1, acc @@ (f.name :> val), ov)
GenRec(S, d, ctx, dep, comb, ov) == GenFields(S, d, ctx, dep, comb, 1, "_" :> d.ctor, ov)
GenVecN(S, ety, ctx, dep, n, ov) == [i \in 1..n |-> GenTy(S, ety, ctx \o Idx(i), dep, ov)]
GenTy(S, ty, ctx, dep, ov) ==
  IF IsVec(ty) THEN GenVecN(S, ty.vector, ctx, dep + 1, Pick(ctx \o <<200>>, VecMax(dep) + 1), ov)
  ELSE CASE ty = "int"  -> IF Pick(ctx \o <<1>>, 3) = 0 THEN EdgeInt[Pick(ctx \o <<2>>, Len(EdgeInt)) + 1]
                           ELSE B!SDec(BytesToBits(R(ctx \o <<3>>)))
         [] ty = "long" -> IF Pick(ctx \o <<1>>, 3) = 0 THEN EdgeLong[Pick(ctx \o <<2>>, Len(EdgeLong)) + 1]
                           ELSE B!SDec(BytesToBits(RBytes(ctx \o <<3>>, 8)))
         [] ty = "#"    -> ModeVal(ctx, {}, -1)
         [] ty = "int128" -> BytesToHex(RBytes(ctx \o <<4>>, 16))
         [] ty = "int256" -> BytesToHex(RBytes(ctx \o <<4>>, 32))
         [] ty \in {"bytes", "string"} -> BytesToHex(GenBytes(ctx, StrLenAt(ctx, dep)))
         [] ty = "Bool" -> Pick(ctx \o <<5>>, 2) = 1
         [] IsCtor(S, ty) -> GenRec(S, CtorDecl(S, ty), ctx, dep, -1, ov)
         [] IsResult(S, ty) -> LET cs == CtorsOf(S, ty) IN
                               GenRec(S, S.types[NthOf(cs, Pick(ctx \o <<6>>, Cardinality(cs)))], ctx, dep, -1, ov)
         [] IsFn(S, ty) -> GenRec(S, FnDecl(S, ty), ctx, dep, -1, ov)

\* root: the constructor's own flag field takes combination `round` of its used bits; a sum type
\* cycles through its constructors first
GenRoot(S, ty, ctx, round, ov) ==
  IF ty \in Builtins THEN GenTy(S, ty, ctx, 0, ov)
  ELSE IF IsCtor(S, ty) THEN GenRec(S, CtorDecl(S, ty), ctx, 0, round, ov)
  ELSE IF IsFn(S, ty) THEN GenRec(S, FnDecl(S, ty), ctx, 0, round, ov)
  ELSE LET cs == CtorsOf(S, ty) IN
       GenRec(S, S.types[NthOf(cs, round % Cardinality(cs))], ctx, 0, round \div Cardinality(cs), ov)

\* --------------------------------------------------------------- vectors
\* t = [ty, op], op: Enc (ty as named) | EncBare (fields of a function) | Fn (whole request) |
\* Call (request and the answer the scripted connection gives: every 4th an error, else a value of the result type)
VecOfOv(S, t, n, ctx, round, ov) ==
  LET v     == GenRoot(S, t.ty, ctx, round, ov)
      base  == [vec |-> n, ty |-> t.ty, op |-> t.op, v |-> v]
  IN
  IF t.op = "Enc" THEN base @@ [hex |-> BytesToHex(Enc(S, t.ty, v))]
  ELSE IF t.op = "EncBare" THEN base @@ [hex |-> BytesToHex(EncBare(S, t.ty, v))]
  ELSE IF t.op = "Fn" THEN base @@ [hex |-> BytesToHex(Enc(S, t.ty, v))]
  ELSE
    LET fd     == FnDecl(S, t.ty)
        isErr  == round % 4 = 3
        rv     == IF isErr THEN GenRec(S, CtorDecl(S, "liteServer.error"), ctx \o <<250>>, 0, -1, NoOv) ELSE GenRoot(S, fd.result, ctx \o <<251>>, round, ov)
        body   == IF isErr THEN Enc(S, "liteServer.Error", rv) ELSE Enc(S, fd.result, rv)
    IN base @@ [hex |-> BytesToHex(Enc(S, t.ty, v)), res_ty |-> fd.result, is_err |-> isErr, resv |-> rv, body |-> BytesToHex(body)]
VecOf(S, t, n, ctx, round) == VecOfOv(S, t, n, ctx, round, NoOv)
\* the generator's own sanity: what it emits is in the domain and decodes back to itself
VecSane(S, x) ==
  /\ Valid(S, x.ty, x.v)
  /\ (x.op = "Enc" => LET d == Dec(S, x.ty, HexToBytes(x.hex)) IN d.ok /\ d.value = x.v /\ d.rest = <<>>)
  /\ (x.op = "EncBare" => LET d == DecBare(S, x.ty, HexToBytes(x.hex)) IN d.ok /\ d.value = x.v /\ d.rest = <<>>)
=============================================================================
