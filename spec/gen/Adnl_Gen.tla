------------------------------ MODULE Adnl_Gen ------------------------------
(* S->C: connection scripts.  Every plan (fault class x packet sizes x target  *)
(* frame) is unfolded into ONE behaviour of the Adnl state machine at the real *)
(* sizes (payloads 0..65535 bytes, real crypto): sends in both directions      *)
(* interleaved with arbitrary TCP segmentation, at most one fault placed in a  *)
(* chosen region of a chosen frame, an orderly close at the end.  The choices  *)
(* are a deterministic function of (Salt, plan id, step) - a hash-based        *)
(* pseudo-random walk - so BFS yields exactly one behaviour per plan and the   *)
(* run is reproducible.  Each step is written out with the observation the     *)
(* specification requires after it (delivered counts, receiver states); the    *)
(* harness executes the steps against the real client over loopback TCP.       *)
(* In addition `pp` carries the server->client byte stream as the specification*)
(* produced it (faults applied), its stream key/iv, and what a receiver must   *)
(* make of it: input for liteclient.ParsePacket called directly.               *)
EXTENDS Adnl, Json, TLC
CONSTANTS First, Count, Salt
VARIABLES plan, todo, must, budget, hist, done, arr
gvars == <<hs, cp, sp, wire, buf, txoff, rxoff, sent, delivered, dead, eof, got, units, hit,
           plan, todo, must, budget, hist, done, arr>>

\* ---------------------------------------------------------- pseudo-random choices
Rnd(id, tag, m) ==           \* 0..m-1
  LET h == Sha256(<<Salt % 256, (Salt \div 256) % 256, id % 256, (id \div 256) % 256, tag % 256, (tag \div 256) % 256>>)
  IN (h[1] + 256 * h[2] + 65536 * h[3]) % m
PickSeq(s, id, tag) == s[1 + Rnd(id, tag, Len(s))]
Tag8(id)  == <<id % 256, (id \div 256) % 256, Salt % 256>>
ServerSeedOf(id) == Sha256(<<83>> \o Tag8(id))
ClientSeedOf(id) == Sha256(<<67>> \o Tag8(id))
ParamsOf(id)     == Sha512(<<1>> \o Tag8(id)) \o Sha512(<<2>> \o Tag8(id)) \o Sha256(<<3>> \o Tag8(id))
NonceOf(id, d, k) == Sha256(<<IF d = "c2s" THEN 1 ELSE 2, k % 256>> \o Tag8(id))
\* payload k of direction d: a fixed pattern (the harness regenerates it and checks `sha`)
Payload(d, k, n) == [i \in 1..n |-> (7 * (i - 1) + 13 * k + (IF d = "c2s" THEN 101 ELSE 59) + n) % 256]

\* ------------------------------------------------------------------ fault classes
IdNames == <<"pong", "ping", "authnonce", "authcomplete", "query", "answer">>
IdOf(nm) == CASE nm = "pong" -> IdTcpPong [] nm = "ping" -> IdTcpPing [] nm = "authnonce" -> IdTcpAuthNonce
              [] nm = "authcomplete" -> IdTcpAuthComplete [] nm = "query" -> IdAdnlQuery [] nm = "answer" -> IdAdnlAnswer
IdLens   == <<4, 11, 12, 13, 16, 20, 64, 1000>>
MarkLens == <<5, 6, 7, 8, 9, 10, 14, 15>>
Regs   == <<"len", "nonce", "payload", "sum">>
HsRegs == <<"keyid", "pub", "hash", "params">>
Classes ==
     <<[f |-> "none", d |-> "s2c", tgt |-> "none", reg |-> "none", n |-> 0]>>
  \o [i \in 1..4 |-> [f |-> "flip", d |-> "c2s", tgt |-> "hs",    reg |-> HsRegs[i], n |-> 0]]
  \o <<[f |-> "flip", d |-> "c2s", tgt |-> "hs", reg |-> "pubsign", n |-> 0]>>      \* the bit X25519 ignores
  \o [i \in 1..4 |-> [f |-> "flip", d |-> "s2c", tgt |-> "first", reg |-> Regs[i], n |-> 0]]
  \o [i \in 1..4 |-> [f |-> "flip", d |-> "s2c", tgt |-> "later", reg |-> Regs[i], n |-> 0]]
  \o [i \in 1..4 |-> [f |-> "flip", d |-> "c2s", tgt |-> "first", reg |-> Regs[i], n |-> 0]]
  \o [i \in 1..4 |-> [f |-> "flip", d |-> "c2s", tgt |-> "later", reg |-> Regs[i], n |-> 0]]
  \o <<[f |-> "flip", d |-> "s2c", tgt |-> "ack", reg |-> "len", n |-> 0],
       [f |-> "flip", d |-> "s2c", tgt |-> "ack", reg |-> "nonce", n |-> 0],
       [f |-> "flip", d |-> "s2c", tgt |-> "ack", reg |-> "sum", n |-> 0],
       [f |-> "none", d |-> "s2c", tgt |-> "none", reg |-> "none", n |-> 0],
       [f |-> "trunc", d |-> "c2s", tgt |-> "hs",    reg |-> "params", n |-> 0],
       [f |-> "trunc", d |-> "s2c", tgt |-> "ack",   reg |-> "nonce", n |-> 0],
       [f |-> "trunc", d |-> "s2c", tgt |-> "first", reg |-> "len", n |-> 0],
       [f |-> "trunc", d |-> "s2c", tgt |-> "later", reg |-> "payload", n |-> 0],
       [f |-> "trunc", d |-> "s2c", tgt |-> "later", reg |-> "sum", n |-> 0],
       [f |-> "trunc", d |-> "s2c", tgt |-> "first", reg |-> "end", n |-> 0],
       [f |-> "trunc", d |-> "c2s", tgt |-> "first", reg |-> "nonce", n |-> 0],
       [f |-> "trunc", d |-> "c2s", tgt |-> "later", reg |-> "payload", n |-> 0],
       [f |-> "trunc", d |-> "c2s", tgt |-> "later", reg |-> "end", n |-> 0],
       [f |-> "hdr", d |-> "s2c", tgt |-> "first", reg |-> "len", n |-> MaxLen],           \* 8 MiB announced, nothing follows
       [f |-> "hdr", d |-> "s2c", tgt |-> "later", reg |-> "len", n |-> MaxLen + 1],       \* one more than the limit
       [f |-> "hdr", d |-> "s2c", tgt |-> "later", reg |-> "len", n |-> MinLen - 1],
       [f |-> "hdr", d |-> "s2c", tgt |-> "first", reg |-> "len", n |-> MinLen],
       [f |-> "hdr", d |-> "s2c", tgt |-> "later", reg |-> "len", n |-> 16777216],        \* top length byte set
       [f |-> "none", d |-> "s2c", tgt |-> "none", reg |-> "none", n |-> 0],
       \* fault-free, server->client payloads that do not grow: a receiver that recycles its frame buffer
       \* writes the later frames over the earlier ones (the harness holds every delivered packet and re-reads it)
       [f |-> "none", d |-> "s2c", tgt |-> "shrink", reg |-> "none", n |-> 0]>>
  \* fault-free, payload CONTENT classes: payloads that begin with a constructor id the transport or the client
  \* layer above it interprets, at lengths around the 12 bytes of a real tcp.pong, each server->client one followed
  \* by an ordinary marker packet; the client sends the same kinds of payload
  \o [i \in 1..Len(IdNames) |-> [f |-> "none", d |-> "s2c", tgt |-> "ids", reg |-> IdNames[i], n |-> 0]]
  \* fault-free: the connection is dialled under a context with a short deadline (plan step Hs carries `dial` ms);
  \* all data traffic, in both directions, happens after that deadline has passed (step Wait)
  \o <<[f |-> "none", d |-> "s2c", tgt |-> "deadline", reg |-> "none", n |-> 0],
  \* fault-free: the client is handed the same packet value again (p1, p1, p2, p1, p3, p3; p2 was first sent on
  \* another connection)
       [f |-> "none", d |-> "c2s", tgt |-> "resend", reg |-> "none", n |-> 0],
  \* fault-free: ONE server identity for several connections of the same process: `prior` complete connections before
  \* this one (step Hs), and after the orderly end the server drops the connection and the client's own reconnect
  \* (step End, `reconnect`) must yield a connection whose handshake is verified like every other
       [f |-> "none", d |-> "s2c", tgt |-> "reuse", reg |-> "none", n |-> 0]>>
NCls == Len(Classes)
DialMs == 300
WaitUntilMs == 450
Shrinking == << <<1000, 60, 60, 3>>, <<65535, 1000, 1000, 1>>, <<60, 60, 4, 4>>, <<1000, 1000, 1000, 0>>, <<4, 3, 1, 1>> >>

SizeBag  == <<0, 1, 3, 4, 60, 1000, 0, 1, 3, 4, 60, 1000, 0, 1, 3, 4, 60, 1000, 65535>>
SizeBag1 == <<1, 3, 4, 60, 1000, 1, 3, 4, 60, 1000, 65535>>              \* non-empty payloads
SmallSeg == <<1, 3, 4, 5, 31, 32, 35, 36, 37, 67, 68, 69, 100>>
Masks    == <<1, 2, 4, 8, 16, 32, 64, 128, 255, 0>>                       \* 0 = any other value

Other(d) == IF d = "c2s" THEN "s2c" ELSE "c2s"
MkPlan(id) ==
  LET c   == Classes[((id - 1) % NCls) + 1]
      \* number of data frames per direction; the targeted direction has enough of them
      nT  == IF c.tgt = "later" THEN 2 + Rnd(id, 1, 3) ELSE IF c.tgt = "first" THEN 1 + Rnd(id, 1, 3)
             ELSE IF c.tgt = "shrink" THEN 4 ELSE IF c.tgt = "deadline" THEN 1 + Rnd(id, 1, 3) ELSE IF c.tgt = "ids" THEN 2 * Len(IdLens) ELSE Rnd(id, 1, 5)
      nO  == IF c.tgt = "deadline" THEN 1 + Rnd(id, 2, 3) ELSE Rnd(id, 2, 5)
      \* index (in sent[d]) of the targeted frame; 0 = handshake / none
      j   == CASE c.tgt = "ack"   -> 1
               [] c.tgt = "first" -> IF c.d = "s2c" THEN 2 ELSE 1
               [] c.tgt = "later" -> (IF c.d = "s2c" THEN 3 ELSE 2) + Rnd(id, 3, nT - 1)
               [] OTHER -> 0
      jd  == IF c.d = "s2c" THEN j - 1 ELSE j                      \* its index among the data frames
      \* a negative entry -k: the packet sent as number k is handed to the sender again
      szT == IF c.tgt = "resend" THEN <<PickSeq(SizeBag1, id, 11), -1, PickSeq(SizeBag1, id, 12), -1, PickSeq(SizeBag1, id, 13), -5>>
             ELSE IF c.tgt = "shrink" THEN PickSeq(Shrinking, id, 9)
             ELSE IF c.tgt = "ids" THEN [k \in 1..nT |-> IF k % 2 = 1 THEN IdLens[(k + 1) \div 2] ELSE MarkLens[k \div 2]]
             ELSE [k \in 1..nT |-> IF k = jd /\ c.reg = "payload" THEN PickSeq(SizeBag1, id, 10 + k) ELSE PickSeq(SizeBag, id, 10 + k)]
      \* (a 12-byte tcp.ping from the client could not be told from the pings the client originates by itself)
      szO == IF c.tgt = "ids" THEN [k \in 1..Len(IdLens) |-> IF c.reg = "ping" /\ IdLens[k] = 12 THEN 14 ELSE IdLens[k]]
             ELSE [k \in 1..nO |-> PickSeq(SizeBag, id, 20 + k)]
  IN [id |-> id, c |-> c, j |-> j,
      name |-> StrCat(StrCat(StrCat(c.f, "-"), StrCat(c.d, "-")), StrCat(StrCat(c.tgt, "-"), IF c.f = "hdr" THEN ToString(c.n) ELSE c.reg)),
      sizes |-> IF c.d = "s2c" THEN [s2c |-> szT, c2s |-> szO] ELSE [c2s |-> szT, s2c |-> szO]]

\* --------------------------------------------------------------------- geometry
\* unit (in units[d]) of frame j of direction d; the handshake is unit 1 of c2s
UnitOfFrame(d, j) == IF d = "c2s" THEN j + 1 ELSE j
\* <<offset, length>> of a region inside a unit of `size` bytes
RegOf(reg, size) ==
  CASE reg = "len"     -> <<0, 4>>
    [] reg = "nonce"   -> <<4, 32>>
    [] reg = "payload" -> <<36, size - 68>>
    [] reg = "sum"     -> <<size - 32, 32>>
    [] reg = "end"     -> <<size, 1>>
    [] reg = "keyid"   -> <<0, 32>>
    [] reg = "pub"     -> <<32, 32>>
    [] reg = "pubsign" -> <<63, 1>>
    [] reg = "hash"    -> <<64, 32>>
    [] reg = "params"  -> <<96, 160>>
\* absolute 0-based stream position chosen inside the target region
TargetPos(step) ==
  LET d == plan.c.d
      u == UnitOfFrame(d, plan.j)
      r == RegOf(plan.c.reg, units[d][u])
      w == Rnd(plan.id, 100 + step, 3)
      within == IF plan.c.reg = "end" THEN 0
                ELSE IF w = 0 THEN 0 ELSE IF w = 1 THEN r[2] - 1 ELSE Rnd(plan.id, 200 + step, r[2])
  IN UnitStart(d, u) + r[1] + within

\* ------------------------------------------------------------------------ steps
Step == Len(hist)
Obs  == [nd |-> <<Len(delivered'["c2s"]), Len(delivered'["s2c"])>>,
         dd |-> <<dead'["c2s"], dead'["s2c"]>>, ee |-> <<eof'["c2s"], eof'["s2c"]>>, hs |-> hs']
Log(m) == hist' = Append(hist, m @@ Obs)
\* the forced continuation once the targeted unit has been written
FaultMoves ==
  IF plan.c.f = "flip" THEN <<[k |-> "Corrupt"]>>
  ELSE IF plan.c.f = "trunc" THEN <<[k |-> "SegTo"], [k |-> "Trunc", d |-> plan.c.d]>>
  ELSE <<>>
Targets(d, j) == plan.c.f \in {"flip", "trunc"} /\ plan.c.d = d /\ plan.j = j /\
                 (plan.c.tgt = "hs" <=> (d = "c2s" /\ j = 0))

Do(m) ==
  CASE m.k = "Hs" ->
         /\ Handshake(EdPubFromSeed(ServerSeedOf(plan.id)), ClientSeedOf(plan.id), ParamsOf(plan.id))
         /\ must' = (IF Targets("c2s", 0) THEN FaultMoves ELSE <<>>)
         /\ UNCHANGED <<todo, budget, arr>> /\ Log(m @@ [dial |-> IF plan.c.tgt = "deadline" THEN DialMs ELSE 0, prior |-> IF plan.c.tgt = "reuse" THEN 2 ELSE 0])
    [] m.k = "Wait" ->                                    \* until the dial deadline is well past
         /\ TimePasses /\ must' = Tail(must)
         /\ UNCHANGED <<todo, budget, arr>> /\ Log(m @@ [until |-> WaitUntilMs])
    [] m.k = "HsDlv" ->
         /\ HsDeliver(ServerSeedOf(plan.id))
         /\ UNCHANGED <<todo, must, budget, arr>> /\ Log(m @@ [ok |-> hs' = "accepted"])
    [] m.k = "Ack" ->
         /\ ServerAck(NonceOf(plan.id, "s2c", 1))
         /\ must' = (IF Targets("s2c", 1) THEN FaultMoves ELSE <<>>)
         /\ UNCHANGED <<todo, budget, arr>> /\ Log(m @@ [d |-> "s2c", idx |-> 1, size |-> 0])
    [] m.k = "Send" ->
         LET d == m.d  idx == Len(sent[d]) + 1  h == Head(todo[d])
             again == IF h < 0 THEN 0 - h ELSE 0                  \* > 0: the packet sent as number `again`, once more
             n == IF again > 0 THEN Len(sent[d][again]) ELSE h
             \* content classes: every client->server payload and every second server->client one starts with the id
             pre == IF plan.c.tgt = "ids" /\ (d = "c2s" \/ idx % 2 = 0) THEN IdOf(plan.c.reg) ELSE <<>>
             pl == IF again > 0 THEN sent[d][again] ELSE pre \o SubSeq(Payload(d, idx, n), Len(pre) + 1, n) IN
         /\ IF again > 0 THEN Resend(d, again, NonceOf(plan.id, d, again)) ELSE Send(d, pl, NonceOf(plan.id, d, idx))
         /\ todo' = [todo EXCEPT ![d] = Tail(@)]
         /\ must' = (IF Targets(d, idx) THEN FaultMoves ELSE <<>>)
         /\ UNCHANGED <<budget, arr>>
         \* elsewhere: before this send the same packet value is first sent on another connection
         /\ Log(m @@ [idx |-> idx, size |-> n, sha |-> BytesToHex(Sha256(pl)), pre |-> BytesToHex(pre), again |-> again,
                      elsewhere |-> (plan.c.tgt = "resend" /\ d = "c2s" /\ idx = 3)])
    [] m.k = "Hdr" ->
         /\ SendHeaderOnly(m.d, plan.c.n)
         /\ todo' = [todo EXCEPT ![m.d] = <<>>]
         /\ UNCHANGED <<must, budget, arr>> /\ Log(m @@ [n |-> plan.c.n, idx |-> Len(sent[m.d]) + 1])
    [] m.k = "Seg" ->
         /\ Segment(m.d, m.n)
         /\ arr' = (IF m.d = "s2c" THEN arr \o Take(wire["s2c"], m.n) ELSE arr)
         /\ budget' = (IF m.n < Len(wire[m.d]) /\ m.n <= 100 THEN budget - 1 ELSE budget)
         /\ UNCHANGED <<todo, must>> /\ Log(m)
    [] m.k = "SegTo" ->                                   \* everything before the cut point arrives
         LET d == plan.c.d  n == TargetPos(Step) - got[d] IN
         /\ must' = Tail(must)
         /\ IF n > 0 THEN /\ Segment(d, n)
                          /\ arr' = (IF d = "s2c" THEN arr \o Take(wire["s2c"], n) ELSE arr)
                          /\ Log([k |-> "Seg", d |-> d, n |-> n])
                     ELSE UNCHANGED <<hs, cp, sp, wire, buf, txoff, rxoff, sent, delivered, dead, eof, got, units, hit, arr, hist>>
         /\ UNCHANGED <<todo, budget>>
    [] m.k = "Corrupt" ->
         LET d == plan.c.d
             pos == TargetPos(Step)
             i == pos + 1 - got[d]
             mk == PickSeq(Masks, plan.id, 300 + Step)
             mask == IF plan.c.reg = "pubsign" THEN 128 ELSE IF mk = 0 THEN 1 + Rnd(plan.id, 400 + Step, 255) ELSE mk IN
         /\ Corrupt(d, i, Xor8(wire[d][i], mask))
         /\ must' = Tail(must)
         /\ UNCHANGED <<todo, budget, arr>> /\ Log([k |-> "Corrupt", d |-> d, pos |-> pos, mask |-> mask])
    [] m.k = "Trunc" ->
         /\ Truncate(m.d)
         /\ must' = (IF must # <<>> THEN Tail(must) ELSE must)
         /\ todo' = [todo EXCEPT ![m.d] = <<>>]
         /\ UNCHANGED <<budget, arr>> /\ Log([k |-> "Trunc", d |-> m.d, at |-> got[m.d]])
    [] m.k = "Dlv" ->
         /\ Deliver(m.d)
         \* deadline class: once the client is established nothing is sent before the dial deadline has passed
         /\ must' = (IF plan.c.tgt = "deadline" /\ m.d = "s2c" /\ delivered["s2c"] = <<>> /\ DeliverKind("s2c") = "pkt"
                     THEN <<[k |-> "Wait"]>> ELSE must)
         /\ UNCHANGED <<todo, budget, arr>>
         \* user: what the client's connection does with a valid server->client packet ("no" = hands it to its user)
         /\ Log(m @@ [res |-> DeliverKind(m.d), idx |-> Len(delivered[m.d]) + 1,
                      user |-> IF m.d = "s2c" /\ DeliverKind(m.d) = "pkt" THEN Absorbs(Look(m.d).payload) ELSE "no"])

\* the moves that are possible now, as a sequence (the walk picks one)
Cands ==
  LET segs(d) == IF wire[d] = <<>> \/ dead[d] THEN <<>>
                 ELSE LET L == Len(wire[d])
                          sm == PickSeq(SmallSeg, plan.id, 500 + Step) IN
                      <<[k |-> "Seg", d |-> d, n |-> L]>>
                      \o (IF L > 1 THEN <<[k |-> "Seg", d |-> d, n |-> (L + 1) \div 2]>> ELSE <<>>)
                      \o (IF budget > 0 /\ sm < L THEN <<[k |-> "Seg", d |-> d, n |-> sm], [k |-> "Seg", d |-> d, n |-> sm]>> ELSE <<>>)
      dlv(d) == IF DeliverKind(d) # "none" THEN <<[k |-> "Dlv", d |-> d], [k |-> "Dlv", d |-> d]>> ELSE <<>>
      snd(d) == IF todo[d] # <<>> /\ CanSend(d) /\ (d = "s2c" => sent[d] # <<>>)
                   /\ (plan.c.tgt = "deadline" => \E i \in 1..Len(hist) : hist[i].k = "Wait")
                THEN (IF plan.c.f = "hdr" /\ plan.c.d = d /\ plan.j = Len(sent[d]) + 1
                      THEN <<[k |-> "Hdr", d |-> d]>> ELSE <<[k |-> "Send", d |-> d], [k |-> "Send", d |-> d]>>)
                ELSE <<>>
  IN segs("c2s") \o segs("s2c") \o dlv("c2s") \o dlv("s2c") \o snd("c2s") \o snd("s2c")
     \o (IF HsDeliverKind = "hs" THEN <<[k |-> "HsDlv"], [k |-> "HsDlv"]>> ELSE <<>>)
     \o (IF hs = "accepted" /\ sent["s2c"] = <<>> /\ ~eof["s2c"] THEN <<[k |-> "Ack"], [k |-> "Ack"]>> ELSE <<>>)

Init ==
  /\ AInit
  /\ \E id \in First..(First + Count - 1) : plan = MkPlan(id)
  /\ todo = plan.sizes /\ must = <<>> /\ budget = 6 /\ hist = <<>> /\ done = FALSE /\ arr = <<>>

Next ==
  /\ ~done /\ UNCHANGED plan
  /\ IF hs = "none" THEN Do([k |-> "Hs"]) /\ UNCHANGED done
     ELSE IF must # <<>> THEN Do(Head(must)) /\ UNCHANGED done
     ELSE IF Cands # <<>> THEN Do(PickSeq(Cands, plan.id, 600 + Step)) /\ UNCHANGED done
     ELSE IF ~eof["s2c"] THEN Do([k |-> "Trunc", d |-> "s2c"]) /\ UNCHANGED done    \* orderly close by the server
     ELSE /\ done' = TRUE
          /\ UNCHANGED <<hs, cp, sp, wire, buf, txoff, rxoff, sent, delivered, dead, eof, got, units, hit, todo, must, budget, arr>>
          /\ Log([k |-> "End", reconnect |-> plan.c.tgt = "reuse"])
Spec == Init /\ [][Next]_gvars

\* ------------------------------------------------------------------- emission
PP ==
  LET r == DecodeStream(cp, "s2c", arr)
      segs == SelectSeq(hist, LAMBDA s : s.k = "Seg" /\ s.d = "s2c")
  IN [key |-> BytesToHex(StreamKey(cp, "s2c")), iv |-> BytesToHex(StreamIv(cp, "s2c")),
      stream |-> BytesToHex(arr), chunks |-> [i \in 1..Len(segs) |-> segs[i].n],
      pkts |-> [i \in 1..Len(r.payloads) |-> [n |-> Len(r.payloads[i]), sha |-> BytesToHex(Sha256(r.payloads[i]))]],
      wants |-> r.wants, end |-> r.end,
      agrees |-> r.payloads = delivered["s2c"]]          \* batch decoding = step-wise delivery
Emit == done => PrintT(<<"VEC", ToJson([id |-> plan.id, cls |-> plan.name, j |-> plan.j, steps |-> hist, pp |-> PP,
                                        hit |-> <<hit["c2s"], hit["s2c"]>>])>>)
\* sanity of the generator itself
GenOK == done => /\ DecodeStream(cp, "s2c", arr).payloads = delivered["s2c"]
                 /\ (plan.c.f = "none" => delivered = sent /\ hit = [d \in Dirs |-> 0])
=============================================================================
