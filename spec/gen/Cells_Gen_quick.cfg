CONSTANT NCh = 2
SPECIFICATION Spec
CHECK_DEADLOCK FALSE
