---------------------------- MODULE LiteInit_Gen ----------------------------
(* S->C for X03 (B): TLC enumerates configurations of liteapi.NewClient -      *)
(* a vector of server classes (0..4 servers), MaxConnections, synchronous or   *)
(* asynchronous initialization, with or without an initialization-context      *)
(* deadline - and writes each out together with what LiteInit requires of it   *)
(* (which servers are surely / possibly usable, result, pool size bounds).     *)
(* The rows every run must contain are listed; the rest of the budget is a     *)
(* hash-driven sample of the product space (a function of Salt and the row     *)
(* number, so BFS yields one vector per row and the run is reproducible).      *)
(* The harness starts one scripted server per element and runs the real code.  *)
EXTENDS LiteInit, Prim, Json, TLC
CONSTANTS Salt, Count, T, SlowD, LateD, CtxD
VARIABLES row, done

Rnd(id, tag, m) ==
  LET h == Sha256(<<Salt % 256, (Salt \div 256) % 256, id % 256, (id \div 256) % 256, tag % 256>>)
  IN (h[1] + 256 * h[2] + 65536 * h[3]) % m
Srv(c) == [c |-> c, d |-> IF c = "slow" THEN SlowD ELSE IF c = "late" THEN LateD ELSE 0]
S(cs) == [i \in 1..Len(cs) |-> Srv(cs[i])]
C(cs, m, sync, ctx) == [servers |-> S(cs), maxc |-> m, sync |-> sync, t |-> T, ctx |-> IF ctx THEN CtxD ELSE 0]

\* rows every run contains
Fixed == <<
  C(<<>>, 1, TRUE, FALSE), C(<<>>, 2, FALSE, FALSE),
  C(<<"good">>, 1, TRUE, FALSE),
  C(<<"good", "good", "good">>, 1, TRUE, FALSE), C(<<"good", "good", "good">>, 2, TRUE, FALSE), C(<<"good", "good", "good">>, 4, TRUE, FALSE),
  C(<<"dead", "good", "error", "good">>, 2, TRUE, FALSE),
  C(<<"dead", "bad_key", "error", "garbage">>, 2, TRUE, FALSE), C(<<"dead", "bad_key", "error", "garbage">>, 2, FALSE, FALSE),
  C(<<"mute", "good">>, 2, TRUE, FALSE), C(<<"mute">>, 1, TRUE, FALSE), C(<<"mute">>, 1, TRUE, TRUE),
  C(<<"slow", "late">>, 2, TRUE, FALSE), C(<<"late", "garbage">>, 1, TRUE, FALSE),
  C(<<"blackhole", "good">>, 1, TRUE, FALSE), C(<<"blackhole", "good">>, 2, TRUE, FALSE), C(<<"blackhole", "good">>, 2, TRUE, TRUE),
  C(<<"blackhole", "good">>, 2, FALSE, TRUE), C(<<"blackhole">>, 1, TRUE, FALSE), C(<<"good", "blackhole", "dead">>, 3, FALSE, FALSE),
  C(<<"good", "dead">>, 2, TRUE, TRUE), C(<<"good", "dead">>, 2, FALSE, FALSE), C(<<"dead">>, 1, FALSE, FALSE),
  C(<<"bad_key", "good", "good", "mute">>, 3, TRUE, FALSE) >>

ClassSeq == <<"good", "good", "good", "slow", "late", "mute", "error", "garbage", "bad_key", "blackhole", "dead", "dead">>
Sampled(id) ==
  LET n  == 1 + Rnd(id, 1, 4)
      cs == [i \in 1..n |-> ClassSeq[1 + Rnd(id, 10 + i, Len(ClassSeq))]]
  IN C(cs, 1 + Rnd(id, 2, n + 1), Rnd(id, 3, 10) < 7, Rnd(id, 4, 4) = 0)
ConfigOf(id) == IF id <= Len(Fixed) THEN Fixed[id] ELSE Sampled(id)

RECURSIVE JoinC(_, _)
JoinC(ss, i) == IF i > Len(ss) THEN "" ELSE StrCat(IF i = 1 THEN ss[i].c ELSE StrCat("+", ss[i].c), JoinC(ss, i + 1))
Name(cfg) == StrCat(StrCat(IF cfg.servers = <<>> THEN "none" ELSE JoinC(cfg.servers, 1), StrCat("/m", ToString(cfg.maxc))),
                    StrCat(IF cfg.sync THEN "/sync" ELSE "/async", IF cfg.ctx > 0 THEN "/ctx" ELSE ""))
SetSeq(Q) == [i \in 1..Cardinality(Q) |-> CHOOSE x \in Q : Cardinality({y \in Q : y < x}) = i - 1]

Vector(id) ==
  LET cfg == ConfigOf(id) IN
  [id |-> id, cls |-> Name(cfg), servers |-> cfg.servers, maxc |-> cfg.maxc, sync |-> cfg.sync, t |-> cfg.t, ctx |-> cfg.ctx,
   yes |-> SetSeq(Yes(cfg)), maybe |-> SetSeq(Maybe(cfg)),
   min_pool |-> Min2(cfg.maxc, Cardinality(Yes(cfg))), max_pool |-> Min2(cfg.maxc, Cardinality(Yes(cfg) \cup Maybe(cfg)))]

Init == row \in 1..Count /\ done = FALSE
Next == ~done /\ done' = TRUE /\ UNCHANGED row
Spec == Init /\ [][Next]_<<row, done>>

\* sanity of the rows: classes known, the relation is satisfiable for every row (some observation passes)
RowsOK ==
  LET cfg == ConfigOf(row) IN
  /\ \A i \in Idx(cfg) : cfg.servers[i].c \in Classes
  /\ cfg.maxc >= 1
  /\ \E err \in BOOLEAN : ResultOK(cfg, err)
  /\ (cfg.servers # <<>> => PoolOK(cfg, SetSeq(CHOOSE P \in SUBSET (Yes(cfg) \cup Maybe(cfg)) :
                                      /\ Cardinality(P) = Min2(cfg.maxc, Cardinality(Yes(cfg) \cup Maybe(cfg)))
                                      /\ (Cardinality(Yes(cfg)) <= cfg.maxc => Yes(cfg) \subseteq P))))
Emit == done => PrintT(<<"VEC", ToJson(Vector(row))>>)
=============================================================================
