CONSTANTS
  Types <- TypesAllFF
  MaxSet = 3
  FormsAll = TRUE
SPECIFICATION FSpec
CHECK_DEADLOCK FALSE
