CONSTANTS
  Types <- TypesAll
  MaxSet = 4
SPECIFICATION FSpec
CHECK_DEADLOCK FALSE
