CONSTANTS
  Types <- TypesQuickFF
  MaxSet = 3
  FormsAll = FALSE
SPECIFICATION FSpec
CHECK_DEADLOCK FALSE
