CONSTANTS
  Types <- TypesQuick
  MaxSet = 3
SPECIFICATION FSpec
CHECK_DEADLOCK FALSE
