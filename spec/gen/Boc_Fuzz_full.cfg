CONSTANT ManyVals = TRUE
SPECIFICATION Spec
CHECK_DEADLOCK FALSE
